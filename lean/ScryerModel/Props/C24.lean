import ScryerModel.Proofs.Graph
/-!
# C24 — Cyclic terms are processed correctly and always terminate

Terms are finite term GRAPHS (`Model/Graph.lean`: array of variable / constant / compound nodes,
arbitrary sharing and back edges); the infinite-tree reading of a node is the family of its
unfoldings `unfold g k i` to every finite depth `k`. All theorems hold for every graph of any size
and any cycle structure.

* termination: every algorithm is structurally recursive on explicit fuel; the theorems
  `C24_*_terminates` show that the fuel the entry points start with is never exhausted
  (`size + 1` for the node walks, `size² + 1` for the pair walks), i.e. the visited-set /
  tabu-list mechanism bounds the walk;
* `acyclic_term/1` ⇔ the unfolding is a finite tree ⇔ no cycle is reachable;
* `==` (and `compare/3` answering `=`) ⇔ the two nodes have the same unfolding at every depth;
  any `<`/`>` answer of `compare/3` comes with a depth at which the unfoldings differ;
* `term_variables/2` = exactly the reachable variable nodes, each once; `ground/1` ⇔ none;
* `copy_term/2`: the copy denotes the same tree up to an injective renaming of the variables to
  NEW nodes, and the source graph is untouched;
* the model is pure, so "`acyclic_term/1` leaves every term unchanged" holds trivially in the model;
  for the implementation (pointer reversal, mark bits) it is tied by the run only
  (the unfolding probes before/after), see notes/design/C24.md.

Not proved (tied by the correspondence run only): that the unifier computed by `unify` makes the two
nodes equal and is most general; the order `compare/3` induces on non-equal rational trees.
-/
namespace Scryer.Graph

/-! ## acyclic_term/1 -/

/-- `acyclic_term/1` succeeds exactly when the term is a finite tree (its unfolding is complete at
some depth). -/
theorem C24_acyclic_iff_finite (g : Graph) (r : Nat) :
    acyclic g r = true ↔ ∃ k, fin g k r = true :=
  acyclic_iff_finite g r

/-- `acyclic_term/1` succeeds exactly when no cycle is reachable from the root. In particular the
walk terminates with the right answer on every graph: its fuel `size + 1` is never the reason for
a `false`. -/
theorem C24_acyclic_iff_no_reachable_cycle (g : Graph) (r : Nat) :
    acyclic g r = true ↔ ¬ ∃ x, Reach g r x ∧ ReachP g x x :=
  acyclic_iff_noCycle g r

/-- a finite term stays finite at larger depths (the depth-`k` unfolding has stabilised). -/
theorem C24_fin_mono (g : Graph) {k k' : Nat} (hk : k ≤ k') {i : Nat} (h : fin g k i = true) :
    fin g k' i = true := fin_mono g hk h

/-! ## ==/2 and compare/3 -/

/-- the pair walk never runs out of fuel: at most `size²` pairs of compound nodes enter the tabu
list (termination of `==`/`compare/3` on every graph). -/
theorem C24_compare_terminates (g : Graph) (a b : Nat) : cmp g a b ≠ .fuel :=
  cmp_ne_fuel g a b

/-- `a == b` exactly when the two nodes denote the same (possibly infinite) tree: equal unfoldings
at every depth. Variables are equal only to themselves. -/
theorem C24_eq_iff_same_unfoldings (g : Graph) (a b : Nat) :
    eq g a b = true ↔ ∀ k, unfold g k a = unfold g k b :=
  eq_iff_sameTree g a b

/-- whenever `compare/3` reports an order (`<`, `>`, or two distinct variables) the trees really
differ: there is a depth at which the unfoldings are different. -/
theorem C24_compare_difference_is_real (g : Graph) (a b : Nat)
    (h : cmp g a b = .lt ∨ cmp g a b = .gt ∨ ∃ x y, cmp g a b = .vars x y) :
    ∃ k, unfold g k a ≠ unfold g k b := by
  apply cmpN_diff g (pairFuel g) a b []
  show IsDiff (cmp g a b)
  rcases h with h | h | ⟨x, y, h⟩ <;> rw [h] <;> trivial

/-- `==` is an equivalence on nodes (a consequence of the unfolding characterisation). -/
theorem C24_eq_equivalence (g : Graph) (a b c : Nat) :
    eq g a a = true ∧ (eq g a b = true → eq g b a = true) ∧
    (eq g a b = true → eq g b c = true → eq g a c = true) := by
  refine ⟨(C24_eq_iff_same_unfoldings g a a).mpr (fun _ => rfl), fun h => ?_, fun h1 h2 => ?_⟩
  · exact (C24_eq_iff_same_unfoldings g b a).mpr
      (fun k => ((C24_eq_iff_same_unfoldings g a b).mp h k).symm)
  · exact (C24_eq_iff_same_unfoldings g a c).mpr
      (fun k => ((C24_eq_iff_same_unfoldings g a b).mp h1 k).trans
        ((C24_eq_iff_same_unfoldings g b c).mp h2 k))

/-! ## ground/1 and term_variables/2 -/

/-- the node walk with a visited set terminates on every well-formed graph and lists exactly the
reachable nodes, each once. -/
theorem C24_walk_terminates_and_is_exact (g : Graph) (hw : WF g) (r : Nat) (hr : r < g.size) :
    (∃ s, dfs g (g.size + 1) r [] = some s) ∧
    (reachList g r).Nodup ∧ ∀ x, x ∈ reachList g r ↔ Reach g r x := by
  obtain ⟨s, h, _⟩ := dfs_top g hw r hr
  exact ⟨⟨s, h⟩, reachList_spec g hw r hr⟩

/-- `term_variables/2` returns exactly the variable nodes reachable from the root, each once. -/
theorem C24_term_variables_exact (g : Graph) (hw : WF g) (r : Nat) (hr : r < g.size) :
    (termVars g r).Nodup ∧ ∀ x, x ∈ termVars g r ↔ (Reach g r x ∧ node g x = .var) :=
  termVars_spec g hw r hr

/-- `ground/1` succeeds exactly when no variable is reachable. -/
theorem C24_ground_iff_no_reachable_variable (g : Graph) (hw : WF g) (r : Nat) (hr : r < g.size) :
    ground g r = true ↔ ∀ x, Reach g r x → node g x ≠ .var :=
  ground_spec g hw r hr

/-! ## copy_term/2 -/

/-- `copy_term/2`: the nodes of the source are untouched; the copy denotes, at every depth, the
tree of the source with each variable `x` renamed to `fwd … x`; these are new nodes (index ≥ old
size: the copy shares no variable with the source) and distinct reachable nodes get distinct
copies (sharing and cycles are preserved, not merged). -/
theorem C24_copy_term (g : Graph) (hw : WF g) (r : Nat) (hr : r < g.size) :
    (∀ i, i < g.size → node (copy g r).1 i = node g i) ∧
    (∀ k, unfold (copy g r).1 k (copy g r).2 = unfoldR (fwd g.size (reachList g r)) g k r) ∧
    (∀ x, g.size ≤ fwd g.size (reachList g r) x) ∧
    (∀ x y, Reach g r x → Reach g r y →
      fwd g.size (reachList g r) x = fwd g.size (reachList g r) y → x = y) :=
  copy_spec g hw r hr

/-- renaming by the identity is the plain unfolding (so for a ground term the copy denotes the
same tree as the source). -/
theorem C24_unfoldR_id (g : Graph) (k i : Nat) : unfoldR id g k i = unfold g k i :=
  unfoldR_id g k i

/-! ## unification -/

/-- unification without occurs check terminates on every graph: the tabu list of compound pairs
bounds the walk, the fuel `size² + 1` is never exhausted. (That the computed bindings are a most
general unifier is not proved here; it is tied to the implementation by the run.) -/
theorem C24_unify_terminates (g : Graph) (a b : Nat) : ∀ x, unify g a b = x → x ≠ .fuel :=
  unify_ne_fuel g a b

/-! ## non-vacuity: the branches are reached -/

/-- `X = f(X, Y)`: node 0 = f(0, 1), node 1 a variable. -/
def gLoop : Graph := #[.str 2 [0, 1], .var]
/-- `f(X, a)` twice: a one-node loop and its two-node unrolling. -/
def gTwin : Graph := #[.str 2 [0, 1], .atom 11, .str 2 [3, 1], .str 2 [2, 1]]
/-- a finite DAG with sharing: f(g(V), g(V)) with one shared g(V). -/
def gDag : Graph := #[.str 2 [1, 1], .str 3 [2], .var]

example : WF gLoop := by
  intro i f as h c hc
  rcases i with _ | _ | i
  · simp [node, gLoop] at h
    obtain ⟨_, rfl⟩ := h
    simp at hc
    rcases hc with rfl | rfl <;> simp [gLoop]
  · simp [node, gLoop] at h
  · simp [node, gLoop] at h
example : acyclic gLoop 0 = false := by decide
example : acyclic gDag 0 = true := by decide
example : termVars gLoop 0 = [1] := by decide
example : ground gLoop 0 = false := by decide
example : eq gTwin 0 2 = true := by decide
example : eq gTwin 0 1 = false := by decide
example : cmp gTwin 1 0 = .lt := by decide
example : (copy gLoop 0).2 = 2 ∧ (copy gLoop 0).1 = #[.str 2 [0, 1], .var, .str 2 [2, 3], .var] := by decide
example : unify gLoop 0 1 = .ok [(1, 0)] [] := by decide
example : unify gTwin 0 1 = .fail := by decide

end Scryer.Graph
