import ScryerModel.Proofs.Graph
/-! # C24 — Cyclic terms are processed correctly and always terminate -/
namespace Scryer.Graph

/-- A term that is finite at depth `k` is finite at every larger depth. -/
theorem C24_fin_mono (g : Graph) {k k' : Nat} (hk : k ≤ k') {i : Nat} (h : fin g k i = true) :
    fin g k' i = true := fin_mono g hk h

end Scryer.Graph
