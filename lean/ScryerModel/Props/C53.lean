import ScryerModel.Proofs.UGraph
namespace Scryer.UGraph
end Scryer.UGraph
