import ScryerModel.Proofs.UGraph
import ScryerModel.Proofs.UGraphClosure
import ScryerModel.Proofs.UGraphTopSort
/-!
# C53 — Graph library results match graph-theoretic definitions

Property theorems over `Model/UGraph.lean`, the clause-by-clause transcription of
`src/lib/ugraphs.pl` (and of the `ordsets.pl` predicates it calls) for graphs whose vertices are
natural numbers. A graph is read relationally through `vertices g` (its vertex list) and
`Edge g x y`; `WF g` is the S-representation invariant (keys strictly ascending, neighbour lists
strictly ascending, every neighbour a vertex). All theorems are for graphs of any size.

`C53_canonical` says a well-formed graph is determined by its vertex set and edge relation, so
"`WF` + vertices + edges" pins each result down exactly: this is why the correspondence run may
compare results as text.

Two library predicates are wrong on part of their documented input domain (see
notes/findings/C53-1.md, C53-2.md). For them the theorem about the literal transcription is
named `…_partial` and carries the extra hypothesis under which the library is right, an
`example` shows the failure outside it, and the full-strength theorem is proved for the repaired
algorithm (`delVerticesFixed`, `addVerticesFixed`), which is the patch proposed in the finding.
-/
namespace Scryer.UGraph
open Relation

/-- Canonical form: a well-formed S-representation is determined by its vertices and edges. -/
theorem C53_canonical {g h : Graph} (hg : WF g) (hh : WF h)
    (hv : ∀ v, v ∈ vertices g ↔ v ∈ vertices h) (he : ∀ x y, Edge g x y ↔ Edge h x y) : g = h :=
  graph_ext hg.keys hh.keys hg.nbrs hh.nbrs hv he

/-- `vertices/2` lists exactly the keys. -/
theorem C53_vertices (g : Graph) (v : Nat) : v ∈ vertices g ↔ ∃ ns, (v, ns) ∈ g := mem_vertices

/-- `edges/2` lists exactly the edges, in standard order without duplicates. -/
theorem C53_edges {g : Graph} (hg : WF g) :
    (∀ x y, (x, y) ∈ edges g ↔ Edge g x y) ∧ (edges g).Pairwise EdgeLt :=
  ⟨fun _ _ => mem_edges, sorted_edges hg.keys hg.nbrs⟩

/-- `vertices_edges_to_ugraph/3` on ARBITRARY lists (unsorted, with duplicates): the result is
    well-formed, its vertices are the listed ones plus all edge endpoints, its edges the listed ones. -/
theorem C53_vertices_edges_to_ugraph (vs : List Nat) (es : List (Nat × Nat)) :
    WF (verticesEdgesToUgraph vs es) ∧
    (∀ v, v ∈ vertices (verticesEdgesToUgraph vs es) ↔ v ∈ vs ∨ ∃ e ∈ es, v = e.1 ∨ v = e.2) ∧
    (∀ x y, Edge (verticesEdgesToUgraph vs es) x y ↔ (x, y) ∈ es) :=
  ⟨(vetu_spec vs es).2, fun _ => vetu_vertices, (vetu_spec vs es).1⟩

/-- `add_vertices/3` with the proposed repair (`sort/2` for `msort_/2`), any list of vertices. -/
theorem C53_add_vertices_fixed {g : Graph} (hg : WF g) (vs : List Nat) :
    WF (addVerticesFixed g vs) ∧ (∀ v, v ∈ vertices (addVerticesFixed g vs) ↔ v ∈ vertices g ∨ v ∈ vs) ∧
    ∀ x y, Edge (addVerticesFixed g vs) x y ↔ Edge g x y :=
  addVerticesFixed_spec hg vs

/-- `add_vertices/3` as written in the library. Missing: lists with a repeated vertex, on which
    the library returns an ill-formed graph (finding C53-2; see the `example` below). -/
theorem C53_add_vertices_partial {g : Graph} (hg : WF g) {vs : List Nat} (hnd : vs.Nodup) :
    WF (addVertices g vs) ∧ (∀ v, v ∈ vertices (addVertices g vs) ↔ v ∈ vertices g ∨ v ∈ vs) ∧
    ∀ x y, Edge (addVertices g vs) x y ↔ Edge g x y := by
  rw [addVertices_eq_fixed g hnd]; exact addVerticesFixed_spec hg vs

/-- `del_vertices/3` with the proposed repair, any list of vertices (present or not, repeated). -/
theorem C53_del_vertices_fixed {g : Graph} (hg : WF g) (vs : List Nat) :
    WF (delVerticesFixed g vs) ∧ (∀ v, v ∈ vertices (delVerticesFixed g vs) ↔ v ∈ vertices g ∧ v ∉ vs) ∧
    ∀ x y, Edge (delVerticesFixed g vs) x y ↔ Edge g x y ∧ x ∉ vs ∧ y ∉ vs :=
  delVerticesFixed_spec hg vs

/-- `del_vertices/3` as written in the library. Missing: lists that mention a vertex which is
    not in the graph — then a later listed vertex may survive (finding C53-1; `example` below). -/
theorem C53_del_vertices_partial {g : Graph} (hg : WF g) {vs : List Nat} (hsub : ∀ v ∈ vs, v ∈ vertices g) :
    WF (delVertices g vs) ∧ (∀ v, v ∈ vertices (delVertices g vs) ↔ v ∈ vertices g ∧ v ∉ vs) ∧
    ∀ x y, Edge (delVertices g vs) x y ↔ Edge g x y ∧ x ∉ vs ∧ y ∉ vs := by
  rw [delVertices_eq_fixed hg.keys hsub]; exact delVerticesFixed_spec hg vs

/-- `add_edges/3`, any list of edges: the endpoints become vertices, the edges are added. -/
theorem C53_add_edges {g : Graph} (hg : WF g) (es : List (Nat × Nat)) :
    WF (addEdges g es) ∧
    (∀ v, v ∈ vertices (addEdges g es) ↔ v ∈ vertices g ∨ ∃ e ∈ es, v = e.1 ∨ v = e.2) ∧
    ∀ x y, Edge (addEdges g es) x y ↔ Edge g x y ∨ (x, y) ∈ es :=
  addEdges_spec hg es

/-- `del_edges/3`, any list of edges: no vertex is removed, exactly the listed edges disappear. -/
theorem C53_del_edges {g : Graph} (hg : WF g) (es : List (Nat × Nat)) :
    WF (delEdges g es) ∧ vertices (delEdges g es) = vertices g ∧
    ∀ x y, Edge (delEdges g es) x y ↔ Edge g x y ∧ (x, y) ∉ es :=
  delEdges_spec hg es

/-- `ugraph_union/3`. -/
theorem C53_ugraph_union {g1 g2 : Graph} (h1 : WF g1) (h2 : WF g2) :
    WF (ugraphUnion g1 g2) ∧ (∀ v, v ∈ vertices (ugraphUnion g1 g2) ↔ v ∈ vertices g1 ∨ v ∈ vertices g2) ∧
    ∀ x y, Edge (ugraphUnion g1 g2) x y ↔ Edge g1 x y ∨ Edge g2 x y :=
  ugraphUnion_spec h1 h2

/-- `transpose_ugraph/2`: same vertices, every edge reversed; in particular `edges` of the
    transpose are exactly the swapped edges. -/
theorem C53_transpose {g : Graph} (hg : WF g) :
    WF (transposeUgraph g) ∧ vertices (transposeUgraph g) = vertices g ∧
    (∀ x y, Edge (transposeUgraph g) x y ↔ Edge g y x) ∧
    (∀ x y, (x, y) ∈ edges (transposeUgraph g) ↔ (y, x) ∈ edges g) :=
  ⟨(vetu_spec _ _).2, transpose_vertices hg, fun _ _ => transpose_edge,
   fun _ _ => by rw [mem_edges, mem_edges, transpose_edge]⟩

/-- `neighbours/3` (`neighbors/3`): fails exactly on non-vertices; otherwise returns the ordered
    set of successors. -/
theorem C53_neighbours {g : Graph} (hg : WF g) (v : Nat) :
    (neighbours v g = none ↔ v ∉ vertices g) ∧
    ∀ ns, neighbours v g = some ns → Sorted ns ∧ ∀ y, y ∈ ns ↔ Edge g v y := by
  refine ⟨neighbours_eq_none, fun ns h => ⟨hg.nbrs _ (neighbours_some_mem h), fun y => ?_⟩⟩
  rw [edge_iff_neighbours hg.keys]; simp [h]

/-- `compose/3`: relational composition on the union of the vertex sets. -/
theorem C53_compose {g1 g2 : Graph} (h1 : WF g1) (h2 : WF g2) :
    WF (compose g1 g2) ∧ (∀ v, v ∈ vertices (compose g1 g2) ↔ v ∈ vertices g1 ∨ v ∈ vertices g2) ∧
    ∀ x z, Edge (compose g1 g2) x z ↔ ∃ y, Edge g1 x y ∧ Edge g2 y z :=
  compose_spec h1 h2

/-- `complement/2`: same vertices; `x → y` iff `x ≠ y` are vertices and `x → y` is not an edge. -/
theorem C53_complement {g : Graph} (hg : WF g) :
    WF (complement g) ∧ vertices (complement g) = vertices g ∧
    ∀ x y, Edge (complement g) x y ↔ x ∈ vertices g ∧ y ∈ vertices g ∧ x ≠ y ∧ ¬ Edge g x y :=
  complement_spec hg

/-- `transitive_closure/2` (Warshall): succeeds, keeps the vertices, and its edge relation is
    exactly the transitive closure `TransGen (Edge g)` (paths of length ≥ 1). -/
theorem C53_transitive_closure {g : Graph} (hg : WF g) :
    ∃ c, transitiveClosure g = some c ∧ WF c ∧ vertices c = vertices g ∧
      ∀ a b, Edge c a b ↔ TransGen (Edge g) a b :=
  transitiveClosure_spec hg

/-- Consequently the closure is transitive, contains the graph, and is contained in every
    transitive relation that contains the graph (it is the least one). -/
theorem C53_transitive_closure_least {g c : Graph} (hg : WF g) (hc : transitiveClosure g = some c) :
    (∀ x y z, Edge c x y → Edge c y z → Edge c x z) ∧ (∀ x y, Edge g x y → Edge c x y) ∧
    ∀ T : Nat → Nat → Prop, (∀ x y z, T x y → T y z → T x z) → (∀ x y, Edge g x y → T x y) →
      ∀ x y, Edge c x y → T x y := by
  obtain ⟨c', hc', _, _, hE⟩ := transitiveClosure_spec hg
  rw [hc] at hc'; cases hc'
  refine ⟨fun x y z h1 h2 => (hE x z).2 (((hE x y).1 h1).trans ((hE y z).1 h2)),
    fun x y e => (hE x y).2 (.single e), fun T ht hsub x y e => ?_⟩
  have := (hE x y).1 e
  clear e
  induction this with
  | single e => exact hsub _ _ e
  | tail _ e ih => exact ht _ _ _ ih (hsub _ _ e)

/-- `reachable/3` from a vertex: succeeds with the ordered set of vertices related to it by the
    reflexive-transitive closure of the edge relation (the loop bound of the model is not hit). -/
theorem C53_reachable {g : Graph} (hg : WF g) {v : Nat} (hv : v ∈ vertices g) :
    ∃ out, reachable v g = some out ∧ Sorted out ∧ ∀ x, x ∈ out ↔ ReflTransGen (Edge g) v x :=
  reachable_spec hg hv

/-- `reachable/3` from a non-vertex fails. -/
theorem C53_reachable_not_vertex {g : Graph} {v : Nat} (hv : v ∉ vertices g) : reachable v g = none :=
  reachable_none hv

/-- `top_sort/2`, soundness: any answer is a permutation of the vertices in which the source of
    every edge occurs strictly before its target. -/
theorem C53_top_sort_sound {g : Graph} (hg : WF g) {L : List Nat} (h : topSort g = some L) :
    L.Perm (vertices g) ∧ ∀ pre v post, L = pre ++ v :: post → ∀ u, Edge g u v → u ∈ pre :=
  topSort_sound hg h

/-- `top_sort/2`, completeness: on an acyclic graph it succeeds (connected or not; the loop
    bound of the model is not hit). -/
theorem C53_top_sort_complete {g : Graph} (hg : WF g) (hac : ∀ v, ¬ TransGen (Edge g) v v) :
    ∃ L, topSort g = some L :=
  topSort_complete hg hac

/-- `top_sort/2` succeeds exactly on the acyclic graphs. -/
theorem C53_top_sort_iff_acyclic {g : Graph} (hg : WF g) :
    (∃ L, topSort g = some L) ↔ ∀ v, ¬ TransGen (Edge g) v v :=
  ⟨fun ⟨_, h⟩ => acyclic_of_topSort hg h, topSort_complete hg⟩

/-! ## non-vacuity: hypotheses are satisfiable, branches are reached -/

/-- the doc example of `vertices/2` is well-formed. -/
example : WF [(1, [3, 5]), (2, [4]), (3, []), (4, [5]), (5, [])] := by
  refine wf_iff.2 ⟨by simp [Sorted], by simp [Sorted], ?_⟩
  intro x y; simp; omega

-- top_sort: an acyclic graph is ordered (the stack order of the library), a cycle / a loop fails
example : topSort [(1, [2]), (2, []), (3, [1])] = some [3, 1, 2] := by decide
example : topSort [(1, [2]), (2, [1])] = none := by decide
example : topSort [(1, [1])] = none := by decide
example : topSort [(1, []), (2, [])] = some [1, 2] := by decide

-- Warshall adds the path 1 → 3, and the loop of a cycle
example : transitiveClosure [(1, [2]), (2, [3]), (3, [])] = some [(1, [2, 3]), (2, [3]), (3, [])] := by
  simp [transitiveClosure, warshall, warshallStep, neighbours, ordUnion]
example : transitiveClosure [(1, [2]), (2, [1])] = some [(1, [1, 2]), (2, [1, 2])] := by
  simp [transitiveClosure, warshall, warshallStep, neighbours, ordUnion]

-- reachable: from a vertex, and failure from a non-vertex
example : reachable 1 [(1, [3]), (2, [1]), (3, [])] = some [1, 3] := by
  simp [reachable, reachableLoop, neighbours, ordUnionNew, consFst]
example : reachable 7 [(1, [3]), (2, [1]), (3, [])] = none := by
  simp [reachable, reachableLoop, neighbours]

/-- finding C53-1: the library's `del_vertices/3` keeps vertex 2 when the list also names the
    absent vertex 1; the repaired algorithm removes it. -/
example : delVertices [(2, []), (3, [2])] [1, 2] = [(2, []), (3, [])] ∧
    delVerticesFixed [(2, []), (3, [2])] [1, 2] = [(3, [])] := by
  simp [delVertices, delVerticesFixed, delVerticesAux, delVerticesAuxFixed, delRemaining, sortNat, sortSet,
    insertSet, natLt, ordSubtract]

/-- finding C53-2: the library's `add_vertices/3` duplicates a vertex that is listed twice; the
    result is not a well-formed graph. -/
example : addVertices [] [1, 1] = [(1, []), (1, [])] ∧ ¬ WF (addVertices [] [1, 1]) ∧
    addVerticesFixed [] [1, 1] = [(1, [])] := by
  have h1 : addVertices [] [1, 1] = [(1, []), (1, [])] := by
    simp [addVertices, msortNat, insertDup, addVerticesToSGraph, addEmptyVertices]
  refine ⟨h1, fun h => ?_, ?_⟩
  · have := h.keys
    simp [h1, Sorted] at this
  · simp [addVerticesFixed, sortNat, sortSet, insertSet, natLt, addVerticesToSGraph, addEmptyVertices]

end Scryer.UGraph
