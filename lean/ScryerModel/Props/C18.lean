import ScryerModel.Proofs.CharReader
/-!
# C18 — Text decoding does not depend on how input arrives

`Model/CharReader.lean` mirrors `src/parser/char_reader.rs` (`read_chunk`, `refresh_buffer`,
`peek_char` with its compaction and `bad_bytes_error`, `read_char`, `put_back_char`, `consume`)
branch by branch; `Out.panic` marks every `expect`/`assert!`/slice-index panic of the Rust code.
The underlying reader is the list of chunks its future `read` calls return. `pending s` (the
unread bytes: rest of the buffer followed by all future chunks) is the abstraction function;
`specPeek`/`specRead`/`specPutBack` are the operations of a stream that is nothing but its
unread bytes, defined from `Model/Utf8.lean` (`decodeFirst`: Rust's `from_utf8` error model).
`WF s`: the cursor is inside the buffer and no chunk is empty (`Ok(0)` = end of input).
All theorems are for every state / byte string / chunking. Lemmas are in `Proofs/`.
-/
namespace Scryer.CharReader
open Scryer.Utf8

/-! ## T0 — facts about the UTF-8 decoder that the reader relies on -/

/-- A decoded character spans exactly `len_utf8` bytes, all of them present, and is a scalar
    value (so it is a legal Rust `char`). -/
theorem C18_utf8_ok (l : List Nat) (cp n : Nat) (h : decodeFirst l = .ok cp n) :
    n = lenUtf8 cp ∧ n ≤ l.length ∧ 1 ≤ n ∧ isScalar cp = true :=
  decodeFirst_ok h

/-- An invalid sequence has 1 to 3 bytes, all of them present. -/
theorem C18_utf8_invalid (l : List Nat) (n : Nat) (h : decodeFirst l = .invalid n) :
    1 ≤ n ∧ n ≤ l.length ∧ n ≤ 3 :=
  decodeFirst_invalid h

/-- Prefix stability: once the decoder has decided (character or invalid sequence), bytes
    arriving later do not change the decision. -/
theorem C18_utf8_prefix_stable (p q : List Nat) (h : decodeFirst p ≠ .incomplete) :
    decodeFirst (p ++ q) = decodeFirst p :=
  decodeFirst_append q h

/-- Only the first four bytes matter (why `peek_char` may decode a 4-byte prefix), and four
    bytes always suffice to decide. -/
theorem C18_utf8_first4 (l : List Nat) :
    decodeFirst (l.take 4) = decodeFirst l ∧ (decodeFirst l = .incomplete → l.length < 4) :=
  ⟨decodeFirst_take4 l, decodeFirst_incomplete_length⟩

/-- Round trip with `char::encode_utf8` (what `put_back_char` writes), whatever follows. -/
theorem C18_utf8_roundtrip (cp : Nat) (q : List Nat) (h : isScalar cp = true) :
    decodeFirst (encode cp ++ q) = .ok cp (lenUtf8 cp) ∧ (encode cp).length = lenUtf8 cp :=
  ⟨decodeFirst_encode h q, encode_length cp⟩

/-! ## T1 — peek -/

/-- `peek_char` never panics, does not change the unread input, and answers exactly what the
    stream specification answers on the unread bytes — whatever the buffer contents, cursor
    position and future chunking are. -/
theorem C18_peek_refines (s : St) (h : WF s) :
    WF (peekChar s).1 ∧ pending (peekChar s).1 = pending s ∧
      (peekChar s).2 = specPeek (pending s) ∧ (peekChar s).2 ≠ .panic := by
  obtain ⟨h1, h2, h3, _⟩ := peekChar_spec h
  exact ⟨h1, h2, h3, by rw [h3]; exact specPeek_ne_panic _⟩

/-- Peeking twice gives the same answer (and still the same unread input). -/
theorem C18_peek_idempotent (s : St) (h : WF s) :
    (peekChar (peekChar s).1).2 = (peekChar s).2 ∧
      pending (peekChar (peekChar s).1).1 = pending s := by
  obtain ⟨h1, h2, h3, _⟩ := peekChar_spec h
  obtain ⟨_, k2, k3, _⟩ := peekChar_spec h1
  exact ⟨by rw [k3, h2, h3], by rw [k2, h2]⟩

/-! ## T2 — read -/

/-- `read_char` (followed, after a bad-bytes error, by the caller's `consume(bytes.len())`)
    returns the first item of the unread bytes and leaves exactly the rest unread. -/
theorem C18_read_refines (s : St) (h : WF s) :
    WF (readItem s).1 ∧ (pending (readItem s).1, (readItem s).2) = specRead (pending s) :=
  readItem_spec h

/-- Reading never panics. -/
theorem C18_read_no_panic (s : St) (h : WF s) : (readItem s).2 ≠ .panic := by
  have hsp := (readItem_spec h).2
  by_cases hne : pending s = []
  · rw [hne, specRead_nil] at hsp
    rw [(Prod.mk.inj hsp).2]; intro h; cases h
  · rw [specRead_of_ne hne] at hsp
    rw [(Prod.mk.inj hsp).2]; exact itemToOut_ne_panic _

/-! ## T3 — put back -/

/-- `put_back_char(c)` prepends the encoding of `c` to the unread input, in both of its
    branches (room before the cursor / buffer grown at the front). -/
theorem C18_putback_refines (s : St) (cp : Nat) (h : WF s) :
    WF (putBack s cp) ∧ pending (putBack s cp) = specPutBack (pending s) cp :=
  putBack_spec h cp

/-- Putting a character back and reading again returns that character and restores the
    stream. -/
theorem C18_putback_read (s : St) (cp : Nat) (h : WF s) (hs : isScalar cp = true) :
    (readItem (putBack s cp)).2 = .char cp ∧
      pending (readItem (putBack s cp)).1 = pending s ∧ WF (readItem (putBack s cp)).1 :=
  putBack_read h hs

/-- `put_back_char(c)` after `read_char` returned `c` restores the observable stream. -/
theorem C18_read_putback (s : St) (cp : Nat) (h : WF s) (hr : (readItem s).2 = .char cp) :
    WF (putBack (readItem s).1 cp) ∧ pending (putBack (readItem s).1 cp) = pending s :=
  read_putBack h hr

/-! ## T4 — the whole stream, and independence of chunking -/

/-- Reading a stream to its end yields exactly the decoding of the concatenated bytes:
    every character, and every invalid sequence once, in order. -/
theorem C18_readAll_eq_decode (chunks : List (List Nat)) (h : ∀ c ∈ chunks, c ≠ []) :
    readAll chunks = (decodeAll chunks.flatten).map itemToOut :=
  readAll_spec h

/-- Decoding never panics. -/
theorem C18_readAll_no_panic (chunks : List (List Nat)) (h : ∀ c ∈ chunks, c ≠ []) :
    Out.panic ∉ readAll chunks := by
  rw [readAll_spec h]
  intro hm
  obtain ⟨it, _, hit⟩ := List.mem_map.1 hm
  exact itemToOut_ne_panic it hit

/-- Sanity of the specification itself: the items of `decodeAll` partition the input (a
    character stands for its `encode_utf8` bytes, an error for the bytes it reports), so nothing
    is dropped, duplicated or reordered. -/
theorem C18_decodeAll_partitions_input (l : List Nat) :
    (decodeAll l).flatMap itemBytes = l :=
  decodeAllF_bytes _ _ (Nat.le_refl _)

/-- HEADLINE: text decoding does not depend on how the input arrives. -/
theorem C18_chunking_independent (cs1 cs2 : List (List Nat)) (h1 : ∀ c ∈ cs1, c ≠ [])
    (h2 : ∀ c ∈ cs2, c ≠ []) (h : cs1.flatten = cs2.flatten) : readAll cs1 = readAll cs2 := by
  rw [readAll_spec h1, readAll_spec h2, h]

/-! ## non-vacuity: the interesting branches are reached -/

-- a character split across two reads, starting at buffer offset 3 (< 4: no compaction)
example : readAll [[0x61, 0x62, 0x63, 0xE2, 0x82], [0xAC]]
    = [.char 0x61, .char 0x62, .char 0x63, .char 0x20AC] := by decide
-- the same bytes in one chunk, byte by byte
example : readAll [[0x61, 0x62, 0x63, 0xE2, 0x82, 0xAC]] = readAll [[0x61], [0x62], [0x63], [0xE2], [0x82], [0xAC]] := by decide
-- a truncated character at end of input: one bad-bytes error carrying all remaining bytes
example : readAll [[0x61, 0x62, 0xE2, 0x82]] = [.char 0x61, .char 0x62, .bad [0xE2, 0x82]] := by decide
example : readAll [[0xE2, 0x82]] = [.bad [0xE2, 0x82]] := by decide
-- compaction branch (`pos > 4`): the split character starts at buffer offset 5
example : (peekChar { buf := [0x61, 0x62, 0x63, 0x64, 0x65, 0xE2, 0x82], pos := 5, chunks := [[0xAC]] })
    = ({ buf := [0x61, 0x62, 0x63, 0x64, 0xE2, 0x82, 0xAC], pos := 4, chunks := [] }, .char 0x20AC) := by decide
-- put-back growing the buffer at the front (`c_len > pos`)
example : putBack { buf := [0x61], pos := 0, chunks := [] } 0x20AC
    = { buf := [0xE2, 0x82, 0xAC, 0x61], pos := 0, chunks := [] } := by decide
-- maximal-invalid-prefix rule: E2 28 → one bad byte, then '('
example : readAll [[0xE2], [0x28, 0xA1]] = [.bad [0xE2], .char 0x28, .bad [0xA1]] := by decide

/-! ## sensitivity: the code before the two `fix:` commits does NOT satisfy the theorems

`peekLoopOld` (in `Proofs/CharReader`) is the loop with the original guard
`self.buf.len() > 4` around `self.buf.drain(4..self.pos)` and the original
`bad_bytes_error(&self.buf)` / `error_len().expect(..)` at end of input. On the very inputs
above it panics, so `C18_readAll_no_panic` / `C18_chunking_independent` are false for it:
the proofs depend on the repaired guard `self.pos > 4` and on `&self.buf[self.pos..]`. -/

example : readAllOld [[0x61, 0x62, 0x63, 0xE2, 0x82], [0xAC]]
    = [.char 0x61, .char 0x62, .char 0x63, .panic] := by decide
example : readAllOld [[0x61, 0x62, 0x63, 0xE2, 0x82, 0xAC]]
    = [.char 0x61, .char 0x62, .char 0x63, .char 0x20AC] := by decide
example : readAllOld [[0xE2, 0x82]] = [.panic] := by decide
example : readAllOld [[0x61, 0x62, 0xE2, 0x82]] = [.char 0x61, .char 0x62, .panic] := by decide

end Scryer.CharReader
