import ScryerModel.Model.CharReader
namespace Scryer.CharReader
theorem C18_placeholder : (1 : Nat) = 1 := rfl
end Scryer.CharReader
