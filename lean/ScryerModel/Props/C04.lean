import ScryerModel.Proofs.NumCmp
import ScryerModel.Extracted.CmpInstrs
/-
C04 — Arithmetic comparison is exact and self-consistent.

`cmpNum` / `eqNum` mirror the 16 arms of `impl Ord for Number` / `impl PartialEq for Number`
(src/arithmetic.rs) with correctly rounded conversions to `f64`; `holds op a b` is what the comparison
instruction for `op` does with `n1.cmp(&n2)` (src/machine/dispatch.rs). `cmpSpec` is the statement's rule.
Functions are total: no comparison of two numbers raises an error (a value beyond the double range
converts to ±∞ and is compared as such).
-/
namespace Scryer.NumCmp
open Scryer.F64

set_option exponentiation.threshold 3000

/-! ### agreement with the comparison of values -/

/-- The 16 representation arms compute the rule of the statement, for all numbers. -/
theorem C04_cmp_is_spec (a b : Number) : cmpNum a b = cmpSpec a b := cmpNum_eq_spec a b

/-- Between integers (fixnum or bignum, any size) and rationals the comparison is the exact order of
    their rational values. -/
theorem C04_exact_between_integers_and_rationals (a b : Number) (ha : a.wf) (hb : b.wf)
    (fa : a.isFloat = false) (fb : b.isFloat = false) :
    cmpNum a b = compare (valQ a) (valQ b) := by
  rw [cmpNum_eq_spec]; exact cmpSpec_exact a b ha hb fa fb

/-- When one side is a float, the other side is converted to the nearest double (`F64.rne`, ties to
    even, beyond the range: ±∞) and the two doubles are compared. -/
theorem C04_float_rule (a b : Number) (h : a.isFloat = true ∨ b.isFloat = true) :
    cmpNum a b = F64.cmp (toF64 a) (toF64 b) := by
  rw [cmpNum_eq_spec]; exact cmpSpec_float a b h

/-- Comparing two finite doubles is comparing their rational values … -/
theorem C04_float_cmp_is_value_cmp (x y : F64) (hx : isFinite x = true) (hy : isFinite y = true) :
    F64.cmp x y = compare (toQ x) (toQ y) := cmp_finite x y hx hy

/-- … and the rational value of a finite double is the IEEE-754 one:
    `(-1)^sign · significand · 2^exponent` (hidden bit and exponent −1075 for normal numbers,
    no hidden bit and exponent −1074 for subnormals and zero). -/
theorem C04_float_value (f : F64) (h : isFinite f = true) :
    toQ f = (if signBit f = 1 then -1 else 1) * ((sigExp f).1 : ℚ) * (2:ℚ) ^ (sigExp f).2 :=
  toQ_formula f h

/-- `-0.0` and `+0.0` compare equal; NaN (not producible by the evaluator, but a value of the type)
    equals NaN and is above everything, as `OrderedFloat` defines. -/
theorem C04_zero_and_nan :
    F64.cmp negZero posZero = .eq ∧ (∀ x, isNaN x = true → ∀ y, isNaN y = true → F64.cmp x y = .eq) ∧
    (∀ x, isNaN x = true → ∀ y, isNaN y = false → F64.cmp x y = .gt) := by
  refine ⟨by decide, ?_, ?_⟩
  · intro x hx y hy
    simp [F64.cmp, (toX_nan x).mpr hx, (toX_nan y).mpr hy, XVal.cmp]
  · intro x hx y hy
    have hy' : toX y ≠ .nan := fun h => by simp [(toX_nan y).mp h] at hy
    simp only [F64.cmp, (toX_nan x).mpr hx]
    cases h : toX y <;> simp_all [XVal.cmp]

/-- An integer is compared the same whether it is held as a fixnum or as a bignum. -/
theorem C04_representation_independent (v : Int) (x : Number) :
    cmpNum (.fix v) x = cmpNum (.big v) x ∧ cmpNum x (.fix v) = cmpNum x (.big v) := by
  constructor <;> cases x <;> rfl

/-! ### the six predicates -/

/-- Each predicate is the corresponding Boolean function of the specification's ordering. -/
theorem C04_six_predicates (a b : Number) :
    (holds .lt a b = true ↔ cmpSpec a b = .lt) ∧
    (holds .le a b = true ↔ cmpSpec a b ≠ .gt) ∧
    (holds .gt a b = true ↔ cmpSpec a b = .gt) ∧
    (holds .ge a b = true ↔ cmpSpec a b ≠ .lt) ∧
    (holds .eq a b = true ↔ cmpSpec a b = .eq) ∧
    (holds .ne a b = true ↔ cmpSpec a b ≠ .eq) := by
  simp only [holds, holdsWith, ← cmpNum_eq_spec, show cmpWith Conv.exact = cmpNum from rfl]
  cases cmpNum a b <;> simp [CmpOp.accepts]

/-- Trichotomy: exactly one of `<`, `=:=`, `>` holds (for every pair of numbers and whatever the
    conversion functions are). -/
theorem C04_trichotomy (c : Conv) (a b : Number) :
    (holdsWith c .lt a b = true ∧ holdsWith c .eq a b = false ∧ holdsWith c .gt a b = false) ∨
    (holdsWith c .lt a b = false ∧ holdsWith c .eq a b = true ∧ holdsWith c .gt a b = false) ∨
    (holdsWith c .lt a b = false ∧ holdsWith c .eq a b = false ∧ holdsWith c .gt a b = true) := by
  simp only [holdsWith]; cases cmpWith c a b <;> simp [CmpOp.accepts]

/-- The six predicates agree with each other. -/
theorem C04_predicates_consistent (c : Conv) (a b : Number) :
    holdsWith c .le a b = (holdsWith c .lt a b || holdsWith c .eq a b) ∧
    holdsWith c .ge a b = (holdsWith c .gt a b || holdsWith c .eq a b) ∧
    holdsWith c .ne a b = !holdsWith c .eq a b ∧
    holdsWith c .ne a b = (holdsWith c .lt a b || holdsWith c .gt a b) ∧
    holdsWith c .le a b = !holdsWith c .gt a b ∧
    holdsWith c .ge a b = !holdsWith c .lt a b := by
  simp only [holdsWith]; cases cmpWith c a b <;> simp [CmpOp.accepts]

/-- Swapping the arguments mirrors the predicate: `a < b ↔ b > a`, `a =< b ↔ b >= a`, `=:=` and
    `=\=` are symmetric. -/
theorem C04_symmetry (c : Conv) (a b : Number) :
    holdsWith c .lt a b = holdsWith c .gt b a ∧ holdsWith c .le a b = holdsWith c .ge b a ∧
    holdsWith c .eq a b = holdsWith c .eq b a ∧ holdsWith c .ne a b = holdsWith c .ne b a := by
  simp only [holdsWith, cmpWith_swap c a b]; cases cmpWith c b a <;> simp [CmpOp.accepts, Ordering.swap]

/-- Antisymmetry: `a =< b` and `b =< a` give `a =:= b`; `a < b` excludes `b < a`. -/
theorem C04_antisymmetry (c : Conv) (a b : Number) :
    (holdsWith c .le a b = true → holdsWith c .le b a = true → holdsWith c .eq a b = true) ∧
    (holdsWith c .lt a b = true → holdsWith c .lt b a = false) := by
  simp only [holdsWith, cmpWith_swap c a b]; cases cmpWith c b a <;> simp [CmpOp.accepts, Ordering.swap]

/-- `PartialEq for Number` (used by `==`-like consumers) agrees with `Ord for Number` giving `Equal`,
    in all 16 arms. -/
theorem C04_eq_arm_agrees (c : Conv) (a b : Number) : eqWith c a b = holdsWith c .eq a b := by
  rw [eqWith_iff_cmp]; rfl

/-! ### the instructions (table extracted from dispatch.rs on every run) -/

/-- on which orderings the extracted instruction `(v, op)` succeeds; `none` if it is not in the table. -/
def instrAccepts (v : Variant) (op : CmpOp) (o : Ordering) : Option Bool :=
  match Scryer.Extracted.cmpInstrTable.find? (fun r => r.1 == v && r.2.1 == op) with
  | some r => some (r.2.2.contains o)
  | none => none

/-- Compiled comparison and run-time (metacall) comparison agree: all 24 comparison instructions found
    in the current dispatch.rs — `CallNumber…` / `ExecuteNumber…` emitted for a comparison in a clause
    body, their `Default…` twins, and the `ExecuteNumber…` stubs that `call/N` reaches — succeed on exactly
    the orderings `CmpOp.accepts` lists, whatever the variant. -/
theorem C04_instruction_table :
    Scryer.Extracted.cmpInstrTable.length = 24 ∧
    ∀ v : Variant, ∀ op : CmpOp, ∀ o : Ordering, instrAccepts v op o = some (op.accepts o) := by
  refine ⟨by decide, ?_⟩
  intro v op o
  cases v <;> cases op <;> cases o <;> decide

/-! ### transitivity -/

/-- Within exact numbers (integers and rationals of any size) `=<` is transitive and `=:=` is a
    congruence for the comparison with any third exact number. -/
theorem C04_transitive_exact (a b c : Number) (ha : a.wf) (hb : b.wf) (hc : c.wf)
    (fa : a.isFloat = false) (fb : b.isFloat = false) (fc : c.isFloat = false) :
    (holds .le a b = true → holds .le b c = true → holds .le a c = true) ∧
    (holds .eq a b = true → cmpNum a c = cmpNum b c) := by
  have e1 := C04_exact_between_integers_and_rationals a b ha hb fa fb
  have e2 := C04_exact_between_integers_and_rationals b c hb hc fb fc
  have e3 := C04_exact_between_integers_and_rationals a c ha hc fa fc
  simp only [holds, holdsWith, show cmpWith Conv.exact = cmpNum from rfl, e1, e2, e3]
  constructor
  · intro h1 h2
    have h1' : valQ a ≤ valQ b := by
      rcases lt_trichotomy (valQ a) (valQ b) with h | h | h
      · exact le_of_lt h
      · exact le_of_eq h
      · rw [compare_gt_iff_gt.mpr h] at h1; simp [CmpOp.accepts] at h1
    have h2' : valQ b ≤ valQ c := by
      rcases lt_trichotomy (valQ b) (valQ c) with h | h | h
      · exact le_of_lt h
      · exact le_of_eq h
      · rw [compare_gt_iff_gt.mpr h] at h2; simp [CmpOp.accepts] at h2
    rcases lt_or_eq_of_le (le_trans h1' h2') with h | h
    · rw [compare_lt_iff_lt.mpr h]; rfl
    · rw [compare_eq_iff_eq.mpr h]; rfl
  · intro h
    have : valQ a = valQ b := by
      rcases lt_trichotomy (valQ a) (valQ b) with h' | h' | h'
      · rw [compare_lt_iff_lt.mpr h'] at h; simp [CmpOp.accepts] at h
      · exact h'
      · rw [compare_gt_iff_gt.mpr h'] at h; simp [CmpOp.accepts] at h
    rw [this]

/-- When every link of a chain involves a float (at least two of the three numbers are floats), all
    three comparisons are comparisons of doubles, so `=<` is transitive and `=:=` a congruence. -/
theorem C04_transitive_via_floats (a b c : Number)
    (h : (a.isFloat && b.isFloat) || (a.isFloat && c.isFloat) || (b.isFloat && c.isFloat) = true) :
    (holds .le a b = true → holds .le b c = true → holds .le a c = true) ∧
    (holds .eq a b = true → cmpNum a c = cmpNum b c) := by
  have hab : a.isFloat = true ∨ b.isFloat = true := by
    cases ha : a.isFloat <;> cases hb : b.isFloat <;> simp_all
  have hbc : b.isFloat = true ∨ c.isFloat = true := by
    cases hb : b.isFloat <;> cases hc : c.isFloat <;> simp_all
  have hac : a.isFloat = true ∨ c.isFloat = true := by
    cases ha : a.isFloat <;> cases hc : c.isFloat <;> simp_all
  simp only [holds, holdsWith, show cmpWith Conv.exact = cmpNum from rfl,
    C04_float_rule a b hab, C04_float_rule b c hbc, C04_float_rule a c hac, F64.cmp]
  have wa := toX_wf (toF64 a); have wb := toX_wf (toF64 b); have wc := toX_wf (toF64 c)
  constructor
  · intro h1 h2
    have h1' : XVal.cmp (toX (toF64 a)) (toX (toF64 b)) ≠ .gt := by
      intro hh; rw [hh] at h1; simp [CmpOp.accepts] at h1
    have h2' : XVal.cmp (toX (toF64 b)) (toX (toF64 c)) ≠ .gt := by
      intro hh; rw [hh] at h2; simp [CmpOp.accepts] at h2
    have := XVal.cmp_le_trans _ _ _ wa wb wc h1' h2'
    cases hc : XVal.cmp (toX (toF64 a)) (toX (toF64 c)) <;> simp_all [CmpOp.accepts]
  · intro h1
    apply XVal.cmp_eq_congr _ _ _ wa wb wc
    cases hc : XVal.cmp (toX (toF64 a)) (toX (toF64 b)) <;> simp_all [CmpOp.accepts]

/-- Transitivity FAILS across the float conversion when exactly one of three numbers is a float:
    `2^53+1 =:= 2.0^53` and `2.0^53 =:= 2^53` hold (the integer rounds to the double), yet
    `2^53+1 > 2^53`. This is inherent in the rule of the statement, not a defect of the code. -/
theorem C04_transitivity_fails_across_conversion :
    let a := Number.fix (2^53 + 1); let f := Number.flt ⟨0x4340000000000000⟩; let b := Number.fix (2^53)
    holds .eq a f = true ∧ holds .eq f b = true ∧ holds .eq a b = false ∧ holds .gt a b = true := by
  decide

/-! ### conversion at the edges of the double range -/

/-- Conversion overflow is not an error in a comparison: an integer ≥ 2^1024 − 2^970 (here 2^2000, and
    the threshold itself, which is a tie resolved to the even neighbour 2^1024 = +∞) is greater than
    every finite double, the integer just below the threshold equals `f64::MAX`; values below
    2^-1075 (and the tie 2^-1075 itself) convert to zero, 3·2^-1076 to the least subnormal. -/
theorem C04_range_edges :
    cmpNum (.big (2^2000)) (.flt ⟨0x7FEFFFFFFFFFFFFF⟩) = .gt ∧
    cmpNum (.big (-(2^2000))) (.flt ⟨0xFFEFFFFFFFFFFFFF⟩) = .lt ∧
    cmpNum (.big (2^1024 - 2^970)) (.flt ⟨0x7FEFFFFFFFFFFFFF⟩) = .gt ∧
    cmpNum (.big (2^1024 - 2^970 - 1)) (.flt ⟨0x7FEFFFFFFFFFFFFF⟩) = .eq ∧
    cmpNum (.rat 1 (2^1075)) (.flt ⟨0⟩) = .eq ∧
    cmpNum (.rat 3 (2^1076)) (.flt ⟨1⟩) = .eq ∧
    cmpNum (.rat 1 (2^1075)) (.rat 3 (2^1076)) = .lt := by
  decide +kernel

/-! ### the pinned conversions (findings C04-1, C04-2) -/

/-- C04-2: the mirror of the pinned `RBig::to_f64` rounds `(3·2^53+8)/3 = 2^53+2.67` to `2^53+4`
    (twice rounded) while the nearest double is `2^53+2`; the pinned comparison therefore says `=:=`
    where the specification says `<`. -/
theorem C04_pinned_rational_conversion_violates :
    dashuRatToF64 (3*2^53+8) 3 = ⟨0x4340000000000002⟩ ∧ rne (3*2^53+8) 3 = ⟨0x4340000000000001⟩ ∧
    cmpWith Conv.pinned (.rat (3*2^53+8) 3) (.flt ⟨0x4340000000000002⟩) = .eq ∧
    cmpSpec (.rat (3*2^53+8) 3) (.flt ⟨0x4340000000000002⟩) = .lt := by
  decide

/-- C04-1: the mirror of the pinned `IBig::to_f64` (> 128 bits; `encode` drops one sticky bit) rounds
    `2^130 + 2^77 + 2^76` (0.75 ulp above `2^130`) down to `2^130`, and is not even monotone:
    `2^130 + 2^77 + 1` is smaller but converts to the next double. -/
theorem C04_pinned_integer_conversion_violates :
    dashuIntToF64 (2^130 + 2^77 + 2^76) = ⟨0x4810000000000000⟩ ∧
    rne (2^130 + 2^77 + 2^76) 1 = ⟨0x4810000000000001⟩ ∧
    dashuIntToF64 (2^130 + 2^77 + 1) = ⟨0x4810000000000001⟩ ∧
    cmpWith Conv.pinned (.big (2^130 + 2^77 + 2^76)) (.flt ⟨0x4810000000000000⟩) = .eq ∧
    cmpSpec (.big (2^130 + 2^77 + 2^76)) (.flt ⟨0x4810000000000000⟩) = .gt := by
  decide

/-! ### non-vacuity -/

example : Number.wf (.rat (-7) 3) := by show 0 < 3; decide
example : cmpNum (.rat (-7) 3) (.big (-(2^70))) = .gt := by decide
example : cmpNum (.fix 1) (.rat 2 2) = .eq := by decide
example : isFinite ⟨0x3FF0000000000000⟩ = true ∧ toX ⟨0x3FF0000000000000⟩ = .fin (2^52) (2^52) := by decide
example : holds .lt (.flt ⟨1⟩) (.rat 1 (2^1000)) = true := by decide +kernel
-- a chain with two floats (hypothesis of `C04_transitive_via_floats` is satisfiable)
example : ((Number.fix 1).isFloat && (Number.flt ⟨0⟩).isFloat || (Number.fix 1).isFloat && (Number.flt ⟨1⟩).isFloat
    || (Number.flt ⟨0⟩).isFloat && (Number.flt ⟨1⟩).isFloat) = true := by decide

end Scryer.NumCmp
