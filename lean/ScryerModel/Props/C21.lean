import ScryerModel.Proofs.Atoms
import ScryerModel.Model.Utf8
/-!
# C21 — Atom identity is text identity

`Model/Atoms.lean` mirrors the representation decision and the encodings of src/atom_table.rs
(`AtomTable::build_with`, `AtomCell::new_inlined`, `inlined_to_str`, `Atom::as_str`,
`AtomCell::new_char_inlined`) and of build/static_string_indexing.rs (`static_string_index`).
Atoms are compared by their 64-bit index (`#[derive(PartialEq)] struct Atom { index }`), so "two
atoms are identical iff their texts are equal" is: the index computed for a text is a function of
the text only, injective, and decodes back to the text — across the inlined, static and dynamic
representations, for every sequence of insertions. The ordering part of the statement (atoms
order by code points = byte order of UTF-8) is theorem `C13_atom_order_is_byte_order` of C13.
-/
namespace Scryer.Atoms

/-- which texts are inlined (the same expression in atom_table.rs and in the build script). -/
theorem C21_inline_decision (s : Bytes) :
    inlineable s = true ↔ s ≠ [] ∧ s.length ≤ 6 ∧ 0 ∉ s := inlineable_iff s

theorem packLE_lt (s : Bytes) (h : BytesOk s) : packLE s < 256 ^ s.length := by
  induction s with
  | nil => simp [packLE]
  | cons b r ih =>
    have hb : b < 256 := h b (by simp)
    have := ih (fun x hx => h x (by simp [hx]))
    simp only [packLE, List.length_cons, Nat.pow_succ]
    omega

/-- the packed text of an inlined atom fits the 48-bit name field of `AtomCell` (nothing is cut
    off by `with_name`), and the index is odd (`is_inlined`). -/
theorem C21_inline_fits (s : Bytes) (hs : BytesOk s) (hi : inlineable s = true) :
    packLE s < 2 ^ 48 ∧ inlineIndex s % 2 = 1 ∧ inlineIndex s / 2 = packLE s := by
  obtain ⟨_, hl, _⟩ := (inlineable_iff s).1 hi
  have h1 := packLE_lt s hs
  have h2 : 256 ^ s.length ≤ 256 ^ 6 := Nat.pow_le_pow_right (by omega) hl
  refine ⟨by omega, by unfold inlineIndex; omega, by unfold inlineIndex; omega⟩

/-- decode ∘ encode = id for inlined atoms (`inlined_to_str` after `new_inlined`), whatever
    multi-byte characters the text is made of. -/
theorem C21_inline_roundtrip (s : Bytes) (hs : BytesOk s) (hi : inlineable s = true) :
    inlinedToStr (inlineIndex s / 2) = s := by
  rw [(C21_inline_fits s hs hi).2.2]
  exact inlinedToStr_pack s hs hi

/-- the inline encoding is injective on inlineable texts. -/
theorem C21_inline_injective (s₁ s₂ : Bytes) (h₁ : BytesOk s₁) (h₂ : BytesOk s₂)
    (i₁ : inlineable s₁ = true) (i₂ : inlineable s₂ = true)
    (e : inlineIndex s₁ = inlineIndex s₂) : s₁ = s₂ := by
  rw [← C21_inline_roundtrip s₁ h₁ i₁, ← C21_inline_roundtrip s₂ h₂ i₂, e]

/-- why a text with a NUL byte must not be inlined: packing cannot tell `"a\0"` from `"a"`, and
    decoding stops at the first zero byte. -/
theorem C21_nul_not_inlineable :
    (∀ s : Bytes, 0 ∈ s → inlineable s = false) ∧
    packLE [97, 0] = packLE [97] ∧ inlinedToStr (packLE [97, 0, 98]) = [97] := by
  refine ⟨?_, by decide, by decide⟩
  intro s h
  cases hs : inlineable s with
  | false => rfl
  | true => exact absurd h ((inlineable_iff s).1 hs).2.2

/-- every insertion keeps the invariant "no text is stored twice, no inlineable text is stored in
    a table, offsets are fresh" — for one insertion and for every sequence of insertions. -/
theorem C21_invariant_kept (t : Table) (h : Inv t) :
    (∀ s, Inv (intern t s).1) ∧ (∀ l, Inv (internAll t l).1) :=
  ⟨fun s => intern_inv t s h, fun l => internAll_inv t l h⟩

/-- decode ∘ encode = id across the three representations: the index returned by `build_with`
    reads back (`as_str`) as the text. -/
theorem C21_text_of_intern (t : Table) (s : Bytes) (h : Inv t) (hs : BytesOk s) :
    text (intern t s).1 (intern t s).2 = some s := (intern_rep t s h hs).2

/-- interning the same text again returns the same index and leaves the table unchanged. -/
theorem C21_intern_idempotent (t : Table) (s : Bytes) (h : Inv t) (hs : BytesOk s) :
    intern (intern t s).1 s = ((intern t s).1, (intern t s).2) := (intern_rep t s h hs).1

/-- an atom created earlier keeps index and text when any other text is interned afterwards
    (the table only grows; `grow_new` keeps offsets). -/
theorem C21_stable (t : Table) (s : Bytes) (i : Nat) (l : List Bytes)
    (hr : intern t s = (t, i) ∧ text t i = some s) :
    intern (internAll t l).1 s = ((internAll t l).1, i) ∧ text (internAll t l).1 i = some s :=
  rep_mono_all t l s i hr

/-- **atom identity is text identity**: intern any sequence of texts (inlineable, static and new
    ones in any order, with repetitions) starting from a table that satisfies the invariant; two of
    the returned indices are equal iff the two texts are equal. -/
theorem C21_index_eq_iff_text_eq (t : Table) (l : List Bytes) (h : Inv t) (hl : ∀ s ∈ l, BytesOk s)
    (s₁ s₂ : Bytes) (i₁ i₂ : Nat)
    (m₁ : (s₁, i₁) ∈ l.zip (internAll t l).2) (m₂ : (s₂, i₂) ∈ l.zip (internAll t l).2) :
    i₁ = i₂ ↔ s₁ = s₂ := by
  have r₁ := (internAll_rep t l h hl).2 _ m₁
  have r₂ := (internAll_rep t l h hl).2 _ m₂
  constructor
  · intro e
    subst e
    have := r₁.2.symm.trans r₂.2
    simpa using this
  · intro e
    subst e
    have := r₁.1.symm.trans r₂.1
    simpa using this

/-- every text of the sequence gets an index (the two lists have the same length). -/
theorem C21_internAll_length (t : Table) (l : List Bytes) (h : Inv t) (hl : ∀ s ∈ l, BytesOk s) :
    (internAll t l).2.length = l.length := (internAll_rep t l h hl).1

/-- UTF-8 encodings of a non-NUL character: 1–4 bytes, none of them zero — always inlineable. -/
theorem utf8_inlineable (cp : Nat) (h0 : 0 < cp) (h : cp < 0x110000) :
    inlineable (Scryer.Utf8.encode cp) = true := by
  rw [inlineable_iff]
  unfold Scryer.Utf8.encode
  split
  · simp; omega
  · split
    · simp; omega
    · split
      · simp; omega
      · simp; omega

/-- the character route (`AtomCell::new_char_inlined`: `unify_char`, char_code/2, get_char/1, the
    elements of strings) builds the same index as `build_with` for the one-character text:
    inlined without a table for every character but NUL, the static atom `"\0"` for NUL. -/
theorem C21_char_route_agrees (t : Table) (nul : Nat) (hn : findStatic t.statics [0] 0 = some nul) :
    (∀ cp, 0 < cp → cp < 0x110000 →
      (intern t (Scryer.Utf8.encode cp)) = (t, charIndex nul (Scryer.Utf8.encode cp))) ∧
    intern t [0] = (t, charIndex nul [0]) := by
  refine ⟨?_, ?_⟩
  · intro cp h0 h
    have hi := utf8_inlineable cp h0 h
    have hne : Scryer.Utf8.encode cp ≠ [0] := by
      intro e
      rw [e] at hi
      simp [inlineable] at hi
    simp [intern, hi, charIndex, hne]
  · have hi : inlineable [0] = false := by decide
    simp [intern, hi, hn, charIndex]

/-! ## non-vacuity -/

/-- a table as the build script makes it: "" and "\0" and the long names are static. -/
def demo : Table := { statics := [[], [0], [97, 98, 99, 100, 101, 102, 103]], dyn := [], next := 0 }

example : Inv demo := by
  refine ⟨by decide, by decide, ?_, ?_, by decide, ?_, by decide⟩ <;> intro p hp <;> simp [demo] at hp

-- "[]" (2 bytes) inlined; "" static 0; "\0" static 1; "abcdefg" (7 bytes) static 2; a new 7-byte
-- text and a 2-char text with a 4-byte and a 3-byte character (7 bytes) go to the dynamic part;
-- "é€" (5 bytes) is inlined; repeated texts get their first index.
example : (internAll demo [[91, 93], [], [0], [97, 98, 99, 100, 101, 102, 103],
    [97, 98, 99, 100, 101, 102, 104], [0xF0, 0x9F, 0x98, 0x80, 0xE2, 0x82, 0xAC], [0xC3, 0xA9, 0xE2, 0x82, 0xAC],
    [97, 98, 99, 100, 101, 102, 104], [91, 93], [97, 0]]).2
    = [47799, 0, 2, 4, 6, 38, 1481860535175, 6, 47799, 70] := by decide

end Scryer.Atoms
