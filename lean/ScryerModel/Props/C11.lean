import ScryerModel.Proofs.Trail
/-
C11 — Backtracking restores exactly the pre-goal state.

Theorems about `Scryer.Trail` (Model/Trail.lean), the mirror of `MachineState::trail`,
`Machine::unwind_trail`, the choice point instructions, `cut_body` and the global-variable table.
A *goal* is any sequence of operations: allocations of heap / attributed / stack variables, bindings
of old and new variables, attribute-list relinking, `bb_put`, `bb_b_put`, `bb_get`, and — nested to any
depth — choice point creation, backtracking into inner choice points (`retry`, `trust`) and cuts.
Every state reachable from the empty machine is covered (`Inv` holds for all of them).
-/
namespace Scryer.Trail

/-- Every reachable machine state satisfies the invariant: choice points are properly nested, `hb` is
    at or above the saved heap top of every choice point, and unwinding the trail to any choice point
    and truncating re-creates the store that existed when that choice point was created (with the
    `bb_put`s made since then, which are meant to persist). -/
theorem C11_invariant_of_reachable_states (ops : List Op) : Inv (run init ops) :=
  run_inv ops init init_inv

/-- Backtracking (`retry*`: the choice point stays; `trust*`: it is popped) puts the machine into the
    store recorded when the newest choice point was created: every heap cell and stack cell that
    existed then has its old content (cells unbound then are unbound again, cells bound then keep
    their value), newer cells are gone, and the trail is cut back to its old length. -/
theorem C11_backtracking_recreates_choice_point_store (ops : List Op) (cp : CP) (rest : List CP)
    (hc : (run init ops).cps = cp :: rest) :
    (step (run init ops) .retry).st = cp.snap ∧ (step (run init ops) .trust).st = cp.snap
    ∧ (step (run init ops) .retry).trail.length = cp.tr
    ∧ (step (run init ops) .trust).cps = rest := by
  have hi := C11_invariant_of_reachable_states ops
  have hs := hi.snap cp (by rw [hc]; simp)
  have hw := hi.wf
  rw [hc] at hw
  refine ⟨by simp [step, hc, hs], by simp [step, hc, hs], ?_, by simp [step, hc]⟩
  simp only [step, hc]
  exact dropTo_length _ _ hw.2.1

/-- the snapshot of a new choice point is the current store. -/
theorem C11_snapshot_is_store_at_creation (m : M) :
    ∃ cp, (step m .pushChoice).cps = cp :: m.cps ∧ cp.snap = m.st ∧ cp.h = m.st.heap.length
      ∧ cp.tr = m.trail.length := ⟨_, rfl, rfl, rfl, rfl⟩

theorem trust_of_top (mA : M) (cp : CP) (rest : List CP) (hi : Inv mA) (hc : mA.cps = cp :: rest) :
    (step mA .trust).st = cp.snap ∧ (step mA .trust).trail = dropTo cp.tr mA.trail
    ∧ (step mA .trust).cps = rest := by
  have hs := hi.snap cp (by rw [hc]; simp)
  simp [step, hc, hs]

/-- **Main theorem.** Take any reachable state `m0`, create a choice point, run any goal that does
    not itself remove that choice point (it may create, backtrack into, exhaust and cut any number of
    inner choice points, to any depth: `keeps 0 ops`), then fail.  The store is exactly the
    pre-goal store — heap and stack cell for cell — except that the keys assigned by `bb_put/2`
    during the goal hold the last value put (`overrides … (puts ops)` touches nothing else); the
    trail and the older choice points are as before. -/
theorem C11_goal_failure_restores_pre_goal_state (pre ops : List Op) (hk : keeps 0 ops = true) :
    (step (run (step (run init pre) .pushChoice) ops) .trust).st = overrides (run init pre).st (puts ops)
    ∧ (step (run (step (run init pre) .pushChoice) ops) .trust).st.heap = (run init pre).st.heap
    ∧ (step (run (step (run init pre) .pushChoice) ops) .trust).st.stack = (run init pre).st.stack
    ∧ (step (run (step (run init pre) .pushChoice) ops) .trust).trail = (run init pre).trail
    ∧ (step (run (step (run init pre) .pushChoice) ops) .trust).cps
        = mapSnap (fun s => overrides s (puts ops)) (run init pre).cps := by
  generalize hm0 : run init pre = m0
  have hi0 : Inv m0 := hm0 ▸ C11_invariant_of_reachable_states pre
  have hi1 : Inv (step m0 .pushChoice) := step_inv m0 .pushChoice hi0
  have hr := run_keeps ops 0 (step m0 .pushChoice) []
    ⟨m0.st.heap.length, m0.trail.length, m0.st.stack.length, m0.st⟩ m0.cps m0.trail hk hi1 rfl rfl ⟨[], rfl⟩ rfl
  obtain ⟨hcps, pre', htr⟩ := hr
  have hi2 : Inv (run (step m0 .pushChoice) ops) := run_inv ops _ hi1
  generalize run (step m0 .pushChoice) ops = mA at hcps htr hi2
  simp only [mapSnap, List.map_cons] at hcps
  obtain ⟨h1, h2, h3⟩ := trust_of_top mA _ _ hi2 hcps
  refine ⟨h1, ?_, ?_, ?_, ?_⟩
  · rw [h1]; exact (overrides_heap m0.st (puts ops)).1
  · rw [h1]; exact (overrides_heap m0.st (puts ops)).2
  · rw [h2, htr]; exact dropTo_append_exact m0.trail pre'
  · rw [h3]; rfl

/-- Without `bb_put/2` in the goal the pre-goal store is restored exactly, including every
    global variable: `bb_b_put/2` assignments (and the heap copies cached by `bb_get/2`) revert. -/
theorem C11_failure_restores_store_exactly (pre ops : List Op) (hk : keeps 0 ops = true)
    (hp : puts ops = []) :
    (step (run (step (run init pre) .pushChoice) ops) .trust).st = (run init pre).st := by
  have := (C11_goal_failure_restores_pre_goal_state pre ops hk).1
  simpa [hp, overrides] using this

/-- `bb_put/2` persists: after the failure of a goal whose last `bb_put` on key `k` stored `v` (no
    later `bb_put` on `k`; any `bb_b_put`s on `k` before or after it), `bb_get(k, X)` gives `v`. -/
theorem C11_bb_put_persists (pre ops1 ops2 : List Op) (k v : Nat)
    (hk : keeps 0 (ops1 ++ .bbPut k v :: ops2) = true) (hn : ∀ p ∈ puts ops2, p.1 ≠ k) :
    ((step (run (step (run init pre) .pushChoice) (ops1 ++ .bbPut k v :: ops2)) .trust).st.bb k).get = some v := by
  have h := (C11_goal_failure_restores_pre_goal_state pre _ hk).1
  rw [h]
  have hputs : ∀ (a : List Op), puts (a ++ .bbPut k v :: ops2) = puts a ++ (k, v) :: puts ops2 := by
    intro a
    induction a with
    | nil => rfl
    | cons o a ih => cases o <;> simp [puts, ih]
  rw [hputs]
  have hov : ∀ (ps : List (Nat × Nat)) (s : Store), (∀ p ∈ ps, p.1 ≠ k) → (overrides s ps).bb k = s.bb k := by
    intro ps
    induction ps with
    | nil => intro s _; rfl
    | cons p r ih =>
      intro s hne
      obtain ⟨j, w⟩ := p
      simp only [overrides]
      rw [ih _ (fun q hq => hne q (List.mem_cons_of_mem _ hq))]
      have : j ≠ k := hne (j, w) (by simp)
      simp [overrideBB, setBB, Ne.symm this]
  have happ : ∀ (a b : List (Nat × Nat)) (s : Store), overrides s (a ++ b) = overrides (overrides s a) b := by
    intro a
    induction a with
    | nil => intro b s; rfl
    | cons p r ih => intro b s; obtain ⟨j, w⟩ := p; simp only [List.cons_append, overrides]; exact ih b _
  rw [happ]
  simp only [overrides]
  rw [hov _ _ hn]
  simp [overrideBB, setBB, BB.get]

/-- Conditional trailing is safe, and it is exactly the bindings of cells newer than `hb` that go
    unrecorded: binding the unbound heap variable at `h` adds a trail entry iff `h < hb`; when it
    does not, the cell lies at or above the saved heap top of *every* choice point, i.e. in the part
    of the heap that backtracking to any of them discards. -/
theorem C11_untrailed_bindings_are_discarded_cells (m : M) (hi : Inv m) (h v : Nat)
    (hu : m.st.heap[h]? = some .unbound) :
    ((step m (.bind h v)).trail = .heapVar h :: m.trail ↔ h < m.hb)
    ∧ (¬ h < m.hb → (step m (.bind h v)).trail = m.trail
        ∧ ∀ cp ∈ m.cps, (restore (step m (.bind h v)) cp).heap.length ≤ h) := by
  constructor
  · simp only [step, hu, trailHeap]
    constructor
    · intro ht
      by_cases hlt : h < m.hb
      · exact hlt
      · simp only [hlt, if_false] at ht
        have := congrArg List.length ht
        simp at this
    · intro hlt; simp [hlt]
  · intro hge
    refine ⟨by simp [step, hu, trailHeap, hge], ?_⟩
    intro cp hm
    have := hi.hb cp hm
    simp only [restore, trunc, List.length_take]
    omega

/-- the same for stack variables: recorded iff older than the newest choice point (`h < b`). -/
theorem C11_stack_binding_trailed_iff_older_than_choice_point (m : M) (h v : Nat)
    (hu : m.st.stack[h]? = some .unbound) :
    (step m (.bindStack h v)).trail = (if h < m.b then .stackVar h :: m.trail else m.trail) := by
  simp [step, hu]

/-! ## the pinned rule for `TrailedBlackboardOffset` breaks "bb_put persists" (finding C11-1) -/

/-- `unwind_trail` with the pinned, unconditional restore. -/
def undoToPinned (n : Nat) : List TE → Store → Store
  | [], s => s
  | e :: rest, s => if n ≤ rest.length then undoToPinned n rest (undo1Pinned s e) else s

/-- `bb_b_put(k,1), ( bb_b_put(k,5), bb_put(k,2), fail ; bb_get(k,X) )`: the model (repaired rule)
    answers 2 — what the same goal without the inner `bb_b_put` answers on the pinned code, too —
    whereas unwinding with the pinned rule resurrects the overridden value 1. -/
example :
    let m := run init [.bbBPut 7 1, .pushChoice, .bbBPut 7 5, .bbPut 7 2]
    ((step m .trust).st.bb 7).get = some 2
    ∧ ((undoToPinned 1 m.trail m.st).bb 7).get = some 1 := by decide

/-! ## non-vacuity -/

/-- old heap variable bound under a choice point (trailed), new one (not trailed), attributed
    variable, stack variable, nested choice point cut away, then failure: everything is back. -/
example :
    let pre := [Op.newVar, .newAttrVar, .newStackVar, .newCell 3]
    let goal := [Op.newVar, .bind 0 10, .bind 3 11, .bind 1 12, .bindStack 0 13, .pushChoice, .newVar,
                 .bind 4 14, .relink 2 (.val 9), .cut 1, .bbBPut 2 5]
    keeps 0 goal = true
    ∧ (run (step (run init pre) .pushChoice) goal).st.heap
        = [.val 10, .val 12, .val 9, .val 11, .val 14]
    ∧ (run (step (run init pre) .pushChoice) goal).trail.length = 5
    ∧ (step (run (step (run init pre) .pushChoice) goal) .trust).st.heap = [.unbound, .attr, .val 3]
    ∧ (step (run (step (run init pre) .pushChoice) goal) .trust).st.stack = [.unbound] := by decide

/-- inner choice point backtracked into and exhausted inside the goal -/
example : keeps 0 [Op.pushChoice, .newVar, .retry, .bbBPut 1 1, .trust, .newVar] = true := by decide

end Scryer.Trail
