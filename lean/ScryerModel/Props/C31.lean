import ScryerModel.Proofs.Fault
/-!
# C31 — An interrupt at any point is caught cleanly  (PARTIAL)

The interrupt is an asynchronous exception: the flag `INTERRUPT` is raised at an arbitrary moment,
the dispatch loop polls it every `P` iterations and, when it finds it set, clears it and raises
`error('$interrupt_thrown', repl/0)` at that instruction boundary.

Proved here, for every program / goal / state / fuel / oracle resp. every event sequence:

* reference interpreter (`solveInj intBall φ`): an interrupt delivered when goal `g` is about to be
  reduced *is* the goal `throw(error('$interrupt_thrown', repl/0))` at that point; `catch/3` with a
  matching catcher handles it from the entry substitution, later goals run from the recovered state
  only; a catcher that does not unify lets it pass; an unbound catcher (catch-all) swallows it — the
  mechanism behind finding C31-2;
* polling transition system (`pstep`): a raised flag is observed within one polling period, it is
  cleared exactly when it is delivered, never delivered without having been raised, never delivered
  twice for one raise, never lost; the delivery point of a flag raised before iteration `n` is the
  next multiple of `P`.

Not proved: signal delivery itself, and that the implementation's instructions are atomic with
respect to the poll (they are: the poll sits between instructions) — tied by the sweep of
`vlib/props/C31.py`.
-/
namespace Scryer.Fault
open Scryer Scryer.Solve

/-! ## the reference interpreter -/

/-- **An interrupt delivered at a step is a throw at that step.** -/
theorem C31_interrupt_is_throw (φ : Oracle) (n : Nat) (prog : Prog) (g : Term) (s : St)
    (h : φ g s = true) :
    solveInj intBall φ (n + 9) prog g s = solve (n + 9) prog (throwGoal intBall) s
    ∧ (solveInj intBall φ (n + 9) prog g s).sols = []
    ∧ (solveInj intBall φ (n + 9) prog g s).exc = some (intBall, s.ctr + 1)
    ∧ (solveInj intBall φ (n + 9) prog g s).oof = false := by
  have e1 : solveInj intBall φ (n + 9) prog g s = inject intBall s := by
    simp [solveInj, h]
  have e2 : solve (n + 9) prog (throwGoal intBall) s = inject intBall s := by
    simp only [solve, step, classify_throwGoal]
    exact throwRes_closed (n + 8) s intBall (closed_intBall n)
  refine ⟨by rw [e1, e2], ?_, ?_, ?_⟩ <;> simp [e1, inject, Res.throw]

/-- **No interrupt, no difference.** -/
theorem C31_no_interrupt_is_reference (φ : Oracle) (hφ : ∀ g s, φ g s = false) (n : Nat) (prog : Prog)
    (g : Term) (s : St) : solveInj intBall φ n prog g s = solve n prog g s := by
  rw [solveInj_noFault intBall φ hφ prog n]

theorem C31_interrupted_run_uses_reference_step (φ : Oracle) (n : Nat) (prog : Prog) (g : Term)
    (s : St) (h : φ g s = false) :
    solveInj intBall φ (n + 1) prog g s = step prog (solveInj intBall φ n prog) n g s := by
  simp [solveInj, h]

/-- `error(E, V)` unifies with the interrupt ball: `E = '$interrupt_thrown'`, `V = repl/0`. -/
theorem unify_errCatcher_intBall (n : Nat) (σ : Subst) (e v : String) (he : lookup σ e = none)
    (hv : lookup σ v = none) (hne : (e == v) = false) :
    unify (n + 8) σ (errCatcher e v) intBall
      = some (some ((v, .str "/" [.atom "repl", .int 0]) :: (e, intFormal) :: σ)) := by
  simp [errCatcher, intBall, intFormal, unify, unifyList, walk, lookup, he, hv, hne, bindVar, occurs,
    occursList]

/-- **The documented exception is catchable, and the state is the one of the catch entry.**
    If the run of `G` ends with the interrupt ball, `catch(G, error(E,V), R)` delivers the answers
    `G` had produced, then runs `R` from the ENTRY substitution extended by
    `E = '$interrupt_thrown', V = repl/0`: all bindings of the interrupted goal are undone. -/
theorem C31_caught_and_state_restored (rec : Term → St → Res) (n : Nat) (s : St) (g r : Term)
    (e v : String) (c' : Nat)
    (he : lookup s.σ e = none) (hv : lookup s.σ v = none) (hne : (e == v) = false)
    (ho : (callGoal rec (n + 8) s g []).oof = false)
    (hx : (callGoal rec (n + 8) s g []).exc = some (intBall, c')) :
    catchRes rec (n + 8) s g (errCatcher e v) r =
      (let rR := callGoal rec (n + 8)
          ⟨(v, .str "/" [.atom "repl", .int 0]) :: (e, intFormal) :: s.σ, c'⟩ r []
       if rR.oof then Res.oofR
       else ⟨(callGoal rec (n + 8) s g []).sols ++ rR.sols, false, rR.exc, false⟩) := by
  simp [catchRes, ho, hx, unify_errCatcher_intBall n s.σ e v he hv hne]

/-- with the recovery goal `true` the catch/3 succeeds exactly once, in the recovered state, and no
    ball is left: the interrupt is handled. -/
theorem C31_recovery_true_succeeds_once (φ : Oracle) (n : Nat) (prog : Prog) (s : St) (g : Term)
    (e v : String) (c' : Nat)
    (he : lookup s.σ e = none) (hv : lookup s.σ v = none) (hne : (e == v) = false)
    (ho : (callGoal (solveInj intBall φ (n + 8) prog) (n + 8) s g []).oof = false)
    (hx : (callGoal (solveInj intBall φ (n + 8) prog) (n + 8) s g []).exc = some (intBall, c'))
    (hs : (callGoal (solveInj intBall φ (n + 8) prog) (n + 8) s g []).sols = [])
    (hφ : φ (.atom "true") ⟨(v, .str "/" [.atom "repl", .int 0]) :: (e, intFormal) :: s.σ, c'⟩ = false) :
    catchRes (solveInj intBall φ (n + 8) prog) (n + 8) s g (errCatcher e v) (.atom "true")
      = Res.one ⟨(v, .str "/" [.atom "repl", .int 0]) :: (e, intFormal) :: s.σ, c'⟩ := by
  rw [C31_caught_and_state_restored _ n s g (.atom "true") e v c' he hv hne ho hx]
  have ht : solveInj intBall φ (n + 8) prog (.atom "true")
        ⟨(v, .str "/" [.atom "repl", .int 0]) :: (e, intFormal) :: s.σ, c'⟩
      = Res.one ⟨(v, .str "/" [.atom "repl", .int 0]) :: (e, intFormal) :: s.σ, c'⟩ := by
    rw [C31_interrupted_run_uses_reference_step φ (n + 7) prog _ _ hφ]
    simp [step, classify]
  have hR : callGoal (solveInj intBall φ (n + 8) prog) (n + 8)
      ⟨(v, .str "/" [.atom "repl", .int 0]) :: (e, intFormal) :: s.σ, c'⟩ (.atom "true") []
      = Res.one ⟨(v, .str "/" [.atom "repl", .int 0]) :: (e, intFormal) :: s.σ, c'⟩ := by
    simp [callGoal, resolve, callResolved, callBody, addArgs, bodyOk, ht, Res.one]
  simp only [hR]
  simp [Res.one, hs]

/-- **Later goals are unaffected**: in `(catch(G, error(E,V), true), K)` the continuation `K` runs
    from the recovered state exactly as the interpreter runs `K` from that state — independent of
    `G` and of the instruction at which the interrupt arrived. -/
theorem C31_later_goals_run_from_recovered_state (φ : Oracle) (n : Nat) (prog : Prog) (s : St)
    (g k : Term) (e v : String) (c' : Nat)
    (he : lookup s.σ e = none) (hv : lookup s.σ v = none) (hne : (e == v) = false)
    (ho : (callGoal (solveInj intBall φ (n + 8) prog) (n + 8) s g []).oof = false)
    (hx : (callGoal (solveInj intBall φ (n + 8) prog) (n + 8) s g []).exc = some (intBall, c'))
    (hs : (callGoal (solveInj intBall φ (n + 8) prog) (n + 8) s g []).sols = [])
    (hφ : φ (.atom "true") ⟨(v, .str "/" [.atom "repl", .int 0]) :: (e, intFormal) :: s.σ, c'⟩ = false)
    (hφc : φ (.str "catch" [g, errCatcher e v, .atom "true"]) s = false)
    (hφk : φ (.str "," [.str "catch" [g, errCatcher e v, .atom "true"], k]) s = false) :
    let s' : St := ⟨(v, .str "/" [.atom "repl", .int 0]) :: (e, intFormal) :: s.σ, c'⟩
    let rK := solveInj intBall φ (n + 9) prog k s'
    solveInj intBall φ (n + 10) prog (.str "," [.str "catch" [g, errCatcher e v, .atom "true"], k]) s
      = if rK.oof then Res.oofR
        else if rK.exc.isSome || rK.cut then ⟨rK.sols, rK.exc.isNone, rK.exc, false⟩
        else ⟨rK.sols, false, none, false⟩ := by
  intro s' rK
  have hc : solveInj intBall φ (n + 9) prog (.str "catch" [g, errCatcher e v, .atom "true"]) s
      = Res.one s' := by
    rw [C31_interrupted_run_uses_reference_step φ (n + 8) prog _ s hφc]
    simp only [step, classify]
    exact C31_recovery_true_succeeds_once φ n prog s g e v c' he hv hne ho hx hs hφ
  rw [C31_interrupted_run_uses_reference_step φ (n + 9) prog _ s hφk]
  simp only [step, classify, hc, conjRes, Res.one, seqLoop]
  show _ = if rK.oof then Res.oofR
        else if rK.exc.isSome || rK.cut then ⟨rK.sols, rK.exc.isNone, rK.exc, false⟩
        else ⟨rK.sols, false, none, false⟩
  have hrk : solveInj intBall φ (n + 9) prog k s' = rK := rfl
  rw [hrk]
  rcases rK with ⟨sols, cut, exc, oof⟩
  cases oof <;> cases cut <;> cases exc <;> simp [Res.oofR, Res.none]

/-- a catcher that does not unify lets the interrupt pass unchanged. -/
theorem C31_nonmatching_catch_propagates (rec : Term → St → Res) (n : Nat) (s : St) (g c r : Term)
    (c' : Nat) (ho : (callGoal rec n s g []).oof = false)
    (hx : (callGoal rec n s g []).exc = some (intBall, c'))
    (hu : unify n s.σ c intBall = some none) :
    catchRes rec n s g c r = callGoal rec n s g [] := by
  simp [catchRes, ho, hx, hu]

/-- **A catch-all catcher swallows the interrupt** (the hazard of `catch(G, _, Recovery)` in library
    code, finding C31-2): with an unbound variable as catcher the interrupt ball is caught like any
    other, the recovery goal runs, and unless it re-throws the enclosing goal never sees the
    interrupt. -/
theorem C31_catch_all_swallows (rec : Term → St → Res) (n : Nat) (s : St) (g r : Term) (x : String)
    (c' : Nat) (hxv : lookup s.σ x = none)
    (ho : (callGoal rec (n + 8) s g []).oof = false)
    (hx : (callGoal rec (n + 8) s g []).exc = some (intBall, c')) :
    catchRes rec (n + 8) s g (.var x) r =
      (let rR := callGoal rec (n + 8) ⟨(x, intBall) :: s.σ, c'⟩ r []
       if rR.oof then Res.oofR
       else ⟨(callGoal rec (n + 8) s g []).sols ++ rR.sols, false, rR.exc, false⟩) := by
  have hu : unify (n + 8) s.σ (.var x) intBall = some (some ((x, intBall) :: s.σ)) := by
    simp [intBall, intFormal, unify, walk, lookup, hxv, bindVar, occurs, occursList]
  simp [catchRes, ho, hx, hu]

/-! ## the polling transition system -/

/-- **Never delivered without being raised, never twice for one raise, and the flag is set exactly
    while a raise is pending** — for every sequence of raise and tick events. -/
theorem C31_polling_invariant (P : Nat) (hP : 1 ≤ P) (evs : List Ev) :
    let s := prun P {} evs
    s.delivered + s.pending ≤ s.raised ∧ (s.flag = true ↔ s.pending ≠ 0) ∧ s.cnt < P := by
  have i := prun_inv P hP evs {} (pinv_init P hP)
  exact ⟨i.once, i.flag_pending, i.cnt_lt⟩

/-- in particular the number of deliveries never exceeds the number of raises, and with no raise
    there is no delivery (no spurious interrupt). -/
theorem C31_no_spurious_delivery (P : Nat) (hP : 1 ≤ P) (evs : List Ev) :
    (prun P {} evs).delivered ≤ (prun P {} evs).raised := by
  have := (C31_polling_invariant P hP evs).1
  omega

/-- **The flag is cleared exactly when it is delivered**: one event changes the delivery count by at
    most one; it does so iff it is the polling tick and the flag is set; afterwards the flag is
    clear and nothing is pending; no other event clears the flag. -/
theorem C31_cleared_exactly_at_delivery (P : Nat) (s : PSt) (e : Ev) :
    ((pstep P s e).delivered = s.delivered + 1 ↔ (e = .tick ∧ s.cnt + 1 ≥ P ∧ s.flag = true))
    ∧ ((pstep P s e).delivered = s.delivered + 1 → (pstep P s e).flag = false ∧ (pstep P s e).pending = 0)
    ∧ ((pstep P s e).delivered ≠ s.delivered + 1 →
        (pstep P s e).delivered = s.delivered ∧ (s.flag = true → (pstep P s e).flag = true)) := by
  cases e with
  | raise => simp [pstep]
  | tick =>
    by_cases hc : s.cnt + 1 ≥ P <;> by_cases hf : s.flag = true <;> simp [pstep, hc, hf]

/-- **Observed within one polling period, never lost**: from any state with the flag set, the
    `(P - cnt)`-th following loop iteration delivers it (and `P - cnt ≤ P`). -/
theorem C31_delivered_within_one_period (P : Nat) (s : PSt) (hf : s.flag = true) (hc : s.cnt < P) :
    (prun P s (List.replicate (P - s.cnt) .tick)).delivered = s.delivered + 1
    ∧ (prun P s (List.replicate (P - s.cnt) .tick)).flag = false
    ∧ P - s.cnt ≤ P
    ∧ ∀ m, m < P - s.cnt → (prun P s (List.replicate m .tick)).delivered = s.delivered
          ∧ (prun P s (List.replicate m .tick)).flag = true := by
  rw [delivered_within_period P s hf hc]
  refine ⟨rfl, rfl, by omega, ?_⟩
  intro m hm
  rw [ticks_before_poll P m s (by omega)]
  exact ⟨rfl, hf⟩

/-- **The delivery point**: a flag raised just before iteration `n ≥ 1` is consumed at iteration
    `deliveryPoint P n`, the first multiple of `P` that is `≥ n`: latency `< P`. -/
theorem C31_delivery_point (P n : Nat) (hP : 1 ≤ P) (hn : 1 ≤ n) :
    n ≤ deliveryPoint P n ∧ deliveryPoint P n < n + P ∧ P ∣ deliveryPoint P n := by
  unfold deliveryPoint
  have h1 : (n + P - 1) / P * P ≤ n + P - 1 := Nat.div_mul_le_self _ _
  have h2 : n + P - 1 < (n + P - 1) / P * P + P := Nat.lt_div_mul_add (by omega)
  exact ⟨by omega, by omega, Nat.dvd_mul_left _ _⟩

/-! ## non-vacuity -/

/-- an interrupt delivered inside a loop body is caught by the enclosing `catch/3`; the binding made
    before the interrupt is undone. -/
example :
    (solveInj intBall (fun g _ => match g with | .atom "$poll" => true | _ => false) 14 []
        (Term.str "catch" [.str "," [.str "=" [.var "X", .int 1], .atom "$poll"],
                errCatcher "E" "V", .atom "true"]) ⟨[], 0⟩).sols.map
      (fun st => (match lookup st.σ "E" with | some (.atom "$interrupt_thrown") => true | _ => false)
                  && (lookup st.σ "X").isNone)
      = [true] := by decide

/-- raise before iteration 7 with period 5: delivered at iteration 10, exactly once. -/
example : deliveryPoint 5 7 = 10
    ∧ (prun 5 {} (List.replicate 6 .tick ++ [.raise] ++ List.replicate 3 .tick)).delivered = 0
    ∧ (prun 5 {} (List.replicate 6 .tick ++ [.raise] ++ List.replicate 4 .tick)).delivered = 1
    ∧ (prun 5 {} (List.replicate 6 .tick ++ [.raise] ++ List.replicate 12 .tick)).delivered = 1 := by
  refine ⟨by decide, by decide, by decide, by decide⟩

/-- the real period: 255 dispatched instructions per poll. -/
example : deliveryPoint 255 300 = 510 ∧ deliveryPoint 255 255 = 255 ∧ deliveryPoint 255 256 = 510 := by
  decide

end Scryer.Fault
