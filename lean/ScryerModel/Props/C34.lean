import ScryerModel.Proofs.Traverse
/-
  C34 — Large and deeply nested terms never crash the process.

  What is provable: a term walker built on the explicit-work-list scheme (`run`, `foldIter`,
  `cmpIter` of `Model/Traverse.lean`) computes exactly what the recursive definition computes, for
  EVERY term (no bound on depth or size), in exactly `size t` iterations, with a work-list (heap
  allocated) that never holds more than `size t` entries.  Its native stack use is therefore
  constant: memory is linear in the term and lives on the Rust heap, where exhaustion is reported as
  a Prolog resource error — whereas a natively recursive walker needs `depth t` frames
  (`C34_recursive_needs_depth`: depth reaches the size on the ladder's shapes).

  What is NOT provable here (DESIGN §11): that each operation of the implementation IS an instance
  of the scheme (established by code reading, notes/design/C34.md, and by the size-ladder run of
  vlib/props/C34.py), and the native stack depth of compiled Rust.
-/
namespace Scryer.Traverse

/-- Refinement: the explicit-stack pre-order walk visits exactly the nodes of the term, in the
    order of the recursive definition — for every term and every fuel ≥ its size. -/
theorem C34_iter_refines_rec (t : Tree) (fuel : Nat) (h : t.size ≤ fuel) :
    iterTraverse fuel t = preorder t := by
  have hs : sizeL (PState.init t).stack ≤ fuel := by simpa using h
  obtain ⟨_, _, h3, _⟩ := run_spec fuel (PState.init t) rfl hs
  simp [iterTraverse, h3]

/-- Termination in exactly `size t` iterations: with that much fuel the work-list is empty and
    `size t` steps were taken; with any smaller fuel the work-list is not yet empty. -/
theorem C34_iter_exact_steps (t : Tree) :
    (run t.size (PState.init t)).stack = [] ∧ (run t.size (PState.init t)).steps = t.size ∧
    ∀ k, k < t.size → (run k (PState.init t)).stack ≠ [] := by
  have hs : sizeL (PState.init t).stack ≤ t.size := by simp
  obtain ⟨h1, _, _, h4, _⟩ := run_spec t.size (PState.init t) rfl hs
  refine ⟨h1, ?_, ?_⟩
  · simp [h4]
  · intro k hk
    apply run_short
    simpa using hk

/-- More fuel changes nothing: the loop stops by itself when the work-list is empty. -/
theorem C34_iter_fuel_irrelevant (t : Tree) (f1 f2 : Nat) (h1 : t.size ≤ f1) (h2 : t.size ≤ f2) :
    run f1 (PState.init t) = run f2 (PState.init t) := by
  have key : ∀ f, t.size ≤ f → run f (PState.init t) = run t.size (PState.init t) := by
    intro f hf
    obtain ⟨d, rfl⟩ := Nat.exists_eq_add_of_le hf
    clear hf
    induction d with
    | zero => rfl
    | succ d ih =>
      -- run (size + d + 1) = run (size + d) because the latter already ends with an empty stack
      have hs : sizeL (PState.init t).stack ≤ t.size + d := by simp
      rw [← ih, ← Nat.add_assoc]
      exact run_succ_of_done _ _ (run_spec _ _ rfl hs).1
  rw [key f1 h1, key f2 h2]

/-- Memory: the work-list high-water mark is at most the number of nodes of the term (and the
    maintained `len` field is the real length, ending at 0). Linear heap memory, no native stack. -/
theorem C34_worklist_bounded (t : Tree) (fuel : Nat) (h : t.size ≤ fuel) :
    (run fuel (PState.init t)).maxStack ≤ t.size ∧ (run fuel (PState.init t)).len = 0 := by
  have hs : sizeL (PState.init t).stack ≤ fuel := by simpa using h
  obtain ⟨_, h2, _, _, h5, _⟩ := run_spec fuel (PState.init t) rfl hs
  refine ⟨?_, h2⟩
  have := t.size_pos
  simp at h5; omega

/-- The bound holds at every intermediate moment too: after any number of iterations the live
    work-list is no longer than what remains to be visited, hence ≤ size. -/
theorem C34_worklist_bounded_always (t : Tree) (k : Nat) :
    (run k (PState.init t)).stack.length ≤ t.size := by
  have h1 := length_le_sizeL (run k (PState.init t)).stack
  have h2 := run_sizeL_le k (PState.init t)
  simp at h2; omega

/-- Every accumulator-style inspection (term_variables, ground, size, hashing …) done with the
    explicit stack equals the fold over the recursive pre-order sequence. -/
theorem C34_fold_refines_rec {α : Type} (f : α → Head → α) (t : Tree) (acc : α) (fuel : Nat)
    (h : t.size ≤ fuel) : foldIter f fuel [t] acc = (preorder t).foldl f acc := by
  rw [foldIter_spec f fuel [t] acc (by simp [sizeL]; exact h)]
  simp [preorderL]

/-- Pair iterator (compare/3, ==, the skeleton of unify): the work-list-of-pairs loop returns the
    recursive lexicographic comparison, for all pairs of terms, with fuel ≥ size of the left term. -/
theorem C34_cmp_refines_rec (a b : Tree) (fuel : Nat) (h : a.size ≤ fuel) :
    cmpIter fuel [(a, b)] = some (cmpRec a b) := by
  rw [cmpIter_spec fuel [(a, b)] (by simp [pairsSize]; exact h)]
  simp [cmpPairs]

/-- The recursive comparison of a term with itself is `=`; so the iterative one answers `=` for
    terms of any depth (the tie checks `T == T`, `compare(O,T,T)` on the ladder). -/
theorem C34_cmp_refl (a : Tree) (fuel : Nat) (h : a.size ≤ fuel) :
    cmpIter fuel [(a, a)] = some .eq := by
  rw [C34_cmp_refines_rec a a fuel h]
  rw [cmpRec_refl]

/-- Why recursion cannot work on the ladder: a right-deep (or left-deep) term built by `n` unary or
    binary wrappings has depth `n + 1` — a natively recursive walker needs one frame per level,
    i.e. 10^6 frames at the top of the ladder, while the explicit stack of the iterative walker
    holds at most `size` heap cells (`C34_worklist_bounded`). -/
theorem C34_recursive_needs_depth (n : Nat) (f : Nat) :
    (wrapN n (fun t => .node f [t]) (.atom 1)).depth = n + 1 ∧
    (wrapN n (fun t => .node f [.atom 2, t]) (.atom 1)).depth = n + 1 ∧
    (wrapN n (fun t => .node f [t, .atom 2]) (.atom 1)).depth = n + 1 ∧
    (wrapN n (fun t => .node f [.atom 2, t]) (.atom 1)).size = 2 * n + 1 := by
  refine ⟨?_, ?_, ?_, ?_⟩
  · rw [wrapN_depth _ (by intro t; simp [Tree.depth, depthL]; omega)]; simp [Tree.depth]; omega
  · rw [wrapN_depth _ (by intro t; have := t.size_pos; simp [Tree.depth, depthL]; cases t <;> simp [Tree.depth] <;> omega)]
    simp [Tree.depth]; omega
  · rw [wrapN_depth _ (by intro t; simp [Tree.depth, depthL]; cases t <;> simp [Tree.depth] <;> omega)]
    simp [Tree.depth]; omega
  · rw [wrapN_size _ 2 (by intro t; simp [Tree.size, sizeL]; omega)]; simp [Tree.size]; omega

/-- depth never exceeds size, and the visit sequence has exactly `size` entries. -/
theorem C34_depth_le_size (t : Tree) : t.depth ≤ t.size ∧ (preorder t).length = t.size :=
  ⟨depth_le_size t, preorder_length t⟩

/-! ### non-vacuity: the machines really run (small instances evaluated by the kernel) -/

/-- f(g(X, a), b): visits 5 nodes in pre-order; work-list high-water mark 3 ([X, a, b]). -/
example :
    let t : Tree := .node 1 [.node 2 [.var 0, .atom 1], .atom 2]
    iterTraverse 5 t = [.fn 1 2, .fn 2 2, .var 0, .atom 1, .atom 2] ∧
    (run 5 (PState.init t)).maxStack = 3 ∧ (run 4 (PState.init t)).stack ≠ [] := by decide

/-- compare is not constantly `=`: f(a) < f(b), f(a) < g(a,a) (arity first), X < a. -/
example : cmpIter 9 [(.node 1 [.atom 1], .node 1 [.atom 2])] = some .lt ∧
    cmpIter 9 [(.node 2 [.atom 1, .atom 1], .node 1 [.atom 1])] = some .gt ∧
    cmpIter 9 [(.var 3, .atom 0)] = some .lt ∧
    cmpIter 0 [(.var 3, .atom 0)] = none := by decide

/-- a left-deep term of depth 3 fills the work-list to depth + 1 entries (the bound is reached up
    to a constant on the `lbin` shape). -/
example : (run 99 (PState.init (wrapN 3 (fun t => .node 2 [t, .atom 2]) (.atom 1)))).maxStack = 4 := by
  decide

end Scryer.Traverse
