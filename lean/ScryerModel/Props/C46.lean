import ScryerModel.Proofs.BDDCount
/-!
# C46 — clp(B) decides satisfiability and counts models exactly

Property theorems over `Model/BDD.lean`: Boolean expressions `Fm` over every clp(B) connective
(`0 1 ~ * + # =:= =\= =< >= < > ^ +(L) *(L) card/2`) with the reference semantics `Fm.eval`
(truth value under an assignment), and the ROBDD algorithms of `src/lib/clpb.pl`
(`make_node`, `apply`, `bdd_restriction`, `existential`, the `card/2` counter network,
`sat_rewrite`+`sat_bdd`, `bdd_count`, `labeling`). Everything is for ALL expressions, any number
of variables, any nesting.

`OrdAbove n b` = ordered (variables strictly increase along every path, all `≥ n`);
`Reduced b` = no node with equal children; sharing is implicit in the tree representation, so
"reduced ordered" is exactly clpb's invariant (`is_bdd/1`). `Good S b` bundles both with
"every branching variable satisfies `S`".

The library itself (attributed variables, propagation, one BDD per component, hash tables) is
tied to this model only by the correspondence run (`vlib/props/C46.py`).
-/
namespace Scryer.BDD
open BDD

/-- `apply/4` computes the operator pointwise: `eval (apply op a b) ρ = op (eval a ρ) (eval b ρ)`.
    No hypothesis: true for arbitrary (even unordered) decision diagrams. -/
theorem C46_apply_sem (op : Op) (a b : BDD) (ρ : Nat → Bool) :
    (apply op a b).eval ρ = op.fn (a.eval ρ) (b.eval ρ) := eval_apply op a b ρ

/-- `apply/4` preserves the reduced-ordered invariant (and adds no variables). -/
theorem C46_apply_invariant (op : Op) {a b : BDD} {n : Nat} (ha : OrdAbove n a) (ra : Reduced a)
    (hb : OrdAbove n b) (rb : Reduced b) :
    OrdAbove n (apply op a b) ∧ Reduced (apply op a b) :=
  ⟨ordAbove_apply op a b n ha hb, reduced_apply op a b ra rb⟩

/-- `bdd_restriction/4` (variable `i` := `x`) on an ordered BDD: semantics and invariant. -/
theorem C46_restrict {b : BDD} {n : Nat} (hb : OrdAbove n b) (rb : Reduced b) (i : Nat) (x : Bool) :
    (∀ ρ, (restrict i x b).eval ρ = b.eval (upd ρ i x)) ∧
    OrdAbove n (restrict i x b) ∧ Reduced (restrict i x b) :=
  ⟨fun ρ => eval_restrict i x ρ b n hb, ordAbove_restrict i x b n hb, reduced_restrict i x b rb⟩

/-- `existential/3`: `V^F` is true iff `F` is true for some value of `V`. -/
theorem C46_exists {b : BDD} {n : Nat} (hb : OrdAbove n b) (rb : Reduced b) (i : Nat) :
    (∀ ρ, (exQ i b).eval ρ = (b.eval (upd ρ i false) || b.eval (upd ρ i true))) ∧
    OrdAbove n (exQ i b) ∧ Reduced (exQ i b) :=
  ⟨fun ρ => eval_exQ hb i ρ, ordAbove_exQ hb i, reduced_exQ rb i⟩

/-- Canonicity: two reduced ordered BDDs (same variable order) denoting the same Boolean
    function are equal. -/
theorem C46_canonical {a b : BDD} {n : Nat} (ha : OrdAbove n a) (ra : Reduced a) (hb : OrdAbove n b)
    (rb : Reduced b) (h : ∀ ρ, a.eval ρ = b.eval ρ) : a = b := canonical ha ra hb rb h

/-- Hence the decisions are comparisons with the terminals: a reduced ordered BDD is `0` iff
    unsatisfiable and `1` iff valid. -/
theorem C46_terminal_decision {b : BDD} {n : Nat} (hb : OrdAbove n b) (rb : Reduced b) :
    (b = leaf false ↔ ∀ ρ, b.eval ρ = false) ∧ (b = leaf true ↔ ∀ ρ, b.eval ρ = true) :=
  ⟨eq_leaf_false_iff hb rb, eq_leaf_true_iff hb rb⟩

/-- `sat_rewrite/2` + `sat_bdd/2`: the BDD built for ANY expression denotes the expression's
    truth function, is reduced and ordered, and only branches on variables of the expression
    (the auxiliary variables of `card/2` are gone). `fr` is any index above the expression's
    variables (the library's global variable counter). -/
theorem C46_build (f : Fm) {fr : Nat} (h : ∀ v ∈ f.allVars, v < fr) :
    (∀ ρ, (f.build fr).eval ρ = f.eval ρ) ∧ OrdAbove 0 (f.build fr) ∧ Reduced (f.build fr) ∧
    Supp (· ∈ f.allVars) (f.build fr) :=
  ⟨build_eval f h, (build_good f h).ord, (build_good f h).red, (build_good f h).supp⟩

/-- `card(Is, Fs)`: the counter network (with auxiliary variables for repeated variables and
    non-variable elements, quantified away afterwards) is true iff the number of true elements
    is in `Is`. -/
theorem C46_card (is : List (Nat × Nat)) (l : FmL) {fr : Nat} (h : ∀ v ∈ l.allVars, v < fr)
    (ρ : Nat → Bool) :
    ((Fm.card is l).build fr).eval ρ = inRanges is (l.countT ρ) := by
  rw [build_eval (.card is l) h]; rfl

/-- `sat/1` succeeds iff the expression is satisfiable. -/
theorem C46_sat_iff (f : Fm) : sat f = true ↔ ∃ ρ, f.eval ρ = true := by
  have hs := post_spec (S := fun _ => True) (st := leaf true) (f := f) Good.leaf (fresh_spec f)
  unfold sat
  cases hp : post f.fresh (leaf true) f with
  | none =>
    simp only [Option.isSome_none, Bool.false_eq_true, false_iff]
    rintro ⟨ρ, hρ⟩
    exact (hs.1.1 hp) ρ ⟨rfl, hρ⟩
  | some st' =>
    simp only [Option.isSome_some, true_iff]
    apply Classical.byContradiction
    intro hne
    have : post f.fresh (leaf true) f = none := hs.1.2 (fun ρ h => hne ⟨ρ, h.2⟩)
    rw [hp] at this; cases this

/-- `taut/2`: `T = 1` iff the expression is a tautology, `T = 0` iff it is unsatisfiable,
    failure iff it is neither. -/
theorem C46_taut (f : Fm) :
    (taut f = some true ↔ ∀ ρ, f.eval ρ = true) ∧
    (taut f = some false ↔ ∀ ρ, f.eval ρ = false) ∧
    (taut f = none ↔ (∃ ρ, f.eval ρ = true) ∧ ∃ ρ, f.eval ρ = false) := by
  have hs := tautUnder_spec (S := fun _ => True) (st := leaf true) (f := f) Good.leaf (fresh_spec f)
  simp only [eval, true_and, forall_const] at hs
  have h1 : taut f = some true ↔ ∀ ρ, f.eval ρ = true := by
    unfold taut
    rw [hs.2]
    exact ⟨fun h => h.2, fun h => ⟨⟨fun _ => false, h _⟩, h⟩⟩
  have h0 : taut f = some false ↔ ∀ ρ, f.eval ρ = false := by
    unfold taut
    rw [hs.1]
    exact forall_congr' fun ρ => by simp
  refine ⟨h1, h0, ?_⟩
  constructor
  · intro hn
    constructor
    · apply Classical.byContradiction
      intro hne
      have : taut f = some false := h0.2 (fun ρ => by
        cases h : f.eval ρ
        · rfl
        · exact absurd ⟨ρ, h⟩ hne)
      rw [hn] at this; cases this
    · apply Classical.byContradiction
      intro hne
      have : taut f = some true := h1.2 (fun ρ => by
        cases h : f.eval ρ
        · exact absurd ⟨ρ, h⟩ hne
        · rfl)
      rw [hn] at this; cases this
  · rintro ⟨⟨ρ1, h1'⟩, ⟨ρ0, h0'⟩⟩
    cases ht : taut f with
    | none => rfl
    | some x =>
      cases x
      · have := h0.1 ht ρ1; rw [h1'] at this; cases this
      · have := h1.1 ht ρ0; rw [h0'] at this; cases this

/-- Incremental posting: `sat(F)` on a store that is the (reduced ordered) conjunction of what
    was posted before fails iff store ∧ F is unsatisfiable; otherwise the new store is a reduced
    ordered BDD denoting store ∧ F. -/
theorem C46_post {S : Nat → Prop} {fr : Nat} {st : BDD} {f : Fm} (hst : Good S st)
    (hv : ∀ v ∈ f.allVars, v < fr) :
    (post fr st f = none ↔ ∀ ρ, ¬ (st.eval ρ = true ∧ f.eval ρ = true)) ∧
    ∀ st', post fr st f = some st' →
      Good (fun v => S v ∨ v ∈ f.allVars) st' ∧ ∀ ρ, st'.eval ρ = (st.eval ρ && f.eval ρ) :=
  post_spec hst hv

/-- `sat(A), sat(B)` leaves the same store as `sat(A*B)` (canonicity). -/
theorem C46_post_seq_eq_conj {S : Nat → Prop} {fr : Nat} {st sa sb sab : BDD} {a b : Fm} (hst : Good S st)
    (ha : ∀ v ∈ a.allVars, v < fr) (hb : ∀ v ∈ b.allVars, v < fr)
    (h1 : post fr st a = some sa) (h2 : post fr sa b = some sb) (h3 : post fr st (.and a b) = some sab) :
    sb = sab := by
  have ga := (post_spec hst ha).2 sa h1
  have gb := (post_spec ga.1 hb).2 sb h2
  have gab := (post_spec (f := .and a b) hst (fun v hv => by
    simp only [Fm.allVars, List.mem_append] at hv
    rcases hv with hv | hv
    · exact ha v hv
    · exact hb v hv)).2 sab h3
  refine canonical gb.1.ord gb.1.red gab.1.ord gab.1.red (fun ρ => ?_)
  rw [gb.2, ga.2, gab.2]
  simp [Fm.eval, Bool.and_assoc]

/-- `taut/2` w.r.t. posted constraints: `T = 0` iff store ∧ F is unsatisfiable; `T = 1` iff it is
    satisfiable and F holds in every model of the store; otherwise failure. -/
theorem C46_taut_under {S : Nat → Prop} {fr : Nat} {st : BDD} {f : Fm} (hst : Good S st)
    (hv : ∀ v ∈ f.allVars, v < fr) :
    (tautUnder fr st f = some false ↔ ∀ ρ, ¬ (st.eval ρ = true ∧ f.eval ρ = true)) ∧
    (tautUnder fr st f = some true ↔
      (∃ ρ, st.eval ρ = true ∧ f.eval ρ = true) ∧ ∀ ρ, st.eval ρ = true → f.eval ρ = true) :=
  tautUnder_spec hst hv

/-- The counting algorithm (`renumber_variable/3`, `bdd_count/3` with the level-skipping weights
    `2^(var_u(child) - index - 1)`, final factor `2^(var_u(root) - 1)`) returns exactly the number
    of assignments of the variables `vs` (strictly ascending, containing every variable of the
    BDD) under which the BDD is true. -/
theorem C46_bdd_count {vs : List Nat} {b : BDD} (hvs : vs.Pairwise (· < ·)) (hb : Good (· ∈ vs) b) :
    satCountBDD vs b = ((allBits vs.length).filter fun bits => b.eval (envOf vs bits)).length :=
  satCountBDD_spec hvs hb

/-- `allBits n` lists every row of `n` truth values exactly once (so the filtered lengths above
    and below are cardinalities of sets of assignments), in lexicographic order. -/
theorem C46_allBits (n : Nat) :
    (∀ bits, bits ∈ allBits n ↔ bits.length = n) ∧ (allBits n).Nodup ∧ (allBits n).Pairwise RowLt :=
  ⟨mem_allBits n, nodup_allBits n, sorted_allBits n⟩

/-- `sat_count/2` returns the number of assignments of the expression's variables
    (`term_variables/2`: binders of `^` included, as the library documents) that satisfy it. -/
theorem C46_sat_count (f : Fm) : satCount f = specCount f := by
  have hg := build_good f (fresh_spec f)
  have hvs : Good (· ∈ sortU f.allVars) (f.build f.fresh) := hg.mono (fun v h => mem_sortU.2 h)
  have hnil : ((sortU (f.build f.fresh).vars).filter fun v => !(sortU f.allVars).contains v) = [] := by
    rw [List.filter_eq_nil_iff]
    intro v hv
    have := supp_vars hvs.supp v (mem_sortU.1 hv)
    simpa using this
  simp only [satCount, satCountUnder, apply_and_true, hnil, List.foldl_nil, specCount]
  rw [satCountBDD_spec (sorted_sortU _) hvs]
  simp only [build_eval f (fresh_spec f)]

/-- `sat_count/2` after posted constraints counts the assignments of the expression's variables
    that extend to a model of store ∧ expression. -/
theorem C46_sat_count_under {S : Nat → Prop} {fr : Nat} {st : BDD} {f : Fm} (hst : Good S st)
    (hv : ∀ v ∈ f.allVars, v < fr) :
    ∃ p : List Bool → Bool,
      (∀ bits, p bits = true ↔ ∃ ρ, (∀ v ∈ sortU f.allVars, ρ v = envOf (sortU f.allVars) bits v) ∧
        st.eval ρ = true ∧ f.eval ρ = true) ∧
      satCountUnder fr st f = ((allBits (sortU f.allVars).length).filter p).length :=
  satCountUnder_spec hst hv

/-- `labeling/1` on the variables `vs` in index order (distinct): the rows are exactly the
    assignments of `vs` that extend to a model of the store, each exactly once, in lexicographic
    order with 0 before 1. (A strictly increasing list with a given set of members is unique, so
    this determines the answer list completely.) -/
theorem C46_labeling_rows {n : Nat} {vs : List Nat} {b : BDD} (hb : OrdAbove n b) (rb : Reduced b)
    (hvs : vs.Nodup) :
    (∀ row, row ∈ labelRows vs b ↔ ∃ ρ, b.eval ρ = true ∧ row = vs.map ρ) ∧
    (labelRows vs b).Pairwise RowLt ∧ (labelRows vs b).Nodup :=
  ⟨mem_labelRows vs b hb rb hvs, sorted_labelRows vs b, nodup_labelRows vs b⟩

/-- `findall(Vs, labeling(Vs), Rows)` for a list `Vs` in any order: `Rows` are exactly the
    assignments of `Vs` that extend to a model, without duplicates. -/
theorem C46_labeling {n : Nat} {vs : List Nat} {b : BDD} (hb : OrdAbove n b) (rb : Reduced b) :
    (∀ row, row ∈ labeling vs b ↔ ∃ ρ, b.eval ρ = true ∧ row = vs.map ρ) ∧ (labeling vs b).Nodup :=
  ⟨mem_labeling hb rb, nodup_labeling hb rb⟩

/-- Residual consistency: after `sat(F)` succeeded, labeling any variables finds a solution. -/
theorem C46_sat_then_labeling_nonempty (f : Fm) (vs : List Nat) (st : BDD)
    (h : post f.fresh (leaf true) f = some st) : labeling vs st ≠ [] := by
  have hs := (post_spec (S := fun _ => True) (st := leaf true) (f := f) Good.leaf (fresh_spec f)).2 st h
  have hne : ¬ (post f.fresh (leaf true) f = none) := by rw [h]; simp
  have hex : ∃ ρ, st.eval ρ = true := by
    apply Classical.byContradiction
    intro hn
    apply hne
    apply (post_spec (S := fun _ => True) (st := leaf true) (f := f) Good.leaf (fresh_spec f)).1.2
    intro ρ hρ
    exact hn ⟨ρ, by rw [hs.2, hρ.1, hρ.2]; rfl⟩
  obtain ⟨ρ, hρ⟩ := hex
  intro hnil
  have := (mem_labeling hs.1.ord hs.1.red (vs.map ρ)).2 ⟨ρ, hρ, rfl⟩
  rw [hnil] at this
  cases this

/-! ## non-vacuity -/

/-- a satisfiable expression: `sat/1` succeeds. -/
example : sat (.and (.var 0) (.not (.var 1))) = true :=
  (C46_sat_iff _).2 ⟨fun v => v == 0, by simp [Fm.eval]⟩

/-- an unsatisfiable one: `sat/1` fails. -/
example : sat (.and (.var 0) (.not (.var 0))) = false := by
  cases h : sat (.and (.var 0) (.not (.var 0)))
  · rfl
  · obtain ⟨ρ, hρ⟩ := (C46_sat_iff _).1 h
    simp [Fm.eval] at hρ

/-- all three answers of `taut/2` occur. -/
example : taut (.or (.var 0) (.not (.var 0))) = some true := (C46_taut _).1.2 (fun ρ => by simp [Fm.eval])
example : taut (.card [(2, 3)] (.cons (.var 0) .nil)) = some false :=
  (C46_taut _).2.1.2 (fun ρ => by cases h : ρ 0 <;> simp [Fm.eval, FmL.countT, inRanges, h])
example : taut (.var 0) = none :=
  (C46_taut _).2.2.2 ⟨⟨fun _ => true, rfl⟩, ⟨fun _ => false, rfl⟩⟩

/-- the hypotheses of the BDD-level theorems hold for the BDD of every expression. -/
example (f : Fm) : OrdAbove 0 (f.build f.fresh) ∧ Reduced (f.build f.fresh) :=
  ⟨(C46_build f (fresh_spec f)).2.1, (C46_build f (fresh_spec f)).2.2.1⟩

/-- model counts: `X + Y` has 3 models, `X^(X+Y)` has 4 (the binder counts as a free dimension). -/
example : specCount (.or (.var 0) (.var 1)) = 3 := by decide
example : specCount (.ex 0 (.or (.var 0) (.var 1))) = 4 := by decide

end Scryer.BDD
