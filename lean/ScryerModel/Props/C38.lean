import ScryerModel.Proofs.Lfp
import ScryerModel.Proofs.Delim
/-!
# C38 — Delimited control and tabling compute the specified answers

## Part B — tabling = least fixpoint

`Model/Lfp.lean` is the *specification* of what a tabled predicate must return over a finite
relation: the least Herbrand model of the (function-free, positive) program, computed by Kleene
iteration of the immediate consequence operator `tp` (T_P).  The SLG engine of
`src/lib/tabling.pl` + `src/lib/tabling/*.pl` is not mirrored; it is tied to this specification by
the correspondence run only (random programs with left / right / double / mutual recursion over
cyclic graphs, every query mode; raw answer lists compared with `answers` as sets, checked for
duplicates and for termination).

An interpretation is a list of ground atoms read as a set (`⊆` is list inclusion, i.e. set
inclusion).  `Derives P D I a` is the textbook definition of `a ∈ T_P(I)`: `a` is the head of a
ground instance over the constants `D` of a rule of `P` whose body atoms all belong to `I`.
-/
namespace Scryer.Lfp

/-- The executable operator is the textbook immediate-consequence operator: `a ∈ T_P(I)` iff `a` is
    the head of a ground instance (variables of the rule mapped into `D`) of some rule whose body
    instances are all in `I`. -/
theorem C38_tp_characterisation (P : Program) (D : List Nat) (I : Interp) (a : GAtom) :
    a ∈ tp P D I ↔ ∃ r ∈ P, ∃ σ : Nat → Nat, (∀ v ∈ r.vars, σ v ∈ D) ∧ r.head.inst σ = a ∧
      ∀ b ∈ r.body, b.inst σ ∈ I := mem_tp

/-- T_P is monotone. -/
theorem C38_tp_monotone (P : Program) (D : List Nat) {I J : Interp} (h : I ⊆ J) :
    tp P D I ⊆ tp P D J := tp_mono h

/-- The Kleene chain ∅ ⊆ T_P(∅) ⊆ T_P²(∅) ⊆ … is ascending, duplicate-free and stays inside the
    finite base (all ground head instances). -/
theorem C38_chain (P : Program) (D : List Nat) (n : Nat) :
    iter P D n ⊆ iter P D (n+1) ∧ (iter P D n).Nodup ∧ iter P D n ⊆ base P D :=
  ⟨iter_subset_succ P D n, iter_nodup P D n, iter_subset_base P D n⟩

/-- Termination with fuel = size of the base: some round `k ≤ |base|` derives nothing new, and from
    then on the chain is constant (as a set). -/
theorem C38_fixpoint_within_base (P : Program) (D : List Nat) :
    ∃ k ≤ (base P D).length, ∀ n, k ≤ n → ∀ a, a ∈ iter P D n ↔ a ∈ iter P D k := by
  obtain ⟨k, hk, hs⟩ := exists_stable P D
  exact ⟨k, hk, fun n hn a => ⟨fun h => hs.iter_eq hn h, fun h => iter_mono P D hn h⟩⟩

/-- The early-exit iteration `lfp` (fuel `|base|`) returns an element `T_P^j(∅)`, `j ≤ |base|`, of
    the chain, and it is a fixpoint of T_P. -/
theorem C38_lfp_is_fixpoint (P : Program) (D : List Nat) :
    (∃ j ≤ (base P D).length, lfp P D = iter P D j) ∧ ∀ a, a ∈ tp P D (lfp P D) ↔ a ∈ lfp P D := by
  obtain ⟨j, hj, he, _⟩ := lfp_spec P D
  exact ⟨⟨j, hj, he⟩, mem_tp_lfp P D⟩

/-- `lfp` is a model of the program and is contained in every model: the LEAST Herbrand model. -/
theorem C38_lfp_least_model (P : Program) (D : List Nat) :
    IsModel P D (lfp P D) ∧ ∀ M, IsModel P D M → lfp P D ⊆ M :=
  ⟨lfp_isModel P D, fun _ hM => lfp_least P D hM⟩

/-- `lfp` is the limit of the chain: it contains every `T_P^n(∅)`, whatever `n` (more fuel than
    `|base|` adds nothing). -/
theorem C38_lfp_is_limit (P : Program) (D : List Nat) (n : Nat) : iter P D n ⊆ lfp P D :=
  iter_subset_lfp P D n

/-- The specification has no evaluation order: two programs that have the same rules up to the
    order and repetition of clauses and of body literals (in particular a left-recursive and the
    corresponding right-recursive formulation `p :- p, e` / `p :- e, p`) have the same least
    fixpoint and literally the same answer list for every query. -/
theorem C38_order_independent {P P' : Program} (h : ProgEquiv P P') (D : List Nat) :
    (∀ a, a ∈ lfp P D ↔ a ∈ lfp P' D) ∧ ∀ q, answers P D q = answers P' D q := by
  refine ⟨h.lfp D, fun q => ?_⟩
  unfold answers answersIn
  apply List.filter_congr
  intro l _
  simp only [h.lfp D (q.inst (val l))]

/-- clause order in particular -/
theorem C38_clause_order_independent {P P' : Program} (h : P.Perm P') (D : List Nat) (q : Atom) :
    answers P D q = answers P' D q :=
  (C38_order_independent (ProgEquiv.of_perm h) D).2 q

/-- The answers to a query are exactly the assignments of the query's variables over `D` whose
    instance is in the least fixpoint, and the answer list is duplicate-free. -/
theorem C38_answers (P : Program) (D : List Nat) (q : Atom) :
    (∀ l, l ∈ answers P D q ↔ l ∈ assigns (dedup D) (dedup q.vars) ∧ q.inst (val l) ∈ lfp P D) ∧
    (answers P D q).Nodup :=
  ⟨fun _ => mem_answersIn, nodup_answersIn _ D q⟩

/-- Completeness of the answer list with respect to valuations: every valuation of the query's
    variables into `D` that makes the query true in the least model is represented by an answer
    that agrees with it on the query's variables; and every answer is such a valuation. -/
theorem C38_answers_complete (P : Program) (D : List Nat) (q : Atom) (σ : Nat → Nat)
    (hσ : ∀ v ∈ q.vars, σ v ∈ D) (hq : q.inst σ ∈ lfp P D) :
    ∃ l ∈ answers P D q, ∀ v ∈ q.vars, val l v = σ v := by
  refine ⟨(dedup q.vars).map fun w => (w, σ w), ?_, fun v hv => val_map_self σ _ v (mem_dedup.mpr hv)⟩
  refine mem_answersIn.mpr ⟨map_self_mem_assigns σ _ fun v hv => mem_dedup.mpr (hσ v (mem_dedup.mp hv)), ?_⟩
  have e : q.inst (val ((dedup q.vars).map fun w => (w, σ w))) = q.inst σ :=
    Atom.inst_congr fun v hv => val_map_self σ _ v (mem_dedup.mpr hv)
  rw [e]; exact hq

/-! ### non-vacuity: transitive closure of the 3-cycle 0→1→2→0 plus 2→3, left-recursive -/

/-- `path(X,Y) :- path(X,Z), edge(Z,Y).  path(X,Y) :- edge(X,Y).` with edge = pred 0, path = pred 1 -/
def exLeft : Program :=
  [⟨⟨1, [.var 0, .var 1]⟩, [⟨1, [.var 0, .var 2]⟩, ⟨0, [.var 2, .var 1]⟩]⟩,
   ⟨⟨1, [.var 0, .var 1]⟩, [⟨0, [.var 0, .var 1]⟩]⟩,
   ⟨⟨0, [.const 0, .const 1]⟩, []⟩, ⟨⟨0, [.const 1, .const 2]⟩, []⟩,
   ⟨⟨0, [.const 2, .const 0]⟩, []⟩, ⟨⟨0, [.const 2, .const 3]⟩, []⟩]

/-- the right-recursive formulation, clauses in the other order -/
def exRight : Program :=
  [⟨⟨0, [.const 2, .const 3]⟩, []⟩, ⟨⟨0, [.const 2, .const 0]⟩, []⟩,
   ⟨⟨0, [.const 1, .const 2]⟩, []⟩, ⟨⟨0, [.const 0, .const 1]⟩, []⟩,
   ⟨⟨1, [.var 0, .var 1]⟩, [⟨0, [.var 0, .var 1]⟩]⟩,
   ⟨⟨1, [.var 0, .var 1]⟩, [⟨0, [.var 2, .var 1]⟩, ⟨1, [.var 0, .var 2]⟩]⟩]

/-- 4 edges + 12 paths (every node of the cycle reaches 0,1,2,3; node 3 reaches nothing) -/
example : (lfp exLeft [0, 1, 2, 3]).length = 16 := by decide
example : (answers exLeft [0, 1, 2, 3] ⟨1, [.const 0, .var 0]⟩).map (fun l => val l 0) = [0, 1, 2, 3] := by
  decide
example : answers exLeft [0, 1, 2, 3] ⟨1, [.const 3, .var 0]⟩ = [] := by decide
/-- the two formulations are `ProgEquiv`: the hypothesis of `C38_order_independent` is satisfiable
    by a left- vs right-recursive pair -/
example : ProgEquiv exLeft exRight :=
  ProgEquiv.of_perm_bodies (by decide) (by decide)

end Scryer.Lfp

/-!
## Part A — reset/3 and shift/1

`Model/Delim.lean` is a frame-stack machine for the deterministic fragment of Prolog control: the
continuation is an explicit list of frames (`Frame.goal g` = still to run, `Frame.marker b c` = the
marker of a running `reset(_,b,c)`), goals are Prolog terms and the store / unification / builtins
are those of `Scryer.Solve`.  `step` is one machine transition, `Steps` its reflexive-transitive
closure, `tf` the fuel for term operations (dereferencing, unification, decoding a continuation term;
the driver uses 100000).  The laws below hold for every program `P`, every store `st` and every
rest-of-stack `K` (so under any nesting of resets and any calling context).

The continuation bound by scryer is `cont(G)` (and `none` when the goal did not shift — SWI-Prolog
uses `call_continuation/1` terms and `0`); the model uses `cont('$cont'(Goals))`.  A `shift/1` with no
enclosing `reset/3` fails in scryer (`'$unwind_environments'` finds no marker); the model mirrors
that.  The WAM side (environment chunks, `'$get_cont_chunk'`, `'$call_continuation'`) is tied to
the machine by the correspondence run only.
-/
namespace Scryer.Delim
open Scryer Scryer.Solve

def resetG (g b c : Term) : Term := .str "reset" [g, b, c]
def shiftG (t : Term) : Term := .str "shift" [t]
def conjG (a b : Term) : Term := .str "," [a, b]
/-- the callable inside `cont(_)`: a first-class continuation made of the goals `k` -/
def kGoal (k : List Term) : Term := .str "$cont" [encodeGoals k]
def noneG (c : Term) : Term := mkUnify c (.atom "none")

theorem contTerm_eq (k : List Term) : contTerm k = .str "cont" [kGoal k] := rfl

/-- Stack locality: a run that needs only the frames `F` proceeds identically on top of any rest
    `K` — no rule inspects what lies below the nearest reset marker. -/
theorem C38_stack_locality {tf : Nat} {P : Prog} {F F' : List Frame} {st st' : St}
    (h : Steps tf P ⟨F, st⟩ ⟨F', st'⟩) (K : List Frame) :
    Steps tf P ⟨F ++ K, st⟩ ⟨F' ++ K, st'⟩ := steps_append h K

/-- `reset(G,B,C)` when `G` does not shift past its own resets (it runs to completion on a stack of
    its own, reaching store `st'`): it behaves exactly like `G, C = none`, in any context `K`. -/
theorem C38_reset_without_shift {tf : Nat} (htf : 0 < tf) (P : Prog) (g b c : Term) (K : List Frame)
    {st st' : St} (hg : Steps tf P ⟨[.goal g], st⟩ ⟨[], st'⟩) :
    Steps tf P ⟨.goal (resetG g b c) :: K, st⟩ ⟨.goal (noneG c) :: K, st'⟩ := by
  refine .head (c' := ⟨.goal g :: .marker b c :: K, st⟩) ?_ ?_
  · rw [resetG, step_goal_str htf]; simp [classify, stepGoal]
  · have := steps_append hg (.marker b c :: K)
    simp only [List.cons_append, List.nil_append] at this
    exact this.trans (Steps.single (by simp [step, noneG]))

/-- `shift(T)` captures exactly the goals `gs` between itself and the NEAREST reset marker — nothing
    of `K`, whatever `K` contains (further markers included) — removes that marker, and continues in
    the context of that reset with `C = cont(<gs>)`, `B = T`. -/
theorem C38_shift_captures_up_to_nearest_reset {tf : Nat} (htf : 0 < tf) (P : Prog) (t : Term)
    (gs : List Term) (b c : Term) (K : List Frame) (st : St) :
    step tf P ⟨.goal (shiftG t) :: (goals gs ++ .marker b c :: K), st⟩ =
      .next ⟨.goal (mkUnify c (contTerm gs)) :: .goal (mkUnify b t) :: K, st⟩ := by
  rw [shiftG, step_goal_str htf]
  simp [classify, stepGoal, splitAtMarker_goals]

/-- Two nested resets: the inner marker is the one that is used; the goals of the outer reset
    (`gs₂`), the outer marker and everything below stay on the stack untouched. -/
theorem C38_nested_resets_inner_wins {tf : Nat} (htf : 0 < tf) (P : Prog) (t : Term)
    (gs₁ gs₂ : List Term) (b₁ c₁ b₂ c₂ : Term) (K : List Frame) (st : St) :
    step tf P ⟨.goal (shiftG t) :: (goals gs₁ ++ .marker b₁ c₁ :: (goals gs₂ ++ .marker b₂ c₂ :: K)), st⟩ =
      .next ⟨.goal (mkUnify c₁ (contTerm gs₁)) :: .goal (mkUnify b₁ t) ::
              (goals gs₂ ++ .marker b₂ c₂ :: K), st⟩ :=
  C38_shift_captures_up_to_nearest_reset htf P t gs₁ b₁ c₁ _ st

/-- `shift/1` with no enclosing `reset/3` fails (scryer's behaviour; no error is raised). -/
theorem C38_shift_without_reset_fails {tf : Nat} (htf : 0 < tf) (P : Prog) (t : Term)
    (gs : List Term) (st : St) :
    step tf P ⟨.goal (shiftG t) :: goals gs, st⟩ = .fail := by
  rw [shiftG, step_goal_str htf]
  simp [classify, stepGoal, splitAtMarker_none]

/-- Calling a captured continuation pushes exactly the captured goals back, on top of the
    caller's own continuation `K`. -/
theorem C38_call_continuation_resumes {tf : Nat} (P : Prog) (gs : List Term) (hlen : gs.length < tf)
    (K : List Frame) (st : St) :
    step tf P ⟨.goal (kGoal gs) :: K, st⟩ = .next ⟨goals gs ++ K, st⟩ := by
  rw [kGoal, step_goal_str (by omega)]
  simp [classify, stepGoal, decode_encode gs tf hlen]

/-- The reset/shift law: `reset((Pre, shift(T), Rest), B, C)`, where `Pre` runs to completion without
    shifting (store `st ↦ st'`), continues with `C = cont(k)`, `B = T` under the bindings made by
    `Pre`, and calling `k` in any context runs exactly `Rest` (the remaining computation up to the
    reset, not beyond). -/
theorem C38_reset_shift_law {tf : Nat} (htf : 1 < tf) (P : Prog) (pre t rest b c : Term)
    (K : List Frame) {st st' : St} (hpre : Steps tf P ⟨[.goal pre], st⟩ ⟨[], st'⟩) :
    Steps tf P ⟨.goal (resetG (conjG pre (conjG (shiftG t) rest)) b c) :: K, st⟩
      ⟨.goal (mkUnify c (.str "cont" [kGoal [rest]])) :: .goal (mkUnify b t) :: K, st'⟩ ∧
    ∀ K' st'', step tf P ⟨.goal (kGoal [rest]) :: K', st''⟩ = .next ⟨.goal rest :: K', st''⟩ := by
  have h0 : 0 < tf := by omega
  refine ⟨?_, fun K' st'' => by simpa [goals] using C38_call_continuation_resumes P [rest] (by simpa using htf) K' st''⟩
  refine .head (c' := ⟨.goal (conjG pre (conjG (shiftG t) rest)) :: .marker b c :: K, st⟩) ?_ ?_
  · rw [resetG, step_goal_str h0]; simp [classify, stepGoal]
  refine .head (c' := ⟨.goal pre :: .goal (conjG (shiftG t) rest) :: .marker b c :: K, st⟩) ?_ ?_
  · rw [conjG, step_goal_str h0]; simp [classify, stepGoal]
  have := steps_append hpre (.goal (conjG (shiftG t) rest) :: .marker b c :: K)
  simp only [List.cons_append, List.nil_append] at this
  refine this.trans ?_
  refine .head (c' := ⟨.goal (shiftG t) :: .goal rest :: .marker b c :: K, st'⟩) ?_ ?_
  · rw [conjG, step_goal_str h0]; simp [classify, stepGoal]
  refine Steps.single ?_
  have := C38_shift_captures_up_to_nearest_reset h0 P t [rest] b c K st'
  simpa [goals, contTerm_eq] using this

/-- Re-entrancy: resuming a continuation inside a NEW reset re-installs exactly the captured goals
    above the new marker — so a further `shift` in them is caught by the new reset
    (`C38_shift_captures_up_to_nearest_reset`). -/
theorem C38_continuation_reentrant {tf : Nat} (P : Prog) (gs : List Term) (hlen : gs.length < tf)
    (b c : Term) (K : List Frame) (st : St) :
    Steps tf P ⟨.goal (resetG (kGoal gs) b c) :: K, st⟩ ⟨goals gs ++ .marker b c :: K, st⟩ := by
  refine .head (c' := ⟨.goal (kGoal gs) :: .marker b c :: K, st⟩) ?_ (Steps.single ?_)
  · rw [resetG, step_goal_str (by omega)]; simp [classify, stepGoal]
  · exact C38_call_continuation_resumes P gs hlen _ st

/-- The handler-iteration protocol, as a relation: `Iterates G vs` says that `reset(G,B,C)` (in any
    context and store) yields the ball `v₁` and a continuation `cont(k₁)`, that `reset(k₁,B,C)` yields
    `v₂` and `cont(k₂)`, …, and that after `vs` is exhausted the last reset ends with `C = none`.
    This is what the iterator loop `collect(G,L) :- reset(G,B,C), ( C == none -> L = [] ; C = cont(K),
    L = [B|L1], collect(K,L1) )` observes. -/
inductive Iterates (tf : Nat) (P : Prog) : Term → List Term → Prop where
  | done {G : Term} :
      (∀ b c K st, Steps tf P ⟨.goal (resetG G b c) :: K, st⟩ ⟨.goal (noneG c) :: K, st⟩) →
      Iterates tf P G []
  | yield {G v : Term} {k : List Term} {vs : List Term} :
      (∀ b c K st, Steps tf P ⟨.goal (resetG G b c) :: K, st⟩
          ⟨.goal (mkUnify c (.str "cont" [kGoal k])) :: .goal (mkUnify b v) :: K, st⟩) →
      Iterates tf P (kGoal k) vs → Iterates tf P G (v :: vs)

/-- the same protocol on frames (goals `gs` standing above a marker) -/
inductive IterF (tf : Nat) (P : Prog) : List Term → List Term → Prop where
  | done {gs : List Term} :
      (∀ b c K st, Steps tf P ⟨goals gs ++ .marker b c :: K, st⟩ ⟨.goal (noneG c) :: K, st⟩) →
      IterF tf P gs []
  | yield {gs : List Term} {v : Term} {k : List Term} {vs : List Term} :
      (∀ b c K st, Steps tf P ⟨goals gs ++ .marker b c :: K, st⟩
          ⟨.goal (mkUnify c (.str "cont" [kGoal k])) :: .goal (mkUnify b v) :: K, st⟩) →
      k.length < tf → IterF tf P k vs → IterF tf P gs (v :: vs)

theorem IterF.toCont {tf : Nat} {P : Prog} {k : List Term} {vs : List Term} (h : IterF tf P k vs)
    (hk : k.length < tf) : Iterates tf P (kGoal k) vs := by
  induction h with
  | done hd => exact .done fun b c K st => (C38_continuation_reentrant P _ hk b c K st).trans (hd b c K st)
  | yield hy hk' _ ih =>
      exact .yield (fun b c K st => (C38_continuation_reentrant P _ hk b c K st).trans (hy b c K st)) (ih hk')

theorem IterF.toGoal {tf : Nat} (htf : 0 < tf) {P : Prog} {G : Term} {vs : List Term}
    (h : IterF tf P [G] vs) : Iterates tf P G vs := by
  have hr : ∀ b c K st, Steps tf P ⟨.goal (resetG G b c) :: K, st⟩ ⟨goals [G] ++ .marker b c :: K, st⟩ := by
    intro b c K st
    refine Steps.single ?_
    rw [resetG, step_goal_str htf]; simp [classify, stepGoal, goals]
  cases h with
  | done hd => exact .done fun b c K st => (hr b c K st).trans (hd b c K st)
  | yield hy hk' hrest => exact .yield (fun b c K st => (hr b c K st).trans (hy b c K st)) (hrest.toCont hk')

/-- the standard generator: `shift(v₁), (shift(v₂), (… , true))` -/
def genGoal : List Term → Term
  | [] => .atom "true"
  | v :: vs => conjG (shiftG v) (genGoal vs)

theorem iterF_genGoal {tf : Nat} (htf : 1 < tf) (P : Prog) : ∀ vs, IterF tf P [genGoal vs] vs
  | [] => by
      refine .done fun b c K st => ?_
      refine .head (c' := ⟨.marker b c :: K, st⟩) ?_ (Steps.single (by simp [step, noneG]))
      simp only [goals, List.map_cons, List.map_nil, List.cons_append, List.nil_append, genGoal]
      rw [step_goal_atom (by omega)]; simp [classify, stepGoal]
  | v :: vs => by
      refine .yield (k := [genGoal vs]) (fun b c K st => ?_) (by simpa using htf) (iterF_genGoal htf P vs)
      refine .head (c' := ⟨.goal (shiftG v) :: .goal (genGoal vs) :: .marker b c :: K, st⟩) ?_ (Steps.single ?_)
      · simp only [goals, List.map_cons, List.map_nil, List.cons_append, List.nil_append, genGoal]
        rw [conjG, step_goal_str (by omega)]; simp [classify, stepGoal]
      · have := C38_shift_captures_up_to_nearest_reset (by omega : 0 < tf) P v [genGoal vs] b c K st
        simpa [goals, contTerm_eq] using this

/-- Effect-handler iteration law: the generator `shift(v₁), …, shift(vₙ), true`, driven by the
    handler protocol (reset; on `cont(k)` reset `k` again), yields exactly the sequence `v₁ … vₙ` of
    shifted values, in order, and then reports `none`; for every list of values, in every context. -/
theorem C38_iterator_yields_shifted_values {tf : Nat} (htf : 1 < tf) (P : Prog) (vs : List Term) :
    Iterates tf P (genGoal vs) vs :=
  (iterF_genGoal htf P vs).toGoal (by omega)

/-! ### non-vacuity -/

/-- a goal that "does not shift": `true` completes on its own stack -/
example : Steps 5 [] ⟨[.goal (.atom "true")], ⟨[], 0⟩⟩ ⟨[], ⟨[], 0⟩⟩ :=
  Steps.single (by rw [step_goal_atom (by omega)]; simp [classify, stepGoal])

/-- the hypotheses of the reset/shift law are satisfiable (`Pre = true`), and the iterator law
    instantiates to a concrete generator -/
example (K : List Frame) (st : St) :
    Steps 5 [] ⟨.goal (resetG (conjG (.atom "true") (conjG (shiftG (.int 1)) (.atom "rest"))) (.var "B") (.var "C")) :: K, st⟩
      ⟨.goal (mkUnify (.var "C") (.str "cont" [kGoal [.atom "rest"]])) :: .goal (mkUnify (.var "B") (.int 1)) :: K, st⟩ :=
  (C38_reset_shift_law (by omega) [] (.atom "true") (.int 1) (.atom "rest") (.var "B") (.var "C") K
    (Steps.single (by rw [step_goal_atom (by omega)]; simp [classify, stepGoal]))).1

example : Iterates 5 [] (genGoal [.int 1, .int 2, .int 3]) [.int 1, .int 2, .int 3] :=
  C38_iterator_yields_shifted_values (by omega) [] _

end Scryer.Delim
