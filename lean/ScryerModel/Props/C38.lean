import ScryerModel.Proofs.Lfp
/-!
# C38 — Delimited control and tabling compute the specified answers

## Part B — tabling = least fixpoint

`Model/Lfp.lean` is the *specification* of what a tabled predicate must return over a finite
relation: the least Herbrand model of the (function-free, positive) program, computed by Kleene
iteration of the immediate consequence operator `tp` (T_P).  The SLG engine of
`src/lib/tabling.pl` + `src/lib/tabling/*.pl` is not mirrored; it is tied to this specification by
the correspondence run only (random programs with left / right / double / mutual recursion over
cyclic graphs, every query mode; raw answer lists compared with `answers` as sets, checked for
duplicates and for termination).

An interpretation is a list of ground atoms read as a set (`⊆` is list inclusion, i.e. set
inclusion).  `Derives P D I a` is the textbook definition of `a ∈ T_P(I)`: `a` is the head of a
ground instance over the constants `D` of a rule of `P` whose body atoms all belong to `I`.
-/
namespace Scryer.Lfp

/-- The executable operator is the textbook immediate-consequence operator: `a ∈ T_P(I)` iff `a` is
    the head of a ground instance (variables of the rule mapped into `D`) of some rule whose body
    instances are all in `I`. -/
theorem C38_tp_characterisation (P : Program) (D : List Nat) (I : Interp) (a : GAtom) :
    a ∈ tp P D I ↔ ∃ r ∈ P, ∃ σ : Nat → Nat, (∀ v ∈ r.vars, σ v ∈ D) ∧ r.head.inst σ = a ∧
      ∀ b ∈ r.body, b.inst σ ∈ I := mem_tp

/-- T_P is monotone. -/
theorem C38_tp_monotone (P : Program) (D : List Nat) {I J : Interp} (h : I ⊆ J) :
    tp P D I ⊆ tp P D J := tp_mono h

/-- The Kleene chain ∅ ⊆ T_P(∅) ⊆ T_P²(∅) ⊆ … is ascending, duplicate-free and stays inside the
    finite base (all ground head instances). -/
theorem C38_chain (P : Program) (D : List Nat) (n : Nat) :
    iter P D n ⊆ iter P D (n+1) ∧ (iter P D n).Nodup ∧ iter P D n ⊆ base P D :=
  ⟨iter_subset_succ P D n, iter_nodup P D n, iter_subset_base P D n⟩

/-- Termination with fuel = size of the base: some round `k ≤ |base|` derives nothing new, and from
    then on the chain is constant (as a set). -/
theorem C38_fixpoint_within_base (P : Program) (D : List Nat) :
    ∃ k ≤ (base P D).length, ∀ n, k ≤ n → ∀ a, a ∈ iter P D n ↔ a ∈ iter P D k := by
  obtain ⟨k, hk, hs⟩ := exists_stable P D
  exact ⟨k, hk, fun n hn a => ⟨fun h => hs.iter_eq hn h, fun h => iter_mono P D hn h⟩⟩

/-- The early-exit iteration `lfp` (fuel `|base|`) returns an element `T_P^j(∅)`, `j ≤ |base|`, of
    the chain, and it is a fixpoint of T_P. -/
theorem C38_lfp_is_fixpoint (P : Program) (D : List Nat) :
    (∃ j ≤ (base P D).length, lfp P D = iter P D j) ∧ ∀ a, a ∈ tp P D (lfp P D) ↔ a ∈ lfp P D := by
  obtain ⟨j, hj, he, _⟩ := lfp_spec P D
  exact ⟨⟨j, hj, he⟩, mem_tp_lfp P D⟩

/-- `lfp` is a model of the program and is contained in every model: the LEAST Herbrand model. -/
theorem C38_lfp_least_model (P : Program) (D : List Nat) :
    IsModel P D (lfp P D) ∧ ∀ M, IsModel P D M → lfp P D ⊆ M :=
  ⟨lfp_isModel P D, fun _ hM => lfp_least P D hM⟩

/-- `lfp` is the limit of the chain: it contains every `T_P^n(∅)`, whatever `n` (more fuel than
    `|base|` adds nothing). -/
theorem C38_lfp_is_limit (P : Program) (D : List Nat) (n : Nat) : iter P D n ⊆ lfp P D :=
  iter_subset_lfp P D n

/-- The specification has no evaluation order: two programs that have the same rules up to the
    order and repetition of clauses and of body literals (in particular a left-recursive and the
    corresponding right-recursive formulation `p :- p, e` / `p :- e, p`) have the same least
    fixpoint and literally the same answer list for every query. -/
theorem C38_order_independent {P P' : Program} (h : ProgEquiv P P') (D : List Nat) :
    (∀ a, a ∈ lfp P D ↔ a ∈ lfp P' D) ∧ ∀ q, answers P D q = answers P' D q := by
  refine ⟨h.lfp D, fun q => ?_⟩
  unfold answers answersIn
  apply List.filter_congr
  intro l _
  simp only [h.lfp D (q.inst (val l))]

/-- clause order in particular -/
theorem C38_clause_order_independent {P P' : Program} (h : P.Perm P') (D : List Nat) (q : Atom) :
    answers P D q = answers P' D q :=
  (C38_order_independent (ProgEquiv.of_perm h) D).2 q

/-- The answers to a query are exactly the assignments of the query's variables over `D` whose
    instance is in the least fixpoint, and the answer list is duplicate-free. -/
theorem C38_answers (P : Program) (D : List Nat) (q : Atom) :
    (∀ l, l ∈ answers P D q ↔ l ∈ assigns (dedup D) (dedup q.vars) ∧ q.inst (val l) ∈ lfp P D) ∧
    (answers P D q).Nodup :=
  ⟨fun _ => mem_answersIn, nodup_answersIn _ D q⟩

/-- Completeness of the answer list with respect to valuations: every valuation of the query's
    variables into `D` that makes the query true in the least model is represented by an answer
    that agrees with it on the query's variables; and every answer is such a valuation. -/
theorem C38_answers_complete (P : Program) (D : List Nat) (q : Atom) (σ : Nat → Nat)
    (hσ : ∀ v ∈ q.vars, σ v ∈ D) (hq : q.inst σ ∈ lfp P D) :
    ∃ l ∈ answers P D q, ∀ v ∈ q.vars, val l v = σ v := by
  refine ⟨(dedup q.vars).map fun w => (w, σ w), ?_, fun v hv => val_map_self σ _ v (mem_dedup.mpr hv)⟩
  refine mem_answersIn.mpr ⟨map_self_mem_assigns σ _ fun v hv => mem_dedup.mpr (hσ v (mem_dedup.mp hv)), ?_⟩
  have e : q.inst (val ((dedup q.vars).map fun w => (w, σ w))) = q.inst σ :=
    Atom.inst_congr fun v hv => val_map_self σ _ v (mem_dedup.mpr hv)
  rw [e]; exact hq

/-! ### non-vacuity: transitive closure of the 3-cycle 0→1→2→0 plus 2→3, left-recursive -/

/-- `path(X,Y) :- path(X,Z), edge(Z,Y).  path(X,Y) :- edge(X,Y).` with edge = pred 0, path = pred 1 -/
def exLeft : Program :=
  [⟨⟨1, [.var 0, .var 1]⟩, [⟨1, [.var 0, .var 2]⟩, ⟨0, [.var 2, .var 1]⟩]⟩,
   ⟨⟨1, [.var 0, .var 1]⟩, [⟨0, [.var 0, .var 1]⟩]⟩,
   ⟨⟨0, [.const 0, .const 1]⟩, []⟩, ⟨⟨0, [.const 1, .const 2]⟩, []⟩,
   ⟨⟨0, [.const 2, .const 0]⟩, []⟩, ⟨⟨0, [.const 2, .const 3]⟩, []⟩]

/-- the right-recursive formulation, clauses in the other order -/
def exRight : Program :=
  [⟨⟨0, [.const 2, .const 3]⟩, []⟩, ⟨⟨0, [.const 2, .const 0]⟩, []⟩,
   ⟨⟨0, [.const 1, .const 2]⟩, []⟩, ⟨⟨0, [.const 0, .const 1]⟩, []⟩,
   ⟨⟨1, [.var 0, .var 1]⟩, [⟨0, [.var 0, .var 1]⟩]⟩,
   ⟨⟨1, [.var 0, .var 1]⟩, [⟨0, [.var 2, .var 1]⟩, ⟨1, [.var 0, .var 2]⟩]⟩]

/-- 4 edges + 12 paths (every node of the cycle reaches 0,1,2,3; node 3 reaches nothing) -/
example : (lfp exLeft [0, 1, 2, 3]).length = 16 := by decide
example : (answers exLeft [0, 1, 2, 3] ⟨1, [.const 0, .var 0]⟩).map (fun l => val l 0) = [0, 1, 2, 3] := by
  decide
example : answers exLeft [0, 1, 2, 3] ⟨1, [.const 3, .var 0]⟩ = [] := by decide
/-- the two formulations are `ProgEquiv`: the hypothesis of `C38_order_independent` is satisfiable
    by a left- vs right-recursive pair -/
example : ProgEquiv exLeft exRight :=
  ProgEquiv.of_perm_bodies (by decide) (by decide)

end Scryer.Lfp
