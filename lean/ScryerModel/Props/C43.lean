import ScryerModel.Proofs.OpTable
/-!
# C43 — op/3 and current_op/3 maintain a consistent operator table

Model: `Model/OpTable.lean`. `opStep t c` is `builtins.pl::op/3` clause by clause (validation in the
order of the code, `'$op'/3` = `op_declaration`/`OpDecl::submit`/`OpDecl::remove`) with the patch of
finding C43-1 applied; `opStepImpl asIs` is the code as it is. `lookup t n c` is the visible operator
table (priority-0 bookkeeping cells hidden), `currentOp t` what `current_op(P,T,N)` enumerates,
`currentOpQ true` the instantiation modes of `current_op/3` with the patch of finding C43-2,
`IsoErr t c e` the ISO 8.14.3.3 (+Cor.2) condition of error `e`.

"A rejected call leaves the table unchanged": ISO 8.14.3.1 excepts one event — "in the event of an
error being detected in an Operator list argument, it is undefined which, if any, of the atoms in
the list is made an operator". The code (and `opStep`) makes the elements in front of the first
clashing one operators; `PrefixMade` describes exactly that event. `opStepAtomic` is the
all-or-nothing variant, for which the sentence holds without exception.
All theorems are for every table / every history of calls (`runOps`), with no bound on length.
-/
namespace Scryer.OpTable

/-- A rejected call raises an error whose ISO condition holds, and leaves the table unchanged —
    except in the event ISO 8.14.3.1 leaves undefined (a list whose later element clashes), where
    exactly the elements in front of the offending one have been made operators. -/
theorem C43_rejected (t : Table) (c : Call) (e : Err) (h : (opStep t c).2 = some e) :
    IsoErr t c e ∧ ((opStep t c).1 = t ∨ PrefixMade t c e (opStep t c).1) := by
  rcases opStep_spec t c with (⟨e', hr, hi⟩ | ⟨p, s, ns, _, hr⟩) | ⟨e', he, hi, hpm⟩
  · rw [hr] at h ⊢
    cases h
    exact ⟨hi, .inl rfl⟩
  · rw [hr] at h; cases h
  · rw [he] at h
    cases h
    exact ⟨hi, .inr hpm⟩

/-- A rejected call leaves the table unchanged whenever the third argument is not a list, or the
    error is anything but `permission_error(create, operator, _)`. -/
theorem C43_rejected_unchanged (t : Table) (c : Call) (e : Err) (h : (opStep t c).2 = some e)
    (hx : (∃ a, c.op = .one a) ∨ ∀ n, e ≠ .permCreate n) : (opStep t c).1 = t := by
  rcases (C43_rejected t c e h).2 with h1 | ⟨hd, tl, p, s, pre, n, post, ho, -, -, -, -, -, -, -, -, he, -⟩
  · exact h1
  · rcases hx with ⟨a, ha⟩ | hne
    · rw [ho] at ha; cases ha
    · exact absurd he (hne n)

/-- The all-or-nothing variant raises the same errors as `opStep`, never changes the table when it
    rejects a call, and differs from `opStep` only in the ISO-undefined event. -/
theorem C43_atomic_variant (t : Table) (c : Call) :
    (opStepAtomic t c).2 = (opStep t c).2 ∧
    (∀ e, (opStepAtomic t c).2 = some e → (opStepAtomic t c).1 = t) ∧
    ((opStepAtomic t c).1 = (opStep t c).1 ∨
      ∃ e, (opStep t c).2 = some e ∧ PrefixMade t c e (opStep t c).1) := by
  have hat : ∀ e, (opStepAtomic t c).2 = some e → (opStepAtomic t c).1 = t := by
    intro e he
    rcases opStepAtomic_spec t c with ⟨e', hr, _⟩ | ⟨p, s, ns, _, hr⟩
    · rw [hr]
    · rw [hr] at he; cases he
  rcases opStep_lax t c with h | ⟨e, he, ha, hpm⟩
  · exact ⟨by rw [h], hat, .inl (by rw [h])⟩
  · exact ⟨by rw [ha, he], hat, .inr ⟨e, he, hpm⟩⟩

/-- A call is accepted exactly when none of the ISO error conditions holds. -/
theorem C43_accepted_iff (t : Table) (c : Call) :
    (opStep t c).2 = none ↔ ∀ e, ¬ IsoErr t c e := by
  constructor
  · intro h e
    rcases opStep_spec t c with (⟨e', hr, _⟩ | ⟨p, s, ns, ha, _⟩) | ⟨e', he, _, _⟩
    · rw [hr] at h; cases h
    · exact accepted_no_isoErr ha e
    · rw [he] at h; cases h
  · intro h
    cases hr : (opStep t c).2 with
    | none => rfl
    | some e => exact absurd (C43_rejected t c e hr).1 (h e)

/-- An accepted call `op(p, s, Names)` changes exactly the cells `(n, class of s)` for `n ∈ Names`:
    they become `(p, s)`, or disappear when `p = 0`; every other cell is as before. -/
theorem C43_accepted_effect (t : Table) (c : Call) (h : (opStep t c).2 = none) :
    ∃ p s ns, checkPriority c.prio = .ok p ∧ checkSpec c.spec = .ok s ∧ opNames c.op = some ns ∧
      ∀ m cl, lookup (opStep t c).1 m cl =
        if m ∈ ns ∧ cl = s.cls then (if p = 0 then none else some (p, s)) else lookup t m cl := by
  rcases opStep_spec t c with (⟨e', hr, _⟩ | ⟨p, s, ns, ha, hr⟩) | ⟨e', he, _, _⟩
  · rw [hr] at h; cases h
  · refine ⟨p, s, ns, ha.prio, ha.spec, ha.names, ?_⟩
    intro m cl
    rw [hr]
    exact lookup_setAll t p s ns m cl
  · rw [he] at h; cases h

/-- Priority 0 removes exactly the `(name, class)` cells named by the call. -/
theorem C43_priority_zero_removes (t : Table) (c : Call) (h : (opStep t c).2 = none)
    (h0 : c.prio = .int 0) :
    ∃ s ns, checkSpec c.spec = .ok s ∧ opNames c.op = some ns ∧
      ∀ m cl, lookup (opStep t c).1 m cl = if m ∈ ns ∧ cl = s.cls then none else lookup t m cl := by
  obtain ⟨p, s, ns, hp, hs, hn, hl⟩ := C43_accepted_effect t c h
  rw [h0] at hp
  have : p = 0 := by
    simp only [checkPriority] at hp
    simpa using (Except.ok.inj hp).symm
  subst this
  exact ⟨s, ns, hs, hn, fun m cl => by rw [hl m cl]; simp⟩

/-- `','`, `[]` and `{}` are never changed by any call, in any table. -/
theorem C43_protected_names (t : Table) (c : Call) (n : String)
    (hn : n = "," ∨ n = "[]" ∨ n = "{}") (cl : Cls) :
    lookup (opStep t c).1 n cl = lookup t n cl := by
  have hv : validOp n ≠ none := by rcases hn with rfl | rfl | rfl <;> decide
  rcases opStep_spec t c with (⟨e', hr, _⟩ | ⟨p, s, ns, ha, hr⟩) | ⟨e', _, _, hpm⟩
  · rw [hr]
  · rw [hr]
    exact accepted_protected ha hv cl
  · exact prefixMade_protected hpm hv cl

/-- One call — accepted, rejected, or rejected half-way through a list — preserves the invariants:
    unique keys, no name both infix and postfix, priorities in 1..1200 under the right class,
    `[]`/`{}` not operators, `'|'` at most infix with priority ≥ 1001. -/
theorem C43_invariant_step (t : Table) (c : Call) (h : Inv t) : Inv (opStep t c).1 := by
  rcases opStep_spec t c with (⟨e', hr, _⟩ | ⟨p, s, ns, ha, hr⟩) | ⟨e', _, _, hpm⟩
  · rw [hr]; exact h
  · rw [hr]; exact accepted_inv ha h
  · exact prefixMade_inv hpm h

theorem runOps_cons (t : Table) (c : Call) (cs : List Call) :
    runOps t (c :: cs) = runOps (opStep t c).1 cs := rfl

/-- The invariants hold after every history of calls, valid or invalid, from the default table. -/
theorem C43_invariant_history (cs : List Call) : Inv (runOps defaultTable cs) := by
  suffices ∀ t, Inv t → Inv (runOps t cs) from this _ default_inv
  induction cs with
  | nil => intro t h; exact h
  | cons c cs ih => intro t h; rw [runOps_cons]; exact ih _ (C43_invariant_step t c h)

/-- After every history `','` is still exactly `op(1000, xfy, ',')`. -/
theorem C43_comma_history (cs : List Call) :
    lookup (runOps defaultTable cs) "," .inf = some (1000, .xfy) ∧
    lookup (runOps defaultTable cs) "," .pre = none ∧
    lookup (runOps defaultTable cs) "," .post = none := by
  have key : ∀ (t : Table) cl, lookup (runOps t cs) "," cl = lookup t "," cl := by
    induction cs with
    | nil => intro t cl; rfl
    | cons c cs ih =>
      intro t cl
      rw [runOps_cons, ih, C43_protected_names t c "," (.inl rfl)]
  rw [key, key, key]
  decide

/-- After every history, `current_op(P,T,N)` enumerates exactly the visible table. -/
theorem C43_current_op_enumerates (cs : List Call) (p : Nat) (s : Spec) (n : String) :
    (p, s, n) ∈ currentOp (runOps defaultTable cs) ↔
      lookup (runOps defaultTable cs) n s.cls = some (p, s) :=
  mem_currentOp_iff_lookup (C43_invariant_history cs).wf p s n

/-- `current_op/3` with any subset of its arguments instantiated (the three branches of
    `get_next_op_db_ref`, the bound-priority branch repaired as in finding C43-2) yields exactly
    the matching rows of the full enumeration. -/
theorem C43_current_op_modes (t : Table) (h : wf t) (q : Pat) (x : Nat × Spec × String) :
    x ∈ currentOpQ true t q ↔ x ∈ currentOp t ∧ q.matches x = true :=
  mem_currentOpQ h q x

/-- `op/3` as written today computes the ISO step except on the inputs described by `Deviates`
    (list form with `'|'` among the elements outside the `'|'` restriction). -/
theorem C43_code_as_written (t : Table) (c : Call) :
    opStepImpl asIs t c = opStep t c ∨ Deviates c :=
  impl_eq_iso_or_deviates t c

/-! ## Non-vacuity and witnesses -/

def mk (p : Int) (s : String) (names : List String) : Call :=
  match names with
  | [] => ⟨.int p, .atom s, .one (.atom "[]")⟩
  | n :: r => ⟨.int p, .atom s, .cons (.atom n) (r.map .atom) (.atom "[]")⟩

def one (p : Int) (s : String) (n : String) : Call := ⟨.int p, .atom s, .one (.atom n)⟩

-- accepted calls exist and change the table; removal works by class, not by specifier
example : (opStep defaultTable (one 700 "xfx" "foo")).2 = none := by decide
example : lookup (opStep defaultTable (one 700 "xfx" "foo")).1 "foo" .inf = some (700, .xfx) := by decide
example : lookup (runOps defaultTable [one 700 "xfx" "foo", one 0 "yfx" "foo"]) "foo" .inf = none := by
  decide
-- every error exit is reached
example : (opStep defaultTable ⟨.var, .atom "xfx", .one (.atom "foo")⟩).2 = some .inst := by decide
example : (opStep defaultTable ⟨.atom "a", .atom "xfx", .one (.atom "foo")⟩).2 =
    some (.typeInteger (.atom "a")) := by decide
example : (opStep defaultTable ⟨.int 1, .int 1, .one (.atom "foo")⟩).2 = some (.typeAtom (.int 1)) := by
  decide
example : (opStep defaultTable ⟨.int 1, .atom "xfx", .one (.int 1)⟩).2 =
    some (.typeList (.one (.int 1))) := by decide
example : (opStep defaultTable (one 1201 "xfx" "foo")).2 = some (.domPriority 1201) := by decide
example : (opStep defaultTable (one (-1) "xfx" "foo")).2 = some (.domPriority (-1)) := by decide
example : (opStep defaultTable (one 1 "yfy" "foo")).2 = some (.domSpecifier "yfy") := by decide
example : (opStep defaultTable (one 1000 "xfy" ",")).2 = some (.permModify ",") := by decide
example : (opStep defaultTable (mk 0 "xfy" ["mod", ","])).2 = some (.permModify ",") := by decide
example : (opStep defaultTable (one 200 "xfy" "[]")).2 = some (.permCreate "[]") := by decide
example : (opStep defaultTable (one 200 "xfy" "{}")).2 = some (.permCreate "{}") := by decide
example : (opStep defaultTable (one 1000 "xfy" "|")).2 = some (.permCreate "|") := by decide
example : (opStep defaultTable (one 1001 "fy" "|")).2 = some (.permCreate "|") := by decide
example : (opStep defaultTable (one 1001 "xfy" "|")).2 = none := by decide
example : (opStep defaultTable (one 200 "xf" "+")).2 = some (.permCreate "+") := by decide
example : (opStep defaultTable ⟨.int 1, .atom "xfx", .cons (.atom "foo") [] (.atom "bar")⟩).2 =
    some (.typeList (.cons (.atom "foo") [] (.atom "bar"))) := by decide
example : (opStep defaultTable ⟨.int 1, .atom "xfx", .cons (.atom "foo") [.var] (.atom "[]")⟩).2 =
    some .inst := by decide

-- finding C43-1: the code as written accepts op(200, xfy, ['|']) and breaks the '|' invariant …
example : (opStepImpl asIs defaultTable (mk 200 "xfy" ["|"])).2 = none := by decide
example : lookup (opStepImpl asIs defaultTable (mk 200 "xfy" ["|"])).1 "|" .inf = some (200, .xfy) := by
  decide
-- … the ISO step rejects it
example : opStep defaultTable (mk 200 "xfy" ["|"]) = (defaultTable, some (.permCreate "|")) := by decide
-- it is an instance of `Deviates`; elsewhere the code as written is the ISO step
example : Deviates (mk 200 "xfy" ["|"]) :=
  ⟨.atom "|", [], .atom "[]", ["|"], 200, .xfy, rfl, rfl, rfl, rfl, by decide, by decide⟩
example : opStepImpl asIs defaultTable (one 200 "xf" "foo") = opStep defaultTable (one 200 "xf" "foo") := by
  decide
-- the ISO-undefined event (not a finding): op(200, xf, [foo, +]) is rejected for + after foo was added …
example : (opStep defaultTable (mk 200 "xf" ["foo", "+"])).2 = some (.permCreate "+") := by decide
example : lookup (opStep defaultTable (mk 200 "xf" ["foo", "+"])).1 "foo" .post = some (200, .xf) := by
  decide
example : PrefixMade defaultTable (mk 200 "xf" ["foo", "+"]) (.permCreate "+")
    (opStep defaultTable (mk 200 "xf" ["foo", "+"])).1 :=
  ⟨.atom "foo", [.atom "+"], 200, .xf, ["foo"], "+", [], rfl, rfl, by decide, rfl, by decide,
    rfl, by decide, by decide, by decide, rfl, by decide⟩
-- … the all-or-nothing variant raises the same error and adds nothing
example : opStepAtomic defaultTable (mk 200 "xf" ["foo", "+"]) = (defaultTable, some (.permCreate "+")) := by
  decide
-- finding C43-2: with the priority bound and the specifier unbound the code finds nothing
example : currentOpQ false defaultTable ⟨some 500, none, some "+"⟩ = [] := by decide
example : currentOpQ true defaultTable ⟨some 500, none, some "+"⟩ = [(500, .yfx, "+")] := by decide

end Scryer.OpTable
