import ScryerModel.Proofs.OpTable
/-! # C43 (placeholder while the tie is being built) -/
namespace Scryer.OpTable

theorem C43_placeholder : opStep [] ⟨.var, .var, .one .var⟩ = ([], some .inst) := rfl

end Scryer.OpTable
