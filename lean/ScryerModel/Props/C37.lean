import ScryerModel.Proofs.Codec
namespace Scryer.Codec
theorem C37_placeholder : True := trivial
end Scryer.Codec
