import ScryerModel.Proofs.Codec
/-!
# C37 — Hashes and encodings are byte-exact (codec part)

Property theorems over `Model/Codec.lean`. All of them are for byte / character lists of ANY
length (induction; no bound). `Bytes bs` = every element `< 256`; `Scalars cs` = every element
is a Unicode scalar value; hypothesis-free versions over `List UInt8` / `List Char` follow each
group. Only statements live here; lemmas are in `Proofs/Codec`.

* hex (`hexEncode`/`hexDecode` mirror `bytes_hex//1`, `hex_bytes//1`, `char_hexval/2` of
  `crypto.pl`);
* Base64 (`b64Encode`/`b64Decode`: RFC 4648 §4/§5 with `padding/1`, `charset/1`; the decoder is
  the strict one of the `base64` crate engines used by `'$chars_base64'/4`);
* UTF-8 (`utf8Encode`/`utf8Decode`: RFC 3629; `utf8EncodeCharMech`/`utf8DecodeMech` mirror
  `code_to_utf8//1` and `decode_utf8//1` of `charsio.pl`).

Digests, HMAC and ChaCha20-Poly1305 are NOT covered by any theorem (third-party crates; tied
by an independent oracle in `vlib/props/C37.py`).
-/
namespace Scryer.Codec

/-! ## hex_bytes/2 -/

/-- Decoding the hex text of any byte list gives the byte list back. -/
theorem C37_hex_roundtrip (bs : List Nat) (h : Bytes bs) : hexDecode (hexEncode bs) = some bs :=
  hex_roundtrip bs h

/-- The hex text has exactly two characters per byte, all of them lower-case hex digits. -/
theorem C37_hex_shape (bs : List Nat) (h : Bytes bs) :
    (hexEncode bs).length = 2 * bs.length ∧ ∀ c ∈ hexEncode bs, c ∈ lowerHex :=
  ⟨hex_length bs, hex_lower bs h⟩

/-- The hex encoder is injective. -/
theorem C37_hex_injective (a b : List Nat) (ha : Bytes a) (hb : Bytes b)
    (h : hexEncode a = hexEncode b) : a = b := by
  have := hex_roundtrip a ha
  rw [h, hex_roundtrip b hb] at this
  exact (Option.some.inj this).symm

/-- Whatever the decoder accepts is a list of octets, half as long as the text. -/
theorem C37_hex_decode_sound (hs : List Char) (bs : List Nat) (h : hexDecode hs = some bs) :
    Bytes bs ∧ hs.length = 2 * bs.length :=
  hexDecode_sound hs bs h

/-- The decoder fails (`domain_error(hex_encoding, _)` in `hex_bytes/2`) exactly for texts of
    odd length or containing a character that is not one of `0-9a-fA-F`. -/
theorem C37_hex_decode_error_iff (hs : List Char) :
    hexDecode hs = none ↔ hs.length % 2 = 1 ∨ ∃ c ∈ hs, hexVal c = none :=
  hexDecode_none_iff hs

/-- Hypothesis-free form: for every list of `UInt8`. -/
theorem C37_hex_roundtrip_uint8 (bs : List UInt8) :
    hexDecode (hexEncode (bs.map UInt8.toNat)) = some (bs.map UInt8.toNat) :=
  hex_roundtrip _ (by
    intro b hb
    rcases List.mem_map.mp hb with ⟨x, _, rfl⟩
    exact UInt8.toNat_lt x)

/-- `hex_bytes(-Hs, +Bytes)` on a list of integers: the hex text if all of them are in `0..255`;
    a reported `type_error(byte, B)` always names an element outside that range. -/
theorem C37_hex_bytes_check (bs : List Int) :
    ((∀ b ∈ bs, 0 ≤ b ∧ b ≤ 255) → hexBytesEnc bs = .ok (hexEncode (bs.map Int.toNat)))
    ∧ (∀ b, hexBytesEnc bs = .error b → b ∈ bs ∧ ¬ (0 ≤ b ∧ b ≤ 255)) := by
  unfold hexBytesEnc
  constructor
  · intro h
    rw [(firstNonByte_none_iff bs).mpr h]
  · intro b h
    cases hf : firstNonByte bs with
    | none => rw [hf] at h; cases h
    | some x =>
      rw [hf] at h
      cases h
      exact firstNonByte_some bs b hf

/-! ## chars_base64/3 -/

/-- For every option set (`padding(true|false)` × `charset(standard|url)`): decoding the
    Base64 text of any byte list gives the byte list back. -/
theorem C37_b64_roundtrip (o : B64Opts) (bs : List Nat) (h : Bytes bs) :
    b64Decode o (b64Encode o bs) = some bs :=
  b64_roundtrip o bs h

/-- Length law: `4⌈n/3⌉` characters with padding, `⌈4n/3⌉` without. -/
theorem C37_b64_length (o : B64Opts) (bs : List Nat) :
    (b64Encode o bs).length =
      if o.pad then 4 * ((bs.length + 2) / 3) else (4 * bs.length + 2) / 3 :=
  b64_length o bs

/-- Alphabet law: the text is a run of characters of the selected 64-character alphabet followed
    by `(3 - n mod 3) mod 3 ≤ 2` `'='` characters if padding is on, and by nothing otherwise. -/
theorem C37_b64_alphabet (o : B64Opts) (bs : List Nat) (h : Bytes bs) :
    ∃ body k, b64Encode o bs = body ++ List.replicate k '='
      ∧ (∀ c ∈ body, c ∈ b64Alphabet o.url)
      ∧ k = (if o.pad then padCount bs.length else 0) ∧ k ≤ 2 := by
  refine ⟨(sextets bs).map (b64Char o.url), if o.pad then padCount bs.length else 0, ?_, ?_, rfl, ?_⟩
  · unfold b64Encode; cases o.pad <;> simp
  · intro c hc
    rcases List.mem_map.mp hc with ⟨s, hs, rfl⟩
    exact b64Char_mem o.url s (sextets_sext bs h s hs)
  · unfold padCount; split <;> omega

/-- The Base64 encoder is injective for every option set. -/
theorem C37_b64_injective (o : B64Opts) (a b : List Nat) (ha : Bytes a) (hb : Bytes b)
    (h : b64Encode o a = b64Encode o b) : a = b := by
  have := b64_roundtrip o a ha
  rw [h, b64_roundtrip o b hb] at this
  exact (Option.some.inj this).symm

/-- The strict decoder accepts exactly the encoder's outputs: whatever it accepts is a byte list
    whose encoding (same options) is the given text — wrong / missing / superfluous padding,
    non-zero trailing bits and foreign characters are all rejected. -/
theorem C37_b64_decode_canonical (o : B64Opts) (cs : List Char) (bs : List Nat)
    (h : b64Decode o cs = some bs) : Bytes bs ∧ b64Encode o bs = cs :=
  b64_decode_canonical o cs bs h

/-- Hypothesis-free form: for every list of `UInt8` and every option set. -/
theorem C37_b64_roundtrip_uint8 (o : B64Opts) (bs : List UInt8) :
    b64Decode o (b64Encode o (bs.map UInt8.toNat)) = some (bs.map UInt8.toNat) :=
  b64_roundtrip o _ (by
    intro b hb
    rcases List.mem_map.mp hb with ⟨x, _, rfl⟩
    exact UInt8.toNat_lt x)

/-! ## chars_utf8bytes/2 -/

/-- Decoding the UTF-8 encoding of any list of scalar values gives the list back. -/
theorem C37_utf8_roundtrip (cs : List Nat) (h : Scalars cs) :
    utf8Decode (utf8Encode cs) = some cs :=
  utf8_roundtrip cs h

/-- Hypothesis-free form: for every list of `Char`s (Lean's `Char` = Unicode scalar value, as
    are Scryer's characters). -/
theorem C37_utf8_roundtrip_chars (cs : List Char) :
    utf8Decode (utf8Encode (cs.map Char.toNat)) = some (cs.map Char.toNat) :=
  utf8_roundtrip _ (by
    intro c hc
    rcases List.mem_map.mp hc with ⟨x, _, rfl⟩
    exact x.valid)

/-- The UTF-8 encoder is injective on scalar values. -/
theorem C37_utf8_injective (a b : List Nat) (ha : Scalars a) (hb : Scalars b)
    (h : utf8Encode a = utf8Encode b) : a = b := by
  have := utf8_roundtrip a ha
  rw [h, utf8_roundtrip b hb] at this
  exact (Option.some.inj this).symm

/-- … and therefore on character lists. -/
theorem C37_utf8_injective_chars (a b : List Char)
    (h : utf8Encode (a.map Char.toNat) = utf8Encode (b.map Char.toNat)) : a = b := by
  have h1 := C37_utf8_roundtrip_chars a
  rw [h, C37_utf8_roundtrip_chars b] at h1
  have := (Option.some.inj h1).symm
  exact (List.map_inj_right (fun x y hxy => Char.toNat_inj.mp hxy)).mp this

/-- Every code point below 0x110000 is encoded in 1–4 octets. -/
theorem C37_utf8_encode_shape (c : Nat) (h : c < 0x110000) :
    Bytes (utf8EncodeChar c) ∧ 1 ≤ (utf8EncodeChar c).length ∧ (utf8EncodeChar c).length ≤ 4 :=
  ⟨utf8EncodeChar_bytes c h, utf8EncodeChar_length c⟩

/-- The strict decoder accepts exactly the encodings of scalar values (shortest form only, no
    surrogates, nothing above U+10FFFF): whatever it accepts re-encodes to the input. -/
theorem C37_utf8_decode_canonical (bs cs : List Nat) (h : utf8Decode bs = some cs) :
    Scalars cs ∧ utf8Encode cs = bs :=
  utf8Decode_canonical bs cs h

/-- The clauses of `code_to_utf8//1` / `encode//3` (shifts, masks, `\/`) compute the RFC 3629
    table for every code point `char_code/2` can deliver. -/
theorem C37_utf8_encode_mech (c : Nat) (h : c < 0x110000) :
    utf8EncodeCharMech c = some (utf8EncodeChar c) :=
  utf8EncodeCharMech_eq c h

/-- On well-formed UTF-8 the clauses of `decode_utf8//1` (as at HEAD, `fix = false`, and with
    the patch proposed in notes/findings/C37-1.md, `fix = true`) return exactly the strict
    decoder's characters; in particular `chars_utf8bytes/2` decodes its own output. -/
theorem C37_utf8_decode_mech_agrees (fix : Bool) (bs cs : List Nat)
    (h : utf8Decode bs = some cs) : utf8DecodeMech fix bs = .ok cs :=
  utf8DecodeMech_of_strict fix bs cs h

/-- `once(phrase(decode_utf8(Cs), Bs))` never fails: it returns characters (with U+FFFD for
    some ill-formed parts) or raises `representation_error(character_code)`. -/
theorem C37_utf8_decode_mech_total (fix : Bool) (bs : List Nat) :
    utf8DecodeMech fix bs ≠ .fail :=
  utf8DecodeMech_ne_fail fix bs

/-- PARTIAL (holds for the patched clauses only, `fix = true`): if the decoder returns characters
    none of which is U+FFFD then the input was well-formed UTF-8 and the characters are its
    strict decoding — ill-formed input is never silently interpreted as characters. For the code
    at HEAD (`fix = false`) this is FALSE: see the `example`s below (finding C37-1: overlong
    forms such as `C0 80` are accepted). -/
theorem C37_utf8_decode_illformed_signalled_partial (bs cs : List Nat) (hb : Bytes bs)
    (h : utf8DecodeMech true bs = .ok cs) (hf : 0xFFFD ∉ cs) : utf8Decode bs = some cs :=
  utf8DecodeMech_fix_sound bs cs hb h hf

/-! ## non-vacuity / branch coverage -/

example : Bytes [0, 127, 128, 255] := by simp [Bytes]
example : hexEncode [80, 26, 206] = ['5','0','1','a','c','e'] := by decide
example : hexDecode ['5','0','1','A','C','E'] = some [80, 26, 206] := by decide
example : hexDecode ['0'] = none ∧ hexDecode ['0','g'] = none := by decide
example : hexBytesEnc [1, 256, -3] = .error 256 := by simp [hexBytesEnc, firstNonByte]
example : b64Encode ⟨true, false⟩ [104, 101, 108, 108, 111] = "aGVsbG8=".toList := by decide
example : b64Encode ⟨false, true⟩ [251, 255] = ['-', '_', '8'] := by decide
example : b64Encode ⟨true, false⟩ [251, 255] = ['+', '/', '8', '='] := by decide
-- wrong padding, non-zero trailing bits, foreign alphabet are rejected
example : b64Decode ⟨true, false⟩ "aGVsbG8".toList = none := by decide
example : b64Decode ⟨false, false⟩ "aGVsbG8=".toList = none := by decide
example : b64Decode ⟨true, false⟩ "aGVsbG9=".toList = none := by decide
example : b64Decode ⟨true, true⟩ "+/8=".toList = none := by decide
example : b64Decode ⟨true, false⟩ "+/8=".toList = some [251, 255] := by decide
example : Scalars [0, 0x7F, 0x80, 0x7FF, 0x800, 0xD7FF, 0xE000, 0xFFFF, 0x10000, 0x10FFFF] := by
  simp [Scalars, isScalar]
example : utf8Encode [0x41, 0xE9, 0x2211, 0x1F600] = [65, 195, 169, 226, 136, 145, 240, 159, 152, 128] := by
  decide
-- strict decoder: overlong, surrogate, too big, truncated are all rejected
example : utf8Decode [0xC0, 0x80] = none ∧ utf8Decode [0xE0, 0x80, 0x80] = none
    ∧ utf8Decode [0xED, 0xA0, 0x80] = none ∧ utf8Decode [0xF4, 0x90, 0x80, 0x80] = none
    ∧ utf8Decode [0xE2, 0x88] = none := by decide
-- finding C37-1: the clauses at HEAD turn the overlong form C0 80 into U+0000 …
example : utf8DecodeMech false [0xC0, 0x80] = .ok [0] := by
  rw [utf8DecodeMech_cons]
  have : mechStep false 0xC0 [0x80] = .char 0 [] := by decide
  rw [this]; simp [utf8DecodeMech]
-- … the patched clauses give U+FFFD
example : utf8DecodeMech true [0xC0, 0x80] = .ok [0xFFFD] := by
  rw [utf8DecodeMech_cons]
  have : mechStep true 0xC0 [0x80] = .char 0xFFFD [] := by decide
  rw [this]; simp [utf8DecodeMech]
-- the other branches of the mirror: surrogate → exception, bad continuation byte swallowed,
-- truncated sequence at the end → one U+FFFD
example : mechStep false 0xED [0xA0, 0x80] = .reprErr := by decide
example : mechStep false 0xE2 [0x41, 0x42] = .char 0xFFFD [0x42] := by decide
example : mechStep false 0xE2 [0x88] = .char 0xFFFD [] := by decide
example : mechStep false 0xE2 [] = .char 0xFFFD [] := by decide
example : mechStep false 0xFF [0x41] = .char 0xFFFD [0x41] := by decide

end Scryer.Codec
