import ScryerModel.Proofs.ArithEval
import ScryerModel.Extracted.EvalTables
/-
C03 — Arithmetic does not depend on how the expression reaches is/2.

`Scryer.Extracted.compiledTable` / `metaTable` are regenerated from /repo's source by
extract/evaltables.py on every run of the check: for every evaluable functor/arity the function of
src/machine/arithmetic_ops.rs that computes it, the order of its arguments and the operand conversions —
once as the compiler + instruction dispatch route it, once as `arith_eval_by_metacall` routes it.
`evalCompiled` / `evalMeta` (Model/ArithEval.lean) mirror the two evaluation mechanisms over such tables;
what the arithmetic_ops functions compute is the parameter `sem` (every theorem is for ALL `sem`).
-/
namespace Scryer.ArithEval
open Scryer.Extracted

/-! ### the extracted tables -/

/-- Both evaluators know the same functors with the same arities and route each of them to the same
    arithmetic_ops function with the same argument order and operand conversions (checked by the
    kernel on the tables extracted from the current source). -/
theorem C03_tables_agree : compiledTable = metaTable := by decide

/-- The tables are non-trivial (44 rows: 3 constants, 21 unary, 20 binary functors) and have one row per
    functor/arity, so `Table.find` returns THE row. -/
theorem C03_tables_shape :
    metaTable.length = 44 ∧ (metaTable.map fun r => (r.functor, r.arity)).Nodup ∧
    (metaTable.filter (·.arity == 0)).length = 3 ∧ (metaTable.filter (·.arity == 1)).length = 21 ∧
    (metaTable.filter (·.arity == 2)).length = 20 ∧ metaTable.all (fun r => r.arity ≤ 2 && r.fetch.length == r.arity) := by
  decide

/-! ### the two mechanisms -/

/-- The stack walk of the run-time evaluator (`interms`, post-order iterator) computes the
    structural recursion: operands left to right, then the functor; the first error wins. -/
theorem C03_runtime_evaluator_is_recursion (mt : Table) {V : Type} (sem : Sem V) (t : Term V) :
    evalMeta mt sem t = evalRec mt sem t := evalMeta_eq_rec mt sem t

/-- VALUES agree in every context: whenever the two tables agree (they do: `C03_tables_agree`), an
    expression written in a clause body — with any of its sub-expressions replaced by clause variables
    that are bound at run time to numbers or to unevaluated expression terms — evaluates to `v` through
    the compiled instructions iff the run-time evaluator gives `v` for the whole term. In particular
    one of them raises an error iff the other does. -/
theorem C03_values_agree (ct mt : Table) (h : ct = mt) {V : Type} (sem : Sem V) (t : Term V) (v : V) :
    evalCompiled ct mt sem t = .ok v ↔ evalMeta mt sem t = .ok v := by
  subst h
  rw [evalMeta_eq_rec]
  unfold evalCompiled
  cases hu : firstUnknown ct t with
  | some x =>
      obtain ⟨f, n⟩ := x
      constructor
      · intro hh; simp at hh
      · intro hh; exact absurd hh (evalRec_unknown ct sem t _ hu v)
  | none => exact full_ok_iff ct sem t v

/-- ERRORS agree on expressions without clause variables (the whole expression is literal, or the
    whole expression is a run-time term): if every functor is evaluable the compiled evaluator and the
    run-time evaluator give the same value or the SAME error term. -/
theorem C03_literal_expressions_agree (ct mt : Table) (h : ct = mt) {V : Type} (sem : Sem V) (t : Term V)
    (hc : closed t = true) (hk : firstUnknown ct t = none) :
    evalCompiled ct mt sem t = evalMeta mt sem t := by
  subst h
  rw [evalMeta_eq_rec]
  unfold evalCompiled
  rw [hk, runCode_closed ct sem t hc]
  cases evalRec ct sem t <;> rfl

/-- A functor that is not evaluable: the compiled evaluator reports `type_error(evaluable, F/N)` for
    the first such functor in evaluation order, and the run-time evaluator cannot produce a value
    either (it reports that same functor unless an operation on an EARLIER sub-expression raises
    first: the compiler finds the functor before anything is evaluated). -/
theorem C03_non_evaluable (ct mt : Table) (h : ct = mt) {V : Type} (sem : Sem V) (t : Term V)
    (f : String) (n : Nat) (hu : firstUnknown ct t = some (f, n)) :
    evalCompiled ct mt sem t = .error (.evaluable f n) ∧ ∀ v, evalMeta mt sem t ≠ .ok v := by
  subst h
  refine ⟨by simp [evalCompiled, hu], ?_⟩
  intro v; rw [evalMeta_eq_rec]; exact evalRec_unknown ct sem t _ hu v

/-- The same, instantiated with the tables extracted from the current source. -/
theorem C03_evaluators_agree {V : Type} (sem : Sem V) (t : Term V) :
    (∀ v, evalCompiled compiledTable metaTable sem t = .ok v ↔ evalMeta metaTable sem t = .ok v) ∧
    (closed t = true → firstUnknown compiledTable t = none →
      evalCompiled compiledTable metaTable sem t = evalMeta metaTable sem t) :=
  ⟨fun v => C03_values_agree _ _ C03_tables_agree sem t v,
   fun hc hk => C03_literal_expressions_agree _ _ C03_tables_agree sem t hc hk⟩

/-! ### a routing difference would be visible (the theorems are sensitive to the tables) -/

/-- a toy semantics on integers that only knows `add` and `sub`. -/
def toySem : Sem Int where
  apply := fun fn vs => match fn, vs with
    | "add", [a, b] => .ok (a + b)
    | "sub", [a, b] => .ok (a - b)
    | _, _ => .error (.op "unsupported")
  conv := fun _ v => .ok v

/-- if the compiler routed `-`/2 to `add` (or swapped the operands of `sub`) the two evaluators would
    differ on `7 - 2`: the agreement theorem really depends on the extracted rows. -/
theorem C03_sensitive_to_routing :
    let good : Table := [⟨"-", 2, "sub", [1, 2], ["number", "number"]⟩]
    let wrongFn : Table := [⟨"-", 2, "add", [1, 2], ["number", "number"]⟩]
    let swapped : Table := [⟨"-", 2, "sub", [2, 1], ["number", "number"]⟩]
    let e : Term Int := .app2 "-" (.num 7) (.num 2)
    evalMeta good toySem e = .ok 5 ∧ evalCompiled good good toySem e = .ok 5 ∧
    evalCompiled wrongFn good toySem e = .ok 9 ∧ evalCompiled swapped good toySem e = .ok (-5) := by
  refine ⟨?_, ?_, ?_, ?_⟩ <;> rfl

/-! ### non-vacuity -/

example : metaTable.find "rdiv" 2 = some ⟨"rdiv", 2, "rdiv", [1, 2], ["rational", "rational"]⟩ := by decide
example : metaTable.find "foo" 1 = none := by decide
example : firstUnknown compiledTable (.app2 "+" (.num (1 : Int)) (.app1 "foo" (.num 2))) = some ("foo", 1) := by decide
example : closed (.app2 "+" (.num (1 : Int)) (.atom "pi")) = true ∧
    firstUnknown compiledTable (.app2 "+" (.num (1 : Int)) (.atom "pi")) = none := by decide
-- a clause variable bound to an unevaluated term is evaluated on demand by the run-time evaluator
example : evalCompiled [⟨"-", 2, "sub", [1, 2], ["number", "number"]⟩] [⟨"-", 2, "sub", [1, 2], ["number", "number"]⟩]
    toySem (.app2 "-" (.bound (.app2 "-" (.num 9) (.num 1))) (.num 2)) = .ok 6 := by rfl

end Scryer.ArithEval
