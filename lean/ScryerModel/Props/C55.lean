import ScryerModel.Model.Quote
namespace Scryer.C55
open Scryer.Quote Scryer.CharClass

/-- `write/1` (quoted = false) never quotes: the atom text is written unchanged. -/
theorem C55_write_never_quotes (u : UC) (s : List Char) : printAtom u false s = s := by
  simp [printAtom, printAtomImpl]

end Scryer.C55
