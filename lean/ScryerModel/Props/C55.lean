import ScryerModel.Proofs.QuoteEsc
import ScryerModel.Proofs.QuoteMin
import ScryerModel.Proofs.QuoteSeq
/-!
# C55 — writeq and print quote and space exactly as ISO requires

The definitions the theorems talk about (`Model/Quote.lean`) mirror `heap_print.rs`
(`non_quoted_token`, `char_to_string`, `print_op_addendum`, `requires_space`, …) and `lexer.rs` over the
character classes *extracted* from `src/parser/macros.rs` on every run (`Extracted/CharClass.lean`).
`u : UC` holds Rust's Unicode predicates (`char::is_alphabetic` …) as parameters; `UCWF u` says they
answer on ASCII what ASCII says. All theorems hold for every text (any length, any characters).
-/
namespace Scryer.C55
open Scryer.Quote Scryer.CharClass

/-! ## The ISO side (written here by hand from ISO/IEC 13211-1 6.4.2, 6.5) -/

/-- 6.5.1 graphic char -/
def isoGraphic : List Char := ['#', '$', '&', '*', '+', '-', '.', '/', ':', '<', '=', '>', '?', '@', '^', '~']
/-- 6.5.3 solo char -/
def isoSolo : List Char := ['!', '(', ')', ',', ';', '[', ']', '{', '}', '|', '%']
/-- 6.5.5 meta char -/
def isoMeta : List Char := ['\\', '\'', '"', '`']
/-- 6.4.2 letter digit token, with the processor's extended small letters / alphanumerics -/
def IsLetterDigitToken (u : UC) (s : List Char) : Prop :=
  ∃ c r, s = c :: r ∧ small_letter_char u c = true ∧ ∀ d ∈ r, alpha_numeric_char u d = true
/-- 6.4.2 graphic token: graphic token char {graphic token char}, graphic token char = graphic | backslash -/
def IsGraphicToken (s : List Char) : Prop := s ≠ [] ∧ ∀ d ∈ s, d ∈ isoGraphic ∨ d = '\\'
/-- a graphic token "that cannot be misread": it does not open a bracketed comment (6.4.2: "a graphic
    token shall not begin with the character sequence comment open") and is not the end char alone -/
def NotMisread (s : List Char) : Prop := (¬ ∃ r, s = '/' :: '*' :: r) ∧ s ≠ ['.']
/-- the atoms made of solo characters: `[]`, `{}`, `!`, `;` (6.3.1.3 and 6.4.2 cut / semicolon token) -/
def IsSoloAtom (s : List Char) : Prop := s = ['[', ']'] ∨ s = ['{', '}'] ∨ s = ['!'] ∨ s = [';']

/-- The extracted classes are the ISO tables (checked again whenever `macros.rs` changes):
    graphic, solo, meta characters, and on ASCII: alpha = letter or `_`, small letter = a..z,
    capital letter = A..Z, alphanumeric = alpha or digit. -/
theorem C55_classes_are_iso (u : UC) (hu : UCWF u) (c : Char) :
    (graphic_char u c = true ↔ c ∈ isoGraphic) ∧ (solo_char u c = true ↔ c ∈ isoSolo) ∧
    (meta_char u c = true ↔ c ∈ isoMeta) ∧ (graphic_token_char u c = true ↔ (c ∈ isoGraphic ∨ c = '\\')) ∧
    (c.toNat < 128 → alpha_char u c = (c.isAlpha || c == '_')) ∧
    (c.toNat < 128 → small_letter_char u c = c.isLower) ∧
    (c.toNat < 128 → capital_letter_char u c = c.isUpper) ∧
    (c.toNat < 128 → alpha_numeric_char u c = (c.isAlpha || c == '_' || c.isDigit)) := by
  refine ⟨?_, ?_, ?_, ?_, ?_, fun h => small_ascii hu h, fun h => cap_ascii hu h, fun h => alnum_ascii hu h⟩
  · simp [graphic_char, isoGraphic, or_assoc]
  · simp [solo_char, isoSolo, or_assoc]
  · simp [meta_char, isoMeta, or_assoc]
  · simp [graphic_token_char, graphic_char, backslash_char, isoGraphic, or_assoc]
  · intro h; rw [wf_alpha hu h, ascii_alpha_iso c h]

/-- **Quoting decision = ISO.** `non_quoted_token` answers "unquoted" exactly for letter-digit tokens that
    start with a small letter, graphic tokens that cannot be misread, and the solo atoms. -/
theorem C55_unquoted_iff_iso (u : UC) (hu : UCWF u) (s : List Char) :
    nonQuotedToken u s = true ↔
      IsLetterDigitToken u s ∨ (IsGraphicToken s ∧ NotMisread s) ∨ IsSoloAtom s := by
  have gt : ∀ d : Char, (d ∈ isoGraphic ∨ d = '\\') ↔ graphic_token_char u d = true := fun d =>
    ((C55_classes_are_iso u hu d).2.2.2.1).symm
  cases s with
  | nil => simp [nonQuotedToken, IsLetterDigitToken, IsGraphicToken, IsSoloAtom]
  | cons c r =>
    by_cases hs : small_letter_char u c = true
    · rw [nonQuoted_small r hs]
      have ng : graphic_token_char u c = false := (small_facts hu hs).2.2.2.2
      constructor
      · intro h; exact Or.inl ⟨c, r, rfl, hs, by simpa using h⟩
      · rintro (⟨c', r', e, _, h⟩ | ⟨⟨_, h⟩, _⟩ | h)
        · simp at e; obtain ⟨rfl, rfl⟩ := e; simpa using h
        · have := (gt c).1 (h c (by simp)); rw [ng] at this; exact absurd this (by simp)
        · exfalso
          have ne : ∀ x : Char, x.toNat < 128 → x.isLower = false → c ≠ x := fun x hx hl => small_ne hu hs hx hl
          rcases h with h | h | h | h <;> simp at h
          · exact ne _ (by decide) (by decide) h.1
          · exact ne _ (by decide) (by decide) h.1
          · exact ne _ (by decide) (by decide) h.1
          · exact ne _ (by decide) (by decide) h.1
    · by_cases hg : graphic_token_char u c = true
      · rw [nonQuoted_graphic hu r hg, nonQuotedGraphic_iff]
        have nsolo : ¬ IsSoloAtom (c :: r) := by
          have := (gt_facts c ((gt_mem u c).1 hg)).2.2.2.2.1
          rintro (h | h | h | h) <;> simp at h <;> (obtain ⟨rfl, _⟩ := h; simp [solo_char] at this)
        constructor
        · rintro ⟨h1, h2, h3⟩
          refine Or.inr (Or.inl ⟨⟨by simp, ?_⟩, ?_, ?_⟩)
          · intro d hd; simp at hd; rcases hd with rfl | hd
            · exact (gt d).2 hg
            · exact (gt d).2 (h1 d hd)
          · rintro ⟨r', e⟩; simp at e; exact h2 ⟨e.1, _, e.2⟩
          · intro e; simp at e; exact h3 e
        · rintro (⟨c', r', e, hsm, _⟩ | ⟨⟨_, h⟩, h2, h3⟩ | h)
          · simp at e; obtain ⟨rfl, rfl⟩ := e; exact absurd hsm hs
          · refine ⟨fun d hd => (gt d).1 (h d (by simp [hd])), ?_, ?_⟩
            · rintro ⟨rfl, r', rfl⟩; exact h2 ⟨r', rfl⟩
            · rintro ⟨rfl, rfl⟩; exact h3 rfl
          · exact absurd h nsolo
      · rw [nonQuoted_other r (by simpa using hs) (by simpa using hg)]
        constructor
        · rintro (⟨rfl, rfl⟩ | ⟨rfl, rfl⟩ | ⟨rfl, rfl⟩ | ⟨rfl, rfl⟩) <;> simp [IsSoloAtom]
        · rintro (⟨c', r', e, hsm, _⟩ | ⟨⟨_, h⟩, _⟩ | h)
          · simp at e; obtain ⟨rfl, rfl⟩ := e; exact absurd hsm hs
          · exact absurd ((gt c).1 (h c (by simp))) hg
          · rcases h with h | h | h | h <;> simp at h <;> obtain ⟨rfl, rfl⟩ := h <;> simp

/-- **Soundness and minimality of unquoted output.** The printer leaves a text unquoted exactly when the
    text itself, read by the token reader, is one atom and denotes the atom with that text
    (a name token, or `[` `]`, or `{` `}`). So unquoted output never changes meaning, and quotes are
    never added to a text that does not need them. -/
theorem C55_unquoted_iff_reads_as_itself (u : UC) (hu : UCWF u) (s : List Char) :
    printAtom u true s = s ↔ readAtom u s = some s := by
  constructor
  · intro h
    by_cases hq : nonQuotedToken u s = true
    · exact readAtom_of_nonQuoted hu hq
    · exfalso
      simp [printAtom, printAtomImpl, hq] at h
      have := congrArg List.length h
      have := flatMap_charToString_length u true s
      simp at *
      omega
  · intro h
    simp [printAtom, printAtomImpl, nonQuoted_of_readAtom hu h]

/-- **Round trip.** For every text, what `writeq`/`write_canonical`/`write_term(quoted(true))` write for
    the atom (repaired printer, see C55-1) reads back as exactly that atom. -/
theorem C55_quoted_roundtrip (u : UC) (hu : UCWF u) (s : List Char) :
    readAtom u (printAtom u true s) = some s := by
  by_cases hq : nonQuotedToken u s = true
  · simp [printAtom, printAtomImpl, hq, readAtom_of_nonQuoted hu hq]
  · simp only [printAtom, printAtomImpl, hq]
    simpa using readAtom_quoted hu s

/-- **The escapes are the standard ones.** Inside quotes every character is written as itself, except:
    the quote as `\'`, the backslash as `\\`, the seven control characters with a symbolic escape as
    `\a \b \f \n \r \t \v`, and every other white-space or control character (everything but the space)
    as the hexadecimal escape `\xH..\`. -/
theorem C55_escapes_standard (u : UC) (c : Char) :
    charToString u true c =
      if c = '\'' then ['\\', '\''] else if c = '\\' then ['\\', '\\']
      else if c = Char.ofNat 7 then ['\\', 'a'] else if c = Char.ofNat 8 then ['\\', 'b']
      else if c = Char.ofNat 12 then ['\\', 'f'] else if c = '\n' then ['\\', 'n']
      else if c = '\r' then ['\\', 'r'] else if c = '\t' then ['\\', 't']
      else if c = Char.ofNat 11 then ['\\', 'v']
      else if c = ' ' ∨ c = '"' then [c]
      else if u.is_whitespace c = true ∨ u.is_control c = true then
        ['\\', 'x'] ++ hexDigits c.toNat ++ ['\\']
      else [c] := by
  by_cases e1 : c = '\''
  · subst e1; simp [charToString]
  by_cases e2 : c = '\\'
  · subst e2; simp [charToString]
  by_cases e3 : c = Char.ofNat 7
  · subst e3; simp [charToString]
  by_cases e4 : c = Char.ofNat 8
  · subst e4; simp [charToString]
  by_cases e5 : c = Char.ofNat 12
  · subst e5; simp [charToString]
  by_cases e6 : c = '\n'
  · subst e6; simp [charToString]
  by_cases e7 : c = '\r'
  · subst e7; simp [charToString]
  by_cases e8 : c = '\t'
  · subst e8; simp [charToString]
  by_cases e9 : c = Char.ofNat 11
  · subst e9; simp [charToString]
  by_cases e10 : c = ' '
  · subst e10; simp [charToString, plainList]
  by_cases e11 : c = '"'
  · subst e11; simp [charToString, plainList]
  simp [charToString, plainList, e1, e2, e3, e4, e5, e6, e7, e8, e9, e10, e11]

/-- `renderT` prints with the model's printer primitives (`emitItem` = `push_space_if_amb!` + `append_str!`,
    `pushChar` = `push_char!`), one item after the other. -/
theorem C55_renderT_is_render (u : UC) (items : List PItem) :
    (renderT u items).1 = render u true (items.map (·.toItem u)) := by
  have : ∀ (p : Out × List Tok), (items.foldl (fun (p : Out × List Tok) x =>
      (emit u true p.1 (x.toItem u), p.2 ++ x.toks (endsSpace p.1.text))) p).1 =
      (items.map (·.toItem u)).foldl (emit u true) p.1 := by
    induction items with
    | nil => intro p; rfl
    | cons x xs ih => intro p; simp only [List.foldl_cons, List.map_cons]; rw [ih]
  exact this _

/-- **No token fusion.** Take any sequence of printed items — atoms with arbitrary text (written with
    `quoted = true`), non-negative integers, the pushed characters `, ) [ ] | { }` and `(`, explicit
    spaces — printed one after the other by the printer's own primitives, i.e. a space is inserted exactly
    where `ambiguity_check` / `requires_space` ask for one (whatever text the ambiguity check is given).
    Then the token reader reads the printed text back as exactly the tokens of the items, in order:
    no two adjacent tokens merge, no token is split, and `(` is `Open` after a space and `OpenCT`
    otherwise (so `foo (` never turns into a functional-notation `foo(`). Negative numbers are the
    items `-` and the integer. -/
theorem C55_no_token_fusion (u : UC) (hu : UCWF u) (items : List PItem) (hv : ∀ x ∈ items, x.Valid) :
    tokens u (renderT u items).1.text = some (renderT u items).2 :=
  render_tokens hu items hv

/-- `write/1` (quoted = false) never quotes: the atom text is written unchanged. -/
theorem C55_write_never_quotes (u : UC) (s : List Char) : printAtom u false s = s := by
  simp [printAtom, printAtomImpl]

/-- Witness for finding C55-1: the code as written prints the atom whose text is two quote characters as
    `''`, which reads back as the *empty* atom; the repaired printer writes `'\'\''`. -/
theorem C55_pinned_two_quotes_witness :
    printAtomImpl false asciiUC true ['\'', '\''] = ['\'', '\''] ∧
    readAtom asciiUC (printAtomImpl false asciiUC true ['\'', '\'']) = some [] ∧
    printAtom asciiUC true ['\'', '\''] = ['\'', '\\', '\'', '\\', '\'', '\''] := by
  decide

/-! ## Non-vacuity -/

/-- `asciiUC` satisfies the hypothesis of the theorems. -/
example : UCWF asciiUC := asciiUC_wf
/-- every `mkUC` table (what the driver uses) satisfies it. -/
example (tbl : List (Nat × Nat)) : UCWF (mkUC tbl) := mkUC_wf tbl
example : nonQuotedToken asciiUC "foo_Bar1".toList = true := by decide
example : nonQuotedToken asciiUC "=..".toList = true := by decide
example : nonQuotedToken asciiUC "[]".toList = true := by decide
example : nonQuotedToken asciiUC "/*".toList = false := by decide
example : nonQuotedToken asciiUC ".".toList = false := by decide
example : nonQuotedToken asciiUC "Foo".toList = false := by decide
example : nonQuotedToken asciiUC ",".toList = false := by decide
example : nonQuotedToken asciiUC "|".toList = false := by decide
example : printAtom asciiUC true "a b\n".toList = "'a b\\n'".toList := by decide
example : (renderT asciiUC [.atom [] ['a'], .atom [] ['-'], .atom [] ['-'], .atom [] ['b']]).1.text = "a- -b".toList := by
  decide
example : (renderT asciiUC [.atom [] ['-'], .space, .open, .atom [] ['-'], .punct ')']).1.text = "- (-)".toList ∧
    (renderT asciiUC [.atom [] ['-'], .space, .open, .atom [] ['-'], .punct ')']).2 =
      [.name ['-'], .punct '(', .name ['-'], .punct ')'] := by decide
example : (renderT asciiUC [.atom [] ['f'], .open, .atom [] [','], .punct ')']).2 =
    [.name ['f'], .openCT, .name [','], .punct ')'] := by decide
example : hexDigits 27 = ['1', 'b'] := by
  rw [hexDigits]; simp only [show ¬ (27 < 16) by decide, dite_false]; rw [hexDigits]; decide

end Scryer.C55
