import ScryerModel.Proofs.ArithMixed
/-!
# C02 — Float and mixed-type evaluation follows IEEE-754 with ISO checks

Model: `Model/ArithFloat.lean` (binary64 as bit patterns; every finite double is `scaled / 2^1074`;
exact `rne`; IEEE `+ * / sqrt trunc` defined through `rne` on the exact result) and
`Model/ArithMixed.lean` (the evaluator of `arithmetic.rs` / `arithmetic_ops.rs`, branch by branch, over
`Fixnum/Integer | Rational | Float`; the transcendental functions are the parameter `Cfg.libm`).

Reading the statements: for a double `x`, `x.scaled : ℕ` is `|x|·2^1074`, `x.scaledInt : ℤ` is `x·2^1074`,
`P = 2^1074`. So "`r` is at least as close to `n/d` as `y`" reads
`|r.scaled·d − n·P| ≤ |y.scaled·d − n·P|` (both sides multiplied by `d·P > 0`).
`Int.fdiv` is floor division, `Int.tdiv` truncating division.

All theorems hold for every `libm` (partial or total) and every configuration unless `pinnedRndI = false`
(the repaired `rnd_i`, finding C02-1) is assumed explicitly.
-/
namespace Scryer.ArithMixed
open Scryer.ArithFloat
open Scryer.Arith (Num)

/-! ## 1. A successful evaluation never yields NaN or an infinity -/

/-- **Finite results.** For every libm and every expression whose float literals are finite doubles,
    a successful evaluation returns an integer, a rational or a *finite* double. -/
theorem C02_success_is_finite (c : Cfg) (e : Expr) (he : e.finLits) (v : Number)
    (h : eval c e = .ok v) : v.fin :=
  eval_fin c e he v h

/-- `classify_float`: exactly the finite doubles pass; an infinity is `float_overflow`, a NaN `undefined`. -/
theorem C02_classify_table (f : F64) :
    (classify f = .ok f ↔ f.isFinite = true) ∧
    (classify f = .error .floatOverflow ↔ f.isInf = true) ∧
    (classify f = .error .undefined ↔ f.isNaN = true) := by
  refine ⟨⟨fun h => (classify_ok h).2, classify_fin⟩, classify_overflow_iff f, classify_undefined_iff f⟩

/-! ## 2. The exactly rounded core -/

/-- **Nearest.** When `rne` of `n/d` is finite, no double `y` (any bit pattern) is closer to `n/d`. -/
theorem C02_rne_nearest (neg : Bool) (n d : Nat) (hd : 0 < d)
    (hfin : (rne neg n d).isFinite = true) (y : F64) :
    |(((rne neg n d).scaled * d : Nat) : Int) - ((n * P : Nat) : Int)| ≤
    |((y.scaled * d : Nat) : Int) - ((n * P : Nat) : Int)| :=
  rne_nearest neg n d hd (rne_not_overflow_of_finite hfin) y

/-- **Half an ulp.** The error of a finite rounding is at most half a unit of the rounding grid
    `2^(u-1074)`, `u = unitExp ⌊n·P/d⌋`. -/
theorem C02_rne_half_ulp (neg : Bool) (n d : Nat) (hd : 0 < d) (hfin : (rne neg n d).isFinite = true) :
    2 * |(((rne neg n d).scaled * d : Nat) : Int) - ((n * P : Nat) : Int)| ≤
      ((d * 2 ^ unitExp (n * P / d) : Nat) : Int) :=
  rne_half_ulp neg n d hd (rne_not_overflow_of_finite hfin)

/-- **Ties to even.** If `N/D` is exactly halfway between two grid points, the even one is chosen. -/
theorem C02_round_tie_even (N D : Nat) (hD : 0 < D)
    (h : 2 * (roundHalfEven N D * D) = 2 * N + D ∨ 2 * N = 2 * (roundHalfEven N D * D) + D) :
    roundHalfEven N D % 2 = 0 :=
  rhe_tie_even N D hD h

/-- **Exact on representable values.** Rounding the exact value of a finite double returns it
    (sign of zero included). -/
theorem C02_rne_exact (x : F64) (hwf : x.wf) (hfin : x.isFinite = true) :
    rne x.sign x.scaled P = x :=
  rne_exact x hwf (of_decide_eq_true hfin)

/-- `rne` yields a finite double or an infinity (overflow), never a NaN, with the requested sign. -/
theorem C02_rne_sign_nan (neg : Bool) (n d : Nat) :
    (rne neg n d).isNaN = false ∧ (rne neg n d).sign = neg :=
  ⟨rne_not_nan neg n d, rne_sign neg n d⟩

/-- **int → float** (`float/1`, promotion in mixed `+ - * /`): `classify` of the correctly rounded value;
    hence `float_overflow` exactly when the nearest double is an infinity. -/
theorem C02_int_to_float (n : Num) :
    float (.int n) = classify (rne (decide (n.val < 0)) n.val.natAbs 1) := rfl

/-- **rational → float**. -/
theorem C02_rat_to_float (n : Int) (d : Nat) :
    float (.rat n d) = classify (rne (decide (n < 0)) n.natAbs d) := rfl

/-- **Addition is correctly rounded.** For finite operands with a non-zero exact sum `s`, a finite
    `x + y` is a double nearest to `s`. -/
theorem C02_add_correctly_rounded (x y : F64) (hx : x.isFinite = true) (hy : y.isFinite = true)
    (hs : x.scaledInt + y.scaledInt ≠ 0) (hr : (addF x y).isFinite = true) (z : F64) :
    |(((addF x y).scaled * P : Nat) : Int) - (((x.scaledInt + y.scaledInt).natAbs * P : Nat) : Int)| ≤
    |((z.scaled * P : Nat) : Int) - (((x.scaledInt + y.scaledInt).natAbs * P : Nat) : Int)| := by
  have e : addF x y = rne (decide (x.scaledInt + y.scaledInt < 0)) (x.scaledInt + y.scaledInt).natAbs P := by
    rcases cls_trichotomy x with ⟨_, _, h3⟩ | ⟨_, _, h3⟩ | ⟨a1, a2, _⟩
    · rw [h3] at hx; cases hx
    · rw [h3] at hx; cases hx
    rcases cls_trichotomy y with ⟨_, _, h3⟩ | ⟨_, _, h3⟩ | ⟨b1, b2, _⟩
    · rw [h3] at hy; cases hy
    · rw [h3] at hy; cases hy
    unfold addF
    simp only [a1, a2, b1, b2, Bool.or_self, Bool.false_eq_true, if_false, hs]
  rw [e] at hr ⊢
  exact C02_rne_nearest _ _ P P_pos hr z

/-- **Division is correctly rounded.** For finite `x` and finite non-zero `y`, a finite `x / y` is a
    double nearest to the exact quotient (`|r·Y − X| ≤ |z·Y − X|` in units of 2^-1074). -/
theorem C02_div_correctly_rounded (x y : F64) (hx : x.isFinite = true) (hy : y.isFinite = true)
    (hy0 : y.isZero = false) (hr : (divF x y).isFinite = true) (z : F64) :
    |(((divF x y).scaled * y.scaled : Nat) : Int) - ((x.scaled * P : Nat) : Int)| ≤
    |((z.scaled * y.scaled : Nat) : Int) - ((x.scaled * P : Nat) : Int)| := by
  have hpos : 0 < y.scaled := by
    unfold F64.isZero at hy0
    have hm : y.mag ≠ 0 := of_decide_eq_false hy0
    unfold F64.scaled F64.sig
    have : 0 < 2 ^ y.ulpExp := by positivity
    split
    · exact Nat.mul_pos (by omega) this
    · exact Nat.mul_pos (by unfold HIDDEN; positivity) this
  have e : divF x y = rne (x.sign != y.sign) x.scaled y.scaled := by
    rcases cls_trichotomy x with ⟨_, _, h3⟩ | ⟨_, _, h3⟩ | ⟨a1, a2, _⟩
    · rw [h3] at hx; cases hx
    · rw [h3] at hx; cases hx
    rcases cls_trichotomy y with ⟨_, _, h3⟩ | ⟨_, _, h3⟩ | ⟨b1, b2, _⟩
    · rw [h3] at hy; cases hy
    · rw [h3] at hy; cases hy
    unfold divF
    simp only [a1, a2, b1, b2, hy0, Bool.or_self, Bool.false_eq_true, if_false]
  rw [e] at hr ⊢
  exact C02_rne_nearest _ _ _ hpos hr z

/-! ## 3. Error table -/

/-- **Float functions** (`sin cos tan log exp asin acos atan`, via `unary_float_fn_template`): with libm
    value `r` at the converted argument, the outcome is: argument conversion overflow → `float_overflow`;
    `r` NaN (e.g. `log` of a negative number, `asin 2`) → `undefined`; `r = ±inf` (e.g. `exp 1000`,
    `log 0.0`) → `float_overflow`; otherwise `r`. -/
theorem C02_float_fn_table (c : Cfg) (op : Fn1) (n : Number) (r : F64)
    (hl : c.libm.fn1 op (rndF n) = some r) :
    fn1 c op n =
      (if (rndF n).isNaN then .error .undefined
       else if (rndF n).isInf then .error .floatOverflow
       else if r.isNaN then .error .undefined
       else if r.isInf then .error .floatOverflow
       else .ok (.flt r)) :=
  fn1_table c op n r hl

/-- `sqrt float_integer_part float_fractional_part`: same table around the exact IEEE operation. -/
theorem C02_exact_fn_table (n : Number) (g : F64 → F64) :
    template n (fun f => .ok (g f)) =
      (if (rndF n).isNaN then .error .undefined
       else if (rndF n).isInf then .error .floatOverflow
       else if (g (rndF n)).isNaN then .error .undefined
       else if (g (rndF n)).isInf then .error .floatOverflow
       else .ok (g (rndF n))) :=
  template_table n g

/-- **`/`**: a zero divisor — as given, or after conversion to float (a rational that underflows) —
    is `zero_divisor`; conversion or quotient overflow is `float_overflow`; otherwise the IEEE quotient
    of the converted operands. -/
theorem C02_div_table (a b : Number) :
    div a b =
      (if b.isZero then .error .zeroDivisor
       else match resultF a, resultF b with
         | .error e, _ => .error e
         | .ok _, .error e => .error e
         | .ok fa, .ok fb =>
            if fb.isZero then .error .zeroDivisor
            else if (divF fa fb).isNaN then .error .undefined
            else if (divF fa fb).isInf then .error .floatOverflow
            else .ok (.flt (divF fa fb))) :=
  div_table a b

/-- `sqrt` of a negative number (−0.0 is not negative) is `undefined`. -/
theorem C02_sqrt_negative (n : Number) (h : n.isNegative = true) : sqrt n = .error .undefined := by
  unfold sqrt; rw [if_pos h]

/-- `0 ** negative` and `0.0 ** negative` are `undefined`, whatever libm says. -/
theorem C02_pow_zero_negative (c : Cfg) (a b : Number) (ha : a.isZero = true)
    (hb : b.isNegative = true) : pow c a b = .error .undefined := by
  unfold pow; simp [ha, hb]

/-- `0 ^ negative` is `undefined` for every combination of types. -/
theorem C02_ipow_zero_negative (c : Cfg) (a b : Number) (ha : a.isZero = true)
    (hb : b.isNegative = true) : intPow c a b = .error .undefined := by
  unfold intPow; simp [ha, hb]

/-- `atan2(0, 0)` is `undefined` for every combination of zero representations. -/
theorem C02_atan2_zero_zero (c : Cfg) (a b : Number) (ha : a.isZero = true) (hb : b.isZero = true) :
    atan2 c a b = .error .undefined := by
  unfold atan2; simp [ha, hb]

/-- a float-valued evaluation can only end in one of the evaluation errors (or a type error of `^`):
    the errors of `classify` are exactly `undefined` and `float_overflow`. -/
theorem C02_classify_errors {f : F64} {e : Err} (h : classify f = .error e) :
    e = .undefined ∨ e = .floatOverflow :=
  classify_error_cases h

/-! ## 4. floor / ceiling / truncate / round give the exact integer -/

/-- **floor of a finite double** is `⌊x⌋` exactly (`Int.fdiv (x·2^1074) 2^1074`), as a well-formed
    number (fixnum iff −2^55 ≤ ⌊x⌋ < 2^55), and never panics — with the repaired range test. -/
theorem C02_floor_float (c : Cfg) (hc : c.pinnedRndI = false) (f : F64) (hf : f.isFinite = true) :
    ∃ r : Num, floor c (.flt f) = .ok (.int r) ∧ r.val = Int.fdiv f.scaledInt (P : Int) ∧ r.wf :=
  floor_flt c hc f hf

/-- **ceiling of a finite double** is `−⌊−x⌋ = ⌈x⌉` exactly, well-formed. -/
theorem C02_ceiling_float (c : Cfg) (hc : c.pinnedRndI = false) (f : F64) (hf : f.isFinite = true) :
    ∃ r : Num, ceiling c (.flt f) = .ok (.int r) ∧
      r.val = -(Int.fdiv (-f.scaledInt) (P : Int)) ∧ r.wf :=
  ceiling_flt c hc f hf

/-- **floor / round of a rational** `n/d`: `⌊n/d⌋`, resp. round-half-away-from-zero, exactly and
    well-formed across the fixnum boundary. -/
theorem C02_floor_round_rat (c : Cfg) (n : Int) (d : Nat) :
    floor c (.rat n d) = .ok (.int (ofIntChecked (Int.fdiv n d))) ∧
    round c (.rat n d) = .ok (.int (ofIntChecked (ratRoundZ n d))) ∧
    (∀ z, (ofIntChecked z).val = z ∧ (ofIntChecked z).wf) :=
  ⟨rfl, rfl, fun z => ⟨ofIntChecked_val z, ofIntChecked_wf z⟩⟩

/-- round-half-away-from-zero is the nearest integer, ties away: `2·|r·d − n| ≤ d` and on a tie `|r|`
    is the larger candidate. -/
theorem C02_ratRound_spec (n : Int) (d : Nat) (hd : 0 < d) :
    2 * |ratRoundZ n d * d - n| ≤ d := by
  unfold ratRoundZ
  have h1 := Nat.div_add_mod (2 * n.natAbs + d) (2 * d)
  have h2 := Nat.mod_lt (2 * n.natAbs + d) (show 0 < 2 * d by omega)
  generalize (2 * n.natAbs + d) / (2 * d) = q at *
  generalize (2 * n.natAbs + d) % (2 * d) = r at *
  have h3 : 2 * d * q = 2 * (q * d) := by ring
  rw [h3] at h1
  generalize hqd : q * d = qd at *
  have hcast : ((q : Nat) : Int) * (d : Int) = ((qd : Nat) : Int) := by rw [← hqd]; push_cast; ring
  by_cases hn : n < 0
  · simp only [hn, if_true]
    rw [show -((q : Nat) : Int) * (d : Int) - n = -(((qd : Nat) : Int) + n) by rw [← hcast]; ring]
    rw [abs_neg]
    rcases abs_cases (((qd : Nat) : Int) + n) with ⟨h, _⟩ | ⟨h, _⟩ <;> rw [h] <;> omega
  · simp only [hn, if_false]
    rw [hcast]
    rcases abs_cases (((qd : Nat) : Int) - n) with ⟨h, _⟩ | ⟨h, _⟩ <;> rw [h] <;> omega

/-- **Witness for finding C02-1**: with the pinned range test (`f ≤ Fixnum::MAX as f64 = 2^55`) `rnd_i`
    builds the ill-formed fixnum `2^55`; the repaired test never does (`C02_floor_float`). -/
theorem C02_pinned_rnd_i_illformed (c : Cfg) (hc : c.pinnedRndI = true) :
    ¬ (rndIFloat c ((2:Int) ^ 55)).wf := by
  unfold rndIFloat; rw [hc]; decide

/-! ## Non-vacuity -/

/-- the boundary on both sides: 2^55 − 4 (largest double below) is a fixnum, 2^55 a bignum. -/
example : rndIFloat { libm := ⟨fun _ _ => none, fun _ _ => none, fun _ _ => none⟩ } ((2:Int)^55 - 4)
    = .fix ((2:Int)^55 - 4) := by decide
example : rndIFloat { libm := ⟨fun _ _ => none, fun _ _ => none, fun _ _ => none⟩ } ((2:Int)^55)
    = .big ((2:Int)^55) := by decide
example : rndIFloat { libm := ⟨fun _ _ => none, fun _ _ => none, fun _ _ => none⟩ } (-(2:Int)^55)
    = .fix (-(2:Int)^55) := by decide
/-- +inf is an overflow, a NaN undefined, MAX passes. -/
example : classify ⟨0x7ff0000000000000⟩ = .error .floatOverflow := by decide
example : classify ⟨0xfff8000000000000⟩ = .error .undefined := by decide
example : classify ⟨0x7fefffffffffffff⟩ = .ok ⟨0x7fefffffffffffff⟩ := by decide
/-- hypotheses of the table theorems are satisfiable: −0.0 is zero and not negative, −1.0 is negative. -/
example : (Number.flt ⟨0x8000000000000000⟩).isZero = true ∧
    (Number.flt ⟨0x8000000000000000⟩).isNegative = false ∧
    (Number.flt ⟨0xbff0000000000000⟩).isNegative = true := by decide

end Scryer.ArithMixed
