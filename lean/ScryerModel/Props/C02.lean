import ScryerModel.Model.ArithMixed
/-!
# C02 — Float and mixed-type evaluation follows IEEE-754 with ISO checks
(work in progress: see notes/design/C02.md)
-/
namespace Scryer.ArithMixed
open Scryer.ArithFloat

/-- `classify_float` lets exactly the finite doubles through. -/
theorem C02_classify_ok_iff (f r : F64) : classify f = .ok r ↔ (r = f ∧ f.isFinite = true) := by
  unfold classify F64.isNaN F64.isInf F64.isFinite
  by_cases h1 : INF_MAG < f.mag
  · simp [h1]; omega
  · by_cases h2 : f.mag = INF_MAG
    · simp [h2]
    · simp [h1, h2]
      constructor
      · intro h; exact ⟨h.symm, by omega⟩
      · intro h; exact h.1.symm

end Scryer.ArithMixed
