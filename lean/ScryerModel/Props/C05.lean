import ScryerModel.Proofs.IntRepr
/-!
# C05 — Equal integers behave identically regardless of how they were produced

`Num.fix v` and `Num.big v` are the two representations an integer value can have at run
time (the second also for small values, e.g. the result of `2^60 - 2^60 + 2`). The theorems say
that every modelled consumer depends on the VALUE only. The models mirror unify.rs, the
integer arm of the standard order, and first-argument indexing as repaired by the `fix:`
commit (arena integers take the variable chain).
-/
namespace Scryer.IntRepr
open Scryer.Arith

/-- unification of two integers succeeds exactly when their values are equal, for all four
    pairings of representations. -/
theorem C05_unify_by_value (a b : Num) : unifyInt a b = true ↔ a.val = b.val :=
  unifyInt_iff a b

/-- standard-order comparison (hence `==`, `compare/3`, `sort/2`, `keysort/2` keys) of integers
    is comparison of values. -/
theorem C05_compare_by_value (a b : Num) : compareInt a b = compare a.val b.val :=
  compareInt_eq a b

theorem C05_identical_by_value (a b : Num) : identical a b = true ↔ a.val = b.val := by
  unfold identical; rw [compareInt_eq]
  simp only [beq_iff_eq]
  exact Std.LawfulEqOrd.compare_eq_iff_eq

/-- database lookup: first-argument indexing followed by head unification selects exactly the
    clauses whose integer equals the call argument's value, in textual order. -/
theorem C05_lookup_exact (heads : List Num) (a : Num)
    (hh : ∀ h ∈ heads, h.wf) (ha : a.wf) :
    matchesFrom 0 heads a = specFrom 0 heads a.val :=
  matchesFrom_eq_spec heads a 0 hh ha

/-- headline: two integers of equal value (any representations) retrieve the same clauses. -/
theorem C05_lookup_repr_independent (heads : List Num) (r1 r2 : Num)
    (hh : ∀ h ∈ heads, h.wf) (h1 : r1.wf) (h2 : r2.wf) (e : r1.val = r2.val) :
    matchesFrom 0 heads r1 = matchesFrom 0 heads r2 := by
  rw [C05_lookup_exact heads r1 hh h1, C05_lookup_exact heads r2 hh h2, e]

/-- sensitivity witness: with the routing the code had before the repair (arena integers
    looked up by address) the statement is false — `p(2)` is not found by a computed `2`. -/
theorem C05_old_routing_counterexample :
    matchesFromOld 0 [Num.fix 2] (Num.big 2) ≠ matchesFromOld 0 [Num.fix 2] (Num.fix 2) := by
  decide

-- non-vacuity: a computed small value in a bignum, a literal bignum head, a fixnum head
example : matchesFrom 0 [.fix 2, .big (10^20), .big 2, .fix 3] (.big 2) = [0, 2] := by decide
example : matchesFrom 0 [.fix 2, .big (10^20), .big 2, .fix 3] (.fix 2) = [0, 2] := by decide
example : matchesFrom 0 [.fix 2, .big (10^20)] (.big (10^20)) = [1] := by decide

end Scryer.IntRepr
