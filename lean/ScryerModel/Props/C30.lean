import ScryerModel.Proofs.Fault
import ScryerModel.Proofs.Heap
/-!
# C30 — Memory exhaustion at any allocation raises a catchable error  (PARTIAL)

What is proved (for every program, goal, state, fuel, oracle / fault schedule):

* on the reference interpreter (`Scryer.Fault.solveInj` = `Scryer.Solve.step` + injection): an
  allocation fault at a step *is* the goal `throw(error(resource_error(memory), []))` at that step;
  it is caught by the innermost `catch/3` whose catcher unifies, the recovery starts from the
  substitution of the catch entry plus the catcher bindings, a non-matching catcher lets it pass,
  and what runs afterwards is a function of the recovered state only;
* on the protocol machine (`Scryer.Fault.exec`, quantified over fault schedules): a denied growth
  is the explicit throw, the heap top is restored to the mark of the catching frame, the frame stack
  to what it was at the catch entry, the abandoned rest of the goal does not run, and without faults
  nothing changes;
* bridge to the byte-level heap model of C33: an operation that returns `AllocError` leaves
  `byte_len` and the contents unchanged.

What is NOT proved (see `notes/design/C30.md`): that each `AllocError` propagation site of the
implementation really takes this path — that is the fault enumeration of `vlib/props/C30.py`.
-/
namespace Scryer.Fault
open Scryer Scryer.Solve

/-! ## the reference interpreter -/

/-- **A fault is a throw.**  If the oracle strikes when goal `g` is about to be reduced in state
    `s`, the faulted run of `g` is the unfaulted run of the goal
    `throw(error(resource_error(memory), []))` in the same state: no answers, the pre-stored ball. -/
theorem C30_fault_is_throw (φ : Oracle) (n : Nat) (prog : Prog) (g : Term) (s : St)
    (h : φ g s = true) :
    solveInj resBall φ (n + 9) prog g s = solve (n + 9) prog (throwGoal resBall) s
    ∧ (solveInj resBall φ (n + 9) prog g s).sols = []
    ∧ (solveInj resBall φ (n + 9) prog g s).exc = some (resBall, s.ctr + 1)
    ∧ (solveInj resBall φ (n + 9) prog g s).oof = false := by
  have e1 : solveInj resBall φ (n + 9) prog g s = inject resBall s := by
    simp [solveInj, h]
  have e2 : solve (n + 9) prog (throwGoal resBall) s = inject resBall s := by
    simp only [solve, step, classify_throwGoal]
    exact throwRes_closed (n + 8) s resBall (closed_resBall n)
  refine ⟨by rw [e1, e2], ?_, ?_, ?_⟩ <;> simp [e1, inject, Res.throw]

/-- **Without faults nothing changes**: with an oracle that never strikes the faulted interpreter
    is the reference interpreter (all of C07/C12 carries over). -/
theorem C30_no_fault_is_reference (φ : Oracle) (hφ : ∀ g s, φ g s = false) (n : Nat) (prog : Prog)
    (g : Term) (s : St) : solveInj resBall φ n prog g s = solve n prog g s := by
  rw [solveInj_noFault resBall φ hφ prog n]

/-- a faulted run below a goal is the same interpreter one level down: every control construct
    treats a fault in a sub-goal as it treats any ball of that sub-goal. -/
theorem C30_faulted_run_uses_reference_step (φ : Oracle) (n : Nat) (prog : Prog) (g : Term) (s : St)
    (h : φ g s = false) :
    solveInj resBall φ (n + 1) prog g s = step prog (solveInj resBall φ n prog) n g s := by
  simp [solveInj, h]

/-- the catcher `error(E, V)` (two distinct variables, unbound at the catch entry) unifies with the
    resource error and binds exactly `E = resource_error(memory)`, `V = []` in front of the entry
    substitution. -/
theorem unify_errCatcher_resBall (n : Nat) (σ : Subst) (e v : String) (he : lookup σ e = none)
    (hv : lookup σ v = none) (hne : (e == v) = false) :
    unify (n + 6) σ (errCatcher e v) resBall
      = some (some ((v, .atom "[]") :: (e, resFormal) :: σ)) := by
  simp [errCatcher, resBall, resFormal, unify, unifyList, walk, lookup, he, hv, hne, bindVar, occurs,
    occursList]

/-- **Caught by a matching catch/3, recovery from the entry state.**  Whatever the goal did before
    the fault (`rec` is the faulted interpreter one level down — any function), if its run ends with
    the resource error then `catch(G, error(E,V), R)` delivers the answers `G` had produced before,
    then runs `R` as `call(R)` from the substitution of the catch ENTRY extended by
    `E = resource_error(memory), V = []`: every binding `G` made is gone, nothing else is added. -/
theorem C30_caught_and_state_restored (rec : Term → St → Res) (n : Nat) (s : St) (g r : Term)
    (e v : String) (c' : Nat)
    (he : lookup s.σ e = none) (hv : lookup s.σ v = none) (hne : (e == v) = false)
    (ho : (callGoal rec (n + 6) s g []).oof = false)
    (hx : (callGoal rec (n + 6) s g []).exc = some (resBall, c')) :
    catchRes rec (n + 6) s g (errCatcher e v) r =
      (let rR := callGoal rec (n + 6) ⟨(v, .atom "[]") :: (e, resFormal) :: s.σ, c'⟩ r []
       if rR.oof then Res.oofR
       else ⟨(callGoal rec (n + 6) s g []).sols ++ rR.sols, false, rR.exc, false⟩) := by
  simp [catchRes, ho, hx, unify_errCatcher_resBall n s.σ e v he hv hne]

/-- with the recovery goal `true` the catch/3 has exactly one more answer — the recovered state —
    and no ball is left: the error is handled. -/
theorem C30_recovery_true_succeeds_once (φ : Oracle) (n : Nat) (prog : Prog) (s : St) (g : Term)
    (e v : String) (c' : Nat)
    (he : lookup s.σ e = none) (hv : lookup s.σ v = none) (hne : (e == v) = false)
    (ho : (callGoal (solveInj resBall φ (n + 6) prog) (n + 6) s g []).oof = false)
    (hx : (callGoal (solveInj resBall φ (n + 6) prog) (n + 6) s g []).exc = some (resBall, c'))
    (hs : (callGoal (solveInj resBall φ (n + 6) prog) (n + 6) s g []).sols = [])
    (hφ : φ (.atom "true") ⟨(v, .atom "[]") :: (e, resFormal) :: s.σ, c'⟩ = false) :
    catchRes (solveInj resBall φ (n + 6) prog) (n + 6) s g (errCatcher e v) (.atom "true")
      = Res.one ⟨(v, .atom "[]") :: (e, resFormal) :: s.σ, c'⟩ := by
  rw [C30_caught_and_state_restored _ n s g (.atom "true") e v c' he hv hne ho hx]
  have ht : solveInj resBall φ (n + 6) prog (.atom "true") ⟨(v, .atom "[]") :: (e, resFormal) :: s.σ, c'⟩
      = Res.one ⟨(v, .atom "[]") :: (e, resFormal) :: s.σ, c'⟩ := by
    rw [C30_faulted_run_uses_reference_step φ (n + 5) prog _ _ hφ]
    simp [step, classify]
  have hR : callGoal (solveInj resBall φ (n + 6) prog) (n + 6)
      ⟨(v, .atom "[]") :: (e, resFormal) :: s.σ, c'⟩ (.atom "true") []
      = Res.one ⟨(v, .atom "[]") :: (e, resFormal) :: s.σ, c'⟩ := by
    simp [callGoal, resolve, callResolved, callBody, addArgs, bodyOk, ht, Res.one]
  simp only [hR]
  simp [Res.one, hs]

/-- **Fault transparency after recovery.**  `(catch(G, error(E,V), true), K)`: once the fault is
    handled, the continuation `K` runs in the recovered state exactly as the (faulted) interpreter
    runs `K` from that state — the result does not depend on `G`, on where in `G` the fault struck,
    or on what `G` had bound. -/
theorem C30_continuation_runs_from_recovered_state (φ : Oracle) (n : Nat) (prog : Prog) (s : St)
    (g k : Term) (e v : String) (c' : Nat)
    (he : lookup s.σ e = none) (hv : lookup s.σ v = none) (hne : (e == v) = false)
    (ho : (callGoal (solveInj resBall φ (n + 6) prog) (n + 6) s g []).oof = false)
    (hx : (callGoal (solveInj resBall φ (n + 6) prog) (n + 6) s g []).exc = some (resBall, c'))
    (hs : (callGoal (solveInj resBall φ (n + 6) prog) (n + 6) s g []).sols = [])
    (hφ : φ (.atom "true") ⟨(v, .atom "[]") :: (e, resFormal) :: s.σ, c'⟩ = false)
    (hφc : φ (.str "catch" [g, errCatcher e v, .atom "true"]) s = false)
    (hφk : φ (.str "," [.str "catch" [g, errCatcher e v, .atom "true"], k]) s = false) :
    let s' : St := ⟨(v, .atom "[]") :: (e, resFormal) :: s.σ, c'⟩
    let rK := solveInj resBall φ (n + 7) prog k s'
    solveInj resBall φ (n + 8) prog (.str "," [.str "catch" [g, errCatcher e v, .atom "true"], k]) s
      = if rK.oof then Res.oofR
        else if rK.exc.isSome || rK.cut then ⟨rK.sols, rK.exc.isNone, rK.exc, false⟩
        else ⟨rK.sols, false, none, false⟩ := by
  intro s' rK
  have hc : solveInj resBall φ (n + 7) prog (.str "catch" [g, errCatcher e v, .atom "true"]) s
      = Res.one s' := by
    rw [C30_faulted_run_uses_reference_step φ (n + 6) prog _ s hφc]
    simp only [step, classify]
    exact C30_recovery_true_succeeds_once φ n prog s g e v c' he hv hne ho hx hs hφ
  rw [C30_faulted_run_uses_reference_step φ (n + 7) prog _ s hφk]
  simp only [step, classify, hc, conjRes, Res.one, seqLoop]
  show _ = if rK.oof then Res.oofR
        else if rK.exc.isSome || rK.cut then ⟨rK.sols, rK.exc.isNone, rK.exc, false⟩
        else ⟨rK.sols, false, none, false⟩
  have hrk : solveInj resBall φ (n + 7) prog k s' = rK := rfl
  rw [hrk]
  rcases rK with ⟨sols, cut, exc, oof⟩
  cases oof <;> cases cut <;> cases exc <;> simp [Res.oofR, Res.none]

/-- **A catcher that does not unify lets the fault pass**: same ball, same copy, no recovery goal. -/
theorem C30_nonmatching_catch_propagates (rec : Term → St → Res) (n : Nat) (s : St) (g c r : Term)
    (c' : Nat) (ho : (callGoal rec n s g []).oof = false)
    (hx : (callGoal rec n s g []).exc = some (resBall, c'))
    (hu : unify n s.σ c resBall = some none) :
    catchRes rec n s g c r = callGoal rec n s g [] := by
  simp [catchRes, ho, hx, hu]

/-! ## the protocol machine (every fault schedule) -/

/-- **A denied growth is an explicit throw**: an operation one of whose growth attempts is denied
    behaves as `throw(error(resource_error(memory), []))` at that point (only the attempt counter
    records that attempts were made); nothing of the operation is kept. -/
theorem C30_denied_alloc_is_throw (deny : Nat → Bool) (n g j : Nat) (rest : List MOp) (s : MSt)
    (h : firstDenied deny s.att g = some j) :
    exec deny (.alloc n g :: rest) none s
      = exec deny (.throwRes :: rest) none { s with att := s.att + j + 1 } := by
  simp only [exec, h]

/-- **Fault at any growth inside catch/3: caught, heap top and frames restored, rest abandoned.**
    `catch(G, <matching>, true), Post` where `G` = allocations `pre` whose growth attempts are all
    granted, then an operation with a denied attempt (the `j`-th of its own), then ANY balanced
    rest: `Post` starts with the heap top and the frame stack of the catch entry, one more caught
    error, and nothing of `rest` has run. -/
theorem C30_fault_in_catch_restores (deny : Nat → Bool) (pre : List (Nat × Nat)) (n g j : Nat)
    (rest post : List MOp) (s : MSt)
    (hpre : ∀ i, i < attempts pre → deny (s.att + i) = false)
    (hden : firstDenied deny (s.att + attempts pre) g = some j)
    (hbal : balanced 0 rest = true) :
    exec deny (.enter true :: (allocs pre ++ .alloc n g :: (rest ++ .leave :: post))) none s
      = exec deny post none
          { s with att := s.att + attempts pre + j + 1, caught := s.caught + 1 } := by
  simp only [exec]
  rw [exec_allocs deny _ pre _ (by simpa using hpre)]
  simp only [exec, hden, unwind, if_true]
  rw [exec_skip deny post rest 0 _ hbal]

/-- **Without a denied attempt the catch/3 is transparent**: all of `pre` is allocated, the frame is
    popped, the frame stack is what it was. -/
theorem C30_no_fault_runs_through (deny : Nat → Bool) (pre : List (Nat × Nat)) (m : Bool)
    (post : List MOp) (s : MSt) (hpre : ∀ i, i < attempts pre → deny (s.att + i) = false) :
    exec deny (.enter m :: (allocs pre ++ .leave :: post)) none s
      = exec deny post none { s with len := s.len + cellsOf pre, att := s.att + attempts pre } := by
  simp only [exec]
  rw [exec_allocs deny _ pre _ (by simpa using hpre)]
  simp [exec]

/-- **An inner catch/3 whose catcher does not match is passed**: the fault is caught by the outer
    matching frame; the heap top goes back to the OUTER mark and both frames are gone. -/
theorem C30_inner_nonmatching_frame_is_passed (deny : Nat → Bool) (n0 n g j : Nat)
    (rest post : List MOp) (s : MSt)
    (hden : firstDenied deny s.att g = some j) (hbal : balanced 0 rest = true) :
    exec deny (.enter true :: .alloc n0 0 :: .enter false :: .alloc n g ::
        (rest ++ .leave :: .leave :: post)) none s
      = exec deny post none { s with att := s.att + j + 1, caught := s.caught + 1 } := by
  simp only [exec, firstDenied, Nat.add_zero, hden, unwind, if_true, Bool.false_eq_true, if_false]
  rw [exec_skip_block deny (.leave :: .leave :: post) rest 0 1 _ hbal]
  simp [exec]

/-- **Uncaught without a matching frame**: the run ends `uncaught` at the faulting operation. -/
theorem C30_uncaught_without_matching_frame (deny : Nat → Bool) (n g j : Nat) (rest : List MOp)
    (s : MSt) (hden : firstDenied deny s.att g = some j) (hf : unwind s.frames = none) :
    exec deny (.alloc n g :: rest) none s = ({ s with att := s.att + j + 1 }, .uncaught) := by
  simp [exec, hden, hf]

/-- the hook's plan `set_grow_fault(k, persistent)`: attempts before the `k`-th are granted, the
    `k`-th is denied; in persistent mode so is every later one, in one-shot mode none. -/
theorem C30_schedule (k : Nat) (hk : 1 ≤ k) (p : Bool) :
    (∀ i, i + 1 < k → schedule k p i = false) ∧ schedule k p (k - 1) = true
    ∧ (∀ i, k < i + 1 → schedule k p i = p) := by
  refine ⟨?_, ?_, ?_⟩
  · intro i hi
    have h1 : ¬ (i + 1 = k) := by omega
    have h2 : ¬ (k < i + 1) := by omega
    simp [schedule, h1, h2]
  · have : k - 1 + 1 = k := by omega
    have hk0 : k ≠ 0 := by omega
    simp [schedule, this, hk0]
  · intro i hi
    have h3 : (k != 0) = true := by simp; omega
    have h4 : (i + 1 == k) = false := by simp; omega
    have h5 : decide (i + 1 > k) = true := by simp; omega
    simp [schedule, h3, h4, h5]

/-! ## bridge to the byte-level heap model (C33) -/

/-- an operation of the mirrored heap (`push_cell`, reservations, string allocation, copying,
    appending, list and functor writers) that returns `AllocError` — in whatever pattern its
    growths were granted or denied before — leaves `byte_len`, the contents and the write log as
    they were, and the heap consistent: there is no partially built term below the heap top. -/
theorem C30_failed_heap_operation_keeps_heap (h h' : Heap.Heap) (op : Heap.Op) (i : Heap.Inv h)
    (e : Heap.step h op = .allocErr h') :
    h'.len = h.len ∧ h'.mem = h.mem ∧ h'.log = h.log ∧ Heap.Inv h' := by
  have p := Heap.step_post h op i
  rw [e] at p
  exact ⟨p.len_eq, p.mem_eq, p.log_eq, p.inv i⟩

/-! ## non-vacuity -/

/-- a concrete faulted run on the reference interpreter: `catch((X = 1, '$alloc'), error(E,V), true)`
    with a fault at `'$alloc'` succeeds with `E`/`V` bound and `X` unbound again. -/
example :
    (solveInj resBall (fun g _ => match g with | .atom "$alloc" => true | _ => false) 12 []
        (Term.str "catch" [.str "," [.str "=" [.var "X", .int 1], .atom "$alloc"],
                errCatcher "E" "V", .atom "true"]) ⟨[], 0⟩).sols.map
      (fun st => (match lookup st.σ "E" with | some (.str "resource_error" [.atom "memory"]) => true | _ => false)
                  && (lookup st.σ "X").isNone)
      = [true] := by decide

/-- k-th growth denied inside a matching catch/3, persistent plan: caught, heap top restored. -/
example : exec (schedule 2 true) [.enter true, .alloc 10 1, .alloc 20 1, .alloc 5 1, .leave, .alloc 1 0]
    none {} = ({ len := 1, att := 2, frames := [], caught := 1 }, .done) := by decide

/-- the same without a frame: uncaught. -/
example : (exec (schedule 2 false) [.alloc 10 1, .alloc 20 1, .alloc 5 1] none {}).2 = .uncaught := by
  decide

end Scryer.Fault
