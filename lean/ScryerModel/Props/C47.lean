import ScryerModel.Proofs.Pio
/-!
# C47 — Parsing a file lazily equals parsing its contents

`Model/Pio.lean` mirrors `stream_to_lazy_list/3` + `render_step/4` of `src/lib/pio.pl`: the lazy
list handed to the grammar by `phrase_from_file/2,3` is a frozen variable that, when a grammar
unifies it, repositions the stream to the recorded byte position, reads one block of
`chars_to_read(4096)` CHARACTERS with `get_n_chars/3` (C19's `takeChars`), binds the block and
freezes the new tail. The file is `encodeAll cps` (the UTF-8 encoding of the character list that
`phrase/2,3` would get). All theorems are for every character list, every block size `k ≥ 1`;
lemmas are in `Proofs/Pio`.
-/
namespace Scryer.Pio
open Scryer.Utf8 Scryer.Stream

/-- One block: `get_n_chars(S, k, Cs)` at the byte position that follows the first `m` characters
    delivers the next `k` characters (fewer at the end) and leaves the stream at the byte position
    that follows `m + k` characters: blocks are counted in characters, positions in bytes, and a
    multi-byte character is never split across two blocks. At the end of the file the tail is `[]`. -/
theorem C47_block_at (k : Nat) (cps : List Nat) (hs : ∀ c ∈ cps, isScalar c = true) (m : Nat) :
    readBlock k (encodeAll cps) (encodeAll (cps.take m)).length =
      if cps.drop m = [] then none
      else some ((cps.drop m).take k, (encodeAll (cps.take (m + k))).length) :=
  readBlock_at k cps hs m

/-- The blocks that the wake-up goals read, in order, are exactly the chunking of the character
    list into pieces of `k` characters. -/
theorem C47_blocks_are_chunks (k : Nat) (cps : List Nat) (hs : ∀ c ∈ cps, isScalar c = true)
    (hk : 1 ≤ k) :
    renderAll ((encodeAll cps).length + 1) k (encodeAll cps) 0 = chunks k cps := by
  have hlen : cps.length ≤ (encodeAll cps).length := by
    clear hs
    induction cps with
    | nil => simp
    | cons c r ih =>
      simp only [encodeAll, List.length_append, List.length_cons, encode_length]
      have := (lenUtf8_le c).1
      omega
  have h := renderAll_eq_chunksF k cps hs hk ((encodeAll cps).length + 1) cps.length 0
    (by simp; omega) (by simp)
  simpa [chunks, encodeAll] using h

/-- Chunking loses nothing: the concatenation of the blocks is the list; every block is non-empty
    and has at most `k` characters. -/
theorem C47_flatten_chunks (k : Nat) (s : List Nat) (hk : 1 ≤ k) :
    (chunks k s).flatten = s ∧ ∀ c ∈ chunks k s, c ≠ [] ∧ c.length ≤ k :=
  ⟨flatten_chunksF s.length k s hk (Nat.le_refl _), chunksF_bounds s.length k s hk⟩

/-- HEADLINE: the fully forced lazy list is the character list of the file, for every block size:
    so every grammar — a function of the list it is given: deterministic or backtracking across
    block boundaries, failing, with pushback or `call//N` — has the same solutions with
    `phrase_from_file` as with `phrase` on the full character list. -/
theorem C47_lazy_list_is_content (k : Nat) (cps : List Nat) (hs : ∀ c ∈ cps, isScalar c = true)
    (hk : 1 ≤ k) {β : Type} (grammar : List Nat → List β) :
    lazyChars k (encodeAll cps) = cps ∧ grammar (lazyChars k (encodeAll cps)) = grammar cps := by
  have h : lazyChars k (encodeAll cps) = cps := by
    unfold lazyChars
    rw [C47_blocks_are_chunks k cps hs hk]
    exact (C47_flatten_chunks k cps hk).1
  exact ⟨h, by rw [h]⟩

/-- The result does not depend on the block size. -/
theorem C47_block_size_irrelevant (k1 k2 : Nat) (cps : List Nat) (hs : ∀ c ∈ cps, isScalar c = true)
    (h1 : 1 ≤ k1) (h2 : 1 ≤ k2) : lazyChars k1 (encodeAll cps) = lazyChars k2 (encodeAll cps) := by
  rw [(C47_lazy_list_is_content k1 cps hs h1 (fun l => l)).1,
      (C47_lazy_list_is_content k2 cps hs h2 (fun l => l)).1]

/-- Waking the frozen tail keeps the invariant "the materialised cells are the first
    `k · reads` characters, the recorded position is the byte offset after them, and the tail is
    `[]` only when everything has been read"; it reads at most one block. Since the wake-up goal is
    a function of the recorded position only, re-forcing after backtracking reads the same block. -/
theorem C47_force_step (k : Nat) (cps : List Nat) (hs : ∀ c ∈ cps, isScalar c = true) (l : LL)
    (h : LLInv k cps l) :
    LLInv k cps (forceStep k (encodeAll cps) l) ∧
      (forceStep k (encodeAll cps) l).reads ≤ l.reads + 1 :=
  ⟨(forceStep_inv k cps hs h).1, (forceStep_inv k cps hs h).2.2.1⟩

/-- Refinement for the demand-driven reader: when a grammar unifies cell `n` of the fresh lazy
    list, the cell it sees is `cps[n]` (or the end of the list iff `n ≥ length`), the materialised
    prefix is a prefix of the content, and at most `n / k + 1 = ⌈(n+1)/k⌉` blocks have been read:
    a grammar that stops early does not read the rest of the file. -/
theorem C47_cell_at (k : Nat) (cps : List Nat) (hs : ∀ c ∈ cps, isScalar c = true) (hk : 1 ≤ k)
    (n : Nat) :
    (cellAt k (encodeAll cps) n LL.init).1 = cps[n]? ∧
      (cellAt k (encodeAll cps) n LL.init).2.reads ≤ n / k + 1 ∧
      (cellAt k (encodeAll cps) n LL.init).2.have_ =
        cps.take (k * (cellAt k (encodeAll cps) n LL.init).2.reads) := by
  have sp := demand_spec k cps hs hk n (n + 2) LL.init (LLInv_init k cps hk)
  obtain ⟨inv, _, hb, hdone⟩ := sp
  have hd := hdone (by simp [LL.init])
  have hb' : (demand (n + 2) k (encodeAll cps) n LL.init).reads ≤ n / k + 1 := by
    simpa [LL.init] using hb
  refine ⟨?_, hb', inv.1⟩
  show (demand (n + 2) k (encodeAll cps) n LL.init).have_[n]? = cps[n]?
  rw [inv.1]
  rcases hd with hf | hl
  · have := inv.2.2.1 hf
    rw [List.take_of_length_le this]
  · rw [inv.1, List.length_take] at hl
    rw [List.getElem?_take]
    simp only [ite_eq_left_iff]
    intro hc; omega

/-! ## non-vacuity -/

-- block size 2, "a€b" (the euro sign has three bytes): blocks [a,€] and [b]; byte positions 0, 4, 5
example : renderAll 6 2 (encodeAll [0x61, 0x20AC, 0x62]) 0 = [[0x61, 0x20AC], [0x62]] := by decide
example : readBlock 2 (encodeAll [0x61, 0x20AC, 0x62]) 0 = some ([0x61, 0x20AC], 4) := by decide
example : readBlock 2 (encodeAll [0x61, 0x20AC, 0x62]) 5 = none := by decide
example : chunks 2 [1, 2, 3, 4, 5] = [[1, 2], [3, 4], [5]] := by decide
-- an early-stopping grammar that looks at cell 1 only reads the first block
example : (cellAt 2 (encodeAll [0x61, 0x20AC, 0x62, 0x63, 0x64]) 1 LL.init)
    = (some 0x20AC, { have_ := [0x61, 0x20AC], off := 4, fin := false, reads := 1 }) := by decide
-- looking past the end ends the list
example : (cellAt 2 (encodeAll [0x61]) 1 LL.init).1 = none := by decide
example : (cellAt 2 (encodeAll []) 0 LL.init) = (none, { have_ := [], off := 0, fin := true, reads := 0 }) := by decide

end Scryer.Pio
