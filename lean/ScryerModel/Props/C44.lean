import ScryerModel.Proofs.Flags
/-!
# C44 — Prolog flags read back what was set

Statements over the clause-level model `Model/Flags.lean`: `get f v st` / `set f v st` are
clause resolution (`solve`) over the flag clauses of `builtins.pl` *with the corrections of
findings C44-1…C44-5* (`cpfFixed`, `spfFixed`); `st` is the machine state that stores flag
values; `run ops st` is the state after an arbitrary history `ops` of reads and writes.
Every theorem is for all flag terms, value terms (valid or not, bound or unbound) and all
histories. The `example`s at the end show that the theorems are *false* for the clauses as
they are in the pinned commit (`cpfPinned`, `spfPinned`) — the model is sensitive to a
one-token deviation in a clause — and that hypotheses are satisfiable.
The table of errors is ISO/IEC 13211-1 8.17.1.3 a–e and 8.17.2.3 a–b; for a read-only flag an
appropriate value other than the current one is refused silently, as builtins.pl documents
("The flags that are read only will fail if you try to change their values").
-/
namespace Scryer.Flags

/-- all pairs reported by `current_prolog_flag(F, V)` with both arguments unbound. -/
def enumerate (st : St) : List (Term × Term) :=
  (get (.var 0) (.var 1) st).answers.map fun a => (a.f, a.v)

/-- the value reported by `current_prolog_flag(f, V)` with `f` given and `V` unbound. -/
def getValue (f : Term) (st : St) : Option Term :=
  (get f (.var 1) st).answers.head?.map fun a => a.v

/-- **Given = enumerated.** For a given (nonvar) flag term `f` and any value pattern `v`,
    `current_prolog_flag(f, v)` has exactly the solutions that the enumeration
    `current_prolog_flag(F, v)` reports for `F = f`, in every state; and the enumeration itself
    raises no error. -/
theorem C44_given_eq_enumerated (st : St) (f v : Term) (n : Nat) (hf : f.isVar = false) :
    (get f v st).answers = ((get (.var n) v st).answers.filter fun a => decide (a.f = f)) ∧
    (get (.var n) v st).err = none := by
  rw [get_eq_spec, get_eq_spec]
  exact ⟨given_eq_enumerated_spec f v n st hf, rfl⟩

/-- the same in lookup form: the value read for a given flag is the one the enumeration lists
    for it (and a flag is listed at most with that value). -/
theorem C44_get_eq_enumerate_lookup (st : St) (f : Term) (hf : f.isVar = false) :
    getValue f st = (enumerate st).lookup f := by
  unfold getValue enumerate
  rw [(C44_given_eq_enumerated st f (.var 1) 0 hf).1, get_eq_spec, specGet_var_answers]
  cases f with
  | var m => simp at hf
  | atom s =>
    cases h : Flag.ofName? s with
    | none =>
      obtain ⟨h1, h2, h3, h4, h5, h6, h7, h8, h9⟩ := ofName_none h
      simp [List.lookup, A, beq_term, Ne.symm h1, Ne.symm h2, Ne.symm h3, Ne.symm h4, Ne.symm h5, Ne.symm h8,
        Ne.symm h9, h1, h2, h3, h4, h5, h8, h9]
    | some k => rw [ofName_some h]; cases k <;> simp [List.lookup, Flag.name, A, beq_term]
  | int i => simp [List.lookup, A, beq_term]
  | flt b => simp [List.lookup, A, beq_term]
  | c1 g a => simp [List.lookup, A, beq_term]
  | c2 g a b => simp [List.lookup, A, beq_term]

/-- **Reading never changes a flag.** -/
theorem C44_get_pure (st : St) (f v : Term) : (get f v st).st = st := get_st f v st

/-- **set succeeds exactly when the value then reads back**, after every history of reads and
    writes (flag and value bound; otherwise see `C44_set_error_table`). -/
theorem C44_set_succeeds_iff_reads_back (ops : List Op) (f v : Term)
    (hf : f.isVar = false) (hv : v.isVar = false) :
    let st := run ops St.init
    (set f v st).succeeded = (get f v (set f v st).st).succeeded := by
  intro st
  rw [get_eq_spec, set_eq_spec]
  exact set_iff_reads_back_spec f v st (wf_run ops _ wf_init) hf hv

/-- after a successful `set_prolog_flag(f, v)` reading `f` with an unbound value gives `v`. -/
theorem C44_set_then_get_value (ops : List Op) (f v : Term)
    (hf : f.isVar = false) (hv : v.isVar = false) :
    let st := run ops St.init
    (set f v st).succeeded = true → getValue f (set f v st).st = some v := by
  intro st hs
  have h := C44_set_succeeds_iff_reads_back ops f v hf hv
  simp only at h
  rw [hs] at h
  -- the read-back with `v` succeeds, so the flag's value is `v`
  unfold getValue
  rw [get_eq_spec] at h ⊢
  cases f with
  | var m => simp at hf
  | atom s =>
    cases hk : Flag.ofName? s with
    | none => simp [specGet, hk, Outcome.succeeded] at h
    | some k =>
      rw [ofName_some hk] at h ⊢
      rw [specGet_known_succeeded k v _ hv] at h
      have hval : k.value (set (A k.name) v st).st = some v := by simpa using h.symm
      simp [specGet, ofName_name, hval]
  | int i => simp [specGet, Outcome.succeeded] at h
  | flt b => simp [specGet, Outcome.succeeded] at h
  | c1 g a => simp [specGet, Outcome.succeeded] at h
  | c2 g a b => simp [specGet, Outcome.succeeded] at h

/-- **Read-only flags never change**: whatever the history (from any state), `max_arity`,
    `bounded`, `integer_rounding_function`, `max_integer`, `min_integer` answer a read exactly
    as they did at the start; a write to one of them leaves the whole state alone and can
    succeed only with the value the flag already has. -/
theorem C44_readonly_never_change (k : Flag) (hk : k.writable = false) (ops : List Op)
    (st : St) (v : Term) :
    (get (A k.name) v (run ops st)).answers = (get (A k.name) v st).answers ∧
    (get (A k.name) v (run ops st)).err = (get (A k.name) v st).err ∧
    (set (A k.name) v st).st = st ∧
    ((set (A k.name) v st).succeeded = true → k.value st = some v) := by
  refine ⟨?_, ?_, ?_, ?_⟩
  · simp only [get_eq_spec, specGet, ofName_name, value_readonly k hk (run ops st) st]
    cases k.value st <;> simp <;> split <;> rfl
  · simp only [get_eq_spec, specGet, ofName_name, value_readonly k hk (run ops st) st]
    cases k.value st <;> simp <;> split <;> rfl
  · rw [set_eq_spec]; exact specSet_readonly_st k hk v st
  · rw [set_eq_spec]
    cases hv : v.isVar with
    | true => simp [specSet_anyvar (A k.name) v st (by simp [hv]), Outcome.succeeded]
    | false =>
      rw [specSet_known k v st hv]
      cases k.vclass v <;> simp [Outcome.succeeded, hk]
      by_cases hval : k.value st = some v <;> simp [hval]

/-- **Last write wins**: after any history the value of a writable flag is the value of the
    last effective write to it in the history (a `set` with that flag name and an appropriate
    value), or its starting value if there is none. -/
theorem C44_value_after_history (k : Flag) (hk : k.writable = true) (ops : List Op) (st : St) :
    k.value (run ops st) = expectedValue k ops (k.value st) := value_run k hk ops st

/-- **Error table of `set_prolog_flag/2`** (ISO 8.17.1.3), every case, for every state:
    a/b unbound flag or value → instantiation_error; c flag not an atom → type_error(atom, F);
    d unknown atom → domain_error(prolog_flag, F); e inappropriate value →
    domain_error(flag_value, F+V) (insufficiently instantiated write options →
    instantiation_error); otherwise no error. An error never changes the state and gives no
    solution. -/
theorem C44_set_error_table (st : St) (f v : Term) :
    (set f v st).err =
      (if f.isVar || v.isVar then some (A "instantiation_error")
       else match f with
        | .atom s =>
          match Flag.ofName? s with
          | none => some (.c2 "domain_error" (A "prolog_flag") f)
          | some k =>
            match k.vclass v with
            | .ok => none
            | .inst => some (A "instantiation_error")
            | .bad => some (.c2 "domain_error" (A "flag_value") (.c2 "+" f v))
        | _ => some (.c2 "type_error" (A "atom") f)) ∧
    ((set f v st).err ≠ none → (set f v st).st = st ∧ (set f v st).answers = []) := by
  rw [set_eq_spec]
  cases hfv : (f.isVar || v.isVar) with
  | true => simp [specSet_anyvar f v st hfv]
  | false =>
    have hf : f.isVar = false := by cases h : f.isVar <;> simp [h] at hfv ⊢
    have hv : v.isVar = false := by cases h : v.isVar <;> simp [h] at hfv ⊢
    cases f with
    | var m => simp at hf
    | atom s =>
      cases h : Flag.ofName? s with
      | none => simp [specSet_unknown_atom s v st hv h, Err.term, h]
      | some k =>
        have hs := ofName_some h
        subst hs
        rw [specSet_known k v st hv]
        simp only [ofName_name]
        cases hc : k.vclass v <;> simp [Err.term]
        split
        · simp
        · split <;> simp
    | int i => simp [specSet_nonatom (.int i) v st rfl rfl hv, Err.term]
    | flt b => simp [specSet_nonatom (.flt b) v st rfl rfl hv, Err.term]
    | c1 g a => simp [specSet_nonatom (.c1 g a) v st rfl rfl hv, Err.term]
    | c2 g a b => simp [specSet_nonatom (.c2 g a b) v st rfl rfl hv, Err.term]

/-- **Error table of `current_prolog_flag/2`** (ISO 8.17.2.3): a flag that is neither a
    variable nor an atom → type_error(atom, F); an atom that is not a flag →
    domain_error(prolog_flag, F); otherwise no error. -/
theorem C44_get_error_table (st : St) (f v : Term) :
    (get f v st).err =
      match f with
      | .var _ => none
      | .atom s =>
        match Flag.ofName? s with
        | none => some (.c2 "domain_error" (A "prolog_flag") f)
        | some _ => none
      | _ => some (.c2 "type_error" (A "atom") f) := by
  rw [get_eq_spec]
  cases f <;> simp [specGet, Err.term]
  repeat' split
  all_goals simp_all

/-- **double_quotes takes effect on subsequent reads**: after a successful write the reader
    produces chars / codes / an atom accordingly; the other two behaviours are untouched. -/
theorem C44_double_quotes_takes_effect (st : St) (cs : List Char) :
    readDoubleQuoted (set (A "double_quotes") (A "chars") st).st cs
        = mkList (cs.map fun c => A (String.singleton c)) ∧
    readDoubleQuoted (set (A "double_quotes") (A "codes") st).st cs
        = mkList (cs.map fun c => .int c.toNat) ∧
    readDoubleQuoted (set (A "double_quotes") (A "atom") st).st cs = A (String.ofList cs) ∧
    (∀ v, unifyCyclic (set (A "double_quotes") v st).st = unifyCyclic st ∧
          callUndefined (set (A "double_quotes") v st).st = callUndefined st) := by
  refine ⟨?_, ?_, ?_, ?_⟩
  · rw [set_eq_spec, show specSet (A "double_quotes") (A "chars") st = _ from
      specSet_known .doubleQuotes (A "chars") st rfl]
    simp [Flag.vclass, Flag.writable, Flag.store, readDoubleQuoted]
  · rw [set_eq_spec, show specSet (A "double_quotes") (A "codes") st = _ from
      specSet_known .doubleQuotes (A "codes") st rfl]
    simp [Flag.vclass, Flag.writable, Flag.store, readDoubleQuoted]
  · rw [set_eq_spec, show specSet (A "double_quotes") (A "atom") st = _ from
      specSet_known .doubleQuotes (A "atom") st rfl]
    simp [Flag.vclass, Flag.writable, Flag.store, readDoubleQuoted]
  · intro v
    rw [set_eq_spec]
    rcases specSet_st_cases (A "double_quotes") v st with e | ⟨k, hf, _, _, _, e, _, _⟩
    · rw [e]; exact ⟨rfl, rfl⟩
    · rw [e]
      injection hf with hf
      rw [← name_injective (k := .doubleQuotes) hf]
      exact ⟨rfl, rfl⟩

/-- **occurs_check takes effect on subsequent unifications**: `true` → `X = f(X)` fails,
    `false` → it succeeds, `error` → it raises; the other two behaviours are untouched. -/
theorem C44_occurs_check_takes_effect (st : St) :
    unifyCyclic (set (A "occurs_check") (A "true") st).st = .fails ∧
    unifyCyclic (set (A "occurs_check") (A "false") st).st = .succeeds ∧
    unifyCyclic (set (A "occurs_check") (A "error") st).st = .raises ∧
    (∀ v cs, readDoubleQuoted (set (A "occurs_check") v st).st cs = readDoubleQuoted st cs ∧
          callUndefined (set (A "occurs_check") v st).st = callUndefined st) := by
  refine ⟨?_, ?_, ?_, ?_⟩
  · rw [set_eq_spec, show specSet (A "occurs_check") (A "true") st = _ from
      specSet_known .occursCheck (A "true") st rfl]
    simp [Flag.vclass, Flag.writable, Flag.store, unifyCyclic]
  · rw [set_eq_spec, show specSet (A "occurs_check") (A "false") st = _ from
      specSet_known .occursCheck (A "false") st rfl]
    simp [Flag.vclass, Flag.writable, Flag.store, unifyCyclic]
  · rw [set_eq_spec, show specSet (A "occurs_check") (A "error") st = _ from
      specSet_known .occursCheck (A "error") st rfl]
    simp [Flag.vclass, Flag.writable, Flag.store, unifyCyclic]
  · intro v cs
    rw [set_eq_spec]
    rcases specSet_st_cases (A "occurs_check") v st with e | ⟨k, hf, _, _, _, e, _, _⟩
    · rw [e]; exact ⟨rfl, rfl⟩
    · rw [e]
      injection hf with hf
      rw [← name_injective (k := .occursCheck) hf]
      exact ⟨rfl, rfl⟩

/-- **unknown takes effect on subsequent calls** of undefined procedures: `error` →
    existence_error, `fail` → silent failure, `warning` → failure with a warning. -/
theorem C44_unknown_takes_effect (st : St) :
    callUndefined (set (A "unknown") (A "error") st).st = .existenceError ∧
    callUndefined (set (A "unknown") (A "fail") st).st = .failsSilently ∧
    callUndefined (set (A "unknown") (A "warning") st).st = .failsWithWarning ∧
    (∀ v cs, readDoubleQuoted (set (A "unknown") v st).st cs = readDoubleQuoted st cs ∧
          unifyCyclic (set (A "unknown") v st).st = unifyCyclic st) := by
  refine ⟨?_, ?_, ?_, ?_⟩
  · rw [set_eq_spec, show specSet (A "unknown") (A "error") st = _ from
      specSet_known .unknown (A "error") st rfl]
    simp [Flag.vclass, Flag.writable, Flag.store, callUndefined]
  · rw [set_eq_spec, show specSet (A "unknown") (A "fail") st = _ from
      specSet_known .unknown (A "fail") st rfl]
    simp [Flag.vclass, Flag.writable, Flag.store, callUndefined]
  · rw [set_eq_spec, show specSet (A "unknown") (A "warning") st = _ from
      specSet_known .unknown (A "warning") st rfl]
    simp [Flag.vclass, Flag.writable, Flag.store, callUndefined]
  · intro v cs
    rw [set_eq_spec]
    rcases specSet_st_cases (A "unknown") v st with e | ⟨k, hf, _, _, _, e, _, _⟩
    · rw [e]; exact ⟨rfl, rfl⟩
    · rw [e]
      injection hf with hf
      rw [← name_injective (k := .unknown) hf]
      exact ⟨rfl, rfl⟩

/-- the behaviours after any history are those of the last effective writes: e.g. the reader
    mode is determined by `expectedValue` of `double_quotes` over the history. -/
theorem C44_behaviour_after_history (ops : List Op) (st st' : St)
    (h : ∀ k : Flag, k.writable = true → expectedValue k ops (k.value st) = k.value st') :
    (run ops st).dq = st'.dq ∧ (run ops st).unk = st'.unk ∧ (run ops st).oc = st'.oc :=
  ⟨dq_of_value _ _ (by rw [value_run _ rfl, h _ rfl]),
   unk_of_value _ _ (by rw [value_run _ rfl, h _ rfl]),
   oc_of_value _ _ (by rw [value_run _ rfl, h _ rfl])⟩

/-! ## Non-vacuity, and sensitivity to the clause-level deviations of the pinned commit -/

-- the corrected clauses: given and enumerated agree on integer_rounding_function
example : (get (A "integer_rounding_function") (.var 1) St.init).answers
    = [⟨A "integer_rounding_function", A "toward_zero"⟩] := by decide
-- finding C44-1: with `Value == toward_zero` (pinned clause) the given-flag read FAILS although
-- the enumeration lists the flag, so `C44_given_eq_enumerated` is false for the pinned clauses
example : (solve cpfPinned ⟨A "integer_rounding_function", .var 1⟩ St.init).answers = [] ∧
    ((solve cpfPinned ⟨.var 0, .var 1⟩ St.init).answers.filter
      fun a => decide (a.f = A "integer_rounding_function"))
      = [⟨A "integer_rounding_function", A "toward_zero"⟩] := by decide
-- finding C44-2: the pinned clauses accept `down` (then it does not read back) and reject the
-- actual value `toward_zero`: `C44_set_succeeds_iff_reads_back` is false for them
example : (solve spfPinned ⟨A "integer_rounding_function", A "down"⟩ St.init).succeeded = true ∧
    (solve cpfPinned ⟨A "integer_rounding_function", A "down"⟩ St.init).succeeded = false ∧
    (solve spfPinned ⟨A "integer_rounding_function", A "toward_zero"⟩ St.init).succeeded = false ∧
    (solve cpfPinned ⟨A "integer_rounding_function", A "toward_zero"⟩ St.init).succeeded = true := by
  decide
-- finding C44-3: inappropriate value of `unknown` / `occurs_check`: the pinned clauses report the
-- FLAG as invalid; `C44_set_error_table` requires domain_error(flag_value, F+V)
example : (solve spfPinned ⟨A "unknown", A "foo"⟩ St.init).err
      = some (.c2 "domain_error" (A "prolog_flag") (A "unknown")) ∧
    (set (A "unknown") (A "foo") St.init).err
      = some (.c2 "domain_error" (A "flag_value") (.c2 "+" (A "unknown") (A "foo"))) := by decide
-- finding C44-4: `max_arity` reads as 255 but the pinned `set_prolog_flag/2` has no clause for it
example : (solve spfPinned ⟨A "max_arity", .int 255⟩ St.init).err
      = some (.c2 "domain_error" (A "prolog_flag") (A "max_arity")) ∧
    (solve cpfPinned ⟨A "max_arity", .int 255⟩ St.init).succeeded = true ∧
    (set (A "max_arity") (.int 255) St.init).succeeded = true := by decide
-- finding C44-5: the pinned `answer_write_options/1` lets `[]` through whatever is stored: the
-- flag then "has" two values at once and the enumeration by value reports it for `[]`
example :
    let st := (set (A "answer_write_options") (mkList [.c1 "quoted" (A "true")]) St.init).st
    (solve cpfPinned ⟨A "answer_write_options", nil⟩ st).succeeded = true ∧
    (solve cpfPinned ⟨A "answer_write_options", .var 1⟩ st).answers
      = [⟨A "answer_write_options", mkList [.c1 "quoted" (A "true")]⟩] ∧
    (get (A "answer_write_options") nil st).succeeded = false := by decide
-- apart from those places the pinned and the corrected clauses agree, e.g.:
example : solve spfPinned ⟨A "double_quotes", A "codes"⟩ St.init
    = set (A "double_quotes") (A "codes") St.init := by decide
-- histories really change the state, and the read-back hypotheses are satisfiable
example : (run [.set (A "double_quotes") (A "codes"), .get (.var 0) (.var 1),
                .set (A "occurs_check") (A "error"), .set (A "double_quotes") (A "foo")] St.init)
    = ⟨.codes, .error, .stoError, none⟩ := by decide
example : enumerate St.init = [(A "max_arity", .int 255), (A "bounded", A "false"),
    (A "integer_rounding_function", A "toward_zero"), (A "double_quotes", A "chars"),
    (A "unknown", A "error"), (A "occurs_check", A "false"), (A "answer_write_options", nil)] := by
  decide
-- write options: validation outcomes of all three kinds are reached
example : checkWriteOptions (mkList [.c1 "quoted" (A "true"), .c1 "max_depth" (.int 3)]) = .ok := by
  decide
example : checkWriteOptions (mkList [.c1 "quoted" (A "foo")]) = .bad := by decide
example : checkWriteOptions (cons (.c1 "quoted" (A "true")) (.var 0)) = .inst := by decide
example : (set (A "answer_write_options") (mkList [.c1 "max_depth" (.int (-1))]) St.init).err
    = some (.c2 "domain_error" (A "flag_value")
        (.c2 "+" (A "answer_write_options") (mkList [.c1 "max_depth" (.int (-1))]))) := by decide

end Scryer.Flags
