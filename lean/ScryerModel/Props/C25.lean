import ScryerModel.Model.AllSolRun
/-
C25 — All-solutions predicates collect exactly the solutions (theorems).
-/
namespace Scryer.AllSol
open Scryer

/-- findall/4: the result list is the copies followed by the given tail, and collecting in two
    steps is the same as collecting at once (`S0 = instances ++ S1`). -/
theorem C25_findall4_append (xs ys : List Term) (tl : Term) :
    Term.ofList (xs ++ ys) tl = Term.ofList xs (Term.ofList ys tl) := by
  simp [Term.ofList, List.foldr_append]

end Scryer.AllSol
