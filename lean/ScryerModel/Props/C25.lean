import ScryerModel.Proofs.AllSol
import ScryerModel.Proofs.AllSolRun
import ScryerModel.Proofs.Order
/-!
# C25 — All-solutions predicates collect exactly the solutions

`findall/3,4` deliver the copies of the template for all answers of the goal, in order
(`Scryer.AllSol.findallX`, by construction `S0 = copies ++ S1`). `bagof/3` and `setof/3` work on the
list `sols` of copies `Witness-Template` (after `unify_variant_variables/2` made the variables of
variant witnesses identical): `bagofGroups cmp sols` / `setofGroups cmp cmp sols` are the
alternatives they offer on backtracking, computed as builtins.pl computes them (`keysort/2` resp.
`sort/2`, then `split_by_variant/3,4`). The theorems below hold for EVERY solution list and every
total preorder `cmp` presented as a three-way comparison (`TotalCmp`); `C25_standard_order_total`
shows that the standard order of terms (C13) is one, so they apply to the lists the interpreter
`solveX` builds. The free-variable analysis (`^`) is characterised in the last section; the pinned
library code gets it wrong (finding C25-1) and `C25_pinned_*` are the witnesses.

The lifted heap, the term copier and Rust's `keysort`/`sort` are not modelled; the implementation is
tied to `solveX` by the differential run of vlib/props/C25.py.
-/
namespace Scryer.AllSol
open Scryer

/-! ## the oracle is well defined -/

/-- Fuel monotonicity of the reference interpreter with the all-solutions predicates: a run that
    is not out of fuel (and not outside the model) gives the same result with any larger fuel. -/
theorem C25_solveX_mono (cfg : Cfg) (prog : Solve.Prog) (n k : Nat) (g : Term) (s : Solve.St)
    (h : (solveX cfg n prog g s).oof = false) :
    solveX cfg (n + k) prog g s = solveX cfg n prog g s :=
  solveX_mono cfg prog k n g s h

/-- hence a goal has at most one result, whatever fuel was used to find it. -/
theorem C25_result_unique (cfg : Cfg) (prog : Solve.Prog) (g : Term) (s : Solve.St)
    (n1 n2 : Nat) (h1 : (solveX cfg n1 prog g s).oof = false)
    (h2 : (solveX cfg n2 prog g s).oof = false) :
    solveX cfg n1 prog g s = solveX cfg n2 prog g s := by
  have a := solveX_mono cfg prog n2 n1 g s h1
  have b := solveX_mono cfg prog n1 n2 g s h2
  rw [Nat.add_comm] at b
  rw [← a, ← b]

/-- `forall(C, A)` is run as `\+ (C, \+ A)` (src/lib/iso_ext.pl), by definition of `stepX`. -/
theorem C25_forall_def (cfg : Cfg) (prog : Solve.Prog) (rec : Term → Solve.St → Solve.Res) (n : Nat)
    (c a : Term) (s : Solve.St) :
    stepX cfg prog rec n (.str "forall" [c, a]) s =
      rec (.str "\\+" [.str "," [c, .str "\\+" [a]]]) s := rfl

/-! ## findall/4 -/

/-- findall/4: the result is the copies followed by the given tail; collecting `xs ++ ys` in
    front of `tl` is collecting `ys` in front of `tl` and then `xs` in front of that
    (`findall/3` is the case `tl = []`). -/
theorem C25_findall4_append (xs ys : List Term) (tl : Term) :
    Term.ofList (xs ++ ys) tl = Term.ofList xs (Term.ofList ys tl) := by
  simp [Term.ofList, List.foldr_append]

/-- no solutions: `findall/4` unifies the result with the tail itself. -/
theorem C25_findall4_empty (tl : Term) : Term.ofList [] tl = tl := rfl

section groups
variable {κ α : Type} {cmp : κ → κ → Ordering}

/-! ## bagof/3 -/

/-- bagof/3 fails (offers no alternative) iff the goal has no solution. -/
theorem C25_bagof_fails_iff_no_solution (sols : List (κ × α)) :
    bagofGroups cmp sols = [] ↔ sols = [] := by
  rw [bagofGroups, splitGroups_eq_nil_iff]
  constructor
  · intro h
    have := (keysort_perm (cmp := cmp) sols).length_eq
    rw [h] at this
    exact List.length_eq_zero_iff.mp this.symm
  · rintro rfl; simp [keysort]

/-- no group is empty. -/
theorem C25_bagof_groups_nonempty (sols : List (κ × α)) :
    ∀ g ∈ bagofGroups cmp sols, g.2 ≠ [] :=
  splitGroups_ne_nil _

/-- each group consists of exactly the solutions whose witness is `==` to the group's witness,
    in the order in which the goal produced them (`keysort/2` is stable). -/
theorem C25_bagof_group_content (h : TotalCmp cmp) (sols : List (κ × α)) :
    ∀ g ∈ bagofGroups cmp sols,
      g.2 = (sols.filter (fun p => cmp g.1 p.1 == .eq)).map (·.2) := by
  intro g hg
  rw [splitGroups_content h _ (keysort_sorted h sols) g hg, keysort_stable h]

/-- the groups are enumerated in strictly ascending standard order of their witnesses; in
    particular no two groups have `==` witnesses. -/
theorem C25_bagof_groups_ascending (h : TotalCmp cmp) (sols : List (κ × α)) :
    (bagofGroups cmp sols).Pairwise (fun g g' => cmp g.1 g'.1 = .lt) :=
  splitGroups_ascending h _ (keysort_sorted h sols)

/-- every solution is in a group … -/
theorem C25_bagof_cover (h : TotalCmp cmp) (sols : List (κ × α)) :
    ∀ p ∈ sols, ∃ g ∈ bagofGroups cmp sols, cmp g.1 p.1 = .eq := by
  intro p hp
  exact splitGroups_cover h _ p ((keysort_perm sols).symm.subset hp)

/-- … and in only one: two groups that both match a solution's witness are the same group. -/
theorem C25_bagof_group_unique (h : TotalCmp cmp) (sols : List (κ × α)) (p : κ × α)
    (g g' : κ × List α) (hg : g ∈ bagofGroups cmp sols) (hg' : g' ∈ bagofGroups cmp sols)
    (e : cmp g.1 p.1 = .eq) (e' : cmp g'.1 p.1 = .eq) : g = g' := by
  have hasc := C25_bagof_groups_ascending h sols
  have hee : cmp g.1 g'.1 = .eq := h.eq_trans e (h.eq_symm e')
  rcases pairwise_total_of_mem hasc g hg g' hg' with h1 | h1 | h1
  · exact h1
  · simp [hee] at h1
  · rw [h.swap g.1 g'.1, hee] at h1; simp [Ordering.swap] at h1

/-- the groups partition the solutions: concatenated they are a permutation of the template
    instances (each solution occurs in exactly one group, with its multiplicity). -/
theorem C25_bagof_partition (sols : List (κ × α)) :
    ((bagofGroups cmp sols).flatMap (·.2)).Perm (sols.map (·.2)) := by
  rw [bagofGroups, splitGroups_flatten]
  exact (keysort_perm sols).map _

/-! ## setof/3 -/

/-- setof/3 fails iff the goal has no solution. -/
theorem C25_setof_fails_iff_no_solution {cmpA : α → α → Ordering} (hk : TotalCmp cmp)
    (ha : TotalCmp cmpA) (sols : List (κ × α)) :
    setofGroups cmp cmpA sols = [] ↔ sols = [] := by
  rw [setofGroups, splitGroups_eq_nil_iff]
  constructor
  · intro h
    cases sols with
    | nil => rfl
    | cons p ps =>
      obtain ⟨y, hy, _⟩ := sortDedup_cover (pairCmp_total hk ha) (p :: ps) p (by simp)
      rw [h] at hy; simp at hy
  · rintro rfl; simp [sortDedup]

/-- the groups of setof/3 come in strictly ascending order of their witnesses. -/
theorem C25_setof_groups_ascending {cmpA : α → α → Ordering} (hk : TotalCmp cmp)
    (ha : TotalCmp cmpA) (sols : List (κ × α)) :
    (setofGroups cmp cmpA sols).Pairwise (fun g g' => cmp g.1 g'.1 = .lt) :=
  splitGroups_ascending hk _ (sortDedup_ksorted hk ha sols)

/-- each group of setof/3 is strictly ascending in the standard order: sorted, no duplicates. -/
theorem C25_setof_group_sorted_dedup {cmpA : α → α → Ordering} (hk : TotalCmp cmp)
    (ha : TotalCmp cmpA) (sols : List (κ × α)) :
    ∀ g ∈ setofGroups cmp cmpA sols, g.2.Pairwise (fun a b => cmpA a b = .lt) := by
  intro g hg
  rw [splitGroups_content hk _ (sortDedup_ksorted hk ha sols) g hg, List.pairwise_map]
  have hs := (sortDedup_strict (pairCmp_total hk ha) sols).sublist
    (List.filter_sublist (p := fun p => cmp g.1 p.1 == .eq))
  rw [List.pairwise_iff_forall_sublist] at hs ⊢
  intro p q hpq
  have hp : p ∈ (sortDedup (pairCmp cmp cmpA) sols).filter (fun p => cmp g.1 p.1 == .eq) :=
    hpq.subset (by simp)
  have hq : q ∈ (sortDedup (pairCmp cmp cmpA) sols).filter (fun p => cmp g.1 p.1 == .eq) :=
    hpq.subset (by simp)
  have ep : cmp g.1 p.1 = .eq := by simpa using (List.mem_filter.mp hp).2
  have eq' : cmp g.1 q.1 = .eq := by simpa using (List.mem_filter.mp hq).2
  have hk' : cmp p.1 q.1 = .eq := hk.eq_trans (hk.eq_symm ep) eq'
  have := hs hpq
  simpa [pairCmp, hk'] using this

/-- every element of a setof/3 group is the template instance of a solution with that witness. -/
theorem C25_setof_sound {cmpA : α → α → Ordering} (hk : TotalCmp cmp) (ha : TotalCmp cmpA)
    (sols : List (κ × α)) :
    ∀ g ∈ setofGroups cmp cmpA sols, ∀ a ∈ g.2, ∃ p ∈ sols, cmp g.1 p.1 = .eq ∧ p.2 = a := by
  intro g hg a ha'
  rw [splitGroups_content hk _ (sortDedup_ksorted hk ha sols) g hg] at ha'
  obtain ⟨p, hp, rfl⟩ := List.mem_map.mp ha'
  obtain ⟨hp1, hp2⟩ := List.mem_filter.mp hp
  exact ⟨p, sortDedup_sub _ p hp1, by simpa using hp2, rfl⟩

/-- every solution is represented in the group of its witness (by an element `==` to it). -/
theorem C25_setof_complete {cmpA : α → α → Ordering} (hk : TotalCmp cmp) (ha : TotalCmp cmpA)
    (sols : List (κ × α)) :
    ∀ p ∈ sols, ∃ g ∈ setofGroups cmp cmpA sols, cmp g.1 p.1 = .eq ∧
      ∃ a ∈ g.2, cmpA p.2 a = .eq := by
  intro p hp
  obtain ⟨y, hy, he⟩ := sortDedup_cover (pairCmp_total hk ha) sols p hp
  have he1 : cmp p.1 y.1 = .eq ∧ cmpA p.2 y.2 = .eq := by
    simpa [pairCmp, Ordering.then_eq_eq] using he
  obtain ⟨g, hg, hgy⟩ := splitGroups_cover hk _ y hy
  refine ⟨g, hg, hk.eq_trans hgy (hk.eq_symm he1.1), y.2, ?_, he1.2⟩
  rw [splitGroups_content hk _ (sortDedup_ksorted hk ha sols) g hg]
  exact List.mem_map.mpr ⟨y, List.mem_filter.mpr ⟨hy, by simp [hgy]⟩, rfl⟩

/-- a setof/3 group and the bagof/3 group with the same witness have the same elements up to `==`:
    setof = bagof + sort + dedup, group by group. -/
theorem C25_setof_vs_bagof {cmpA : α → α → Ordering} (hk : TotalCmp cmp) (ha : TotalCmp cmpA)
    (sols : List (κ × α)) (g b : κ × List α) (hg : g ∈ setofGroups cmp cmpA sols)
    (hb : b ∈ bagofGroups cmp sols) (e : cmp g.1 b.1 = .eq) :
    (∀ a ∈ g.2, a ∈ b.2) ∧ (∀ a ∈ b.2, ∃ a' ∈ g.2, cmpA a a' = .eq) := by
  constructor
  · intro a ha'
    obtain ⟨p, hp, hpk, rfl⟩ := C25_setof_sound hk ha sols g hg a ha'
    rw [C25_bagof_group_content hk sols b hb]
    refine List.mem_map.mpr ⟨p, List.mem_filter.mpr ⟨hp, ?_⟩, rfl⟩
    simp [hk.eq_trans (hk.eq_symm e) hpk]
  · intro a ha'
    rw [C25_bagof_group_content hk sols b hb] at ha'
    obtain ⟨p, hp, rfl⟩ := List.mem_map.mp ha'
    obtain ⟨hp1, hp2⟩ := List.mem_filter.mp hp
    have hbp : cmp b.1 p.1 = .eq := by simpa using hp2
    obtain ⟨g', hg', hg'p, a', ha'', he'⟩ := C25_setof_complete hk ha sols p hp1
    have hasc := C25_setof_groups_ascending hk ha sols
    have hgg : g = g' := by
      have hee : cmp g.1 g'.1 = .eq := hk.eq_trans (hk.eq_trans e hbp) (hk.eq_symm hg'p)
      rcases pairwise_total_of_mem hasc g hg g' hg' with h1 | h1 | h1
      · exact h1
      · simp [hee] at h1
      · rw [hk.swap g.1 g'.1, hee] at h1; simp [Ordering.swap] at h1
    subst hgg
    exact ⟨a', ha'', he'⟩

end groups

/-! ## the standard order qualifies -/

/-- terms whose rationals have positive denominators (all terms the system builds). -/
abbrev DTerm := {t : Term // Order.DenPos t}

/-- the standard order of terms (C13), for any ordering of the variables, is a total preorder:
    the theorems above apply to the witness and template instances of `bagofX`. -/
theorem C25_standard_order_total (age : String → Nat) :
    TotalCmp (fun a b : DTerm => Order.termCompare age a.1 b.1) where
  refl a := Order.termCompare_refl age a.1
  swap a b := Order.termCompare_swap age a.1 b.1
  le_trans a b c h1 h2 := by
    have t := Order.termCompare_tri age a.1 b.1 c.1 a.2 b.2 c.2
    cases hab : Order.termCompare age a.1 b.1
    · cases hbc : Order.termCompare age b.1 c.1
      · rw [t.lt_lt hab hbc]; simp
      · rw [← t.eq_r hbc, hab]; simp
      · exact absurd hbc h2
    · rw [t.eq_l hab]; exact h2
    · exact absurd hab h1

/-- non-vacuity: a total preorder on a plain type (so every theorem above has instances). -/
example : TotalCmp (compare : Nat → Nat → Ordering) where
  refl a := by simp
  swap a b := by rw [Nat.compare_swap]
  le_trans a b c h1 h2 := by
    rw [Nat.compare_ne_gt] at *
    omega

/-! ## free variables and `^` -/

/-- the witnesses of the repaired library code are exactly the variables of the goal that occur
    neither in the template nor in the `^` prefix, in `term_variables/2` order of the goal. -/
theorem C25_witnesses (t g : Term) (xs : List Term) :
    witFixed (witnesses0 t g) (existVars xs) =
      (termVars g).filter (fun v => !(termVars t).contains v && !(existVars xs).contains v) := by
  rw [witnesses0_eq, witFixed, List.filter_filter]
  apply List.filter_congr
  intro v _
  rw [Bool.and_comm]

/-- membership form: `v` is a witness iff it occurs in the goal, not in the template and not in
    a term to the left of a `^` (variables inside `\+` or an inner findall are NOT special). -/
theorem C25_witness_iff (t g : Term) (xs : List Term) (v : String) :
    v ∈ witFixed (witnesses0 t g) (existVars xs) ↔
      v ∈ occVars g ∧ v ∉ occVars t ∧ v ∉ occVarsL xs := by
  rw [mem_witFixed, witnesses0_eq, List.mem_filter]
  simp [termVars, existVars, mem_dedup, and_assoc]

/-- a chain `X1^X2^…^G` -/
def caretChain (xs : List Term) (g : Term) : Term := xs.foldr (fun x acc => .str "^" [x, acc]) g

/-- nested `^`: `rightmost_power/3` strips the whole chain `X1^…^Xn^G` (n ≥ 1) down to `G` and
    returns `X1 … Xn`, provided `G` itself is not of the form `_^_` or `_:_^_`. -/
theorem C25_rightmost_power_chain (g : Term) (hg : rightmostPower none g = (g, []))
    (x : Term) (xs : List Term) :
    rightmostPower none (caretChain (x :: xs) g) = (g, x :: xs) := by
  induction xs generalizing x with
  | nil =>
    simp only [caretChain, List.foldr]
    rw [rightmostPower]
    split
    · rfl
    · rw [hg]
  | cons y ys ih =>
    have := ih y
    simp only [caretChain, List.foldr] at this ⊢
    rw [rightmostPower]
    simp only [isVar, Bool.false_eq_true, if_false]
    rw [this]

/-- non-vacuity of `C25_rightmost_power_chain`: an ordinary goal satisfies its hypothesis. -/
example : rightmostPower none (.str "p" [.var "X", .var "Y"]) = (.str "p" [.var "X", .var "Y"], []) := by
  simp [rightmostPower, qual]

/-- FINDING C25-1 (pinned code). `lists:append(Witnesses0, Witnesses, ExistentialVars)` fails
    whenever there are more candidates than `^`-variables: `bagof(X, Y^f(X,Y,Z), L)` has the
    candidates `[Y,Z]` and the existential variables `[Y]` — the call fails although the
    repaired analysis gives the witness `Z`. -/
theorem C25_pinned_fails_when_a_free_variable_remains (w0 ev : List String)
    (h : ev.length < w0.length) : witPinned w0 ev = none := by
  simp [witPinned]; omega

/-- FINDING C25-1, second symptom: when it does not fail, the pinned code aliases the i-th
    candidate with the i-th `^`-variable. It changes no binding only if the candidates are a
    prefix of the `^`-variables — and then takes the remaining `^`-variables as witnesses. -/
theorem C25_pinned_aliases (w0 ev : List String) (al : List (String × String)) (ws : List String)
    (h : witPinned w0 ev = some (al, ws)) :
    al = w0.zip ev ∧ ws = ev.drop w0.length ∧ ((∀ p ∈ al, p.1 = p.2) → w0 = ev.take w0.length) := by
  simp only [witPinned] at h
  split at h
  · rename_i hle
    simp only [Option.some.injEq, Prod.mk.injEq] at h
    obtain ⟨rfl, rfl⟩ := h
    refine ⟨rfl, rfl, ?_⟩
    intro hall
    apply List.ext_getElem
    · simp; omega
    · intro i h1 h2
      have hi : i < (w0.zip ev).length := by simp; omega
      have := hall ((w0.zip ev)[i]) (List.getElem_mem hi)
      simpa using this
  · simp at h

/-- the two analyses on the statement's example `bagof(X, Y^f(X,Y,Z), L)`. -/
example : witPinned ["Y", "Z"] ["Y"] = none := rfl
example : witFixed ["Y", "Z"] ["Y"] = ["Z"] := by decide
/-- `bagof(X, X^f(X,Y), L)`: the pinned code aliases `Y` with `X` and has no witness. -/
example : witPinned ["Y"] ["X"] = some ([("Y", "X")], []) := rfl
example : witFixed ["Y"] ["X"] = ["Y"] := by decide

end Scryer.AllSol
