import ScryerModel.Proofs.AtomOps
import ScryerModel.Model.Utf8
/-!
# C22 — Atom and character builtins agree with their string semantics

The model (`Model/AtomOps.lean`) follows builtins.pl / charsio.pl / system_calls.rs test by test.
The theorems below say that, for atoms of every length (no bound), the mirrored clauses compute the
string operations: lengths in characters, the two list conversions and their inverses, the
char ↔ code bijection on scalar values, atom_concat/3 as the ordered enumeration of all splits,
sub_atom/5 as the ordered, duplicate-free enumeration of all (Before, Length, After) triples, the
error tables in the order of the code, and the character classes on ASCII.
-/
namespace Scryer.AtomOps
open Scryer

/-! ## atom_length/2 -/

/-- atom_length/2 with an unbound length answers once, with the number of characters. -/
theorem C22_atom_length_chars (s : List Char) (n : String) :
    atomLength (.con (.atom s)) (.var n) = .ok [[(n, .one (.int s.length))]] := by
  simp [atomLength, answers, unifyArg]

/-- atom_length/2 with a bound non-negative length is the test `Length = number of characters`. -/
theorem C22_atom_length_test (s : List Char) (k : Int) (hk : 0 ≤ k) :
    atomLength (.con (.atom s)) (.con (.int k)) = .ok (if k = s.length then [[]] else []) := by
  by_cases h : k = s.length
  · subst h; simp [atomLength, answers, unifyArg]
  · have h' : Atomic.int k ≠ Atomic.int s.length := by simpa using h
    simp [atomLength, answers, unifyArg, hk, h, h']

/-- number of bytes of the UTF-8 encoding of a text. -/
def utf8Len (s : List Char) : Nat := (s.map fun c => Scryer.Utf8.lenUtf8 c.toNat).sum

/-- the length is counted in characters, not bytes: never more than the byte length … -/
theorem C22_atom_length_le_bytes (s : List Char) : s.length ≤ utf8Len s := by
  induction s with
  | nil => simp [utf8Len]
  | cons c cs ih =>
    have : 1 ≤ Scryer.Utf8.lenUtf8 c.toNat := by unfold Scryer.Utf8.lenUtf8; split <;> (try split) <;> (try split) <;> omega
    simp only [utf8Len, List.map_cons, List.sum_cons, List.length_cons] at *
    omega

/-- … and strictly less as soon as one character is not ASCII. -/
theorem C22_atom_length_lt_bytes (s : List Char) (h : ∃ c ∈ s, 0x80 ≤ c.toNat) :
    s.length < utf8Len s := by
  induction s with
  | nil => simp at h
  | cons c cs ih =>
    have h1 : 1 ≤ Scryer.Utf8.lenUtf8 c.toNat := by unfold Scryer.Utf8.lenUtf8; split <;> (try split) <;> (try split) <;> omega
    have hle := C22_atom_length_le_bytes cs
    simp only [utf8Len, List.map_cons, List.sum_cons, List.length_cons] at *
    rcases h with ⟨d, hd, hd2⟩
    rcases List.mem_cons.1 hd with rfl | hd'
    · have : 2 ≤ Scryer.Utf8.lenUtf8 d.toNat := by
        unfold Scryer.Utf8.lenUtf8; split <;> (try split) <;> (try split) <;> omega
      omega
    · have := ih ⟨d, hd', hd2⟩
      omega

/-- error table of atom_length/2, in the order of the code: instantiation of the atom, its type,
    then the length (negative integer: domain error, non-integer: type error). -/
theorem C22_atom_length_errors :
    (∀ n l, atomLength (.var n) l = .error .inst) ∧
    (∀ i l, atomLength (.con (.int i)) l = .error (.type "atom" (.int i))) ∧
    (∀ t l, atomLength (.other t) l = .error (.type "atom" t)) ∧
    (∀ s k, k < 0 → atomLength (.con (.atom s)) (.con (.int k)) = .error (.dom "not_less_than_zero" (.int k))) ∧
    (∀ s a, atomLength (.con (.atom s)) (.con (.atom a)) = .error (.type "integer" (.atom (String.ofList a)))) ∧
    (∀ s t, atomLength (.con (.atom s)) (.other t) = .error (.type "integer" t)) := by
  refine ⟨?_, ?_, ?_, ?_, ?_, ?_⟩ <;> intros <;> simp [atomLength, Arg.toTerm, Atomic.toTerm]
  omega

/-! ## atom_chars/2 and atom_codes/2 -/

/-- the proper list of the one-character atoms of a text, as an argument. -/
def charsArg (s : List Char) : LArg := ⟨s.map fun c => .con (charAtom c), .con nilAtom⟩
/-- the proper list of the codes of a text, as an argument. -/
def codesArg (s : List Char) : LArg := ⟨s.map fun c => .con (codeAtomic c), .con nilAtom⟩

/-- atom → chars: one answer, the list of the characters (the atom `[]` for the empty text). -/
theorem C22_atom_chars_decompose (s : List Char) (l : String) :
    atomChars (.con (.atom s)) ⟨[], .var l⟩ = .ok [[(l, Val.ofList (s.map charAtom))]] := by
  simp [atomChars, atomText, tailOk, charsOrVars, unifyL, unifyElems, answers]

/-- chars → atom: one answer, the atom whose text is the list. -/
theorem C22_atom_chars_compose (s : List Char) (x : String) :
    atomChars (.var x) (charsArg s) = .ok [[(x, .one (.atom s))]] := by
  have hg := all_ground_con s charAtom
  have hc := charsOrVars_chars s
  have hf := filterMap_charOf s
  simp only [atomChars, atomText, charsArg, tailOk, hg, hc, hf]
  simp [answers, unifyArg]

/-- both bound: the test `text = list`; so decompose and compose are inverse to each other. -/
theorem C22_atom_chars_test (s cs : List Char) :
    atomChars (.con (.atom s)) (charsArg cs) = .ok (if cs = s then [[]] else []) := by
  simp only [atomChars, atomText, charsArg, tailOk, charsOrVars_chars, unifyL]
  rw [unifyElems_consts charAtom charAtom_injective]
  by_cases h : cs = s <;> simp [h, answers]

/-- atom → codes. -/
theorem C22_atom_codes_decompose (s : List Char) (l : String) :
    atomCodes (.con (.atom s)) ⟨[], .var l⟩ = .ok [[(l, Val.ofList (s.map codeAtomic))]] := by
  simp [atomCodes, atomText, tailOk, codesOrVars, unifyL, unifyElems, answers]

/-- codes → atom. -/
theorem C22_atom_codes_compose (s : List Char) (x : String) :
    atomCodes (.var x) (codesArg s) = .ok [[(x, .one (.atom s))]] := by
  have hg := all_ground_con s codeAtomic
  have hc := codesOrVars_codes s
  have hf := filterMap_codeOf s
  simp only [atomCodes, atomText, codesArg, tailOk, hg, hc, hf]
  simp [answers, unifyArg]

/-- both bound: the test `codes of the text = list`. -/
theorem C22_atom_codes_test (s cs : List Char) :
    atomCodes (.con (.atom s)) (codesArg cs) = .ok (if cs = s then [[]] else []) := by
  simp only [atomCodes, atomText, codesArg, tailOk, codesOrVars_codes, unifyL]
  rw [unifyElems_consts codeAtomic codeAtomic_injective]
  by_cases h : cs = s <;> simp [h, answers]

/-- error table shared by atom_chars/2 and atom_codes/2 (`atomText`), in the order of the code:
    a list argument that is not a list or partial list, both arguments unbound (partial list),
    a non-ground list with an unbound atom, the element check, an atom argument that is no atom. -/
theorem C22_atom_text_errors (check : List Arg → Except Err Unit) (dec : Arg → Option Char)
    (enc : Char → Atomic) :
    (∀ a l, tailOk l.tail = false → atomText check dec enc a l = .error (.type "list" l.toTerm)) ∧
    (∀ x es t, atomText check dec enc (.var x) ⟨es, .var t⟩ = .error .inst) ∧
    (∀ x es, es.all Arg.ground = false →
        atomText check dec enc (.var x) ⟨es, .con nilAtom⟩ = .error .inst) ∧
    (∀ x es e, es.all Arg.ground = true → check es = .error e →
        atomText check dec enc (.var x) ⟨es, .con nilAtom⟩ = .error e) ∧
    (∀ s l e, tailOk l.tail = true → check l.elems = .error e →
        atomText check dec enc (.con (.atom s)) l = .error e) ∧
    (∀ i l, tailOk l.tail = true →
        atomText check dec enc (.con (.int i)) l = .error (.type "atom" (.int i))) ∧
    (∀ t l, tailOk l.tail = true →
        atomText check dec enc (.other t) l = .error (.type "atom" t)) := by
  refine ⟨?_, ?_, ?_, ?_, ?_, ?_, ?_⟩
  · intro a l h; simp [atomText, h]
  · intro x es t; simp [atomText, tailOk]
  · intro x es h; simp [atomText, tailOk, h]
  · intro x es e h1 h2; simp [atomText, tailOk, h1, h2]
  · intro s l e h1 h2; simp [atomText, h1, h2]
  · intro i l h; simp [atomText, h, Arg.toTerm, Atomic.toTerm]
  · intro t l h; simp [atomText, h, Arg.toTerm]

/-- the element check of atom_chars/2 skips variables and characters and reports the first other
    element as `type_error(character, E)`. -/
theorem C22_chars_or_vars_first_bad (pre : List Char) (e : Arg) (post : List Arg)
    (hv : ∀ n, e ≠ .var n) (hc : isCharArg e = false) :
    charsOrVars ((pre.map fun c => Arg.con (charAtom c)) ++ e :: post)
      = .error (.type "character" e.toTerm) := by
  induction pre with
  | nil =>
    cases e with
    | var n => exact absurd rfl (hv n)
    | con a => simp [charsOrVars, hc]
    | other t => simp [charsOrVars, hc]
  | cons c cs ih =>
    have h1 : ∀ r, charsOrVars (Arg.con (charAtom c) :: r) = charsOrVars r := by
      intro r; simp [charsOrVars, charAtom, isCharArg]
    simp only [List.map_cons, List.cons_append, h1, ih]

/-- the element check of atom_codes/2: an integer that is not a scalar value is a
    representation error (also beyond 2^32 and 2^64: see notes/findings/C22-2.md), any other
    bound non-integer a type error. -/
theorem C22_codes_or_vars_first_bad (pre : List Char) (post : List Arg) :
    (∀ k, validScalar k = false →
      codesOrVars ((pre.map fun c => Arg.con (codeAtomic c)) ++ .con (.int k) :: post)
        = .error (.rep "character_code")) ∧
    (∀ a, codesOrVars ((pre.map fun c => Arg.con (codeAtomic c)) ++ .con (.atom a) :: post)
        = .error (.type "integer" (.atom (String.ofList a)))) ∧
    (∀ t, codesOrVars ((pre.map fun c => Arg.con (codeAtomic c)) ++ .other t :: post)
        = .error (.type "integer" t)) := by
  induction pre with
  | nil =>
    refine ⟨?_, ?_, ?_⟩
    · intro k hk; simp [codesOrVars, hk]
    · intro a; simp [codesOrVars, Arg.toTerm, Atomic.toTerm]
    · intro t; simp [codesOrVars, Arg.toTerm]
  | cons c cs ih =>
    have h1 : ∀ r, codesOrVars (Arg.con (codeAtomic c) :: r) = codesOrVars r := by
      intro r; simp [codesOrVars, codeAtomic, validScalar_toNat]
    simp only [List.map_cons, List.cons_append, h1]
    exact ih

/-! ## char_code/2 -/

/-- char → code: the scalar value of the character. -/
theorem C22_char_code_of_char (c : Char) (k : String) :
    charCode (.con (charAtom c)) (.var k) = .ok [[(k, .one (.int c.toNat))]] := by
  simp [charCode, charAtom, answers, unifyArg]

/-- code → char for a scalar value. -/
theorem C22_char_code_of_code (n : Int) (x : String) (h : validScalar n = true) :
    charCode (.var x) (.con (.int n)) = .ok [[(x, .one (charAtom (Char.ofNat n.toNat)))]] := by
  simp [charCode, h, answers, unifyArg]

/-- the two directions are inverse to each other: char_code/2 is a bijection between the
    one-character atoms and the scalar values 0..0xD7FF, 0xE000..0x10FFFF. -/
theorem C22_char_code_bijection :
    (∀ c : Char, validScalar (c.toNat : Int) = true ∧ Char.ofNat ((c.toNat : Int).toNat) = c) ∧
    (∀ n : Int, validScalar n = true → ((Char.ofNat n.toNat).toNat : Int) = n) := by
  refine ⟨fun c => ⟨validScalar_toNat c, by simp⟩, ?_⟩
  intro n h
  simp only [validScalar, Bool.or_eq_true, Bool.and_eq_true, decide_eq_true_eq] at h
  have hv : n.toNat.isValidChar := by
    simp only [Nat.isValidChar]; omega
  have : (Char.ofNat n.toNat).toNat = n.toNat := by
    simp [Char.ofNat, hv, Char.ofNatAux, Char.toNat]
  rw [this]; omega

/-- both bound: the test `code of Char = Code` (no error for a bound code outside the range). -/
theorem C22_char_code_test (c : Char) (n : Int) :
    charCode (.con (charAtom c)) (.con (.int n)) = .ok (if n = c.toNat then [[]] else []) := by
  by_cases h : n = c.toNat
  · subst h; simp [charCode, charAtom, answers, unifyArg]
  · have h' : Atomic.int n ≠ Atomic.int c.toNat := by simpa using h
    simp [charCode, charAtom, answers, unifyArg, h, h']

/-- error table of char_code/2. -/
theorem C22_char_code_errors :
    (∀ x k, charCode (.var x) (.var k) = .error .inst) ∧
    (∀ x n, validScalar n = false → charCode (.var x) (.con (.int n)) = .error (.rep "character_code")) ∧
    (∀ x a, charCode (.var x) (.con (.atom a)) = .error (.type "integer" (.atom (String.ofList a)))) ∧
    (∀ x t, charCode (.var x) (.other t) = .error (.type "integer" t)) ∧
    (∀ a k, a.length ≠ 1 → charCode (.con (.atom a)) k = .error (.type "character" (.atom (String.ofList a)))) ∧
    (∀ i k, charCode (.con (.int i)) k = .error (.type "character" (.int i))) ∧
    (∀ t k, charCode (.other t) k = .error (.type "character" t)) ∧
    (∀ c t, charCode (.con (charAtom c)) (.other t) = .error (.type "integer" t)) := by
  refine ⟨?_, ?_, ?_, ?_, ?_, ?_, ?_, ?_⟩
  · intros; simp [charCode]
  · intro x n h; simp [charCode, h]
  · intros; simp [charCode, Arg.toTerm, Atomic.toTerm]
  · intros; simp [charCode, Arg.toTerm]
  · intro a k h
    match a, h with
    | [], _ => simp [charCode, Arg.toTerm, Atomic.toTerm]
    | _ :: _ :: _, _ => simp [charCode, Arg.toTerm, Atomic.toTerm]
  · intros; simp [charCode, Arg.toTerm, Atomic.toTerm]
  · intros; simp [charCode, Arg.toTerm]
  · intros; simp [charCode, charAtom, Arg.toTerm]

/-! ## atom_concat/3 -/

/-- `splits z` (the answers of append/3) are exactly the pairs with `x ++ y = z` … -/
theorem C22_splits_exact (z x y : List Char) : (x, y) ∈ splits z ↔ x ++ y = z :=
  mem_splits z (x, y)

/-- … in the order of increasing length of the first part: position `i` is `(take i z, drop i z)`,
    so there are `|z| + 1` of them, each once. -/
theorem C22_splits_order (z : List Char) :
    splits z = (List.range (z.length + 1)).map (fun i => (z.take i, z.drop i)) ∧
    (splits z).length = z.length + 1 ∧ (splits z).Nodup :=
  ⟨splits_eq_range z, splits_length z, splits_nodup z⟩

/-- atom_concat(X, Y, +Z) with two different unbound variables enumerates exactly the splits of
    `Z`, in that order, one answer each. -/
theorem C22_atom_concat_enum (z : List Char) (x y : String) (hxy : x ≠ y) :
    atomConcat (.var x) (.var y) (.con (.atom z)) =
      .ok ((splits z).map fun p => [(y, .one (.atom p.2)), (x, .one (.atom p.1))]) := by
  have hb : (x == y) = false := by simpa using hxy
  simp only [atomConcat, canBeAtom]
  congr 1
  rw [← List.filterMap_eq_map']
  congr 1
  funext p
  simp [unifyArg, bindVar, List.lookup, hb]

/-- atom_concat(X, X, +Z): the splits into two equal halves. -/
theorem C22_atom_concat_alias (z : List Char) (x : String) :
    atomConcat (.var x) (.var x) (.con (.atom z)) =
      .ok (((splits z).filter fun p => decide (p.2 = p.1)).map fun p => [(x, .one (.atom p.2))]) := by
  simp only [atomConcat, canBeAtom]
  congr 1
  rw [← filterMap_ite]
  congr 1
  funext p
  by_cases h : p.2 = p.1 <;> simp [unifyArg, bindVar, List.lookup, h]

/-- atom_concat(+X, +Y, Z) is concatenation; with Z bound it is the test `X ++ Y = Z`. -/
theorem C22_atom_concat_join (x y : List Char) :
    (∀ z, atomConcat (.con (.atom x)) (.con (.atom y)) (.var z) = .ok [[(z, .one (.atom (x ++ y)))]]) ∧
    (∀ z, atomConcat (.con (.atom x)) (.con (.atom y)) (.con (.atom z)) =
      .ok (if x ++ y = z then [[]] else [])) := by
  refine ⟨?_, ?_⟩
  · intro z; simp [atomConcat, canBeAtom, answers, unifyArg]
  · intro z
    by_cases h : x ++ y = z
    · subst h; simp [atomConcat, canBeAtom, answers, unifyArg]
    · have h' : z ≠ x ++ y := fun e => h e.symm
      simp [atomConcat, canBeAtom, answers, unifyArg, h, h']

theorem stripPrefix_spec (x z : List Char) :
    stripPrefix? x z = if x <+: z then some (z.drop x.length) else none := by
  induction x generalizing z with
  | nil => simp [stripPrefix?]
  | cons a as ih =>
    cases z with
    | nil => simp [stripPrefix?]
    | cons b bs =>
      by_cases h : a = b
      · subst h; simp [stripPrefix?, ih, List.cons_prefix_cons]
      · simp [stripPrefix?, h, List.cons_prefix_cons]

/-- atom_concat(+X, Y, +Z): at most one answer, the rest of `Z` after the prefix `X`. -/
theorem C22_atom_concat_prefix (x z : List Char) (y : String) :
    atomConcat (.con (.atom x)) (.var y) (.con (.atom z)) =
      .ok (if x <+: z then [[(y, .one (.atom (z.drop x.length)))]] else []) := by
  simp only [atomConcat, canBeAtom, stripPrefix_spec]
  by_cases h : x <+: z <;> simp [h, answers, unifyArg]

/-- atom_concat(X, +Y, +Z): one answer `X = B` when `B ++ Y = Z`, none when `Y` is no suffix. -/
theorem C22_atom_concat_suffix (y z : List Char) (x : String) :
    (∃ b, b ++ y = z ∧ atomConcat (.var x) (.con (.atom y)) (.con (.atom z)) = .ok [[(x, .one (.atom b))]]) ∨
    ((∀ b, b ++ y ≠ z) ∧ atomConcat (.var x) (.con (.atom y)) (.con (.atom z)) = .ok []) := by
  cases hf : (splits z).find? (fun p => decide (p.2 = y)) with
  | some p =>
    left
    have hm := List.mem_of_find?_eq_some hf
    have hp := List.find?_some hf
    simp only [decide_eq_true_eq] at hp
    refine ⟨p.1, ?_, ?_⟩
    · rw [← hp]; exact (mem_splits z p).1 hm
    · simp [atomConcat, canBeAtom, hf, answers, unifyArg]
  | none =>
    right
    refine ⟨?_, ?_⟩
    · intro b hb
      have := List.find?_eq_none.1 hf (b, y) ((mem_splits z (b, y)).2 hb)
      simp at this
    · simp [atomConcat, canBeAtom, hf]

/-- error table of atom_concat/3: the three `can_be(atom, _)` tests in argument order, then the
    instantiation error when the whole and one part are unbound. -/
theorem C22_atom_concat_errors :
    (∀ t a2 a12, atomConcat (.other t) a2 a12 = .error (.type "atom" t)) ∧
    (∀ i a2 a12, atomConcat (.con (.int i)) a2 a12 = .error (.type "atom" (.int i))) ∧
    (∀ a1 t a12, canBeAtom a1 = none → atomConcat a1 (.other t) a12 = .error (.type "atom" t)) ∧
    (∀ a1 a2 t, canBeAtom a1 = none → canBeAtom a2 = none →
        atomConcat a1 a2 (.other t) = .error (.type "atom" t)) ∧
    (∀ x a2 z, canBeAtom a2 = none → atomConcat (.var x) a2 (.var z) = .error .inst) ∧
    (∀ s y z, atomConcat (.con (.atom s)) (.var y) (.var z) = .error .inst) := by
  refine ⟨?_, ?_, ?_, ?_, ?_, ?_⟩
  · intros; simp [atomConcat, canBeAtom, Arg.toTerm]
  · intros; simp [atomConcat, canBeAtom, Arg.toTerm, Atomic.toTerm]
  · intro a1 t a12 h; simp only [atomConcat, h]; simp [canBeAtom, Arg.toTerm]
  · intro a1 a2 t h1 h2; simp only [atomConcat, h1, h2]; simp [canBeAtom, Arg.toTerm]
  · intro x a2 z h
    cases a2 with
    | var n => simp [atomConcat, canBeAtom]
    | con a =>
      cases a with
      | int i => simp [canBeAtom] at h
      | atom s => simp [atomConcat, canBeAtom]
    | other t => simp [canBeAtom] at h
  · intros; simp [atomConcat, canBeAtom]

/-! ## sub_atom/5 -/

/-- the triples enumerated by the two nested appends are exactly the decompositions
    `B ++ L ++ A = S` (sound and complete) … -/
theorem C22_sub_triples_exact (s b l a : List Char) :
    (b, l, a) ∈ subTriples s ↔ b ++ l ++ a = s :=
  mem_subTriples s (b, l, a)

/-- … ordered by Before ascending, then Length ascending (strictly: no duplicates), a triple being
    determined by Before and Length; explicitly: Before `i`, Length `j` are `i = 0..|s|`,
    `j = 0..|s|-i`. -/
theorem C22_sub_triples_order (s : List Char) :
    (subTriples s).Pairwise TripleLt ∧ (subTriples s).Nodup ∧
    (∀ t u, t ∈ subTriples s → u ∈ subTriples s → t.1.length = u.1.length →
        t.2.1.length = u.2.1.length → t = u) ∧
    subTriples s = (List.range (s.length + 1)).flatMap fun i =>
      (List.range (s.length - i + 1)).map fun j =>
        (s.take i, (s.drop i).take j, (s.drop i).drop j) :=
  ⟨subTriples_sorted s, subTriples_nodup s, subTriples_key s, subTriples_eq_range s⟩

/-- the answer of sub_atom/5 for one triple. -/
def tripleAnswer (b l a sub : String) (t : List Char × List Char × List Char) : Subst :=
  [(b, .one (.int t.1.length)), (l, .one (.int t.2.1.length)), (a, .one (.int t.2.2.length)),
   (sub, .one (.atom t.2.1))]

/-- sub_atom(+Atom, B, L, A, Sub) with four different unbound variables: one answer per triple, in
    the order of `subTriples`, with `Sub` the corresponding substring. -/
theorem C22_sub_atom_enum (s : List Char) (b l a sub : String)
    (h1 : b ≠ l) (h2 : b ≠ a) (h3 : b ≠ sub) (h4 : l ≠ a) (h5 : l ≠ sub) (h6 : a ≠ sub) :
    subAtom (.con (.atom s)) (.var b) (.var l) (.var a) (.var sub) =
      .ok ((subTriples s).map (tripleAnswer b l a sub)) := by
  have e1 : (l == b) = false := by simpa using h1.symm
  have e2 : (a == b) = false := by simpa using h2.symm
  have e3 : (sub == b) = false := by simpa using h3.symm
  have e4 : (a == l) = false := by simpa using h4.symm
  have e5 : (sub == l) = false := by simpa using h5.symm
  have e6 : (sub == a) = false := by simpa using h6.symm
  simp only [subAtom, firstErr, canBeAtom, canBeInt, negInt]
  congr 1
  rw [← List.filterMap_eq_map']
  congr 1
  funext t
  simp [unifyArg, bindVar, List.lookup, e1, e2, e3, e4, e5, e6, tripleAnswer]

/-- sub_atom(+Atom, B, L, A, +Sub): all occurrences of `Sub`, overlapping ones included, in the
    order of increasing Before (the filter of the ordered enumeration). -/
theorem C22_sub_atom_occurrences (s sub : List Char) (b l a : String)
    (h1 : b ≠ l) (h2 : b ≠ a) (h4 : l ≠ a) :
    subAtom (.con (.atom s)) (.var b) (.var l) (.var a) (.con (.atom sub)) =
      .ok (((subTriples s).filter fun t => decide (sub = t.2.1)).map fun t =>
        [(b, .one (.int t.1.length)), (l, .one (.int t.2.1.length)), (a, .one (.int t.2.2.length))]) := by
  have e1 : (l == b) = false := by simpa using h1.symm
  have e2 : (a == b) = false := by simpa using h2.symm
  have e4 : (a == l) = false := by simpa using h4.symm
  simp only [subAtom, firstErr, canBeAtom, canBeInt, negInt]
  congr 1
  rw [← filterMap_ite]
  congr 1
  funext t
  by_cases h : sub = t.2.1 <;> simp [unifyArg, bindVar, List.lookup, e1, e2, e4, h]

/-- the occurrences are listed by strictly increasing position: `Before` identifies the answer. -/
theorem C22_sub_atom_occurrences_sorted (s sub : List Char) :
    ((subTriples s).filter fun t => decide (sub = t.2.1)).Pairwise
      (fun t u => t.1.length < u.1.length) := by
  have h := (subTriples_sorted s).filter (fun t => decide (sub = t.2.1))
  rw [List.pairwise_filter] at h ⊢ <;> try exact h
  refine (subTriples_sorted s).imp ?_
  intro t u htu ht hu
  simp only [decide_eq_true_eq] at ht hu
  rcases htu with h | ⟨_, h⟩
  · exact h
  · rw [← ht, ← hu] at h; omega

/-- sub_atom(+Atom, +B, +L, A, Sub) is deterministic: the answers come from the triples with that
    Before and Length, and there is at most one. -/
theorem C22_sub_atom_before_length (s : List Char) (b l : Int) (a sub : String)
    (hb : 0 ≤ b) (hl : 0 ≤ l) (h6 : a ≠ sub) :
    subAtom (.con (.atom s)) (.con (.int b)) (.con (.int l)) (.var a) (.var sub) =
      .ok (((subTriples s).filter fun t => decide (b = t.1.length ∧ l = t.2.1.length)).map fun t =>
        [(a, .one (.int t.2.2.length)), (sub, .one (.atom t.2.1))]) ∧
    ((subTriples s).filter fun t => decide (b = t.1.length ∧ l = t.2.1.length)).length ≤ 1 := by
  have e6 : (sub == a) = false := by simpa using h6.symm
  refine ⟨?_, ?_⟩
  · have nb : ¬ b < 0 := by omega
    have nl : ¬ l < 0 := by omega
    simp only [subAtom, firstErr, canBeAtom, canBeInt, negInt, nb, nl, if_false]
    congr 1
    rw [← filterMap_ite]
    congr 1
    funext t
    by_cases hb' : b = t.1.length <;> by_cases hl' : l = t.2.1.length <;>
      simp [unifyArg, bindVar, List.lookup, e6, hb', hl']
  · have key : ∀ f : List (List Char × List Char × List Char),
        f = (subTriples s).filter (fun t => decide (b = t.1.length ∧ l = t.2.1.length)) →
        f.length ≤ 1 := by
      intro f hf
      have hn : f.Nodup := hf ▸ (subTriples_nodup s).filter _
      match f, hf, hn with
      | [], _, _ => simp
      | [_], _, _ => simp
      | t :: u :: r, hf, hn =>
        exfalso
        have ht : t ∈ (subTriples s).filter (fun t => decide (b = t.1.length ∧ l = t.2.1.length)) := by
          rw [← hf]; simp
        have hu : u ∈ (subTriples s).filter (fun t => decide (b = t.1.length ∧ l = t.2.1.length)) := by
          rw [← hf]; simp
        simp only [List.mem_filter, decide_eq_true_eq] at ht hu
        have := subTriples_key s t u ht.1 hu.1 (by omega) (by omega)
        subst this
        simp at hn
    exact key _ rfl

/-- error table of sub_atom/5 in the order of the code: the atom (instantiation, type), the
    sub-atom, the three integers (types), then the three signs. -/
theorem C22_sub_atom_errors :
    (∀ x b l a sub, subAtom (.var x) b l a sub = .error .inst) ∧
    (∀ t b l a sub, subAtom (.other t) b l a sub = .error (.type "atom" t)) ∧
    (∀ i b l a sub, subAtom (.con (.int i)) b l a sub = .error (.type "atom" (.int i))) ∧
    (∀ s b l a t, subAtom (.con (.atom s)) b l a (.other t) = .error (.type "atom" t)) ∧
    (∀ s l a sub t, canBeAtom sub = none →
        subAtom (.con (.atom s)) (.other t) l a sub = .error (.type "integer" t)) ∧
    (∀ s b a sub t, canBeAtom sub = none → canBeInt b = none →
        subAtom (.con (.atom s)) b (.other t) a sub = .error (.type "integer" t)) ∧
    (∀ s b l sub t, canBeAtom sub = none → canBeInt b = none → canBeInt l = none →
        subAtom (.con (.atom s)) b l (.other t) sub = .error (.type "integer" t)) ∧
    (∀ s l a sub k, canBeAtom sub = none → canBeInt l = none → canBeInt a = none → k < 0 →
        subAtom (.con (.atom s)) (.con (.int k)) l a sub = .error (.dom "not_less_than_zero" (.int k))) := by
  refine ⟨?_, ?_, ?_, ?_, ?_, ?_, ?_, ?_⟩
  · intros; simp [subAtom]
  · intros; simp [subAtom, Arg.toTerm]
  · intros; simp [subAtom, Arg.toTerm, Atomic.toTerm]
  · intros; simp [subAtom, firstErr, canBeAtom, Arg.toTerm]
  · intro s l a sub t h; simp only [subAtom, h, firstErr]; simp [canBeInt, firstErr, Arg.toTerm]
  · intro s b a sub t h1 h2; simp only [subAtom, h1, h2, firstErr]; simp [canBeInt, firstErr, Arg.toTerm]
  · intro s b l sub t h1 h2 h3
    simp only [subAtom, h1, h2, h3, firstErr]; simp [canBeInt, firstErr, Arg.toTerm]
  · intro s l a sub k h1 h2 h3 hk
    simp only [subAtom, h1, h2, h3, firstErr]; simp [canBeInt, firstErr, negInt, hk]

/-! ## char_type/2 -/

/-- on ASCII the class `alpha` (defined by exclusion in macros.rs) is: letters and `_`;
    `alnum` adds the digits. -/
theorem C22_ascii_alpha : ∀ cp, cp < 128 →
    alphaChar (asciiInfo cp) cp = (inRange 'a' 'z' cp || inRange 'A' 'Z' cp || cp == 95) ∧
    alphaNumericChar (asciiInfo cp) cp
      = (inRange 'a' 'z' cp || inRange 'A' 'Z' cp || cp == 95 || inRange '0' '9' cp) := by
  decide

/-- on ASCII every printable character belongs to exactly one of the ISO classes alphanumeric,
    graphic-token, solo, layout, meta — except the backslash, which macros.rs puts into both
    `graphic_token` and `meta`; `prolog` is their union without the bare backslash class, i.e. every
    ASCII character that is not a control character other than the layout characters. -/
theorem C22_ascii_partition : ∀ cp, cp < 128 →
    (prologChar (asciiInfo cp) cp = (!(asciiInfo cp).control || layoutChar cp)) ∧
    ((alphaNumericChar (asciiInfo cp) cp).toNat + (graphicChar cp).toNat + (soloChar cp).toNat
        + (layoutChar cp).toNat + (metaChar cp).toNat = (prologChar (asciiInfo cp) cp).toNat) ∧
    (graphicTokenChar cp = (graphicChar cp || cp == 92)) := by
  decide

/-- on ASCII the digit classes are nested and the std-based classes are the usual ones. -/
theorem C22_ascii_digits_case : ∀ cp, cp < 128 →
    (binaryDigitChar cp → octalDigitChar cp) ∧ (octalDigitChar cp → decimalDigitChar cp) ∧
    (decimalDigitChar cp → hexDigitChar cp) ∧ (hexDigitChar cp → alphaNumericChar (asciiInfo cp) cp) ∧
    (asciiGraphic cp = (alphaNumericChar (asciiInfo cp) cp && cp != 95 || asciiPunct cp)) ∧
    ((asciiInfo cp).upper = [Char.ofNat (if inRange 'a' 'z' cp then cp - 32 else cp)]) ∧
    ((asciiInfo cp).lowercase → (asciiInfo cp).lower = [Char.ofNat cp]) ∧
    ((asciiInfo cp).uppercase → (asciiInfo cp).upper = [Char.ofNat cp]) := by
  decide

/-- the documented example of charsio.pl: `char_type(a, Type)` answers, in this order,
    alnum alpha alphabetic alphanumeric ascii ascii_graphic hexadecimal_digit lower octet prolog
    symbolic_control lower("a") upper("A").  (The pinned implementation answers lower("A"):
    notes/findings/C22-1.md.) -/
theorem C22_char_type_doc_example :
    charType asciiInfo 128 (.con (charAtom 'a')) (.var "Type") =
      .ok ((["alnum", "alpha", "alphabetic", "alphanumeric", "ascii", "ascii_graphic",
              "hexadecimal_digit", "lower", "octet", "prolog", "symbolic_control"].map fun n =>
              [("Type", Val.one (.atom n.toList))]) ++
           [[("Type", .app "lower" [charAtom 'a'])], [("Type", .app "upper" [charAtom 'A'])]]) := by
  rfl

/-- error table of char_type/2: the character's type first, then the domain of the type, then the
    instantiation error when neither argument is ground. -/
theorem C22_char_type_errors (info : Nat → CharInfo) (limit : Nat) :
    (∀ t ty, charType info limit (.other t) ty = .error (.type "character" t)) ∧
    (∀ i ty, charType info limit (.con (.int i)) ty = .error (.type "character" (.int i))) ∧
    (∀ a ty, a.length ≠ 1 →
        charType info limit (.con (.atom a)) ty = .error (.type "character" (.atom (String.ofList a)))) ∧
    (∀ c t, charType info limit (.con (charAtom c)) (.bad t) = .error (.dom "char_type" t)) ∧
    (∀ v t, charType info limit (.var v) (.bad t) = .error (.dom "char_type" t)) ∧
    (∀ v w, charType info limit (.var v) (.var w) = .error .inst) := by
  refine ⟨?_, ?_, ?_, ?_, ?_, ?_⟩
  · intros; simp [charType, Arg.toTerm]
  · intros; simp [charType, Arg.toTerm, Atomic.toTerm]
  · intro a ty h
    match a, h with
    | [], _ => simp [charType, Arg.toTerm, Atomic.toTerm]
    | _ :: _ :: _, _ => simp [charType, Arg.toTerm, Atomic.toTerm]
  · intros; simp [charType, charAtom, isCType, TArg.toTerm]
  · intros; simp [charType, isCType, TArg.toTerm]
  · intros; simp [charType, isCType, TArg.ground]

/-- `ccode/1` enumerates exactly the scalar values, in ascending order. -/
theorem C22_ccodes_exact (n : Nat) : n ∈ ccodes 0x110000 ↔ validScalar (n : Int) = true := by
  simp only [ccodes, List.mem_append, List.mem_range, List.mem_range', validScalar,
    Bool.or_eq_true, Bool.and_eq_true, decide_eq_true_eq]
  constructor
  · rintro (h | ⟨i, hi, rfl⟩) <;> omega
  · rintro (h | h)
    · left; omega
    · right; exact ⟨n - 0xE000, by omega, by omega⟩

/-! ## non-vacuity: the branches are reached -/

example : atomLength (.con (.atom ['a', 'é', '€', '😀'])) (.var "N") = .ok [[("N", .one (.int 4))]] := by rfl
example : utf8Len ['a', 'é', '€', '😀'] = 10 := by decide
example : (subTriples ['a','b','c']).length = 10 := by decide
example : subAtom (.con (.atom ['a','b','a','b'])) (.var "B") (.var "L") (.var "A") (.con (.atom ['a','b']))
    = .ok [[("B", .one (.int 0)), ("L", .one (.int 2)), ("A", .one (.int 2))],
           [("B", .one (.int 2)), ("L", .one (.int 2)), ("A", .one (.int 0))]] := by rfl
example : atomConcat (.var "X") (.var "X") (.con (.atom ['a','b','a','b'])) = .ok [[("X", .one (.atom ['a','b']))]] := by
  rfl
example : validScalar 0xD7FF = true ∧ validScalar 0xD800 = false ∧ validScalar 0xDFFF = false ∧
    validScalar 0xE000 = true ∧ validScalar 0x10FFFF = true ∧ validScalar 0x110000 = false ∧
    validScalar (-1) = false ∧ validScalar (2 ^ 64 + 97) = false := by decide
/-- the pinned `lower(_)` arm returns `to_uppercase`: different from `to_lowercase` on 52 ASCII characters. -/
example : (asciiInfo 97).upper ≠ (asciiInfo 97).lower := by decide

end Scryer.AtomOps
