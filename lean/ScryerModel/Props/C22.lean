import ScryerModel.Model.AtomOps
/-! C22 — property theorems (work in progress) -/
namespace Scryer.AtomOps

/-- atom_length/2 with an unbound length answers once, with the number of characters. -/
theorem C22_atom_length_chars (s : List Char) (n : String) :
    atomLength (.con (.atom s)) (.var n) = .ok [[(n, .one (.int s.length))]] := by
  simp [atomLength, answers, unifyArg, bindVar]

end Scryer.AtomOps
