import ScryerModel.Proofs.AtomProto
/-!
# C32 — Concurrent machines intern atoms consistently

Model: `Model/AtomProto.lean`, a transition system mirroring `AtomTable::build_with`
(`src/atom_table.rs`) action by action: shared state = all versions of the RCU-published inner
table (block) and of the RCU-published index, the id of the published version, the owner of the
`update` mutex; local state per thread = program counter, text, the two snapshots it holds.
`run cfg (init cfg scripts) sched` executes the schedule `sched` (ANY list of thread ids) from the
fresh table, thread `t` interning the texts `scripts t` one after the other.  There are infinitely
many threads (`Tid = Nat`), `scripts`, the initial capacity and the static-atom predicate are
arbitrary, so growth happens wherever the texts make it happen.

PARTIAL in this sense (and only this): each protocol action is one atomic, sequentially
consistent step.  Hardware memory ordering, the internals of the `arcu` crate (epoch counters,
`wait_for_epochs`, reclamation of old versions) and of `std::sync::Mutex` are outside the model.
-/
namespace Scryer.AtomProto

/-- the states reachable by some schedule from the fresh table -/
def Reachable (cfg : Cfg) (s : State) : Prop :=
  ∃ scripts sched, s = run cfg (init cfg scripts) sched

theorem reachable_inv {cfg : Cfg} (hr : cfg.recheck = true) {s : State} (h : Reachable cfg s) :
    Inv cfg s := by
  obtain ⟨scripts, sched, rfl⟩ := h
  exact (inv_run hr (inv_init cfg scripts) sched).1

/-- **(I1) The index is consistent with the block and injective**, in every state reachable by any
schedule: every entry of the published index is the offset of a written cell, the index has no
duplicate entry, two entries with the same text are the same entry, and whenever nobody owns the
update lock every written cell is indexed. -/
theorem C32_index_consistent (cfg : Cfg) (hr : cfg.recheck = true) (s : State)
    (h : Reachable cfg s) :
    (∀ o, o ∈ s.sh.tbl → ∃ x, s.sh.blk.textAt o = some x) ∧
    s.sh.tbl.Nodup ∧
    (∀ o1 o2 x, o1 ∈ s.sh.tbl → o2 ∈ s.sh.tbl → s.sh.blk.textAt o1 = some x →
        s.sh.blk.textAt o2 = some x → o1 = o2) ∧
    (s.sh.lock = none → ∀ o x, s.sh.blk.textAt o = some x → o ∈ s.sh.tbl) := by
  have i := (reachable_inv hr h).g
  have hk := i.tcur_lt _ i.cur_lt
  exact ⟨i.tbl_cells _ hk, i.nodup _ hk, fun o1 o2 x _ _ h1 h2 => i.inj o1 o2 x h1 h2, i.unlocked⟩

/-- **(I2) No text is stored at two offsets** of the published block (including a cell that is
written but not yet indexed), in every reachable state. -/
theorem C32_no_text_twice (cfg : Cfg) (hr : cfg.recheck = true) (s : State) (h : Reachable cfg s)
    (o1 o2 : Nat) (x : Text) (h1 : s.sh.blk.textAt o1 = some x) (h2 : s.sh.blk.textAt o2 = some x) :
    o1 = o2 :=
  (reachable_inv hr h).g.inj o1 o2 x h1 h2

/-- **(I3) Published versions only grow**: along any continuation of any schedule — in-place
appends as well as growth (a new, bigger block published by RCU replace) — every
`offset ↦ text` pair of the published block and every entry of the published index is still
there, and index versions, once created, never change. -/
theorem C32_versions_only_grow (cfg : Cfg) (hr : cfg.recheck = true) (s : State)
    (h : Reachable cfg s) (sched : List Tid) :
    (∀ o x, s.sh.blk.textAt o = some x → (run cfg s sched).sh.blk.textAt o = some x) ∧
    (∀ o, o ∈ s.sh.tbl → o ∈ (run cfg s sched).sh.tbl) ∧
    (∀ k, k < s.sh.ntables → (run cfg s sched).sh.tables k = s.sh.tables k) := by
  have e := (inv_run hr (reachable_inv hr h) sched).2
  exact ⟨e.pairs, e.tbl_mono, e.tables_eq⟩

/-- **(I3, across versions)** In every reachable state every `offset ↦ text` pair of EVERY inner
table version ever created — superseded blocks that readers may still hold (an outstanding
`AtomString::Dynamic` points into one), and a grown copy that is not yet published — is a pair of
the published block: all versions agree on the text of an offset. -/
theorem C32_all_versions_agree (cfg : Cfg) (hr : cfg.recheck = true) (s : State)
    (h : Reachable cfg s) (i : Nat) (hi : i < s.sh.ninners) (o : Nat) (x : Text)
    (hx : (s.sh.inners i).block.textAt o = some x) : s.sh.blk.textAt o = some x :=
  (reachable_inv hr h).g.vers i hi o x hx

/-- **(I4) Mutual exclusion of writers**: in every reachable state two threads that are both
between `lock` and `unlock` are the same thread (and that thread owns the lock). -/
theorem C32_mutual_exclusion (cfg : Cfg) (hr : cfg.recheck = true) (s : State)
    (h : Reachable cfg s) (t u : Tid) (ht : inCS (s.locals t).pc = true)
    (hu : inCS (s.locals u).pc = true) : t = u ∧ s.sh.lock = some t := by
  have i := reachable_inv hr h
  have h1 := (i.l t).mutex ht
  have h2 := (i.l u).mutex hu
  rw [h1] at h2
  exact ⟨Option.some.inj h2, h1⟩

/-- **Same text ⇒ same atom.** Any two completed `build_with x` calls, in any threads, under any
schedule, across any number of growths, returned the same atom. -/
theorem C32_same_text_same_atom (cfg : Cfg) (hr : cfg.recheck = true) (s : State)
    (h : Reachable cfg s) (t u : Tid) (x : Text) (a b : Atom)
    (ha : (x, a) ∈ (s.locals t).results) (hb : (x, b) ∈ (s.locals u).results) : a = b := by
  have i := reachable_inv hr h
  have ra := (i.l t).res x a ha
  have rb := (i.l u).res x b hb
  cases a <;> cases b <;> simp only [ResOK] at ra rb
  · rw [ra.1, rb.1]
  · rw [ra.2] at rb; exact absurd rb.2.1 (by simp)
  · rw [ra.2] at rb; exact absurd rb.1 (by simp)
  · rw [rb.2] at ra; exact absurd ra.2.1 (by simp)
  · rw [ra.1, rb.1]
  · rw [ra.2.2] at rb; exact absurd rb.2.1 (by simp)
  · rw [rb.2] at ra; exact absurd ra.1 (by simp)
  · rw [rb.2.2] at ra; exact absurd ra.2.1 (by simp)
  · rw [i.g.inj _ _ x ra.2.2 rb.2.2]

/-- **Distinct texts ⇒ distinct atoms.** -/
theorem C32_distinct_texts_distinct_atoms (cfg : Cfg) (hr : cfg.recheck = true) (s : State)
    (h : Reachable cfg s) (t u : Tid) (x y : Text) (a b : Atom) (hxy : x ≠ y)
    (ha : (x, a) ∈ (s.locals t).results) (hb : (y, b) ∈ (s.locals u).results) : a ≠ b := by
  have i := reachable_inv hr h
  have ra := (i.l t).res x a ha
  have rb := (i.l u).res y b hb
  intro hab
  subst hab
  cases a <;> simp only [ResOK] at ra rb
  · exact hxy (ra.1.symm.trans rb.1)
  · exact hxy (ra.1.symm.trans rb.1)
  · rw [ra.2.2] at rb; exact hxy (Option.some.inj rb.2.2)

/-- **Every atom keeps its text**: the atom returned by a completed `build_with x` reads back as
`x` (`Atom::as_str`, resolved against the published table of the moment) in the state where the
call completed and after ANY continuation of the schedule, whatever other threads intern and
however often the table grows meanwhile. -/
theorem C32_atom_keeps_text (cfg : Cfg) (hr : cfg.recheck = true) (s : State)
    (h : Reachable cfg s) (t : Tid) (x : Text) (a : Atom)
    (ha : (x, a) ∈ (s.locals t).results) (sched : List Tid) :
    atomText (run cfg s sched).sh a = some x := by
  obtain ⟨scripts, sched0, rfl⟩ := h
  have i := (inv_run hr (inv_run hr (inv_init cfg scripts) sched0).1 sched).1
  have r := (i.l t).res x a (results_run cfg _ sched t _ ha)
  cases a <;> simp only [ResOK] at r <;> simp only [atomText]
  · rw [r.1]
  · rw [r.1]
  · exact r.2.2

/-- **Which atom a call returns**: an inlined atom exactly for the inlinable texts (1..6 bytes
without NUL; these never touch the table), the static atom exactly for the other texts of the
build-time table, and otherwise an offset of the shared block that holds the text. -/
theorem C32_result_kind (cfg : Cfg) (hr : cfg.recheck = true) (s : State) (h : Reachable cfg s)
    (t : Tid) (x : Text) (a : Atom) (ha : (x, a) ∈ (s.locals t).results) :
    (inlinable x = true → a = .inl x) ∧
    (inlinable x = false → cfg.isStatic x = true → a = .stat x) ∧
    (inlinable x = false → cfg.isStatic x = false →
      ∃ o, a = .dyn o ∧ s.sh.blk.textAt o = some x ∧ o < s.sh.blk.used) := by
  have i := reachable_inv hr h
  have r := (i.l t).res x a ha
  cases a <;> simp only [ResOK] at r
  · refine ⟨fun _ => by rw [r.1], fun h1 => ?_, fun h1 => ?_⟩ <;> (rw [r.2] at h1; cases h1)
  · refine ⟨fun h1 => ?_, fun _ _ => by rw [r.1], fun _ h2 => ?_⟩
    · rw [r.2.1] at h1; cases h1
    · rw [r.2.2] at h2; cases h2
  · refine ⟨fun h1 => ?_, fun _ h2 => ?_, fun _ _ => ⟨_, rfl, r.2.2, i.g.cells_lt _ _ r.2.2⟩⟩
    · rw [r.1] at h1; cases h1
    · rw [r.2.1] at h2; cases h2

/-! ## Sensitivity: the protocol WITHOUT the re-check under the lock -/

/-- the protocol with the re-check removed; tiny table, no static atoms -/
def cfgNoRecheck : Cfg := { initCap := 64, isStatic := fun _ => false, recheck := false }
/-- the same with the re-check -/
def cfgSmall : Cfg := { initCap := 64, isStatic := fun _ => false }

/-- threads 0 and 1 both intern the same 8-byte text -/
def raceScripts : Tid → List Text := fun t => if t < 2 then [[1, 2, 3, 4, 5, 6, 7, 8]] else []

/-- both threads miss in the lookup, then enter the critical section one after the other -/
def raceSched : List Tid := [0, 0, 0, 0, 1, 1, 1, 1, 0, 0, 0, 0, 0, 0, 1, 1, 1, 1, 1, 1]

/-- **Without the re-check the property fails**: under `raceSched` the two threads get DIFFERENT
atoms (offsets 0 and 16) for the same text, the text is stored twice, and the index published last
(built from a stale snapshot) has even lost the first thread's entry. -/
theorem C32_without_recheck_duplicate :
    let s := run cfgNoRecheck (init cfgNoRecheck raceScripts) raceSched
    ([1, 2, 3, 4, 5, 6, 7, 8], Atom.dyn 0) ∈ (s.locals 0).results ∧
    ([1, 2, 3, 4, 5, 6, 7, 8], Atom.dyn 16) ∈ (s.locals 1).results ∧
    s.sh.blk.textAt 0 = some [1, 2, 3, 4, 5, 6, 7, 8] ∧
    s.sh.blk.textAt 16 = some [1, 2, 3, 4, 5, 6, 7, 8] ∧
    s.sh.tbl = [16] := by
  decide

/-- The same schedule WITH the re-check: the second thread's re-check fails, it starts over, finds
the first thread's entry and returns the same atom (two more steps complete its retry). -/
example :
    let s := run cfgSmall (init cfgSmall raceScripts) (raceSched ++ [1, 1])
    (s.locals 0).results = [([1, 2, 3, 4, 5, 6, 7, 8], Atom.dyn 0)] ∧
    (s.locals 1).results = [([1, 2, 3, 4, 5, 6, 7, 8], Atom.dyn 0)] ∧
    s.sh.tbl = [0] ∧ s.sh.lock = none := by
  decide

/-! ## Non-vacuity: growth and all result kinds are reached -/

/-- three threads, overlapping texts; 40-byte and 20-byte texts overflow the 64-byte block -/
def growScripts : Tid → List Text := fun t =>
  if t = 0 then [List.replicate 40 7, [1, 2, 3], List.replicate 20 9]
  else if t = 1 then [List.replicate 20 9, List.replicate 40 7]
  else if t = 2 then [[5, 0], List.replicate 40 7]
  else []

/-- round-robin to completion: the table has grown (64 → 128 bytes, a second inner-table version
is published), every thread has its
results, overlapping texts got the same offsets, the inlinable text was inlined, and a 2-byte text
with a NUL went through the table. -/
example :
    let s := runRR cfgSmall 3 40 (init cfgSmall growScripts)
    (List.range 3).all (finished s) = true ∧
    s.sh.cur = 1 ∧ s.sh.blk.cap = 128 ∧ s.sh.blk.used = 96 ∧ s.sh.tbl = [0, 48, 80] ∧
    (s.locals 0).results = [(List.replicate 20 9, .dyn 48), ([1, 2, 3], .inl [1, 2, 3]),
                            (List.replicate 40 7, .dyn 0)] ∧
    (s.locals 1).results = [(List.replicate 40 7, .dyn 0), (List.replicate 20 9, .dyn 48)] ∧
    (s.locals 2).results = [(List.replicate 40 7, .dyn 0), ([5, 0], .dyn 80)] := by
  decide

end Scryer.AtomProto
