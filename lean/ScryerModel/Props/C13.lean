import ScryerModel.Proofs.Order
/-!
# C13 — compare/3 implements the standard order of terms

`termCompare age a b` (Model/Order.lean) is the model of `compare_term_test`: category first
(`Var < Float < Integer/Rational < Atom < Compound`), then inside the category. `age` gives
the (implementation-defined) position of each variable. All theorems are for ALL terms of
the shared `Term` type (no size bound); lists are `'.'/2` compounds and strings are lists of
one-char atoms, so they are covered by the compound clauses.

`DenPos t`: every rational inside `t` has a positive denominator (always true of a term that
exists in the system). `Normal t`: rationals are in lowest terms with denominator ≥ 2 and
floats are canonical (64 bits, not `-0.0`, not NaN). Only statements live here; lemmas are in
`Proofs/Order.lean`.
-/
namespace Scryer.Order
open Scryer

/-! ## one total (pre)order -/

/-- reflexive: every term is equal to itself. -/
theorem C13_refl (age : String → Nat) (t : Term) : termCompare age t t = .eq :=
  termCompare_refl age t

/-- antisymmetric: swapping the arguments swaps the answer (`<` ↔ `>`, `=` ↔ `=`);
    unconditional. -/
theorem C13_antisymm (age : String → Nat) (a b : Term) :
    termCompare age b a = (termCompare age a b).swap :=
  termCompare_swap age a b

/-- transitive (strict part): `a < b`, `b < c` give `a < c`. -/
theorem C13_trans_lt (age : String → Nat) (a b c : Term)
    (ha : DenPos a) (hb : DenPos b) (hc : DenPos c)
    (h1 : termCompare age a b = .lt) (h2 : termCompare age b c = .lt) :
    termCompare age a c = .lt :=
  (termCompare_tri age a b c ha hb hc).lt_lt h1 h2

/-- transitive (non-strict): `a ≤ b`, `b ≤ c` give `a ≤ c` (`≤` is "compare is not `>`",
    which is how `@=<` is computed). -/
theorem C13_trans_le (age : String → Nat) (a b c : Term)
    (ha : DenPos a) (hb : DenPos b) (hc : DenPos c)
    (h1 : termCompare age a b ≠ .gt) (h2 : termCompare age b c ≠ .gt) :
    termCompare age a c ≠ .gt := by
  have t := termCompare_tri age a b c ha hb hc
  cases hab : termCompare age a b
  · cases hbc : termCompare age b c
    · rw [t.lt_lt hab hbc]; simp
    · rw [← t.eq_r hbc, hab]; simp
    · exact absurd hbc h2
  · rw [t.eq_l hab]; exact h2
  · exact absurd hab h1

/-- `=` is a congruence for the order: terms that compare equal compare alike with every
    third term (so the order is one total order on the classes of `==`). -/
theorem C13_eq_congr (age : String → Nat) (a b c : Term)
    (ha : DenPos a) (hb : DenPos b) (hc : DenPos c)
    (h : termCompare age a b = .eq) :
    termCompare age a c = termCompare age b c ∧ termCompare age c a = termCompare age c b := by
  refine ⟨(termCompare_tri age a b c ha hb hc).eq_l h, ?_⟩
  exact (termCompare_tri age c a b hc ha hb).eq_r h

/-- total: exactly one of `<`, `=`, `>` — trivially, the result is an `Ordering`; together
    with antisymmetry: `a < b` or `a = b` or `b < a`. -/
theorem C13_total (age : String → Nat) (a b : Term) :
    termCompare age a b = .lt ∨ termCompare age a b = .eq ∨ termCompare age b a = .lt := by
  rw [C13_antisymm age a b]
  cases termCompare age a b <;> simp

/-! ## categories -/

/-- the category decides first: a term of a lower category is smaller, whatever the contents.
    Categories: `cat` = 0 variables, 1 floats, 2 integers and rationals, 3 atoms, 4 compounds. -/
theorem C13_category (age : String → Nat) (a b : Term) (h : cat a < cat b) :
    termCompare age a b = .lt :=
  termCompare_of_cat_lt age a b h

/-- `Var < Float < Integer < Atom < Compound` for arbitrary representatives (a rational may
    stand in for the integer). In particular every float precedes every integer: `2.0 @< 1`. -/
theorem C13_category_chain (age : String → Nat) (x : String) (bits : Nat) (v n : Int) (d : Nat)
    (s f : String) (args : List Term) :
    termCompare age (.var x) (.flt bits) = .lt ∧
    termCompare age (.flt bits) (.int v) = .lt ∧
    termCompare age (.flt bits) (.rat n d) = .lt ∧
    termCompare age (.int v) (.atom s) = .lt ∧
    termCompare age (.rat n d) (.atom s) = .lt ∧
    termCompare age (.atom s) (.str f args) = .lt := by
  refine ⟨?_, ?_, ?_, ?_, ?_, ?_⟩ <;> exact termCompare_of_cat_lt age _ _ (by simp [cat])

/-! ## inside a category -/

/-- variables are ordered by their age. -/
theorem C13_var (age : String → Nat) (x y : String) :
    termCompare age (.var x) (.var y) = compare (age x) (age y) := by
  simp [termCompare_eq, sameCat, cat, leafCompare]

/-- the exact rational value of an integer or rational term. -/
def numQ (t : Term) : ℚ := ((numVal t).1 : ℚ) / ((numVal t).2 : ℚ)

/-- is an integer or a rational. -/
def IsNum : Term → Prop
  | .int _ => True
  | .rat _ _ => True
  | _ => False

/-- integers and rationals (in any mixture, at any magnitude) compare by exact value in ℚ. -/
theorem C13_num_value (age : String → Nat) (a b : Term) (na : IsNum a) (nb : IsNum b)
    (ha : DenPos a) (hb : DenPos b) :
    (termCompare age a b = .lt ↔ numQ a < numQ b) ∧
    (termCompare age a b = .eq ↔ numQ a = numQ b) ∧
    (termCompare age a b = .gt ↔ numQ b < numQ a) := by
  have pa := numVal_pos a ha
  have pb := numVal_pos b hb
  have h : termCompare age a b = ratCmp (numVal a) (numVal b) := by
    cases a <;> simp only [IsNum] at na <;> cases b <;> simp only [IsNum] at nb <;>
      simp [termCompare_eq, sameCat, cat, leafCompare]
  rw [h]
  exact ⟨ratCmp_lt_iff _ _ pa pb, ratCmp_eq_iff _ _ pa pb, ratCmp_gt_iff _ _ pa pb⟩

/-- two integers: plain integer comparison. -/
theorem C13_int (age : String → Nat) (v w : Int) :
    termCompare age (.int v) (.int w) = compare v w := by
  simp [termCompare_eq, sameCat, cat, leafCompare, ratCmp, numVal]

/-- floats compare by `fltCmp`; for two non-NaN doubles that is the order of their exact
    real values (`fltToRat`), so `-0.0` and `0.0` are equal; NaNs are equal to each other and
    above all other floats. -/
theorem C13_float_value (age : String → Nat) (x y : Nat) :
    termCompare age (.flt x) (.flt y) = fltCmp x y ∧
    (∀ a b, fltToRat x = some a → fltToRat y = some b →
      (fltCmp x y = .lt ↔ (a.1 : ℚ) / (a.2 : ℚ) < (b.1 : ℚ) / (b.2 : ℚ)) ∧
      (fltCmp x y = .eq ↔ (a.1 : ℚ) / (a.2 : ℚ) = (b.1 : ℚ) / (b.2 : ℚ))) ∧
    (fltToRat x = none → fltToRat y = none → fltCmp x y = .eq) ∧
    (∀ b, fltToRat x = none → fltToRat y = some b → fltCmp x y = .gt) := by
  refine ⟨by simp [termCompare_eq, sameCat, cat, leafCompare], ?_, ?_, ?_⟩
  · intro a b hx hy
    have pa : 0 < a.2 := fltToRat_den_pos x a hx
    have pb : 0 < b.2 := fltToRat_den_pos y b hy
    have h : fltCmp x y = ratCmp a b := by simp [fltCmp, hx, hy]
    rw [h]
    exact ⟨ratCmp_lt_iff _ _ pa pb, ratCmp_eq_iff _ _ pa pb⟩
  · intro hx hy; simp [fltCmp, hx, hy]
  · intro b hx hy; simp [fltCmp, hx, hy]

/-- atoms compare by their code-point sequences, and that is exactly what the byte-wise
    comparison of the UTF-8 texts (`Ord for Atom`: `as_str().cmp`) computes. -/
theorem C13_atom (age : String → Nat) (s t : String) :
    termCompare age (.atom s) (.atom t) = cmpList compare (codes s) (codes t) ∧
    atomCmpBytes s t = cmpList compare (codes s) (codes t) :=
  ⟨termCompare_atom age s t, atomCmpBytes_eq s t⟩

/-- UTF-8 preserves order: for all sequences of code points (below 0x110000), comparing the
    concatenated encodings byte by byte gives the result of comparing the code points. -/
theorem C13_utf8_order (xs ys : List Nat) (hx : ∀ x ∈ xs, x < 0x110000)
    (hy : ∀ y ∈ ys, y < 0x110000) :
    cmpList compare (utf8s xs) (utf8s ys) = cmpList compare xs ys :=
  utf8s_cmp xs ys hx hy

/-- compounds: arity first, then the name (as atoms), then the arguments left to right —
    the first argument pair that is not equal decides (`cmpList` is lexicographic; the
    lengths are already equal when it is consulted). -/
theorem C13_compound (age : String → Nat) (f g : String) (as bs : List Term) :
    termCompare age (.str f as) (.str g bs) =
      (compare as.length bs.length).then
        ((atomCmp f g).then (cmpList (termCompare age) as bs)) :=
  termCompare_str age f g as bs

/-- lexicographic arguments, spelled out: with equal name and a common argument prefix `p`,
    the comparison is that of the remaining arguments; and if the next arguments differ, they
    decide. -/
theorem C13_args_lex (age : String → Nat) (f : String) (p as bs : List Term) (x y : Term)
    (hlen : as.length = bs.length) (hxy : termCompare age x y ≠ .eq) :
    termCompare age (.str f (p ++ x :: as)) (.str f (p ++ y :: bs)) = termCompare age x y := by
  rw [termCompare_str, atomCmp_refl,
    cmpList_append p _ _ (fun a _ => termCompare_refl age a)]
  have : (p ++ x :: as).length = (p ++ y :: bs).length := by simp [hlen]
  rw [Nat.compare_eq_eq.mpr this]
  simp only [cmpList_cons_cons]
  cases h : termCompare age x y <;> simp_all

/-! ## `==` is structural identity -/

/-- on normal terms (and with distinct variables having distinct ages) `compare` answers `=`
    exactly for identical terms. -/
theorem C13_eq_iff_identical (age : String → Nat) (hage : Function.Injective age) (a b : Term)
    (ha : Normal a) (hb : Normal b) : termCompare age a b = .eq ↔ a = b :=
  termCompare_eq_iff age hage a b ha hb

/-- the caveats, precisely: outside the normal forms `=` identifies `-0.0` with `0.0`
    (OrderedFloat), and a rational with denominator 1 with the integer (scryer's `2 rdiv 1`
    is `integer/1`); it never identifies `1` and `1.0`. -/
theorem C13_eq_caveats (age : String → Nat) :
    termCompare age (.flt 0x8000000000000000) (.flt 0) = .eq ∧
    termCompare age (.rat 2 1) (.int 2) = .eq ∧
    termCompare age (.flt 0x3FF0000000000000) (.int 1) = .lt := by
  refine ⟨?_, ?_, ?_⟩
  · simp [termCompare_eq, sameCat, cat, leafCompare, fltCmp_eq_optCmp, fltScaled, fltExp,
      fltMant, fltSign, optCmp]
  · simp [termCompare_eq, sameCat, cat, leafCompare, ratCmp, numVal]
  · exact termCompare_of_cat_lt age _ _ (by simp [cat])

/-- the six comparison predicates are one relation: `==` iff compare gives `=`, `\==` is its
    negation, `@=<` is not-`@>`, `@>=` is not-`@<`, and `a @> b` iff `b @< a`. -/
theorem C13_ops (age : String → Nat) (a b : Term) :
    (termEq age a b = true ↔ termCompare age a b = .eq) ∧
    termNe age a b = !termEq age a b ∧
    termLe age a b = !termGt age a b ∧
    termGe age a b = !termLt age a b ∧
    termGt age a b = termLt age b a ∧
    termEq age a b = termEq age b a := by
  unfold termEq termNe termLe termGe termGt termLt
  rw [C13_antisymm age a b]
  cases termCompare age a b <;> decide

/-! ## strings, partial strings and lists -/

/-- a string IS the list of its one-char atoms (also with an open tail: partial strings), so
    it is ordered as the list it denotes — by construction of the model; the implementation's
    nine representation pairings are tied to this by the correspondence run. -/
theorem C13_string_as_list (age : String → Nat) (cs : List Char) (tl t : Term) :
    termCompare age (Term.ofChars cs tl) t
      = termCompare age (Term.ofList (cs.map fun c => .atom (String.singleton c)) tl) t ∧
    termCompare age t (Term.ofChars cs tl)
      = termCompare age t (Term.ofList (cs.map fun c => .atom (String.singleton c)) tl) :=
  ⟨rfl, rfl⟩

/-- list cells compare head first, then tail. -/
theorem C13_list_cell (age : String → Nat) (x xs y ys : Term) :
    termCompare age (Term.cons x xs) (Term.cons y ys)
      = (termCompare age x y).then (termCompare age xs ys) :=
  termCompare_cons age x xs y ys

/-- two complete strings compare as their code point sequences (a proper prefix first). -/
theorem C13_strings (age : String → Nat) (cs ds : List Char) :
    termCompare age (Term.ofChars cs) (Term.ofChars ds)
      = cmpList compare (cs.map Char.toNat) (ds.map Char.toNat) :=
  termCompare_ofChars age cs ds

/-- partial strings: a common prefix is skipped whatever the tails are
    (`compare_pstr_slices` returning `Continue`), and the first differing character decides
    by code point. -/
theorem C13_pstr (age : String → Nat) (p cs ds : List Char) (t1 t2 : Term) :
    termCompare age (Term.ofChars (p ++ cs) t1) (Term.ofChars (p ++ ds) t2)
      = termCompare age (Term.ofChars cs t1) (Term.ofChars ds t2) ∧
    (∀ c d, c ≠ d →
      termCompare age (Term.ofChars (p ++ c :: cs) t1) (Term.ofChars (p ++ d :: ds) t2)
        = compare c.toNat d.toNat) := by
  refine ⟨termCompare_ofChars_append age p cs ds t1 t2, ?_⟩
  intro c d h
  rw [termCompare_ofChars_append, termCompare_ofChars_ne age c d h]

/-! ## what the three findings contradict -/

/-- asymmetry of the strict part: no two terms are each strictly below the other. Finding
    C13-1 observes exactly that on the pinned code (`compare(O1,A,B)`, `compare(O2,B,A)` with
    `A = (1 '.' 2)` a structure cell, `B = [0|3]` a list cell: `O1 = O2 = (<)`). -/
theorem C13_asymm (age : String → Nat) (a b : Term) :
    ¬ (termCompare age a b = .lt ∧ termCompare age b a = .lt) := by
  rintro ⟨h1, h2⟩
  rw [C13_antisymm age a b, h1] at h2
  exact absurd h2 (by decide)

/-- the pair of finding C13-1 in the order of terms: heads first, `'.'(1,2) @> '.'(0,3)`. -/
example (age : String → Nat) :
    termCompare age (Term.cons (.int 1) (.int 2)) (Term.cons (.int 0) (.int 3)) = .gt ∧
    termCompare age (Term.cons (.int 0) (.int 3)) (Term.cons (.int 1) (.int 2)) = .lt := by
  refine ⟨?_, ?_⟩ <;> rw [C13_list_cell, C13_int, C13_int] <;> decide

/-- the pair of finding C13-2: `"hij"` (wherever it lies in memory) is below `"hijk"`;
    the pinned code crashes on it when `"hij"` is a suffix starting at byte 7 of a cell. -/
example (age : String → Nat) :
    termCompare age (Term.ofChars ['h', 'i', 'j']) (Term.ofChars ['h', 'i', 'j', 'k']) = .lt := by
  rw [C13_strings]; decide

/-- the family of finding C13-3: a list with one more element is above its prefix, so
    `f(S, L1)` is above `f(L2, L2)` when `S`, `L2` denote `cs` and `L1` denotes `cs ++ [z]` —
    for every length. The pinned code answers `=` for certain lengths. -/
theorem C13_longer_list_gt (age : String → Nat) (cs : List Char) (z : Char) :
    termCompare age (.str "f" [Term.ofChars cs, Term.ofChars (cs ++ [z])])
                    (.str "f" [Term.ofChars cs, Term.ofChars cs]) = .gt := by
  have h : termCompare age (Term.ofChars (cs ++ [z])) (Term.ofChars cs) = .gt := by
    have h0 := termCompare_ofChars_append age cs [z] [] Term.nil Term.nil
    rw [List.append_nil] at h0
    rw [h0]
    exact termCompare_of_cat_gt age _ _
      (by simp [Term.cons, Term.ofChars, Term.ofList, Term.nil, cat])
  have := C13_args_lex age "f" [Term.ofChars cs] [] [] (Term.ofChars (cs ++ [z])) (Term.ofChars cs)
    rfl (by rw [h]; decide)
  simpa [h] using this

/-! ## byte level: the tail cell of a partial string that ends first (finding C13-2) -/

/-- with the patch of C13-2, in all three `Continue` branches of `compare_pstr_slices` the cell
    the comparison goes on with IS the tail cell laid out by the writer, for every byte offset
    `l` at which the string is entered (aligned or not) and every number `pos` of common bytes.
    (`otherTailCell`: the two branches that are right in the pinned code as well.) -/
theorem C13_pstr_tail_cell (l pos : Nat) :
    leftTailCell true l pos = tailCellWritten (l + pos) ∧
    otherTailCell l pos = tailCellWritten (l + pos) :=
  ⟨leftTailCell_fixed l pos, otherTailCell_eq l pos⟩

/-- the pinned code in the branch "left ends first": right exactly when the misalignment and
    the common length do not carry into the next cell; otherwise it names the cell BEFORE the
    tail cell (string bytes and padding are then read as a heap cell). -/
theorem C13_pstr_tail_cell_pinned_partial (l pos : Nat) :
    (l % 8 + pos % 8 < 8 → leftTailCell false l pos = tailCellWritten (l + pos)) ∧
    (8 ≤ l % 8 + pos % 8 → leftTailCell false l pos + 1 = tailCellWritten (l + pos)) :=
  leftTailCell_pinned l pos

/-- the input of finding C13-2: `"abcdefghij"` in cells 100 and 101 (bytes 800…809, tail cell
    102), entered at byte 807 (`"hij"`), 3 common bytes with `"hijk"`: the pinned code goes on
    with cell 101, the patched code with cell 102. -/
example : leftTailCell false 807 3 = 101 ∧ leftTailCell true 807 3 = 102 ∧
    tailCellWritten 810 = 102 := by decide

/-! ## non-vacuity -/

/-- an injective age assignment exists. -/
example : ∃ age : String → Nat, Function.Injective age := exists_injective_age

/-- the hypotheses are satisfiable by terms of every kind. -/
example : Normal (.str "f" [.var "X", .int (-5), .rat 1 3, .flt 0x3FF0000000000000,
    .atom "é", Term.ofChars ['a', 'b'] (.var "T")]) := by
  simp [Normal, NormalL, FltCanon, fltExp, fltMant, Term.ofChars, Term.ofList, Term.cons]

example : DenPos (.str "f" [.rat 1 3, .rat (-7) 2]) := by simp [DenPos, DenPosL]

/-- both orders of a float/integer pair and a compound case are reached. -/
example : termCompare (fun _ => 0) (.int 1) (.flt 0x4000000000000000) = .gt := by
  exact termCompare_of_cat_gt _ _ _ (by simp [cat])

example : termCompare (fun _ => 0) (.str "f" [.atom "a", .atom "z"]) (.str "f" [.atom "b", .atom "a"])
    = .lt := by
  have := C13_args_lex (fun _ => 0) "f" [] [.atom "z"] [.atom "a"] (.atom "a") (.atom "b") rfl
  simp only [List.nil_append] at this
  rw [this] <;> decide

/-- floats by value: the two smallest subnormals, and a negative one below `0.0`. -/
example : fltCmp 1 2 = .lt ∧ fltCmp 0x8000000000000001 0 = .lt := by
  simp [fltCmp_eq_optCmp, fltScaled, fltExp, fltMant, fltSign, optCmp, Int.compare_eq_lt]

/-- … and two normal doubles (0.1 and 0.2: different exponent fields). -/
example : fltCmp 0x3FB999999999999A 0x3FC999999999999A = .lt := by
  have e1 : fltExp 0x3FB999999999999A = 1019 := by decide
  have e2 : fltExp 0x3FC999999999999A = 1020 := by decide
  have h := fltMag_lt_of_exp_lt 1019 (fltMant 0x3FB999999999999A) 1020 (fltMant 0x3FC999999999999A)
    (by decide) (by decide) (by decide)
  rw [fltCmp_eq_optCmp, fltScaled_eq _ (by rw [e1]; simp), fltScaled_eq _ (by rw [e2]; simp),
    e1, e2]
  have s1 : fltSign 0x3FB999999999999A = false := by decide
  have s2 : fltSign 0x3FC999999999999A = false := by decide
  simp only [s1, s2, optCmp, Bool.false_eq_true, if_false, Int.compare_eq_lt]
  exact_mod_cast h

end Scryer.Order
