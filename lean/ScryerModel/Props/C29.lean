import ScryerModel.Proofs.Toplevel
/-!
# C29 — Toplevel answers are faithful and re-executable

Theorems about `Model/Toplevel.lean`: (A) the protocol of `run_query_goal/4`,
`toplevel_query_callback/3`, `read_input/2` as a function from the engine's trace and the keys typed
to the transcript; (B) the construction of a leaf answer (`gather_equations/3`,
`extend_var_list/4`). The real toplevel is tied to the model by `vlib/props/C29.py`.
-/
namespace Scryer
open Toplevel

/-- (A1) When every answer is requested (the keyboard only ever says `;`), the answers written are
exactly the solutions the engine delivers, in order. -/
theorem C29_answers_are_the_solutions {α ε : Type} (t : Trace α ε) :
    answersOf (transcript t []) = t.sols :=
  answersOf_run_nil t {}

/-- (A2) answer-count law: n solutions give n answer blocks. -/
theorem C29_answer_count {α ε : Type} (t : Trace α ε) :
    (answersOf (transcript t [])).length = t.sols.length := by
  rw [C29_answers_are_the_solutions]

/-- (A3) The key `a` requests all answers whatever is typed afterwards: once `'$report_all'` is set the
keyboard is not read again. -/
theorem C29_all_key_enumerates_everything {α ε : Type} (t : Trace α ε) (st : St) (ks : List Key)
    (h : st.all = true) : answersOf (run t st ks) = t.sols :=
  answersOf_run_all t st ks h

/-- (A4) `false` is written iff the enumeration ended with the failure of the query … -/
theorem C29_false_iff_query_failed {α ε : Type} (t : Trace α ε) :
    hasNo (transcript t []) = t.endsFail :=
  hasNo_run_nil t {}

/-- (A5) … and after at least one answer that can only happen when the last solution left a choice
point (`B0 \== B`): "the answer list ends with false only when the last solution left choice points". -/
theorem C29_false_only_after_choice_point {α ε : Type} (t : Trace α ε)
    (hno : hasNo (transcript t []) = true) (hsol : answersOf (transcript t []) ≠ []) :
    t.lastCp = some true := by
  rw [C29_false_iff_query_failed] at hno
  rw [C29_answers_are_the_solutions] at hsol
  exact lastCp_of_endsFail t hno hsol

/-- (A6) The transcript determines the solution sequence: reading it back gives the engine's trace
(up to what follows a solution that left no choice point, which the toplevel cuts away). -/
theorem C29_transcript_determines_trace {α ε : Type} (t : Trace α ε) :
    parse (transcript t []) = some t.canon :=
  parse_transcript_nil t

/-- (A7) formatting is injective on the structure level. -/
theorem C29_transcript_injective {α ε : Type} (t t' : Trace α ε)
    (h : transcript t [] = transcript t' []) : t.canon = t'.canon := by
  have h1 := C29_transcript_determines_trace t
  have h2 := C29_transcript_determines_trace t'
  rw [h] at h1
  rw [h1] at h2
  exact Option.some.inj h2

/-- (A8) `.`/RETURN after an answer stops the enumeration: nothing of the rest of the trace is shown. -/
theorem C29_stop_key {α ε : Type} (a : α) (rest : Trace α ε) (ks : List Key) :
    transcript (.sol a true rest) (.stop :: ks) = [.indent, .ans a false, .stopped] := by
  simp [transcript, run, first, readInput, readKeys]

/-- (B1) Every equation of a leaf answer is a binding of a query variable (an entry of the query's
`variable_names` list after the solution) — never one of the fabricated `_A = …` entries. -/
theorem C29_equations_are_query_bindings (varNames : VarList) (resGoals : List Term) :
    ∀ p ∈ (leaf varNames resGoals).bindings, p ∈ varNames := by
  intro p hp
  simp only [leaf] at hp
  have hsub := gatherEquations_sub _ _ _ p hp
  simp only [extendVarList] at hsub
  rcases List.mem_append.mp hsub with h | h
  · exact h
  · obtain ⟨v, hv, hnc, _⟩ := extendVarList__new _ _ _ p h
    have := gatherEquations_var_orig _ _ _ p hp v hv
    have hc := containsVar_of_mem_gatherQueryVars varNames v (by simpa using this)
    rw [hc] at hnc
    cases hnc

/-- (B2) Every query variable bound to a non-variable term is shown with exactly that binding. -/
theorem C29_every_binding_is_shown (varNames : VarList) (resGoals : List Term)
    (p : String × Term) (hp : p ∈ varNames) (hnv : ∀ w, p.2 ≠ .var w) :
    p ∈ (leaf varNames resGoals).bindings := by
  simp only [leaf]
  exact gatherEquations_keeps _ _ _ (Nat.le_refl _) p (by simp [extendVarList, hp]) hnv

/-- (B3) The names under which an answer is written are the query's own names followed by fabricated
names; a fabricated name never coincides with a name of the query and stands for a variable that has
no name in the query ("variables in answers get names distinct from the query's"). -/
theorem C29_fabricated_names_are_fresh (varNames : VarList) (resGoals : List Term) :
    ∀ p ∈ (leaf varNames resGoals).names,
      p ∈ varNames ∨ (containsName varNames p.1 = false ∧ ∃ v, p.2 = .var v ∧ containsVar varNames v = false) := by
  intro p hp
  simp only [leaf, extendVarList] at hp
  rcases List.mem_append.mp hp with h | h
  · exact Or.inl h
  · obtain ⟨v, hv, hnc, _⟩ := extendVarList__new _ _ _ p h
    exact Or.inr ⟨extendVarList__fresh _ _ _ p h, v, hv, hnc⟩

/-! ### witnesses (non-vacuity, branches reached) -/

/-- three answers, the last one deterministic: no `false`. -/
example : (transcript (.sol 1 true (.sol 2 true (.sol 3 false .fail)) : Trace Nat Unit) []).length = 7 := by decide
/-- a choice point left after the last solution: `;  false.` -/
example : hasNo (transcript (.sol 1 true .fail : Trace Nat Unit) []) = true := by decide
example : (Trace.sol 1 true .fail : Trace Nat Unit).lastCp = some true := by decide
/-- `f` after the first answer shows answers up to the fifth, then reads the keyboard again (`.`). -/
example : answersOf (transcript (.sol 1 true (.sol 2 true (.sol 3 true (.sol 4 true (.sol 5 true (.sol 6 true .fail))))) :
    Trace Nat Unit) [.five, .stop]) = [1, 2, 3, 4, 5] := by decide
/-- `X = Y, Y = Z`: one variable under three names gives two equations (`X = Y, Z = X`; the driver
shows them, see notes/design/C29.md). -/
example : (gatherEquations 3 [("X", .var "h"), ("Y", .var "h"), ("Z", .var "h")] ["h", "h", "h"]).map Prod.fst
    = ["X", "Z"] := by decide
/-- an unbound, unshared query variable gives no equation: `true`. -/
example : (gatherEquations 1 [("X", .var "h")] ["h"]).length = 0 := by decide
/-- a non-variable binding is always an equation (B2 is not vacuous). -/
example : (gatherEquations 1 [("X", .atom "a")] []).map Prod.fst = ["X"] := by decide

end Scryer
