import ScryerModel.Proofs.Toplevel
/-! # C29 — Toplevel answers are faithful and re-executable -/
namespace Scryer
open Toplevel

/-- When every answer is requested (the keyboard only ever says `;`), the answers written are exactly the
solutions the engine delivers, in order. -/
theorem C29_answers_are_the_solutions {α ε : Type} (t : Trace α ε) :
    answersOf (transcript t []) = t.sols :=
  answersOf_run_nil t {}

end Scryer
