import ScryerModel.Model.Unify
namespace Scryer.C10
end Scryer.C10
