import ScryerModel.Proofs.Unify
/-
C10 — Unification computes most general unifiers.

Model: `Scryer.Unify.solve` (Model/Unify.lean), a work-list unification on finite terms that
follows `Unifier::unify_internal` of src/machine/unify.rs (PDL order, variable binding,
decomposition, constant comparison, occurs check at the binding points).  Entry points:
  `unifyOC`  — `unify_with_occurs_check/2`, and `=/2` under `occurs_check = true`;
  `unifyErr` — `=/2` under `occurs_check = error`;
  `leavesFiniteTerms` — `=/2` under `occurs_check = false` creates a cyclic binding.
A unifier is any function `θ : String → Term` with `t1.subst θ = t2.subst θ`; terms of the
inductive type `Term` are finite, so "unifier" always means "finite unifier".
All theorems hold for ALL terms (no size bound).
-/
namespace Scryer.C10
open Scryer Scryer.Term Scryer.Unify

/-- `θ` is a (finite) unifier of `t1` and `t2`. -/
def Unifier (θ : String → Term) (t1 t2 : Term) : Prop := t1.subst θ = t2.subst θ

/-! ### termination -/

/-- Termination, step 1: dropping a solved equation decreases the measure
    (number of distinct variables in the work list, size of the work list) lexicographically.
    `solve` is defined by well-founded recursion on this measure, so it is a total function. -/
theorem C10_termination_drop (s t : Term) (rest : Eqs) :
    Prod.Lex (· < ·) (· < ·) (card (varsE rest), sizeE rest)
      (card (varsE ((s, t) :: rest)), sizeE ((s, t) :: rest)) :=
  measure_drop s t rest

/-- Termination, step 2: binding `x ↦ u` (with `x` not in `u`) and substituting it through
    the rest of the work list removes one distinct variable. -/
theorem C10_termination_bind (x : String) (u s t : Term) (rest : Eqs) (hx : x ∉ u.vars)
    (hsub : ∀ a ∈ u.vars, a ∈ varsE ((s, t) :: rest)) (hmem : x ∈ varsE ((s, t) :: rest)) :
    Prod.Lex (· < ·) (· < ·) (card (varsE (substE x u rest)), sizeE (substE x u rest))
      (card (varsE ((s, t) :: rest)), sizeE ((s, t) :: rest)) :=
  measure_elim x u s t rest hx hsub hmem

/-- Termination, step 3: replacing `f(as) = g(bs)` by the argument pairs adds no variable
    and decreases the size. -/
theorem C10_termination_decompose (f g : String) (as bs : List Term) (rest : Eqs) :
    Prod.Lex (· < ·) (· < ·)
      (card (varsE (as.zip bs ++ rest)), sizeE (as.zip bs ++ rest))
      (card (varsE ((Term.str f as, Term.str g bs) :: rest)),
        sizeE ((Term.str f as, Term.str g bs) :: rest)) :=
  measure_decomp f g as bs rest

/-- The run on any pair of terms ends in exactly one of three outcomes. -/
theorem C10_total (t1 t2 : Term) :
    (∃ σ, solve [(t1, t2)] [] = .ok σ) ∨ solve [(t1, t2)] [] = .clash ∨
      solve [(t1, t2)] [] = .cyclic := by
  cases h : solve [(t1, t2)] [] with
  | ok σ => exact Or.inl ⟨σ, rfl⟩
  | clash => exact Or.inr (Or.inl rfl)
  | cyclic => exact Or.inr (Or.inr rfl)

/-! ### soundness, most generality, completeness -/

/-- Soundness: after a successful unification the two terms are identical. -/
theorem C10_sound {t1 t2 : Term} {σ : Subst} (h : unifyOC t1 t2 = some σ) :
    applyS σ t1 = applyS σ t2 :=
  (solve_nil_ok (unify_eq_some.mp h)).solves (t1, t2) (by simp)

/-- The result, read as a simultaneous substitution, is a unifier. -/
theorem C10_result_is_unifier {t1 t2 : Term} {σ : Subst} (h : unifyOC t1 t2 = some σ) :
    Unifier σ.toFun t1 t2 :=
  unifies_pair.mp (solve_nil_ok (unify_eq_some.mp h)).unifies

/-- Most generality, strong form: every unifier `θ` absorbs the computed `σ`
    (`θ ∘ σ = θ` on all terms). -/
theorem C10_most_general_absorbs {t1 t2 : Term} {σ : Subst} (h : unifyOC t1 t2 = some σ)
    (θ : String → Term) (hθ : Unifier θ t1 t2) (t : Term) :
    (applyS σ t).subst θ = t.subst θ :=
  (solve_nil_ok (unify_eq_some.mp h)).mgu θ (unifies_pair.mpr hθ) t

/-- Most generality: every unifier `θ` factors through the computed `σ`:
    there is `ρ` with `θ = ρ ∘ σ` on all terms. -/
theorem C10_most_general {t1 t2 : Term} {σ : Subst} (h : unifyOC t1 t2 = some σ)
    (θ : String → Term) (hθ : Unifier θ t1 t2) :
    ∃ ρ : String → Term, ∀ t, t.subst θ = (applyS σ t).subst ρ :=
  ⟨θ, fun t => (C10_most_general_absorbs h θ hθ t).symm⟩

/-- Completeness: if any finite unifier exists, unification with occurs check succeeds. -/
theorem C10_complete {t1 t2 : Term} (h : ∃ θ, Unifier θ t1 t2) :
    ∃ σ, unifyOC t1 t2 = some σ := by
  obtain ⟨θ, hθ⟩ := h
  cases hu : unifyOC t1 t2 with
  | some σ => exact ⟨σ, rfl⟩
  | none =>
      exact absurd (unifies_pair.mpr hθ) (solve_nil_fail (unify_eq_none.mp hu) θ)

/-- `unify_with_occurs_check/2` (and `=/2` with the flag `true`) fails iff no finite unifier
    exists. -/
theorem C10_unifyOC_fails_iff (t1 t2 : Term) :
    unifyOC t1 t2 = none ↔ ¬∃ θ, Unifier θ t1 t2 := by
  constructor
  · rintro h ⟨θ, hθ⟩
    exact solve_nil_fail (unify_eq_none.mp h) θ (unifies_pair.mpr hθ)
  · intro h
    cases hu : unifyOC t1 t2 with
    | none => rfl
    | some σ => exact absurd ⟨σ.toFun, C10_result_is_unifier hu⟩ h

/-- … and succeeds iff one exists. -/
theorem C10_unifyOC_succeeds_iff (t1 t2 : Term) :
    (∃ σ, unifyOC t1 t2 = some σ) ↔ ∃ θ, Unifier θ t1 t2 :=
  ⟨fun ⟨σ, h⟩ => ⟨σ.toFun, C10_result_is_unifier h⟩, C10_complete⟩

/-- Success does not depend on the order of the two arguments. -/
theorem C10_symmetric (t1 t2 : Term) :
    (∃ σ, unifyOC t1 t2 = some σ) ↔ ∃ σ, unifyOC t2 t1 = some σ := by
  rw [C10_unifyOC_succeeds_iff, C10_unifyOC_succeeds_iff]
  constructor <;> rintro ⟨θ, h⟩ <;> exact ⟨θ, h.symm⟩

/-- `\=/2` (negation of unifiability) succeeds iff no finite unifier exists. -/
theorem C10_not_unifiable_iff (t1 t2 : Term) :
    (unifyOC t1 t2).isNone = true ↔ ¬∃ θ, Unifier θ t1 t2 := by
  rw [← C10_unifyOC_fails_iff, Option.isNone_iff_eq_none]

/-! ### shape of the result -/

/-- Idempotence: applying the result twice is the same as applying it once. -/
theorem C10_idempotent {t1 t2 : Term} {σ : Subst} (h : unifyOC t1 t2 = some σ) (t : Term) :
    applyS σ (applyS σ t) = applyS σ t :=
  (solve_nil_ok (unify_eq_some.mp h)).idempotent t

/-- Only variables of the two terms are bound. -/
theorem C10_domain {t1 t2 : Term} {σ : Subst} (h : unifyOC t1 t2 = some σ) :
    ∀ x ∈ σ.dom, x ∈ t1.vars ∨ x ∈ t2.vars := fun x hx =>
  mem_varsE_pair.mp ((solve_nil_ok (unify_eq_some.mp h)).dom x hx)

/-- No bystander is bound: a variable outside the two terms is left as it is. -/
theorem C10_bystander_unbound {t1 t2 : Term} {σ : Subst} (h : unifyOC t1 t2 = some σ)
    {x : String} (h1 : x ∉ t1.vars) (h2 : x ∉ t2.vars) : applyS σ (.var x) = .var x :=
  applyS_var_of_not_mem_dom (fun hx => (C10_domain h x hx).elim h1 h2)

/-- The result introduces no variable from outside: the variables of `σ t` are variables of
    `t`, `t1` or `t2`. -/
theorem C10_no_new_variables {t1 t2 : Term} {σ : Subst} (h : unifyOC t1 t2 = some σ)
    (t : Term) (y : String) (hy : y ∈ (applyS σ t).vars) :
    y ∈ t.vars ∨ y ∈ t1.vars ∨ y ∈ t2.vars :=
  ((solve_nil_ok (unify_eq_some.mp h)).novars t y hy).imp id mem_varsE_pair.mp

/-- Uniqueness up to mutual instantiation: any other most general unifier `τ` and the
    computed `σ` are instances of each other (this is what the correspondence run relies on
    when it compares the implementation's bindings with `σ` up to renaming). -/
theorem C10_mgu_unique {t1 t2 : Term} {σ : Subst} (h : unifyOC t1 t2 = some σ)
    (τ : String → Term) (hτ : Unifier τ t1 t2)
    (hmg : ∀ θ, Unifier θ t1 t2 →
      ∃ ρ : String → Term, ∀ t : Term, t.subst θ = (t.subst τ).subst ρ) :
    (∃ ρ : String → Term, ∀ t, t.subst τ = (applyS σ t).subst ρ) ∧
    (∃ ρ : String → Term, ∀ t, applyS σ t = (t.subst τ).subst ρ) := by
  refine ⟨C10_most_general h τ hτ, ?_⟩
  obtain ⟨ρ, hρ⟩ := hmg σ.toFun (C10_result_is_unifier h)
  exact ⟨ρ, fun t => by rw [applyS_eq_subst]; exact hρ t⟩

/-! ### the three settings of the `occurs_check` flag -/

/-- flag `error`: the error is raised exactly when the run reaches a cyclic binding, and
    then no finite unifier exists. -/
theorem C10_error_flag_raises_iff (t1 t2 : Term) :
    unifyErr t1 t2 = .error () ↔ solve [(t1, t2)] [] = .cyclic := by
  unfold unifyErr; split <;> simp_all

theorem C10_error_flag_no_unifier {t1 t2 : Term} (h : unifyErr t1 t2 = .error ()) :
    ¬∃ θ, Unifier θ t1 t2 := by
  rw [← C10_unifyOC_fails_iff]
  have := (C10_error_flag_raises_iff t1 t2).mp h
  simp [unifyOC, unify, this]

/-- flag `error`: when no error is raised the answer is the one of
    `unify_with_occurs_check/2`. -/
theorem C10_error_flag_agrees {t1 t2 : Term} {r : Option Subst} (h : unifyErr t1 t2 = .ok r) :
    r = unifyOC t1 t2 := by
  unfold unifyErr at h
  unfold unifyOC unify
  split at h <;> simp_all

/-- flag `false`: the run leaves the finite terms exactly at the points where flag `error`
    raises the error. -/
theorem C10_false_flag_leaves_iff (t1 t2 : Term) :
    leavesFiniteTerms t1 t2 = true ↔ unifyErr t1 t2 = .error () := by
  rw [C10_error_flag_raises_iff]
  unfold leavesFiniteTerms; split <;> simp_all

/-- If the two terms have a finite unifier, no cyclic binding ever arises: the three flag
    settings and `unify_with_occurs_check/2` all compute the same most general unifier. -/
theorem C10_flag_irrelevant_when_unifiable {t1 t2 : Term} (h : ∃ θ, Unifier θ t1 t2) :
    leavesFiniteTerms t1 t2 = false ∧ ∃ σ, unifyOC t1 t2 = some σ ∧
      unifyErr t1 t2 = .ok (some σ) := by
  obtain ⟨σ, hσ⟩ := C10_complete h
  have hs : solve [(t1, t2)] [] = .ok σ := unify_eq_some.mp hσ
  refine ⟨by simp [leavesFiniteTerms, hs], σ, hσ, by simp [unifyErr, hs]⟩

/-- If the run ends in a clash, every flag setting fails (no error). -/
theorem C10_clash_fails {t1 t2 : Term} (h : solve [(t1, t2)] [] = .clash) :
    unifyOC t1 t2 = none ∧ unifyErr t1 t2 = .ok none ∧ leavesFiniteTerms t1 t2 = false := by
  simp [unifyOC, unify, unifyErr, leavesFiniteTerms, h]

/-! ### the work list in general -/

/-- The same facts for an arbitrary work list: on success the accumulated substitution solves
    every equation, is absorbed by every unifier, and binds only variables of the list; on
    failure the list has no unifier. -/
theorem C10_worklist_spec (eqs : Eqs) :
    (∀ σ, unify eqs [] = some σ → Good σ eqs) ∧
    (unify eqs [] = none → ∀ θ, ¬Unifies θ eqs) :=
  ⟨fun _ h => solve_nil_ok (unify_eq_some.mp h),
   fun h θ => solve_nil_fail (unify_eq_none.mp h) θ⟩

/-- The accumulator is only extended: bindings made earlier are kept. -/
theorem C10_accumulator_extended (eqs : Eqs) (acc σ : Subst) (h : unify eqs acc = some σ) :
    ∃ δ, σ = δ ++ acc ∧ Good δ eqs :=
  (solve_spec eqs acc).1 σ (unify_eq_some.mp h)

/-! ### numbers, strings -/

/-- Integers unify by value. -/
theorem C10_int_by_value (a b : Int) : (∃ σ, unifyOC (.int a) (.int b) = some σ) ↔ a = b := by
  rw [C10_unifyOC_succeeds_iff]
  simp [Unifier]

/-- A float never unifies with an integer, nor an integer with a float. -/
theorem C10_float_int_never (a : Int) (b : Nat) :
    unifyOC (.int a) (.flt b) = none ∧ unifyOC (.flt b) (.int a) = none := by
  rw [C10_unifyOC_fails_iff, C10_unifyOC_fails_iff]
  simp [Unifier]

/-- A rational never unifies with an integer or a float. -/
theorem C10_rat_int_never (n : Int) (d : Nat) (a : Int) (b : Nat) :
    unifyOC (.rat n d) (.int a) = none ∧ unifyOC (.rat n d) (.flt b) = none := by
  rw [C10_unifyOC_fails_iff, C10_unifyOC_fails_iff]
  simp [Unifier]

/-- Floats unify iff they have the same bits; rationals iff same numerator and denominator. -/
theorem C10_float_by_bits (a b : Nat) : (∃ σ, unifyOC (.flt a) (.flt b) = some σ) ↔ a = b := by
  rw [C10_unifyOC_succeeds_iff]
  simp [Unifier]

theorem C10_rat_by_value (n m : Int) (d e : Nat) :
    (∃ σ, unifyOC (.rat n d) (.rat m e) = some σ) ↔ n = m ∧ d = e := by
  rw [C10_unifyOC_succeeds_iff]
  simp [Unifier]

/-- Strings are lists of one-character atoms: a string and the list of its characters are the
    same term, so they unify with the empty substitution being enough. -/
theorem C10_string_is_char_list :
    Term.ofChars ['a', 'b'] = Term.ofList [.atom "a", .atom "b"] ∧
    ∃ σ, unifyOC (Term.ofChars ['a', 'b']) (.str "." [.var "H", .var "T"]) = some σ := by
  refine ⟨rfl, C10_complete ⟨fun x => if x = "H" then .atom "a" else Term.ofChars ['b'], ?_⟩⟩
  simp [Unifier, Term.ofChars, Term.ofList, Term.cons, Term.nil]

/-! ### non-vacuity: each hypothesis is satisfiable and each outcome is reached -/

/-- success with two bindings: `f(X, b) = f(a, Y)`. -/
example : ∃ σ, unifyOC (.str "f" [.var "X", .atom "b"]) (.str "f" [.atom "a", .var "Y"]) = some σ :=
  C10_complete ⟨fun x => if x = "X" then .atom "a" else .atom "b", by simp [Unifier]⟩

/-- the computed substitution for `f(X, b) = f(a, Y)` really is `Y ↦ b, X ↦ a`. -/
example : solve [(.str "f" [.var "X", .atom "b"], .str "f" [.atom "a", .var "Y"])] []
    = .ok [("Y", .atom "b"), ("X", .atom "a")] := by
  simp [solve, substE, subst1, single, Term.vars, Term.subst]

/-- cyclic outcome: `X = f(X)` (flag `true`: failure; flag `error`: error). -/
example : solve [(.var "X", .str "f" [.var "X"])] [] = .cyclic := by
  simp [solve, Term.vars, Term.varsL]

example : unifyErr (.var "X") (.str "f" [.var "X"]) = .error () := by
  simp [unifyErr, solve, Term.vars, Term.varsL]

example : ¬∃ θ, Unifier θ (.var "X") (.str "f" [.var "X"]) := by
  rw [← C10_unifyOC_fails_iff]
  simp [unifyOC, unify, solve, Term.vars, Term.varsL]

/-- clash outcome: `f(a) = f(b)` and `f(a) = g(a)`. -/
example : solve [(.str "f" [.atom "a"], .str "f" [.atom "b"])] [] = .clash := by
  simp [solve, constEq]

example : solve [(.str "f" [.atom "a"], .str "g" [.atom "a"])] [] = .clash := by
  simp [solve]

/-- clash before cycle and cycle before clash are told apart (depth-first, left to right):
    `f(a, X) = f(b, g(X))` fails, `f(X, a) = f(g(X), b)` raises the error under flag `error`. -/
example : unifyErr (.str "f" [.atom "a", .var "X"]) (.str "f" [.atom "b", .str "g" [.var "X"]])
    = .ok none := by
  simp [unifyErr, solve, constEq]

example : unifyErr (.str "f" [.var "X", .atom "a"]) (.str "f" [.str "g" [.var "X"], .atom "b"])
    = .error () := by
  simp [unifyErr, solve, Term.vars, Term.varsL]

/-- a bystander exists: `Z` is not bound by `X = a`. -/
example : ∃ σ, unifyOC (.var "X") (.atom "a") = some σ ∧ applyS σ (.var "Z") = .var "Z" := by
  obtain ⟨σ, h⟩ := C10_complete (t1 := .var "X") (t2 := .atom "a")
    ⟨fun _ => .atom "a", by simp [Unifier]⟩
  exact ⟨σ, h, C10_bystander_unbound h (by simp) (by simp)⟩

/-! ### finding C10-2 (head unification in write mode, `occurs_check = true`)

The clause `h3(V1, h([a|V1])).` called as `h3(V, h(V))` unifies `h(V1)` with `h([a|V1])`.
The pinned implementation answered `V1 = [a|_G0]`. -/

/-- `h(V1)` and `h([a|V1])` have no finite unifier: the call has to fail under
    `occurs_check = true` (and raise the error under `error`). -/
theorem C10_2_no_unifier :
    solve [(.str "h" [.var "V1"], .str "h" [.str "." [.atom "a", .var "V1"]])] [] = .cyclic ∧
    ¬∃ θ, Unifier θ (.str "h" [.var "V1"]) (.str "h" [.str "." [.atom "a", .var "V1"]]) := by
  constructor
  · simp [solve, Term.vars, Term.varsL]
  · rw [← C10_unifyOC_fails_iff]
    simp [unifyOC, unify, solve, Term.vars, Term.varsL]

/-- the answer of the pinned implementation, `V1 ↦ [a|_G0]`, is not a unifier of the two terms:
    it turns them into `h([a|_G0])` and `h([a,a|_G0])`; a success must make the terms identical. -/
theorem C10_2_pinned_answer_not_unifier :
    ¬Unifier (fun x => if x = "V1" then .str "." [.atom "a", .var "_G0"] else .var x)
      (.str "h" [.var "V1"]) (.str "h" [.str "." [.atom "a", .var "V1"]]) := by
  simp [Unifier, Term.subst, Term.substL]

end Scryer.C10
