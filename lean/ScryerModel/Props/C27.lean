import ScryerModel.Proofs.Fd
/-!
# C27 — clp(Z) labeling is sound and complete on finite domains

Theorems about the REFERENCE semantics in `Model/Fd.lean`: constraint systems over any number
of variables with any bounded domains (`Dom`: integers, `L..H`, unions) and any finite list of
constraints (relations over `+ - * // div mod rem / ^ abs sign min max`, `in`, reified
connectives on 0/1 variables, all_different/all_distinct, sum/3, scalar_product/4, tuples_in/2,
element/3).  `solutions s` is the answer sequence of `label/1`.

These theorems prove the REFERENCE.  The propagators and the labeling code of
`src/lib/clpz.pl` (≈ 8000 lines of Prolog) are not mirrored; they are tied to this reference only
by the correspondence run (`vlib/props/C27.py`): same answers, each once, same order for the
leftmost strategies, same multiset for every other option, domains before labeling contain the
projected solution set, ground constraints decide like is/2.
-/
namespace Scryer.Fd
open List

/-- an assignment lies in the box of a system: one value per variable, each in its domain. -/
def InBox (s : System) (a : List Int) : Prop :=
  List.Forall₂ (fun v d => Dom.mem v d = true) a s.doms

/-- Soundness and completeness: the reference enumeration contains exactly the assignments in
    the box of the domains that satisfy every constraint (any number of variables, any bounded
    domains, any finite list of constraints). -/
theorem C27_sound_complete (s : System) (a : List Int) :
    a ∈ solutions s ↔ InBox s a ∧ ∀ c ∈ s.cs, sat a c = true := by
  rw [mem_solutions]
  simp [InBox, System.holds, List.all_eq_true]

/-- each solution is enumerated once. -/
theorem C27_each_once (s : System) : (solutions s).Nodup := solutions_nodup s

/-- the default strategy enumerates in strictly ascending lexicographic order
    (leftmost variable first, ascending values). -/
theorem C27_default_order (s : System) : (solutions s).Pairwise lexLt := solutions_sorted s

/-- `labeling([down], Vs)`: the reference enumeration with descending values is the reverse of
    the default one (so it is in strictly descending lexicographic order). -/
theorem C27_down_order (s : System) : solutionsDown s = (solutions s).reverse :=
  solutionsDown_eq s

/-- Strategy independence.  Labeling is a search tree in which a branching rule repeatedly
    splits the remaining candidate values of one open variable into two non-empty parts.  For
    EVERY valid branching rule — any variable selection (`leftmost`, `ff`, `ffc`, `min`, `max`, or
    whatever the domains after propagation make them choose), any value order, any of
    `step`/`enum`/`bisect` — the answers are a permutation of `solutions s`: same set, each once. -/
theorem C27_any_strategy_permutation (br : Store → Branch) (hv : ValidBranch br) (s : System) :
    (labelWith br s).Perm (solutions s) := labelWith_perm br hv s

/-- the concrete rules of clpz are valid for every selection function `sel` (arbitrary, e.g.
    depending on propagated domains) and both value orders: `step` (and `enum`, which visits the
    leaves in the same order) … -/
theorem C27_step_valid (sel : Store → Nat) (o : Ord) : ValidBranch (stepBranch sel o) :=
  stepBranch_valid sel o

/-- … and `bisect`. -/
theorem C27_bisect_valid (sel : Store → Nat) (o : Ord) : ValidBranch (bisectBranch sel o) :=
  bisectBranch_valid sel o

/-- corollary: every option combination yields a permutation of the same solution set. -/
theorem C27_options_permutation (sel : Sel) (o : Ord) (c : Choice) (s : System) :
    (labelWith (strategy (selIndex sel) o c) s).Perm (solutions s) := by
  cases c
  · exact labelWith_perm _ (stepBranch_valid _ o) s
  · exact labelWith_perm _ (bisectBranch_valid _ o) s

/-- with leftmost selection and ascending values, `step`/`enum` and `bisect` produce exactly the
    reference sequence (not only a permutation). -/
theorem C27_leftmost_up_exact (c : Choice) (s : System) :
    labelWith (strategy (selIndex .leftmost) .up c) s = solutions s := by
  cases c
  · exact labelWith_eq_solutions _ (stepBranch_valid _ _) stepBranch_asc s
  · exact labelWith_eq_solutions _ (bisectBranch_valid _ _) bisectBranch_asc s

/-- Monotonicity: adding constraints only removes solutions (and keeps the order of the rest). -/
theorem C27_monotone (d : List Dom) (cs extra : List Constraint) :
    solutions ⟨d, cs ++ extra⟩ = (solutions ⟨d, cs⟩).filter (fun a => extra.all (sat a)) ∧
    (solutions ⟨d, cs ++ extra⟩).Sublist (solutions ⟨d, cs⟩) := by
  rw [solutions_append]
  exact ⟨rfl, List.filter_sublist⟩

/-- Domain expressions denote sets: `\/` is union, posting two domains is intersection; the value
    list is strictly ascending, hence canonical (equal sets give equal lists). -/
theorem C27_domain_ops (a b : Dom) (x : Int) :
    (x ∈ (Dom.union a b).toList ↔ x ∈ a.toList ∨ x ∈ b.toList) ∧
    (x ∈ inter a.toList b.toList ↔ x ∈ a.toList ∧ x ∈ b.toList) ∧
    (x ∈ a.toList ↔ a.mem x = true) ∧
    a.toList.Pairwise (· < ·) ∧ (inter a.toList b.toList).Pairwise (· < ·) :=
  ⟨by simp [Dom.toList, mem_merge], mem_inter _ _, Dom.mem_toList a x, Dom.toList_sorted a,
   inter_sorted _ (Dom.toList_sorted a)⟩

theorem C27_domain_canonical (a b : Dom) (h : ∀ x, a.mem x = b.mem x) : a.toList = b.toList :=
  sorted_ext (Dom.toList_sorted a) (Dom.toList_sorted b)
    (fun x => by rw [Dom.mem_toList, Dom.mem_toList, h x])

/-- Reification: `B #<==> F` holds iff `B` is 1 and `F` is true, or `B` is 0 and `F` is false
    (and every variable used as a truth value inside `F` is 0 or 1). -/
theorem C27_reification (env : List Int) (i : Nat) (f : Form) :
    sat env (.form (.bin .iff (.bvar i) f)) = true ↔
      f.boolOk env = true ∧
      ((env[i]? = some 1 ∧ f.truth env = true) ∨ (env[i]? = some 0 ∧ f.truth env = false)) :=
  reify_iff env i f

/-- truth table of the connectives `#/\ #\/ #==> #<== #<==> #\`. -/
theorem C27_truth_table (p q : Bool) :
    (Conn.apply .and p q = true ↔ (p = true ∧ q = true)) ∧
    (Conn.apply .or p q = true ↔ (p = true ∨ q = true)) ∧
    (Conn.apply .imp p q = true ↔ (p = true → q = true)) ∧
    (Conn.apply .rimp p q = true ↔ (q = true → p = true)) ∧
    (Conn.apply .iff p q = true ↔ (p = true ↔ q = true)) ∧
    (Conn.apply .xor p q = true ↔ ¬ (p = true ↔ q = true)) := conn_table p q

/-- the rewriting that clpz's `reify_/2` applies (`#==>` to `#\ … #\/`, `#<==>` to two
    implications, `#\` (xor), `#>`/`#<`/`#=<` to `#>=`) preserves the meaning, also when a
    sub-expression is undefined. -/
theorem C27_reify_rewrites (env : List Int) (f g : Form) (l r : Expr) :
    sat env (.form (.bin .imp f g)) = sat env (.form (.bin .or (.not f) g)) ∧
    sat env (.form (.bin .rimp f g)) = sat env (.form (.bin .imp g f)) ∧
    sat env (.form (.bin .iff f g)) = sat env (.form (.bin .and (.bin .imp f g) (.bin .imp g f))) ∧
    sat env (.form (.bin .xor f g)) =
      sat env (.form (.bin .and (.bin .or f g) (.not (.bin .and f g)))) ∧
    relSat env .gt l r = relSat env .ge l (.bin .add r (.lit 1)) ∧
    relSat env .le l r = relSat env .ge r l ∧
    relSat env .lt l r = relSat env .ge r (.bin .add l (.lit 1)) :=
  ⟨rewrite_imp env f g, rewrite_rimp env f g, rewrite_iff env f g, rewrite_xor env f g,
   rewrite_gt env l r, rewrite_le env l r, rewrite_lt env l r⟩

/-- Ground expressions agree with is/2: a ground, `/`-free expression `e` translates to an
    expression `a` of the C01 evaluator, and its clp(Z) value is C01's exact value
    (`Arith.evalSpec`, proved equal to the implementation's evaluator in C01); undefined ⇔ is/2
    raises an evaluation/type error. -/
theorem C27_ground_value (e : Expr) (a : Arith.Expr) (h : toArith e = some a) (env : List Int) :
    eval env e = (Arith.evalSpec a).toOption := eval_eq_evalSpec e a h env

/-- `X #= E` for ground `E` has the unique solution `X = value of E` when `E` is defined
    (and none otherwise). -/
theorem C27_ground_eq_unique (e : Expr) (a : Arith.Expr) (h : toArith e = some a) (d : Dom)
    (sol : List Int) :
    sol ∈ solutions ⟨[d], [.form (.rel .eq (.var 0) e)]⟩ ↔
      ∃ v, sol = [v] ∧ d.mem v = true ∧ Arith.evalSpec a = .ok v := by
  rw [C27_sound_complete]
  simp only [InBox, List.mem_singleton, forall_eq, sat, Form.boolOk, Form.truth, relSat,
    Bool.true_and]
  constructor
  · rintro ⟨hb, hs⟩
    cases hb with
    | cons hv ht =>
      cases ht
      rename_i v
      refine ⟨v, rfl, hv, ?_⟩
      rw [eval_eq_evalSpec e a h] at hs
      simp only [eval, List.getElem?_cons_zero] at hs
      cases hx : Arith.evalSpec a with
      | error x => simp [hx, Except.toOption] at hs
      | ok w =>
        simp only [hx, Except.toOption, Rel.holds, decide_eq_true_eq] at hs
        rw [hs]
  · rintro ⟨v, rfl, hv, hx⟩
    refine ⟨.cons hv .nil, ?_⟩
    rw [eval_eq_evalSpec e a h]
    simp [eval, hx, Except.toOption, Rel.holds]

/-- ground relations agree with is/2 and comparison: `E1 # E2` holds iff both sides evaluate and
    the values compare accordingly. -/
theorem C27_ground_relation (r : Rel) (e1 e2 : Expr) (a1 a2 : Arith.Expr)
    (h1 : toArith e1 = some a1) (h2 : toArith e2 = some a2) (env : List Int) :
    sat env (.form (.rel r e1 e2)) = true ↔
      ∃ x y, Arith.evalSpec a1 = .ok x ∧ Arith.evalSpec a2 = .ok y ∧ r.holds x y = true := by
  simp only [sat, Form.boolOk, Form.truth, relSat, Bool.true_and]
  rw [eval_eq_evalSpec e1 a1 h1, eval_eq_evalSpec e2 a2 h2]
  cases Arith.evalSpec a1 <;> cases Arith.evalSpec a2 <;> simp [Except.toOption]

/-! ### non-vacuity: the hypotheses are satisfiable and the branches are reached -/

/-- `X in -3..3, Y in -2..2, X #= Y*Y - 1` -/
def exSys : System :=
  ⟨[.range (-3) 3, .range (-2) 2],
   [.form (.rel .eq (.var 0) (.bin .sub (.bin .mul (.var 1) (.var 1)) (.lit 1)))]⟩

example : solutions exSys = [[-1, 0], [0, -1], [0, 1], [3, -2], [3, 2]] := by decide
example : exSys.wf = true := by decide
example : labelWith (strategy (selIndex .ff) .down .bisect) exSys
    = [[3, 2], [0, 1], [-1, 0], [0, -1], [3, -2]] := by decide
example : labelWith (strategy (selIndex .leftmost) .up .bisect) exSys = solutions exSys := by decide
/-- undefined arithmetic makes the atomic relation false, at top level and under `#\`. -/
example : sat [3] (.form (.rel .eq (.var 0) (.bin .tdiv (.lit 7) (.lit 0)))) = false := by decide
example : sat [3] (.form (.not (.rel .eq (.var 0) (.bin .tdiv (.lit 7) (.lit 0))))) = true := by decide
/-- a variable outside the assignment is undefined, not 0. -/
example : sat [] (.form (.rel .eq (.var 0) (.lit 0))) = false := by decide
/-- a truth-value variable must be 0 or 1. -/
example : sat [2] (.form (.bin .imp (.bvar 0) (.const true))) = false := by decide
/-- the ground translation covers the arithmetic functors. -/
example : toArith (.bin .pow (.lit 2) (.un .neg (.lit 1))) =
    some (.bin .pow (.lit 2) (.un .neg (.lit 1))) := rfl
example : eval [] (.bin .pow (.lit 2) (.un .neg (.lit 1))) = none := by decide
example : eval [] (.bin .pow (.lit (-1)) (.lit (-3))) = some (-1) := by decide
example : eval [] (.bin .exdiv (.lit 7) (.lit 2)) = none := by decide
example : eval [] (.bin .fdiv (.lit (-7)) (.lit 2)) = some (-4) := by decide
/-- global constraints. -/
example : solutions ⟨[.range 0 2, .range 0 2],
    [.allDifferent [.var 0, .var 1, .lit 1], .sum [.var 0, .var 1] .eq (.lit 2)]⟩
    = [[0, 2], [2, 0]] := by decide
example : solutions ⟨[.range 0 5, .range 0 5], [.element (.var 0) [.lit 3, .var 1, .lit 5] (.var 1)]⟩
    = [[1, 3], [2, 0], [2, 1], [2, 2], [2, 3], [2, 4], [2, 5], [3, 5]] := by decide

end Scryer.Fd
