import ScryerModel.Proofs.Fd
/-!
# C27 — clp(Z) labeling is sound and complete on finite domains

Theorems about the REFERENCE semantics in `Model/Fd.lean`: constraint systems over any number
of variables with any bounded domains (`Dom`: integers, `L..H`, unions) and any finite list of
constraints.  `solutions s` is the answer sequence of `label/1`.  The propagators of
`src/lib/clpz.pl` are not mirrored here; they are tied to this reference only by the
correspondence run (`vlib/props/C27.py`).
-/
namespace Scryer.Fd
open List

/-- an assignment lies in the box of a system: one value per variable, each in its domain. -/
def InBox (s : System) (a : List Int) : Prop :=
  List.Forall₂ (fun v d => Dom.mem v d = true) a s.doms

/-- Soundness and completeness: the reference enumeration contains exactly the assignments in
    the box of the domains that satisfy every constraint. -/
theorem C27_sound_complete (s : System) (a : List Int) :
    a ∈ solutions s ↔ InBox s a ∧ ∀ c ∈ s.cs, sat a c = true := by
  rw [mem_solutions]
  simp [InBox, System.holds, List.all_eq_true]

/-- each solution is enumerated once. -/
theorem C27_each_once (s : System) : (solutions s).Nodup := solutions_nodup s

/-- the default strategy enumerates in strictly ascending lexicographic order
    (leftmost variable first, ascending values). -/
theorem C27_default_order (s : System) : (solutions s).Pairwise lexLt := solutions_sorted s

end Scryer.Fd
