import ScryerModel.Proofs.Index
import ScryerModel.Proofs.IndexSpec
import ScryerModel.Proofs.IndexWalk
/-!
# C06 — Clause selection returns exactly the clauses whose heads unify

Model (`Model/Index.lean`): `build ext cs` is `compile_predicate` (`split_predicate`,
`compile_pred_subseq`, `CodeOffsets::index_term`, `compute_indices`), `addBack`/`addFront`/`remove`
are `assertz`/`asserta`/`retract` on a dynamic predicate (`append_/prepend_compiled_clause`,
`merge_clause_index`, `retract_dynamic_clause`), `select idx call` is the list of clause identifiers
that `switch_on_term` / `switch_on_constant` / `switch_on_structure` hand to head unification, in
trial order. `compatHead h call`: the head `h` could unify with `call` as far as the kinds of the
arguments go (atoms by name; integers and rationals by VALUE whatever their representation:
fixnum cell or arena object; floats by bits; lists; structures by name/arity; variables with
everything) — a necessary condition for head unification, so no clause that unifies is outside it.

`CallWF call`: a fixnum cell of the call holds a 56-bit value (true of every cell the machine
builds). Heads are arbitrary: any mixture of atoms, fixnums, bignums, rationals (also with
denominator 1 / values that fit a fixnum), floats, lists, structures, variables; any arity; any
number of clauses.

Only statements live here; lemmas are in `Proofs/Index*.lean`.
-/
namespace Scryer.Index

/-! ## static predicates (and the initial clauses of dynamic ones) -/

/-- **order, nothing added, no duplicates** — consulted code: the clauses the index hands over
are a sublist of the clauses in textual order `0, 1, …, n-1`. -/
theorem C06_static_sublist (ext : Bool) (cs : List Head) (call : Call) :
    (select (build ext cs) call).Sublist (List.range cs.length) := by
  have := (inv_build ext cs).select_sublist call
  rwa [live_build] at this

/-- **nothing dropped** — consulted code: every clause whose head could unify with the call is
handed over, whatever the type of the argument the predicate is indexed on. -/
theorem C06_static_complete (ext : Bool) (cs : List Head) (call : Call) (wf : CallWF call)
    (i : Nat) (hi : i < cs.length) (hc : compatHead cs[i] call = true) :
    i ∈ select (build ext cs) call := by
  apply (inv_build ext cs).select_complete call wf
  · rw [live_build]; exact List.mem_range.2 hi
  · rwa [hd_build ext cs i hi]

/-- **exactly the unifiable clauses, in textual order** — consulted code: index selection
followed by head unification = head unification over all clauses in textual order. -/
theorem C06_static_exact (ext : Bool) (cs : List Head) (call : Call) (wf : CallWF call) :
    (select (build ext cs) call).filter (fun i => compatHead (cs.getD i []) call)
      = (List.range cs.length).filter (fun i => compatHead (cs.getD i []) call) := by
  have h := (inv_build ext cs).select_exact call wf
  rw [live_build] at h
  have hs := C06_static_sublist ext cs call
  have e : ∀ l : List Nat, l.Sublist (List.range cs.length) →
      l.filter (fun id => compatHead ((build ext cs).hd id) call)
        = l.filter (fun i => compatHead (cs.getD i []) call) := by
    intro l hl
    apply List.filter_congr
    intro i hi
    have hlt : i < cs.length := List.mem_range.1 (hl.subset hi)
    rw [hd_build ext cs i hlt]
    simp [List.getD, hlt]
  rw [← e _ hs, ← e _ (List.Sublist.refl _)]
  exact h

/-! ## dynamic predicates: any history of assertz / asserta / retract -/

/-- the reference database of a dynamic predicate consulted with clauses `cs`. -/
def refStart (cs : List Head) : RefDb := { clauses := enumFrom' 0 cs, next := cs.length }

/-- a dynamic predicate consulted with clauses `cs` and then updated by `ops`. -/
def dynIndex (cs : List Head) (ops : List Op) : Index := ops.foldl Op.apply (build true cs)

/-- the same history applied to the reference database (no index; ISO 8.9 semantics). -/
def dynRef (cs : List Head) (ops : List Op) : RefDb := ops.foldl RefDb.apply (refStart cs)

/-- the freshly consulted predicate holds exactly the clauses `0..n-1` of the reference database. -/
theorem C06_tracks_build (cs : List Head) : Tracks (build true cs) (refStart cs) := by
  refine ⟨rfl, ?_⟩
  show (build true cs).liveClauses = enumFrom' 0 cs
  unfold Index.liveClauses
  rw [live_build]
  have : ∀ (n : Nat) (l : List Head) (f : Nat → Head), (∀ i, (h : i < l.length) → f (n + i) = l[i]) →
      (List.range' n l.length).map (fun id => (id, f id)) = enumFrom' n l := by
    intro n l
    induction l generalizing n with
    | nil => intros; rfl
    | cons x r ih =>
      intro f hf
      simp only [List.length_cons, List.range'_succ, List.map_cons, enumFrom']
      congr 1
      · have := hf 0 (by simp); simpa using congrArg (fun y => (n, y)) this
      · apply ih (n + 1) f
        intro i hi
        have := hf (i + 1) (by simpa using hi)
        simpa [Nat.add_assoc, Nat.add_comm 1 i] using this
  rw [List.range_eq_range']
  exact this 0 cs _ (fun i hi => by simpa using hd_build true cs i hi)

/-- the invariant holds after every history. -/
theorem C06_inv_dyn (cs : List Head) (ops : List Op) : Inv (dynIndex cs ops) :=
  inv_foldl ops _ (inv_build true cs)

/-- **exactly the unifiable live clauses, in database order** — dynamic code: after ANY history
of `assertz`, `asserta`, `retract` on a predicate consulted with ANY clauses, index selection
followed by head unification yields exactly the clauses of the reference database (assertz at the
end, asserta at the front, retracted ones gone) whose head could unify, in that order, each once. -/
theorem C06_dynamic_exact (cs : List Head) (ops : List Op) (call : Call) (wf : CallWF call) :
    ((select (dynIndex cs ops) call).filter
        (fun id => compatHead ((dynIndex cs ops).hd id) call)).map
        (fun id => (id, (dynIndex cs ops).hd id))
      = (dynRef cs ops).matching call :=
  (tracks_foldl ops _ _ (inv_build true cs) (C06_tracks_build cs)).answers (C06_inv_dyn cs ops) call wf

/-- **order, nothing added, no duplicates** — dynamic code: what the index hands over is a
sublist of the live clauses in database order (retracted clauses never appear), … -/
theorem C06_dynamic_sublist (cs : List Head) (ops : List Op) (call : Call) :
    (select (dynIndex cs ops) call).Sublist (dynIndex cs ops).live :=
  (C06_inv_dyn cs ops).select_sublist call

/-- … and that list has no duplicates. -/
theorem C06_dynamic_nodup (cs : List Head) (ops : List Op) (call : Call) :
    (select (dynIndex cs ops) call).Nodup :=
  List.Pairwise.sublist (C06_dynamic_sublist cs ops call) (C06_inv_dyn cs ops).live_nodup

/-- **nothing dropped** — dynamic code: every live clause whose head could unify is handed over. -/
theorem C06_dynamic_complete (cs : List Head) (ops : List Op) (call : Call) (wf : CallWF call)
    (id : Nat) (hl : id ∈ (dynIndex cs ops).live)
    (hc : compatHead ((dynIndex cs ops).hd id) call = true) :
    id ∈ select (dynIndex cs ops) call :=
  (C06_inv_dyn cs ops).select_complete call wf id hl hc

/-- the live clauses of the indexed predicate ARE the reference database (identifiers, heads,
order), so the two theorems above speak about the right clause list. -/
theorem C06_dynamic_tracks (cs : List Head) (ops : List Op) :
    (dynIndex cs ops).liveClauses = (dynRef cs ops).clauses :=
  (tracks_foldl ops _ _ (inv_build true cs) (C06_tracks_build cs)).clauses

/-! ## walking a third-level line of a dynamic predicate (`DynamicIndexedChoice`) -/

/-- with the repaired `Machine::retry` (finding C06-1) backtracking through a third-level line
that still lists retracted clauses runs every living entry exactly once, in order. -/
theorem C06_walk_exact (alive : Nat → Bool) (line : List Nat) (fuel : Nat) (h : line.length ≤ fuel) :
    walk true alive line fuel = line.filter alive :=
  walk_fixed alive line fuel h

/-- **witness of finding C06-1**: `Machine::retry` as pinned (`biip += offset`) runs clause 1 twice
on the line `[3, 0†, 1, 2]` (clause 0 retracted) — the observed `findall(I, q(a,I), L)`,
`L = [3,1,1,2]`. -/
theorem C06_walk_pinned_duplicates :
    walk false (fun c => c != 0) [3, 0, 1, 2] 10 = [3, 1, 1, 2] ∧
    walk true (fun c => c != 0) [3, 0, 1, 2] 10 = [3, 1, 2] := by decide

/-! ## sensitivity to the keying of arena numbers (defect repaired by /repo 30079f6) -/

/-- **witness**: with the routing before the repair (`selectOld`: an arena integer of the call is
looked up in the constant table by ADDRESS) a clause with the same bignum value is dropped; the
current routing (`select`) hands it over. -/
theorem C06_old_routing_drops_bignum :
    let cs : List Head := [[.const (.big 1 (10^20)), .var], [.const (.atom "a"), .var]]
    let call : Call := [.arenaNum 2 (10^20) 1, .var]
    compatHead cs[0] call = true ∧ selectOld (build false cs) call = [] ∧
      select (build false cs) call = [0, 1] := by decide

/-! ## non-vacuity: the hypotheses are satisfiable and the index really discriminates -/

/-- a call with a fixnum, a bignum (arena) and a variable argument is well formed. -/
example : CallWF [.fix 3, .arenaNum 7 (10^20) 1, .var] := by
  intro a ha
  simp at ha
  rcases ha with rfl | rfl | rfl <;> simp [CallArg.WF, fitsFixnum, FIX_MIN, FIX_MAX]

/-- the index skips clauses (it is not the trivial "try everything" selection): five clauses,
call `p(a)`: only clauses 0, 2 (variable) and 4 are tried. -/
example : select (build false [[.const (.atom "a")], [.const (.fix 1)], [.var], [.list],
    [.const (.atom "a")]]) [.atom "a"] = [0, 2, 4] := by decide

/-- the history of finding C06-2 in the model: `assertz(p(a)), asserta(p(f(_))), assertz(p(f(_)))`,
call `p(f(_))`: clauses 1 and 2, in that order (the pinned implementation answers `[2]`). -/
example : select (dynIndex [] [.assertz [.const (.atom "a")], .asserta [.struct "f" 1],
    .assertz [.struct "f" 1]]) [.struct "f" 1] = [1, 2] := by decide

/-- a bignum clause whose value fits a fixnum is found by a fixnum call (alternative key). -/
example : select (build false [[.const (.big 9 5)], [.const (.atom "b")], [.const (.fix 6)]])
    [.fix 5] = [0] := by decide

end Scryer.Index
