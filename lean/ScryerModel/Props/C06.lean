import ScryerModel.Proofs.Index
namespace Scryer.Index
end Scryer.Index
