import ScryerModel.Proofs.Solve
/-!
# C07 — Compiled programs compute ISO SLD-resolution answers

Theorems about the reference interpreter `Scryer.Solve.solve` (Model/Solve.lean).
-/
namespace Scryer.Solve
open Scryer

/-- Fuel monotonicity: a run that is not out of fuel gives the same result with any larger fuel. -/
theorem C07_fuel_mono (prog : Prog) (n k : Nat) (g : Term) (s : St)
    (h : (solve n prog g s).oof = false) : solve (n + k) prog g s = solve n prog g s :=
  solve_mono prog k n g s h

/-- Determinism: a goal started in a state has at most one result (answers in order with their
multiplicity, cut flag, pending ball), whatever fuel was used to find it. -/
theorem C07_result_unique (prog : Prog) (g : Term) (s : St) (r1 r2 : Res)
    (h1 : Runs prog g s r1) (h2 : Runs prog g s r2) : r1 = r2 := by
  obtain ⟨n1, e1, o1⟩ := h1
  obtain ⟨n2, e2, o2⟩ := h2
  have a := solve_mono prog n2 n1 g s (by rw [e1]; exact o1)
  have b := solve_mono prog n1 n2 g s (by rw [e2]; exact o2)
  rw [Nat.add_comm] at b
  rw [← e1, ← e2, ← a, ← b]

end Scryer.Solve
