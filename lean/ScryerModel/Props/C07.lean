import ScryerModel.Proofs.SolveLaws
/-!
# C07 — Compiled programs compute ISO SLD-resolution answers

The reference semantics is the interpreter `Scryer.Solve.solve fuel prog goal state : Res`
(Model/Solve.lean): the answers in the order Prolog delivers them (with multiplicity), whether a
cut of the enclosing clause body was executed, and the uncaught ball raised after those answers.
The theorems below make it usable as an oracle (its result does not depend on the fuel) and state
the content of "standard depth-first, left-to-right resolution with cut" as laws: where a cut is
local, which constructs are definable from which, that failure and balls abort a conjunction, that
clauses are tried in textual order. `oof = false` everywhere means "the run finished within the
fuel"; a run that is out of fuel carries no information and is never compared.

The WAM code generator itself is not modelled: the implementation is tied to this reference by
the differential run of vlib/props/C07.py, which found three compiler defects that violate the
laws `C07_cut_in_condition_is_local`, `C07_conj_…`/head-argument sharing (see notes/findings).
-/
namespace Scryer.Solve
open Scryer

/-! ## The oracle is well defined -/

/-- Fuel monotonicity: a run that is not out of fuel gives the same result with any larger fuel. -/
theorem C07_fuel_mono (prog : Prog) (n k : Nat) (g : Term) (s : St)
    (h : (solve n prog g s).oof = false) : solve (n + k) prog g s = solve n prog g s :=
  solve_mono prog k n g s h

/-- Determinism: a goal started in a state has at most one result (answers in order with their
multiplicity, cut flag, pending ball), whatever fuel was used to find it. -/
theorem C07_result_unique (prog : Prog) (g : Term) (s : St) (r1 r2 : Res)
    (h1 : Runs prog g s r1) (h2 : Runs prog g s r2) : r1 = r2 := by
  obtain ⟨n1, e1, o1⟩ := h1
  obtain ⟨n2, e2, o2⟩ := h2
  have a := solve_mono prog n2 n1 g s (by rw [e1]; exact o1)
  have b := solve_mono prog n1 n2 g s (by rw [e2]; exact o2)
  rw [Nat.add_comm] at b
  rw [← e1, ← e2, ← a, ← b]

/-! ## Where a cut is local -/

/-- `call/N` is opaque to cut: whatever the goal does, the caller never sees a cut. -/
theorem C07_call_opaque_to_cut (prog : Prog) (n : Nat) (g : Term) (extra : List Term) (s : St)
    (h : extra.length ≤ 7) : (solve (n + 1) prog (.str "call" (g :: extra)) s).cut = false := by
  simp only [solve, step, classify, h, if_true]
  exact callGoal_cut ..

/-- A cut is local to the clause it occurs in: calling a predicate (user-defined or builtin)
never exports a cut to the caller's clause body. -/
theorem C07_cut_local_to_clause (prog : Prog) (n : Nat) (g : Term) (s : St) (name : String)
    (args : List Term) (h : classify g = .pred name args) : (solve (n + 1) prog g s).cut = false := by
  simp only [solve, step, h]
  split
  · rfl
  · rfl
  · rfl
  · exact raise_cut ..
  · exact userCall_cut ..

/-- `\+`, `catch/3`, `findall/3` and a variable goal are opaque to cut as well. -/
theorem C07_naf_catch_findall_opaque_to_cut (prog : Prog) (n : Nat) (s : St) (g c r t l : Term)
    (v : String) :
    (solve (n + 1) prog (.str "\\+" [g]) s).cut = false ∧
    (solve (n + 1) prog (.str "catch" [g, c, r]) s).cut = false ∧
    (solve (n + 1) prog (.str "findall" [t, g, l]) s).cut = false ∧
    (solve (n + 1) prog (.var v) s).cut = false := by
  refine ⟨?_, ?_, ?_, ?_⟩
  · simp only [solve, step, classify]; exact nafRes_cut ..
  · simp only [solve, step, classify]; exact catchRes_cut ..
  · simp only [solve, step, classify]; exact findallRes_cut ..
  · simp only [solve, step, classify]; exact callGoal_cut ..

/-- A cut in the condition of an if-then-else is local to the condition (ISO 7.8.8): the
if-then-else looks only at the condition's answers and ball, never at its cut flag. In particular
`( C, ! -> T ; E )` still runs `E` when `C` fails and does not remove the clause's alternatives.
(The pinned code generator violates this: finding C07-1.) -/
theorem C07_cut_in_condition_is_local (sols : List St) (c c' : Bool) (exc : Option (Term × Nat))
    (oof : Bool) (runT : St → Res) (runE : Unit → Res) :
    iteRes ⟨sols, c, exc, oof⟩ runT runE = iteRes ⟨sols, c', exc, oof⟩ runT runE := rfl

/-- … while a cut in the then or else branch is transparent: the if-then-else returns the
branch's result unchanged, cut flag included. -/
theorem C07_cut_in_branch_is_transparent (s1 : St) (rest : List St) (c : Bool)
    (exc : Option (Term × Nat)) (runT : St → Res) (runE : Unit → Res) :
    iteRes ⟨s1 :: rest, c, exc, false⟩ runT runE = runT s1 ∧
    iteRes ⟨[], c, .none, false⟩ runT runE = runE () := ⟨rfl, rfl⟩

/-! ## Definable constructs -/

/-- `(C -> T)` is `(C -> T ; fail)`. -/
theorem C07_ifthen_is_ite_fail (prog : Prog) (n : Nat) (c t : Term) (s : St) :
    solve (n + 2) prog (.str "->" [c, t]) s =
      solve (n + 2) prog (.str ";" [.str "->" [c, t], .atom "fail"]) s := by
  simp only [solve, step, classify]

/-- `\+ G` is `(call(G) -> fail ; true)`. -/
theorem C07_naf_is_ite (prog : Prog) (n : Nat) (g : Term) (s : St) :
    solve (n + 2) prog (.str "\\+" [g]) s =
      solve (n + 3) prog (.str ";" [.str "->" [.str "call" [g], .atom "fail"], .atom "true"]) s := by
  have e1 : solve (n + 2) prog (.str "call" [g]) s = callGoal (solve (n + 1) prog) (n + 1) s g [] := by
    simp [solve, step, classify]
  have e2 : solve (n + 2) prog (.atom "fail") = fun _ => Res.none := by
    funext s'; exact solve_fail ..
  conv => rhs; rw [solve]; simp only [step, classify]
  rw [e1, e2, solve_true]
  conv => lhs; rw [solve]; simp only [step, classify]
  exact nafRes_eq_iteRes ..

/-- `once(G)` is `(call(G) -> true ; fail)`. -/
theorem C07_once_is_ite (prog : Prog) (n : Nat) (g : Term) (s : St) :
    solve (n + 2) prog (.str "once" [g]) s =
      solve (n + 3) prog (.str ";" [.str "->" [.str "call" [g], .atom "true"], .atom "fail"]) s := by
  have e1 : solve (n + 2) prog (.str "call" [g]) s = callGoal (solve (n + 1) prog) (n + 1) s g [] := by
    simp [solve, step, classify]
  have e2 : solve (n + 2) prog (.atom "true") = Res.one := by
    funext s'; exact solve_true ..
  conv => rhs; rw [solve]; simp only [step, classify]
  rw [e1, e2, solve_fail]
  conv => lhs; rw [solve]; simp only [step, classify]

/-! ## Left-to-right, depth-first -/

/-- Failure and exceptions abort a conjunction: when the left goal has no answer (it failed, or
raised a ball before any answer), the right goal is never run and the ball, if any, propagates. -/
theorem C07_conj_left_without_answers (prog : Prog) (n : Nat) (a b : Term) (s : St)
    (h : (solve n prog a s).sols = []) (ho : (solve n prog a s).oof = false) :
    solve (n + 1) prog (.str "," [a, b]) s =
      ⟨[], (solve n prog a s).cut, (solve n prog a s).exc, false⟩ := by
  simp only [solve, step, classify]
  exact conjRes_nosols _ _ h ho

/-- Disjunction is left to right, and a ball (or a cut) in the left branch discards the right
branch. -/
theorem C07_disj_left_to_right (rA rB : Res) (hA : rA.oof = false) (hB : rB.oof = false) :
    disjRes rA (fun _ => rB) =
      (if rA.exc.isSome || rA.cut then rA else ⟨rA.sols ++ rB.sols, rB.cut, rB.exc, false⟩) := by
  simp [disjRes, hA, hB]

/-- Clauses are tried in textual order and every matching clause contributes: for a predicate
defined by facts, the answers are exactly the facts whose head unifies with the goal, in the
order of the program text, one answer per fact (`factAnswers`), no cut, no ball. -/
theorem C07_facts_in_clause_order (prog : Prog) (k : Nat) (goal : Term) (s : St) (cls : List Clause)
    (l : List St) (hb : ∀ cl ∈ cls, cl.body = .atom "true")
    (h : factAnswers (k + 1) goal s cls = some l) :
    clauseLoop (solve (k + 1) prog) (k + 1) goal s cls = ⟨l, false, .none, false⟩ :=
  clauseLoop_facts prog k (k + 1) goal s cls l hb h

/-- `catch/3` is transparent for a goal that raises nothing. -/
theorem C07_catch_without_ball (rec : Term → St → Res) (n : Nat) (s : St) (g c r : Term)
    (he : (callGoal rec n s g []).exc = .none) (ho : (callGoal rec n s g []).oof = false) :
    catchRes rec n s g c r = callGoal rec n s g [] := by
  unfold catchRes
  simp [he, ho]

/-! ## Non-vacuity: the laws talk about runs that exist -/

/-- three facts, the query `t(X)`: three answers in textual order, found with fuel 8. -/
example : ((solve 8 [⟨.str "t" [.int 1], .atom "true"⟩, ⟨.str "t" [.int 2], .atom "true"⟩,
      ⟨.str "t" [.int 3], .atom "true"⟩] (.str "t" [.var "X"]) ⟨[], 0⟩).sols.map
        (fun st => match lookup st.σ "X" with | some (.int v) => v | _ => 0))
    = [1, 2, 3] := by decide

/-- `( (!, fail) -> true ; true )` succeeds once (the cut in the condition is local) — the pinned
implementation fails here (finding C07-1). -/
example : (solve 6 [] (.str ";" [.str "->" [.str "," [.atom "!", .atom "fail"], .atom "true"],
      .atom "true"]) ⟨[], 0⟩).sols.length = 1 := by decide

/-- the hypotheses of `C07_conj_left_without_answers` are satisfiable with a ball. -/
example : (solve 3 [] (.str "throw" [.atom "b"]) ⟨[], 0⟩).sols = [] ∧
    (solve 3 [] (.str "throw" [.atom "b"]) ⟨[], 0⟩).exc.isSome = true := by decide

end Scryer.Solve
