import ScryerModel.Proofs.Stream
/-!
# C19 — Stream I/O round-trips and reports positions consistently

`Model/Stream.lean` mirrors the stream builtins of `system_calls.rs` / `streams.rs` on a stream
state `(content, cur = bytes consumed, past, lines, eof_action, type, direction, reposition)`:
`check_stream_properties` (direction and type permission errors, then the `eof_action` step when
the stream is past its end), the at-end tests of every builtin, `position_relative_to_end`,
`set_position`, `$get_n_chars`, `read/2` on `text.` units and the output builtins. The character
level is the specification of the buffered reader that C18 proves the real `CharReader` refines
(`Utf8.decodeFirst` on the unread bytes). The model is the REPAIRED behaviour for the four defects
found (notes/findings/C19-1..4); witnesses of the pinned behaviour are at the end.
All theorems are for every content, every state and every script; lemmas are in `Proofs/Stream`.
-/
namespace Scryer.Stream
open Scryer.Utf8

/-! ## T1 — peeking never consumes input -/

/-- `get_char`/`get_code` return exactly what `peek_char`/`peek_code` show, in every state (past
    the end under every eof_action, wrong direction or type included). -/
theorem C19_get_returns_what_peek_shows (s : St) : (textOp true s).2 = (textOp false s).2 :=
  textOp_result_eq s

/-- the same for `get_byte` / `peek_byte`. -/
theorem C19_get_byte_returns_what_peek_byte_shows (s : St) : (byteOp true s).2 = (byteOp false s).2 :=
  byteOp_result_eq s

/-- A peek leaves the whole stream state (cursor, line count, past flag) unchanged. The only
    exception is the `eof_action(reset)` step of a stream that is already past its end, which is
    the eof action and not the peek: then the state is the rewound stream. -/
theorem C19_peek_leaves_state (s : St) :
    ((s.past = false ∨ s.eofAction ≠ .reset) → (textOp false s).1 = s ∧ (byteOp false s).1 = s) ∧
    ((textOp false s).1 = s ∨ (textOp false s).1 = resetSt s) := by
  refine ⟨fun h => ⟨textOp_peek_state s h, byteOp_peek_state s h⟩, ?_⟩
  rcases textOp_peek_state_cases s with h | ⟨_, _, _, h⟩
  · exact Or.inl h
  · exact Or.inr h

/-- peek ; op ≡ op: a character read (or another peek) after a peek gives the same result and
    the same next state as without the peek — unconditionally. -/
theorem C19_peek_then_op (c : Bool) (s : St) : textOp c (textOp false s).1 = textOp c s :=
  textOp_peek_then c s

/-- the observers `at_end_of_stream/1`, `stream_property(S, end_of_stream(_))` and
    `stream_property(S, position(_))` never change the state. -/
theorem C19_observers_leave_state (s : St) :
    (step s .atEnd).1 = s ∧ (step s .endOfStream).1 = s ∧ (step s .position).1 = s :=
  ⟨rfl, rfl, rfl⟩

/-! ## T2 — at_end_of_stream agrees with the next read -/

/-- On a text input stream that is not yet past its end, `at_end_of_stream(S)` holds iff
    `peek_char` (hence, by T1, the next `get_char`) returns end_of_file. -/
theorem C19_at_end_iff_next_read_eof (s : St) (hc : check s .text true = none) (hp : s.past = false)
    (hi : Inv s) :
    atEnd s = true ↔ (textOp true s).2 = .ok .eof := by
  rw [C19_get_returns_what_peek_shows]
  exact atEnd_iff_peek_eof hc hp hi

/-! ## T3 — positions and line counts are functions of the consumed prefix -/

/-- A successful `get_char` advances the position by exactly the UTF-8 length of the character it
    returned, these bytes are the character's encoding, the line count grows by one iff the
    character is a newline, and nothing else changes. -/
theorem C19_get_char_advances (s s' : St) (cp : Nat) (h : textCore true s = (s', .ok (.char cp))) :
    s'.cur = s.cur + lenUtf8 cp ∧ (rest s).take (lenUtf8 cp) = encode cp ∧
      s'.lines = s.lines + nlCount cp ∧ s'.past = s.past ∧ s'.content = s.content ∧
      s.cur + lenUtf8 cp ≤ s.content.length :=
  textCore_get_char h

/-- HEADLINE (positions): for every content, every eof_action and every script of builtins other
    than `set_stream_position` on a freshly opened text input stream — any interleaving of
    get/peek char/code/byte, `get_n_chars`, `at_end_of_stream`, property queries, `read/2`, output
    attempts — the reported line count is the number of newlines in the consumed prefix
    `content.take position`, the position never exceeds the content, and the content and options
    are untouched. Character-wise, block-wise and term-wise consumption therefore report the same
    position and line count for the same consumed prefix. -/
theorem C19_position_and_lines_match_consumed (content : List Nat) (eof : EofAction) (repos : Bool)
    (ops : List Op) (hops : ∀ op ∈ ops, noReposition op = true) :
    let s := (run (openIn content .text eof repos) ops).2
    s.lines = countNl (s.content.take s.cur) ∧ s.cur ≤ s.content.length ∧ s.content = content := by
  have h := good_run ops (openIn content .text eof repos) (good_openIn _ _ _ _) rfl rfl hops
  exact ⟨h.1.2, h.1.1, h.2.1⟩

/-- what `stream_property(S, position(P))` reports is that state: `position_and_lines_read(cur, lines)`. -/
theorem C19_position_property (s : St) (h : s.output = false) :
    (step s .position).2 = .ok (.pos s.cur s.lines) := by
  show (if s.output then Res.fail else _) = _
  rw [h]; rfl

/-- The file mechanism: what `InputFileStream::position` computes from the file offset and the
    reader's buffer (`offset − rem_buf_len`) is the number of bytes consumed, whatever the buffer
    holds (retention, compaction, put-back: C18's `WF`), and a peek does not change it. -/
theorem C19_file_position_is_consumed (total : Nat) (r : CharReader.St) (h : CharReader.WF r)
    (ht : (CharReader.pending r).length ≤ total) :
    filePosition total r = total - (CharReader.pending r).length ∧
      filePosition total (CharReader.peekChar r).1 = filePosition total r := by
  have hp := CharReader.peekChar_spec h
  refine ⟨filePosition_eq h ht, ?_⟩
  rw [filePosition_eq hp.1 (by rw [hp.2.1]; exact ht), filePosition_eq h ht, hp.2.1]

/-! ## T4 — reading yields the decoding of the content; write-then-read round trip -/

/-- Reading a text stream whose unread bytes are the encoding of `cps` character by character
    yields exactly `cps`; afterwards the position is the end of the content and the line count has
    grown by the number of newlines among them. -/
theorem C19_read_chars_of_encoding (cps : List Nat) (s : St) (hs : ∀ c ∈ cps, isScalar c = true)
    (hc : check s .text true = none) (hp : s.past = false) (hle : s.cur ≤ s.content.length)
    (hr : rest s = encodeAll cps) :
    getChars cps.length s = (cps.map (fun c => Res.ok (.char c)),
      { s with cur := s.content.length, lines := s.lines + countNl cps }) :=
  getChars_encodeAll cps s hs hc hp hle hr

/-- HEADLINE (round trip, characters): characters written with `put_char` (`put_code`, `nl`,
    `write`, `format` reduce to it) to a fresh text file, closed and reopened, are read back
    identically by `get_char`, followed by end_of_file; then the stream is past its end. -/
theorem C19_write_read_roundtrip_chars (cps : List Nat) (hs : ∀ c ∈ cps, isScalar c = true)
    (eof : EofAction) (repos : Bool) :
    let w := (run (openOut .text) (cps.map Op.putChar)).2
    let r := getChars (cps.length + 1) (reopen w .text eof repos)
    r.1 = cps.map (fun c => Res.ok (.char c)) ++ [Res.ok .eof] ∧ r.2.past = true ∧
      r.2.cur = (encodeAll cps).length ∧ r.2.lines = countNl cps := by
  have hw := (run_putChars cps (openOut .text) rfl rfl).1
  have hcontent : ((run (openOut .text) (cps.map Op.putChar)).2).content = encodeAll cps := by
    rw [hw]; rfl
  simp only
  have hr := getChars_encodeAll cps (reopen (run (openOut .text) (cps.map Op.putChar)).2 .text eof repos) hs rfl rfl
    (Nat.zero_le _) (by unfold reopen openIn rest; simp [hcontent])
  rw [getChars_append_one, hr]
  have hlen : (reopen (run (openOut .text) (cps.map Op.putChar)).2 .text eof repos).content.length
      = (encodeAll cps).length := by unfold reopen openIn; simp [hcontent]
  refine ⟨?_, ?_, ?_, ?_⟩
  · simp [textOp, check, reopen, openIn, textCore]
  · simp [textOp, check, reopen, openIn, textCore]
  · simp [textOp, check, reopen, openIn, textCore, hcontent]
  · simp [textOp, check, reopen, openIn, textCore]

/-- HEADLINE (round trip, bytes): bytes written with `put_byte` to a fresh binary file are read
    back identically by `get_byte`. -/
theorem C19_write_read_roundtrip_bytes (bs : List Nat) (eof : EofAction) (repos : Bool) :
    let w := (run (openOut .binary) (bs.map Op.putByte)).2
    (getBytes bs.length (reopen w .binary eof repos)).1 = bs.map (fun b => Res.ok (.byte b)) := by
  have hw := (run_putBytes bs (openOut .binary) rfl rfl).1
  simp only
  rw [getBytes_all bs _ rfl rfl (by rw [hw]; unfold reopen openIn rest openOut; simp)]

/-! ## T5 — get_n_chars is n repeated get_char -/

/-- `get_n_chars(S, N, Cs)` on a text input stream (not past its end, eof_action other than
    reset, which would rewind) delivers exactly the characters that `N` calls of `get_char`
    deliver, and leaves the same position and line count. -/
theorem C19_get_n_chars_eq_repeated_get_char (n : Nat) (s : St) (hc : check s .text true = none)
    (hp : s.past = false) (hr : s.eofAction ≠ .reset) (hle : s.cur ≤ s.content.length) :
    (getNChars n s).2 = .ok (.chars (charsOf (getChars n s).1)) ∧
      (getNChars n s).1.cur = (getChars n s).2.cur ∧
      (getNChars n s).1.lines = (getChars n s).2.lines := by
  have ⟨ho, ht⟩ := check_text_none hc
  have h := takeChars_eq_getChars n s hc hp hr hle
  rw [getNChars_text n ho ht]
  exact ⟨by rw [h.1], h.2.1.symm, h.2.2.symm⟩

/-! ## T6 — reading past the end honours eof_action; the permission-error table -/

/-- Past the end of a text input stream: `eof_action(error)` raises
    `permission_error(input, past_end_of_stream, S)`, `eof_action(eof_code)` returns the
    end-of-file value again, `eof_action(reset)` rewinds the stream and reads on; in the first two
    cases the state does not change. The same for byte input. -/
theorem C19_past_end_honours_eof_action (c : Bool) (s : St) (hp : s.past = true) :
    (check s .text true = none →
      (s.eofAction = .error → textOp c s = (s, .error .inputPastEnd)) ∧
      (s.eofAction = .eofCode → textOp c s = (s, .ok .eof)) ∧
      (s.eofAction = .reset → textOp c s = textCore c (resetSt s))) ∧
    (check s .binary true = none →
      (s.eofAction = .error → byteOp c s = (s, .error .inputPastEnd)) ∧
      (s.eofAction = .eofCode → byteOp c s = (s, .ok .eof)) ∧
      (s.eofAction = .reset → byteOp c s = byteCore c (resetSt s))) :=
  ⟨fun hc => textOp_past c hc hp, fun hc => byteOp_past c hc hp⟩

/-- Reaching the end: the first read at the end returns end_of_file and makes the stream past its
    end; a peek there returns end_of_file and does not. -/
theorem C19_at_end_read (s : St) (hc : check s .text true = none) (hp : s.past = false)
    (he : s.cur = s.content.length) :
    textOp true s = ({ s with past := true }, .ok .eof) ∧ textOp false s = (s, .ok .eof) := by
  rw [textOp_of_none true hc hp, textOp_of_none false hc hp]
  unfold textCore
  simp [he]

/-- The permission-error table: character input from an output stream / from a binary stream,
    byte input from a text stream, output to an input stream / to a stream of the other type raise
    the corresponding permission error and leave the stream unchanged. -/
theorem C19_permission_errors (c : Bool) (s : St) :
    (s.output = true → textOp c s = (s, .error .inputStream) ∧ byteOp c s = (s, .error .inputStream)) ∧
    (s.output = false → s.ty = .binary → textOp c s = (s, .error .inputBinary)) ∧
    (s.output = false → s.ty = .text → byteOp c s = (s, .error .inputText)) ∧
    (s.output = false → ∀ cp b, step s (.putChar cp) = (s, .error .outputStream) ∧
        step s (.putByte b) = (s, .error .outputStream)) ∧
    (s.output = true → s.ty = .binary → ∀ cp, step s (.putChar cp) = (s, .error .outputBinary)) ∧
    (s.output = true → s.ty = .text → ∀ b, step s (.putByte b) = (s, .error .outputText)) := by
  refine ⟨fun h => ?_, fun h t => ?_, fun h t => ?_, fun h cp b => ?_, fun h t cp => ?_, fun h t b => ?_⟩
  · constructor <;> simp [textOp, byteOp, check, h]
  · simp [textOp, check, h, t]
  · simp [byteOp, check, h, t]
  · constructor <;> simp [step, putOp, check, h]
  · simp [step, putOp, check, h, t]
  · simp [step, putOp, check, h, t]

/-! ## non-vacuity and branch coverage -/

-- "hé€😀\r\nz": multi-byte characters, CRLF, no final newline; positions are byte offsets
example : (run (openIn [0x68, 0xC3, 0xA9, 0xE2, 0x82, 0xAC, 0xF0, 0x9F, 0x98, 0x80, 13, 10, 0x7A] .text .eofCode true)
    [.getChar, .getChar, .position, .peekChar, .getCode, .getChar, .position, .getNChars 2, .position,
     .atEnd, .getChar, .atEnd, .endOfStream, .getChar, .endOfStream, .getChar]).1
  = [.ok (.char 0x68), .ok (.char 0xE9), .ok (.pos 3 0), .ok (.char 0x20AC), .ok (.char 0x20AC),
     .ok (.char 0x1F600), .ok (.pos 10 0), .ok (.chars [13, 10]), .ok (.pos 12 1), .ok (.bool false),
     .ok (.char 0x7A), .ok (.bool true), .ok (.endpos .at), .ok .eof, .ok (.endpos .past), .ok .eof] := by
  decide
-- eof_action(error) and (reset) on the empty file
example : (run (openIn [] .text .error false) [.peekChar, .getChar, .peekChar, .getChar, .atEnd]).1
  = [.ok .eof, .ok .eof, .error .inputPastEnd, .error .inputPastEnd, .ok (.bool true)] := by decide
example : (run (openIn [0x61, 10] .text .reset false) [.getChar, .getChar, .position, .getChar, .position, .getChar, .position]).1
  = [.ok (.char 0x61), .ok (.char 10), .ok (.pos 2 1), .ok .eof, .ok (.pos 2 1), .ok (.char 0x61), .ok (.pos 1 0)] := by decide
-- term-wise and character-wise consumption of "a.\nbb.\n" report the same positions
example : (run (openIn [0x61, 0x2E, 10, 0x62, 0x62, 0x2E, 10] .text .eofCode false) [.readTerm, .position, .readTerm, .position, .readTerm]).1
  = [.ok (.term [0x61]), .ok (.pos 3 1), .ok (.term [0x62, 0x62]), .ok (.pos 7 2), .ok .eof] := by decide
example : (run (openIn [0x61, 0x2E, 10, 0x62, 0x62, 0x2E, 10] .text .eofCode false) [.getNChars 3, .position, .getNChars 4, .position]).1
  = [.ok (.chars [0x61, 0x2E, 10]), .ok (.pos 3 1), .ok (.chars [0x62, 0x62, 0x2E, 10]), .ok (.pos 7 2)] := by decide
-- set_stream_position: beyond the end makes the stream past its end; back inside clears it
example : (run (openIn [0x61, 0x62] .text .eofCode true) [.setPosition 5, .endOfStream, .getChar, .setPosition 1, .endOfStream, .getChar]).1
  = [.ok .unit, .ok (.endpos .past), .ok .eof, .ok .unit, .ok (.endpos .not), .ok (.char 0x62)] := by decide
-- a U+FEFF is an ordinary character for character I/O (repaired behaviour, finding C19-2)
example : (run (openIn [0xEF, 0xBB, 0xBF, 0x61] .text .eofCode false) [.peekChar, .getChar, .getChar]).1
  = [.ok (.char 0xFEFF), .ok (.char 0xFEFF), .ok (.char 0x61)] := by decide
-- binary streams: all byte values round-trip; type errors
example : (run (openIn [0, 0xFF, 10] .binary .eofCode false) [.peekByte, .getByte, .getByte, .getChar, .getByte, .getByte, .getByte]).1
  = [.ok (.byte 0), .ok (.byte 0), .ok (.byte 0xFF), .error .inputBinary, .ok (.byte 10), .ok .eof, .ok .eof] := by decide

/-! ## sensitivity: the pinned in-memory stream position (finding C19-3)

`Stream::position` of an in-memory stream at the pinned commit is the cursor of the underlying
`Cursor<Vec<u8>>` (`bytePositionOld`), without subtracting the reader's buffer. After the first
peek of "abc" the reader has fetched all three bytes: the pinned position is 3 (= the length, so
`position_relative_to_end` says `at` and `get_char` returns end_of_file) while nothing has been
consumed; `filePosition`, which `C19_file_position_is_consumed` is about, is 0. -/
example : bytePositionOld 3 (CharReader.peekChar (CharReader.init [[0x61, 0x62, 0x63]])).1 = 3 := by decide
example : filePosition 3 (CharReader.peekChar (CharReader.init [[0x61, 0x62, 0x63]])).1 = 0 := by decide

end Scryer.Stream
