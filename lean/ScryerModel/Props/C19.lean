import ScryerModel.Proofs.Stream
/-!
# C19 — Stream I/O round-trips and reports positions consistently
-/
namespace Scryer.Stream
open Scryer.Utf8

/-- `get_char` returns exactly what `peek_char` shows, in every state (past the end, for every
    eof_action, wrong direction or type included). -/
theorem C19_get_returns_what_peek_shows (s : St) : (textOp true s).2 = (textOp false s).2 :=
  textOp_result_eq s

end Scryer.Stream
