import ScryerModel.Proofs.CharStream
/-!
# C50 — In-memory reading and writing match stream reading and writing

The property's own oracle is the equality of the two routes on the implementation (checked by the
correspondence run on generated texts, terms and option lists). What is proved here is the part
that can differ between the routes *by construction*: the character source and the output sink.

* Reading. The reader is one function over an abstract character source (`scanSrc`: how much of
  the source a read consumes — up to the end token, skipping quoted items, `0'c`, comments).
  `C50_read_refines`: over ANY lawful source it computes what the list scanner computes on the
  characters the source still holds. Instances: the character list (`read_term_from_chars/3`),
  a positioned stream over fixed contents (file / memory stream), a stream with push-back.
  Consequences: reading from chars = opening a stream on the same chars and reading once
  (`C50_chars_eq_fresh_stream`); a read from a stream at position `p` = a read from the chars that
  remain (`C50_stream_read_eq_chars_of_rest`), so successive reads of a stream = reads from chars
  of the successive suffixes (`C50_next_read`); `put_back_char` is invisible
  (`C50_put_back`).
* Writing. `C50_write_to_chars_eq_fresh_stream`: the characters of `write_term_to_chars` are the
  contents of a fresh stream after `write_term`; `C50_write_appends`, `C50_write_hom`: writing is a
  monoid action (earlier contents are kept, fragment boundaries do not matter).
-/
namespace Scryer.CharStream
open List

/-- The generic reader over any lawful source = the list reader on the source's remaining
    characters (fuel: any bound above their number). -/
theorem C50_read_refines {σ : Type} (S : Source σ) (abs : σ → List Char) (h : Lawful S abs)
    (fuel : Nat) (m : Mode) (n : Nat) (s : σ) (hf : (abs s).length < fuel) :
    scanSrc S fuel m n s = scan m n (abs s) :=
  scanSrc_eq_scan h fuel m n s hf

/-- the three sources are lawful. -/
theorem C50_sources_lawful (contents : List Char) :
    Lawful listSource (fun s => s) ∧ Lawful (posSource contents) (fun p => contents.drop p) ∧
    Lawful (pbSource contents) (fun s => s.1 ++ contents.drop s.2) :=
  ⟨lawful_list, lawful_pos contents, lawful_pb contents⟩

/-- Reading from chars = opening a stream on the same chars and reading once. -/
theorem C50_chars_eq_fresh_stream (cs : List Char) (fuel : Nat) (hf : cs.length < fuel) :
    scanSrc listSource fuel startMode 0 cs = scanSrc (posSource cs) fuel startMode 0 0 := by
  rw [scanSrc_eq_scan lawful_list fuel _ _ cs hf,
    scanSrc_eq_scan (lawful_pos cs) fuel _ _ 0 (by simpa using hf)]
  simp

/-- A read from a stream positioned at `p` = `read_term_from_chars` on the characters from `p` on. -/
theorem C50_stream_read_eq_chars_of_rest (contents : List Char) (p fuel : Nat) (hf : contents.length < fuel) :
    scanSrc (posSource contents) fuel startMode 0 p = scanText (contents.drop p) := by
  rw [scanSrc_eq_scan (lawful_pos contents) fuel _ _ p (by simp; omega)]
  rfl

/-- After a read that consumed `n` characters at position `p`, the next read of the stream is the
    read from chars of the text without its first clause. -/
theorem C50_next_read (contents : List Char) (p n fuel : Nat) (hf : contents.length < fuel) :
    scanSrc (posSource contents) fuel startMode 0 (p + n) = scanText ((contents.drop p).drop n) := by
  rw [C50_stream_read_eq_chars_of_rest contents (p + n) fuel hf, drop_drop]

/-- Pushing a character back and reading = reading the text with that character in front. -/
theorem C50_put_back (contents : List Char) (c : Char) (s : List Char × Nat) (fuel : Nat) (m : Mode) (n : Nat)
    (hf : (s.1 ++ contents.drop s.2).length + 1 < fuel) :
    scanSrc (pbSource contents) fuel m n (putBack c s) = scan m n (c :: (s.1 ++ contents.drop s.2)) := by
  rw [scanSrc_eq_scan (lawful_pb contents) fuel m n (putBack c s) (by simpa [putBack] using hf)]
  rfl

/-- A read consumes at least nothing and at most what is there: the clause length is within the text. -/
theorem C50_done_within (cs : List Char) (k : Nat) (h : scanText cs = .done k) : k ≤ cs.length := by
  have := scan_done_bounds cs startMode 0 k h
  omega

/-- `write_term_to_chars` = contents of a fresh stream after `write_term`. -/
theorem C50_write_to_chars_eq_fresh_stream (frags : List (List Char)) : writeFrags frags [] = toChars frags := by
  rw [writeFrags_eq]; simp

/-- writing to a stream keeps what was written before and appends the same characters. -/
theorem C50_write_appends (frags : List (List Char)) (s : OutStream) : writeFrags frags s = s ++ toChars frags :=
  writeFrags_eq frags s

/-- fragment boundaries are irrelevant: writing `a` then `b` = writing `a ++ b`. -/
theorem C50_write_hom (a b : List (List Char)) (s : OutStream) :
    writeFrags (a ++ b) s = writeFrags b (writeFrags a s) := by
  simp [writeFrags, foldl_append]

/-! ## non-vacuity -/

example : scanText "foo(X, \"a.b\", 0'., 'it''s. '). % c. d\nbar.".toList = .done 30 := by decide
example : scanText ((("foo(X, \"a.b\", 0'., 'it''s. '). % c. d\nbar.".toList).drop 30)) = .done 12 := by decide
example : scanText "".toList = .eof ∧ scanText " % c".toList = .layoutOnly ∧ scanText "foo. 'abc".toList = .done 4 ∧
    scanText "'abc".toList = .incomplete := by decide
example : scanSrc (posSource "a. b.".toList) 10 startMode 0 2 = .done 3 := by decide
example : writeFrags ["f(".toList, "X".toList, ")".toList] "old ".toList = "old f(X)".toList := by decide

end Scryer.CharStream
