import ScryerModel.Proofs.Cwil
/-!
# C40 — Inference-limited execution is deterministic and faithful
(theorems are being added; see notes/design/C40.md)
-/
namespace Scryer.Cwil
open Scryer Scryer.Solve

/-- With a budget of zero the first inference of the goal is refused. -/
theorem C40_zero_budget (bind : String → St → Option St) (s0 : St) (es : List Ev) (fin : Fin) :
    limit bind s0 0 ⟨.tick :: es, fin⟩ = exceededRes bind s0 := by
  simp [limit, limitGo]

end Scryer.Cwil
