import ScryerModel.Proofs.Cwil
import ScryerModel.Proofs.CwilMech
/-!
# C40 — Inference-limited execution is deterministic and faithful

Model: `Scryer.Cwil` (Model/Cwil.lean).  The trace `⟨es, fin⟩` of `call(G)` lists the counted
inferences (`tick`), the inferences refused by a limit inside `G` (`probe`) and the solutions of
`G` in the order Prolog produces them; `limitGo bind s0 L es fin` is the trace of
`call_with_inference_limit(G, L, R)` (`bind a s` unifies `R` with the atom `a` in state `s`, `s0` is
the state at the call).  `passGo bind es fin` is `call(G)` with `R` added (`!` on a solution after
which the search is over, `true` otherwise).  `fires L es`: the limit fires, i.e. the goal attempts
an inference when `L` have been counted.  All statements are for every trace, hence for the traces
`run` computes for every program, goal and fuel.

The second part is about the counter itself: `mrun true` drives the literal mirror of `struct CWIL`
(machine_state.rs) through the operations the library performs (`enter L` = install a counter,
`tick` = `increment_call_count`, `leave` = remove the innermost counter; a firing limit unwinds to
its level and runs the (repaired) handler), `srun` is the specification: a stack of remaining
budgets, the outermost exhausted level fires.  `mrun false` is the handler of the pinned code
(finding C40-1).
-/
namespace Scryer.Cwil
open Scryer Scryer.Solve

variable (bind : String → St → Option St) (s0 : St)

/-! ## Faithfulness -/

/-- Below the limit nothing is lost or changed: if the goal needs fewer than `L` inferences the
limited run IS `call(G)` with `R` added: same solutions, same bindings, same order, same ball. -/
theorem C40_faithful_below_limit (L : Nat) (es : List Ev) (fin : Fin) (h : ticks es < L) :
    limitGo bind s0 L es fin = passGo bind es fin :=
  limitGo_of_not_fires bind s0 es L fin (fires_of_lt es L h)

/-- More generally: whenever the limit does not fire the limited run is `call(G)` with `R`. -/
theorem C40_faithful_if_not_exceeded (L : Nat) (es : List Ev) (fin : Fin) (h : fires L es = false) :
    limitGo bind s0 L es fin = passGo bind es fin :=
  limitGo_of_not_fires bind s0 es L fin h

/-- If the limit fires, what was delivered before is exactly the consumed part of the goal's run
with `R = true` on every solution, then `R = inference_limit_exceeded` once (bindings of the goal
undone: state `s0`), and nothing is left to retry (`done`, no ball). -/
theorem C40_exceeded_shape (L : Nat) (es : List Ev) (fin : Fin) (h : fires L es = true) :
    limitGo bind s0 L es fin = ⟨annotTrue bind (passed L es) ++ (exceededRes bind s0).evs, .done⟩ :=
  limitGo_of_fires bind s0 es L fin h

/-! ## The limit is tight -/

/-- For a goal that contains no inner limit: `inference_limit_exceeded` iff the goal needs more
than `L` inferences (all solutions share the budget). -/
theorem C40_tight (L : Nat) (es : List Ev) (h : hasProbe es = false) :
    fires L es = true ↔ L < ticks es :=
  fires_iff_ticks es L h

/-- When the limit fires exactly `L` inferences were counted. -/
theorem C40_budget_used_when_exceeded (L : Nat) (es : List Ev) (h : fires L es = true) :
    ticks (passed L es) = L :=
  ticks_passed_of_fires es L h

/-! ## Monotonicity in L -/

/-- `inference_limit_exceeded` at `L'` implies it at every `L ≤ L'`. -/
theorem C40_exceeded_downward (L L' : Nat) (es : List Ev) (hl : L ≤ L') (h : fires L' es = true) :
    fires L es = true :=
  fires_mono es L L' hl h

/-- Once the limit does not fire the result is the same for every larger limit. -/
theorem C40_stable_above (L L' : Nat) (es : List Ev) (fin : Fin) (hl : L ≤ L')
    (h : fires L es = false) : limitGo bind s0 L' es fin = limitGo bind s0 L es fin := by
  have h' : fires L' es = false := by
    cases hf : fires L' es with
    | false => rfl
    | true => rw [fires_mono es L L' hl hf] at h; exact absurd h (by simp)
  rw [limitGo_of_not_fires bind s0 es L fin h, limitGo_of_not_fires bind s0 es L' fin h']

/-- What is delivered under `L` before `inference_limit_exceeded` is delivered, identically and
in the same order, as a prefix under every `L' ≥ L`. -/
theorem C40_monotone_prefix (L L' : Nat) (es : List Ev) (fin : Fin) (hl : L ≤ L')
    (h : fires L es = true) :
    (limitGo bind s0 L es fin).evs = annotTrue bind (passed L es) ++ (exceededRes bind s0).evs ∧
    ∃ t, (limitGo bind s0 L' es fin).evs = annotTrue bind (passed L es) ++ t := by
  refine ⟨by rw [limitGo_of_fires bind s0 es L fin h], ?_⟩
  cases hf : fires L' es with
  | true =>
    rw [limitGo_of_fires bind s0 es L' fin hf]
    obtain ⟨t, ht⟩ := passed_prefix es L L' hl
    exact ⟨annotTrue bind t ++ (exceededRes bind s0).evs, by simp [ht, annotTrue_append]⟩
  | false =>
    rw [limitGo_of_not_fires bind s0 es L' fin hf]
    exact passGo_prefix_of_fires bind es L fin h

/-! ## Nested limits -/

/-- An enclosing counter sees exactly the inferences the inner call consumed: all of the goal's if
the inner limit did not fire, exactly `L` if it did (the refused inference is not counted). -/
theorem C40_outer_count (L : Nat) (es : List Ev) (fin : Fin) :
    ticks (limitGo bind s0 L es fin).evs = if fires L es = true then L else ticks es := by
  cases h : fires L es with
  | true =>
    rw [limitGo_of_fires bind s0 es L fin h]
    simp [ticks_append, ticks_annotTrue, ticks_exceeded, ticks_passed_of_fires es L h]
  | false =>
    rw [limitGo_of_not_fires bind s0 es L fin h]
    simp [ticks_passGo]

/-- The inner call never costs the outer counter more than its own limit. -/
theorem C40_outer_count_le (L : Nat) (es : List Ev) (fin : Fin) :
    ticks (limitGo bind s0 L es fin).evs ≤ L ∧ ticks (limitGo bind s0 L es fin).evs ≤ ticks es := by
  rw [C40_outer_count]
  cases h : fires L es with
  | true =>
    have := ticks_passed_of_fires es L h
    have h2 : ticks (passed L es) ≤ ticks es := by
      obtain ⟨t, ht⟩ := passed_prefix es L (ticks es + 1) (by
        cases hh : decide (L ≤ ticks es + 1) with
        | true => exact of_decide_eq_true hh
        | false =>
          have : ticks es < L := by have := of_decide_eq_false hh; omega
          rw [fires_of_lt es L this] at h; exact absurd h (by simp))
      rw [passed_of_not_fires es _ (fires_of_lt es _ (Nat.lt_succ_self _))] at ht
      have := congrArg ticks ht
      rw [ticks_append] at this
      omega
    simp; omega
  | false =>
    simp
    cases hl : decide (ticks es ≤ L) with
    | true => exact of_decide_eq_true hl
    | false =>
      have := of_decide_eq_false hl
      cases es with
      | nil => simp at this
      | cons e es' => exact absurd h (by
          -- more ticks than the budget and no firing is impossible only without probes;
          -- with probes the budget can also be hit early, never late
          have hc : ∀ (es : List Ev) (b : Nat), fires b es = false → ticks es ≤ b := by
            intro es
            induction es with
            | nil => intro b _; simp
            | cons e es ih =>
              intro b hb
              cases e with
              | tick =>
                cases b with
                | zero => simp [fires] at hb
                | succ b => simp only [fires] at hb; have := ih b hb; simp; omega
              | probe =>
                cases b with
                | zero => simp [fires] at hb
                | succ b => simp only [fires] at hb; simpa using ih (b+1) hb
              | ans s => simp only [fires] at hb; simpa using ih b hb
          have := hc _ L h
          omega)

/-- Two nested limits around a goal without further limits: the outer limit fires iff it is at
least as tight as the inner one (a tie goes to the outer limit, as `CWIL::add_limit` does not push
a limit that is not strictly tighter) and the goal needs more: the effective limit is the minimum. -/
theorem C40_nested_effective_limit (Lo Li : Nat) (es : List Ev) (fin : Fin) (h : hasProbe es = false) :
    fires Lo (limitGo bind s0 Li es fin).evs = (decide (Lo ≤ Li) && fires Lo es) :=
  fires_nested bind s0 es Lo Li fin h

/-! ## The instrumented interpreter uses `limit` for the construct -/

/-- The trace of `call_with_inference_limit(G, L, R)` (called without counting its own call) is
`limit` applied to the trace of `G`; the inner run never needs more than `L + 1` inferences. -/
theorem C40_run_unfold (prog : Prog) (n : Nat) (g1 l r g' : Term) (s : St) (b lim : Nat)
    (hl : checkLimit n s.σ l = .ok lim) (hg : metaGoal n s.σ g1 = some g') :
    run (n + 1) prog (.str "call_with_inference_limit" [g1, l, r]) s false b =
      limit (bindWith n r) s lim (run n prog g' s true (if lim < b then lim + 1 else b)) := by
  simp [run, step, withTick, hl, hg]

/-- A negative limit is a domain error, an unbound one an instantiation error, anything else that
is not an integer a type error (checked before the goal is run). -/
theorem C40_limit_argument_errors (n : Nat) (σ : Subst) (l : Term) (v : Int) (hv : v < 0)
    (h : walk n σ l = some (.int v)) :
    checkLimit n σ l = .err (domErr "not_less_than_zero" (.int v)) := by
  simp [checkLimit, h, hv]

/-! ## The counter mechanism -/

/-- The `CWIL` mirror (absolute limits on one shared local count, a limit pushed only if strictly
tighter than the enclosing one, removal by block, repaired handler) behaves on EVERY sequence of
operations exactly like a stack of independent remaining budgets in which the outermost exhausted
level fires — whatever the local and global counts were before. -/
theorem C40_mechanism_meets_spec (ops : List Op) (lc gc : Nat) :
    mrun true ⟨⟨lc, gc, [], false⟩, 0⟩ ops = srun [] ops :=
  run_sim ops _ _ (inv_init lc gc)

/-- Determinism / independence of the machine state: which limit fires at which inference does not
depend on the values of the inference counters before the call. -/
theorem C40_initial_counts_irrelevant (ops : List Op) (lc gc : Nat) :
    mrun true ⟨⟨lc, gc, [], false⟩, 0⟩ ops = mrun true ⟨CWIL.new, 0⟩ ops := by
  rw [C40_mechanism_meets_spec, CWIL.new, C40_mechanism_meets_spec]

/-- Counter stack invariant: after any sequence of operations the limit stack is the one determined
by the active levels (only strict prefix minima are pushed), the flag is clear, and when every
level has been left (normally, by a ball, or after its limit fired) the stack is empty again. -/
theorem C40_counter_stack_restored (ops : List Op) (lc gc : Nat)
    (h : sfinal [] ops = []) :
    (mfinal true ⟨⟨lc, gc, [], false⟩, 0⟩ ops).c.limits = [] ∧
    (mfinal true ⟨⟨lc, gc, [], false⟩, 0⟩ ops).depth = 0 ∧
    (mfinal true ⟨⟨lc, gc, [], false⟩, 0⟩ ops).c.exceeded = false := by
  have i := final_inv ops _ _ (inv_init lc gc)
  rw [h] at i
  exact ⟨by rw [i.lims]; rfl, by rw [i.depth]; rfl, i.flag⟩

/-- The pinned handler (flag only cleared by `reset`, i.e. when no limit is left) violates the
specification: after an inner limit (1) has fired inside an outer limit (5) the outer limit is
never enforced (finding C40-1); the repaired handler fires it. -/
theorem C40_pinned_handler_violates :
    let ops := [Op.enter 5, .enter 1, .tick, .tick, .tick, .tick, .tick, .tick, .tick]
    srun [] ops = [none, none, none, some 2, none, none, none, none, some 1] ∧
    mrun true ⟨CWIL.new, 0⟩ ops = [none, none, none, some 2, none, none, none, none, some 1] ∧
    mrun false ⟨CWIL.new, 0⟩ ops = [none, none, none, some 2, none, none, none, none, none] := by
  decide

/-! ## Non-vacuity -/

def exS : St := ⟨[], 0⟩
def exBind : String → St → Option St := fun a s => some ⟨("R", .atom a) :: s.σ, s.ctr⟩
def exEs : List Ev := [.tick, .ans exS, .tick, .ans exS]
def exR (s : St) : String := match lookup s.σ "R" with | some (.atom a) => a | _ => "?"

/-- a goal with two solutions needing 1 + 1 inferences; limit 1: first solution with `true`, then
exceeded; limit 2: both solutions, `true` then `!`. -/
example : fires 1 exEs = true ∧ fires 2 exEs = false ∧
    (answers (limitGo exBind exS 1 exEs .done).evs).map exR = ["true", "inference_limit_exceeded"] ∧
    (answers (limitGo exBind exS 2 exEs .done).evs).map exR = ["true", "!"] := by
  decide

/-- tie of an inner and an outer limit: the outer one fires. -/
example : fires 3 (limitGo (fun _ s => some s) ⟨[], 0⟩ 3 [.tick, .tick, .tick, .tick] .done).evs = true := by
  decide

end Scryer.Cwil
