import ScryerModel.Proofs.Order
import ScryerModel.Proofs.Sort
import ScryerModel.Proofs.OrdSet
import ScryerModel.Proofs.Assoc
import ScryerModel.Model.ListLib
/-
C14 — Sorting builtins and collection libraries match their models.

The theorems are stated for an arbitrary three-way comparison `cmp` that is a total preorder
(`IsPreorder`: sort/2, keysort/2) or a total order (`IsLinear`: ordsets, where "the same set" is
meant literally). `C14_standard_order_is_preorder` / `C14_standard_order_is_linear` instantiate
them with the standard order of terms (C13). What is proved about which code:

* sort/2, keysort/2 — the SPECIFICATION (Model/Sort.lean) and its uniqueness: the Rust library
  sorts are not mirrored; any algorithm meeting the spec returns exactly this list.
* library(ordsets), library(assoc) put/get — clause-by-clause TRANSCRIPTIONS (Model/OrdSet.lean,
  Model/Assoc.lean) proved equal to the set / finite-map operations.
* library(lists)/(pairs) — functional versions with their defining laws.
-/
namespace Scryer.C14
open Scryer Scryer.Order Scryer.Sort

variable {α : Type} {cmp : α → α → Ordering}

/-! ## the standard order of terms is an instance -/

/-- terms whose rationals have positive denominators (the well-formedness invariant of the
    shared term model). -/
def NTerm := {t : Term // DenPos t}

/-- the standard order on well-formed terms. -/
def ncmp (age : String → Nat) (a b : NTerm) : Ordering := termCompare age a.1 b.1

/-- the standard order of terms is a total preorder (C13), so every `IsPreorder` theorem below
    holds for sort/2 and keysort/2 on terms. -/
theorem C14_standard_order_is_preorder (age : String → Nat) : IsPreorder (ncmp age) where
  refl a := termCompare_refl age a.1
  swap a b := termCompare_swap age a.1 b.1
  le_trans a b c h1 h2 := by
    have t := termCompare_tri age a.1 b.1 c.1 a.2 b.2 c.2
    unfold ncmp at *
    cases hab : termCompare age a.1 b.1
    · cases hbc : termCompare age b.1 c.1
      · rw [t.lt_lt hab hbc]; simp
      · rw [← t.eq_r hbc, hab]; simp
      · exact absurd hbc h2
    · rw [t.eq_l hab]; exact h2
    · exact absurd hab h1

/-- normal terms (no `-0.0`/NaN variants, rationals in lowest terms, C13 `Normal`) with distinct
    variables of distinct age. -/
def NormTerm := {t : Term // DenPos t ∧ Normal t}

def nncmp (age : String → Nat) (a b : NormTerm) : Ordering := termCompare age a.1 b.1

/-- on normal terms the standard order is a total ORDER: `==` is identity (C13
    `termCompare_eq_iff`), so the ordset / assoc-key theorems apply literally. -/
theorem C14_standard_order_is_linear (age : String → Nat) (hage : Function.Injective age) :
    IsLinear (nncmp age) where
  refl a := termCompare_refl age a.1
  swap a b := termCompare_swap age a.1 b.1
  le_trans a b c h1 h2 :=
    (C14_standard_order_is_preorder age).le_trans ⟨a.1, a.2.1⟩ ⟨b.1, b.2.1⟩ ⟨c.1, c.2.1⟩ h1 h2
  eq_imp a b e := Subtype.ext ((termCompare_eq_iff age hage a.1 b.1 a.2.2 b.2.2).1 e)

/-! ## sort/2 -/

/-- sort/2 returns a strictly ascending list (hence without `==` duplicates), every element of
    which is an element of the input, and every input element is `==` to one of the result. -/
theorem C14_sort_spec (h : IsPreorder cmp) (xs : List α) :
    StrictSorted cmp (sortDedup cmp xs) ∧ (∀ y ∈ sortDedup cmp xs, y ∈ xs) ∧
      ∀ x ∈ xs, ∃ y ∈ sortDedup cmp xs, cmp y x = .eq :=
  sortDedup_spec h xs

/-- uniqueness: two strictly ascending lists that represent the same `==` classes have the same
    length and agree position by position up to `==`. So the result of ANY correct sort/2
    algorithm (in particular Rust's unstable sort followed by `dedup_by`) is this list up to `==`. -/
theorem C14_sort_unique (h : IsPreorder cmp) (a b : List α) (sa : StrictSorted cmp a)
    (sb : StrictSorted cmp b) (hab : ∀ x ∈ a, ∃ y ∈ b, cmp x y = .eq)
    (hba : ∀ y ∈ b, ∃ x ∈ a, cmp x y = .eq) :
    Pointwise (fun x y => cmp x y = .eq) a b ∧ a.length = b.length :=
  ⟨strict_unique h a b sa sb hab hba, (strict_unique h a b sa sb hab hba).length_eq⟩

/-- characterisation for a total order: sort/2 returns THE strictly ascending list with the same
    set of elements as the input. -/
theorem C14_sort_characterisation (h : IsLinear cmp) (xs ys : List α) :
    ys = sortDedup cmp xs ↔ StrictSorted cmp ys ∧ ∀ x, x ∈ ys ↔ x ∈ xs :=
  sortDedup_iff h xs ys

/-- sorting a strictly ascending list changes nothing; sort/2 is idempotent. -/
theorem C14_sort_idempotent (h : IsPreorder cmp) (xs : List α) :
    sortDedup cmp (sortDedup cmp xs) = sortDedup cmp xs ∧
      (StrictSorted cmp xs → sortDedup cmp xs = xs) :=
  ⟨sortDedup_idem h xs, sortDedup_of_strict h xs⟩

/-- the result depends only on the SET of input elements (order and multiplicity are irrelevant). -/
theorem C14_sort_set_invariant (h : IsLinear cmp) (xs ys : List α) (hm : ∀ x, x ∈ xs ↔ x ∈ ys) :
    sortDedup cmp xs = sortDedup cmp ys :=
  (sortDedup_iff h ys _).2 ⟨(sortDedup_spec h.toIsPreorder xs).1,
    fun x => by rw [mem_sortDedup h, hm]⟩

/-- sort/2 never lengthens. -/
theorem C14_sort_length_le (h : IsPreorder cmp) (xs : List α) :
    (sortDedup cmp xs).length ≤ xs.length := by
  unfold sortDedup
  have hp := (msort_perm h xs).length_eq
  have : ∀ l : List α, (dedupAdj cmp l).length ≤ l.length := by
    intro l
    cases l with
    | nil => simp [dedupAdj]
    | cons x r =>
      have : ∀ (p : α) (r : List α), (dedupFrom cmp p r).length ≤ r.length := by
        intro p r
        induction r generalizing p with
        | nil => simp [dedupFrom]
        | cons y r ih =>
          simp only [dedupFrom]
          split
          · exact Nat.le_succ_of_le (ih p)
          · simp only [List.length_cons]; exact Nat.succ_le_succ (ih y)
      simp only [dedupAdj, List.length_cons]
      exact Nat.succ_le_succ (this x r)
  exact hp ▸ this _

/-! ## keysort/2 (a stable sort) -/

/-- the comparison of pairs by their keys is a total preorder when the key order is one. -/
theorem C14_keyCmp_preorder {κ : Type} {kcmp : κ → κ → Ordering} (h : IsPreorder kcmp) :
    IsPreorder (fun (a b : κ × α) => kcmp a.1 b.1) where
  refl a := h.refl a.1
  swap a b := h.swap a.1 b.1
  le_trans a b c := h.le_trans a.1 b.1 c.1

/-- keysort/2: the result is a permutation of the input, non-decreasing by key, and stable: the
    pairs with keys `==` to any given key appear in their input order. -/
theorem C14_keysort_spec {κ : Type} {kcmp : κ → κ → Ordering} (h : IsPreorder kcmp)
    (xs : List (κ × α)) :
    (keysortBy kcmp xs).Perm xs ∧
      Sorted (fun (a b : κ × α) => kcmp a.1 b.1) (keysortBy kcmp xs) ∧
      ∀ k : κ × α, cls (fun (a b : κ × α) => kcmp a.1 b.1) k (keysortBy kcmp xs) =
        cls (fun (a b : κ × α) => kcmp a.1 b.1) k xs := by
  have hk := C14_keyCmp_preorder (α := α) h
  unfold keysortBy
  rw [msort_eq_isort hk]
  exact ⟨isort_perm xs, isort_sorted hk xs, fun k => cls_isort hk k xs⟩

/-- uniqueness of the stable sort: a list that is non-decreasing by key and keeps every class of
    equal-key pairs in input order IS the keysort result. (So Rust's `sort_by`, being a stable
    sort, returns this list.) -/
theorem C14_keysort_characterisation {κ : Type} {kcmp : κ → κ → Ordering} (h : IsPreorder kcmp)
    (xs ys : List (κ × α)) :
    ys = keysortBy kcmp xs ↔
      Sorted (fun (a b : κ × α) => kcmp a.1 b.1) ys ∧
      ∀ k : κ × α, cls (fun (a b : κ × α) => kcmp a.1 b.1) k ys =
        cls (fun (a b : κ × α) => kcmp a.1 b.1) k xs := by
  have hk := C14_keyCmp_preorder (α := α) h
  unfold keysortBy
  rw [msort_eq_isort hk]
  exact isort_iff hk xs ys

/-- keysort/2 is idempotent, and leaves a list that is already sorted by key unchanged. -/
theorem C14_keysort_idempotent {κ : Type} {kcmp : κ → κ → Ordering} (h : IsPreorder kcmp)
    (xs : List (κ × α)) :
    keysortBy kcmp (keysortBy kcmp xs) = keysortBy kcmp xs ∧
      (Sorted (fun (a b : κ × α) => kcmp a.1 b.1) xs → keysortBy kcmp xs = xs) := by
  have hk := C14_keyCmp_preorder (α := α) h
  unfold keysortBy
  simp only [msort_eq_isort hk]
  exact ⟨isort_idem hk xs, fun s => isort_of_sorted hk s⟩

/-- the bottom-up merge sort the model driver runs is the stable sort defined by insertion. -/
theorem C14_merge_sort_is_stable_sort (h : IsPreorder cmp) (xs : List α) :
    msort cmp xs = isort cmp xs :=
  msort_eq_isort h xs

/-! ## error cases of the builtins (ISO 8.4.3.3, 8.4.4.3), on terms -/

/-- helper: the fuel `termSize` is enough to walk a list prefix. -/
theorem C14_aux_termSize_ofList (xs : List Term) (tl : Term) :
    xs.length < termSize (Term.ofList xs tl) := by
  induction xs with
  | nil => cases tl <;> simp [Term.ofList, termSize]
  | cons x xs ih =>
    simp only [Term.ofList, List.foldr_cons, Term.cons, termSize, termSize.sizeArgs,
      List.length_cons] at ih ⊢
    omega

/-- not a list cell. -/
def NotCons (t : Term) : Prop := ∀ h u, t ≠ .str "." [h, u]

/-- helper: `viewList` stops at a term that is not a list cell. -/
theorem C14_aux_viewList_notCons (tl : Term) (hn : NotCons tl) (fuel : Nat) :
    viewList fuel tl = ([], tl) := by
  cases fuel with
  | zero => rfl
  | succ f =>
    unfold viewList
    split
    all_goals first | rfl | exact absurd rfl (hn _ _)

/-- helper: `viewList` splits `[x1,…,xn|tl]` into its elements and `tl`. -/
theorem C14_aux_viewList_ofList (xs : List Term) (tl : Term) (hn : NotCons tl) :
    ∀ fuel, xs.length < fuel → viewList fuel (Term.ofList xs tl) = (xs, tl) := by
  induction xs with
  | nil =>
    intro fuel _
    simp only [Term.ofList, List.foldr_nil]
    exact C14_aux_viewList_notCons tl hn fuel
  | cons x xs ih =>
    intro fuel hf
    cases fuel with
    | zero => omega
    | succ f =>
      have := ih f (by simpa using hf)
      simp only [Term.ofList, List.foldr_cons, Term.cons] at this ⊢
      simp [viewList, this]

/-- helper: `view` (generous fuel) splits `[x1,…,xn|tl]` into its elements and `tl`. -/
theorem C14_aux_view_ofList (xs : List Term) (tl : Term) (hn : NotCons tl) :
    view (Term.ofList xs tl) = (xs, tl) :=
  C14_aux_viewList_ofList xs tl hn _ (C14_aux_termSize_ofList xs tl)

/-- sort/2 on a proper list and a variable second argument never raises: it returns the sort.
    (Finding C14-1: the pinned implementation raises `type_error(list, L)` for proper lists such
    as `[c,1]` whose first cells are stored as a partial string.) -/
theorem C14_sort_total_on_lists (c : Term → Term → Ordering) (xs : List Term) (v : String) :
    sortCall c (Term.ofList xs) (.var v) = .unifyWith (Term.ofList (sortDedup c xs)) := by
  have h1 := C14_aux_view_ofList xs (.atom "[]") (by intro h u; simp)
  have h2 : view (.var v) = ([], .var v) := by simp [view, viewList, termSize]
  simp only [sortCall, Term.nil, h1, h2]

/-- sort/2 errors: a partial list is an instantiation error, a list prefix ending in anything
    else a `type_error(list, L)` with the whole first argument as culprit. -/
theorem C14_sort_error_cases (c : Term → Term → Ordering) (xs : List Term) (s : Term) :
    (∀ v, sortCall c (Term.ofList xs (.var v)) s = .instErr) ∧
    (∀ tl, NotCons tl → (∀ v, tl ≠ .var v) → tl ≠ Term.nil →
      sortCall c (Term.ofList xs tl) s = .typeErr "list" (Term.ofList xs tl)) := by
  refine ⟨fun v => ?_, fun tl hn hv hnil => ?_⟩
  · have h1 := C14_aux_view_ofList xs (.var v) (by intro h u; simp)
    simp only [sortCall, h1]
  · have h1 := C14_aux_view_ofList xs tl hn
    simp only [sortCall, h1]
    split
    · rename_i e; simp at e; exact absurd e.2 (hv _)
    · rename_i e; simp at e; exact absurd e.2 hnil
    · rfl

/-- keysort/2 on a proper list of `K-V` pairs (and a variable second argument) never raises and
    returns the list sorted by key. -/
theorem C14_keysort_total_on_pair_lists (c : Term → Term → Ordering) (xs : List Term) (v : String)
    (hp : ∀ e ∈ xs, ∃ k w, e = .str "-" [k, w]) :
    keysortCall c (Term.ofList xs) (.var v) =
      .unifyWith (Term.ofList ((keysortBy c (keyed xs)).map (·.2))) := by
  have h3 : pairsError? xs = none := by
    induction xs with
    | nil => rfl
    | cons e r ih =>
      obtain ⟨k, w, rfl⟩ := hp _ List.mem_cons_self
      simp only [pairsError?, pairKey?]
      exact ih fun e he => hp e (List.mem_cons_of_mem _ he)
  have h1 := C14_aux_view_ofList xs (.atom "[]") (by intro h u; simp)
  have h2 : view (.var v) = ([], .var v) := by simp [view, viewList, termSize]
  simp only [keysortCall, Term.nil, h1, h2, sortedError?, h3]

/-- keysort/2 element errors (ISO 8.4.4.3 d, e): the first offending element decides; a variable
    gives an instantiation error, a non-pair `type_error(pair, E)` with the ELEMENT as culprit
    (finding C14-2: the pinned implementation reports a dangling functor cell / the list cell). -/
theorem C14_keysort_error_cases (good : List Term) (bad : Term) (rest : List Term)
    (hg : ∀ e ∈ good, ∃ k w, e = .str "-" [k, w]) :
    (∀ v, pairsError? (good ++ .var v :: rest) = some .instErr) ∧
    (pairKey? bad = none → (∀ v, bad ≠ .var v) →
      pairsError? (good ++ bad :: rest) = some (.typeErr "pair" bad)) := by
  induction good with
  | nil =>
    refine ⟨fun v => rfl, fun hk hv => ?_⟩
    cases bad <;> simp_all [pairsError?]
  | cons e r ih =>
    obtain ⟨k, w, rfl⟩ := hg _ List.mem_cons_self
    have := ih fun e he => hg e (List.mem_cons_of_mem _ he)
    exact ⟨fun v => by simpa [pairsError?, pairKey?] using this.1 v,
      fun hk hv => by simpa [pairsError?, pairKey?] using this.2 hk hv⟩

/-! ## library(ordsets): the transcriptions compute the set operations -/

open Scryer.OrdSet in
/-- `ord_union/3`, `ord_intersection/3`, `ord_subtract/3`, `ord_symdiff/3` on strictly ascending
    lists: the result is strictly ascending and has exactly the elements of the set operation. -/
theorem C14_ordset_binary (h : IsLinear cmp) (a b : List α) (sa : StrictSorted cmp a)
    (sb : StrictSorted cmp b) :
    (StrictSorted cmp (ordUnion cmp a b) ∧ ∀ x, x ∈ ordUnion cmp a b ↔ x ∈ a ∨ x ∈ b) ∧
    (StrictSorted cmp (ordInt cmp a b) ∧ ∀ x, x ∈ ordInt cmp a b ↔ x ∈ a ∧ x ∈ b) ∧
    (StrictSorted cmp (ordSubtract cmp a b) ∧ ∀ x, x ∈ ordSubtract cmp a b ↔ x ∈ a ∧ x ∉ b) ∧
    (StrictSorted cmp (ordSymdiff cmp a b) ∧
      ∀ x, x ∈ ordSymdiff cmp a b ↔ (x ∈ a ∧ x ∉ b) ∨ (x ∉ a ∧ x ∈ b)) :=
  ⟨⟨ordUnion_strict h a b sa sb, mem_ordUnion h a b⟩,
   ⟨ordInt_strict h a b sa sb, mem_ordInt h a b sa sb⟩,
   ⟨ordSubtract_strict h a b sa sb, mem_ordSubtract h a b sa sb⟩,
   ⟨ordSymdiff_strict h a b sa sb, mem_ordSymdiff h a b sa sb⟩⟩

open Scryer.OrdSet in
/-- consequently `ord_union(A, B)` IS `sort(A ++ B)` (the unique strictly ascending list with
    those elements), and likewise every other operation is determined. -/
theorem C14_ord_union_eq_sort (h : IsLinear cmp) (a b : List α) (sa : StrictSorted cmp a)
    (sb : StrictSorted cmp b) : ordUnion cmp a b = sortDedup cmp (a ++ b) :=
  (sortDedup_iff h (a ++ b) _).2 ⟨ordUnion_strict h a b sa sb,
    fun x => by rw [mem_ordUnion h, List.mem_append]⟩

open Scryer.OrdSet in
/-- `ord_add_element/3`, `ord_del_element/3`. -/
theorem C14_ordset_element (h : IsLinear cmp) (s : List α) (e : α) (ss : StrictSorted cmp s) :
    (StrictSorted cmp (addel cmp s e) ∧ ∀ x, x ∈ addel cmp s e ↔ x = e ∨ x ∈ s) ∧
    (StrictSorted cmp (delel cmp s e) ∧ ∀ x, x ∈ delel cmp s e ↔ x ∈ s ∧ x ≠ e) :=
  ⟨⟨addel_strict h s e ss, mem_addel h s e⟩, ⟨delel_strict h s e ss, fun x => mem_delel h s e x ss⟩⟩

open Scryer.OrdSet in
/-- the tests: `ord_memberchk/2` (4-way unrolled search), `ord_subset/2`, `ord_intersect/2`
    (and its negation `ord_disjoint/2`), `is_ordset/1`. -/
theorem C14_ordset_tests (h : IsLinear cmp) (a b : List α) (e : α) (sa : StrictSorted cmp a)
    (sb : StrictSorted cmp b) :
    (ordMemberchk cmp e a = true ↔ e ∈ a) ∧
    (ordSubset cmp a b = true ↔ ∀ x ∈ a, x ∈ b) ∧
    (ordIntersect cmp a b = true ↔ ∃ x, x ∈ a ∧ x ∈ b) ∧
    (ordDisjoint cmp a b = true ↔ ¬ ∃ x, x ∈ a ∧ x ∈ b) ∧
    (∀ l, isOrdset cmp l = true ↔ StrictSorted cmp l) := by
  refine ⟨ordMemberchk_iff h e a sa, ordSubset_iff h a b sa sb, ordIntersect_iff h a b sa sb, ?_,
    isOrdset_iff h.toIsPreorder⟩
  rw [← ordIntersect_iff h a b sa sb]
  simp [ordDisjoint]

/-! ## library(assoc): AVL insertion and lookup -/

open Scryer.Assoc in
/-- `put_assoc/4` never fails on a balanced tree, and the result is balanced (every balance tag
    is the true height difference, so sibling heights differ by at most one). -/
theorem C14_assoc_put_balanced {κ ν : Type} (kcmp : κ → κ → Ordering) (k : κ) (v : ν)
    (tr : Tree κ ν) (bal : Balanced tr) :
    ∃ tr', putAssoc kcmp k tr v = some tr' ∧ Balanced tr' ∧
      (height tr' = height tr ∨ height tr' = height tr + 1) := by
  obtain ⟨tr', ch, e, b, hh, _⟩ := insert_ok kcmp k v tr bal
  refine ⟨tr', by simp [putAssoc, e], b, ?_⟩
  cases ch <;> simp at hh <;> omega

open Scryer.Assoc in
/-- `put_assoc/4` keeps the search-tree order; `assoc_to_list/2` of the result is the old list
    with the pair inserted at its place (an existing key keeps its key term and takes the new
    value); in particular `assoc_to_list/2` is strictly ascending by key. -/
theorem C14_assoc_put_ordered {κ ν : Type} {kcmp : κ → κ → Ordering} (h : IsPreorder kcmp) (k : κ)
    (v : ν) (tr tr' : Tree κ ν) (ord : Ordered kcmp tr) (e : putAssoc kcmp k tr v = some tr') :
    toList tr' = insPairs kcmp k v (toList tr) ∧ Ordered kcmp tr' := by
  simp only [putAssoc, Option.map_eq_some_iff] at e
  obtain ⟨⟨t1, ch⟩, e1, rfl⟩ := e
  have := insert_toList h k v tr ord e1
  exact ⟨this, by unfold Ordered; rw [this]; exact insPairs_sorted h k v _ ord⟩

open Scryer.Assoc in
/-- get after put (refinement to a finite map `Key → Option Val`):
    `get(k', put(k, v, t)) = v` if `k' == k`, else `get(k', t)`. -/
theorem C14_assoc_get_put {κ ν : Type} {kcmp : κ → κ → Ordering} (h : IsPreorder kcmp) (k k' : κ)
    (v : ν) (tr tr' : Tree κ ν) (ord : Ordered kcmp tr) (e : putAssoc kcmp k tr v = some tr') :
    get kcmp k' tr' = if kcmp k' k = .eq then some v else get kcmp k' tr := by
  have hp := C14_assoc_put_ordered h k v tr tr' ord e
  rw [get_eq_lookup h k' tr' hp.2, hp.1, lookup_insPairs h, get_eq_lookup h k' tr ord]

open Scryer.Assoc in
/-- the tree reached from `t` by any sequence of `put_assoc` calls. -/
def puts {κ ν : Type} (kcmp : κ → κ → Ordering) : List (κ × ν) → Option (Tree κ ν)
  | [] => some .t
  | (k, v) :: rest => (puts kcmp rest).bind fun tr => putAssoc kcmp k tr v

open Scryer.Assoc in
/-- invariants of every history of updates: starting from the empty assoc, every sequence of
    `put_assoc` succeeds and yields a balanced search tree whose `assoc_to_list` is the
    sorted-association-list built by the same insertions (the finite map). -/
theorem C14_assoc_history_invariant {κ ν : Type} {kcmp : κ → κ → Ordering} (h : IsPreorder kcmp)
    (ops : List (κ × ν)) :
    ∃ tr, puts kcmp ops = some tr ∧ Balanced tr ∧ Ordered kcmp tr ∧
      toList tr = ops.foldr (fun p acc => insPairs kcmp p.1 p.2 acc) [] := by
  induction ops with
  | nil => exact ⟨.t, rfl, trivial, List.Pairwise.nil, rfl⟩
  | cons p rest ih =>
    obtain ⟨k, v⟩ := p
    obtain ⟨tr, e, bal, ord, hl⟩ := ih
    obtain ⟨tr', e', bal', _⟩ := C14_assoc_put_balanced kcmp k v tr bal
    have := C14_assoc_put_ordered h k v tr tr' ord e'
    exact ⟨tr', by simp [puts, e, e'], bal', this.2, by rw [this.1, hl]; rfl⟩

open Scryer.Assoc in
/-- `assoc_to_keys/2`, `assoc_to_values/2`, `min_assoc/3`, `max_assoc/3` are the projections /
    the first / the last pair of `assoc_to_list/2`. -/
theorem C14_assoc_projections {κ ν : Type} (tr : Tree κ ν) :
    toKeys tr = (toList tr).map (·.1) ∧ toValues tr = (toList tr).map (·.2) ∧
      minAssoc tr = (toList tr).head? ∧ maxAssoc tr = (toList tr).getLast? :=
  ⟨toKeys_eq tr, toValues_eq tr, minAssoc_eq tr, maxAssoc_eq tr⟩

/-! ## library(lists), library(pairs) -/

open Scryer.ListLib in
/-- `append/3` with the first two arguments unbound enumerates exactly the splits of the list. -/
theorem C14_append_splits (l : List α) (x y : List α) :
    (x, y) ∈ appendSplits l ↔ x ++ y = l := by
  induction l generalizing x y with
  | nil => simp [appendSplits]
  | cons z zs ih =>
    simp only [appendSplits, List.mem_cons, List.mem_map, Prod.mk.injEq]
    constructor
    · rintro (⟨rfl, rfl⟩ | ⟨⟨p1, p2⟩, hp, rfl, rfl⟩)
      · rfl
      · simp [(ih p1 p2).1 hp]
    · intro e
      cases x with
      | nil => left; exact ⟨rfl, e.symm ▸ rfl⟩
      | cons a x' =>
        right
        simp only [List.cons_append, List.cons.injEq] at e
        exact ⟨(x', y), (ih x' y).2 e.2, by simp [e.1], rfl⟩

open Scryer.ListLib in
/-- `reverse/2` (accumulator version of lists.pl) is list reversal, hence an involution. -/
theorem C14_reverse (l : List α) : reverse l = l.reverse ∧ reverse (reverse l) = l := by
  have : ∀ (xs acc : List α), revAcc xs acc = xs.reverse ++ acc := by
    intro xs
    induction xs with
    | nil => simp [revAcc]
    | cons x xs ih => intro acc; simp [revAcc, ih]
  simp [reverse, this]

open Scryer.ListLib in
/-- `nth0/3`, `nth1/3` with a given index are indexing from 0 / from 1. -/
theorem C14_nth (n : Nat) (l : List α) :
    nth0 n l = l[n]? ∧ nth1 (n + 1) l = l[n]? ∧ nth1 0 l = none := by
  have : ∀ (n : Nat) (l : List α), nth0 n l = l[n]? := by
    intro n l
    induction l generalizing n with
    | nil => cases n <;> simp [nth0]
    | cons x xs ih => cases n <;> simp [nth0, ih]
  simp [nth1, this]

open Scryer.ListLib in
/-- `length/2` of `append/3`, `pairs_keys_values/3` in both directions. -/
theorem C14_pairs_keys_values {β : Type} (ps : List (α × β)) :
    pairsOfKeysValues (pairsKeysValues ps).1 (pairsKeysValues ps).2 = some ps ∧
      (pairsKeysValues ps).1.length = ps.length ∧ (pairsKeysValues ps).2.length = ps.length := by
  refine ⟨?_, by simp [pairsKeysValues], by simp [pairsKeysValues]⟩
  induction ps with
  | nil => rfl
  | cons p ps ih =>
    simp only [pairsKeysValues, List.map_cons] at ih ⊢
    simp [pairsOfKeysValues, ih]

open Scryer.ListLib in
/-- `sum_list/2` is the sum. -/
theorem C14_sum_list (l : List Int) : sumList l = l.sum := by
  have : ∀ (l : List Int) (s : Int), l.foldl (fun s x => s + x) s = s + l.sum := by
    intro l
    induction l with
    | nil => simp
    | cons x xs ih => intro s; simp [ih]; omega
  simp [sumList, this]

/-! ## non-vacuity -/

/-- `compare` on `Nat` is a total order: the hypotheses `IsPreorder` / `IsLinear` are satisfiable. -/
theorem C14_nat_order_is_linear : IsLinear (compare : Nat → Nat → Ordering) where
  refl a := by simp
  swap a b := by
    rcases Nat.lt_trichotomy a b with h | h | h
    · rw [Nat.compare_eq_lt.2 h, Nat.compare_eq_gt.2 h]; rfl
    · subst h; simp
    · rw [Nat.compare_eq_gt.2 h, Nat.compare_eq_lt.2 h]; rfl
  le_trans a b c h1 h2 := by
    simp only [ne_eq, Nat.compare_eq_gt, Nat.not_lt] at *
    omega
  eq_imp a b e := Nat.compare_eq_eq.1 e

example : isort compare [3, 1, 2, 1] = [1, 1, 2, 3] := by decide
example : dedupAdj compare (isort compare [3, 1, 2, 1]) = [1, 2, 3] := by decide
example : StrictSorted compare [1, 2, 3] := by simp [StrictSorted]; decide
-- keysort keeps equal keys in input order
example : isort (fun (a b : Nat × String) => compare a.1 b.1) [(2, "x"), (1, "y"), (2, "a"), (1, "b")]
    = [(1, "y"), (1, "b"), (2, "x"), (2, "a")] := by decide
-- an assoc history with a double rotation
example : (puts (ν := Nat) compare [(2, 0), (3, 0), (1, 0)]).map Assoc.toList
    = some [(1, 0), (2, 0), (3, 0)] := by decide
example : Assoc.Balanced (Assoc.Tree.node 2 0 .eq (.node 1 0 .eq .t .t) (.node 3 0 .eq .t .t)) := by
  simp [Assoc.Balanced, Assoc.TagOk, Assoc.height]
-- a `-0.0`/`0.0` pair shows why uniqueness is "up to ==" for the preorder
example (age : String → Nat) : termCompare age (.flt 0x8000000000000000) (.flt 0) = .eq := by
  simp [termCompare_eq, sameCat, cat, leafCompare, fltCmp_eq_optCmp, fltScaled, fltExp,
    fltMant, fltSign, optCmp]

end Scryer.C14
