import ScryerModel.Proofs.Order
import ScryerModel.Proofs.Sort
import ScryerModel.Proofs.OrdSet
/-
C14 — Sorting builtins and collection libraries match their models (work in progress).
-/
namespace Scryer.C14
open Scryer Scryer.Order Scryer.Sort

/-- terms whose rationals have positive denominators (the well-formedness invariant of the
    shared term model). -/
def NTerm := {t : Term // DenPos t}

/-- the standard order on well-formed terms. -/
def ncmp (age : String → Nat) (a b : NTerm) : Ordering := termCompare age a.1 b.1

/-- the standard order of terms is a total preorder (C13). -/
theorem C14_standard_order_is_preorder (age : String → Nat) : IsPreorder (ncmp age) where
  refl a := termCompare_refl age a.1
  swap a b := termCompare_swap age a.1 b.1
  le_trans a b c h1 h2 := by
    have t := termCompare_tri age a.1 b.1 c.1 a.2 b.2 c.2
    unfold ncmp at *
    cases hab : termCompare age a.1 b.1
    · cases hbc : termCompare age b.1 c.1
      · rw [t.lt_lt hab hbc]; simp
      · rw [← t.eq_r hbc, hab]; simp
      · exact absurd hbc h2
    · rw [t.eq_l hab]; exact h2
    · exact absurd hab h1

end Scryer.C14
