import ScryerModel.Model.Csv
namespace Scryer.Csv
end Scryer.Csv
