import ScryerModel.Proofs.Csv
/-!
# C51 — CSV parsing and writing follow the documented format (`library(csv)`)

Statements over `Model/Csv.lean`. The reader `parseCsv` mirrors the DCG of
`/repo/src/lib/csv.pl` non-terminal by non-terminal; the writer `writeCsv` is the DOCUMENTED
format (same control structure as `write_csv_/3`, string fields as RFC 4180 quoted fields).
`writeCsvAsIs` is the writer as the code stands; where it differs is shown by `example`s at
the end (the two open findings C51-1 and C51-2). The implementation is tied to these
definitions by the correspondence run (`vlib/props/C51.py`); nothing here is bounded in size:
field texts, numbers, widths and row counts are arbitrary.
-/
namespace Scryer.Csv

/-- A quoted field reads back as its text, for EVERY text (separators, quotes, CR, LF, anything):
    `parseField (quoteField s) = s`. -/
theorem C51_quoted_field_roundtrip (s : List Char) : parseField (quoteField s) = some s := by
  have h := stringTokens_escapeQ s [] (by intro r' h; simp at h)
  simp [parseField, quoteField, h]

/-- The same inside a line: whatever follows the closing quote (as long as it is not another
    quote — the writer continues with a separator, a line end, or nothing), the reader's
    `field//2` returns exactly the text and stops right behind the closing quote. No
    assumption on the separator. -/
theorem C51_quoted_field_in_context (sep : Char) (s r : List Char) (hr : ∀ r', r ≠ '"' :: r') :
    field sep (quoteField s ++ r) = some (mkStr s, r) := by
  have h := stringTokens_escapeQ s r hr
  simp only [quoteField, List.cons_append, List.append_assoc, List.nil_append]
  unfold field
  simp [h]

/-- Unquoted output (the only things written without quotes are numbers; null is written as
    nothing) consists of number characters only, hence never contains a quote, CR or LF; it
    does not contain the separator either unless the separator is itself one of
    `0-9 - + . e E`. Strings are always written quoted (`renderField o (.str s) = quoteField s`
    by definition). -/
theorem C51_unquoted_output_clean (o : Opts) (f : Field)
    (hf : (∃ i, f = .int i) ∨ (∃ l, f = .flt l ∧ isFloatLex l = true) ∨ (f = .null ∧ o.nullValue = none)) :
    ∀ c ∈ renderField o f,
      isNumChar c = true ∧ c ≠ '"' ∧ c ≠ '\n' ∧ c ≠ '\r' ∧ (isNumChar o.sep = false → c ≠ o.sep) := by
  have key : ∀ t : List Char, (∀ c ∈ t, isNumChar c = true) → ∀ c ∈ t,
      isNumChar c = true ∧ c ≠ '"' ∧ c ≠ '\n' ∧ c ≠ '\r' ∧ (isNumChar o.sep = false → c ≠ o.sep) := by
    intro t ht c hc
    have h := ht c hc
    have hn := numChar_ne h
    refine ⟨h, hn.1, hn.2.1, hn.2.2, ?_⟩
    intro hsep e
    rw [e, hsep] at h
    exact absurd h (by decide)
  rcases hf with ⟨i, rfl⟩ | ⟨l, rfl, hl⟩ | ⟨rfl, hn⟩
  · exact key _ (renderInt_numChars i)
  · exact key _ (floatLex_numChars hl).1
  · intro c hc
    simp [renderField, renderNull, hn] at hc

/-- Written numbers are typed back as the same number: an integer of any size, a float lexeme. -/
theorem C51_number_typing (i : Int) (l : List Char) (hl : isFloatLex l = true) :
    classify (renderInt i) = .int i ∧ classify l = .flt l :=
  ⟨classify_renderInt i, classify_floatLex hl⟩

/-- ROUND TRIP. For every option set with a sane separator (not `"`, CR, LF) and a line
    separator among LF, CRLF, CR, and every frame whose lines have at least one field, are not
    a lone empty field, and whose fields are non-empty strings (ANY text), integers, float
    lexemes or null (null only under `null_value(empty)`), with numbers not containing the
    separator — `wf o t` — the documented writer succeeds and the reader gives the frame back:
    the same header (or `[]` under `with_header(false)`, where the header is not written) and
    exactly the same rows. Rows may have different widths. -/
theorem C51_roundtrip (o : Opts) (t : Frame) (h : wf o t = true) :
    ∃ T, writeCsv o t = some T ∧
      parseCsv o T = some ⟨if o.withHeader then t.header else [], t.rows⟩ :=
  parse_write h

/-- The hypothesis "numbers do not contain the separator" is automatic for every separator
    that is not a number character: then `wf` only asks for the shape of the frame. -/
theorem C51_wf_of_plain_separator (o : Opts) (t : Frame)
    (hsep : isNumChar o.sep = false) (hs : sepOk o = true) (hl : lineSepOk o = true)
    (hfield : ∀ f, (o.withHeader = true ∧ f ∈ t.header) ∨ (∃ r ∈ t.rows, f ∈ r) →
      match f with
      | .null => o.nullValue = none
      | .str s => s ≠ []
      | .int _ => True
      | .flt l => isFloatLex l = true)
    (hshape : ∀ r, (o.withHeader = true ∧ r = t.header) ∨ r ∈ t.rows → r ≠ [] ∧ r ≠ [Field.null]) :
    wf o t = true := by
  have hfo : ∀ f, (o.withHeader = true ∧ f ∈ t.header) ∨ (∃ r ∈ t.rows, f ∈ r) → fieldOk o f = true := by
    intro f hf
    have h := hfield f hf
    have nosep : ∀ l : List Char, (∀ c ∈ l, isNumChar c = true) → o.sep ∉ l := by
      intro l hl' hc
      have := hl' _ hc
      rw [hsep] at this
      exact absurd this (by decide)
    cases f with
    | null => simpa [fieldOk] using h
    | str s => simpa [fieldOk] using h
    | int i => simp [fieldOk, nosep _ (renderInt_numChars i)]
    | flt l =>
      simp only at h
      simp [fieldOk, h, nosep _ (floatLex_numChars h).1]
  have hro : ∀ r, (o.withHeader = true ∧ r = t.header) ∨ r ∈ t.rows → rowOk o r = true := by
    intro r hr
    have := hshape r hr
    refine rowOk_iff.mpr ⟨this.1, this.2, ?_⟩
    rw [List.all_eq_true]
    intro f hf
    rcases hr with ⟨hw, rfl⟩ | hr
    · exact hfo f (Or.inl ⟨hw, hf⟩)
    · exact hfo f (Or.inr ⟨r, hr, hf⟩)
  simp only [wf, Bool.and_eq_true, Bool.or_eq_true, Bool.not_eq_true']
  refine ⟨⟨⟨hs, hl⟩, ?_⟩, ?_⟩
  · cases hw : o.withHeader with
    | false => exact Or.inl rfl
    | true => exact Or.inr (hro _ (Or.inl ⟨hw, rfl⟩))
  · rw [List.all_eq_true]
    intro r hr
    exact hro r (Or.inr hr)

/-- Malformed input: a quoted field that is never closed makes the whole parse fail (for all
    options), it is not silently read as text. -/
theorem C51_unterminated_quote_fails (o : Opts) (s : List Char) (h : '"' ∉ s) :
    parseCsv o ('"' :: s) = none :=
  parse_unterminated o s h

/-- The fuel parameters of the model's `rowF`/`rowsF` (upper bounds for the number of fields /
    lines, set to the length of the text + 1) never influence a result: more fuel gives the
    same answer, so "out of fuel" is not a way for the model to fail. -/
theorem C51_fuel_irrelevant (sep : Char) (cs : List Char) (m : Nat) (hm : cs.length + 1 ≤ m) :
    rowF sep m cs = row sep cs ∧ rowsF sep m cs = rows sep cs :=
  ⟨rowF_mono sep _ cs (Nat.lt_succ_self _) m hm, rowsF_mono sep _ cs (Nat.lt_succ_self _) m hm⟩

/-! ## non-vacuity and reached branches

(`decide +kernel`: evaluation by the kernel's reduction only — no compiler, no extra axiom; the
elaborator's own evaluator is too slow on the call-by-name parser.) -/

private def ex1 : Frame :=
  ⟨[.str "na,me".toList, .str "q\"t".toList, .str "two\r\nlines".toList],
   [[.str " x ".toList, .int (-12345678901234567890123), .null],
    [.flt "1.5e-10".toList, .str "12".toList, .int 0],
    [.str "ragged".toList]]⟩

-- the hypotheses hold for an adversarial frame, under several option sets
example : wf {} ex1 = true := by decide +kernel
example : wf { sep := ';', withHeader := false, lineSep := ['\r', '\n'] } ex1 = true := by decide +kernel
example : wf { sep := '\t', lineSep := ['\r'] } ex1 = true := by decide +kernel
-- the documented example of the library
example : writeCsv {} ⟨[.str "col1".toList, .str "col2".toList], [[.str "one".toList, .int 2], [.null, .str "three".toList]]⟩
    = some "\"col1\",\"col2\"\n\"one\",2\n,\"three\"".toList := by decide +kernel
example : parseCsv {} "col1,col2,col3,col4\none,2,,three".toList
    = some ⟨[.str "col1".toList, .str "col2".toList, .str "col3".toList, .str "col4".toList],
            [[.str "one".toList, .int 2, .null, .str "three".toList]]⟩ := by decide +kernel
-- number-looking strings stay strings because they are quoted; bare ones are typed
example : parseCsv { withHeader := false } "\"12\",12, 12,12 ,-  1.5,+1".toList
    = some ⟨[], [[.str "12".toList, .int 12, .int 12, .str "12 ".toList, .flt "-1.5".toList, .str "+1".toList]]⟩ := by decide +kernel
-- the hypothesis "not a lone empty field" is necessary: such a line is "no line" in CSV
example : (writeCsv {} ⟨[.str ['a']], [[.null], [.str ['b']]]⟩).bind (parseCsv {}) = some ⟨[.str ['a']], [[.str ['b']]]⟩ := by decide +kernel
-- null with a null_value text does not come back as null (the reader has no such option)
example : (writeCsv { nullValue := some ['N', 'A'] } ⟨[.str ['a'], .str ['b']], [[.null, .int 1]]⟩).bind (parseCsv {})
    = some ⟨[.str ['a'], .str ['b']], [[.str ['N', 'A'], .int 1]]⟩ := by decide +kernel
-- a frame without rows is fine in the documented format
example : (writeCsv {} ⟨[.str ['a']], []⟩).bind (parseCsv {}) = some ⟨[.str ['a']], []⟩ := by decide +kernel
-- malformed: unterminated quote; text after a blank line
example : parseCsv { withHeader := false } "a,\"bc".toList = none := by decide +kernel
example : parseCsv { withHeader := false } "a,b\n\nc,d".toList = none := by decide +kernel
-- ragged rows are accepted as they are
example : parseCsv { withHeader := false } "a,b,c\nd\n".toList
    = some ⟨[], [[.str ['a'], .str ['b'], .str ['c']], [.str ['d']]]⟩ := by decide +kernel

/-! ## the writer as the code stands (open findings) -/

-- C51-1: `~w` prints the character list of a string field in list syntax
example : writeCsvAsIs {} ⟨[.str "ab".toList], [[.int 1]]⟩ = some "[a,b]\n1".toList := by decide +kernel
example : (writeCsvAsIs {} ⟨[.str "ab".toList], [[.int 1]]⟩).bind (parseCsv {})
    = some ⟨[.str "[a".toList, .str "b]".toList], [[.int 1]]⟩ := by decide +kernel
-- C51-2: no clause of write_rows/3 for the empty list
example : writeCsvAsIs {} ⟨[.int 1], []⟩ = none := by decide +kernel
-- without string fields and with at least one row both writers agree
example : writeCsvAsIs { sep := ';' } ⟨[.int 1, .null], [[.flt "2.5".toList, .int (-3)]]⟩
    = writeCsv { sep := ';' } ⟨[.int 1, .null], [[.flt "2.5".toList, .int (-3)]]⟩ := by decide +kernel

end Scryer.Csv
