import ScryerModel.Proofs.Luv
/-!
# C09 — Dynamic predicates follow the logical update view

Model (`Model/Luv.lean`): a dynamic predicate is a chain of entries (code address, birth, death,
clause) plus the global clock; `DB.apply` is assertz / asserta / `'$retract_clause'` / abolish / a
tick caused by another predicate; `view cc chain` is the list of clauses a call that captured the
generation `cc` must see; `DB.snapshot` is what a call starting now sees.  `callChain` /
`callLine` mirror the dispatch protocol of `dispatch.rs` (first entry, then one retry per
*interlude*; an interlude is an arbitrary list of updates together with an arbitrary value left in
the `cc` register by other calls).  `Variant.fixed` is the repaired protocol (notes/findings/C09-1,
C09-2), `Variant.pinned` the one of the pinned tree.  `WF` is the stamps invariant.  No bound on the
number of clauses, updates or interludes anywhere.

Only statements live here; lemmas are in `Proofs/Luv.lean`.
-/
namespace Scryer.Luv

variable {α : Type}

/-! ## (1) frozen view -/

/-- **Frozen view, as a property of the stamps.** What a generation `cc` sees of the predicate is
unaffected by ANY sequence of assertz / asserta / retract / abolish / foreign ticks performed after
`cc` was captured. -/
theorem C09_updates_invisible_to_older_generation (db : DB α) (us : List (Upd α)) (cc : Nat)
    (hc : cc ≤ db.clock) : view cc (db.applyAll us).chain = view cc db.chain :=
  view_applyAll db us cc hc

/-- **Frozen view, chain walk** (`DynamicElse` / `DynamicInternalElse` arms, repaired retry).
A call backtracked into after arbitrary interludes — updates of the predicate AND other dynamic
calls overwriting the `cc` register — delivers exactly the clauses of its own snapshot, in order
(one per retry), and the machine never re-enters the dispatch instruction in a failed state. -/
theorem C09_frozen_view_chain (db : DB α) (hwf : WF db) (ils : List (Interlude α)) :
    (callChain Variant.fixed db ils).1.map keyOf = db.snapshot.take (ils.length + 1) ∧
    (callChain Variant.fixed db ils).2 = false :=
  callChain_fixed Variant.fixed rfl db hwf ils

/-- **Frozen view, index line walk** (`DynamicIndexedChoice` arm, repaired): a call through the
line of the clauses filed under its key delivers the clauses of its snapshot that are in the line,
whatever is asserted (at the front or the back of the line), retracted or abolished meanwhile. -/
theorem C09_frozen_view_line (sel : α → Bool) (db : DB α) (ils : List (Interlude α)) :
    (callLine Variant.fixed sel db ils).1.map keyOf
        = (db.snapshot.filter (fun p => sel p.2)).take (ils.length + 1) ∧
    (callLine Variant.fixed sel db ils).2 = false :=
  callLine_fixed Variant.fixed rfl rfl sel db ils

/-- The only thing the frozen view of the chain walk needs is the repair of the `cc` register
(C09-1); it does not depend on the line index. -/
theorem C09_frozen_view_chain_needs_only_cc (v : Variant) (hv : v.cc = true) (db : DB α)
    (hwf : WF db) (ils : List (Interlude α)) :
    (callChain v db ils).1.map keyOf = db.snapshot.take (ils.length + 1) :=
  (callChain_fixed v hv db hwf ils).1

/-! ### the pinned protocol violates it (witnesses of C09-1 and C09-2) -/

/-- three clauses consulted together -/
def db3 : DB Nat := ⟨[⟨0, 0, none, 10⟩, ⟨1, 0, none, 11⟩, ⟨2, 0, none, 12⟩], 1, 3⟩

/-- **witness of C09-1** (stale `cc` on retry): while the call is at its first clause, the third
one is retracted and a fourth asserted, and another dynamic call leaves generation 3 in `cc`. The
pinned retry delivers the NEW clause 13 instead of the retracted-later clause 12. -/
theorem C09_pinned_stale_cc_wrong_clause :
    (callChain Variant.pinned db3 [⟨[.retractId 2, .assertz 13], 3⟩, ⟨[], 3⟩]).1.map (·.cl)
      = [10, 11, 13] ∧
    (callChain Variant.fixed db3 [⟨[.retractId 2, .assertz 13], 3⟩, ⟨[], 3⟩]).1.map (·.cl)
      = [10, 11, 12] := by decide

/-- **witness of C09-1**, second symptom: without the assertz the pinned retry finds no living
clause, raises `fail` with the choice point still in place and re-enters the instruction forever. -/
theorem C09_pinned_stale_cc_stuck :
    (callChain Variant.pinned db3 [⟨[.retractId 2], 2⟩, ⟨[], 2⟩]).2 = true ∧
    (callChain Variant.fixed db3 [⟨[.retractId 2], 2⟩, ⟨[], 2⟩]).2 = false := by decide

/-- **witness of C09-2** (absolute index into a line that grows at the front): an asserta into the
line being walked makes the pinned walk deliver the same clause again. -/
theorem C09_pinned_line_index_repeats :
    (callLine ⟨true, false⟩ (fun _ => true) db3 [⟨[.asserta 14], 1⟩, ⟨[], 1⟩]).1.map (·.cl)
      = [10, 10, 11] ∧
    (callLine Variant.fixed (fun _ => true) db3 [⟨[.asserta 14], 1⟩, ⟨[], 1⟩]).1.map (·.cl)
      = [10, 11, 12] := by decide

/-! ## (4) the stamps invariant -/

/-- **Stamps invariant**: births before deaths, every stamp below the clock, code addresses unique
— holds initially, is preserved by every operation, and the clock never runs backwards. -/
theorem C09_stamps_invariant (db : DB α) (h : WF db) (us : List (Upd α)) :
    WF (DB.empty : DB α) ∧ WF (db.applyAll us) ∧ db.clock ≤ (db.applyAll us).clock :=
  ⟨WF.empty, h.applyAll us, clock_le_applyAll db us⟩

/-- under the invariant the stamp test at the current clock and the clause store of `clause/2` /
`retract/1` (clauses not yet retracted) agree: a later call and `clause/2` see the same database -/
theorem C09_snapshot_is_clause_store (db : DB α) (h : WF db) : db.snapshot = db.liveList :=
  snapshot_eq_liveList h

/-! ## (5), (2) refinement: the stamped database is a plain list of clauses -/

/-- **Refinement.** After any update sequence, what a new call (or `clause/2`) sees is the
stamp-free specification applied to what was seen before: assertz appends, asserta prepends,
retract erases that clause, abolish empties — relative order otherwise preserved. -/
theorem C09_refinement (db : DB α) (h : WF db) (us : List (Upd α)) :
    (db.applyAll us).snapshot = (db.spec.applyAll us).cls := by
  have := spec_applyAll h us
  exact congrArg Spec.cls this

/-- **assertz puts the clause at the back** of every later snapshot -/
theorem C09_assertz_back (db : DB α) (h : WF db) (c : α) :
    (db.apply (.assertz c)).snapshot = db.snapshot ++ [(db.next, c)] :=
  congrArg Spec.cls (spec_apply h (.assertz c))

/-- **asserta puts the clause at the front** -/
theorem C09_asserta_front (db : DB α) (h : WF db) (c : α) :
    (db.apply (.asserta c)).snapshot = (db.next, c) :: db.snapshot :=
  congrArg Spec.cls (spec_apply h (.asserta c))

/-! ## (3) retract -/

/-- **retract/1 removes exactly the first visible matching clause**: if the snapshot at the time
of the call is `pre ++ p :: post` with no match in `pre`, the solution is `p` and every later
snapshot (call or `clause/2`) is `pre ++ post`. -/
theorem C09_retract_removes_first_match (db : DB α) (h : WF db) (m : α → Bool)
    (pre post : List (Nat × α)) (p : Nat × α) (hs : db.snapshot = pre ++ p :: post)
    (hpre : ∀ q ∈ pre, m q.2 = false) (hp : m p.2 = true) :
    (db.retractFirst m).1 = some p ∧ (db.retractFirst m).2.snapshot = pre ++ post := by
  have hl : db.retractList m = p :: post.filter (fun q => m q.2) := by
    unfold DB.retractList
    rw [← snapshot_eq_liveList h, hs, List.filter_append, List.filter_cons]
    have : pre.filter (fun q => m q.2) = [] := by
      apply List.filter_eq_nil_iff.mpr
      intro q hq; simp [hpre q hq]
    simp [this, hp]
  unfold DB.retractFirst
  rw [hl]
  refine ⟨rfl, ?_⟩
  have := congrArg Spec.cls (spec_apply h (.retractId p.1))
  simp only [Spec.apply, DB.spec] at this
  rw [this, hs]
  apply filter_ne_of_nodup
  rw [← hs]
  exact snapshot_ids_nodup h

/-- **retract/1 is re-entrant within its own snapshot**: backtracked into after arbitrary
interludes it yields the matching clauses of the snapshot taken when it was called, in order. -/
theorem C09_retract_reentrant (db : DB α) (h : WF db) (m : α → Bool) (ils : List (Interlude α)) :
    (db.retract m ils).1 = (db.snapshot.filter (fun p => m p.2)).take (ils.length + 1) := by
  unfold DB.retract
  rw [retractRun_solutions, DB.retractList, snapshot_eq_liveList h]

/-! ## non-vacuity -/

example : WF db3 := by
  refine ⟨by decide, ?_, by decide, by decide⟩
  intro e he d hd
  simp [db3] at he
  rcases he with rfl | rfl | rfl <;> simp at hd

/-- the hypotheses of `C09_retract_removes_first_match` are satisfiable and the conclusion is not
trivial: the second clause is removed, the first stays -/
example : (db3.retractFirst (fun c => c == 11)).1 = some (1, 11) ∧
    (db3.retractFirst (fun c => c == 11)).2.snapshot = [(0, 10), (2, 12)] := by decide

/-- a choice point is really created and retried (three deliveries, two retries) -/
example : (callChain Variant.fixed db3 [⟨[.abolish], 7⟩, ⟨[.asserta 5], 9⟩]).1.map (·.cl)
    = [10, 11, 12] := by decide

/-- after the same updates a new call sees the modified database -/
example : (db3.applyAll [.abolish, .asserta 5, .assertz 6]).snapshot = [(3, 5), (4, 6)] := by decide

end Scryer.Luv
