import ScryerModel.Proofs.Luv
/-!
# C09 — Dynamic predicates follow the logical update view
-/
namespace Scryer.Luv

/-- placeholder while the proofs are being written: a clause stamped dead at `d` is invisible to
every later generation. -/
theorem C09_dead_invisible {α : Type} (e : Entry α) (d cc : Nat) (h : e.death = some d) (hc : d < cc) :
    e.vis cc = false := by
  simp [Entry.vis, h]; omega

end Scryer.Luv
