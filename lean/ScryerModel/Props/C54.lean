import ScryerModel.Model.Reif
import ScryerModel.Proofs.Reif
/-!
# C54 — Reified conditionals are declaratively sound

`Reif.evalC` mirrors `(=)/3`, `dif/3`, `(,)/3`, `(;)/3` of `src/lib/reif.pl` (answer sequences of
`call(C, T)` over a specification-level store of posted equations and disequalities, `dif/2` as in
`src/lib/dif.pl`), `Reif.ifT` is `if_/3`, `tfilterM` … the list predicates (Model/Reif.lean).
`Sat θ s` — the valuation `θ` satisfies the store; `holds θ c` — the condition is true under `θ`.
-/
namespace Scryer.Reif
open Scryer Scryer.Unify Scryer.Term

/-! ## `if_/3` is the explicit disjunction -/

/-- Calling a reified condition with the truth value already bound gives exactly the answers of the
call with an unbound truth value that carry this value, in the same order. -/
theorem C54_bound_truth_value_filters (c : Cond) (t : Bool) (s : Store) :
    evalC c (some t) s = (evalC c none s).filter (fun p => p.1 == t) :=
  evalC_bound c t s

/-- `if_(C, Then, Else)` has the same answers, with the same multiplicities, as
`( call(C, true), Then ; call(C, false), Else )` — for every condition built from `=`, `dif`, `,`, `;`,
all argument terms, every store (instantiation pattern, pending `dif/2` constraints), and all
continuations. -/
theorem C54_if_is_explicit_disjunction {α : Type} (c : Cond) (thenK elseK : Store → List α)
    (s : Store) : List.Perm (ifT c thenK elseK s) (ifSpec c thenK elseK s) :=
  ifT_perm c thenK elseK s

/-- … and in the same ORDER whenever the condition delivers its `true` answers before its `false`
answers, which `(=)/3` always does. -/
theorem C54_if_is_explicit_disjunction_in_order {α : Type} (c : Cond)
    (thenK elseK : Store → List α) (s : Store) (h : TrueFirst (evalC c none s)) :
    ifT c thenK elseK s = ifSpec c thenK elseK s :=
  ifT_eq_of_trueFirst c thenK elseK s h

theorem C54_if_eq_in_order {α : Type} (x y : Term) (thenK elseK : Store → List α) (s : Store) :
    ifT (.eq x y) thenK elseK s = ifSpec (.eq x y) thenK elseK s :=
  ifT_eq_of_trueFirst _ thenK elseK s (eqT_trueFirst x y s)

/-- the order can really differ for other conditions: `dif/3` answers `false` first. -/
example : (evalC (.dif (.var "X") (.atom "a")) none Store.empty).map Prod.fst = [false, true] := by
  simp [evalC, eqT, Store.mgu, Store.empty, unify, solve, identical, notUnifiable, applyS, unifT, post,
    Store.consistent, Store.addEq, Store.addDif, substE, Term.vars, constEq, subst1, Term.subst, single]

/-! ## The law of `(=)/3` -/

/-- `=(X, Y, T)`: the answers are among `T = true` with `X = Y` posted and `T = false` with
`dif(X, Y)` posted (branches whose store is inconsistent are absent), `true` first; nothing is
posted when the terms are already identical or not unifiable. -/
theorem C54_eq_law (x y : Term) (s s' : Store) (t : Bool) (h : (t, s') ∈ eqT x y none s) :
    (t = true ∧ (s' = s ∨ s' = s.addEq x y)) ∨ (t = false ∧ (s' = s ∨ s' = s.addDif x y)) := by
  unfold eqT at h
  cases hg : s.mgu with
  | none => rw [hg] at h; cases h
  | some σ =>
    rw [hg] at h
    simp only [unifT, if_true] at h
    split at h
    · simp at h; exact Or.inl ⟨h.1, Or.inl h.2⟩
    · split at h
      · simp at h; exact Or.inr ⟨h.1, Or.inl h.2⟩
      · rw [List.mem_append] at h
        cases h with
        | inl h => obtain ⟨h1, h2⟩ := mem_post h; exact Or.inl ⟨h1, Or.inr h2⟩
        | inr h => obtain ⟨h1, h2⟩ := mem_post h; exact Or.inr ⟨h1, Or.inr h2⟩

/-- Determinism, the point of reif: when the arguments are identical under the store's bindings
there is exactly ONE answer (`T = true`, nothing posted, no second branch, no choice point); when
they are not unifiable exactly one answer `T = false`. -/
theorem C54_eq_deterministic (x y : Term) (s : Store) (σ : Subst) (hg : s.mgu = some σ) :
    (identical (applyS σ x) (applyS σ y) = true → eqT x y none s = [(true, s)]) ∧
    (identical (applyS σ x) (applyS σ y) = false → notUnifiable (applyS σ x) (applyS σ y) = true →
      eqT x y none s = [(false, s)]) := by
  constructor
  · intro h; simp [eqT, hg, h, unifT]
  · intro h1 h2; simp [eqT, hg, h1, h2, unifT]

/-- never more than two answers. -/
theorem C54_eq_at_most_two (x y : Term) (tb : Option Bool) (s : Store) :
    (eqT x y tb s).length ≤ 2 := by
  unfold eqT
  cases s.mgu with
  | none => simp
  | some σ =>
    simp only
    split
    · split <;> simp
    · split
      · split <;> simp
      · simp only [List.length_append, post]
        split <;> split <;> (try split) <;> (try split) <;> simp

/-! ## Declarative soundness -/

/-- SOUNDNESS: every valuation that satisfies an answer's store satisfies the store the condition was
called in, and the answer's truth value is the truth of the condition under that valuation. -/
theorem C54_sound (θ : String → Term) (c : Cond) (tb : Option Bool) (s s' : Store) (t : Bool)
    (h : (t, s') ∈ evalC c tb s) (hs : Sat θ s') : Sat θ s ∧ (t = true ↔ holds θ c) :=
  ⟨(evalC_sound c tb s s' t h hs).1, (evalC_sound c tb s s' t h hs).2.1⟩

/-- COMPLETENESS: no solution is lost — every valuation of the calling store satisfies some answer. -/
theorem C54_complete (θ : String → Term) (c : Cond) (s : Store) (hs : Sat θ s) :
    ∃ t s', (t, s') ∈ evalC c none s ∧ Sat θ s' :=
  evalC_complete c s hs

/-- EXCLUSIVITY: no valuation satisfies two different answers (no redundant answers). -/
theorem C54_exclusive (θ : String → Term) (c : Cond) (tb : Option Bool) (s : Store) :
    List.Pairwise (fun a b => ¬ (Sat θ a.2 ∧ Sat θ b.2)) (evalC c tb s) :=
  evalC_exclusive θ c tb s

/-- `if_/3` routes a valuation to `Then` iff the condition is true under it: for every valuation of
the calling store there is an answer of the condition that it satisfies, and the branch taken for
that answer is `Then` exactly when the condition holds. -/
theorem C54_if_routes_by_truth (θ : String → Term) (c : Cond) (s : Store) (hs : Sat θ s) :
    ∃ p ∈ evalC c none s, Sat θ p.2 ∧ (p.1 = true ↔ holds θ c) := by
  obtain ⟨t, s', hm, hs'⟩ := evalC_complete (θ := θ) c s hs
  exact ⟨(t, s'), hm, hs', (evalC_sound c none s s' t hm hs').2.1⟩

/-- MONOTONICITY (commutation with later instantiation): let `(t, s')` be an answer for the store `s`
and let `s2` be any further instantiated store (more equations / disequalities).  Every valuation
that satisfies both the answer and `s2` is covered, in the run on `s2`, by an answer with the SAME
truth value: instantiating variables later never contradicts an earlier answer. -/
theorem C54_monotone (θ : String → Term) (c : Cond) (s s' s2 : Store) (t : Bool)
    (h : (t, s') ∈ evalC c none s) (hs' : Sat θ s') (hs2 : Sat θ s2) :
    ∃ s2', (t, s2') ∈ evalC c none s2 ∧ Sat θ s2' := by
  obtain ⟨t2, s2', hm, hsat⟩ := evalC_complete (θ := θ) c s2 hs2
  have e1 := (evalC_sound c none s s' t h hs').2.1
  have e2 := (evalC_sound c none s2 s2' t2 hm hsat).2.1
  have : t2 = t := by
    cases t <;> cases t2 <;> simp_all
  exact ⟨s2', this ▸ hm, hsat⟩

/-! ## The indexing of `if_/3` on the truth value, with its errors -/

/-- On a boolean truth value `if_/3` selects the branch; the answers of the models' conditions always
carry a boolean. -/
theorem C54_if_indexing {α : Type} (l : List (Bool × Store)) (thenK elseK : Store → List α) :
    ifRaw (l.map fun p => (boolTerm p.1, p.2)) thenK elseK =
      (l.flatMap fun p => if p.1 then thenK p.2 else elseK p.2).map IfOut.ans := by
  induction l with
  | nil => rfl
  | cons p l ih =>
    simp only [List.map_cons, List.flatMap_cons, List.map_append]
    cases hp : p.1 with
    | true =>
      have e : boolTerm true = .atom "true" := rfl
      rw [e]; simp only [ifRaw]; rw [ih]; simp
    | false =>
      have e : boolTerm false = .atom "false" := rfl
      rw [e]; simp only [ifRaw]; rw [ih]; simp

/-- A condition that leaves the truth value unbound is an instantiation error, any other non-boolean
a type error `type_error(boolean, T)`; the error ends the run (answers delivered before it stay). -/
theorem C54_if_errors {α σ : Type} (s : σ) (rest : List (Term × σ)) (thenK elseK : σ → List α)
    (v : String) (n : Int) :
    ifRaw ((.var v, s) :: rest) thenK elseK = [.instantiationError] ∧
    ifRaw ((.int n, s) :: rest) thenK elseK = [.typeErrorBoolean (.int n)] ∧
    ifRaw ((.atom "maybe", s) :: rest) thenK elseK = [.typeErrorBoolean (.atom "maybe")] := by
  refine ⟨rfl, rfl, ?_⟩
  simp [ifRaw]

/-! ## The list predicates -/

/-- `tfilter/3`, `tpartition/4`, `tmember_t/3`, `tmember/2` have the same answers (as multisets) as
their definitions with `if_/3` replaced by the explicit disjunction — for every list, every
condition and every store. -/
theorem C54_list_predicates_are_explicit_disjunctions (p : Term → Cond) (xs : List Term)
    (s : Store) :
    List.Perm (tfilterM p xs s) (tfilterSpec p xs s) ∧
    List.Perm (tpartitionM p xs s) (tpartitionSpec p xs s) ∧
    List.Perm (tmemberTM p xs s) (tmemberTSpec p xs s) ∧
    List.Perm (tmemberM p xs s) (tmemberSpec p xs s) :=
  ⟨tfilterM_perm_spec p xs s, tpartitionM_perm_spec p xs s, tmemberTM_perm_spec p xs s,
   tmemberM_perm_spec p xs s⟩

/-- … and the same SEQUENCES when the element condition answers `true` first. -/
theorem C54_list_predicates_in_order (p : Term → Cond)
    (hp : ∀ e s, TrueFirst (evalC (p e) none s)) (xs : List Term) (s : Store) :
    tfilterM p xs s = tfilterSpec p xs s ∧ tpartitionM p xs s = tpartitionSpec p xs s ∧
    tmemberTM p xs s = tmemberTSpec p xs s ∧ tmemberM p xs s = tmemberSpec p xs s :=
  ⟨tfilterM_eq_spec p hp xs s, tpartitionM_eq_spec p hp xs s, tmemberTM_eq_spec p hp xs s,
   tmemberM_eq_spec p hp xs s⟩

/-- `memberd_t(E, Xs, T)` is, in order, `( X = E, T = true ; dif(X, E), memberd_t(E, Xs', T) )`;
likewise `tfilter(=(A), Xs, Fs)`. -/
theorem C54_memberd_t_and_tfilter_eq_in_order (e : Term) (xs : List Term) (s : Store) :
    memberdM e xs s = tmemberTSpec (fun x => .eq x e) xs s ∧
    tfilterM (fun x => .eq e x) xs s = tfilterSpec (fun x => .eq e x) xs s :=
  ⟨tmemberTM_eq_spec (fun x => Cond.eq x e) (fun x s => eqT_trueFirst x e s) xs s,
   tfilterM_eq_spec (fun x => Cond.eq e x) (fun x s => eqT_trueFirst e x s) xs s⟩

/-- `tfilter/3` is declaratively the filter: under every valuation that satisfies an answer, the
answer's list is the input list filtered by the truth of the condition (soundness), and every
valuation of the calling store satisfies some answer (completeness). -/
theorem C54_tfilter_correct (θ : String → Term) (p : Term → Cond) (xs : List Term) (s : Store) :
    (∀ fs s', (fs, s') ∈ tfilterM p xs s → Sat θ s' → Sat θ s ∧ Filt θ p xs fs) ∧
    (Sat θ s → ∃ fs s', (fs, s') ∈ tfilterM p xs s ∧ Sat θ s') :=
  ⟨fun fs s' => tfilterM_sound p xs s fs s', tfilterM_complete p xs s⟩

/-- `memberd_t(E, Xs, T)`: `T = true` iff some element equals `E` under the valuation; complete. -/
theorem C54_memberd_t_correct (θ : String → Term) (e : Term) (xs : List Term) (s : Store) :
    (∀ t s', (t, s') ∈ memberdM e xs s → Sat θ s' →
      Sat θ s ∧ (t = true ↔ ∃ x ∈ xs, x.subst θ = e.subst θ)) ∧
    (Sat θ s → ∃ t s', (t, s') ∈ memberdM e xs s ∧ Sat θ s') := by
  constructor
  · intro t s' hm hs
    have := tmemberTM_sound (θ := θ) (fun x => .eq x e) xs s t s' hm hs
    simpa [holds] using this
  · exact tmemberTM_complete _ xs s

/-- `tmember_t/3` in general. -/
theorem C54_tmember_t_correct (θ : String → Term) (p : Term → Cond) (xs : List Term) (s : Store) :
    (∀ t s', (t, s') ∈ tmemberTM p xs s → Sat θ s' →
      Sat θ s ∧ (t = true ↔ ∃ x ∈ xs, holds θ (p x))) ∧
    (Sat θ s → ∃ t s', (t, s') ∈ tmemberTM p xs s ∧ Sat θ s') :=
  ⟨fun t s' => tmemberTM_sound p xs s t s', tmemberTM_complete p xs s⟩

/-! ## Non-vacuity -/

/-- `=(X, a, T)` on the empty store: two answers, `true` first. -/
example : (eqT (.var "X") (.atom "a") none Store.empty).map Prod.fst = [true, false] := by
  simp [evalC, eqT, Store.mgu, Store.empty, unify, solve, identical, notUnifiable, applyS, unifT, post,
    Store.consistent, Store.addEq, Store.addDif, substE, Term.vars, constEq, subst1, Term.subst, single]

/-- `=(a, a, T)`: one answer; `=(a, b, T)`: one answer. -/
example : (eqT (.atom "a") (.atom "a") none Store.empty).length = 1 := by
  simp [evalC, eqT, Store.mgu, Store.empty, unify, solve, identical, notUnifiable, applyS, unifT, post,
    Store.consistent, Store.addEq, Store.addDif, substE, Term.vars, constEq, subst1, Term.subst, single]
example : (eqT (.atom "a") (.atom "b") none Store.empty).map Prod.fst = [false] := by
  simp [evalC, eqT, Store.mgu, Store.empty, unify, solve, identical, notUnifiable, applyS, unifT, post,
    Store.consistent, Store.addEq, Store.addDif, substE, Term.vars, constEq, subst1, Term.subst, single]

/-- after `dif(X, a)` the branch `X = a` is gone: `=(X, a, T)` answers only `false`. -/
example : (eqT (.var "X") (.atom "a") none (Store.empty.addDif (.var "X") (.atom "a"))).map Prod.fst
    = [false] := by
  simp [evalC, eqT, Store.mgu, Store.empty, unify, solve, identical, notUnifiable, applyS, unifT, post,
    Store.consistent, Store.addEq, Store.addDif, substE, Term.vars, constEq, subst1, Term.subst, single]

/-- a satisfiable store exists (`Sat` is not vacuous). -/
example : Sat (fun _ => .atom "b") (Store.empty.addDif (.var "X") (.atom "a")) := by
  unfold Sat
  refine ⟨unifies_nil _, fun p hp => ?_⟩
  simp [Store.addDif, Store.empty] at hp
  subst hp
  simp [Term.subst]

end Scryer.Reif
