import ScryerModel.Model.Modules
/-!
C42 — Module qualification and imports resolve to the right definitions.
Theorems about `Scryer.Modules`: `spec` is the statement's resolution (own definition first, then
the last import that provides the predicate, else existence_error = `none`), `mirror` is the
mechanism of the code (the last writer of the module's directory cell wins). `resolve t m k` is the
single lookup used by `M:G`, by an unqualified call in a clause of `M` and by a goal that a clause
of `M` passes to a meta-predicate.
-/
namespace Scryer.Modules

def allDefs (r : List Ev) : Bool := r.all isDefn

theorem mirror_allDefs (tbl : Table) (exps : Exports) (self : MName) (r : List Ev) (k : Key)
    (h : allDefs r = true) :
    mirror tbl exps self r k = if r.any (isDef k) then some self else none := by
  induction r with
  | nil => rfl
  | cons e r ih =>
    cases e with
    | imp m sel => simp [allDefs, isDefn] at h
    | defn k' =>
      have hr : allDefs r = true := by simpa [allDefs, isDefn] using h
      simp only [mirror, ih hr, List.any_cons, isDef, writes]
      by_cases hk : k' = k <;> by_cases ha : r.any (isDef k) = true <;> simp [hk, ha]

theorem filter_allDefs (r : List Ev) (k : Key) (h : allDefs r = true) :
    allDefs (r.filter fun e => !isDef k e) = true := by
  simp only [allDefs, List.all_eq_true] at h ⊢
  intro e he
  exact h e (List.mem_filter.mp he).1

theorem any_filter_not (r : List Ev) (k : Key) :
    (r.filter fun e => !isDef k e).any (isDef k) = false := by
  induction r with
  | nil => rfl
  | cons e r ih =>
    simp only [List.filter_cons]
    cases h : isDef k e <;> simp [h, ih]

/-- When the `use_module` directives of a module precede its clauses, the mechanism of the code
    (last writer wins) computes exactly the resolution the property states. -/
theorem C42_mirror_eq_spec (tbl : Table) (exps : Exports) (self : MName) (evs : List Ev) (k : Key)
    (h : importsFirst evs = true) : mirror tbl exps self evs k = spec tbl exps self evs k := by
  induction evs with
  | nil => simp [spec, mirror]
  | cons e r ih =>
    cases e with
    | imp m sel =>
      have hr : importsFirst r = true := by simpa [importsFirst] using h
      have ih := ih hr
      simp only [spec, List.any_cons, isDef, Bool.false_or, List.filter_cons, Bool.not_false,
        if_true, mirror] at ih ⊢
      rw [ih]
      cases r.any (isDef k) <;> simp
    | defn k' =>
      have hr : allDefs r = true := by simpa [importsFirst, allDefs] using h
      have hall : allDefs (Ev.defn k' :: r) = true := by simpa [allDefs, isDefn] using hr
      rw [mirror_allDefs tbl exps self _ k hall]
      simp only [spec]
      cases hany : (Ev.defn k' :: r).any (isDef k)
      · rw [mirror_allDefs tbl exps self _ k (filter_allDefs _ k hall), any_filter_not]
        simp
      · simp

/-- The module's own definition shadows every import (statement and, for modules whose imports
    come first, mechanism). -/
theorem C42_local_shadows (tbl : Table) (exps : Exports) (self : MName) (evs : List Ev) (k : Key)
    (hdef : evs.any (isDef k) = true) :
    spec tbl exps self evs k = some self ∧
    (importsFirst evs = true → mirror tbl exps self evs k = some self) := by
  have hs : spec tbl exps self evs k = some self := by simp [spec, hdef]
  exact ⟨hs, fun h => by rw [C42_mirror_eq_spec _ _ _ _ _ h, hs]⟩

/-- Without an own definition and without any import, the call raises existence_error. -/
theorem C42_unknown (tbl : Table) (exps : Exports) (self : MName) (k : Key) :
    spec tbl exps self [] k = none := by simp [spec, mirror]

/-- One import: it provides exactly the predicates that the imported module exports and that the
    import list (if any) names, and they resolve to what the imported module's directory holds. -/
theorem C42_import_list (tbl : Table) (exps : Exports) (self m : MName) (sel : Option (List Key))
    (k : Key) :
    spec tbl exps self [.imp m sel] k =
      if (exps m).contains k && (match sel with | none => true | some l => l.contains k)
      then tbl m k else none := by
  by_cases h1 : k ∈ exps m <;> cases sel <;> simp [spec, isDef, mirror, writes, h1]

/-- A predicate that is not exported is never reachable unqualified from another module… -/
theorem C42_not_exported_invisible (tbl : Table) (exps : Exports) (self m : MName)
    (sel : Option (List Key)) (k : Key) (h : (exps m).contains k = false) :
    spec tbl exps self [.imp m sel] k = none := by
  have h' : k ∉ exps m := by simpa using h
  rw [C42_import_list]; simp [h']

/-- Of two imports that both provide the predicate, the later one wins. -/
theorem C42_last_import_wins (tbl : Table) (exps : Exports) (self m1 m2 : MName) (k : Key) (d : MName)
    (h2 : (exps m2).contains k = true) (hd : tbl m2 k = some d) :
    spec tbl exps self [.imp m1 none, .imp m2 none] k = some d := by
  have h' : k ∈ exps m2 := by simpa using h2
  simp [spec, isDef, mirror, writes, h', hd]

/-- Frame: loading a further module does not change the resolution inside the modules already
    loaded (predicates with the same name in different modules stay independent). -/
theorem C42_frame (u : Bool) (md : ModDecl) (rest : List ModDecl) (m : MName) (k : Key)
    (h : m ≠ md.name) : (build u (md :: rest)).1 m k = (build u rest).1 m k := by
  simp [build, h]

/-- …but it is reachable qualified: `M:G` is the lookup in `M`'s own directory, the same lookup
    as an unqualified call made inside `M` and as a meta-call made by a clause of `M`. -/
theorem C42_qualified_is_lookup_in_M (u : Bool) (md : ModDecl) (rest : List ModDecl) (k : Key) :
    resolve (build u (md :: rest)).1 md.name k =
      (if u then spec else mirror) (build u rest).1 (build u rest).2 md.name md.evs k := by
  simp [resolve, build]

/-! ## Witnesses -/

/-- module 1 exports p (key 7). Module 2 defines p itself, has another clause, and only then
    imports p from module 1: the statement says 2's own p answers, the code's directory says
    module 1's (finding C42-1). -/
example :
    let tbl : Table := fun m k => if m = 1 ∧ k = 7 then some 1 else none
    let exps : Exports := fun m => if m = 1 then [7] else []
    let evs := toEvs [.clause 7, .clause 8, .use 1 (some [7])] none
    spec tbl exps 2 evs 7 = some 2 ∧ mirror tbl exps 2 evs 7 = some 1 := by decide

/-- when the directive directly follows the clauses of p, the pending clause group is compiled
    after the directive has run, and the own definition wins. -/
example :
    let tbl : Table := fun m k => if m = 1 ∧ k = 7 then some 1 else none
    let exps : Exports := fun m => if m = 1 then [7] else []
    let evs := toEvs [.clause 7, .use 1 (some [7]), .clause 8] none
    mirror tbl exps 2 evs 7 = some 2 ∧ importsFirst evs = true := by decide

end Scryer.Modules
