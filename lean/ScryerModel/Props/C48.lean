import ScryerModel.Proofs.FsTree
/-!
# C48 — file-system predicates reflect and change the real file system
-/
namespace Scryer.FsTree

/-- `path_segments/2` round trip, path → segments → path, for EVERY path text (empty segments,
leading / trailing / doubled separators included). -/
theorem C48_segments_join_split (p : List Char) : joinC (splitC p) = p := joinC_splitC p

end Scryer.FsTree
