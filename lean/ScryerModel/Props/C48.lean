import ScryerModel.Proofs.FsTreeLaws
/-!
# C48 — file-system predicates reflect and change the real file system

The operating system is outside every model. What is proved here is the SPECIFICATION the real
predicates are compared against after every step of the correspondence run (`vlib/props/C48.py`):
`Model/FsTree.lean`, a finite path map with POSIX path resolution, the system calls `std::fs`
uses, std's `create_dir_all`, and the argument checks of `src/lib/files.pl`.

* `get fs p` is what the tree has at path `p` (`none`, a directory, or a file with its bytes);
  `WF fs` says every entry's parent is a directory (the path map is a tree).
* frame properties are stated through `get`: a successful call changes `get` at the touched
  path(s) only.
* all theorems hold for every tree, every working directory and every path text (any Unicode
  names, any length of script); none is bounded.
-/
namespace Scryer.FsTree

/-! ## path_segments/2 -/

/-- `path_segments/2` round trip, path → segments → path, for EVERY path text (empty segments,
leading / trailing / doubled separators included). -/
theorem C48_segments_join_split (p : List Char) : joinC (splitC p) = p := joinC_splitC p

/-- round trip segments → path → segments: for every NON-EMPTY list of separator-free segments
(the empty list joins to `""`, which splits to `[""]`: see the example below). -/
theorem C48_segments_split_join {ss : List (List Char)} (hne : ss ≠ [])
    (h : ∀ s ∈ ss, '/' ∉ s) : splitC (joinC ss) = ss := splitC_joinC hne h

/-- the segments of a path: at least one, none contains the separator, one more than there are
separators. So path ↦ segments is a bijection between path texts and non-empty lists of
separator-free segments. -/
theorem C48_segments_shape (p : List Char) :
    splitC p ≠ [] ∧ (∀ s ∈ splitC p, '/' ∉ s) ∧ (splitC p).length = p.count '/' + 1 :=
  ⟨splitC_ne_nil p, splitC_segments_noSep p, splitC_length p⟩

example : splitC (joinC []) = [[]] := by decide
example : splitC ['/'] = [[], []] := by decide
example : joinC [['a'], [], ['b']] = ['a', '/', '/', 'b'] := by decide

/-! ## documented errors: `must_be(chars, Path)` -/

/-- a non-list (an atom, a number, a list with a non-list tail) is a `type_error(list, _)`,
whatever else is wrong with it -/
theorem C48_error_not_a_list (a : Chars) (h : a.tail = .bad) : mustBeChars a = .error .eTypeList := by
  simp [mustBeChars, h]

/-- the first element that is neither a variable nor a character is a `type_error(character, _)`,
even when the list is partial or has unbound elements: type errors come before instantiation
errors -/
theorem C48_error_not_a_character (a : Chars) (k : Nat) (ht : a.tail ≠ .bad)
    (hb : firstBad a.elems = some k) : mustBeChars a = .error (.eTypeChar k) := by
  simp [mustBeChars, ht, hb]

/-- without ill-typed parts, a partial list or an unbound element is an `instantiation_error` -/
theorem C48_error_not_instantiated (a : Chars) (ht : a.tail ≠ .bad) (hb : firstBad a.elems = none)
    (hv : a.tail = .var ∨ a.elems.any (· == .var) = true) : mustBeChars a = .error .eInst := by
  rcases hv with hv | hv
  · simp [mustBeChars, hb, hv]
  · by_cases h2 : a.tail = .var
    · simp [mustBeChars, hb, h2]
    · simp [mustBeChars, ht, hb, h2, hv]

/-- a missing file is an `existence_error(file, Path)` for `file_size/2`, `delete_file/1`,
`rename_file/2`, `file_copy/2` (with the path text as given), and the tree is untouched -/
theorem C48_error_missing_file (cfg : Cfg) (fs : Fs) (a b : Chars) (sz : IntArg) (s : String)
    (ha : mustBeChars a = .ok s) (hin : escapes fs cfg.cwd s = false) (hf : isFile fs cfg.cwd s = false) :
    step cfg fs (.fileSize a sz) = (fs, .eNoFile s) ∧ step cfg fs (.deleteFile a) = (fs, .eNoFile s) ∧
    step cfg fs (.rename a b) = (fs, .eNoFile s) ∧ step cfg fs (.copy a b) = (fs, .eNoFile s) := by
  refine ⟨?_, ?_, ?_, ?_⟩
  · unfold isFile at hf
    cases hs : stat fs cfg.cwd s with
    | none => simp [step, ha, hin, hs]
    | some e =>
      cases e with
      | dir => simp [step, ha, hin, hs]
      | file b => rw [hs] at hf; simp at hf
  · simp [step, ha, hin, hf]
  · simp [step, ha, hin, hf]
  · simp [step, ha, hin, hf]

/-- a missing directory is an `existence_error(directory, Path)` for `delete_directory/1` -/
theorem C48_error_missing_directory (cfg : Cfg) (fs : Fs) (a : Chars) (s : String)
    (ha : mustBeChars a = .ok s) (hin : escapes fs cfg.cwd s = false) (hf : isDir fs cfg.cwd s = false) :
    step cfg fs (.deleteDir a) = (fs, .eNoDir s) := by
  simp [step, ha, hin, hf]

/-! ## queries reflect the tree -/

/-- `file_exists/1` and `directory_exists/1` never hold together, and what a path resolves to is
what the tree has at the lexical normal form of the path (`.`/empty components dropped, `..`
removing a name): no symbolic links, so `path_canonical/2` = normal form of the segment list. -/
theorem C48_resolution_is_normal_form {fs : Fs} (h : WF fs) {cwd : Path} {s : String} {p : Path}
    {e : Entry} (hr : resolve fs cwd s = .found p e) :
    p = lexNorm (if isAbs s then [] else cwd) (comps s) ∧ get fs p = some e ∧
    realpath fs cwd s = some (renderAbs p) ∧ ¬ (isFile fs cwd s = true ∧ isDir fs cwd s = true) := by
  refine ⟨resolve_found_lexNorm hr, resolve_found h hr, by simp [realpath, hr], ?_⟩
  cases e <;> simp [isFile, isDir, stat, hr]

/-- `directory_files/2` lists exactly the names that have an entry below the directory -/
theorem C48_directory_files (fs : Fs) (d : Path) (n : Name) :
    n ∈ children fs d ↔ get fs (d ++ [n]) ≠ none := mem_children fs d n

/-- the query predicates (and `path_segments/2`) never change the tree -/
theorem C48_queries_change_nothing (cfg : Cfg) (fs : Fs) (a : Chars) (sz : IntArg) (l : ListArg)
    (sg : SegsArg) :
    (step cfg fs (.fileExists a)).1 = fs ∧ (step cfg fs (.dirExists a)).1 = fs ∧
    (step cfg fs (.fileSize a sz)).1 = fs ∧ (step cfg fs (.dirFiles a l)).1 = fs ∧
    (step cfg fs (.canonical a l)).1 = fs ∧ (step cfg fs (.segments a sg)).1 = fs := by
  refine ⟨?_, ?_, ?_, ?_, ?_, rfl⟩
  · simp only [step]
    split
    · rfl
    · split <;> rfl
  · simp only [step]
    split
    · rfl
    · split <;> rfl
  · simp only [step]
    split
    · rfl
    · split
      · rfl
      · split
        · split <;> rfl
        · rfl
  · simp only [step]
    split
    · rfl
    · split
      · rfl
      · split
        · rfl
        · split
          · rfl
          · split <;> rfl
  · simp only [step]
    split
    · rfl
    · split
      · rfl
      · split
        · rfl
        · split
          · rfl
          · split <;> rfl

/-! ## mutations: frame properties -/

/-- `make_directory/1`: success means the path named nothing in an existing directory, and the
only change is a new empty directory there. (On an existing path, a missing parent, a file used
as a directory … the call fails and — `C48_failure_changes_nothing` — leaves the tree alone.) -/
theorem C48_make_directory_frame {fs fs' : Fs} (h : WF fs) {cwd : Path} {s : String}
    (hm : mkdir fs cwd s = .ok fs') :
    ∃ k, get fs k = none ∧ get fs k.dropLast = some .dir ∧
      (∀ q, get fs' q = if q = k then some .dir else get fs q) ∧ children fs' k = [] := by
  obtain ⟨k, hk, hn, hp, rfl⟩ := mkdir_spec h hm
  refine ⟨k, hn, hp, fun q => get_set _ _ _ _ hk, ?_⟩
  apply (children_nil_iff _ _).2
  intro q hq hd
  rw [get_set _ _ _ _ hk]
  have : q ≠ k := by intro he; rw [he] at hd; exact dropLast_ne_self hk hd
  simp only [this, if_false]
  exact no_children_of_not_dir h (by rw [hn]; simp) q hq hd

/-- `delete_directory/1`: success means the path named an EMPTY directory; it is gone and nothing
else changed -/
theorem C48_delete_directory_frame {fs fs' : Fs} (h : WF fs) {cwd : Path} {s : String}
    (hm : rmdir fs cwd s = .ok fs') :
    ∃ k, get fs k = some .dir ∧ children fs k = [] ∧
      ∀ q, get fs' q = if q = k then none else get fs q := by
  obtain ⟨k, hk, hg, hc, rfl⟩ := rmdir_spec h hm
  exact ⟨k, hg, hc, fun q => get_erase _ _ _ hk⟩

/-- `delete_file/1`: success means the path named a file; it is gone and nothing else changed -/
theorem C48_delete_file_frame {fs fs' : Fs} (h : WF fs) {cwd : Path} {s : String}
    (hm : unlink fs cwd s = .ok fs') :
    ∃ k b, get fs k = some (.file b) ∧ ∀ q, get fs' q = if q = k then none else get fs q := by
  obtain ⟨k, b, hk, hg, rfl⟩ := unlink_spec h hm
  exact ⟨k, b, hg, fun q => get_erase _ _ _ hk⟩

/-- `rename_file/2`: the source file's content is at the target (an existing FILE is
overwritten; a directory is never a target), the source name is free, nothing else changed;
renaming a file to itself changes nothing -/
theorem C48_rename_file_frame {fs fs' : Fs} (h : WF fs) {cwd : Path} {a b : String}
    (hm : rename fs cwd a b = .ok fs') :
    ∃ ps bytes, get fs ps = some (.file bytes) ∧
      (fs' = fs ∨ ∃ pd, pd ≠ ps ∧ get fs pd ≠ some .dir ∧
        ∀ q, get fs' q = if q = pd then some (.file bytes) else if q = ps then none else get fs q) := by
  obtain ⟨ps, bytes, hg, hc⟩ := rename_spec h hm
  refine ⟨ps, bytes, hg, ?_⟩
  rcases hc with rfl | ⟨pd, hne, ⟨hpd, hnd, _⟩, rfl⟩
  · exact Or.inl rfl
  · right
    refine ⟨pd, hne, hnd, fun q => ?_⟩
    rw [get_set _ _ _ _ hpd, get_erase _ _ _ (file_ne_root hg)]

/-- `file_copy/2` (repaired, see `C48_file_copy_pinned_truncates`): afterwards the target has the
source's content — so `file_size/2` of both agree —, the source still has it, and nothing else
changed -/
theorem C48_file_copy_frame {fs fs' : Fs} (h : WF fs) {cwd : Path} {a b : String}
    (hm : copy false fs cwd a b = .ok fs') :
    ∃ ps pd bytes, get fs ps = some (.file bytes) ∧ get fs' ps = some (.file bytes) ∧
      get fs' pd = some (.file bytes) ∧ get fs pd ≠ some .dir ∧ ∀ q, q ≠ pd → get fs' q = get fs q := by
  obtain ⟨ps, bytes, hg, hc⟩ := copy_spec h hm
  rcases hc with rfl | ⟨pd, hne, ⟨hpd, hnd, _⟩, rfl⟩
  · exact ⟨ps, ps, bytes, hg, hg, hg, by rw [hg]; simp, fun _ _ => rfl⟩
  · refine ⟨ps, pd, bytes, hg, ?_, ?_, hnd, fun q hq => ?_⟩
    · rw [get_set _ _ _ _ hpd]; simp [Ne.symm hne, hg]
    · rw [get_set _ _ _ _ hpd]; simp
    · rw [get_set _ _ _ _ hpd]; simp [hq]

/-- the pinned `file_copy/2` (finding C48-1): when source and target texts name the same file,
`std::fs::copy` truncates it before reading, so the "copy" is empty: for a non-empty file this
contradicts `C48_file_copy_frame` (content preserved). -/
theorem C48_file_copy_pinned_truncates {fs : Fs} {cwd : Path} {a b : String} {p : Path}
    {bytes x : List UInt8} (ha : resolve fs cwd a = .found p (.file bytes))
    (hb : resolve fs cwd b = .found p (.file x)) (hp : p ≠ []) :
    ∃ fs', copy true fs cwd a b = .ok fs' ∧ get fs' p = some (.file []) := by
  refine ⟨set fs p (.file []), by simp [copy, ha, hb], ?_⟩
  rw [get_set _ _ _ _ hp]; simp

/-- a failing call of any predicate except `make_directory_path/1` leaves the tree alone -/
theorem C48_failure_changes_nothing (cfg : Cfg) (fs : Fs) (op : Op)
    (hop : ∀ a, op ≠ .mkdirPath a) (hw : ∀ p b, op ≠ .envWrite p b)
    (hno : (step cfg fs op).2 ≠ .yes) : (step cfg fs op).1 = fs := by
  have hofe : ∀ r : Except Errno Fs, (ofExcept fs r).2 ≠ .yes → (ofExcept fs r).1 = fs := by
    intro r; unfold ofExcept; split <;> simp
  cases op with
  | fileExists a => exact (C48_queries_change_nothing cfg fs a .var .var .var).1
  | dirExists a => exact (C48_queries_change_nothing cfg fs a .var .var .var).2.1
  | fileSize a sz => exact (C48_queries_change_nothing cfg fs a sz .var .var).2.2.1
  | dirFiles a l => exact (C48_queries_change_nothing cfg fs a .var l .var).2.2.2.1
  | canonical a l => exact (C48_queries_change_nothing cfg fs a .var l .var).2.2.2.2.1
  | segments a sg => rfl
  | mkdirPath a => exact absurd rfl (hop a)
  | envWrite p b => exact absurd rfl (hw p b)
  | mkdir a =>
    cases hmb : mustBeChars a with
    | error e => simp [step, hmb]
    | ok s => simp only [step, hmb] at hno ⊢; exact hofe _ hno
  | deleteFile a =>
    cases hmb : mustBeChars a with
    | error e => simp [step, hmb]
    | ok s =>
      simp only [step, hmb] at hno ⊢
      by_cases h1 : escapes fs cfg.cwd s = true
      · rw [if_pos h1]
      · rw [if_neg h1] at hno ⊢
        by_cases h2 : isFile fs cfg.cwd s = true
        · rw [if_pos h2] at hno ⊢; exact hofe _ hno
        · rw [if_neg h2]
  | deleteDir a =>
    cases hmb : mustBeChars a with
    | error e => simp [step, hmb]
    | ok s =>
      simp only [step, hmb] at hno ⊢
      by_cases h1 : escapes fs cfg.cwd s = true
      · rw [if_pos h1]
      · rw [if_neg h1] at hno ⊢
        by_cases h2 : isDir fs cfg.cwd s = true
        · rw [if_pos h2] at hno ⊢; exact hofe _ hno
        · rw [if_neg h2]
  | rename a b =>
    cases hmb : mustBeChars a with
    | error e => simp [step, hmb]
    | ok s =>
      simp only [step, hmb] at hno ⊢
      by_cases h1 : escapes fs cfg.cwd s = true
      · rw [if_pos h1]
      · rw [if_neg h1] at hno ⊢
        by_cases h2 : isFile fs cfg.cwd s = true
        · rw [if_pos h2] at hno ⊢
          cases hb : mustBeChars b with
          | error e => simp [hb]
          | ok t => simp only [hb] at hno ⊢; exact hofe _ hno
        · rw [if_neg h2]
  | copy a b =>
    cases hmb : mustBeChars a with
    | error e => simp [step, hmb]
    | ok s =>
      simp only [step, hmb] at hno ⊢
      by_cases h1 : escapes fs cfg.cwd s = true
      · rw [if_pos h1]
      · rw [if_neg h1] at hno ⊢
        by_cases h2 : isFile fs cfg.cwd s = true
        · rw [if_pos h2] at hno ⊢
          cases hb : mustBeChars b with
          | error e => simp [hb]
          | ok t => simp only [hb] at hno ⊢; exact hofe _ hno
        · rw [if_neg h2]

/-! ## algebraic laws -/

/-- `make_directory(P)` then `directory_exists(P)` -/
theorem C48_make_directory_then_exists {fs fs' : Fs} (h : WF fs) {cwd : Path} {s : String}
    (hm : mkdir fs cwd s = .ok fs') : isDir fs' cwd s = true ∧ isFile fs' cwd s = false := by
  have hd := mkdir_then_isDir h hm
  refine ⟨hd, ?_⟩
  unfold isDir at hd; unfold isFile
  split at hd <;> simp_all

/-- `make_directory(P)` on something that exists fails -/
theorem C48_make_directory_existing {fs : Fs} {cwd : Path} {s : String}
    (hex : stat fs cwd s ≠ none) : mkdir fs cwd s = .error .exist := by
  unfold stat at hex; unfold mkdir
  split <;> simp_all

/-- delete after create restores the tree: `make_directory(P), delete_directory(P)` -/
theorem C48_create_delete_restores {fs fs1 : Fs} (h : WF fs) {cwd : Path} {s : String}
    (hm : mkdir fs cwd s = .ok fs1) :
    ∃ fs2, rmdir fs1 cwd s = .ok fs2 ∧ ∀ q, get fs2 q = get fs q := mkdir_rmdir_restores h hm

/-- after `delete_file(P)` / `delete_directory(P)` neither `file_exists(P)` nor
`directory_exists(P)` -/
theorem C48_delete_then_gone {fs fs' : Fs} (h : WF fs) {cwd : Path} {s : String}
    (hm : unlink fs cwd s = .ok fs' ∨ rmdir fs cwd s = .ok fs') :
    isFile fs' cwd s = false ∧ isDir fs' cwd s = false := by
  rcases hm with hm | hm
  · exact unlink_then_gone h hm
  · exact rmdir_then_gone h hm

/-- `delete_directory/1` refuses a directory that has an entry -/
theorem C48_delete_directory_nonempty {fs : Fs} {cwd : Path} {s : String} {p : Path} {n : Name}
    (hr : resolve fs cwd s = .found p .dir) (hc : get fs (p ++ [n]) ≠ none) :
    ∀ fs', rmdir fs cwd s ≠ .ok fs' := by
  intro fs' hm
  have hmem := (mem_children fs p n).2 hc
  unfold rmdir at hm
  split at hm
  · cases hm
  · split at hm
    · cases hm
    · rw [hr] at hm
      simp only at hm
      split at hm
      · cases hm
      · rename_i hne
        simp at hne
        rw [hne] at hmem; simp at hmem

/-- `make_directory_path/1` (std's `create_dir_all`): whether it succeeds or fails half-way, the
result is a tree in which only directories were added — every old entry is unchanged -/
theorem C48_make_directory_path_frame {fs : Fs} (h : WF fs) (cwd : Path) (s : String) :
    WF (createDirAll fs cwd s).1 ∧
    ∀ q, get (createDirAll fs cwd s).1 q = get fs q ∨
      (get fs q = none ∧ get (createDirAll fs cwd s).1 q = some .dir) := createDirAll_inv h cwd s

/-- `make_directory_path(P)` then `directory_exists(P)` -/
theorem C48_make_directory_path_then_exists {fs fs' : Fs} (h : WF fs) {cwd : Path} {s : String}
    (hc : createDirAll fs cwd s = (fs', none)) (hne : rcomps s ≠ []) : isDir fs' cwd s = true :=
  createDirAll_isDir h hc hne

/-- `make_directory_path/1` is idempotent: a second call succeeds and changes nothing -/
theorem C48_make_directory_path_idempotent {fs fs' : Fs} (h : WF fs) {cwd : Path} {s : String}
    (hc : createDirAll fs cwd s = (fs', none)) : createDirAll fs' cwd s = (fs', none) :=
  createDirAll_idem h hc

/-- resolution is stable under growth: what a path named keeps its meaning when entries are added
elsewhere (used for: queries agree with the tree after any later `make_directory…`/`file_copy`
to a new name) -/
theorem C48_resolution_stable {fs fs' : Fs} (hx : ∀ q, get fs q ≠ none → get fs' q = get fs q)
    {cwd : Path} {s : String} {p : Path} {e : Entry} (hr : resolve fs cwd s = .found p e) :
    resolve fs' cwd s = .found p e := resolve_found_stable hx hr

/-! ## the invariant over operation sequences -/

/-- every step of every script keeps the path map a tree (parents are directories); by induction
(`C48_script_invariant`) this holds after any sequence of operations, so all the statements above
apply at every step of a history -/
theorem C48_step_invariant (cfg : Cfg) (hcfg : cfg.truncSelf = false) {fs : Fs} (h : WF fs) (op : Op) :
    WF (step cfg fs op).1 := step_wf cfg hcfg h op

theorem C48_script_invariant (cfg : Cfg) (hcfg : cfg.truncSelf = false) (ops : List Op) {fs : Fs}
    (h : WF fs) : WF (exec cfg fs ops) := exec_wf cfg hcfg ops fs h

/-- the empty scratch directory is a tree -/
theorem C48_empty_tree_wf : WF [] := wf_nil

end Scryer.FsTree
