import ScryerModel.Proofs.Heap
/-!
# C33 — Heap writes never exceed the reserved capacity

Model: `Model/Heap.lean` (mirror of `src/machine/heap.rs`, with the guard of `copy_pstr_within`
FIXED as in `notes/findings/C33-1.md`). Every write the mirrored code performs is logged as a
`Write` record `(off, size, lo, hi, cap)`: `[lo, hi)` is the region the write is entitled to — the
free region `[byte_len, byte_cap)` for the direct operations, the reserved interval for writes
through a `ReservedHeapSection` — and `cap` the capacity at the time of the write.
-/
namespace Scryer.Heap

/-- **Capacity invariant, every operation sequence.** Starting from any heap that satisfies the
invariant, after ANY sequence of operations (pushes, reservations with writes, string allocation,
string copying, slice copying, appending, truncation, list and functor writing, grows that succeed
or fail in any pattern): `byte_len ≤ byte_cap`, both are multiples of the cell size, the memory
contents are exactly the `byte_len` bytes written, and every write ever logged stayed inside its
region, which in turn was inside the allocation of that moment. -/
theorem C33_capacity_invariant (h : Heap) (ops : List Op) (i : Inv h) :
    (run h ops).len ≤ (run h ops).cap ∧ 8 ∣ (run h ops).len ∧ 8 ∣ (run h ops).cap ∧
    (run h ops).mem.length = (run h ops).len ∧
    ∀ w ∈ (run h ops).log, w.lo ≤ w.off ∧ w.off + w.size ≤ w.hi ∧ w.hi ≤ w.cap := by
  have r := run_inv ops h i
  exact ⟨r.len_le, Nat.dvd_of_mod_eq_zero r.len8, Nat.dvd_of_mod_eq_zero r.cap8, r.memLen, r.logOk⟩

/-- The heaps the code starts from satisfy the invariant: `Heap::new()` … -/
theorem C33_new_heap_inv : Inv ({} : Heap) :=
  ⟨Nat.le_refl _, rfl, rfl, by decide, rfl, fun _ hw => by cases hw⟩

/-- … and `Heap::with_cell_capacity(n)` whenever it returns a heap (the real function leaves the
`isize::MAX` bound to `Layout::from_size_align(..).unwrap()`, which panics beyond it). -/
theorem C33_with_cell_capacity_inv (n : Nat) (b : Option Nat) (h : Heap)
    (e : withCellCapacity n b = some h) (hmax : n * 8 ≤ isizeMax) : Inv h := by
  unfold withCellCapacity at e
  split at e
  · cases e
  · cases e
    exact ⟨Nat.zero_le _, rfl, by show heapIndex n % 8 = 0; unfold heapIndex; omega,
      hmax, rfl, fun _ hw => by cases hw⟩

/-- **Every operation sequence from a fresh heap**: no write outside the capacity of the moment,
whatever the fill level reached. -/
theorem C33_fresh_heap_all_sequences (n : Nat) (b : Option Nat) (h : Heap)
    (e : withCellCapacity n b = some h) (hmax : n * 8 ≤ isizeMax) (ops : List Op) :
    (run h ops).len ≤ (run h ops).cap ∧
    ∀ w ∈ (run h ops).log, w.off + w.size ≤ w.cap := by
  have r := C33_capacity_invariant h ops (C33_with_cell_capacity_inv n b h e hmax)
  exact ⟨r.1, fun w hw => by have := r.2.2.2.2 w hw; omega⟩

/-- **One step**: each single operation keeps the invariant; when it reports `AllocError` or
panics, nothing was written (`byte_len`, contents and log are those before the call; only
successful grows may have enlarged the capacity); it never leaves the model (`stuck`). -/
theorem C33_step (h : Heap) (op : Op) (i : Inv h) :
    match step h op with
    | .ok h' _ => Inv h' ∧ h.cap ≤ h'.cap
    | .allocErr h' => h'.len = h.len ∧ h'.mem = h.mem ∧ h'.log = h.log ∧ h.cap ≤ h'.cap ∧ Inv h'
    | .panic h' => h'.len = h.len ∧ h'.mem = h.mem ∧ h'.log = h.log ∧ h.cap ≤ h'.cap ∧ Inv h'
    | .contract h' => h' = h
    | .stuck => False := by
  have p := step_post h op i
  cases hr : step h op with
  | ok h' a => rw [hr] at p; exact p
  | allocErr h' => rw [hr] at p; exact ⟨p.len_eq, p.mem_eq, p.log_eq, p.cap_le, p.inv i⟩
  | panic h' => rw [hr] at p; exact ⟨p.len_eq, p.mem_eq, p.log_eq, p.cap_le, p.inv i⟩
  | contract h' => rw [hr] at p; exact p
  | stuck => rw [hr] at p; exact p

/-- **A failed grow leaves `(len, cap, contents)` unchanged**: `grow` returning `false` … -/
theorem C33_failed_grow_unchanged (h h' : Heap) (e : h.grow = .failed h') : h' = h :=
  (grow_failed e).1

/-- … and an operation that fails because its FIRST grow fails (no allocation succeeds:
budget 0) returns the heap it was given, bit for bit. -/
theorem C33_failed_operation_unchanged (h h' : Heap) (op : Op) (i : Inv h)
    (hb : h.budget = some 0) (e : step h op = .allocErr h') : h' = h := by
  have p := step_post h op i
  rw [e] at p
  exact p.budget0 hb

/-- **Inside a reservation**: `reserve(n)` followed by `write_with(f)`, for any writer `f` that
only uses the section's `push_cell` / `push_pstr_segment` / `push_pstr` (`SecStep`) and writes at
most `n` cells: every write of the call is logged with exactly the reserved interval
`[byte_len, byte_len + 8·n)` as its region (and, by the invariant, stays inside it). -/
theorem C33_reservation_interval {α : Type} (h h2 : Heap) (n : Nat) (f : Section → Section × α) (a : α)
    (i : Inv h) (hf : ∀ sec, SecStep sec (f sec).1) (e : h.withReserved n f = .ok h2 a) :
    ∀ w ∈ h2.log, w ∈ h.log ∨ (w.lo = h.len ∧ w.hi = h.len + n * 8) := by
  unfold Heap.withReserved at e
  split at e
  · cases e
  · have spec := growUntil_spec loopFuel h (n * 8)
    cases hg : growUntil loopFuel h (n * 8) with
    | ok h' u =>
      rw [hg] at e spec
      simp only at e
      cases e
      have g := spec.1
      have hci := cellLen_heapIndex (g.inv i)
      intro w hw
      have := (hf ⟨h', h'.cellLen, heapIndex h'.cellLen, heapIndex h'.cellLen + n * 8⟩).logNew w hw
      rw [hci, g.len_eq, g.log_eq] at this
      exact this
    | allocErr h' => rw [hg] at e; cases e
    | panic h' => rw [hg] at e; cases e
    | contract h' => rw [hg] at e; cases e
    | stuck => rw [hg] at e; cases e

/-- instance for `allocate_pstr`: all its writes lie in the interval it reserved. -/
theorem C33_allocate_pstr_interval (h h2 : Heap) (src : List Nat) (c : Cell) (i : Inv h)
    (e : h.allocatePstr src = .ok h2 c) :
    Inv h2 ∧ ∀ w ∈ h2.log, w ∈ h.log ∨
      (w.lo = h.len ∧ w.hi = h.len + computePstrSize src * 8 ∧ w.lo ≤ w.off ∧ w.off + w.size ≤ w.hi ∧ w.hi ≤ w.cap) := by
  have p := allocatePstr_post h src i
  rw [e] at p
  refine ⟨p.1, fun w hw => ?_⟩
  have := C33_reservation_interval h h2 (computePstrSize src) (pstrWriter src) c i
    (fun sec => by rw [pstrWriter_fst]; exact pushPstr_step sec src) e w hw
  rcases this with o | n
  · exact Or.inl o
  · exact Or.inr ⟨n.1, n.2, p.1.logOk w hw⟩

/-- **The size relation `allocate_pstr` / `allocate_cstr` / `functor_writer` rely on**: the
number `compute_pstr_size(s)` — handed to `reserve` as a number of CELLS — is at least the number
of cells `push_pstr(s)` writes plus the tail cell of `allocate_cstr`; indeed
`4·cells + 8 ≤ compute_pstr_size(s)`, for every string (any length mod 8, any NUL pattern). -/
theorem C33_pstr_reservation_suffices (sec : Section) (src : List Nat) :
    4 * ((sec.pushPstr src).1.cellLen - sec.cellLen) + 8 ≤ computePstrSize src ∧
    ((sec.pushPstr src).1.cellLen - sec.cellLen) + 1 ≤ computePstrSize src := by
  have := pushPstr_count sec src
  exact ⟨this, by omega⟩

/-- arithmetic the code leaves unchecked: `compute_pstr_size(s) ≤ 16·len(s) + 8` for every
string, so its `usize` additions (and the `+ 1` of `allocate_cstr`) cannot overflow for strings
shorter than 2^59 bytes. -/
theorem C33_compute_pstr_size_bound (src : List Nat) : computePstrSize src ≤ 16 * src.length + 8 := by
  have := cps_bound (src.length + 1) src (by omega)
  unfold computePstrSize heapIndex
  omega

/-! ## witnesses: what the invariant is sensitive to -/

/-- the state of finding C33-1, reached by real operations: a 32-cell heap, `"abcdefg"`
allocated, 29 more cells pushed: `byte_len = 248`, `byte_cap = 256`. -/
def witnessHeap : Heap :=
  run ((withCellCapacity 32 (some 0)).getD {})
    (Op.allocPstr [97, 98, 99, 100, 101, 102, 103] :: (List.range 29).map fun k => Op.pushCell (.raw k))

/-- **Witness (finding C33-1).** With the guard of the ORIGINAL code
(`free_space() >= copy_size`) `copy_pstr_within` breaks the invariant on a reachable state:
the copy of the 7-byte string ends at `byte_len = 264 > byte_cap = 256`, the last logged write is
`[256, 264)`. With the fixed guard the same call fails cleanly (no grow allowed here). -/
theorem C33_witness_old_copy_guard :
    (witnessHeap.len, witnessHeap.cap) = (248, 256) ∧
    (witnessHeap.copyPstrWithinG copyNeedOld 0).lenCap = some (264, 256) ∧
    ((witnessHeap.copyPstrWithinG copyNeedOld 0).heapD {}).log.head? = some ⟨256, 8, 248, 256, 256⟩ ∧
    (witnessHeap.copyPstrWithin 0).lenCap = some (248, 256) := by
  decide +kernel

/-- **The defect characterised for every state**: whenever the string at `loc` has length ≡ 7
(mod 8) and exactly `copy_size` bytes are free, the original guard lets the copy run 8 bytes past
the capacity. -/
theorem C33_old_guard_overruns (h : Heap) (loc : Nat) (str : List Nat) (t : Nat)
    (hloc : ¬ loc > h.len) (hs : scanSliceToStr h.mem h.len loc = some (str, t))
    (h7 : str.length % 8 = 7) (hfree : h.freeSpace = str.length + 1) :
    ∃ h', h.copyPstrWithinG copyNeedOld loc = .ok h' t ∧ h'.len = h.len + h.freeSpace + 8 ∧ h'.cap = h.cap := by
  have ha : pstrSentinelLength str.length = 1 := by rw [sentinel_eq]; omega
  unfold Heap.copyPstrWithinG
  rw [if_neg hloc, hs]
  dsimp only
  rw [growUntil_fits h _ (by unfold copyNeedOld; rw [ha, hfree]; exact Nat.le_refl _)]
  dsimp only
  rw [if_pos ha]
  exact ⟨_, rfl, by show h.len + (str.length + pstrSentinelLength str.length + heapIndex 1) = _;
                    rw [ha, hfree]; unfold heapIndex; omega, rfl⟩

/-- bytes of `"a\0b\0c"` -/
def nulString : List Nat := [97, 0, 98, 0, 99]

/-- **Witness (units of `compute_pstr_size`).** The value is NOT a bound in the unit its
documentation states (bytes): for `"a\0b\0c"` it is 64 bytes = 8 cells while `push_pstr` writes 9
cells (72 bytes), 10 with the tail cell of `allocate_cstr`. Reserving `cell_index!(size) + 1`
cells ("fixing" the unit mismatch) would let `allocate_cstr` write 16 bytes beyond its
reservation, and at the right fill level beyond the capacity: on a 10-cell heap with one cell in
use the reservation of 9 cells fits exactly and `byte_len` ends at 88 > 80. The code as it is
(size taken as cells) reserves 65 cells and stays inside (`C33_pstr_reservation_suffices`). -/
theorem C33_witness_pstr_size_is_not_a_byte_bound :
    computePstrSize nulString = 64 ∧
    ((⟨{}, 0, 0, 0⟩ : Section).pushPstr nulString).1.cellLen = 9 ∧
    (((run ((withCellCapacity 10 (some 0)).getD {}) [Op.pushCell (.raw 0)]).allocateCstrG
        (fun s => cellIndex (computePstrSize s)) nulString).lenCap = some (88, 80)) := by
  decide +kernel

/-- **Witness (caller contract of `sized_iter_to_heap_list`).** The reservation is computed from
`size`, the writes from the iterator: an iterator that yields more than `size` items overruns the
reservation (1-item reservation = 3 cells on a heap with exactly 3 free cells; 2 items write 5).
All callers in the code base pass the iterator's own length. -/
theorem C33_witness_list_contract :
    ((run ((withCellCapacity 4 (some 0)).getD {}) [Op.pushCell (.raw 0)]).sizedIterToHeapList 1
        [.raw 1, .raw 2]).lenCap = some (48, 32) := by
  decide +kernel

/-! ## non-vacuity -/

/-- the hypotheses are satisfiable and the interesting branches are reached: a sequence that grows
(0 → 524288), reserves, allocates strings of length 7 and 8 and one with NULs, copies the 7-byte
string at a fill level where the extra cell matters, fails a grow, truncates. -/
def demoOps : List Op :=
  [.pushCell (.raw 1), .allocCstr [97, 98, 99, 100, 101, 102, 103], .allocPstr [1, 2, 3, 4, 5, 6, 7, 8],
   .allocCstr nulString, .copyPstrWithin 8, .reserveWrite 3 [.raw 1, .raw 2], .heapList 2 [.raw 1, .raw 2],
   .functor (errorStub [104, 105]), .copySliceToEnd 1 3, .append (encodeCell (.raw 9)),
   .setBudget (some 0), .reserveWrite 100000 [], .truncate 2, .grow]

example : ((run {} demoOps).len, (run {} demoOps).cap) = (16, 524288) := by decide +kernel

example : (step (run {} (demoOps.take 11)) (.reserveWrite 100000 [])).lenCap = some (264, 524288) ∧
    (match step (run {} (demoOps.take 11)) (.reserveWrite 100000 []) with
      | .allocErr _ => true | _ => false) = true := by decide +kernel

example : Inv (run {} demoOps) := run_inv _ _ C33_new_heap_inv

/-- the fixed guard on the witness state when a grow is allowed: the heap doubles first. -/
example : ({ witnessHeap with budget := none }.copyPstrWithin 0).lenCap = some (264, 512) := by
  decide +kernel

end Scryer.Heap
