import ScryerModel.Proofs.IntRel
/-!
# C49 — Integer relation builtins enumerate exactly their relations

Property theorems over `Model/IntRel.lean`, the clause-by-clause transcription of `between/3`,
`succ/2`, `numlist/3` (library(between), library(iso_ext), library(error)) and `length/2`
(library(lists) with `'$skip_max_list'` / `'$det_length_rundown'` of system_calls.rs).

Conventions. A goal run for `n` answers yields `Res.ans as` (`as` = the first `n` answers; fewer than
`n` means finite failure after them), `Res.err e` (error before any answer) or `Res.hang as` (still
searching an unending candidate stream). Answers are tuples of the relation. All integers are
mathematical integers: no bound on magnitude anywhere except where a hypothesis says so.
`rangeIncl l u` is `[l, l+1, …, u]`.

Two theorems are `_partial` because the pinned code does not satisfy the full statement:
`C49_length_spec_partial` (negative lengths below `-2^63`, finding C49-1) — the full statement is
proved for the code with the proposed one-line fix (`C49_length_spec_fixed`) — and
`C49_numlist3_bound_list_partial` (no termination with a bound list and an unbound bound, C49-2).
-/
namespace Scryer.IntRel

/-! ## The interval `[l..u]` -/

/-- `[l..u]` contains exactly the integers between `l` and `u`, in ascending order, each once;
it has `u + 1 - l` elements (none if `u < l`). -/
theorem C49_range_exact (l u : Int) :
    (∀ x, x ∈ rangeIncl l u ↔ (l ≤ x ∧ x ≤ u)) ∧ (rangeIncl l u).Pairwise (· < ·) ∧
      (rangeIncl l u).Nodup ∧ (rangeIncl l u).length = (u + 1 - l).toNat :=
  ⟨mem_rangeIncl l u, rangeIncl_sorted l u, rangeIncl_nodup l u, length_rangeIncl l u⟩

/-! ## between/3 -/

/-- `between/3` equals its specification for every combination of arguments (unbound, integer,
ill-typed) and every answer limit. -/
theorem C49_between_spec (n : Nat) (L U X : Arg) : between n L U X = specBetween n L U X :=
  between_eq_spec n L U X

/-- Enumeration mode: the first `n` answers of `between(l, u, X)` are the first `n` elements of
`[l..u]` — ascending, once each (with `C49_range_exact`). -/
theorem C49_between_enumerates (n : Nat) (l u : Int) (v : Nat) :
    between n (.int l) (.int u) (.var v) = .ans ((rangeIncl l u).take n) := by
  rw [between_eq_spec, specBetween, rangeTake_eq_take]

/-- … and the enumeration terminates: asked for more answers than `[l..u]` has, the goal delivers
exactly `[l..u]` and fails finitely. -/
theorem C49_between_terminates (n : Nat) (l u : Int) (v : Nat) (h : (u + 1 - l).toNat < n) :
    between n (.int l) (.int u) (.var v) = .ans (rangeIncl l u) ∧ (rangeIncl l u).length < n := by
  rw [C49_between_enumerates, List.take_of_length_le (by rw [length_rangeIncl]; omega)]
  exact ⟨rfl, by rw [length_rangeIncl]; exact h⟩

/-- no answer when the interval is empty -/
theorem C49_between_empty (n : Nat) (l u : Int) (v : Nat) (h : u < l) :
    between n (.int l) (.int u) (.var v) = .ans [] := by
  rw [between_eq_spec, specBetween, rangeTake_empty n l u h]

/-- An upper bound out of reach: every finite prefix of the answers is `l, l+1, l+2, …`. -/
theorem C49_between_unbounded_prefix (n : Nat) (l u : Int) (v : Nat) (h : l + n ≤ u + 1) :
    between n (.int l) (.int u) (.var v) = .ans ((List.range n).map fun (i : Nat) => l + (i : Int)) := by
  rw [between_eq_spec, specBetween, rangeTake]
  have e : min n (u + 1 - l).toNat = n := by omega
  rw [e]

/-- Test mode: `between(l, u, x)` succeeds (once) iff `l ≤ x ≤ u`. -/
theorem C49_between_test (n : Nat) (l u x : Int) (hn : 1 ≤ n) :
    between n (.int l) (.int u) (.int x) = (if l ≤ x ∧ x ≤ u then .ans [x] else .ans []) := by
  rw [between_eq_spec, specBetween]
  split
  · simp [ansN, List.take_of_length_le, hn]
  · rfl

/-- Error table of `between/3`: the first argument, in the order Lower, Upper, X, that is unbound
(Lower, Upper only) or not an integer decides. An atom such as `inf` is ill-typed: this version of
the library has no infinite upper bound. -/
theorem C49_between_errors (n : Nat) (U X : Arg) (l u : Int) (v k : Nat) :
    between n (.var v) U X = .err .inst ∧
    between n (.bad k) U X = .err (.typeInt (.bad k)) ∧
    between n (.int l) (.var v) X = .err .inst ∧
    between n (.int l) (.bad k) X = .err (.typeInt (.bad k)) ∧
    between n (.int l) (.int u) (.bad k) = .err (.typeInt (.bad k)) := by
  simp only [between_eq_spec]
  refine ⟨rfl, rfl, ?_, ?_, rfl⟩ <;> cases X <;> rfl

/-! ## succ/2 -/

theorem C49_succ_spec (n : Nat) (I S : Arg) : succ n I S = specSucc n I S := succ_eq_spec n I S

/-- Mode (+,-): `S = I + 1` for `I ≥ 0`, a domain error for negative `I`. -/
theorem C49_succ_forward (n : Nat) (i : Int) (v : Nat) (hn : 1 ≤ n) :
    succ n (.int i) (.var v) = (if 0 ≤ i then .ans [(i, i + 1)] else .err (.domNlz i)) := by
  rw [succ_eq_spec]
  by_cases h : 0 ≤ i
  · have h' : ¬ i < 0 := by omega
    simp [specSucc, specNlzErr, h, h', ansN, List.take_of_length_le, hn]
  · have h' : i < 0 := by omega
    simp [specSucc, specNlzErr, h, h']

/-- Mode (-,+): `I = S - 1` for `S ≥ 1`, failure for `S = 0` (no natural number precedes it), a
domain error for negative `S`. -/
theorem C49_succ_backward (n : Nat) (s : Int) (v : Nat) (hn : 1 ≤ n) :
    succ n (.var v) (.int s) =
      (if s < 0 then .err (.domNlz s) else if 1 ≤ s then .ans [(s - 1, s)] else .ans []) := by
  rw [succ_eq_spec]
  by_cases h : s < 0
  · simp [specSucc, specNlzErr, h]
  · by_cases g : 1 ≤ s <;> simp [specSucc, specNlzErr, h, g, ansN, List.take_of_length_le, hn]

/-- Mode (+,+) on natural numbers: succeeds iff `S = I + 1`. -/
theorem C49_succ_test (n : Nat) (i s : Int) (hn : 1 ≤ n) (hi : 0 ≤ i) (hs : 0 ≤ s) :
    succ n (.int i) (.int s) = (if s = i + 1 then .ans [(i, s)] else .ans []) := by
  rw [succ_eq_spec]
  have h1 : ¬ i < 0 := by omega
  have h2 : ¬ s < 0 := by omega
  simp only [specSucc, specNlzErr, h1, h2, ↓reduceIte]
  split <;> simp [ansN, List.take_of_length_le, hn]

/-- Every answer of `succ/2`, in every mode, is a pair `(i, i + 1)` with `i ≥ 0` that is compatible
with the arguments; there is at most one. -/
theorem C49_succ_sound (n : Nat) (I S : Arg) (as : List (Int × Int)) (h : succ n I S = .ans as) :
    as.length ≤ 1 ∧ ∀ p ∈ as, p.2 = p.1 + 1 ∧ 0 ≤ p.1 ∧ argAdmits I p.1 = true ∧ argAdmits S p.2 = true := by
  rw [succ_eq_spec] at h
  cases I with
  | bad k => simp [specSucc, specNlzErr] at h
  | var v =>
    cases S with
    | bad k => simp [specSucc, specNlzErr] at h
    | var w => simp [specSucc, specNlzErr] at h
    | int s =>
      by_cases hs : s < 0
      · simp [specSucc, specNlzErr, hs] at h
      · by_cases g : 1 ≤ s
        · simp only [specSucc, specNlzErr, hs, g, ↓reduceIte, ansN, Res.ans.injEq] at h
          exact take_singleton_sound n _ _ ⟨by simp, by simp; omega, by simp [argAdmits], by simp [argAdmits]⟩ as h
        · simp only [specSucc, specNlzErr, hs, g, ↓reduceIte, Res.ans.injEq] at h
          subst h; simp
  | int i =>
    by_cases hi : i < 0
    · cases S <;> simp [specSucc, specNlzErr, hi] at h
    · cases S with
      | bad k => simp [specSucc, specNlzErr, hi] at h
      | var w =>
        simp only [specSucc, specNlzErr, hi, ↓reduceIte, ansN, Res.ans.injEq] at h
        exact take_singleton_sound n _ _ ⟨rfl, by simp; omega, by simp [argAdmits], by simp [argAdmits]⟩ as h
      | int s =>
        by_cases hs : s < 0
        · simp [specSucc, specNlzErr, hi, hs] at h
        · by_cases g : s = i + 1
          · subst g
            simp only [specSucc, specNlzErr, hi, hs, ↓reduceIte, ansN, Res.ans.injEq] at h
            exact take_singleton_sound n _ _ ⟨rfl, by simp; omega, by simp [argAdmits], by simp [argAdmits]⟩ as h
          · simp only [specSucc, specNlzErr, hi, hs, g, ↓reduceIte, Res.ans.injEq] at h
            subst h; simp

/-- … and every such pair is found: if some `i ≥ 0` is compatible with `I` and `i + 1` with `S`,
and not both are unbound, the goal answers exactly `(i, i + 1)`. -/
theorem C49_succ_complete (n : Nat) (I S : Arg) (i : Int) (hn : 1 ≤ n) (hi : 0 ≤ i)
    (hI : argAdmits I i = true) (hS : argAdmits S (i + 1) = true)
    (hv : ¬ ∃ v w, I = .var v ∧ S = .var w) : succ n I S = .ans [(i, i + 1)] := by
  rw [succ_eq_spec]
  have h1 : ¬ i < 0 := by omega
  have h2 : ¬ i + 1 < 0 := by omega
  have h3 : 1 ≤ i + 1 := by omega
  cases I with
  | bad k => simp [argAdmits] at hI
  | var v =>
    cases S with
    | bad k => simp [argAdmits] at hS
    | var w => exact absurd ⟨v, w, rfl, rfl⟩ hv
    | int s =>
      have e : s = i + 1 := by simpa [argAdmits] using hS
      subst e
      simp [specSucc, specNlzErr, h2, h3, ansN, List.take_of_length_le, hn]
  | int i' =>
    have e : i' = i := by simpa [argAdmits] using hI
    subst e
    cases S with
    | bad k => simp [argAdmits] at hS
    | var w => simp [specSucc, specNlzErr, h1, ansN, List.take_of_length_le, hn]
    | int s =>
      have e : s = i' + 1 := by simpa [argAdmits] using hS
      subst e
      simp [specSucc, specNlzErr, h1, h2, ansN, List.take_of_length_le, hn]

/-- Error table of `succ/2`: an argument that is not an integer gives `type_error(integer, _)`, a
negative integer `domain_error(not_less_than_zero, _)` (the first argument is examined first), two
unbound arguments an instantiation error. -/
theorem C49_succ_errors (n : Nat) (S : Arg) (i : Int) (v w k : Nat) (hi : i < 0) :
    succ n (.bad k) S = .err (.typeInt (.bad k)) ∧
    succ n (.int i) S = .err (.domNlz i) ∧
    succ n (.var v) (.bad k) = .err (.typeInt (.bad k)) ∧
    succ n (.var v) (.int i) = .err (.domNlz i) ∧
    succ n (.var v) (.var w) = .err .inst := by
  simp only [succ_eq_spec]
  refine ⟨?_, ?_, ?_, ?_, ?_⟩ <;> simp [specSucc, specNlzErr, hi]

/-! ## numlist/3 -/

/-- With integer bounds: `numlist(l, u, Xs)` holds iff `l ≤ u` and `Xs = [l..u]` (one answer, then
finite failure). -/
theorem C49_numlist3_ints (n fuel : Nat) (l u : Int) (Xs : LArg) :
    numlist3 n fuel (.int l) (.int u) Xs
      = (if l ≤ u ∧ unifyInts (rangeIncl l u) Xs = true then ansN n [(l, u, rangeIncl l u)] else .ans []) := by
  simp only [numlist3, canBeInt, numlistFound, numlistBody_eq]
  split <;> simp [ansN]

/-- the specification used as oracle by the correspondence check agrees with it -/
theorem C49_numlist3_ints_spec (n fuel : Nat) (l u : Int) (Xs : LArg) :
    numlist3 n fuel (.int l) (.int u) Xs = specNumlist3 n fuel (.int l) (.int u) Xs := by
  rw [C49_numlist3_ints]
  simp [specNumlist3, canBeInt]

/-- a list is `[l..u]` with `l ≤ u` for exactly the bounds the specification computes from it -/
theorem C49_boundsOf_iff (xs : List Int) (l u : Int) :
    boundsOf xs = some (l, u) ↔ (l ≤ u ∧ xs = rangeIncl l u) := boundsOf_iff xs l u

/-- Error table of `numlist/3`: `can_be(integer, Lower)`, then `can_be(integer, Upper)`. -/
theorem C49_numlist3_errors (n fuel : Nat) (L U : Arg) (Xs : LArg) (k : Nat) (hL : canBeInt L = none) :
    numlist3 n fuel (.bad k) U Xs = .err (.typeInt (.bad k)) ∧
    numlist3 n fuel L (.bad k) Xs = .err (.typeInt (.bad k)) := by
  constructor
  · simp [numlist3, canBeInt]
  · cases L <;> simp_all [numlist3, canBeInt]

/-- Soundness in every mode: each answer `(l, u, xs)` satisfies `l ≤ u`, `xs = [l..u]`, and is
compatible with the arguments. -/
theorem C49_numlist3_sound (n fuel : Nat) (L U : Arg) (Xs : LArg) (as : List Tuple)
    (h : numlist3 n fuel L U Xs = .ans as ∨ numlist3 n fuel L U Xs = .hang as) :
    ∀ t ∈ as, t.1 ≤ t.2.1 ∧ t.2.2 = rangeIncl t.1 t.2.1 ∧ unifyInts t.2.2 Xs = true ∧
      (∀ l, L = .int l → t.1 = l) ∧ (∀ u, U = .int u → t.2.1 = u) := by
  intro t ht
  apply numlistFound_sound fuel L U Xs t
  unfold numlist3 at h
  split at h
  · rcases h with h | h <;> exact absurd h (by simp)
  · split at h
    · rcases h with h | h <;> exact absurd h (by simp)
    · split at h
      · rcases h with h | h
        · simp only [ansN, Res.ans.injEq] at h; subst h; exact List.mem_of_mem_take ht
        · exact absurd h (by simp [ansN])
      · unfold search at h
        split at h
        · rcases h with h | h
          · simp only [Res.ans.injEq] at h; subst h; exact List.mem_of_mem_take ht
          · exact absurd h (by simp)
        · rcases h with h | h
          · exact absurd h (by simp)
          · simp only [Res.hang.injEq] at h; subst h; exact ht

/-- Fairness in every mode: each tuple of the relation that is compatible with the arguments is
among the answers found once enough candidates have been scanned (and stays there). -/
theorem C49_numlist3_complete (L U : Arg) (Xs : LArg) (hL : canBeInt L = none) (hU : canBeInt U = none)
    (l u : Int) (hlu : l ≤ u) (hx : unifyInts (rangeIncl l u) Xs = true)
    (hl : ∀ l', L = .int l' → l = l') (hu : ∀ u', U = .int u' → u = u') :
    ∃ fuel0, ∀ fuel, fuel0 ≤ fuel → (l, u, rangeIncl l u) ∈ numlistFound fuel L U Xs :=
  numlistFound_complete L U Xs hL hU l u hlu hx hl hu

/-- No tuple is answered twice, in any mode. -/
theorem C49_numlist3_no_duplicates (fuel : Nat) (L U : Arg) (Xs : LArg) :
    (numlistFound fuel L U Xs).Nodup := numlistFound_nodup fuel L U Xs

/-- The candidate generators never run dry: `gen_int/1` has produced at least `d` candidates after
`d` levels, for every `d`. -/
theorem C49_gen_int_unending (d : Nat) : d ≤ (enumerateInts d 0).length := length_enumerateInts_ge d 0

/-- `gen_int/1` enumerates every integer exactly once (`0, 1, -1, 2, -2, …`). -/
theorem C49_gen_int_bijective (d : Nat) (x : Int) :
    (x ∈ enumerateInts d 0 ↔ x.natAbs < d) ∧ (enumerateInts d 0).Nodup :=
  ⟨mem_enumerateInts_zero d x, enumerateInts_nodup d 0 (by omega)⟩

/-- `diag_ints/2` enumerates every pair of integers exactly once. -/
theorem C49_diag_ints_bijective (q : Int × Int) : (∃ d, q ∈ diagInts d) ∧ ∀ d, (diagInts d).Nodup :=
  ⟨mem_diagInts q, diagInts_nodup⟩

/-- PARTIAL (finding C49-2). With a bound list and an unbound bound the relation has at most one
tuple, and the pinned code finds it, but it then goes on searching for ever: asked for two answers
it never returns, whatever the scan fuel. What is missing for the property: termination. -/
theorem C49_numlist3_bound_list_partial (fuel : Nat) (L U : Arg) (xs : List Int)
    (hL : canBeInt L = none) (hU : canBeInt U = none) (hm : ¬ ∃ l u, L = .int l ∧ U = .int u) :
    numlist3 2 fuel L U (.ints xs) = .hang (numlistFound fuel L U (.ints xs)) ∧
      (numlistFound fuel L U (.ints xs)).length ≤ 1 :=
  ⟨numlist3_bound_list_hangs fuel L U xs hL hU hm, numlistFound_bound_list_le_one fuel L U xs⟩

/-! ## length/2 -/

/-- PARTIAL (finding C49-1). `length/2` of the pinned code equals its specification for lists that
fit a 64-bit address space, lengths whose list fits the heap (`cap`), and integer lengths not below
`-2^63`. What is missing: the domain error for integers below `-2^63` (see the examples below). -/
theorem C49_length_spec_partial (cap n fresh : Nat) (xs : PList) (N : Arg)
    (hk : (xs.k : Int) < 2 ^ 63)
    (hN : ∀ i, N = .int i → -(2 ^ 63) ≤ i ∧ (∀ t, xs.tail = .var t → i - xs.k ≤ cap)) :
    length true cap n fresh xs N = specLength n fresh xs N :=
  length_eq_spec true cap n fresh xs N hk (fun i e => ⟨fun _ => (hN i e).1, (hN i e).2⟩)

/-- With the fix proposed in notes/findings/C49-1.md (`is_integer() && !is_negative()`) the
specification holds for every integer length. -/
theorem C49_length_spec_fixed (cap n fresh : Nat) (xs : PList) (N : Arg)
    (hk : (xs.k : Int) < 2 ^ 63)
    (hN : ∀ i, N = .int i → ∀ t, xs.tail = .var t → i - xs.k ≤ cap) :
    length false cap n fresh xs N = specLength n fresh xs N :=
  length_eq_spec false cap n fresh xs N hk (fun i e => ⟨fun h => (by cases h), hN i e⟩)

/-- A proper list with `k` elements has length `k`: `N` unbound gives the single answer `k`; an
integer `N ≥ -2^63` succeeds iff `N = k` (negative: domain error). -/
theorem C49_length_proper (p : Bool) (cap n fresh k v : Nat) (hn : 1 ≤ n) (hk : (k : Int) < 2 ^ 63) :
    length p cap n fresh ⟨k, .nil⟩ (.var v) = .ans [⟨k, []⟩] ∧
    ∀ i : Int, 0 ≤ i →
      length p cap n fresh ⟨k, .nil⟩ (.int i) = (if i = k then .ans [⟨i, []⟩] else .ans []) := by
  constructor
  · rw [length_eq_spec p cap n fresh ⟨k, .nil⟩ (.var v) hk (by intro i e; cases e)]
    simp [specLength, ansN, List.take_of_length_le, hn]
  · intro i hi
    rw [length_eq_spec p cap n fresh ⟨k, .nil⟩ (.int i) hk
      (by intro j e; cases e; exact ⟨fun _ => by omega, fun t e => by cases e⟩)]
    have : ¬ i < 0 := by omega
    simp only [specLength, this, ↓reduceIte]
    split <;> simp [ansN, List.take_of_length_le, hn]

/-- A partial list with `k` elements and an unbound length (not the tail itself): for every `n`,
the first `n` answers are `N = k, k+1, …, k+n-1`, the `j`-th with the tail bound to a list of `j`
variables that are pairwise distinct and do not occur in the query (`≥ fresh`). The enumeration
never ends (there are `n` answers for every `n`). -/
theorem C49_length_partial_enumerates (p : Bool) (cap n fresh k t v : Nat) (hvt : v ≠ t)
    (hk : (k : Int) < 2 ^ 63) :
    length p cap n fresh ⟨k, .var t⟩ (.var v)
        = .ans ((List.range n).map fun (j : Nat) => (⟨(k : Int) + (j : Int), freshVars fresh j⟩ : LenAns)) ∧
      ∀ j, (freshVars fresh j).length = j ∧ (freshVars fresh j).Nodup ∧ ∀ x ∈ freshVars fresh j, fresh ≤ x := by
  constructor
  · rw [length_eq_spec p cap n fresh ⟨k, .var t⟩ (.var v) hk (by intro i e; cases e)]
    simp [specLength, hvt]
  · intro j
    exact ⟨length_freshVars _ _, freshVars_nodup _ _, fun x hx => ((mem_freshVars _ _ _).1 hx).1⟩

/-- A partial list with `k` elements and an integer length `i ≥ 0`: failure if `i < k`; otherwise the
tail becomes a list of `i - k` fresh variables (when such a list fits the heap). -/
theorem C49_length_partial_bound (p : Bool) (cap n fresh k t : Nat) (i : Int) (hn : 1 ≤ n) (hi : 0 ≤ i)
    (hk : (k : Int) < 2 ^ 63) (hc : i - k ≤ cap) :
    length p cap n fresh ⟨k, .var t⟩ (.int i)
      = (if i < k then .ans [] else .ans [⟨i, freshVars fresh (i - k).toNat⟩]) := by
  rw [length_eq_spec p cap n fresh ⟨k, .var t⟩ (.int i) hk
    (by intro j e; cases e; exact ⟨fun _ => by omega, fun _ _ => hc⟩)]
  have : ¬ i < 0 := by omega
  simp only [specLength, this, ↓reduceIte]
  split <;> simp [ansN, List.take_of_length_le, hn]

/-- Error table of `length/2`, whatever the first argument: a length that is not an integer gives
`type_error(integer, N)`; a negative integer (for the pinned code: not below `-2^63`) gives
`domain_error(not_less_than_zero, N)`; a partial list whose tail is the length variable gives
`resource_error(finite_memory)`. A term that is no (partial) list just fails. -/
theorem C49_length_errors_partial (p : Bool) (cap n fresh : Nat) (xs : PList) (b k t : Nat) (i : Int)
    (hk : (xs.k : Int) < 2 ^ 63) (hi : i < 0) (hp : p = true → -(2 ^ 63) ≤ i) :
    length p cap n fresh xs (.bad b) = .err (.typeInt (.bad b)) ∧
    length p cap n fresh xs (.int i) = .err (.domNlz i) ∧
    length p cap n fresh ⟨k, .var t⟩ (.var t) = .err .resFinite ∧
    length p cap n fresh ⟨k, .nonlist⟩ (.var t) = .ans [] := by
  refine ⟨?_, ?_, ?_, ?_⟩
  · rw [length_eq_spec p cap n fresh xs (.bad b) hk (by intro j e; cases e)]; rfl
  · rw [length_eq_spec p cap n fresh xs (.int i) hk
      (by intro j e; cases e; exact ⟨hp, fun _ _ => by omega⟩)]
    simp [specLength, hi]
  · simp [length, skip_var]
  · simp [length, skip_var]

/-! ## Non-vacuity and the two findings on the model of the pinned code -/

example : between 8 (.int 1) (.int 3) (.var 0) = .ans [1, 2, 3] := by decide
example : between 3 (.int (2 ^ 64 - 1)) (.int (2 ^ 70)) (.var 0) = .ans [2 ^ 64 - 1, 2 ^ 64, 2 ^ 64 + 1] := by decide
example : between 8 (.int 1) (.bad 0) (.var 0) = .err (.typeInt (.bad 0)) := by decide
example : succ 2 (.var 0) (.int 0) = .ans [] := by decide
example : succ 2 (.int (2 ^ 63 - 1)) (.var 0) = .ans [(2 ^ 63 - 1, 2 ^ 63)] := by decide
example : length true 100 3 2 ⟨2, .var 0⟩ (.var 1)
    = .ans [⟨2, []⟩, ⟨3, [2]⟩, ⟨4, [2, 3]⟩] := by decide
example : length true 100 3 2 ⟨2, .var 0⟩ (.int 1) = .ans [] := by decide
example : length true 100 3 2 ⟨2, .var 0⟩ (.int (-1)) = .err (.domNlz (-1)) := by decide
/-- the hypotheses of `C49_length_spec_partial` are satisfiable with a bignum length -/
example : length true 100 3 2 ⟨3, .nil⟩ (.int (2 ^ 64)) = specLength 3 2 ⟨3, .nil⟩ (.int (2 ^ 64)) := by decide
/-- finding C49-1 on the model: below `-2^63` the pinned code fails / runs out of memory … -/
example : length true 100 3 2 ⟨3, .nil⟩ (.int (-(2 ^ 63) - 1)) = .ans [] := by decide
example : length true 100 3 2 ⟨0, .var 0⟩ (.int (-(2 ^ 63) - 1)) = .err .resMemory := by decide
/-- … where the specification, and the fixed code, raise the domain error -/
example : specLength 3 2 ⟨3, .nil⟩ (.int (-(2 ^ 63) - 1)) = .err (.domNlz (-(2 ^ 63) - 1)) := by decide
example : length false 100 3 2 ⟨3, .nil⟩ (.int (-(2 ^ 63) - 1)) = .err (.domNlz (-(2 ^ 63) - 1)) := by decide
/-- finding C49-2 on the model: `numlist(L, U, [0,1])` finds `(0,1)` and is still searching -/
example : numlist3 1 3 (.var 0) (.var 1) (.ints [0, 1]) = .ans [(0, 1, [0, 1])] := by
  rw [show numlist3 1 3 (.var 0) (.var 1) (.ints [0, 1])
    = search 1 (numlistFound 3 (.var 0) (.var 1) (.ints [0, 1])) from rfl]
  simp [numlistFound, diagInts, diagNats2, diagNats4, diagNatsNext, diagNatsSigns, numlistBody_eq, rangeIncl,
    unifyInts, search, List.range_succ_eq_map]
example : ∀ fuel, ∃ as, numlist3 2 fuel (.var 0) (.var 1) (.ints [0, 1]) = .hang as :=
  fun fuel => ⟨_, (C49_numlist3_bound_list_partial fuel (.var 0) (.var 1) [0, 1] rfl rfl (by simp)).1⟩
example : specNumlist3 2 9 (.var 0) (.var 1) (.ints [0, 1]) = .ans [(0, 1, [0, 1])] := by decide

end Scryer.IntRel
