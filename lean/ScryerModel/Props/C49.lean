import ScryerModel.Proofs.IntRel
namespace Scryer.IntRel

end Scryer.IntRel
