import ScryerModel.Proofs.Random
/-! # C52 — Random number predicates are in range and reproducible (work in progress) -/
namespace Scryer.Random

/-- every value accepted by rand's rejection loop is below `range`. -/
theorem C52_sampleLoop_lt (w : Width) (s : Stream) (range zn fuel p : Nat) (r : Nat × Nat) (hr : 0 < range)
    (h : sampleLoop w s range zn fuel p = some r) : r.1 < range := (sampleLoop_lt w s range zn hr fuel p r h).1

end Scryer.Random
