import ScryerModel.Proofs.Random
import Mathlib.Order.Interval.Finset.Nat
/-!
# C52 — Random number predicates are in range and reproducible

Theorems over `Model/Random.lean`, the branch-by-branch mirror of `random.pl`, of the system calls
`'$random_integer'`, `'$maybe'`, `'$set_seed'`, of rand 0.8.6 `UniformInt::sample_single_inclusive`
and of dashu-int 0.4.2 `UBig::uniform` / `try_fill_uniform`.

Every theorem is for an ARBITRARY raw word stream `s : Nat → UInt32`, read position `p`, fuel, and
integer bounds of any size and sign.  The rejection loops carry fuel; `… = some …` means "the call
returned"; that it returns with probability 1 is not a theorem (see `C52_fuel_irrelevant` for what
fuel means and `C52_uniform_preimages` for the acceptance count per attempt).

Integers carry their representation (`big` = held in an arena `Integer`), because the system call
chooses its sampler by representation.  `ArgWf`: a `Fixnum` cell holds a 56-bit value (an invariant
of the machine); an arena integer may hold anything.
-/
namespace Scryer.Random

/-- a `Fixnum` cell holds a value of the 56-bit range; an arena integer any value. -/
def ArgWf (n : Int) (big : Bool) : Prop := big = false → isFix n = true

/-! ## range safety -/

/-- **Acceptance is in range (one word / double word sampler).** Whatever the stream, every value the
    rejection loop of `sample_single_inclusive` returns is `< range`, and the call consumed words. -/
theorem C52_sample_accept_lt (w : Width) (s : Stream) (range fuel p : Nat) (r : Nat × Nat)
    (hr : 0 < range) (h : sampleOffset w s range fuel p = some r) : r.1 < range ∧ p < r.2 :=
  ⟨(sampleOffset_lt w s range fuel p r h).2.1 hr, (sampleOffset_lt w s range fuel p r h).2.2⟩

/-- **Multi-word sampler (spans ≥ 2^128 and below).** Every value `UBig::uniform(range)` returns is
    `< range`, for every positive `range` of any size. -/
theorem C52_uniform_ubig_lt (s : Stream) (range fuel p : Nat) (x : Nat × Nat) (hr : 0 < range)
    (h : uniformUBig s range fuel p = some x) : x.1 < range :=
  (uniformUBig_lt s range fuel p x hr h).1

/-- **Range safety of the system call**: for `L < U` of any size and sign, in every representation
    arm, the value left in the third argument satisfies `L ≤ X < U`; the fixnum arm's
    `Fixnum::build_with_unchecked` is applied to a value of the fixnum range; words were consumed. -/
theorem C52_sys_range (s : Stream) (l u : Int) (lb ub : Bool) (fuel p : Nat) (res : Res) (p' : Nat)
    (hl : ArgWf l lb) (hu : ArgWf u ub) (hlu : l < u)
    (h : sysRandomInteger s l u lb ub fuel p = some (res, p')) :
    ∃ v, res.val? = some v ∧ l ≤ v ∧ v < u ∧ (res = .fix v → isFix v = true) ∧ p < p' := by
  unfold sysRandomInteger at h
  split at h
  · rename_i hc
    simp only [Bool.and_eq_true, Bool.not_eq_true'] at hc
    rw [if_neg (by omega)] at h
    split at h
    · cases h
    · rename_i r hr
      injection h with h; injection h with h1 h2; subst h1; subst h2
      have := genRangeI64_spec s l u fuel p r (hl hc.1) (hu hc.2) hlu hr
      exact ⟨r.1, rfl, this.1, this.2.1, fun _ => this.2.2.1, this.2.2.2⟩
  · rw [if_neg (by omega)] at h
    split at h
    · cases h
    · rename_i r hr
      injection h with h; injection h with h1 h2; subst h1; subst h2
      have := uniformUBig_lt s (u - l).toNat fuel p r (by omega) hr
      refine ⟨(r.1 : Int) + l, rfl, by omega, by omega, (fun hf => by cases hf), this.2⟩

/-- **Failure iff the range is empty**, and then no raw word is consumed. -/
theorem C52_sys_fail_iff (s : Stream) (l u : Int) (lb ub : Bool) (fuel p : Nat) (res : Res) (p' : Nat)
    (h : sysRandomInteger s l u lb ub fuel p = some (res, p')) :
    (res = .fail ↔ u ≤ l) ∧ (res = .fail → p' = p) := by
  unfold sysRandomInteger at h
  by_cases hge : l ≥ u
  · simp only [hge, if_true, ite_self] at h
    injection h with h; injection h with h1 h2; subst h1; subst h2
    exact ⟨⟨fun _ => hge, fun _ => rfl⟩, fun _ => rfl⟩
  · simp only [hge, if_false] at h
    have : res ≠ .fail := by
      split at h
      · split at h
        · cases h
        · injection h with h; injection h with h1 h2; subst h1; intro hh; cases hh
      · split at h
        · cases h
        · injection h with h; injection h with h1 h2; subst h1; intro hh; cases hh
    exact ⟨⟨fun hh => absurd hh this, fun hh => absurd hh hge⟩, fun hh => absurd hh this⟩

/-- **`random_integer/3`, integer bounds, unbound third argument**: `L ≤ X < U` whenever `L < U`
    (any size, any sign, any representation); failure without touching the generator when `U ≤ L`. -/
theorem C52_random_integer_range (s : Stream) (l u : Int) (lb ub : Bool) (fuel p : Nat) (out : Out) (p' : Nat)
    (hl : ArgWf l lb) (hu : ArgWf u ub)
    (h : randomInteger s (.int l lb) (.int u ub) .var fuel p = some (out, p')) :
    (l < u → ∃ v, out = .int v ∧ l ≤ v ∧ v < u ∧ p < p') ∧ (u ≤ l → out = .fails ∧ p' = p) := by
  simp only [randomInteger] at h
  by_cases hlu : l < u
  · simp only [hlu, if_true] at h
    refine ⟨fun _ => ?_, fun hh => absurd hlu (by omega)⟩
    split at h
    · cases h
    · rename_i p1 hs
      have := (C52_sys_fail_iff s l u lb ub fuel p .fail p1 hs).1.1 rfl
      omega
    · rename_i v p1 hs
      injection h with h; injection h with h1 h2; subst h1; subst h2
      obtain ⟨v', hv', h1, h2, _, h4⟩ := C52_sys_range s l u lb ub fuel p (.fix v) p1 hl hu hlu hs
      cases hv'; exact ⟨v, rfl, h1, h2, h4⟩
    · rename_i v p1 hs
      injection h with h; injection h with h1 h2; subst h1; subst h2
      obtain ⟨v', hv', h1, h2, _, h4⟩ := C52_sys_range s l u lb ub fuel p (.big v) p1 hl hu hlu hs
      cases hv'; exact ⟨v, rfl, h1, h2, h4⟩
  · simp only [hlu, if_false] at h
    injection h with h; injection h with h1 h2
    exact ⟨fun hh => absurd hh hlu, fun _ => ⟨h1.symm, h2.symm⟩⟩

/-- a range of width one always yields its lower bound. -/
theorem C52_span_one (s : Stream) (l : Int) (lb ub : Bool) (fuel p : Nat) (out : Out) (p' : Nat)
    (hl : ArgWf l lb) (hu : ArgWf (l + 1) ub)
    (h : randomInteger s (.int l lb) (.int (l + 1) ub) .var fuel p = some (out, p')) : out = .int l := by
  obtain ⟨v, hv, h1, h2, _⟩ := (C52_random_integer_range s l (l + 1) lb ub fuel p out p' hl hu h).1 (by omega)
  have : v = l := by omega
  rw [hv, this]

/-! ## error / failure table (in the code's order; no raw word is consumed) -/

/-- a bound third argument makes the call fail before anything else is looked at (`var(R)`). -/
theorem C52_random_integer_nonvar_result (s : Stream) (L U R : Arg) (fuel p : Nat) (hR : R ≠ .var) :
    randomInteger s L U R fuel p = some (.fails, p) := by
  cases R with
  | var => exact absurd rfl hR
  | int n b => rfl
  | other t => rfl

/-- unbound `Lower` or `Upper`: `instantiation_error`, even if the other bound is not an integer. -/
theorem C52_random_integer_inst_error (s : Stream) (L U : Arg) (fuel p : Nat) (h : L = .var ∨ U = .var) :
    randomInteger s L U .var fuel p = some (.instErr "random_integer/3", p) := by
  rcases h with rfl | rfl
  · cases U <;> rfl
  · cases L <;> rfl

/-- non-integer `Lower` (with `Upper` bound): `type_error(integer, Lower)`;
    integer `Lower` and non-integer `Upper`: `type_error(integer, Upper)`. -/
theorem C52_random_integer_type_error (s : Stream) (t : String) (U : Arg) (n : Int) (b : Bool) (fuel p : Nat) :
    (U ≠ .var → randomInteger s (.other t) U .var fuel p = some (.typeErrInt t "random_integer/3", p)) ∧
    randomInteger s (.int n b) (.other t) .var fuel p = some (.typeErrInt t "random_integer/3", p) := by
  refine ⟨fun hU => ?_, rfl⟩
  cases U with
  | var => exact absurd rfl hU
  | int n b => rfl
  | other t' => rfl

/-! ## random/1 -/

/-- **`random/1` is in `[0, 1)`, never 1.0, and exact**: the result is the double with bits
    `ratioBits K` for some `K < 2^50` drawn by the fixnum arm; those bits are below the bits of `1.0`
    (`0x3FF0000000000000`; sign bit clear), `K = 0` gives `+0.0`, and for `K > 0` the double is a
    normal number whose value `(2^52 + mantissa) · 2^(exponent − 1075)` equals `K / 2^50` exactly. -/
theorem C52_random_unit_interval (s : Stream) (fuel p : Nat) (out : Out) (p' : Nat)
    (h : random s .var fuel p = some (out, p')) :
    ∃ k : Nat, k < 2 ^ 50 ∧ out = .float (ratioBits k) ∧ ratioBits k < 0x3FF0000000000000 ∧
      (k = 0 → ratioBits k = 0) ∧
      (0 < k → 1 ≤ ratioBits k / 2 ^ 52 ∧ ratioBits k / 2 ^ 52 ≤ 1022 ∧
        (2 ^ 52 + ratioBits k % 2 ^ 52) * 2 ^ 50 = k * 2 ^ (1075 - ratioBits k / 2 ^ 52)) := by
  have hfix0 : ArgWf 0 false := fun _ => by decide
  have hfixN : ArgWf 1125899906842624 false := fun _ => by decide
  have key : ∀ k : Nat, k < 2 ^ 50 → ratioBits k < 0x3FF0000000000000 ∧ (k = 0 → ratioBits k = 0) ∧
      (0 < k → 1 ≤ ratioBits k / 2 ^ 52 ∧ ratioBits k / 2 ^ 52 ≤ 1022 ∧
        (2 ^ 52 + ratioBits k % 2 ^ 52) * 2 ^ 50 = k * 2 ^ (1075 - ratioBits k / 2 ^ 52)) := by
    intro k hk
    by_cases h0 : k = 0
    · subst h0
      exact ⟨by simp [ratioBits], (fun _ => by simp [ratioBits]), (fun h => absurd h (by omega))⟩
    · have hpos : 0 < k := by omega
      obtain ⟨e1, e2⟩ := ratioBits_spec hpos (by omega : k < 2 ^ 53)
      have hl : Nat.log2 k + 1 ≤ 50 := log2_lt_bits h0 hk
      refine ⟨?_, fun hh => absurd hh h0, fun _ => ⟨by omega, by omega, by rw [e1]; exact e2⟩⟩
      have hm : ratioBits k % 2 ^ 52 < 2 ^ 52 := Nat.mod_lt _ (by norm_num)
      have := Nat.div_add_mod (ratioBits k) (2 ^ 52)
      omega
  simp only [random] at h
  split at h
  · cases h
  · rename_i p1 hs
    have := (C52_sys_fail_iff s 0 1125899906842624 false false fuel p .fail p1 hs).1.1 rfl
    omega
  · rename_i v p1 hs
    injection h with h; injection h with h1 h2
    obtain ⟨v', hv', h1', h2', _⟩ := C52_sys_range s 0 1125899906842624 false false fuel p (.fix v) p1 hfix0 hfixN (by decide) hs
    cases hv'
    have hk : v.toNat < 2 ^ 50 := by omega
    exact ⟨v.toNat, hk, h1.symm, key _ hk⟩
  · rename_i v p1 hs
    injection h with h; injection h with h1 h2
    obtain ⟨v', hv', h1', h2', _⟩ := C52_sys_range s 0 1125899906842624 false false fuel p (.big v) p1 hfix0 hfixN (by decide) hs
    cases hv'
    have hk : v.toNat < 2 ^ 50 := by omega
    exact ⟨v.toNat, hk, h1.symm, key _ hk⟩

/-- `maybe/0` succeeds iff the sign bit of the next raw word (`w32 s p`, the word at the read position) is clear; it consumes exactly one word. -/
theorem C52_maybe (s : Stream) (p : Nat) :
    ((maybe s p).1 = .succeeds ↔ w32 s p < 2 ^ 31) ∧ ((maybe s p).1 = .fails ↔ 2 ^ 31 ≤ w32 s p) ∧
    (maybe s p).2 = p + 1 := by
  simp only [maybe, sysMaybe]
  by_cases h : w32 s p < 2 ^ 31
  · have hd : decide (w32 s p < 2 ^ 31) = true := decide_eq_true h
    simp only [hd, if_true]
    refine ⟨by simp; omega, ?_, by simp⟩
    simp; omega
  · have hd : decide (w32 s p < 2 ^ 31) = false := decide_eq_false h
    simp only [hd, Bool.false_eq_true, if_false]
    refine ⟨by simp; omega, ?_, by simp⟩
    simp; omega

/-! ## uniformity of one attempt -/

/-- **Exact uniformity of the widening-multiply sampler.** For `0 < range < 2^bits` the wrapping zone
    computation never wraps (`zone + 1 = range · 2^lz`), and every result `k < range` has exactly
    `2^lz` accepted raw words (`lz = range.leading_zeros()`) among the `2^bits` possible ones: the map
    raw word ↦ result restricted to accepted words is a `2^lz`-to-1 surjection onto `[0, range)`.
    Hence each attempt accepts with probability `range · 2^lz / 2^bits ≥ 1/2`, independently of
    everything drawn before, and accepted values are unbiased. -/
theorem C52_uniform_preimages (w : Width) (range k : Nat) (h0 : range ≠ 0) (hlt : range < 2 ^ w.bits)
    (hk : k < range) :
    zone w range + 1 = range * 2 ^ leadingZeros w.bits range ∧
    2 ^ (w.bits - 1) ≤ zone w range + 1 ∧
    ((Finset.range (2 ^ w.bits)).filter
      (fun v => (v * range) % 2 ^ w.bits ≤ zone w range ∧ (v * range) / 2 ^ w.bits = k)).card
      = 2 ^ leadingZeros w.bits range := by
  have hz := zone_eq w h0 hlt
  obtain ⟨hs1, hs2⟩ := shifted_bounds w h0 hlt
  refine ⟨hz, by omega, ?_⟩
  have hr : 0 < range := by omega
  set m := 2 ^ leadingZeros w.bits range with hm
  set B := 2 ^ w.bits with hB
  have hset : (Finset.range B).filter (fun v => (v * range) % B ≤ zone w range ∧ (v * range) / B = k)
      = Finset.Ico ((k * B + range - 1) / range) ((k * B + range - 1) / range + m) := by
    ext v
    simp only [Finset.mem_filter, Finset.mem_range, Finset.mem_Ico]
    have e1 : ((v * range) % B ≤ zone w range ∧ (v * range) / B = k) ↔
        ((v * range) % B < range * m ∧ (v * range) / B = k) := by
      rw [← hz]; constructor <;> rintro ⟨a, b⟩ <;> exact ⟨by omega, b⟩
    rw [e1, accept_iff_window B range m k (v * range) (by omega), window_iff_Ico B range m k v hr]
    constructor
    · rintro ⟨_, h⟩; exact h
    · intro h
      refine ⟨?_, h⟩
      -- every accepted word is a `bits`-bit word
      have hw := (window_iff_Ico B range m k v hr).2 h
      have h1 : k * B + B ≤ range * B := by
        have : (k + 1) * B ≤ range * B := Nat.mul_le_mul_right B (by omega)
        rw [Nat.add_mul] at this; omega
      have h2 : v * range < B * range := by rw [Nat.mul_comm B range]; omega
      exact Nat.lt_of_mul_lt_mul_right h2
  rw [hset, Nat.card_Ico, Nat.add_sub_cancel_left]

/-- the decision of one attempt of the loop depends only on the words of that attempt: the loop is
    "draw, test, return or repeat from the next position" (the unfolding equation). -/
theorem C52_rejection_memoryless (w : Width) (s : Stream) (range zn fuel p : Nat) :
    sampleLoop w s range zn (fuel + 1) p =
      if ((gen w s p).1 * range) % 2 ^ w.bits ≤ zn then
        some (((gen w s p).1 * range) / 2 ^ w.bits, (gen w s p).2)
      else sampleLoop w s range zn fuel (gen w s p).2 := rfl

/-! ## determinism / reproducibility -/

/-- **Fuel only bounds the search**: if a call returns with some fuel, it returns the same value and
    position with any larger fuel — an answer is a function of (stream, position, bounds) only. -/
theorem C52_fuel_irrelevant (s : Stream) (L U R : Arg) (fuel fuel' p : Nat) (x : Out × Nat)
    (hle : fuel ≤ fuel') (h : randomInteger s L U R fuel p = some x) :
    randomInteger s L U R fuel' p = some x := by
  cases R with
  | int n b => exact h
  | other t => exact h
  | var =>
    cases L with
    | var => cases U <;> exact h
    | other t => cases U <;> exact h
    | int l lb =>
      cases U with
      | var => exact h
      | other t => exact h
      | int u ub =>
        simp only [randomInteger] at h ⊢
        split
        · rename_i hlu
          rw [if_pos hlu] at h
          split at h
          · cases h
          all_goals (rename_i hs; rw [sysRandomInteger_mono s l u lb ub fuel fuel' p _ hle hs]; exact h)
        · rename_i hlu; rw [if_neg hlu] at h; exact h

/-- **`set_random(seed(S))` erases the history**: whatever the generator state was (entropy-seeded,
    any earlier seed, any number of earlier draws), the outcomes of the calls that follow
    `set_random(seed(S))` are the same — a function of `S mod 2^64` and of the calls. -/
theorem C52_reseed_forgets_history (mk : Nat → Stream) (fuel : Nat) (g g' : GenState) (S : Int) (cs : List Call) :
    (runScript mk fuel g (.setRandom (.seedInt S) :: cs)).1 =
    (runScript mk fuel g' (.setRandom (.seedInt S) :: cs)).1 := by
  simp [runScript, step, setRandom]

/-- after a successful `set_random(seed(S))` the script's outcomes are those of the fresh generator of
    the seed `S mod 2^64` at position 0. -/
theorem C52_reseed_is_fresh (mk : Nat → Stream) (fuel : Nat) (g : GenState) (S : Int) (cs : List Call) :
    runScript mk fuel g (.setRandom (.seedInt S) :: cs) =
      (.succeeds :: (runScript mk fuel (some (toU64 S, 0)) cs).1, (runScript mk fuel (some (toU64 S, 0)) cs).2) := by
  simp [runScript, step, setRandom]

/-- **`set_random/1` table** (repaired `'$set_seed'`): every integer seed of any size and sign is
    accepted; unbound seed → `instantiation_error`; non-integer seed → `type_error(integer, S)`;
    a non-`seed/1` argument fails; the three non-success cases leave the generator alone. -/
theorem C52_set_random_table (g : GenState) (n : Int) (t : String) :
    setRandom (.seedInt n) g = (.succeeds, some (toU64 n, 0)) ∧ toU64 n < 2 ^ 64 ∧
    setRandom .var g = (.instErr "set_random/1", g) ∧
    setRandom .seedVar g = (.instErr "set_random/1", g) ∧
    setRandom (.seedOther t) g = (.typeErrInt t "set_random/1", g) ∧
    setRandom .other g = (.fails, g) := by
  refine ⟨rfl, ?_, rfl, rfl, rfl, rfl⟩
  unfold toU64; omega

/-- the pinned `'$set_seed'` agrees with the repaired one exactly on seeds in `0 .. 2^64`, and panics
    (finding C52-1) on every other integer. -/
theorem C52_pinned_set_seed (g : GenState) (n : Int) :
    (0 ≤ n ∧ n < 18446744073709551616 → setRandomPinned (.seedInt n) g = setRandom (.seedInt n) g) ∧
    (¬ (0 ≤ n ∧ n < 18446744073709551616) → (setRandomPinned (.seedInt n) g).1 = .panic) := by
  constructor
  · intro h
    simp only [setRandomPinned, h, and_self, if_true, setRandom]
    congr 3
    unfold toU64; omega
  · intro h
    simp only [setRandomPinned, h, if_false]

/-! ## non-vacuity and witnesses -/

/-- a stream whose every fourth word is `0x80000000`, all others 0. -/
def altStream : Stream := fun i => if i % 4 = 3 then 0x80000000 else 0

/-- **The answer depends on the representation of the bounds, not only on their values**: with the
    same stream and position, `random_integer(0, 10, X)` gives 0 (two raw words, u64 sampler) when
    both bounds are `Fixnum` cells and 5 (four raw words, u128 sampler) when the bound 0 sits in an
    arena integer (e.g. `L is 2^80-2^80`, or the literal `-36028797018963968` for −2^55). Both are in
    range; calls with `==`-equal arguments need not return the same value after the same seed. -/
theorem C52_representation_matters :
    randomInteger altStream (.int 0 false) (.int 10 false) .var 1 0 = some (.int 0, 2) ∧
    randomInteger altStream (.int 0 true) (.int 10 false) .var 1 0 = some (.int 5, 4) := by
  constructor <;> decide

/-- a stream of all-zero words. -/
def zeroStream : Stream := fun _ => 0

/-- the fixnum arm returns on the zero stream (product 0: accepted at once, value `L`). -/
example : randomInteger zeroStream (.int (-3) false) (.int 10 false) .var 1 0 = some (.int (-3), 2) := by decide
/-- the u128 arm (a span of 2^64 + 3 straddling the fixnum boundary). -/
example : randomInteger zeroStream (.int 5 false) (.int 18446744073709551624 true) .var 1 7 = some (.int 5, 11) := by
  decide
/-- empty and reversed ranges fail without consuming a word. -/
example : randomInteger zeroStream (.int 4 false) (.int 4 false) .var 1 9 = some (.fails, 9) := by decide
example : randomInteger zeroStream (.int 18446744073709551624 true) (.int 4 false) .var 1 9 = some (.fails, 9) := by decide
/-- fuel 0: the loop gives up (the only way the model returns `none`). -/
example : randomInteger zeroStream (.int 0 false) (.int 4 false) .var 0 0 = none := by decide
/-- the pinned `'$set_seed'` panics on `seed(-1)` and on `seed(2^64)` (finding C52-1). -/
example : (setRandomPinned (.seedInt (-1)) none).1 = .panic := by decide
example : (setRandomPinned (.seedInt 18446744073709551616) none).1 = .panic := by decide
/-- the repaired one accepts them: `-1` is the seed `2^64 - 1`. -/
example : setRandom (.seedInt (-1)) none = (.succeeds, some (18446744073709551615, 0)) := by decide
/-- `ArgWf` is satisfiable in both representations, also for a small value in an arena integer. -/
example : ArgWf 5 false ∧ ArgWf 5 true ∧ ArgWf (2 ^ 70) true := by
  unfold ArgWf
  exact ⟨fun _ => by decide, (fun h => by cases h), (fun h => by cases h)⟩

end Scryer.Random
