import ScryerModel.Proofs.Json
import ScryerModel.Proofs.JsonGrammar
/-!
# C41 — JSON text and JSON terms convert faithfully both ways

Theorems about the model `Model/Json.lean` of `library(serialization/json)`:
`J` is the documented term form, `gen` the first answer of `phrase(json_chars(V), Cs)` for a
ground `V`, `parse` the answer of `phrase(json_chars(V), Cs)` for a ground text `Cs`
(`none` = no answer). All statements are for every value / every text: there is no bound on
depth, length or magnitude. `v.wf` only says that the decimals standing for float tokens are
normalised (`Num.wf`; integers, strings, containers are unrestricted) — every value the parser
returns is `wf` (`C41_parse_canonical`).

The library itself (a Prolog DCG) is tied to this model only by the differential run of
`vlib/props/C41.py`; the conversion decimal → IEEE double is outside the model.
Only statements live here; the lemmas are in `Proofs/Json.lean` and `Proofs/JsonGrammar.lean`
(the latter also holds the declarative grammar `Doc`, one relation per nonterminal of the DCG).
-/
namespace Scryer.Json

/-- **Round trip.** Text generated from any value parses back to exactly that value:
    nested objects/arrays of any depth, every string, every integer, every canonical decimal. -/
theorem C41_roundtrip (v : J) (hw : v.wf) : parse (gen v) = some v :=
  parse_gen v hw

/-- The round trip also holds inside any context the generator can produce: after the text of a
    value may come the end, `,`, `]` or `}`, and any fuel of at least `need v` steps is enough. -/
theorem C41_roundtrip_in_context (v : J) (hw : v.wf) (f : Nat) (rest : List Char)
    (hf : need v ≤ f) (hr : closeFollow rest) :
    parseValue f (gen v ++ rest) = some (v, rest) :=
  rtV v hw f rest hf hr

/-- **String escapes.** For every list of characters — quotes, backslashes, `/`, the control
    characters (`\b \f \n \r \t` and `\u00xx`), DEL, non-BMP characters — the generated string
    body is read back as the same list, whatever follows the closing quote. -/
theorem C41_string_roundtrip (s rest : List Char) :
    parseChars (genChars s ++ '"' :: rest) = some (s, rest) :=
  parseChars_genChars s rest

/-- as a document -/
theorem C41_string_document_roundtrip (s : List Char) : parse (gen (.str s)) = some (.str s) :=
  parse_gen (.str s) trivial

/-- **Surrogate pairs.** `\uHHHH\uLLLL` with a high and a low surrogate (any mixture of upper-
    and lower-case hex digits) is ONE character: the code point of the pair, which lies
    outside the BMP. (Today's library raises `representation_error` here: finding C41-1.) -/
theorem C41_surrogate_pair_decodes {a b c d a' b' c' d' : Char} {hi lo : Nat} (r : List Char)
    (h1 : hex4 a b c d = some hi) (hh : isHighSurr hi = true)
    (h2 : hex4 a' b' c' d' = some lo) (hl : isLowSurr lo = true) :
    parseChars ('\\' :: 'u' :: a :: b :: c :: d :: '\\' :: 'u' :: a' :: b' :: c' :: d' :: r)
        = consRes (Char.ofNat (surrPair hi lo)) (parseChars r)
      ∧ (Char.ofNat (surrPair hi lo)).toNat = surrPair hi lo
      ∧ 0x10000 ≤ surrPair hi lo ∧ surrPair hi lo ≤ 0x10FFFF :=
  ⟨parseChars_pair h1 hh h2 hl, surrPair_toNat hh hl, surrPair_range hh hl⟩

/-- A low surrogate that is not the second half of a pair is rejected. -/
theorem C41_lone_low_surrogate_rejected {a b c d : Char} {n : Nat} (r : List Char)
    (h1 : hex4 a b c d = some n) (hl : isLowSurr n = true) :
    parseChars ('\\' :: 'u' :: a :: b :: c :: d :: r) = none :=
  parseChars_lone_low h1 hl

/-- A high surrogate that is not followed by an escaped low surrogate is rejected. -/
theorem C41_lone_high_surrogate_rejected {a b c d : Char} {n : Nat} (r : List Char)
    (h1 : hex4 a b c d = some n) (hh : isHighSurr n = true)
    (hr : ∀ a' b' c' d' r' lo, r = '\\' :: 'u' :: a' :: b' :: c' :: d' :: r' →
      hex4 a' b' c' d' = some lo → isLowSurr lo = false) :
    parseChars ('\\' :: 'u' :: a :: b :: c :: d :: r) = none :=
  parseChars_lone_high h1 hh hr

/-- **Number tokens, integers.** For every integer (no bound on magnitude) the decimal spelling
    written by the generator is read back as that integer, provided the token ends there (the
    next character is not a digit, `.`, `e` or `E`). -/
theorem C41_integer_token_roundtrip (n : Int) (rest : List Char) (h : numFollow rest) :
    parseNumber (genInt n ++ rest) = some (.int n, rest) :=
  parseNumber_genInt n rest h

/-- **Number tokens, decimals.** Same for every canonical decimal `±m·10^e` (a float token). -/
theorem C41_number_token_roundtrip (n : Num) (hw : n.wf) (rest : List Char) (h : numFollow rest) :
    parseNumber (genNum n ++ rest) = some (n, rest) :=
  parseNumber_genNum n hw rest h

/-- **`parse` is total and its `none` is a genuine rejection.** `parse` is defined by structural
    recursion on explicit fuel (no `partial`); this theorem says the fuel `2·length+2` it uses
    is always enough: giving the parser more fuel never changes the answer. -/
theorem C41_parse_total (s : List Char) (f : Nat) (hf : 2 * s.length + 2 ≤ f) :
    parseWith f s = parse s :=
  parseWith_stable s f hf

/-- **Converse direction (partial).** Whatever text `s` the parser accepts, the value `v` it
    returns is canonical and `gen v` is a normal form of `s`: it parses to the same value. Hence
    two accepted texts have the same value iff they have the same normal form. What is missing
    for the full converse: that `gen v` is obtained from `s` by only dropping white space and
    respelling escapes and numbers. -/
theorem C41_parse_canonical_partial {s : List Char} {v : J} (h : parse s = some v) :
    v.wf ∧ parse (gen v) = some v :=
  ⟨parse_wf h, parse_gen v (parse_wf h)⟩

theorem C41_normal_form_partial {s s' : List Char} {v v' : J}
    (h : parse s = some v) (h' : parse s' = some v') : v = v' ↔ gen v = gen v' := by
  constructor
  · intro e; rw [e]
  · intro e
    have h1 := (C41_parse_canonical_partial h).2
    have h2 := (C41_parse_canonical_partial h').2
    rw [e, h2] at h1
    exact (Option.some.inj h1).symm

/-! ## the accepted language, exactly

`Doc v s` (`Proofs/JsonGrammar.lean`) is the declarative reading of the DCG: `GVal`, `GL`, `GM`,
`GChars`, `GChar`, `GNum`, `GFrac`, `GExp`, `Ws` mirror `json_value//1`, `json_elements//2`,
`json_members//2`, `json_characters//1`, `json_character//1`, `json_number//1`,
`json_fraction//1`, `json_exponent//1`, `json_ws//0` clause by clause (white space anywhere the
DCG allows it, all escape spellings, all number spellings), plus the surrogate-pair escape. -/

/-- **Soundness of the parser**: an accepted text is a sentence of the grammar and the value
    returned is the value the grammar assigns to it. -/
theorem C41_parse_sound {s : List Char} {v : J} (h : parse s = some v) : Doc v s :=
  parse_sound h

/-- **Completeness of the parser**: every sentence of the grammar, with any white space and
    any spelling of escapes and numbers, is accepted with the value the grammar assigns. -/
theorem C41_parse_complete {s : List Char} {v : J} (h : Doc v s) : parse s = some v :=
  parse_complete h

/-- **Invalid JSON is rejected**: `parse` answers `none` exactly on the texts that are not
    sentences of the grammar. -/
theorem C41_rejects_exactly_non_sentences (s : List Char) : parse s = none ↔ ¬ ∃ v, Doc v s :=
  parse_none_iff s

/-- The grammar assigns at most one value to a text (no ambiguity between escape spellings,
    number spellings or white space). -/
theorem C41_grammar_unambiguous {s : List Char} {v v' : J} (h : Doc v s) (h' : Doc v' s) : v = v' :=
  Doc.unique h h'

/-- What the generator writes is a sentence of the grammar denoting the value it was given. -/
theorem C41_generated_text_is_a_sentence (v : J) (hw : v.wf) : Doc v (gen v) :=
  parse_sound (parse_gen v hw)

/-- **Converse direction**: if `s` is accepted with value `v` then `gen v` is another sentence
    with the same value, and any two sentences with the same value have the same `gen v`: `gen v`
    is the canonical representative of the class of spellings of `v`. -/
theorem C41_canonical_representative {s : List Char} {v : J} (h : parse s = some v) :
    Doc v s ∧ Doc v (gen v) ∧ ∀ s' v', Doc v' s' → (gen v' = gen v ↔ v' = v) := by
  refine ⟨parse_sound h, parse_sound (parse_gen v (parse_wf h)), fun s' v' h' => ?_⟩
  have h2 := parse_complete h'
  exact (C41_normal_form_partial h2 h).symm

-- non-vacuity: a sentence with white space, an escape and an exponent, built from the clauses
example : Doc (.arr (.cons (.num (.int 100)) .nil)) ['[', ' ', '1', 'e', '2', '\n', ']'] :=
  parse_sound (by rfl)
example : ¬ ∃ v, Doc v ['[', '1', ',', ']'] := (parse_none_iff _).1 (by rfl)

/-! ## non-vacuity: the hypotheses are satisfiable and the interesting branches are reached -/

-- a value with every constructor, a negative decimal, an escaped key; it is canonical
example : (J.obj (.cons ['k', '"'] (.arr (.cons (.num (.dec true 25 (-1))) (.cons .null (.cons (.bool false) .nil))))
    (.cons [] (.str ['\n', '/', '\x01']) .nil))).wf := by
  simp [J.wf, JM.wf, JL.wf, Num.wf]
-- what the generator writes: two-character escapes (also for `/`), `\u00xx` for other controls
example : gen (.str ['\n', '/', '\x01', '\x7f']) =
    ['"', '\\', 'n', '\\', '/', '\\', 'u', '0', '0', '0', '1', '\x7f', '"'] := by rfl
example : gen (.obj (.cons ['k'] (.arr (.cons (.num (.int (-12))) (.cons .null .nil))) .nil)) =
    ['{', '"', 'k', '"', ':', '[', '-', '1', '2', ',', 'n', 'u', 'l', 'l', ']', '}'] := by rfl
-- white space, escapes and number spellings are accepted; `1.50e1` is the decimal 15·10^0
example : parse ['[', '1', ',', ' ', '"', 'a', '"', ' ', ']'] =
    some (.arr (.cons (.num (.int 1)) (.cons (.str ['a']) .nil))) := by rfl
example : parse ['1', '.', '5', '0', 'e', '1'] = some (.num (.dec false 15 0)) := by rfl
example : parse ['1', 'E', '+', '2'] = some (.num (.int 100)) := by rfl
example : parse ['1', '0', '0', 'e', '-', '2'] = some (.num (.dec false 1 0)) := by rfl
-- a surrogate pair (mixed-case hex) is one character; lone surrogates are rejected
example : parse ['"', '\\', 'u', 'D', '8', '3', 'd', '\\', 'u', 'd', 'E', '0', '0', '"'] =
    some (.str [Char.ofNat 0x1F600]) := by rfl
example : hex4 'D' '8' '3' 'd' = some 0xD83D ∧ isHighSurr 0xD83D = true ∧
    hex4 'd' 'E' '0' '0' = some 0xDE00 ∧ isLowSurr 0xDE00 = true ∧ surrPair 0xD83D 0xDE00 = 0x1F600 := by
  decide
example : parse ['"', '\\', 'u', 'd', '8', '0', '0', '"'] = none := by rfl
example : parse ['"', '\\', 'u', 'd', 'c', '0', '0', '"'] = none := by rfl
example : parse ['"', '\\', 'u', 'd', '8', '0', '0', '\\', 'u', '0', '0', '4', '1', '"'] = none := by rfl
-- malformed documents are rejected
example : parse ['0', '1'] = none := by rfl
example : parse [] = none := by rfl
example : parse ['[', '1', ',', ']'] = none := by rfl
example : parse ['"', 'a', '\t', '"'] = none := by rfl
example : parse ['1', ' ', '2'] = none := by rfl
-- the follow conditions are what the generator produces
example : closeFollow [',', '1'] ∧ closeFollow [] ∧ numFollow [']'] := by
  refine ⟨Or.inl rfl, trivial, ?_⟩; simp only [numFollow]; decide

/-! ## today's behaviour (pinned tree): the two findings, as theorems about the pinned mirrors

`parseCharsPinned` and `pinnedMag` (end of `Model/Json.lean`) mirror what the library does TODAY at
the two places where it deviates from the statements above; `Dbl`/`roundDbl` is IEEE binary64
round-to-nearest-even on exact rationals (validated against Python's `float()` and against the
implementation by the `flt` lines of the correspondence run, not by a theorem). -/

/-- **C41-1, universally.** Today every `\uXXXX` escape whose code unit is a surrogate — also the
    first half of a well-formed pair, for which `C41_surrogate_pair_decodes` demands a character —
    leaves the string, hence the document, without an answer. -/
theorem C41_pinned_any_surrogate_escape_rejected {a b c d : Char} {n : Nat} (r : List Char)
    (h1 : hex4 a b c d = some n) (hs : isHighSurr n = true ∨ isLowSurr n = true) :
    parseCharsPinned ('\\' :: 'u' :: a :: b :: c :: d :: r) = none := by
  rw [parseCharsPinned.eq_def]
  rcases hs with hs | hs <;> simp [h1, hs]

/-- **Witness of C41-1.** `"😀"` is a sentence of the grammar denoting the one-character
    string U+1F600 and the repaired reader returns it; today's reader gives no answer. -/
theorem C41_pinned_rejects_surrogate_pair :
    Doc (.str [Char.ofNat 0x1F600]) ['"', '\\', 'u', 'd', '8', '3', 'd', '\\', 'u', 'd', 'e', '0', '0', '"']
    ∧ parseChars ['\\', 'u', 'd', '8', '3', 'd', '\\', 'u', 'd', 'e', '0', '0', '"'] = some ([Char.ofNat 0x1F600], [])
    ∧ parseCharsPinned ['\\', 'u', 'd', '8', '3', 'd', '\\', 'u', 'd', 'e', '0', '0', '"'] = none :=
  ⟨parse_sound (by rfl), by decide +kernel, by decide +kernel⟩

/-- The repair of C41-1 is conservative: a string today's reader accepts is read identically. -/
theorem C41_repair_keeps_accepted_strings {s : List Char} {x : List Char × List Char}
    (h : parseCharsPinned s = some x) : parseChars s = some x :=
  parseCharsPinned_sub s x h

/-- The value of a number token is `mkNum` of its syntactic parts, and for a float token (a
    fraction is present or the exponent is negative) that is the exact decimal `tokenDec`,
    normalised — the decimal `nearestMag` rounds ONCE and `pinnedMag` assembles in steps. -/
theorem C41_float_token_is_its_decimal (s : List Char) (neg : Bool) (ids : List Char)
    (frac : Option (List Char)) (ex : Int) :
    parseNumber s = (numParts s).map (fun p => (mkNum p.1.1 p.1.2.1 p.1.2.2.1 p.1.2.2.2, p.2))
    ∧ (frac.isSome = true ∨ ex < 0 →
        mkNum neg ids frac ex =
          .dec (neg && (normDec (tokenDec ids frac ex).1 (tokenDec ids frac ex).2).1 != 0)
            (normDec (tokenDec ids frac ex).1 (tokenDec ids frac ex).2).1
            (normDec (tokenDec ids frac ex).1 (tokenDec ids frac ex).2).2) := by
  refine ⟨parseNumber_eq_parts s, fun h => ?_⟩
  cases frac with
  | some fds => rfl
  | none =>
    have hx : ¬ (0 ≤ ex) := by
      rcases h with h | h
      · cases h
      · omega
    simp [mkNum, tokenDec, hx]

set_option maxRecDepth 100000 in
/-- **Witnesses of C41-2** (each line was observed on the implementation, bit for bit):
    * `1.118` — today `1 + 118/1000.0` is one unit in the last place below the double nearest
      to 1.118 (which is what `number_chars/2` writes as `1.118`: the round trip breaks);
    * `123883370343770940e-1` — the decimal IS a double (`6194168517188547·2`), today's
      `123883370343770940 * 10.0^-1` gives its neighbour;
    * `5.0e-324` — the smallest subnormal is read as 0;
    * `0.00001e313` — the finite value 1e308 overflows on the way (`evaluation_error`). -/
theorem C41_pinned_float_witnesses :
    (tokenDec ['1'] (some ['1', '1', '8']) 0 = (1118, -3)
      ∧ pinnedMag ['1'] (some ['1', '1', '8']) 0 = some ⟨5035024383400214, -52⟩
      ∧ nearestMag 1118 (-3) = some ⟨5035024383400215, -52⟩)
    ∧ (pinnedMag ['1','2','3','8','8','3','3','7','0','3','4','3','7','7','0','9','4','0'] none (-1)
          = some ⟨6194168517188548, 1⟩
      ∧ nearestMag 123883370343770940 (-1) = some ⟨6194168517188547, 1⟩
      ∧ 6194168517188547 * 2 * 10 = 123883370343770940)
    ∧ (pinnedMag ['5'] (some ['0']) (-324) = some ⟨0, -1074⟩ ∧ nearestMag 50 (-325) = some ⟨1, -1074⟩)
    ∧ (pinnedMag ['0'] (some ['0', '0', '0', '0', '1']) 313 = none
      ∧ nearestMag 1 308 = some ⟨5010420900022432, 971⟩) := by
  decide +kernel

-- where the two agree the pinned computation is not always wrong: 0.5, 1.5e3, 100e-2
set_option maxRecDepth 100000 in
example : pinnedMag ['0'] (some ['5']) 0 = nearestMag 5 (-1)
    ∧ pinnedMag ['1'] (some ['5']) 3 = nearestMag 15 2
    ∧ pinnedMag ['1', '0', '0'] none (-2) = nearestMag 100 (-2) := by decide +kernel

end Scryer.Json
