import ScryerModel.Model.Json
namespace Scryer.Json
end Scryer.Json
