import ScryerModel.Model.Dcg
import ScryerModel.Proofs.Solve
import ScryerModel.Proofs.SolveLaws
import ScryerModel.Proofs.Dcg
/-!
# C39 — DCG translation preserves grammar semantics

`Dcg.tr` mirrors `dcg_body/4` of `src/lib/dcgs.pl` clause by clause (Model/Dcg.lean); `Dcg.den` is the
direct semantics of a grammar body between two positions: an answer sequence (answers in order,
"the rule was cut", uncaught ball) defined by structural recursion on the body, where terminals
are unifications of the position terms, `{}` and `!` leave the position alone and non-terminals are
calls into the program.  `Solve.solve` is the reference interpreter of C07.

The core theorem: for EVERY body (any nesting of terminals, strings, non-terminals with arguments,
`{}`, `!`, `,`, `;`, `|`, `->`, `call//N`) and all position terms, solving the translated goal gives
exactly the result of the direct semantics — same answers in the same order, same cut flag, same
ball — and the other way round.
-/
namespace Scryer.Dcg
open Scryer Scryer.Solve

/-! ## The direct semantics is well defined -/

/-- Fuel monotonicity of the direct semantics. -/
theorem C39_den_fuel_mono (prog : Prog) (b : Body) (S0 S : Term) (s : St) (n k : Nat)
    (h : (den n prog b S0 S s).oof = false) :
    den (n + k) prog b S0 S s = den n prog b S0 S s :=
  den_mono prog b S0 S s n k h

/-- A body between two positions in a state has at most one result. -/
theorem C39_den_result_unique (prog : Prog) (b : Body) (S0 S : Term) (s : St) (r1 r2 : Res)
    (h1 : DRuns prog b S0 S s r1) (h2 : DRuns prog b S0 S s r2) : r1 = r2 := by
  obtain ⟨n1, e1, o1⟩ := h1
  obtain ⟨n2, e2, o2⟩ := h2
  have a := den_mono prog b S0 S s n1 n2 (by rw [e1]; exact o1)
  have c := den_mono prog b S0 S s n2 n1 (by rw [e2]; exact o2)
  rw [Nat.add_comm] at c
  rw [← e1, ← e2, ← a, ← c]

/-! ## The translation preserves the semantics -/

/-- CORE THEOREM.  For every grammar body `b` that `dcg_body/4` translates (to `g`) and all position
terms `S0`, `S` and every state: the reference interpreter runs `g` to the result `r` iff the direct
semantics of `b` between `S0` and `S` is `r` (all answers in order, the cut flag — `!` cuts the
clause the body belongs to —, the uncaught ball).  `b.ok` only excludes an alternative whose left
side is the non-terminal named `'->'` without arguments (see `C39_why_ok` below). -/
theorem C39_translation_preserves_semantics (prog : Prog) (b : Body) (S0 S g : Term) (s : St)
    (r : Res) (htr : tr b S0 S = .ok g) (hok : b.ok = true) :
    Runs prog g s r ↔ DRuns prog b S0 S s r := by
  obtain ⟨hA, hB⟩ := corr prog b S0 S s g htr hok
  constructor
  · rintro ⟨n, e, o⟩
    exact ⟨n, by rw [hA n (by rw [e]; exact o)]; exact e, o⟩
  · rintro ⟨n, e, o⟩
    exact ⟨n + need b, by rw [hB n (need b) (by rw [e]; exact o) (Nat.le_refl _)]; exact e, o⟩

/-- The same with explicit fuel: whenever one side terminates within its fuel, the other side gives
the same result (the interpreter needs at most `need b` more units for the control structure of the
translated body). -/
theorem C39_translation_fuel (prog : Prog) (b : Body) (S0 S g : Term) (s : St)
    (htr : tr b S0 S = .ok g) (hok : b.ok = true) :
    (∀ n, (solve n prog g s).oof = false → den n prog b S0 S s = solve n prog g s) ∧
    (∀ n k, (den n prog b S0 S s).oof = false → need b ≤ k →
      solve (n + k) prog g s = den n prog b S0 S s) :=
  corr prog b S0 S s g htr hok

/-- Why `b.ok` is needed: the non-terminal `'->'` becomes the goal `'->'(S0,S)`, and as the left side
of an alternative the interpreter (and the WAM compiler) read `('->'(S0,S) ; E)` as an
if-then-else. -/
theorem C39_why_ok (S0 S e : Term) :
    tr (.nonterm (.atom "->")) S0 S = .ok (.str "->" [S0, S]) ∧
    classify (disjG (.str "->" [S0, S]) e) = .ite S0 S e := ⟨rfl, rfl⟩

/-! ## What the translation does with each construct -/

/-- Terminals (a list or a string, which is a list of characters) become ONE unification of the
input position with the terminals in front of the output position; it is an ordinary body goal,
placed where the terminal stands (after the goals in front of it), never moved into the head. -/
theorem C39_terminals (ts : List Term) (S0 S : Term) (n : Nat) (prog : Prog) (s : St) :
    tr (.terms ts) S0 S = .ok (.str "=" [S0, Term.ofList ts S]) ∧
    den n prog (.terms ts) S0 S s = unifRes n s S0 (Term.ofList ts S) := ⟨rfl, by simp only [den]⟩

/-- A non-terminal followed by terminals: the call comes first, the terminals are matched by
unification AFTER the call, on the call's output position. -/
theorem C39_terminal_after_call (t : Term) (ts : List Term) (m : String) (S0 S : Term) :
    tr (.seq (.nonterm t) (.terms ts) m) S0 S =
      .ok (.str "," [nonTerminal t S0 (.var m), .str "=" [.var m, Term.ofList ts S]]) := rfl

/-- A non-terminal gets the two positions as additional LAST arguments; `call//N` too. -/
theorem C39_nonterminal_two_more_arguments (f : String) (args : List Term) (S0 S : Term) :
    tr (.nonterm (.str f args)) S0 S = .ok (.str f (args ++ [S0, S])) ∧
    tr (.nonterm (.atom f)) S0 S = .ok (.str f [S0, S]) ∧
    (∀ c, tr (.call1 c) S0 S = .ok (.str "call" [c, S0, S])) := ⟨rfl, rfl, fun _ => rfl⟩

/-- `call//N` runs the continuation with its `N` arguments and the two positions, opaque to cut. -/
theorem C39_callN (prog : Prog) (n : Nat) (c : Term) (extra : List Term) (S0 S : Term) (s : St)
    (h : (extra ++ [S0, S]).length ≤ 7) :
    ∃ g, tr (.nonterm (.str "call" (c :: extra))) S0 S = .ok g ∧
      solve (n + 1) prog g s = callGoal (solve n prog) n s c (extra ++ [S0, S]) ∧
      (solve (n + 1) prog g s).cut = false := by
  refine ⟨.str "call" (c :: (extra ++ [S0, S])), rfl, ?_, ?_⟩
  · simp only [solve, step, classify, h, if_true]
  · simp only [solve, step, classify, h, if_true]
    exact callGoal_cut ..

/-- `{G}` does not touch the lists: its answers between `S0` and `S` are the answers of `G`
(run in place, so a cut inside `{}` cuts the rule) under which `S0` and `S` are the same position. -/
theorem C39_brace (prog : Prog) (n : Nat) (g S0 S : Term) (s : St) :
    tr (.brace g) S0 S = .ok (.str "," [g, .str "=" [S0, S]]) ∧
    den n prog (.brace g) S0 S s = conjRes (solve n prog g s) (fun s' => unifRes n s' S0 S) :=
  ⟨rfl, by simp only [den]⟩

/-- `!` does not move the position and reports the cut to the clause the body belongs to: the
result of `!` between `S0` and `S` carries the cut flag. -/
theorem C39_cut (prog : Prog) (n : Nat) (S0 S : Term) (s : St)
    (h : (den n prog .cut S0 S s).oof = false) :
    tr .cut S0 S = .ok (.str "," [.atom "!", .str "=" [S0, S]]) ∧
    (den n prog .cut S0 S s).cut = true ∧
    (den n prog .cut S0 S s).sols = (unifRes n s S0 S).sols := by
  refine ⟨rfl, ?_, ?_⟩
  · simp only [den, cutRes] at h ⊢
    split <;> simp_all
  · simp only [den, cutRes] at h ⊢
    split <;> simp_all

/-- … and the cut is still there after the rest of the body ran (unless a ball is raised). -/
theorem C39_cut_then_rest (prog : Prog) (n : Nat) (b : Body) (m : String) (S0 S : Term) (s : St)
    (h : (den n prog (.seq .cut b m) S0 S s).oof = false)
    (he : (den n prog (.seq .cut b m) S0 S s).exc = none) :
    (den n prog (.seq .cut b m) S0 S s).cut = true := by
  simp only [den] at h he ⊢
  refine conjRes_cut_flag _ _ (fun ho => ?_) h he
  simp only [cutRes] at ho ⊢
  split <;> simp_all

/-- The clause of a rule whose body result carries the cut flag is the last clause tried: `!` in a
grammar rule prunes the remaining rules of the non-terminal, not just the body's alternatives. -/
theorem C39_cut_prunes_later_rules (rec : Term → St → Res) (n : Nat) (goal : Term) (s : St)
    (cl : Clause) (rest : List Clause) (σ' : Subst)
    (hu : unify n s.σ goal (rename (sfx s.ctr) cl.head) = some (some σ'))
    (ho : (rec (rename (sfx s.ctr) cl.body) ⟨σ', s.ctr + 1⟩).oof = false)
    (hc : (rec (rename (sfx s.ctr) cl.body) ⟨σ', s.ctr + 1⟩).cut = true) :
    clauseLoop rec n goal s (cl :: rest) =
      ⟨(rec (rename (sfx s.ctr) cl.body) ⟨σ', s.ctr + 1⟩).sols, false,
       (rec (rename (sfx s.ctr) cl.body) ⟨σ', s.ctr + 1⟩).exc, false⟩ := by
  simp [clauseLoop, hu, ho, hc]

/-- `(If -> Then ; Else)` inside a body is the interpreter's if-then-else on the translated parts
(the condition's cut is local, only its first answer is used). -/
theorem C39_if_then_else (prog : Prog) (n : Nat) (c t e : Body) (m : String) (S0 S : Term) (s : St) :
    den n prog (.alt (.ifThen c t m) e) S0 S s =
      iteRes (den n prog c S0 (.var m) s) (fun s' => den n prog t (.var m) S s')
        (fun _ => den n prog e S0 S s) := by
  simp only [den]

/-- `\+` and a bare `(If -> Then)` are rejected by the translation (as `dcg_constr/1` does), with
the culprit in the error term; `(If -> Then)` is accepted as the left side of `;` only (not of `|`). -/
theorem C39_rejected_constructs (g : Term) (c t e : Body) (m : String) (S0 S : Term) :
    tr (.naf g) S0 S = .error (.repr (.str "\\+" [g])) ∧
    tr (.ifThen c t m) S0 S = .error (.repr (.str "->" [c.toTerm, t.toTerm])) ∧
    tr (.bar (.ifThen c t m) e) S0 S = .error (.repr (.str "->" [c.toTerm, t.toTerm])) :=
  ⟨rfl, rfl, rfl⟩

/-! ## Pushback -/

/-- `H, PB --> B`: the clause is `H(S0,S) :- B(S0,S1), S = PB ++ S1`. -/
theorem C39_pushback_rule (f : String) (args pb : List Term) (body : Term) (g1 : Term)
    (h : tr (ofTerm parseFuel body 3).1 (.var "_S0") (.var "_S2") = .ok g1)
    (hpb : Term.unconsAll 1000000 (Term.ofList pb) = (pb, .atom "[]")) :
    rule (.str "-->" [.str "," [.str f args, Term.ofList pb], body]) =
      .clause ⟨.str f (args ++ [.var "_S0", .var "_S1"]),
        .str "," [g1, .str "=" [.var "_S1", Term.ofList pb (.var "_S2")]]⟩ := by
  simp only [rule, nonTerminal, h, hpb, conjG, unifG]

/-- Semantics of a pushback rule body: the answers of `B` between `S0` and `S1`, each followed by the
identification of the rule's output position `S` with the pushback list in front of `S1` (the
remainder of `B`).  So `phrase(H, Xs, R)` has `R = PB ++ R1` exactly when `B` accepts with `R1`. -/
theorem C39_pushback_semantics (prog : Prog) (b : Body) (S0 S1 S g1 : Term) (pb : List Term)
    (s : St) (r : Res) (htr : tr b S0 S1 = .ok g1) (hok : b.ok = true) :
    Runs prog (.str "," [g1, .str "=" [S, Term.ofList pb S1]]) s r ↔
    ∃ n, conjRes (den n prog b S0 S1 s) (fun s' => unifRes n s' S (Term.ofList pb S1)) = r ∧
      r.oof = false := by
  obtain ⟨hA, hB⟩ := corr prog b S0 S1 s g1 htr hok
  constructor
  · rintro ⟨n, e, o⟩
    refine ⟨n, ?_, o⟩
    rw [← e] at o ⊢
    cases n with
    | zero => simp [solve] at o
    | succ n =>
      have e2 := solve_conj n prog g1 (unifG S (Term.ofList pb S1)) s
      simp only [conjG, unifG] at e2
      rw [e2] at o ⊢
      refine conjRes_congr2 (corr_lift hA n) (fun s' hs => ?_) o
      have := solve_unif_le n prog S (Term.ofList pb S1) s' hs
      simp only [unifG] at this hs
      rw [← this]
      apply unifRes_mono
      rw [this]; exact hs
  · rintro ⟨n, e, o⟩
    refine ⟨n + (need b + 1) + 1, ?_, o⟩
    rw [← e] at o ⊢
    have e2 := solve_conj (n + (need b + 1)) prog g1 (unifG S (Term.ofList pb S1)) s
    simp only [conjG, unifG] at e2
    rw [e2]
    refine conjRes_congr2 (fun h1 => hB n (need b + 1) h1 (by omega)) (fun s' hs => ?_) o
    have e3 := solve_unif (n + need b) prog S (Term.ofList pb S1) s'
    simp only [unifG] at e3
    rw [← Nat.add_assoc, e3]
    exact unifRes_mono (need b) n s' _ _ hs

/-! ## Non-vacuity: a small grammar run through both semantics -/

/-- `as --> [] | "a", as.`  as the model's `dcg_rule/2` translates it. -/
def exRule : Term :=
  .str "-->" [.atom "as", .str "|" [Term.nil, .str "," [Term.ofChars ['a'], .atom "as"]]]

example : rule exRule = .clause ⟨.str "as" [.var "_S0", .var "_S1"],
    .str ";" [.str "=" [.var "_S0", .var "_S1"],
      .str "," [.str "=" [.var "_S0", .str "." [.atom "a", .var "_S3"]],
                .str "as" [.var "_S3", .var "_S1"]]]⟩ := by rfl

def exProg : Prog :=
  [⟨.str "as" [.var "_S0", .var "_S1"],
    .str ";" [.str "=" [.var "_S0", .var "_S1"],
      .str "," [.str "=" [.var "_S0", .str "." [.atom "a", .var "_S3"]],
                .str "as" [.var "_S3", .var "_S1"]]]⟩]

/-- the body `("a", as, !)` between `"aa"` and `R`. -/
def exBody : Body := .seq (.terms [.atom "a"]) (.seq (.nonterm (.atom "as")) .cut "_M1") "_M0"

example : exBody.ok = true := by decide
example : ∃ g, tr exBody (Term.ofChars ['a', 'a']) (.var "R") = .ok g := ⟨_, rfl⟩

/-- the direct semantics terminates on it: one answer (the cut removed the shorter parses), the
cut flag is set, no fuel problem — so the hypotheses of the core theorem are satisfiable with a
non-trivial result. -/
example : ((den 10 exProg exBody (Term.ofChars ['a', 'a']) (.var "R") ⟨[], 0⟩).sols.length,
           (den 10 exProg exBody (Term.ofChars ['a', 'a']) (.var "R") ⟨[], 0⟩).cut,
           (den 10 exProg exBody (Term.ofChars ['a', 'a']) (.var "R") ⟨[], 0⟩).oof) =
          (1, true, false) := by decide

/-- without the cut: two answers (`R = "a"`, `R = []`). -/
example : (den 10 exProg (.seq (.terms [.atom "a"]) (.nonterm (.atom "as")) "_M0")
            (Term.ofChars ['a', 'a']) (.var "R") ⟨[], 0⟩).sols.length = 2 := by decide

end Scryer.Dcg
