import ScryerModel.Model.Dcg
import ScryerModel.Proofs.Solve
/-! C39 — DCG translation preserves grammar semantics (work in progress). -/
namespace Scryer.Dcg
open Scryer Scryer.Solve

/-- A terminal list is translated to ONE unification of the input position with the terminals
in front of the output position. -/
theorem C39_terminals_translation (ts : List Term) (S0 S : Term) :
    tr (.terms ts) S0 S = .ok (.str "=" [S0, Term.ofList ts S]) := rfl

end Scryer.Dcg
