import ScryerModel.Model.Syntax
namespace Scryer.C15
open Scryer.Syntax Scryer.Quote

/-- `needs_bracketing` is sound for the right operand / prefix operand: when it asks for no brackets, the
    child's priority is admissible in that argument position (ISO 6.3.4). -/
theorem C15_bracketing_sound_right (child d : OpDesc) (name : List Char)
    (hd : d.spec.isPrefix = true ∨ d.spec.isInfix = true)
    (h : needsBracketing child (.left name d) = false) : child.prec ≤ (argMax d).2 := by
  simp only [needsBracketing] at h
  split at h
  · simp at h
  · simp only [Bool.or_eq_false_iff, decide_eq_false_iff_not, Bool.and_eq_false_iff, beq_eq_false_iff_ne,
      Nat.not_lt] at h
    cases hs : d.spec <;> simp [argMax, hs, Spec.isPrefix, Spec.isInfix, Spec.strictRight] at h hd ⊢ <;> omega

end Scryer.C15
