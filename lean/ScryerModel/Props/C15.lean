import ScryerModel.Proofs.Syntax
/-!
# C15 — Printed terms read back as the same term

Term layer on top of the C55 token layer (`Props/C55.lean` proves: every printed atom reads back as
itself, and a sequence of printed tokens never fuses). Here: terms on tokens.
-/
namespace Scryer.C15
open Scryer.Syntax Scryer.Quote

mutual
theorem size_le_printC : ∀ t : Tm, t.size ≤ (printC t).length
  | .atom a => by
    simp only [Tm.size, printC, atomTokens]
    split <;> (try split) <;> simp
  | .int n => by simp only [Tm.size, printC]; split <;> simp
  | .flt neg s => by cases neg <;> simp [Tm.size, printC]
  | .var s => by simp [Tm.size, printC]
  | .cmp f a as => by
    have h1 := size_le_printC a
    have h2 := size_le_printArgs as
    have h3 : 1 ≤ (atomTokens f).length := by
      simp only [atomTokens]; split <;> (try split) <;> simp
    simp only [Tm.size, printC, List.length_append, List.length_cons]
    omega
theorem size_le_printArgs : ∀ as : Args, as.size ≤ (printArgs as).length
  | .nil => by simp [Args.size, printArgs]
  | .cons t ts => by
    have h1 := size_le_printC t
    have h2 := size_le_printArgs ts
    simp only [Args.size, printArgs, List.length_append, List.length_cons]
    omega
end

/-- **write_canonical round trip (token level), all terms.** For every term — atoms with any text
    (including `[]`, `{}`, `-`, `,`, `|`, operators), positive and negative integers, float literals,
    variables, compounds of any arity and nesting, with any functor (lists are `'.'(H,T)` compounds as
    write_canonical prints them) — the deterministic canonical reader reads the tokens of the canonical
    notation, followed by the end token, back as exactly that term. No operator table is involved:
    canonical output is read the same under every table. -/
theorem C15_canonical_roundtrip (t : Tm) : readCanonToks (printC t ++ [.endTok]) = some t := by
  have hs := size_le_printC t
  have := parseC_printC t (2 * (printC t ++ [Tok.endTok]).length + 2) [.endTok]
    (by simp only [List.length_append, List.length_cons, List.length_nil]; omega) trivial
  simp only [readCanonToks, this]

/-- the same inside any context: a canonical term followed by more tokens is read off the front. -/
theorem C15_canonical_prefix (t : Tm) (k : List Tok) (hk : KOk k) (fuel : Nat) (hf : t.size < fuel) :
    parseC fuel (printC t ++ k) = some (t, k) := parseC_printC t fuel k hf hk

/-- **`needs_bracketing` is sound (right / prefix operand).** When `heap_print.rs::needs_bracketing` asks
    for no brackets around the right operand of an infix operator or the operand of a prefix operator,
    the operand's priority is admissible there (ISO 6.3.4: at most the operator's priority for a `y`
    argument, strictly less for an `x` argument). -/
theorem C15_bracketing_sound_right (child d : OpDesc) (name : List Char)
    (hd : d.spec.isPrefix = true ∨ d.spec.isInfix = true)
    (h : needsBracketing child (.left name d) = false) : child.prec ≤ (argMax d).2 := by
  simp only [needsBracketing] at h
  split at h
  · simp at h
  · simp only [Bool.or_eq_false_iff, decide_eq_false_iff_not, Bool.and_eq_false_iff, beq_eq_false_iff_ne,
      Nat.not_lt] at h
    cases hs : d.spec <;> simp [argMax, hs, Spec.isPrefix, Spec.isInfix, Spec.strictRight] at h hd ⊢ <;> omega

/-- **`needs_bracketing` is sound (left operand).** Same for the left operand of an infix operator and
    the operand of a postfix operator. -/
theorem C15_bracketing_sound_left (child d : OpDesc) (name : List Char)
    (hd : d.spec.isPostfix = true ∨ d.spec.isInfix = true)
    (h : needsBracketing child (.right name d) = false) : child.prec ≤ (argMax d).1 := by
  simp only [needsBracketing] at h
  split at h
  · simp at h
  · rename_i h0
    simp only [Bool.or_eq_true, decide_eq_true_eq, Bool.and_eq_true, beq_iff_eq, not_or, not_and, Nat.not_lt] at h0
    cases hs : d.spec <;> simp [argMax, hs, Spec.isPostfix, Spec.isInfix, Spec.strictLeft] at h0 hd ⊢ <;> omega

/-- The writeq round trip restricted to what is proved: the bracketing decision never leaves an operand
    unbracketed whose priority is too high for its position (the two theorems above), every token is
    written so that it reads back as itself and adjacent tokens never fuse (C55). NOT proved: that the
    operator-precedence reader is deterministic on the printed token sequence (prefix operators used as
    atoms, `- (1)` against `-1`, a prefix operator followed by a bracket, operators that are both prefix
    and infix); this part is covered by the differential run only, which found two defects there
    (C15-1, C15-2). The statement below is the conjunction of the proved local facts for one operator
    node. -/
theorem C15_writeq_roundtrip_partial (child d : OpDesc) (name : List Char) :
    (d.spec.isPrefix = true ∨ d.spec.isInfix = true → needsBracketing child (.left name d) = false →
      child.prec ≤ (argMax d).2) ∧
    (d.spec.isPostfix = true ∨ d.spec.isInfix = true → needsBracketing child (.right name d) = false →
      child.prec ≤ (argMax d).1) :=
  ⟨fun hd h => C15_bracketing_sound_right child d name hd h, fun hd h => C15_bracketing_sound_left child d name hd h⟩

/-! ## Non-vacuity -/
example : printC (.cmp ['f'] (.atom ['[', ']']) (.cons (.int (-3)) .nil)) =
    [.name ['f'], .openCT, .punct '[', .punct ']', .punct ',', .name ['-'], .int 3, .punct ')'] := by decide
example : readCanonToks (printC (.cmp ['f'] (.atom ['[', ']']) (.cons (.int (-3)) .nil)) ++ [.endTok]) =
    some (.cmp ['f'] (.atom ['[', ']']) (.cons (.int (-3)) .nil)) := C15_canonical_roundtrip _
/-- `1-(2-3)`: the right operand of yfx 500 at the same priority needs brackets, the left one does not -/
example : needsBracketing ⟨500, .yfx⟩ (.left ['-'] ⟨500, .yfx⟩) = true ∧
    needsBracketing ⟨500, .yfx⟩ (.right ['-'] ⟨500, .yfx⟩) = false := by decide
example : needsBracketing ⟨200, .xfy⟩ (.left ['^'] ⟨200, .xfy⟩) = false := by decide

end Scryer.C15
