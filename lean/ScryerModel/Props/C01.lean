import ScryerModel.Model.ArithInt
namespace Scryer.Arith
theorem C01_placeholder : (1 : Nat) = 1 := rfl
end Scryer.Arith
