import ScryerModel.Proofs.ArithInt
import ScryerModel.Proofs.ArithIntBits
/-!
# C01 — Integer arithmetic is exact at every magnitude

Property theorems over the mechanism model `Model/ArithInt.lean` (which mirrors
`arithmetic_ops.rs` branch by branch). `Num.val` is the mathematical integer a `Number`
denotes; `Num.wf` says a fixnum payload is inside the 56-bit range. Every theorem is for all
integers — no bound on magnitude. Only statements live here; lemmas are in `Proofs/ArithInt`
(core Lean only) and `Proofs/ArithIntBits` (link to Mathlib's `Int.land/lor/xor`).

The only side condition anywhere is the "fits in memory" condition of the shifts (`shrOk`,
`shlOk`, collected over an expression by `InDomain`): shift counts are clamped to `usize::MAX`
by the code, which is exact unless the operand has ≥ 2^64-1 significant bits (right shift) or
the count itself exceeds `usize::MAX` with a non-zero operand (left shift; the exact result
could not be stored). `C01_shl_side_condition_necessary` shows the latter is not an artefact.
-/
namespace Scryer.Arith

/-! ## `+ - * - abs` -/

/-- `+` is exact for every pair of representations, across the i64 and fixnum boundaries. -/
theorem C01_add_exact (a b : Num) : (add a b).val = a.val + b.val ∧ (add a b).wf :=
  ⟨add_val a b, add_wf a b⟩

/-- `-` (computed as `a + (-b)`) is exact. -/
theorem C01_sub_exact (a b : Num) : (sub a b).val = a.val - b.val ∧ (sub a b).wf :=
  ⟨sub_val a b, sub_wf a b⟩

/-- `*` is exact (checked i64 multiplication, else bignum). -/
theorem C01_mul_exact (a b : Num) : (mul a b).val = a.val * b.val ∧ (mul a b).wf :=
  ⟨mul_val a b, mul_wf a b⟩

/-- unary minus is exact (`checked_neg`, else bignum). -/
theorem C01_neg_exact (a : Num) : (neg a).val = - a.val ∧ (neg a).wf :=
  ⟨neg_val a, neg_wf a⟩

/-- `abs` is exact; the special constant used for `Fixnum::MIN` is the right one. -/
theorem C01_abs_exact (a : Num) (h : a.wf) : (abs a).val = a.val.natAbs ∧ (abs a).wf :=
  ⟨abs_val a h, abs_wf a⟩

/-! ## `//`, `rem`, `mod`, `div` -/

/-- `//` truncates toward zero (`Int.tdiv`) for every representation pair, including
`i64::MIN // -1`; `zero_divisor` exactly when the divisor denotes 0. -/
theorem C01_idiv_exact (a b : Num) :
    (idiv a b).map Num.val
      = (if b.val = 0 then .error .zeroDivisor else .ok (Int.tdiv a.val b.val)) ∧
    (∀ n, idiv a b = .ok n → n.wf) :=
  ⟨idiv_spec a b, fun n h => idiv_wf a b n h⟩

/-- `rem` is the truncating remainder (`Int.tmod`, sign of the dividend). -/
theorem C01_rem_exact (a b : Num) :
    (remainder a b).map Num.val
      = (if b.val = 0 then .error .zeroDivisor else .ok (Int.tmod a.val b.val)) ∧
    (∀ n, remainder a b = .ok n → n.wf) :=
  ⟨remainder_spec a b, fun n h => remainder_wf a b n h⟩

/-- `ibig_rem_floor` (residue modulo `|n2|`, shifted by `n2` when `n2 < 0` and the residue is
non-zero) is the flooring modulus, for every `n1 n2`. -/
theorem C01_ibigRemFloor_exact (n1 n2 : Int) : ibigRemFloor n1 n2 = Int.fmod n1 n2 :=
  ibigRemFloor_eq n1 n2

/-- `mod` is the flooring modulus (`Int.fmod`, sign of the divisor). -/
theorem C01_mod_exact (a b : Num) :
    (modulus a b).map Num.val
      = (if b.val = 0 then .error .zeroDivisor else .ok (Int.fmod a.val b.val)) ∧
    (∀ n, modulus a b = .ok n → n.wf) :=
  ⟨modulus_spec a b, fun n h => modulus_wf a b n h⟩

/-- `div`, computed as `(a - a mod b) // b`, is flooring division (`Int.fdiv`). -/
theorem C01_div_exact (a b : Num) :
    (intFloorDiv a b).map Num.val
      = (if b.val = 0 then .error .zeroDivisor else .ok (Int.fdiv a.val b.val)) ∧
    (∀ n, intFloorDiv a b = .ok n → n.wf) :=
  ⟨intFloorDiv_spec a b, fun n h => intFloorDiv_wf a b n h⟩

/-- each of the four operations raises `zero_divisor` iff the divisor denotes 0
(and raises nothing else). -/
theorem C01_zero_divisor_iff (a b : Num) :
    (idiv a b = .error .zeroDivisor ↔ b.val = 0) ∧
    (remainder a b = .error .zeroDivisor ↔ b.val = 0) ∧
    (modulus a b = .error .zeroDivisor ↔ b.val = 0) ∧
    (intFloorDiv a b = .error .zeroDivisor ↔ b.val = 0) :=
  ⟨zeroDivisor_iff _ _ _ (idiv_spec a b), zeroDivisor_iff _ _ _ (remainder_spec a b),
   zeroDivisor_iff _ _ _ (modulus_spec a b), zeroDivisor_iff _ _ _ (intFloorDiv_spec a b)⟩

/-! ## gcd -/

/-- the binary GCD on machine words: whenever it answers (no `checked_abs` failure) the answer
is the mathematical gcd. Covers the loop invariant *and* fuel sufficiency of the model's three
loops (64 halvings are enough below 2^64; the subtraction loop ends because `n1+n2` decreases). -/
theorem C01_isizeGcd_exact (n1 n2 r : Int) (h1 : inI64 n1 = true) (h2 : inI64 n2 = true)
    (h : isizeGcd n1 n2 = some r) : r = Int.gcd n1 n2 :=
  isizeGcd_spec n1 n2 r h1 h2 h

/-- `gcd` is exact for every representation pair (`gcd(0,0) = 0`). -/
theorem C01_gcd_exact (a b : Num) (ha : a.wf) (hb : b.wf) :
    (gcd a b).val = Int.gcd a.val b.val ∧ (gcd a b).wf :=
  ⟨gcd_val a b ha hb, gcd_wf a b⟩

/-! ## shifts -/

/-- the specification's left shift is multiplication by a power of two. -/
theorem C01_shlZ_exact (a : Int) (n : Nat) : shlZ a n = a * 2 ^ n := shlZ_eq a n

/-- the specification's right shift is flooring division by a power of two. -/
theorem C01_shrZ_exact (a : Int) (n : Nat) : shrZ a n = a / 2 ^ n := shrZ_eq a n

/-- `checked_signed_shl`: whenever it answers, the answer is `x * 2^shift`, and (for an i64 `x`
and a non-negative count) it lies inside i64 — so the machine shift did not wrap. -/
theorem C01_checkedSignedShl_exact (x s r : Int) (h : checkedSignedShl x s = some r) :
    r = x * 2 ^ s.toNat ∧ (inI64 x = true → 0 ≤ s → inI64 r = true) :=
  ⟨checkedSignedShl_val x s r h, fun hx hs => checkedSignedShl_inI64 x s r hx hs h⟩

/-- right shift of a fixnum by ANY count `n ≥ 0` is `⌊a / 2^n⌋`: below 64 the machine shift,
from 64 on (also beyond the clamp to `u32::MAX`) the sign fill `if a < 0 then -1 else 0`. -/
theorem C01_shrNonneg_fix_exact (a n : Int) (ha : inFix a = true) (hn : 0 ≤ n) :
    (shrNonneg (.fix a) n).val = a / 2 ^ n.toNat :=
  shrNonneg_fix_val a n ha hn

/-- right shift by `n ≥ 0` is `⌊a / 2^n⌋`, for a bignum under the side condition `shrOk`
(`n ≤ usize::MAX`, or `-2^(2^64-1) ≤ a < 2^(2^64-1)`); fixnums always satisfy it. -/
theorem C01_shrNonneg_exact (a : Num) (n : Int) (ha : a.wf) (hn : 0 ≤ n) (h : shrOk a.val n) :
    (shrNonneg a n).val = a.val / 2 ^ n.toNat ∧ (shrNonneg a n).wf :=
  ⟨shrNonneg_val a n ha hn h, shrNonneg_wf a n⟩

/-- no side condition is needed when the left operand is a fixnum. -/
theorem C01_shrOk_of_fix (a n : Int) (ha : inFix a = true) : shrOk a n :=
  Or.inr (fitsMem_of_inFix a ha)

/-- left shift by `n ≥ 0` is `a * 2^n` under `shlOk` (`n ≤ usize::MAX ∨ a = 0`). -/
theorem C01_shlNonneg_exact (a : Num) (n : Int) (hn : 0 ≤ n) (h : shlOk a.val n) :
    (shlNonneg a n).val = a.val * 2 ^ n.toNat ∧ (shlNonneg a n).wf :=
  ⟨shlNonneg_val a n hn h, shlNonneg_wf a n⟩

/-- the `shlOk` side condition cannot be dropped: beyond the clamp a non-zero operand gives
`a * 2^usize::MAX ≠ a * 2^n` (on the real machine the allocation fails first). -/
theorem C01_shl_side_condition_necessary (a : Num) (n : Int) (hn : USIZE_MAX < n)
    (ha : a.val ≠ 0) : (shlNonneg a n).val ≠ a.val * 2 ^ n.toNat :=
  shlNonneg_clamped_ne a n hn ha

/-- `>>` with any integer count: floor division for counts ≥ 0, and a negative count shifts
the other way (`a >> -k = a << k`). -/
theorem C01_shr_exact (a b : Num) (ha : a.wf) (hd : binDomain .shr a.val b.val) :
    (shr a b).val
      = (if b.val ≥ 0 then a.val / 2 ^ b.val.toNat else a.val * 2 ^ (-b.val).toNat) ∧
    (shr a b).wf :=
  ⟨shr_val a b ha hd, shr_wf a b⟩

/-- `<<` with any integer count (negative counts shift right, flooring). -/
theorem C01_shl_exact (a b : Num) (ha : a.wf) (hd : binDomain .shl a.val b.val) :
    (shl a b).val
      = (if b.val ≥ 0 then a.val * 2 ^ b.val.toNat else a.val / 2 ^ (-b.val).toNat) ∧
    (shl a b).wf :=
  ⟨shl_val a b ha hd, shl_wf a b⟩

/-! ## bitwise -/

/-- `/\`, `\/`, `xor` compute the two's-complement operation on the denoted integers. -/
theorem C01_bitwise_exact (a b : Num) :
    ((band a b).val = land a.val b.val ∧ (band a b).wf) ∧
    ((bor a b).val = lor a.val b.val ∧ (bor a b).wf) ∧
    ((bxor a b).val = lxor a.val b.val ∧ (bxor a b).wf) :=
  ⟨⟨band_val a b, band_wf a b⟩, ⟨bor_val a b, bor_wf a b⟩, ⟨bxor_val a b, bxor_wf a b⟩⟩

/-- `\` is `-a - 1`; the unchecked `Fixnum(!n)` stays inside the 56-bit range. -/
theorem C01_bnot_exact (a : Num) (h : a.wf) : (bnot a).val = -a.val - 1 ∧ (bnot a).wf :=
  ⟨bnot_val a, bnot_wf a h⟩

/-- `land/lor/lxor/(-a-1)` are the bitwise operations of infinite two's complement: bit `i` of
the result is the Boolean operation on bits `i` (Mathlib's `Int.testBit`), and they coincide
with Mathlib's `Int.land`, `Int.lor`, `Int.xor`. -/
theorem C01_bitwise_bits (a b : Int) (i : Nat) :
    (land a b).testBit i = (a.testBit i && b.testBit i) ∧
    (lor a b).testBit i = (a.testBit i || b.testBit i) ∧
    (lxor a b).testBit i = (a.testBit i ^^ b.testBit i) ∧
    (-a - 1).testBit i = !a.testBit i ∧
    land a b = Int.land a b ∧ lor a b = Int.lor a b ∧ lxor a b = Int.xor a b :=
  ⟨land_testBit a b i, lor_testBit a b i, lxor_testBit a b i, bnot_testBit a i,
   land_eq_Int_land a b, lor_eq_Int_lor a b, lxor_eq_Int_xor a b⟩

/-! ## min / max / sign -/

/-- `min` and `max` return an argument with the minimal / maximal value (well-formed if both are). -/
theorem C01_min_max_exact (a b : Num) (ha : a.wf) (hb : b.wf) :
    ((min a b).val = (if a.val ≤ b.val then a.val else b.val) ∧ (min a b).wf) ∧
    ((max a b).val = (if a.val ≤ b.val then b.val else a.val) ∧ (max a b).wf) :=
  ⟨⟨min_val a b, min_wf a b ha hb⟩, ⟨max_val a b, max_wf a b ha hb⟩⟩

/-- `sign` is the mathematical sign. -/
theorem C01_sign_exact (a : Num) : (sign a).val = Int.sign a.val ∧ (sign a).wf :=
  ⟨sign_val a, sign_wf a⟩

/-! ## power -/

/-- the specification's power function is `a ^ n`. -/
theorem C01_powZ_exact (a : Int) (n : Nat) : powZ a n = a ^ n := powZ_eq a n

/-- `i64::checked_pow`: whenever it answers, the answer is `a ^ n` and lies inside i64. -/
theorem C01_checkedPow_exact (a : Int) (n : Nat) (r : Int) (h : checkedPow a n = some r) :
    r = a ^ n ∧ inI64 r = true := ⟨checkedPow_val a n r h, checkedPow_inI64 a n r h⟩

/-- `binary_pow` (square-and-multiply, sign of the exponent ignored) is `n ^ |p|`; the fuel
`log2 |p| + 1` of the model is sufficient. -/
theorem C01_binaryPow_exact (n p : Int) : binaryPow n p = n ^ p.natAbs := binaryPow_eq n p

/-- `^` on integers: `undefined` for `0 ^ negative` (checked first), `type_error(float, a)`
for a negative exponent unless `a ∈ {1, -1}`, otherwise exactly `a ^ |b|` (so `(±1)^(-n) =
(±1)^n`). -/
theorem C01_intPow_exact (a b : Num) :
    (intPow a b).map Num.val
      = (if a.val = 0 ∧ b.val < 0 then .error .undefined
         else if b.val < 0 ∧ a.val ≠ 1 ∧ a.val ≠ -1 then .error (.typeFloat a.val)
         else .ok (a.val ^ b.val.natAbs)) ∧
    (∀ n, intPow a b = .ok n → n.wf) := by
  refine ⟨?_, fun n h => intPow_wf a b n h⟩
  rw [intPow_spec]; simp only [specBin, powZ_eq]

/-! ## whole expressions -/

/-- every value the evaluator produces is well-formed (fixnum payloads stay in the 56-bit range). -/
theorem C01_eval_wf (e : Expr) (n : Num) (h : eval e = .ok n) : n.wf := eval_wf e n h

/-- The capstone: for every expression over every functor of the property, the mechanism
(`eval`, over the two-representation `Num`) returns exactly what the specification over ℤ
(`evalSpec`) says — same value or same error — provided the shifts inside `e` satisfy the
"fits in memory" side condition `InDomain`. -/
theorem C01_eval_exact (e : Expr) (h : InDomain e) : (eval e).map Num.val = evalSpec e :=
  eval_exact e h

/-- `InDomain` holds outright for expressions without shift operators. -/
theorem C01_inDomain_of_no_shift (op : BinOp) (l r : Expr) (hl : InDomain l) (hr : InDomain r)
    (h1 : op ≠ .shl) (h2 : op ≠ .shr) : InDomain (.bin op l r) := by
  refine ⟨hl, hr, fun a b _ _ => ?_⟩
  cases op <;> trivial   -- `trivial` also closes the `.shl ≠ .shl` / `.shr ≠ .shr` cases

/-- … and for shifts whose count is a literal within `usize`. -/
theorem C01_inDomain_of_small_count (l : Expr) (c : Int) (hl : InDomain l)
    (hc : -USIZE_MAX ≤ c ∧ c ≤ USIZE_MAX) :
    InDomain (.bin .shl l (.lit c)) ∧ InDomain (.bin .shr l (.lit c)) := by
  have key : ∀ b, evalSpec (.lit c) = .ok b → (b ≤ USIZE_MAX ∧ -b ≤ USIZE_MAX) := by
    intro b hb
    simp only [evalSpec, Except.ok.injEq] at hb
    subst hb; omega
  constructor
  · refine ⟨hl, trivial, fun a b _ hb => ?_⟩
    have := key b hb
    simp only [binDomain]; split
    · exact Or.inl this.1
    · exact Or.inl this.2
  · refine ⟨hl, trivial, fun a b _ hb => ?_⟩
    have := key b hb
    simp only [binDomain]; split
    · exact Or.inl this.1
    · exact Or.inl this.2

/-! ## non-vacuity: the boundary cases really take the overflow / clamp / sign-fill branches -/

private instance : DecidableEq R := fun x y =>
  match x, y with
  | .ok a, .ok b => if h : a = b then isTrue (by rw [h]) else isFalse (fun e => h (by cases e; rfl))
  | .error a, .error b =>
      if h : a = b then isTrue (by rw [h]) else isFalse (fun e => h (by cases e; rfl))
  | .ok _, .error _ => isFalse (fun e => nomatch e)
  | .error _, .ok _ => isFalse (fun e => nomatch e)

example : add (.fix (2^55 - 1)) (.fix 1) = .big (2^55) := by decide
example : abs (.fix (-(2^55))) = .big (2^55) ∧ (Num.fix (-(2^55))).wf := ⟨by decide, by decide⟩
example : neg (.fix (-(2^55))) = .big (2^55) := by decide
example : mul (.fix (2^54)) (.fix (2^54)) = .big (2^108) := by decide
-- `2^62 << 1`: `checked_signed_shl` refuses (leading_zeros = 1), the bignum path is taken
example : checkedSignedShl (2^62) 1 = none := by decide
example : eval (.bin .shl (.lit (2^62)) (.lit 1)) = .ok (.big (2^63)) := by decide
example : shl (.fix (2^54)) (.fix 8) = .big (2^62) ∧ shl (.fix (2^54)) (.fix 9) = .big (2^63) :=
  ⟨by decide, by decide⟩
-- `(-(2^63)) // -1` does not overflow
example : eval (.bin .idiv (.lit (-(2^63))) (.lit (-1))) = .ok (.big (2^63)) := by decide
example : idiv (.fix I64_MIN) (.fix (-1)) = .ok (.big (2^63)) := by decide
-- sign fill: `-1 >> 64`, counts beyond u32 and beyond usize, and a bignum shifted out entirely
example : eval (.bin .shr (.lit (-1)) (.lit 64)) = .ok (.fix (-1)) := by decide
example : shr (.fix (-5)) (.fix (2^32)) = .fix (-1) ∧ shr (.fix 5) (.big (2^64)) = .fix 0 :=
  ⟨by decide, by decide⟩
example : eval (.bin .shr (.lit (-(2^70))) (.lit 200)) = .ok (.big (-1)) := by decide
example : InDomain (.bin .shr (.lit (-(2^70))) (.lit 200)) :=
  (C01_inDomain_of_small_count (.lit (-(2^70))) 200 trivial (by decide)).2
-- a negative count dispatches to the other direction
example : shr (.fix 3) (.fix (-2)) = .fix 12 ∧ shl (.fix (-7)) (.fix (-1)) = .fix (-4) :=
  ⟨by decide, by decide⟩
-- division family: signs, and the error
example : modulus (.fix (-7)) (.big 2) = .ok (.big 1) ∧ modulus (.fix 7) (.big (-2)) = .ok (.big (-1)) :=
  ⟨by decide, by decide⟩
example : intFloorDiv (.fix (-7)) (.fix 2) = .ok (.fix (-4)) ∧ idiv (.fix (-7)) (.fix 2) = .ok (.fix (-3)) :=
  ⟨by decide, by decide⟩
example : eval (.bin .mod (.lit 1) (.bin .sub (.lit (2^64)) (.lit (2^64)))) = .error .zeroDivisor := by
  decide
-- gcd: the word algorithm answers on the fixnum boundary; `checked_abs` fails only on i64::MIN
example : gcd (.fix (2^55 - 1)) (.fix (-(2^55))) = .fix 1 ∧ gcd (.fix (-(2^55))) (.fix (2^54)) = .fix (2^54) :=
  ⟨by decide, by decide⟩
example : isizeGcd I64_MIN 6 = none ∧ isizeGcd 0 0 = some 0 := ⟨by decide, by decide⟩
-- power: overflow of checked_pow falls through to binary_pow; the three error/unit cases
example : intPow (.fix 2) (.fix 63) = .ok (.big (2^63)) ∧ intPow (.fix 2) (.fix 62) = .ok (.big (2^62)) :=
  ⟨by decide, by decide⟩
example : intPow (.fix 0) (.fix (-1)) = .error .undefined ∧
    intPow (.fix 2) (.fix (-1)) = .error (.typeFloat 2) ∧
    intPow (.fix (-1)) (.fix (-3)) = .ok (.big (-1)) := ⟨by decide, by decide, by decide⟩
-- bitwise on mixed signs and representations; `\` at the fixnum edge
example : band (.fix (-2)) (.fix (-5)) = .fix (-6) ∧ bor (.fix 5) (.big (2^64)) = .big (2^64 + 5) ∧
    bxor (.big (-1)) (.fix 5) = .big (-6) ∧ bnot (.fix (2^55 - 1)) = .fix (-(2^55)) :=
  ⟨by decide, by decide, by decide, by decide⟩

end Scryer.Arith
