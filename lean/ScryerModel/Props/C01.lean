import ScryerModel.Proofs.ArithInt
/-!
# C01 — Integer arithmetic is exact at every magnitude

Property theorems over the mechanism model `Model/ArithInt.lean` (which mirrors
`arithmetic_ops.rs` branch by branch). `Num.val` is the mathematical integer a `Number`
denotes; `Num.wf` says a fixnum payload is inside the 56-bit range. Every theorem is for all
integers — no bound on magnitude. Only statements live here; lemmas are in `Proofs/ArithInt`.
-/
namespace Scryer.Arith

/-- `+` is exact for every pair of representations, across the i64 and fixnum boundaries. -/
theorem C01_add_exact (a b : Num) : (add a b).val = a.val + b.val ∧ (add a b).wf :=
  ⟨add_val a b, add_wf a b⟩

theorem C01_sub_exact (a b : Num) : (sub a b).val = a.val - b.val ∧ (sub a b).wf :=
  ⟨sub_val a b, sub_wf a b⟩

theorem C01_mul_exact (a b : Num) : (mul a b).val = a.val * b.val ∧ (mul a b).wf :=
  ⟨mul_val a b, mul_wf a b⟩

theorem C01_neg_exact (a : Num) : (neg a).val = - a.val ∧ (neg a).wf :=
  ⟨neg_val a, neg_wf a⟩

/-- `abs` is exact; the special constant used for `Fixnum::MIN` is the right one. -/
theorem C01_abs_exact (a : Num) (h : a.wf) : (abs a).val = a.val.natAbs ∧ (abs a).wf :=
  ⟨abs_val a h, abs_wf a⟩

-- non-vacuity: the boundary cases really take the overflow branches
example : add (.fix (2^55 - 1)) (.fix 1) = .big (2^55) := by decide
example : abs (.fix (-(2^55))) = .big (2^55) ∧ (Num.fix (-(2^55))).wf := ⟨by decide, by decide⟩
example : neg (.fix (-(2^55))) = .big (2^55) := by decide
example : mul (.fix (2^54)) (.fix (2^54)) = .big (2^108) := by decide

end Scryer.Arith
