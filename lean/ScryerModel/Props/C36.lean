import ScryerModel.Proofs.FormatArgs
/-!
# C36 — format/2 directives produce the documented text

`Scryer.Format` (Model/Format.lean) is a transcription of `format_//2` of `src/lib/format.pl`:
`tokens` (directive syntax), `cells` (phase 1: argument consumption, format-string errors),
`renderCells` (phase 2: goals, glue, characters). The theorems below are about the REPAIRED
transcription (`Cfg.pinned = false`); the `pinned_*` theorems show that the pinned library
(`Cfg.pinned = true`, findings C36-1/2/3) does not satisfy them.

Specification side (Proofs/Format.lean): `horner r cs` is the positional value of a digit string,
`digitVal` the value of one digit character, `isDec c` = "c is a decimal digit"; `readInt`
(Proofs/FormatThms.lean) reads an optionally signed decimal string by Horner's rule.
-/
namespace Scryer.Format
open Scryer

/-! ## `~d`, `~Nd` -/

/-- `~d` (N = 0 or omitted) prints the decimal expansion of any integer: a `-` for negative
numbers followed by decimal digits whose positional value is `|i|`; reading it back gives `i`. -/
theorem C36_d_decimal (i : Int) :
    fmtD false 0 i = (if i < 0 then ['-'] else []) ++ natChars i.natAbs ∧
    horner 10 (natChars i.natAbs) = i.natAbs ∧
    (∀ c ∈ natChars i.natAbs, isDec c) ∧
    readInt (fmtD false 0 i) = i := by
  have hdec : ∀ c ∈ natChars i.natAbs, isDec c := fun c hc => (natChars_digits _ c hc).2.2.2
  have h1 : fmtD false 0 i = (if i < 0 then ['-'] else []) ++ natChars i.natAbs := by
    rw [fmtD_sign]; simp [insertPoint]
  refine ⟨h1, horner_natChars _, hdec, ?_⟩
  rw [h1]
  by_cases hi : i < 0
  · simp only [hi, ↓reduceIte, List.singleton_append, readInt, horner_natChars]; omega
  · simp only [hi, ↓reduceIte, List.nil_append]
    have hne := natChars_ne_nil i.natAbs
    cases hc : natChars i.natAbs with
    | nil => exact absurd hc hne
    | cons c cs =>
      have hm : c ≠ '-' := (natChars_digits i.natAbs c (by simp [hc])).1
      have : readInt (c :: cs) = (horner 10 (c :: cs) : Int) := by
        unfold readInt
        split
        · rename_i h; exact absurd (List.cons.inj h).1 hm
        · rfl
      rw [this, ← hc, horner_natChars]; omega

/-- `~Nd` with N > 0, for every integer: sign, then the decimal expansion of `|i| / 10^N`, then a
point, then exactly N decimal digits whose value is `|i| mod 10^N` (zero padded). -/
theorem C36_Nd_point (n : Nat) (hn : 0 < n) (i : Int) :
    ∃ fp, fmtD false n i =
        (if i < 0 then ['-'] else []) ++ natChars (i.natAbs / 10 ^ n) ++ '.' :: fp ∧
      fp.length = n ∧ horner 10 fp = i.natAbs % 10 ^ n ∧ ∀ c ∈ fp, isDec c := by
  obtain ⟨frac, h1, h2⟩ := insertPoint_spec n i.natAbs
  rcases h2 with ⟨h0, _⟩ | ⟨_, fp, rfl, hl, hv, hd⟩
  · omega
  · exact ⟨fp, by rw [fmtD_sign, h1, List.append_assoc], hl, hv, hd⟩

/-- removing the point from `~Nd` gives back the digits of the number: the value of integer part
and fraction digits together is `|i|`. -/
theorem C36_Nd_digits (n : Nat) (hn : 0 < n) (i : Int) :
    ∃ fp, fmtD false n i =
        (if i < 0 then ['-'] else []) ++ natChars (i.natAbs / 10 ^ n) ++ '.' :: fp ∧
      horner 10 (natChars (i.natAbs / 10 ^ n) ++ fp) = i.natAbs := by
  obtain ⟨fp, h, hl, hv, _⟩ := C36_Nd_point n hn i
  refine ⟨fp, h, ?_⟩
  rw [horner_append, horner_natChars, hl, hv]
  exact Nat.div_add_mod' _ _

/-! ## `~ND`, `~NU` -/

/-- `~ND` / `~NU` (separator `,` / `_`): deleting the separators gives exactly the text of `~Nd`. -/
theorem C36_ND_ungroup (sep : Char) (hsep : sep = ',' ∨ sep = '_') (n : Nat) (i : Int) :
    (fmtSep false sep n i).filter (· != sep) = fmtD false n i := by
  have hs1 : ∀ c, isDec c → c ≠ sep := by
    intro c hc e
    subst e
    rcases hsep with rfl | rfl
    · exact (isDigit_ne hc).2.2.1 rfl
    · exact (isDigit_ne hc).2.2.2 rfl
  have hm : ('-' != sep) = true := by rcases hsep with rfl | rfl <;> decide
  have hd : ('.' != sep) = true := by rcases hsep with rfl | rfl <;> decide
  obtain ⟨frac, h1, h2⟩ := sepBody_insertPoint sep n i.natAbs
  obtain ⟨frac', h1', h3⟩ := insertPoint_spec n i.natAbs
  have hf : frac' = frac := List.append_cancel_left (h1'.symm.trans h1)
  subst hf
  have hnot : sep ∉ (natChars (i.natAbs / 10 ^ n)).reverse := by
    intro hmem
    exact hs1 sep (natChars_digits _ sep (List.mem_reverse.mp hmem)).2.2.2 rfl
  have hfrac : frac'.filter (· != sep) = frac' := by
    rcases h3 with ⟨_, rfl⟩ | ⟨_, fp, rfl, _, _, hdec⟩
    · rfl
    · rw [List.filter_cons, hd]
      simp only [↓reduceIte]
      rw [filter_ne_self (fun hmem => hs1 sep (hdec sep hmem) rfl)]
  have hbody : (sepBody sep (insertPoint n (natChars i.natAbs))).filter (· != sep) =
      insertPoint n (natChars i.natAbs) := by
    rw [h2, List.filter_append, List.filter_reverse, groups3_filter sep _ hnot, List.reverse_reverse,
      hfrac, ← h1]
  rw [fmtD_sign]
  simp only [fmtSep, Bool.false_eq_true, ↓reduceIte]
  split
  · rw [List.filter_cons, hm]; simp only [↓reduceIte, List.singleton_append]; rw [hbody]
  · rw [hbody]; rfl

/-- `~ND` / `~NU`: sign, the GROUPED integer part, then the unchanged fraction of `~Nd`; in the
grouped integer part, counted from its right end, the separators stand exactly at the positions
3, 7, 11, … (groups of exactly three digits) and it does not begin with a separator. -/
theorem C36_ND_groups_of_three (sep : Char) (hsep : sep = ',' ∨ sep = '_') (n : Nat) (i : Int) :
    ∃ grouped frac,
      fmtSep false sep n i = (if i < 0 then ['-'] else []) ++ grouped ++ frac ∧
      fmtD false n i = (if i < 0 then ['-'] else []) ++ natChars (i.natAbs / 10 ^ n) ++ frac ∧
      (∀ p (hp : p < grouped.reverse.length), (grouped.reverse[p] = sep ↔ p % 4 = 3)) ∧
      grouped.length % 4 ≠ 0 := by
  obtain ⟨frac, h1, h2⟩ := sepBody_insertPoint sep n i.natAbs
  have hnot : sep ∉ (natChars (i.natAbs / 10 ^ n)).reverse := by
    intro hmem
    have hd := (natChars_digits _ sep (List.mem_reverse.mp hmem)).2.2.2
    rcases hsep with rfl | rfl
    · exact (isDigit_ne hd).2.2.1 rfl
    · exact (isDigit_ne hd).2.2.2 rfl
  obtain ⟨g1, g2⟩ := groups3_sep_positions sep _ hnot
  refine ⟨(groups3 sep (natChars (i.natAbs / 10 ^ n)).reverse).reverse, frac, ?_, ?_, ?_, ?_⟩
  · simp only [fmtSep, Bool.false_eq_true, ↓reduceIte]
    rw [h2]
    split <;> simp
  · rw [fmtD_sign, h1, List.append_assoc]
  · intro p hp
    simp only [List.reverse_reverse] at hp ⊢
    exact g1 p hp
  · rw [List.length_reverse]
    exact g2 (by simp [natChars_ne_nil])

/-! ## `~Nr`, `~NR` -/

/-- `~Nr` for 2 ≤ N ≤ 36 and any integer: a `-` for negative numbers, then a non-empty string of
digit characters (`digitChar`: `0-9`, then `a-z` resp. `A-Z`) below the radix whose positional (Horner) value in radix N is `|i|`, without a leading zero
unless the number is 0 — i.e. THE representation of `i` in radix N. -/
theorem C36_radix_value (upper : Bool) (r : Nat) (h2 : 2 ≤ r) (h36 : r ≤ 36) (i : Int) :
    ∃ ds : List Char, radixChars upper r i = (if i < 0 then ['-'] else []) ++ ds ∧
      horner r ds = i.natAbs ∧ ds ≠ [] ∧ (∀ c ∈ ds, ∃ d, d < r ∧ c = digitChar upper d) ∧
      (i ≠ 0 → ds.head? ≠ some '0') :=
  radixChars_spec upper h2 h36 i

/-- `~NR` is `~Nr` with the letters in upper case. -/
theorem C36_radix_upper (r : Nat) (h2 : 2 ≤ r) (h36 : r ≤ 36) (i : Int) :
    radixChars true r i = (radixChars false r i).map Char.toUpper :=
  radixChars_upper h2 h36 i

/-- a radix outside 2..36 is an error (`domain_error(format_string, "~Nr")`), never output. -/
theorem C36_radix_out_of_range (cfg : Cfg) (prim : FPrim) (upper : Bool) (n : Int) (t : Term)
    (h : n < 2 ∨ n > 36) : ∀ cs, runGoal cfg prim (.radix upper n t) ≠ .ok cs := by
  intro cs
  simp only [runGoal]
  cases evalInt t with
  | error e => simp [bind, Except.bind]
  | ok i => simp [bind, Except.bind, h]

/-! ## column stops -/

/-- a cell that ends at a column stop and has at least one fill point: its width is exactly
`max (To - From) (width of its text)` — the stop is reached, longer text is not cut. -/
theorem C36_column_width (from_ to_ : Int) (segs : List Seg) (hp : countPads segs ≠ 0) :
    ((renderCell from_ to_ segs).length : Int) = max (to_ - from_) (textWidth segs) :=
  renderCell_length from_ to_ segs hp

/-- the padding `To - From - width` (when positive) is distributed over the k fill points as the
library documents it: `space / k` each, the LAST one takes the remainder as well; the output is
the elements in order with each fill point replaced by that many fill characters (`fill`). -/
theorem C36_column_padding_distribution (from_ to_ : Int) (segs : List Seg)
    (hp : countPads segs ≠ 0) (hs : 0 < to_ - from_ - (textWidth segs : Int)) :
    renderCell from_ to_ segs =
      fill segs (List.replicate (countPads segs - 1) ((to_ - from_ - textWidth segs).toNat / countPads segs) ++
        [(to_ - from_ - textWidth segs).toNat / countPads segs +
         (to_ - from_ - textWidth segs).toNat % countPads segs]) := by
  rw [renderCell, glueSizes_shape hp hs]

/-- text is never dropped or reordered: the text of the cell is a subsequence of the output and
everything else is padding (`output length = text length + padding`). -/
theorem C36_column_text_preserved (from_ to_ : Int) (segs : List Seg) :
    (allText segs).Sublist (renderCell from_ to_ segs) ∧
    (renderCell from_ to_ segs).length =
      (allText segs).length + (glueSizes (countPads segs) (to_ - from_ - (textWidth segs : Int))).sum := by
  refine ⟨fill_sublist _ _, ?_⟩
  rw [renderCell, fill_length _ _ (glueSizes_length _ _), allText_length]

/-- a cell without fill point is printed as it is, whatever the column stop says. -/
theorem C36_column_no_fill_point (from_ to_ : Int) (segs : List Seg) (hp : countPads segs = 0) :
    renderCell from_ to_ segs = allText segs :=
  renderCell_no_pads from_ to_ segs hp

/-! ## argument consumption, errors -/

/-- too many arguments: when `args` is exactly what the format string demands, a non-empty
surplus raises `domain_error(empty_list, Surplus)` in phase 1 — no output. -/
theorem C36_too_many_arguments (cfg : Cfg) (prim : FPrim) (fs : List Char) (args extra : List Arg)
    (out : List Char) (h : formatChars cfg prim fs args = .ok out) (hx : extra ≠ []) :
    formatChars cfg prim fs (args ++ extra) =
      .error (.dom "empty_list" (Term.ofList (extra.map (·.t)))) := by
  unfold formatChars at h ⊢
  cases hc : cells (tokens fs) args [] with
  | error e => simp [hc] at h
  | ok cs => rw [cells_extra extra hx _ _ _ _ hc]

/-- too few arguments: when `pre ++ x :: rest` is accepted, `pre` alone raises
`domain_error(non_empty_list, [])` or `domain_error(format_string, Directive…)` (the latter when
a `*` took the last argument) in phase 1 — no output. -/
theorem C36_too_few_arguments (cfg : Cfg) (prim : FPrim) (fs : List Char) (pre : List Arg)
    (x : Arg) (rest : List Arg) (out : List Char)
    (h : formatChars cfg prim fs (pre ++ x :: rest) = .ok out) :
    ∃ e, formatChars cfg prim fs pre = .error e ∧
      (e = .dom "non_empty_list" Term.nil ∨ ∃ s, e = .dom "format_string" s) := by
  unfold formatChars at h ⊢
  cases hc : cells (tokens fs) (pre ++ x :: rest) [] with
  | error e => simp [hc] at h
  | ok cs =>
    obtain ⟨e, he, hk⟩ := cells_prefix x rest _ _ _ _ hc
    exact ⟨e, by rw [he], hk⟩

/-- an unknown directive (a `~` that no clause of the library accepts) is an error for every
argument list. -/
theorem C36_unknown_directive_error (cfg : Cfg) (prim : FPrim) (fs : List Char) (args : List Arg)
    (h : ∃ src, (Tok.bad, src) ∈ tokens fs) : ∃ e, formatChars cfg prim fs args = .error e := by
  obtain ⟨e, he⟩ := cells_bad _ h args []
  exact ⟨e, by simp [formatChars, he]⟩

/-- no partial output: if `format_//2` describes a string at all, every goal of every directive
has succeeded (an ill-typed argument anywhere makes the whole call an error). -/
theorem C36_ill_typed_no_output (prim : FPrim) (fs : List Char) (args : List Arg) (out : List Char)
    (h : formatChars {} prim fs args = .ok out) :
    ∃ cs, cells (tokens fs) args [] = .ok cs ∧
      ∀ g ∈ cellGoals cs, ∃ t, runGoal {} prim g = .ok t := by
  unfold formatChars at h
  cases hc : cells (tokens fs) args [] with
  | error e => simp [hc] at h
  | ok cs =>
    rw [hc] at h
    exact ⟨cs, rfl, renderCells_ok prim cs 0 out h⟩

/-- `~d ~D ~U ~L ~r ~R` accept integers only: a float, a rational, an atom or an unbound variable
is an error. -/
theorem C36_integer_directives_reject (cfg : Cfg) (prim : FPrim) (n : Int) (t : Term)
    (ht : (∃ b, t = .flt b) ∨ (∃ a d, t = .rat a d) ∨ (∃ a, t = .atom a) ∨ (∃ v, t = .var v)) :
    ∀ cs, runGoal cfg prim (.d n t) ≠ .ok cs ∧ runGoal cfg prim (.sep ',' n t) ≠ .ok cs ∧
      runGoal cfg prim (.l n t) ≠ .ok cs ∧ runGoal cfg prim (.radix false n t) ≠ .ok cs := by
  intro cs
  have he : ∃ e, evalInt t = .error e := by
    rcases ht with ⟨b, rfl⟩ | ⟨a, d, rfl⟩ | ⟨a, rfl⟩ | ⟨v, rfl⟩ <;> exact ⟨_, rfl⟩
  obtain ⟨e, he⟩ := he
  refine ⟨?_, ?_, ?_, ?_⟩ <;> simp only [runGoal, he, bind, Except.bind] <;> (try split_ifs) <;> simp

/-- `~a` accepts atoms only (a number is a type error, a variable an instantiation error); `~s`
of an unbound variable is an instantiation error. -/
theorem C36_a_s_reject (cfg : Cfg) (prim : FPrim) (v : Int) :
    runGoal cfg prim (.a (.int v)) = .error (.type "atom" (.int v)) ∧
    runGoal cfg prim (.a (.var "X")) = .error .inst ∧
    runGoal cfg prim (.s (.var "X")) = .error .inst := by
  refine ⟨rfl, rfl, ?_⟩
  simp [runGoal, mustBeChars, isVar]

/-! ## `~~`, `~n`, `~Nn`, `~i` -/

/-- `~Nn` emits exactly N newlines, `~~` a tilde, `~i` skips its argument. -/
theorem C36_newlines_tilde_ignore (cfg : Cfg) (prim : FPrim) (n : Nat) (s1 s2 s3 : List Char) (a : Arg) :
    (cells [(.num (.lit n) 'n', s1)] [] [] = .ok [.cell .same [], .newlines n, .cell .same []]) ∧
    renderCells cfg prim [.cell .same [], .newlines n, .cell .same []] 0 = .ok (List.replicate n '\n') ∧
    (cells [(.tilde, s2), (.plain 'i', s3)] [a] [] = .ok [.cell .same [.chars ['~']]]) ∧
    renderCells cfg prim [.cell .same [.chars ['~']]] 0 = .ok ['~'] := by
  refine ⟨?_, ?_, ?_, ?_⟩
  · have : ¬ ((n : Int) < 0) := by omega
    simp [cells, step, takeNum, numClose, this]
  · simp [renderCells, evalElems, renderCell, fill, glueSizes, countPads, textWidth, cellTo, bind, Except.bind]
  · simp [cells, step, plainElem]
  · simp [renderCells, evalElems, renderCell, fill, glueSizes, countPads, textWidth, cellTo, bind, Except.bind]

/-! ## `~Nf` (shape, given the arithmetic) -/

/-- `~Nf`, N ≥ 1: when the arithmetic delivers a rounded fraction `0 ≤ frr0 ≤ 10^N`, the text is
the integer part (after the carry), a point and exactly N decimal digits whose value is the
rounded fraction (0 after a carry). -/
theorem C36_Nf_shape (n : Nat) (hn : 0 < n) (p : FParts) (h0 : 0 ≤ p.frr0) (h1 : p.frr0 ≤ 10 ^ n) :
    ∃ ip fp, fmtF n p = some (ip ++ '.' :: fp) ∧ fp.length = n ∧
      (horner 10 fp : Int) = (if p.frr0 = 10 ^ n then 0 else p.frr0) ∧
      (ip = ['-', '0'] ∨ ip = intChars (if p.frr0 = 10 ^ n then p.i0 + p.sgn else p.i0)) := by
  have hpow : (1 : Int) < 10 ^ n := by
    have : (10 : Int) ^ 1 ≤ 10 ^ n := pow_le_pow_right₀ (by norm_num) hn
    linarith
  -- the number whose digits are printed after dropping the leading 1
  set frr : Int := if p.frr0 ≥ 10 ^ n then p.frr0 else p.frr0 + 10 ^ n with hfrr
  have hge : (10 : Int) ^ n ≤ frr := by rw [hfrr]; split <;> linarith
  have hlt : frr < 2 * 10 ^ n := by rw [hfrr]; split <;> linarith
  have hne1 : frr ≠ 1 := by linarith
  obtain ⟨m, hm⟩ : ∃ m : Nat, frr = (m : Int) := ⟨frr.toNat, by omega⟩
  have hm_ge : 10 ^ n ≤ m := by exact_mod_cast (hm ▸ hge)
  have hm_lt : m < 2 * 10 ^ n := by exact_mod_cast (hm ▸ hlt)
  have hchars : intChars frr = natChars m := by
    rw [hm]; simp [intChars]
  -- natChars m = '1' :: n digits of (m - 10^n)
  have hlen : n < (natChars m).length := by
    by_contra hcon
    have := natChars_lt_pow m
    have : 10 ^ (natChars m).length ≤ 10 ^ n := Nat.pow_le_pow_right (by omega) (by omega)
    omega
  obtain ⟨t1, t2, t3⟩ := natChars_take_drop (m := m) (k := n) hlen
  have hq : m / 10 ^ n = 1 := by
    apply Nat.div_eq_of_lt_le <;> omega
  have hone : natChars 1 = ['1'] := by
    simp [natChars, digitsLE_pos, digitsLE_zero, digitChar]
  have hsplit0 : natChars m = '1' :: (natChars m).drop ((natChars m).length - n) := by
    conv_lhs => rw [← List.take_append_drop ((natChars m).length - n) (natChars m), t1, hq, hone]
    rfl
  have hmod : m % 10 ^ n = m - 10 ^ n := by
    rw [Nat.mod_eq_sub_mod hm_ge, Nat.mod_eq_of_lt (by omega)]
  generalize hD : (natChars m).drop ((natChars m).length - n) = D at hsplit0 t2 t3
  refine ⟨(if (if p.frr0 ≥ 10 ^ n then p.i0 + p.sgn else p.i0) = 0 ∧ p.neg = true ∧ frr > 10 ^ n
      then ['-', '0'] else intChars (if p.frr0 ≥ 10 ^ n then p.i0 + p.sgn else p.i0)),
    D, ?_, t2, ?_, ?_⟩
  · unfold fmtF
    simp only [← hfrr, hne1, ↓reduceIte, hchars, hsplit0]
  · rw [t3, hmod]
    have : ((m - 10 ^ n : Nat) : Int) = frr - 10 ^ n := by rw [hm]; push_cast [hm_ge]; ring
    rw [this, hfrr]
    by_cases he : p.frr0 = 10 ^ n
    · simp [he]
    · have : ¬ p.frr0 ≥ 10 ^ n := by omega
      simp [he, this]
  · by_cases hc : (if p.frr0 ≥ 10 ^ n then p.i0 + p.sgn else p.i0) = 0 ∧ p.neg = true ∧ frr > 10 ^ n
    · left; simp only [hc, and_self, ↓reduceIte]
    · right
      simp only [hc, ↓reduceIte]
      by_cases he : p.frr0 = 10 ^ n
      · simp [he]
      · have : ¬ p.frr0 ≥ 10 ^ n := by omega
        simp [he, this]

/-! ## the pinned library violates the statements above (findings C36-1, C36-2, C36-3) -/

/-- C36-1: pinned `~2d` of -5 is `0.-5` and `~3d` of -123 is `-.123`; repaired `-0.05`, `-0.123`. -/
theorem C36_pinned_Nd_violates :
    fmtD true 2 (-5) = ['0', '.', '-', '5'] ∧ fmtD false 2 (-5) = ['-', '0', '.', '0', '5'] ∧
    fmtD true 3 (-123) = ['-', '.', '1', '2', '3'] ∧ fmtD false 3 (-123) = ['-', '0', '.', '1', '2', '3'] := by
  obtain ⟨h5, h123, _⟩ := natChars_small
  refine ⟨?_, ?_, ?_, ?_⟩ <;>
    simp [fmtD, intChars, insertPoint, h5, h123, show (-5 : Int).natAbs = 5 from rfl,
      show (-123 : Int).natAbs = 123 from rfl]

/-- C36-2: pinned `~D` of -123456 is `-,123,456` (a group separator right after the sign: the
"group" `-` is not a group of digits); repaired `-123,456`. -/
theorem C36_pinned_ND_violates :
    fmtSep true ',' 0 (-123456) = ['-', ',', '1', '2', '3', ',', '4', '5', '6'] ∧
    fmtSep false ',' 0 (-123456) = ['-', '1', '2', '3', ',', '4', '5', '6'] := by
  obtain ⟨_, _, h⟩ := natChars_small
  refine ⟨?_, ?_⟩ <;>
    simp [fmtSep, fmtD, intChars, insertPoint, sepBody, groups3, h,
      show (-123456 : Int).natAbs = 123456 from rfl]

/-- C36-3: pinned `~w~|` raises `uninstantiation_error(Text)`; repaired it prints the text. -/
theorem C36_pinned_write_column_violates (prim : FPrim) (a : Arg) :
    renderCells { pinned := true } prim [.cell .width [.goal (.w a)]] 0 =
      .error (.uninst (Term.ofChars a.w)) ∧
    renderCells {} prim [.cell .width [.goal (.w a)]] 0 = .ok a.w := by
  constructor
  · simp [renderCells, evalElems, runGoal, lastWrite, bind, Except.bind]
  · simp [renderCells, evalElems, runGoal, renderCell, fill, glueSizes, countPads, textWidth, cellTo,
      bind, Except.bind]

/-! ## non-vacuity -/

/-- a complete run of the model: `"~a~t~8|~2d"` with `[x, 1234]`. -/
example : ∃ prim : FPrim,
    formatChars {} prim ['~', 'a', '~', 't', '~', '8', '|', '~', 'i', '~', '~'] [⟨.atom "x", [], []⟩, ⟨.int 1, [], []⟩] =
      .ok ['x', ' ', ' ', ' ', ' ', ' ', ' ', ' ', '~'] :=
  ⟨fun _ _ => .error .unspec, by rfl⟩

/-- an unknown directive is reached (`~e`): hypothesis of `C36_unknown_directive_error`. -/
example : ∃ src, (Tok.bad, src) ∈ tokens ['a', '~', 'e'] := ⟨['~', 'e'], by decide⟩

/-- the hypotheses of `C36_column_padding_distribution` are satisfiable (3 fill points, 7 spare
columns: 2, 2, 3). -/
example : renderCell 0 10 [.pad ' ', .txt ['a'], .pad ' ', .pad '.', .txt ['b', 'c']] =
    [' ', ' ', 'a', ' ', ' ', '.', '.', '.', 'b', 'c'] := by decide

/-- `C36_Nf_shape`: both the carry and the no-carry branch are reached. -/
example : fmtF 2 ⟨2, 100, false, 1⟩ = some ['3', '.', '0', '0'] ∧
    fmtF 2 ⟨0, 5, true, -1⟩ = some ['-', '0', '.', '0', '5'] := by
  have h3 : natChars 3 = ['3'] := by simp [natChars, digitsLE_pos, digitsLE_zero, digitChar]
  have h100 : natChars 100 = ['1', '0', '0'] := by simp [natChars, digitsLE_pos, digitsLE_zero, digitChar]
  have h105 : natChars 105 = ['1', '0', '5'] := by simp [natChars, digitsLE_pos, digitsLE_zero, digitChar]
  constructor <;> simp [fmtF, intChars, h3, h100, h105]

end Scryer.Format
