import ScryerModel.Proofs.Format
/-! C36 — format/2 directives produce the documented text (theorems; under construction). -/
namespace Scryer.Format
end Scryer.Format
