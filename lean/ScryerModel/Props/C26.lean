import ScryerModel.Proofs.Coroutine
/-
C26 — dif/2, freeze/2 and when/2 are insensitive to posting order.

Model: `Scryer.Coroutine` (Model/Coroutine.lean): a constraint store (most general unifier `σ` of
the equations posted so far, pending disequations, suspended goals, woken goals) and
`exec`/`run`, which executes a history of postings
    `.basic (.unify s t)`   s = t
    `.basic (.dif s t)`     dif(s,t)
    `.susp ⟨cond, id, body⟩`  when(cond, G)   (freeze(X,G) is the condition `nonvar X`);
                              G logs `id` and then posts `body` (unifications and dif/2).
`none` is failure.  A "solution" is any function `θ : String → Term` (finite terms).
All theorems hold for ALL terms, conditions and histories (no size bound).  The Prolog libraries
and the wake-up mechanism of the implementation are tied to this model by the correspondence run
(vlib/props/C26.py), not by these theorems.
-/
namespace Scryer.C26
open Scryer Scryer.Term Scryer.Unify Scryer.Coroutine

/-- what is observed at the end of two runs is the same: the same solutions of the accumulated
    equations, bindings that are instances of each other (equal up to renaming), every condition
    has the same truth value, the same pending disequations, and the same suspended and woken
    goals with the same multiplicities (so the run logs are permutations of each other). -/
structure SameOutcome (a b : Store) : Prop where
  solutions : ∀ θ, Unifies θ a.eqs ↔ Unifies θ b.eqs
  bindings_ab : ∀ t, applyS b.σ (applyS a.σ t) = applyS b.σ t
  bindings_ba : ∀ t, applyS a.σ (applyS b.σ t) = applyS a.σ t
  conds : ∀ c : Cond, c.holds a.σ = c.holds b.σ
  difs : ∀ d, d ∈ a.difs ↔ d ∈ b.difs
  susps : a.susps.Perm b.susps
  fired : a.fired.Perm b.fired
  log : a.log.Perm b.log

/-! ### confluence -/

/-- CONFLUENCE, success/failure: two histories with the same postings (here even: `p` uses only
    postings of `q`; no multiplicities needed) — if `q` succeeds, so does `p`. -/
theorem C26_success_order_independent {p q : List Op} (hpq : ∀ o ∈ p, o ∈ q) {b : Store}
    (h : run q = some b) : ∃ a, run p = some a :=
  let ⟨a, ha, _⟩ := run_below hpq h
  ⟨a, ha⟩

/-- CONFLUENCE, failure: permuting a history does not change whether it fails. -/
theorem C26_failure_order_independent {p q : List Op} (h : p.Perm q) :
    run p = none ↔ run q = none := by
  constructor
  · intro hp
    cases hq : run q with
    | none => rfl
    | some b =>
        obtain ⟨a, ha⟩ := C26_success_order_independent (fun o ho => h.subset ho) hq
        rw [hp] at ha; cases ha
  · intro hq
    cases hp : run p with
    | none => rfl
    | some a =>
        obtain ⟨b, hb⟩ := C26_success_order_independent (fun o ho => h.symm.subset ho) hp
        rw [hq] at hb; cases hb

/-- CONFLUENCE, outcome: every interleaving of the same postings that succeeds ends with the
    same bindings (up to renaming), the same residual disequations, the same suspended goals
    and the same run log (as multisets). -/
theorem C26_confluence {p q : List Op} (h : p.Perm q) {a b : Store}
    (ha : run p = some a) (hb : run q = some b) : SameOutcome a b := by
  obtain ⟨a', ha', hab⟩ := run_below (fun o ho => h.subset ho) hb
  obtain ⟨b', hb', hba⟩ := run_below (fun o ho => h.symm.subset ho) ha
  rw [ha] at ha'; rw [hb] at hb'
  cases ha'; cases hb'
  obtain ⟨iA, _, _, _⟩ := run_target ha
  obtain ⟨iB, _, _, _⟩ := run_target hb
  obtain ⟨s1, s2, s3, _, _⟩ := same_content iA iB hab hba
  have hf1 := fired_perm_filter ha
  have hf2 := fired_perm_filter hb
  have hsp := suspsOf_perm h
  have e1 : (fun s : Susp => s.cond.holds a.σ) = (fun s => s.cond.holds b.σ) := by
    funext s; exact s2 s.cond
  have e2 : (fun s : Susp => !s.cond.holds a.σ) = (fun s => !s.cond.holds b.σ) := by
    funext s; rw [s2 s.cond]
  have hfired : a.fired.Perm b.fired := by
    refine hf1.1.trans (List.Perm.trans ?_ hf2.1.symm)
    rw [e1]; exact hsp.filter _
  refine ⟨s1, ?_, ?_, s2, s3, ?_, hfired, hfired.map _⟩
  · intro t
    have := iA.mgu.absorbs b.σ.toFun ((s1 _).mpr iB.mgu.unifies) t
    rwa [← applyS_eq_subst, ← applyS_eq_subst] at this
  · intro t
    have := iB.mgu.absorbs a.σ.toFun ((s1 _).mp iA.mgu.unifies) t
    rwa [← applyS_eq_subst, ← applyS_eq_subst] at this
  · refine hf1.2.trans (List.Perm.trans ?_ hf2.2.symm)
    rw [e2]; exact hsp.filter _

/-- Posting a constraint before or after a sequence of unifications (the statement's wording):
    a special case of `C26_confluence`. -/
theorem C26_post_before_or_after (c : Op) (us : List Op) {a b : Store}
    (ha : run (c :: us) = some a) (hb : run (us ++ [c]) = some b) : SameOutcome a b :=
  C26_confluence (by simpa using (List.perm_append_singleton c us).symm) ha hb

/-! ### the store computes a function of the logical content -/

/-- the invariant behind confluence: after any history the substitution is a most general
    unifier of all equations posted (directly or by woken goals); a disequation is pending iff
    it was posted and its sides are still unifiable together with the equations; no posted
    disequation is violated. -/
theorem C26_store_is_logical_content {ops : List Op} {st : Store} (h : run ops = some st) :
    IsMgu st.σ st.eqs ∧
    (∀ d, d ∈ st.difs ↔ d ∈ st.allDifs ∧ Compat st.eqs d) ∧
    (∀ d ∈ st.allDifs, ¬Entails st.eqs d) ∧
    Below ops st := by
  obtain ⟨i, _, hb, _⟩ := run_target h
  exact ⟨i.mgu, i.difs_iff, i.notEntailed, hb⟩

/-- the tests made under `σ` are statements about ALL solutions of the equations. -/
theorem C26_tests_are_semantic {σ : Subst} {E : Eqs} (h : IsMgu σ E) (d : Term × Term)
    (c : Cond) :
    (identical σ d = true ↔ ∀ θ, Unifies θ E → d.1.subst θ = d.2.subst θ) ∧
    (unifiable σ d = true ↔ ∃ θ, Unifies θ E ∧ d.1.subst θ = d.2.subst θ) ∧
    (c.holds σ = true ↔ c.Sem E) :=
  ⟨h.identical_iff d, h.unifiable_iff d, h.holds_iff c⟩

/-- dropped disequations are entailed: the pending disequations and ALL posted disequations have
    the same solutions (the residual constraints are logically equivalent to what was posted). -/
theorem C26_residual_equivalent {ops : List Op} {st : Store} (h : run ops = some st)
    (θ : String → Term) (hθ : Unifies θ st.eqs) :
    (∀ d ∈ st.difs, d.1.subst θ ≠ d.2.subst θ) ↔ (∀ d ∈ st.allDifs, d.1.subst θ ≠ d.2.subst θ) := by
  obtain ⟨i, _, _, _⟩ := run_target h
  constructor
  · intro hp d hd e
    exact hp d ((i.difs_iff d).mpr ⟨hd, θ, hθ, e⟩) e
  · intro ha d hd
    exact ha d ((i.difs_iff d).mp hd).1

/-- SOUNDNESS AND COMPLETENESS of failure: a history succeeds iff there is a consistent closed
    store containing all its postings (satisfiable equations, no violated disequation, no
    suspended goal whose condition holds, bodies of all woken goals included). -/
theorem C26_succeeds_iff (ops : List Op) :
    (∃ st, run ops = some st) ↔ ∃ T, Target T ∧ Below ops T := by
  constructor
  · rintro ⟨st, h⟩
    obtain ⟨_, hT, hb, _⟩ := run_target h
    exact ⟨st, hT, hb⟩
  · rintro ⟨T, hT, hb⟩
    obtain ⟨st, h, _⟩ := exec_below hT ops Store.init inv_init (le_init T) hb
    exact ⟨st, h⟩

/-- dif/2 SOUNDNESS AND COMPLETENESS: a history of unifications and dif/2 posts fails — in
    whatever order — exactly when its equations have no solution or entail that the two sides of
    one of its disequations are identical. -/
theorem C26_dif_fails_iff {ops : List Op} (hn : noSusp ops) :
    run ops = none ↔
      ¬Sat (eqsOf ops) ∨ ∃ d ∈ difsOf ops, Entails (eqsOf ops) d := by
  constructor
  · intro hf
    by_cases hs : Sat (eqsOf ops)
    · by_cases hd : ∃ d ∈ difsOf ops, Entails (eqsOf ops) d
      · exact Or.inr hd
      · exfalso
        let T : Store := ⟨[], eqsOf ops, [], difsOf ops, [], []⟩
        have hT : Target T :=
          ⟨hs, fun d hd' he => hd ⟨d, hd', he⟩, fun s hs' => (by cases hs'), fun s hs' => (by cases hs')⟩
        obtain ⟨st, h⟩ := (C26_succeeds_iff ops).mpr
          ⟨T, hT, below_of_basic hn T (fun _ h => h) (fun _ h => h)⟩
        rw [hf] at h; cases h
    · exact Or.inl hs
  · intro h
    cases hr : run ops with
    | none => rfl
    | some st =>
        exfalso
        obtain ⟨i, _, hb, _⟩ := run_target hr
        obtain ⟨m1, m2⟩ := mem_of_below hb
        rcases h with h | ⟨d, hd, he⟩
        · exact h (i.mgu.sat.mono m1)
        · exact i.notEntailed d (m2 d hd) (he.mono m1)

/-- dif/2 SOUNDNESS AND COMPLETENESS over finite trees (the signature has infinitely many
    function symbols: `freshName`): a history of unifications and dif/2 posts fails — in whatever
    order — iff the conjunction of its equations and disequations has no solution. -/
theorem C26_dif_fails_iff_unsatisfiable {ops : List Op} (hn : noSusp ops) :
    run ops = none ↔
      ¬∃ θ, Unifies θ (eqsOf ops) ∧ ∀ d ∈ difsOf ops, d.1.subst θ ≠ d.2.subst θ := by
  rw [C26_dif_fails_iff hn]
  constructor
  · rintro (h | ⟨d, hd, he⟩) ⟨θ, hθ, hdif⟩
    · exact h ⟨θ, hθ⟩
    · exact hdif d hd (he θ hθ)
  · intro h
    by_cases hs : Sat (eqsOf ops)
    · right
      obtain ⟨σ, hσ⟩ := exists_mgu hs
      apply Classical.byContradiction
      intro hne
      exact h (independent hσ (difsOf ops) (fun d hd he => hne ⟨d, hd, he⟩))
    · exact Or.inl hs

/-- the end store of every successful history (with freeze/when goals too) is satisfiable: some
    solution of all equations posted falsifies every disequation posted. -/
theorem C26_end_store_satisfiable {ops : List Op} {st : Store} (h : run ops = some st) :
    ∃ θ, Unifies θ st.eqs ∧ ∀ d ∈ st.allDifs, d.1.subst θ ≠ d.2.subst θ := by
  obtain ⟨i, _, _, _⟩ := run_target h
  exact independent i.mgu st.allDifs i.notEntailed

/-! ### dif/2 alone -/

/-- `dif(s,t)` fails when `s` and `t` are identical under the current bindings (the converse:
    `C26_dif_not_identical`, and both directions for a dif posted alone: `C26_dif_alone`). -/
theorem C26_dif_identical_fails (st : Store) (s t : Term) (rest : List Op) :
    applyS st.σ s = applyS st.σ t → exec (.basic (.dif s t) :: rest) st = none := by
  intro e
  have : identical st.σ (s, t) = true := (eqb_iff _ _).mpr e
  simp [exec, this]

/-- … and otherwise succeeds; it leaves a residue exactly when the two sides are unifiable. -/
theorem C26_dif_not_identical (st : Store) (s t : Term) (rest : List Op)
    (hne : applyS st.σ s ≠ applyS st.σ t) :
    exec (.basic (.dif s t) :: rest) st = exec rest (afterDif st s t) ∧
    ((afterDif st s t).difs = st.difs ↔ ¬∃ θ, (applyS st.σ s).subst θ = (applyS st.σ t).subst θ) ∧
    ((afterDif st s t).difs = st.difs ++ [(s, t)] ↔
      ∃ θ, (applyS st.σ s).subst θ = (applyS st.σ t).subst θ) := by
  have hid : identical st.σ (s, t) = false := by
    cases h : identical st.σ (s, t) with
    | false => rfl
    | true => exact absurd ((eqb_iff _ _).mp h) hne
  have hu : unifiable st.σ (s, t) = true ↔
      ∃ θ, (applyS st.σ s).subst θ = (applyS st.σ t).subst θ := by
    unfold unifiable
    constructor
    · intro h
      obtain ⟨δ, hδ⟩ := Option.isSome_iff_exists.mp h
      exact ⟨δ.toFun, unifies_pair.mp (solve_nil_ok (unify_eq_some.mp hδ)).unifies⟩
    · rintro ⟨θ, hθ⟩
      cases h : unifyOC (applyS st.σ s) (applyS st.σ t) with
      | some δ => rfl
      | none => exact absurd (unifies_pair.mpr hθ) (solve_nil_fail (unify_eq_none.mp h) θ)
  refine ⟨by simp [exec, hid], ?_, ?_⟩
  · rw [← hu]
    cases h : unifiable st.σ (s, t) <;> simp [afterDif, h]
  · rw [← hu]
    cases h : unifiable st.σ (s, t) <;> simp [afterDif, h]

/-- `dif(X,Y)` posted alone: fails iff `X` and `Y` are identical, succeeds without residue iff
    they are not unifiable, otherwise it is suspended. -/
theorem C26_dif_alone (s t : Term) :
    (run [.basic (.dif s t)] = none ↔ s = t) ∧
    (∀ st, run [.basic (.dif s t)] = some st →
      (st.difs = [] ↔ ¬∃ θ, s.subst θ = t.subst θ) ∧
      (st.difs = [(s, t)] ↔ ∃ θ, s.subst θ = t.subst θ)) := by
  have h0 : ∀ u, applyS Store.init.σ u = u := fun _ => rfl
  by_cases e : s = t
  · subst e
    have := C26_dif_identical_fails Store.init s s [] rfl
    refine ⟨⟨fun _ => rfl, fun _ => this⟩, ?_⟩
    intro st h
    unfold run at h
    rw [this] at h; cases h
  · have hne : applyS Store.init.σ s ≠ applyS Store.init.σ t := by rwa [h0, h0]
    obtain ⟨h1, h2, h3⟩ := C26_dif_not_identical Store.init s t [] hne
    rw [h0, h0] at h2 h3
    have hr : run [.basic (.dif s t)] = some (afterDif Store.init s t) := by
      unfold run; rw [h1]; simp [exec]
    refine ⟨⟨fun h => (by rw [hr] at h; cases h), fun h => absurd h e⟩, ?_⟩
    intro st h
    rw [hr] at h
    cases h
    exact ⟨by simpa [Store.init] using h2, by simpa [Store.init] using h3⟩

/-! ### freeze/2 and when/2: exactly once, exactly when the condition first holds -/

/-- `when/2` conditions are monotone in the bindings: once true, they stay true under every
    extension of the substitution. -/
theorem C26_cond_monotone (σ δ : Subst) : ∀ (c : Cond), c.holds σ = true → c.holds (δ ++ σ) = true
  | .nonvar t => by
      simp only [Cond.holds, Bool.not_eq_true', applyS_append]
      intro h
      rw [applyS_eq_subst δ]
      exact isVar_subst_of_nonvar _ h
  | .ground t => by
      simp only [Cond.holds, List.isEmpty_iff, applyS_append]
      intro h
      rw [applyS_eq_subst δ, subst_of_ground _ h]
      exact h
  | .and a b => by
      simp only [Cond.holds, Bool.and_eq_true]
      exact fun h => ⟨C26_cond_monotone σ δ a h.1, C26_cond_monotone σ δ b h.2⟩
  | .or a b => by
      simp only [Cond.holds, Bool.or_eq_true]
      exact fun h => h.elim (fun x => Or.inl (C26_cond_monotone σ δ a x))
        (fun x => Or.inr (C26_cond_monotone σ δ b x))

/-- … and semantically: a condition that holds in all solutions of `E` holds in all solutions of
    any larger set of equations. -/
theorem C26_cond_monotone_sem {E E' : Eqs} (h : ∀ p ∈ E, p ∈ E') (c : Cond) :
    c.Sem E → c.Sem E' := Cond.Sem.mono h

/-- a goal whose condition already holds when it is posted runs immediately. -/
theorem C26_runs_immediately (st : Store) (sp : Susp) (rest : List Op)
    (h : sp.cond.holds st.σ = true) :
    exec (.susp sp :: rest) st =
      exec (bodyOps sp ++ rest) { st with fired := st.fired ++ [sp] } := by
  simp [exec, h]

/-- a goal whose condition does not hold yet is suspended and nothing else happens. -/
theorem C26_suspends (st : Store) (sp : Susp) (rest : List Op)
    (h : sp.cond.holds st.σ = false) :
    exec (.susp sp :: rest) st = exec rest { st with susps := st.susps ++ [sp] } := by
  simp [exec, h]

/-- WAKE-UP TIMING: after every prefix of a history (whatever comes later), the suspended goals
    are exactly the posted goals whose condition does not hold under the current bindings and the
    woken goals are exactly those whose condition holds — a goal is woken within the very posting
    that makes its condition true, never before, and it is never left suspended. -/
theorem C26_wake_timing (pre post : List Op) :
    run (pre ++ post) = (run pre).bind (exec post) ∧
    ∀ st, run pre = some st →
      (∀ s ∈ st.susps, s.cond.holds st.σ = false) ∧
      (∀ s ∈ st.fired, s.cond.holds st.σ = true) ∧
      st.fired.Perm ((suspsOf pre).filter fun s => s.cond.holds st.σ) ∧
      st.susps.Perm ((suspsOf pre).filter fun s => !s.cond.holds st.σ) := by
  refine ⟨exec_append pre post Store.init, ?_⟩
  intro st h
  obtain ⟨i, _, _, _⟩ := run_target h
  obtain ⟨f1, f2⟩ := fired_perm_filter h
  exact ⟨fun s hs => (i.mgu.holds_false_iff _).mpr (i.waitingFalse s hs),
    fun s hs => (i.mgu.holds_iff _).mpr (i.firedTrue s hs), f1, f2⟩

/-- EXACTLY ONCE: in the end the run log contains the identifier of every posted goal whose
    condition holds under the final bindings exactly as often as the goal was posted, and no
    other identifier — independently of where in the history the goal was posted. -/
theorem C26_exactly_once {ops : List Op} {st : Store} (h : run ops = some st) :
    st.log.Perm (((suspsOf ops).filter fun s => s.cond.holds st.σ).map (·.id)) :=
  (fired_perm_filter h).1.map _

/-- `freeze(X, G)` posted anywhere in a history: at the end `G` has been run iff `X` is bound
    to a non-variable term, and it is still suspended iff `X` is still a variable. -/
theorem C26_freeze_runs_iff_bound {ops : List Op} {st : Store} (h : run ops = some st)
    (x : String) (id : Nat) (body : List Basic)
    (hpost : (⟨.nonvar (.var x), id, body⟩ : Susp) ∈ suspsOf ops) :
    ((⟨.nonvar (.var x), id, body⟩ : Susp) ∈ st.fired ↔ isVar (applyS st.σ (.var x)) = false) ∧
    ((⟨.nonvar (.var x), id, body⟩ : Susp) ∈ st.susps ↔ isVar (applyS st.σ (.var x)) = true) := by
  obtain ⟨f1, f2⟩ := fired_perm_filter h
  constructor
  · rw [f1.mem_iff, List.mem_filter]
    simp [Cond.holds, hpost]
  · rw [f2.mem_iff, List.mem_filter]
    simp [Cond.holds, hpost]

/-! ### non-vacuity and witnesses (concrete histories evaluated by the model) -/

private def X : Term := .var "X"
private def Y : Term := .var "Y"
private def a : Term := .atom "a"
private def b : Term := .atom "b"
private def f (s t : Term) : Term := .str "f" [s, t]

/-- evaluates `run` on a concrete history. -/
local macro "c26_eval" : tactic => `(tactic|
  simp [run, exec, Store.init, Store.log, Cond.holds, applyS, unifyOC, unify, solve, substE,
    subst1, single, Term.vars, Term.varsL, Term.subst, Term.substL, afterUnify, afterDif, ready,
    waiting, readyOps, identical, unifiable, bodyOps, eqb, eqbL, isVar, constEq, freeze,
    X, Y, a, b, f])

set_option linter.unusedSimpArgs false

/-- `dif(X,Y), X = Y` fails; so does `X = Y, dif(X,Y)`. -/
example : run [.basic (.dif X Y), .basic (.unify X Y)] = none ∧
    run [.basic (.unify X Y), .basic (.dif X Y)] = none := by
  constructor <;> c26_eval

/-- `dif(f(X,Y), f(a,b)), X = a` succeeds with the disequation still pending;
    `dif(f(X,Y), f(a,b)), X = b` succeeds without residue. -/
example : (run [.basic (.dif (f X Y) (f a b)), .basic (.unify X a)]).map (·.difs)
      = some [(f X Y, f a b)] ∧
    (run [.basic (.dif (f X Y) (f a b)), .basic (.unify X b)]).map (·.difs) = some [] := by
  constructor <;> c26_eval

/-- a frozen goal runs when its variable is bound, before or after the posting; it stays
    suspended when the variable is only aliased. -/
example : (run [freeze "X" 1 [], .basic (.unify X a)]).map (·.log) = some [1] ∧
    (run [.basic (.unify X a), freeze "X" 1 []]).map (·.log) = some [1] ∧
    (run [freeze "X" 1 [], .basic (.unify X Y)]).map (fun st => (st.log, st.susps.length))
      = some ([], 1) := by
  refine ⟨?_, ?_, ?_⟩ <;> c26_eval

/-- woken goals post unifications that wake further goals: `freeze(X,(Y=a)), freeze(Y,G2), X=b`
    logs both goals in every order (both histories succeed: the hypotheses of `C26_confluence`
    are satisfiable with a non-trivial permutation). -/
example : (run [freeze "X" 1 [.unify Y a], freeze "Y" 2 [], .basic (.unify X b)]).map (·.log)
      = some [1, 2] ∧
    (run [.basic (.unify X b), freeze "Y" 2 [], freeze "X" 1 [.unify Y a]]).map (·.log)
      = some [1, 2] := by
  constructor <;> c26_eval

/-- the ORDER of the log may depend on the posting order (only the multiset is invariant):
    two goals woken by the same unification run in the order in which they were posted. -/
example : (run [freeze "X" 1 [], freeze "Y" 2 [], .basic (.unify (f X Y) (f a b))]).map (·.log)
      = some [1, 2] ∧
    (run [freeze "Y" 2 [], freeze "X" 1 [], .basic (.unify (f X Y) (f a b))]).map (·.log)
      = some [2, 1] := by
  constructor <;> c26_eval

/-- a woken goal can make the whole history fail: `freeze(X, Y = a), Y = b, X = b`. -/
example : run [freeze "X" 1 [.unify Y a], .basic (.unify Y b), .basic (.unify X b)] = none := by
  c26_eval

/-- Finding C26-1 (witness): `when(ground(f(X,Y)), G), f(X,Y) = f(a,b)` must log `G` ONCE
    (the pinned when.pl ran `G` twice: once for each of the two variables bound by the one
    unification). -/
theorem C26_1_when_runs_once :
    (run [.susp ⟨.ground (f X Y), 1, []⟩, .basic (.unify (f X Y) (f a b))]).map (·.log)
      = some [1] := by
  c26_eval

/-- Finding C26-2 (witness): `freeze(Y,G), dif(X,Y), X = a` must NOT run `G` (`Y` is not bound);
    the pinned dif.pl ran `G` inside the speculative unification `a \= Y` of the re-posted
    dif/2. -/
theorem C26_2_dif_does_not_wake :
    (run [freeze "Y" 1 [], .basic (.dif X Y), .basic (.unify X a)]).map
      (fun st => (st.log, st.susps.length, st.difs.length)) = some ([], 1, 1) := by
  c26_eval

end Scryer.C26
