import ScryerModel.Model.Embed
namespace Scryer.Embed
theorem C28_placeholder : (1 : Nat) = 1 := rfl
end Scryer.Embed
