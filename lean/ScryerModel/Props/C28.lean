import ScryerModel.Proofs.Embed
/-!
C28 — Embedded queries return faithful answers across a query history.

Model: `Model/Embed.lean` (`runQuery` / `next` / `drop` / `consume` / `runHistory` mirror
`Machine::run_query`, `QueryState::next`, `Drop for QueryState` of `src/machine/lib_machine/mod.rs`;
`Cfg.repaired` is the code at /repo HEAD, the two switches give the code before repairs 21076e6 and
a78529e). Specification: `meaning g d` — the depth-first course of query `g` started in database
`d`, judged on its own — with `Script.stream` (what a caller sees), `Script.dbAt` (database after
`k` items). All theorems are for every database type, every query (or-tree with database updates),
every residual stack below the stub, every history and every consumed prefix.
-/
namespace Scryer.Embed

variable {δ : Type}

/-- **One query, any prefix, any machine.** On a machine with no pending ball — whatever frames
    earlier activity left on the stack — asking a query for up to `k` items and dropping the
    iterator delivers exactly the first `k` items of the query's stand-alone stream; afterwards the
    stack is what it was before `run_query` (stub and the query's choice points gone), no ball is
    pending, and the database is the one the stand-alone run reaches after `k` items. -/
theorem C28_query_faithful (m : Mach δ) (hb : m.ball = none) (g : Query δ) (k : Nat) :
    runOne .repaired m g k =
      ((meaning g m.db).stream.take k,
       { stack := m.stack, ball := none, db := (meaning g m.db).dbAt k m.db }) := by
  unfold runOne meaning
  exact consume_resumable .repaired rfl rfl k _ _ m.stack (g m.db) [] m.db (resumable_start m hb (g m.db))

/-- **Histories.** For every history (each query consumed fully, partially, not at all, ending in
    an exception or not) the items delivered for each query are those of the specification
    `specHistory` — each query judged on its own from the database its predecessors left — and the
    machine ends with its original stack, no ball, and the specified database. -/
theorem C28_history_faithful (m : Mach δ) (hb : m.ball = none) (h : List (Query δ × Nat)) :
    runHistory .repaired m h =
      ((specHistory m.db h).1, { stack := m.stack, ball := none, db := (specHistory m.db h).2 }) := by
  induction h generalizing m with
  | nil => cases m; simp_all [runHistory, specHistory]
  | cons qk rest ih =>
    obtain ⟨g, k⟩ := qk
    simp only [runHistory, specHistory, C28_query_faithful m hb g k]
    rw [ih _ rfl]

/-- **History independence.** The items of the i-th query of a history on one machine equal the
    items the same query delivers on a FRESH machine holding the same database. -/
theorem C28_history_independence (m : Mach δ) (hb : m.ball = none) (h : List (Query δ × Nat)) :
    (runHistory .repaired m h).1 = isoHistory m.db h := by
  induction h generalizing m with
  | nil => simp [runHistory, isoHistory]
  | cons qk rest ih =>
    obtain ⟨g, k⟩ := qk
    have hf := C28_query_faithful (Mach.fresh m.db) rfl g k
    simp only [Mach.fresh] at hf
    simp only [runHistory, isoHistory, C28_query_faithful m hb g k, Mach.fresh, hf]
    rw [ih _ rfl]

/-- **The iterator protocol, call by call.** `n` successive `next` calls on a new iterator return
    the items of the stand-alone stream in order and then `None` for ever (so: the `false` marker or
    the exception is followed by `None`, never by another item); and after the n-th call — for every
    n, i.e. after every operation — no ball is pending and the stack is the original stack with
    this query's stub and choice points on top. -/
theorem C28_next_protocol (m : Mach δ) (hb : m.ball = none) (g : Query δ) (n : Nat) :
    let st := runQuery m (g m.db)
    (pull .repaired n st.2 st.1).1 =
        (((meaning g m.db).stream.map some) ++ List.replicate n none).take n ∧
    OpInv m.stack (pull .repaired n st.2 st.1).2.2 :=
  pull_resumable .repaired rfl n _ _ m.stack (g m.db) [] m.db (resumable_start m hb (g m.db))

/-- **Shape of every stream**: the answers in order, then an ending that is empty (the last answer
    left no choice point), or the single `false` marker, or a single exception. Hence an exception is
    reported exactly once and is the last item; `false` occurs at most once and only last. -/
theorem C28_stream_shape (sc : Script δ) :
    sc.stream = sc.answers.map Item.answer ++ sc.ending ∧
    (sc.ending = [] ∨ sc.ending = [.falseEnd] ∨ ∃ b, sc.ending = [.exception b]) :=
  stream_shape sc

/-- an exception in a stream is its last item and occurs once. -/
theorem C28_exception_once (sc : Script δ) (b : String) (h : Item.exception b ∈ sc.stream) :
    sc.stream = sc.answers.map Item.answer ++ [.exception b] ∧
    sc.stream.count (.exception b) = 1 := by
  obtain ⟨hs, he⟩ := stream_shape sc
  have hna : ∀ l : List String, Item.exception b ∉ l.map Item.answer := by
    intro l; simp
  have hca : ∀ l : List String, (l.map Item.answer).count (.exception b) = 0 := by
    intro l; exact List.count_eq_zero.mpr (hna l)
  rw [hs] at h ⊢
  rcases he with he | he | ⟨b', he⟩
  · rw [he] at h; simp at h
  · rw [he] at h; simp at h
  · rw [he] at h ⊢
    have : b' = b := by
      rcases List.mem_append.mp h with h | h
      · exact absurd h (hna _)
      · simp at h; exact h.symm
    subst this
    refine ⟨rfl, ?_⟩
    rw [List.count_append, hca]
    simp

/-- a query without solutions reports the `false` marker; then the iterator ends. -/
theorem C28_no_solution (d : δ) : (meaning (fun _ => Search.fail) d).stream = [.falseEnd] := by
  simp [meaning, go, Script.stream]

/-! ### the two pre-repair mechanisms violate the property -/

/-- **Witness 1 (before 21076e6: the delivered ball is not cleared).** After a query that threw,
    the next query — which has the single answer `a` — reports the old exception instead. -/
theorem C28_witness_stale_ball :
    (runHistory { clearBall := false, discardOnDrop := true } (Mach.fresh ())
        [(fun _ => Search.exc "b", 1), (fun _ => Search.ans "a", 1)]).1
      = [[.exception "b"], [.exception "b"]] ∧
    (specHistory () [(fun _ => Search.exc "b", 1), (fun _ => Search.ans "a", 1)]).1
      = [[.exception "b"], [.answer "a"]] := by
  constructor
  · simp [runHistory, runOne, runQuery, consume, next, dispatch, exec, drop, unwindTo, Mach.fresh]
  · simp [specHistory, meaning, go, Script.stream, Script.dbAt]

/-- **Witness 2 (before a78529e: `Drop` pops one frame only).** Dropping an iterator after its first
    answer while a choice point is left pops that choice point and leaves the stub (and, with two
    choice points, one of them as well) on the stack of ANY machine: the state is not restored. -/
theorem C28_witness_drop (base : List (Frame δ)) (d : δ) (x y z : Search δ) :
    (runOne { clearBall := true, discardOnDrop := false } { stack := base, ball := none, db := d }
        (fun _ => .try_ (.ans "a") x) 1).2.stack = Frame.stub :: base ∧
    (runOne { clearBall := true, discardOnDrop := false } { stack := base, ball := none, db := d }
        (fun _ => .try_ (.try_ (.ans "a") y) z) 1).2.stack = Frame.cp z :: Frame.stub :: base := by
  constructor <;>
  simp [runOne, runQuery, consume, next, dispatch, exec, drop, backtrack]

/-- … whereas the repaired `Drop` restores the stack in that very situation. -/
theorem C28_witness_drop_repaired (base : List (Frame δ)) (d : δ) (y z : Search δ) :
    (runOne .repaired { stack := base, ball := none, db := d }
        (fun _ => .try_ (.try_ (.ans "a") y) z) 1).2.stack = base := by
  rw [C28_query_faithful _ rfl]

/-! ### non-vacuity -/

/-- the hypothesis `ball = none` holds for a fresh machine and is re-established by every query. -/
example (d : δ) : (Mach.fresh d).ball = none := rfl

/-- a history exercising full / partial / no consumption, an exception, and a database update whose
    visibility depends on how far the previous query was driven. -/
example :
    (specHistory ([1, 2] : Db)
      [(Tpl.enumAdd 10 |>.sem, 1), (Tpl.snap.sem, 5), (Tpl.addThrow 7 |>.sem, 0), (Tpl.enumThrow 11 |>.sem, 9)]).1
      = [[.answer "{X=1,Y=11}"], [.answer "{L=[1,2,11]}"], [],
         [.answer "{X=1}", .answer "{X=2}", .exception "exception('hit'(11))"]] := by
  simp [specHistory, meaning, Tpl.sem, alts, go, Script.stream, Script.dbAt, bX, bXY, showList, showInt]
  decide

end Scryer.Embed
