import ScryerModel.Model.AtomOps
/-! Helper lemmas for the atom and character builtins (C22). -/
namespace Scryer.AtomOps

/-! ## `splits`: the answers of append/3 -/

theorem mem_splits {α : Type} (s : List α) (p : List α × List α) :
    p ∈ splits s ↔ p.1 ++ p.2 = s := by
  induction s generalizing p with
  | nil =>
    obtain ⟨a, b⟩ := p
    simp [splits]
  | cons x xs ih =>
    obtain ⟨a, b⟩ := p
    simp only [splits, List.mem_cons, List.mem_map, Prod.mk.injEq]
    constructor
    · rintro (⟨rfl, rfl⟩ | ⟨q, hq, rfl, rfl⟩)
      · rfl
      · have := (ih q).1 hq
        simp [this]
    · intro h
      cases a with
      | nil => left; exact ⟨rfl, by simpa using h⟩
      | cons y ys =>
        right
        simp only [List.cons_append, List.cons.injEq] at h
        obtain ⟨rfl, h2⟩ := h
        exact ⟨(ys, b), (ih (ys, b)).2 h2, rfl, rfl⟩

theorem splits_sorted {α : Type} (s : List α) :
    (splits s).Pairwise (fun p q => p.1.length < q.1.length) := by
  induction s with
  | nil => simp [splits]
  | cons x xs ih =>
    simp only [splits, List.pairwise_cons, List.mem_map, List.pairwise_map]
    refine ⟨?_, ?_⟩
    · rintro q ⟨r, _, rfl⟩
      simp
    · exact ih.imp (by intro a b h; simpa using h)

theorem splits_length {α : Type} (s : List α) : (splits s).length = s.length + 1 := by
  induction s with
  | nil => rfl
  | cons x xs ih => simp [splits, ih]

theorem splits_eq_range {α : Type} (s : List α) :
    splits s = (List.range (s.length + 1)).map (fun i => (s.take i, s.drop i)) := by
  induction s with
  | nil => simp [splits]
  | cons x xs ih =>
    rw [splits, ih, List.length_cons, List.range_succ_eq_map (n := xs.length + 1)]
    simp [List.map_map, Function.comp_def]

theorem pairwise_lt_nodup {α : Type} (f : α → Nat) (l : List α)
    (h : l.Pairwise (fun a b => f a < f b)) : l.Nodup := by
  rw [List.nodup_iff_pairwise_ne]
  exact h.imp (by intro a b hab e; subst e; omega)

theorem splits_nodup {α : Type} (s : List α) : (splits s).Nodup :=
  pairwise_lt_nodup (fun p => p.1.length) _ (splits_sorted s)

/-! ## `subTriples`: the answers of the two nested appends of sub_atom/5 -/

/-- order of the answers: Before ascending, then Length ascending. -/
def TripleLt {α : Type} (t u : List α × List α × List α) : Prop :=
  t.1.length < u.1.length ∨ (t.1.length = u.1.length ∧ t.2.1.length < u.2.1.length)

theorem mem_subTriples {α : Type} (s : List α) (t : List α × List α × List α) :
    t ∈ subTriples s ↔ t.1 ++ t.2.1 ++ t.2.2 = s := by
  obtain ⟨b, l, a⟩ := t
  simp only [subTriples, List.mem_flatMap, List.mem_map, Prod.mk.injEq, mem_splits]
  constructor
  · rintro ⟨p, hp, q, hq, rfl, rfl, rfl⟩
    rw [List.append_assoc, hq, hp]
  · intro h
    exact ⟨(b, l ++ a), by simpa [List.append_assoc] using h, (l, a), rfl, rfl, rfl, rfl⟩

theorem subTriples_sorted {α : Type} (s : List α) : (subTriples s).Pairwise TripleLt := by
  unfold subTriples
  rw [List.pairwise_flatMap]
  refine ⟨?_, ?_⟩
  · intro p _
    rw [List.pairwise_map]
    exact (splits_sorted p.2).imp (by intro a b h; exact Or.inr ⟨rfl, h⟩)
  · refine (splits_sorted s).imp ?_
    intro p p' h x hx y hy
    simp only [List.mem_map] at hx hy
    obtain ⟨q, _, rfl⟩ := hx
    obtain ⟨q', _, rfl⟩ := hy
    exact Or.inl h

theorem tripleLt_ne {α : Type} {t u : List α × List α × List α} (h : TripleLt t u) : t ≠ u := by
  intro e
  subst e
  rcases h with h | ⟨_, h⟩ <;> omega

theorem subTriples_nodup {α : Type} (s : List α) : (subTriples s).Nodup := by
  rw [List.nodup_iff_pairwise_ne]
  exact (subTriples_sorted s).imp tripleLt_ne

/-- a triple of `subTriples s` is determined by Before and Length. -/
theorem subTriples_key {α : Type} (s : List α) (t u : List α × List α × List α)
    (ht : t ∈ subTriples s) (hu : u ∈ subTriples s)
    (h1 : t.1.length = u.1.length) (h2 : t.2.1.length = u.2.1.length) : t = u := by
  rw [mem_subTriples] at ht hu
  obtain ⟨b, l, a⟩ := t
  obtain ⟨b', l', a'⟩ := u
  simp only at ht hu h1 h2
  have e : b ++ (l ++ a) = b' ++ (l' ++ a') := by
    rw [← List.append_assoc, ← List.append_assoc, ht, hu]
  obtain ⟨rfl, e2⟩ := List.append_inj e h1
  obtain ⟨rfl, rfl⟩ := List.append_inj e2 h2
  rfl

theorem subTriples_eq_range {α : Type} (s : List α) :
    subTriples s = (List.range (s.length + 1)).flatMap fun i =>
      (List.range (s.length - i + 1)).map fun j =>
        (s.take i, (s.drop i).take j, (s.drop i).drop j) := by
  unfold subTriples
  rw [splits_eq_range, List.flatMap_map]
  congr 1
  funext i
  simp only [splits_eq_range, List.map_map, List.length_drop, Function.comp_def]

/-! ## unification with fresh variables -/

@[simp] theorem bindVar_nil (n : String) (v : Val) : bindVar n v [] = some [(n, v)] := by
  simp [bindVar, List.lookup]

theorem filterMap_ite {α β : Type} (l : List α) (p : α → Prop) [DecidablePred p] (g : α → β) :
    l.filterMap (fun x => if p x then some (g x) else none) = (l.filter (fun x => decide (p x))).map g := by
  induction l with
  | nil => rfl
  | cons x xs ih =>
    by_cases h : p x <;> simp [h, ih]

/-! ## text ⇄ list conversions -/

theorem validScalar_toNat (c : Char) : validScalar (c.toNat : Int) = true := by
  have h := c.valid
  simp only [UInt32.isValidChar, Nat.isValidChar] at h
  have e : c.toNat = c.val.toNat := rfl
  simp only [validScalar, Bool.or_eq_true, Bool.and_eq_true, decide_eq_true_eq]
  omega

theorem charsOrVars_chars (s : List Char) :
    charsOrVars (s.map fun c => Arg.con (charAtom c)) = .ok () := by
  induction s with
  | nil => rfl
  | cons c cs ih =>
    have h1 : ∀ r, charsOrVars (Arg.con (charAtom c) :: r) = charsOrVars r := by
      intro r; simp [charsOrVars, charAtom, isCharArg]
    simp only [List.map_cons, h1, ih]

theorem codesOrVars_codes (s : List Char) :
    codesOrVars (s.map fun c => Arg.con (codeAtomic c)) = .ok () := by
  induction s with
  | nil => rfl
  | cons c cs ih =>
    have h1 : ∀ r, codesOrVars (Arg.con (codeAtomic c) :: r) = codesOrVars r := by
      intro r; simp [codesOrVars, codeAtomic, validScalar_toNat]
    simp only [List.map_cons, h1, ih]

theorem filterMap_charOf (s : List Char) :
    (s.map fun c => Arg.con (charAtom c)).filterMap charOf? = s := by
  induction s with
  | nil => rfl
  | cons c cs ih =>
    have h1 : charOf? (Arg.con (charAtom c)) = some c := rfl
    simp only [List.map_cons, List.filterMap_cons, h1, ih]

theorem codeOf_code (c : Char) : codeOf? (Arg.con (codeAtomic c)) = some c := by
  show (if validScalar (c.toNat : Int) then some (Char.ofNat (c.toNat : Int).toNat) else none) = some c
  rw [if_pos (validScalar_toNat c), Int.toNat_natCast, Char.ofNat_toNat]

theorem filterMap_codeOf (s : List Char) :
    (s.map fun c => Arg.con (codeAtomic c)).filterMap codeOf? = s := by
  induction s with
  | nil => simp
  | cons c cs ih =>
    rw [List.map_cons, List.filterMap_cons, codeOf_code, ih]

theorem all_ground_con {α : Type} (s : List α) (f : α → Atomic) :
    (s.map fun c => Arg.con (f c)).all Arg.ground = true := by
  induction s with
  | nil => rfl
  | cons c cs ih => simp [Arg.ground, ih]

/-- a fully bound proper list of constants unifies with a value list iff they are equal. -/
theorem unifyElems_consts (f : Char → Atomic) (hf : Function.Injective f) (cs s : List Char) (σ : Subst) :
    unifyElems (cs.map fun c => Arg.con (f c)) (.con nilAtom) (s.map f) σ
      = if cs = s then some σ else none := by
  induction cs generalizing s with
  | nil =>
    cases s with
    | nil => simp [unifyElems]
    | cons x xs => simp [unifyElems]
  | cons c cs ih =>
    cases s with
    | nil => simp [unifyElems]
    | cons x xs =>
      simp only [List.map_cons, unifyElems, unifyArg]
      by_cases h : c = x
      · subst h
        simp [ih]
      · have : f c ≠ f x := fun e => h (hf e)
        simp [this, h]

theorem charAtom_injective : Function.Injective charAtom := by
  intro a b h
  simpa [charAtom] using h

theorem codeAtomic_injective : Function.Injective codeAtomic := by
  intro a b h
  simp only [codeAtomic, Atomic.int.injEq, Int.natCast_inj] at h
  have := congrArg Char.ofNat h
  simpa using this

end Scryer.AtomOps
