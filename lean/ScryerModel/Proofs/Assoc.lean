import ScryerModel.Model.Assoc
import ScryerModel.Proofs.Sort
/-
C14 — the transcribed AVL insertion/lookup of library(assoc) (Model/Assoc.lean):
* rotations (`avl_geq`) and re-tagging keep the in-order sequence;
* `insert` never fails on a balanced tree, keeps it balanced, and reports a height change
  exactly when the height grew by one;
* the in-order list after `put_assoc` is the sorted-association-list insertion of the old one,
  hence stays strictly ascending by key, and `get_assoc` is the lookup in that list:
  `get (put k v t) k' = if k' == k then v else get t k'`.
-/
namespace Scryer.Assoc
open Scryer.Sort Tree

variable {κ ν : Type}

def height : Tree κ ν → Nat
  | t => 0
  | node _ _ _ l r => max (height l) (height r) + 1

def rootBal : Tree κ ν → Bal
  | t => .eq
  | node _ _ b _ _ => b

/-- the tag `b` is right for subtree heights `hl`, `hr`. -/
def TagOk (b : Bal) (hl hr : Nat) : Prop :=
  match b with
  | .lt => hl = hr + 1
  | .eq => hl = hr
  | .gt => hr = hl + 1

/-- AVL balance: every tag tells the truth (so sibling heights differ by at most one). -/
def Balanced : Tree κ ν → Prop
  | t => True
  | node _ _ b l r => Balanced l ∧ Balanced r ∧ TagOk b (height l) (height r)

/-! ### rotations keep the in-order sequence -/

theorem avlGeq_toList {tr tr' : Tree κ ν} {c : Bool} (e : avlGeq tr = some (tr', c)) :
    toList tr' = toList tr := by
  unfold avlGeq at e
  split at e <;> simp at e <;> obtain ⟨rfl, _⟩ := e <;> simp [toList]

theorem rebalance_toList {toBe : Bool} {tr tr' : Tree κ ν} {b1 : Bal} {ch c : Bool}
    (e : rebalance toBe tr b1 ch = some (tr', c)) : toList tr' = toList tr := by
  unfold rebalance at e
  split at e
  · exact avlGeq_toList e
  · split at e <;> simp at e
    obtain ⟨rfl, _⟩ := e
    simp [toList]

theorem adjust_toList {ch : Bool} {tr tr' : Tree κ ν} {s : Side} {c : Bool}
    (e : adjust ch tr s = some (tr', c)) : toList tr' = toList tr := by
  cases ch with
  | false =>
    simp [adjust] at e
    obtain ⟨rfl, _⟩ := e
    rfl
  | true =>
    cases tr with
    | t => simp [adjust] at e
    | node k v b0 l r =>
      simp only [adjust, if_true] at e
      cases hr : rebalance (table b0 s).2.2 (node k v b0 l r) (table b0 s).1 (table b0 s).2.1 with
      | none => simp [hr] at e
      | some p =>
        simp [hr] at e
        obtain ⟨rfl, _⟩ := e
        exact rebalance_toList (tr' := p.1) (c := p.2) hr

/-! ### rebalancing a tree whose left (right) subtree is two higher -/

theorem height_pos_node {tr : Tree κ ν} (h : 0 < height tr) :
    ∃ k v b l r, tr = node k v b l r := by
  cases tr with
  | t => simp [height] at h
  | node k v b l r => exact ⟨k, v, b, l, r, rfl⟩

theorem avlGeq_left (k : κ) (v : ν) (l r : Tree κ ν) (bl : Balanced l) (br : Balanced r)
    (hh : height l = height r + 2) :
    ∃ tr' c, avlGeq (node k v .lt l r) = some (tr', c) ∧ Balanced tr' ∧
      c = (rootBal l != .eq) ∧
      height tr' = (if rootBal l = .eq then height r + 3 else height r + 2) := by
  obtain ⟨a, va, b, alpha, beta, rfl⟩ := height_pos_node (tr := l) (by omega)
  obtain ⟨ba, bb, tag⟩ := bl
  simp only [height] at hh
  cases b with
  | lt =>
    simp only [TagOk] at tag
    refine ⟨_, _, rfl, ?_, rfl, ?_⟩
    · exact ⟨ba, ⟨bb, br, by simp only [TagOk]; omega⟩, by simp only [TagOk, height]; omega⟩
    · simp [rootBal, height]; omega
  | eq =>
    simp only [TagOk] at tag
    refine ⟨_, _, rfl, ?_, rfl, ?_⟩
    · exact ⟨ba, ⟨bb, br, by simp only [TagOk]; omega⟩, by simp only [TagOk, height]; omega⟩
    · simp [rootBal, height]; omega
  | gt =>
    simp only [TagOk] at tag
    obtain ⟨x, vx, b1, beta', gamma', rfl⟩ := height_pos_node (tr := beta) (by omega)
    obtain ⟨bb1, bb2, tag2⟩ := bb
    simp only [height] at hh tag
    refine ⟨_, _, rfl, ?_, rfl, ?_⟩
    · cases b1 <;> simp only [TagOk] at tag2 <;>
        exact ⟨⟨ba, bb1, by simp only [TagOk, table2]; omega⟩,
          ⟨bb2, br, by simp only [TagOk, table2]; omega⟩, by simp only [TagOk, height]; omega⟩
    · cases b1 <;> simp only [TagOk] at tag2 <;> simp [rootBal, height] <;> omega

theorem avlGeq_right (k : κ) (v : ν) (l r : Tree κ ν) (bl : Balanced l) (br : Balanced r)
    (hh : height r = height l + 2) :
    ∃ tr' c, avlGeq (node k v .gt l r) = some (tr', c) ∧ Balanced tr' ∧
      c = (rootBal r != .eq) ∧
      height tr' = (if rootBal r = .eq then height l + 3 else height l + 2) := by
  obtain ⟨a, va, b, alpha, beta, rfl⟩ := height_pos_node (tr := r) (by omega)
  obtain ⟨ba, bb, tag⟩ := br
  simp only [height] at hh
  cases b with
  | gt =>
    simp only [TagOk] at tag
    refine ⟨_, _, rfl, ?_, rfl, ?_⟩
    · exact ⟨⟨bl, ba, by simp only [TagOk]; omega⟩, bb, by simp only [TagOk, height]; omega⟩
    · simp [rootBal, height]; omega
  | eq =>
    simp only [TagOk] at tag
    refine ⟨_, _, rfl, ?_, rfl, ?_⟩
    · exact ⟨⟨bl, ba, by simp only [TagOk]; omega⟩, bb, by simp only [TagOk, height]; omega⟩
    · simp [rootBal, height]; omega
  | lt =>
    simp only [TagOk] at tag
    obtain ⟨x, vx, b1, beta', gamma', rfl⟩ := height_pos_node (tr := alpha) (by omega)
    obtain ⟨ba1, ba2, tag2⟩ := ba
    simp only [height] at hh tag
    refine ⟨_, _, rfl, ?_, rfl, ?_⟩
    · cases b1 <;> simp only [TagOk] at tag2 <;>
        exact ⟨⟨bl, ba1, by simp only [TagOk, table2]; omega⟩,
          ⟨ba2, bb, by simp only [TagOk, table2]; omega⟩, by simp only [TagOk, height]; omega⟩
    · cases b1 <;> simp only [TagOk] at tag2 <;> simp [rootBal, height] <;> omega

/-! ### insert keeps the tree balanced -/

/-- what `insert` promises about its result `(tr', ch)` for the old tree `tr`. -/
def InsOk (tr tr' : Tree κ ν) (ch : Bool) : Prop :=
  Balanced tr' ∧ height tr' = height tr + (if ch then 1 else 0) ∧
    (ch = true → rootBal tr' ≠ .eq ∨ height tr' = 1)

theorem adjust_left_ok (key : κ) (val : ν) (b : Bal) (l nl r : Tree κ ν) (ch : Bool)
    (bal : Balanced (node key val b l r)) (ok : InsOk l nl ch) :
    ∃ tr' c, adjust ch (node key val b nl r) .left = some (tr', c) ∧
      InsOk (node key val b l r) tr' c := by
  obtain ⟨bl, br, tag⟩ := bal
  obtain ⟨bnl, hnl, hroot⟩ := ok
  cases ch with
  | false =>
    refine ⟨_, _, rfl, ?_, ?_, ?_⟩
    · simp only [Bool.false_eq_true, if_false, Nat.add_zero] at hnl
      exact ⟨bnl, br, by rw [hnl]; exact tag⟩
    · simp only [Bool.false_eq_true, if_false, Nat.add_zero] at hnl ⊢
      simp [height, hnl]
    · simp
  | true =>
    simp only [if_true] at hnl
    cases b with
    | eq =>
      refine ⟨node key val .lt nl r, true, rfl, ?_, ?_, ?_⟩
      · simp only [TagOk] at tag
        exact ⟨bnl, br, by simp only [TagOk]; omega⟩
      · simp only [TagOk] at tag; simp only [height, if_true]; omega
      · intro _; left; simp [rootBal]
    | gt =>
      refine ⟨node key val .eq nl r, false, rfl, ?_, ?_, ?_⟩
      · simp only [TagOk] at tag
        exact ⟨bnl, br, by simp only [TagOk]; omega⟩
      · simp only [TagOk] at tag; simp only [height]; simp; omega
      · simp
    | lt =>
      simp only [TagOk] at tag
      obtain ⟨tr', c, e, btr, hc, hht⟩ := avlGeq_left key val nl r bnl br (by omega)
      have hne : rootBal nl ≠ .eq := by
        rcases hroot rfl with h | h
        · exact h
        · omega
      refine ⟨tr', false, ?_, btr, ?_, ?_⟩
      · simp [adjust, table, rebalance, e]
      · rw [hht, if_neg hne]; simp only [height]; simp; omega
      · simp

theorem adjust_right_ok (key : κ) (val : ν) (b : Bal) (l r nr : Tree κ ν) (ch : Bool)
    (bal : Balanced (node key val b l r)) (ok : InsOk r nr ch) :
    ∃ tr' c, adjust ch (node key val b l nr) .right = some (tr', c) ∧
      InsOk (node key val b l r) tr' c := by
  obtain ⟨bl, br, tag⟩ := bal
  obtain ⟨bnr, hnr, hroot⟩ := ok
  cases ch with
  | false =>
    refine ⟨_, _, rfl, ?_, ?_, ?_⟩
    · simp only [Bool.false_eq_true, if_false, Nat.add_zero] at hnr
      exact ⟨bl, bnr, by rw [hnr]; exact tag⟩
    · simp only [Bool.false_eq_true, if_false, Nat.add_zero] at hnr ⊢
      simp [height, hnr]
    · simp
  | true =>
    simp only [if_true] at hnr
    cases b with
    | eq =>
      refine ⟨node key val .gt l nr, true, rfl, ?_, ?_, ?_⟩
      · simp only [TagOk] at tag
        exact ⟨bl, bnr, by simp only [TagOk]; omega⟩
      · simp only [TagOk] at tag; simp only [height, if_true]; omega
      · intro _; left; simp [rootBal]
    | lt =>
      refine ⟨node key val .eq l nr, false, rfl, ?_, ?_, ?_⟩
      · simp only [TagOk] at tag
        exact ⟨bl, bnr, by simp only [TagOk]; omega⟩
      · simp only [TagOk] at tag; simp only [height]; simp; omega
      · simp
    | gt =>
      simp only [TagOk] at tag
      obtain ⟨tr', c, e, btr, hc, hht⟩ := avlGeq_right key val l nr bl bnr (by omega)
      have hne : rootBal nr ≠ .eq := by
        rcases hroot rfl with h | h
        · exact h
        · omega
      refine ⟨tr', false, ?_, btr, ?_, ?_⟩
      · simp [adjust, table, rebalance, e]
      · rw [hht, if_neg hne]; simp only [height]; simp; omega
      · simp

/-- `insert` never fails on a balanced tree; the result is balanced and the flag says whether the
    height grew (by exactly one). -/
theorem insert_ok (cmp : κ → κ → Ordering) (k : κ) (v : ν) (tr : Tree κ ν) (bal : Balanced tr) :
    ∃ tr' ch, insert cmp tr k v = some (tr', ch) ∧ InsOk tr tr' ch := by
  induction tr with
  | t =>
    refine ⟨_, _, rfl, ?_, ?_, ?_⟩
    · simp [Balanced, TagOk]
    · simp [height]
    · intro _; right; simp [height]
  | node key val b l r ihl ihr =>
    simp only [insert]
    cases hc : cmp k key with
    | eq =>
      refine ⟨_, _, rfl, ?_, ?_, ?_⟩
      · exact bal
      · simp [height]
      · simp
    | lt =>
      obtain ⟨nl, ch, e, ok⟩ := ihl bal.1
      simp only [e]
      exact adjust_left_ok key val b l nl r ch bal ok
    | gt =>
      obtain ⟨nr, ch, e, ok⟩ := ihr bal.2.1
      simp only [e]
      exact adjust_right_ok key val b l r nr ch bal ok

/-! ### the in-order list: sorted association lists -/

/-- insertion into an association list sorted by key (an equal key keeps the OLD key term and
    takes the new value, as `insert(=, …)` does). -/
def insPairs (cmp : κ → κ → Ordering) (k : κ) (v : ν) : List (κ × ν) → List (κ × ν)
  | [] => [(k, v)]
  | (a, va) :: rest =>
    match cmp k a with
    | .lt => (k, v) :: (a, va) :: rest
    | .eq => (a, v) :: rest
    | .gt => (a, va) :: insPairs cmp k v rest

/-- first pair whose key is `==` to `key`. -/
def lookup (cmp : κ → κ → Ordering) (key : κ) : List (κ × ν) → Option ν
  | [] => none
  | (a, va) :: rest => if cmp key a = .eq then some va else lookup cmp key rest

/-- keys strictly ascending. -/
def KeysSorted (cmp : κ → κ → Ordering) (l : List (κ × ν)) : Prop :=
  l.Pairwise fun p q => cmp p.1 q.1 = .lt

/-- the search-tree invariant: in-order keys strictly ascending. -/
def Ordered (cmp : κ → κ → Ordering) (tr : Tree κ ν) : Prop := KeysSorted cmp (toList tr)

variable {cmp : κ → κ → Ordering}

theorem insPairs_append_left (k : κ) (v : ν) (key : κ) (val : ν) (hc : cmp k key = .lt)
    (a c : List (κ × ν)) :
    insPairs cmp k v (a ++ (key, val) :: c) = insPairs cmp k v a ++ (key, val) :: c := by
  induction a with
  | nil => simp [insPairs, hc]
  | cons p a ih =>
    obtain ⟨x, vx⟩ := p
    simp only [List.cons_append, insPairs]
    cases cmp k x <;> simp [ih]

theorem insPairs_append_right (h : IsPreorder cmp) (k : κ) (v : ν) (key : κ) (val : ν)
    (hc : cmp k key = .gt) (a c : List (κ × ν)) (ha : ∀ p ∈ a, cmp p.1 key = .lt) :
    insPairs cmp k v (a ++ (key, val) :: c) = a ++ (key, val) :: insPairs cmp k v c := by
  induction a with
  | nil => simp [insPairs, hc]
  | cons p a ih =>
    obtain ⟨x, vx⟩ := p
    have hx : cmp k x = .gt := by
      rw [h.gt_iff]
      exact h.lt_trans (ha (x, vx) List.mem_cons_self) ((h.gt_iff _ _).1 hc)
    simp only [List.cons_append, insPairs, hx]
    rw [ih (fun p hp => ha p (List.mem_cons_of_mem _ hp))]

theorem insPairs_append_eq (k : κ) (v : ν) (key : κ) (val : ν)
    (hc : cmp k key = .eq) (a c : List (κ × ν)) (ha : ∀ p ∈ a, cmp k p.1 = .gt) :
    insPairs cmp k v (a ++ (key, val) :: c) = a ++ (key, v) :: c := by
  induction a with
  | nil => simp [insPairs, hc]
  | cons p a ih =>
    obtain ⟨x, vx⟩ := p
    simp only [List.cons_append, insPairs, ha (x, vx) List.mem_cons_self]
    rw [ih (fun p hp => ha p (List.mem_cons_of_mem _ hp))]

theorem keysSorted_append {a c : List (κ × ν)} {key : κ} {val : ν}
    (s : KeysSorted cmp (a ++ (key, val) :: c)) :
    KeysSorted cmp a ∧ KeysSorted cmp c ∧ (∀ p ∈ a, cmp p.1 key = .lt) ∧
      (∀ q ∈ c, cmp key q.1 = .lt) := by
  have := List.pairwise_append.1 s
  have h2 := List.pairwise_cons.1 this.2.1
  exact ⟨this.1, h2.2, fun p hp => this.2.2 p hp (key, val) List.mem_cons_self, h2.1⟩

/-- the in-order list after `insert` is the sorted-list insertion. -/
theorem insert_toList (h : IsPreorder cmp) (k : κ) (v : ν) (tr : Tree κ ν)
    (ord : Ordered cmp tr) {tr' : Tree κ ν} {ch : Bool} (e : insert cmp tr k v = some (tr', ch)) :
    toList tr' = insPairs cmp k v (toList tr) := by
  induction tr generalizing tr' ch with
  | t =>
    simp [insert] at e
    obtain ⟨rfl, _⟩ := e
    simp [toList, insPairs]
  | node key val b l r ihl ihr =>
    obtain ⟨sl, sr, hl, hr⟩ := keysSorted_append (cmp := cmp) ord
    simp only [insert] at e
    cases hc : cmp k key with
    | eq =>
      simp only [hc] at e
      simp at e
      obtain ⟨rfl, _⟩ := e
      simp only [toList]
      refine (insPairs_append_eq k v key val hc _ _ ?_).symm
      intro p hp
      rw [h.gt_iff, h.congr_right hc]
      exact hl p hp
    | lt =>
      simp only [hc] at e
      cases e1 : insert cmp l k v with
      | none => simp [e1] at e
      | some res =>
        obtain ⟨nl, c1⟩ := res
        simp only [e1] at e
        rw [adjust_toList e]
        simp only [toList]
        rw [ihl sl e1, insPairs_append_left k v key val hc]
    | gt =>
      simp only [hc] at e
      cases e1 : insert cmp r k v with
      | none => simp [e1] at e
      | some res =>
        obtain ⟨nr, c1⟩ := res
        simp only [e1] at e
        rw [adjust_toList e]
        simp only [toList]
        rw [ihr sr e1, insPairs_append_right h k v key val hc _ _ hl]

theorem mem_insPairs_key (k : κ) (v : ν) (l : List (κ × ν)) :
    ∀ p ∈ insPairs cmp k v l, p.1 = k ∨ ∃ q ∈ l, q.1 = p.1 := by
  induction l with
  | nil => simp [insPairs]
  | cons q rest ih =>
    obtain ⟨a, va⟩ := q
    intro p hp
    simp only [insPairs] at hp
    split at hp
    · rcases List.mem_cons.1 hp with rfl | hp
      · exact Or.inl rfl
      · exact Or.inr ⟨p, hp, rfl⟩
    · rcases List.mem_cons.1 hp with rfl | hp
      · exact Or.inr ⟨(a, va), List.mem_cons_self, rfl⟩
      · exact Or.inr ⟨p, List.mem_cons_of_mem _ hp, rfl⟩
    · rcases List.mem_cons.1 hp with rfl | hp
      · exact Or.inr ⟨(a, va), List.mem_cons_self, rfl⟩
      · rcases ih p hp with e | ⟨q, hq, e⟩
        · exact Or.inl e
        · exact Or.inr ⟨q, List.mem_cons_of_mem _ hq, e⟩

/-- sorted-list insertion keeps the keys strictly ascending. -/
theorem insPairs_sorted (h : IsPreorder cmp) (k : κ) (v : ν) (l : List (κ × ν))
    (s : KeysSorted cmp l) : KeysSorted cmp (insPairs cmp k v l) := by
  induction l with
  | nil => exact List.pairwise_singleton _ _
  | cons q rest ih =>
    obtain ⟨a, va⟩ := q
    have s' := List.pairwise_cons.1 s
    simp only [insPairs]
    cases hc : cmp k a with
    | lt =>
      refine List.pairwise_cons.2 ⟨?_, s⟩
      intro p hp
      rcases List.mem_cons.1 hp with rfl | hp
      · exact hc
      · exact h.lt_trans hc (s'.1 p hp)
    | eq => exact List.pairwise_cons.2 ⟨s'.1, s'.2⟩
    | gt =>
      refine List.pairwise_cons.2 ⟨?_, ih s'.2⟩
      intro p hp
      rcases mem_insPairs_key (cmp := cmp) k v rest p hp with e | ⟨q, hq, e⟩
      · show cmp a p.1 = .lt
        rw [e]; exact (h.gt_iff _ _).1 hc
      · show cmp a p.1 = .lt
        rw [← e]; exact s'.1 q hq

theorem lookup_insPairs (h : IsPreorder cmp) (k k' : κ) (v : ν) (l : List (κ × ν)) :
    lookup cmp k' (insPairs cmp k v l) = if cmp k' k = .eq then some v else lookup cmp k' l := by
  induction l with
  | nil => simp [insPairs, lookup]
  | cons q rest ih =>
    obtain ⟨a, va⟩ := q
    simp only [insPairs]
    cases hc : cmp k a with
    | lt => simp only [lookup]
    | eq =>
      simp only [lookup]
      rw [h.congr_right hc k']
      split <;> rfl
    | gt =>
      simp only [lookup, ih]
      by_cases ha : cmp k' a = .eq
      · have : cmp k' k ≠ .eq := by
          intro e
          have := h.eq_trans (h.eq_symm e) ha
          rw [this] at hc; cases hc
        simp [ha, this]
      · simp [ha]

theorem lookup_append (key : κ) (a b : List (κ × ν)) :
    lookup cmp key (a ++ b) = (lookup cmp key a).orElse fun _ => lookup cmp key b := by
  induction a with
  | nil => simp [lookup]
  | cons p a ih =>
    obtain ⟨x, vx⟩ := p
    simp only [List.cons_append, lookup]
    split
    · simp
    · exact ih

theorem lookup_none_of_ne (key : κ) (l : List (κ × ν)) (hl : ∀ p ∈ l, cmp key p.1 ≠ .eq) :
    lookup cmp key l = none := by
  induction l with
  | nil => rfl
  | cons p a ih =>
    obtain ⟨x, vx⟩ := p
    simp only [lookup, if_neg (hl (x, vx) List.mem_cons_self)]
    exact ih fun p hp => hl p (List.mem_cons_of_mem _ hp)

/-- `get_assoc` on a search tree is the lookup in its in-order list. -/
theorem get_eq_lookup (h : IsPreorder cmp) (key : κ) (tr : Tree κ ν) (ord : Ordered cmp tr) :
    get cmp key tr = lookup cmp key (toList tr) := by
  induction tr with
  | t => rfl
  | node k v b l r ihl ihr =>
    obtain ⟨sl, sr, hl, hr⟩ := keysSorted_append (cmp := cmp) ord
    simp only [get, toList, lookup_append, lookup]
    cases hc : cmp key k with
    | eq =>
      have : lookup cmp key (toList l) = none := by
        apply lookup_none_of_ne
        intro p hp e
        have := h.congr_left (h.eq_symm e) k
        rw [hl p hp, hc] at this; cases this
      simp [this]
    | lt =>
      rw [ihl sl]
      have : lookup cmp key (toList r) = none := by
        apply lookup_none_of_ne
        intro p hp e
        have := h.lt_trans hc (hr p hp)
        rw [e] at this; cases this
      simp [this]
    | gt =>
      rw [ihr sr]
      have : lookup cmp key (toList l) = none := by
        apply lookup_none_of_ne
        intro p hp e
        have := h.lt_trans (hl p hp) ((h.gt_iff _ _).1 hc)
        rw [h.eq_symm e] at this; cases this
      simp [this]

/-! ### keys, values, minimum, maximum -/

theorem toKeys_eq (tr : Tree κ ν) : toKeys tr = (toList tr).map (·.1) := by
  induction tr with
  | t => rfl
  | node k v b l r ihl ihr => simp [toKeys, toList, ihl, ihr]

theorem toValues_eq (tr : Tree κ ν) : toValues tr = (toList tr).map (·.2) := by
  induction tr with
  | t => rfl
  | node k v b l r ihl ihr => simp [toValues, toList, ihl, ihr]

theorem minAssoc_eq (tr : Tree κ ν) : minAssoc tr = (toList tr).head? := by
  induction tr with
  | t => rfl
  | node k v b l r ihl _ =>
    simp only [minAssoc, toList, ihl]
    cases toList l <;> simp

theorem maxAssoc_eq (tr : Tree κ ν) : maxAssoc tr = (toList tr).getLast? := by
  induction tr with
  | t => rfl
  | node k v b l r _ ihr =>
    simp only [maxAssoc, toList, ihr]
    cases hr : toList r with
    | nil => simp
    | cons p rest =>
      have hne : (p :: rest).getLast? ≠ none := by simp
      cases hg : (p :: rest).getLast? with
      | none => exact absurd hg hne
      | some q => simp [List.getLast?_append, List.getLast?_cons_cons, hg]

end Scryer.Assoc
