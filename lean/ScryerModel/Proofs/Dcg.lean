import ScryerModel.Model.Dcg
import ScryerModel.Proofs.Solve
/-
C39 — lemmas: fuel monotonicity of the direct semantics `den`, what the interpreter does with the
goal shapes produced by the translation, and the two directions of
`solve (tr b S0 S) = den b S0 S`.
-/
namespace Scryer.Dcg
open Scryer Scryer.Solve

/-! ### the leaves -/

theorem unifRes_mono (k n : Nat) (s : St) (a b : Term) (h : (unifRes n s a b).oof = false) :
    unifRes (n + k) s a b = unifRes n s a b := by
  unfold unifRes at h ⊢
  cases hu : unify n s.σ a b with
  | none => rw [hu] at h; simp at h
  | some r => rw [unify_mono k n s.σ a b r hu]

/-- the interpreter on `A = B`. -/
theorem solve_unif (n : Nat) (prog : Prog) (a b : Term) (s : St) :
    solve (n + 1) prog (unifG a b) s = unifRes n s a b := by
  have c1 : classify (.str "=" [a, b]) = .pred "=" [a, b] := rfl
  have c2 : classifyB "=" [a, b] = .unif a b := rfl
  simp only [solve, step, unifG, c1, builtin, c2, runB, unifRes]
  cases unify n s.σ a b with
  | none => rfl
  | some r => cases r <;> rfl

theorem solve_unif_le (n : Nat) (prog : Prog) (a b : Term) (s : St)
    (h : (solve n prog (unifG a b) s).oof = false) :
    unifRes n s a b = solve n prog (unifG a b) s := by
  cases n with
  | zero => simp [solve] at h
  | succ n =>
    rw [solve_unif] at h ⊢
    exact unifRes_mono 1 n s a b h

theorem solve_cut (n : Nat) (prog : Prog) (s : St) :
    solve (n + 1) prog (.atom "!") s = ⟨[s], true, .none, false⟩ := by
  simp only [solve, step, classify]

theorem unifRes_exc (n : Nat) (s : St) (a b : Term) :
    (unifRes n s a b).exc = none ∧ (unifRes n s a b).cut = false := by
  unfold unifRes
  cases unify n s.σ a b with
  | none => exact ⟨rfl, rfl⟩
  | some r => cases r <;> exact ⟨rfl, rfl⟩

theorem conjRes_cut (run : St → Res) (s : St) (hexc : (run s).exc = none)
    (hcut : (run s).cut = false) :
    conjRes ⟨[s], true, .none, false⟩ run = cutRes (run s) := by
  cases ho : (run s).oof with
  | true => simp [conjRes, seqLoop, cutRes, ho]
  | false => simp [conjRes, seqLoop, cutRes, ho, hexc, hcut, Res.none]

/-- `(!, S0 = S)`: the answers of the unification, and the clause is cut. -/
theorem conjRes_cut_unif (n : Nat) (s : St) (a b : Term) :
    conjRes ⟨[s], true, .none, false⟩ (fun s' => unifRes n s' a b) = cutRes (unifRes n s a b) :=
  conjRes_cut (fun s' => unifRes n s' a b) s (unifRes_exc n s a b).1 (unifRes_exc n s a b).2

/-- a conjunction whose left side cut the clause still reports the cut (unless a ball is raised). -/
theorem conjRes_cut_flag (rc : Res) (run : St → Res) (hcut : rc.oof = false → rc.cut = true)
    (h : (conjRes rc run).oof = false) (he : (conjRes rc run).exc = none) :
    (conjRes rc run).cut = true := by
  unfold conjRes at h he ⊢
  cases ho : rc.oof with
  | true => simp [ho] at h
  | false =>
    simp only [ho, Bool.false_eq_true, if_false] at h he ⊢
    cases hl : (seqLoop run rc.sols).oof with
    | true => simp [hl] at h
    | false =>
      simp only [hl, Bool.false_eq_true, if_false] at h he ⊢
      split
      · rename_i hc
        simp only [if_pos hc] at he
        simp [he]
      · exact hcut ho

theorem cutRes_congr {r r' : Res} (h : r.oof = false → r' = r) (ho : (cutRes r).oof = false) :
    cutRes r' = cutRes r := by
  cases hr : r.oof with
  | true => simp [cutRes, hr] at ho
  | false => rw [h hr]

theorem solve_conj (n : Nat) (prog : Prog) (a b : Term) (s : St) :
    solve (n + 1) prog (conjG a b) s = conjRes (solve n prog a s) (solve n prog b) := by
  simp only [solve, step, classify, conjG]

theorem solve_call3 (n : Nat) (prog : Prog) (c a b : Term) (s : St) :
    solve (n + 1) prog (.str "call" [c, a, b]) s = callGoal (solve n prog) n s c [a, b] := by
  have c3 : classify (.str "call" [c, a, b]) = .call c [a, b] := rfl
  simp only [solve, step, c3]

theorem solve_ite (n : Nat) (prog : Prog) (c t e : Term) (s : St) :
    solve (n + 1) prog (disjG (arrowG c t) e) s =
      iteRes (solve n prog c s) (solve n prog t) (fun _ => solve n prog e s) := by
  simp only [solve, step, classify, disjG, arrowG]

theorem solve_disj (n : Nat) (prog : Prog) (a b : Term) (s : St)
    (ha : ∀ c t, a ≠ .str "->" [c, t]) :
    solve (n + 1) prog (disjG a b) s = disjRes (solve n prog a s) (fun _ => solve n prog b s) := by
  have hc : classify (disjG a b) = .disj a b := by
    unfold disjG classify
    split
    all_goals first | rfl | (simp_all; done) | skip
    rename_i heq
    injection heq with h1 h2
    subst h1 h2
    simp_all
  simp only [solve, step, hc]

theorem solve_RExt (prog : Prog) (n k : Nat) : RExt (solve n prog) (solve (n + k) prog) :=
  fun g s h => solve_mono prog k n g s h

/-- the translation of a body that is not the non-terminal `'->'` is not an if-then. -/
theorem tr_not_arrow {a : Body} {S0 S A : Term} (h : tr a S0 S = .ok A) (hn : arrowNT a = false) :
    ∀ c t, A ≠ .str "->" [c, t] := by
  intro c t hA
  subst hA
  cases a with
  | var v => simp [tr] at h
  | nil => simp [tr, unifG] at h
  | terms ts => simp [tr, unifG] at h
  | badList t => simp [tr] at h
  | seq a b m =>
    simp only [tr] at h
    split at h
    · cases h
    · split at h
      · cases h
      · simp [conjG] at h
  | alt a b =>
    unfold tr at h
    split at h
    all_goals (try (repeat' (split at h)) <;> simp_all [disjG])
  | bar a b =>
    simp only [tr] at h
    split at h
    · cases h
    · split at h
      · cases h
      · simp [disjG] at h
  | ifThen c t m => simp [tr] at h
  | brace g => simp [tr, conjG] at h
  | call1 c => simp [tr] at h
  | phrase args => simp [tr] at h
  | cut => simp [tr, conjG] at h
  | naf g => simp [tr] at h
  | nonterm t =>
    simp only [tr, Except.ok.injEq] at h
    cases t with
    | atom a =>
      simp only [nonTerminal, Term.str.injEq] at h
      obtain ⟨h1, _⟩ := h
      subst h1
      simp [arrowNT] at hn
    | str f args =>
      simp only [nonTerminal, Term.str.injEq] at h
      obtain ⟨h1, h2⟩ := h
      subst h1
      cases args with
      | nil => simp [arrowNT] at hn
      | cons x xs =>
        have := congrArg List.length h2
        simp at this
    | var v => simp [nonTerminal] at h
    | int v => simp [nonTerminal] at h
    | rat a b => simp [nonTerminal] at h
    | flt b => simp [nonTerminal] at h

/-! ### fuel monotonicity of the direct semantics -/

theorem den_mono (prog : Prog) (b : Body) (S0 S : Term) (s : St) :
    ∀ n k, (den n prog b S0 S s).oof = false → den (n + k) prog b S0 S s = den n prog b S0 S s := by
  induction b, S0, S, s using den.induct with
  | case1 S0 S s => intro n k h; simp only [den] at h ⊢; exact unifRes_mono k n s _ _ h
  | case2 ts S0 S s => intro n k h; simp only [den] at h ⊢; exact unifRes_mono k n s _ _ h
  | case3 a b m S0 S s iha ihb =>
    intro n k h
    simp only [den] at h ⊢
    exact conjRes_congr2 (iha n k) (fun s' hs => ihb s' n k hs) h
  | case4 c t m e S0 S s ihc iht ihe =>
    intro n k h
    simp only [den] at h ⊢
    exact iteRes_congr (ihc n k) (fun s' hs => iht s' n k hs) (ihe n k) h
  | case5 a b S0 S s hne iha ihb =>
    intro n k h
    have e := fun n => den.eq_5 n prog S0 S s a b hne
    simp only [e] at h ⊢
    exact disjRes_congr (iha n k) (ihb n k) h
  | case6 a b S0 S s iha ihb =>
    intro n k h
    simp only [den] at h ⊢
    exact disjRes_congr (iha n k) (ihb n k) h
  | case7 c t m S0 S s ihc iht =>
    intro n k h
    simp only [den] at h ⊢
    exact iteRes_congr (ihc n k) (fun s' hs => iht s' n k hs) (fun _ => rfl) h
  | case8 g S0 S s =>
    intro n k h
    simp only [den] at h ⊢
    exact conjRes_congr2 (solve_mono prog k n g s) (fun s' hs => unifRes_mono k n s' _ _ hs) h
  | case9 S0 S s =>
    intro n k h
    simp only [den] at h ⊢
    exact cutRes_congr (unifRes_mono k n s _ _) h
  | case10 c S0 S s =>
    intro n k h
    simp only [den] at h ⊢
    exact callGoal_mono (solve_RExt prog n k) k n s c _ h
  | case11 t S0 S s => intro n k h; simp only [den] at h ⊢; exact solve_mono prog k n _ s h
  | case12 v S0 S s => intro n k h; simp only [den] at h ⊢; exact solve_mono prog k n _ s h
  | case13 args S0 S s => intro n k h; simp only [den] at h ⊢; exact solve_mono prog k n _ s h
  | case14 t S0 S s => intro n k h; simp [den] at h
  | case15 g S0 S s => intro n k h; simp [den] at h

/-- how much more fuel the interpreter needs for the control structure of the translated body. -/
def need : Body → Nat
  | .seq a b _ => 1 + max (need a) (need b)
  | .alt a b => 1 + max (need a) (need b)
  | .bar a b => 1 + max (need a) (need b)
  | .ifThen c t _ => 1 + max (need c) (need t)
  | _ => 2

/-- both directions of the correspondence for one body in one state. -/
def Corr (prog : Prog) (b : Body) (S0 S : Term) (s : St) : Prop :=
  ∀ g, tr b S0 S = .ok g → b.ok = true →
    (∀ n, (solve n prog g s).oof = false → den n prog b S0 S s = solve n prog g s) ∧
    (∀ n k, (den n prog b S0 S s).oof = false → need b ≤ k →
      solve (n + k) prog g s = den n prog b S0 S s)

theorem corr_lift {prog : Prog} {b : Body} {S0 S g : Term} {s : St}
    (hA : ∀ n, (solve n prog g s).oof = false → den n prog b S0 S s = solve n prog g s)
    (n : Nat) (h : (solve n prog g s).oof = false) :
    den (n + 1) prog b S0 S s = solve n prog g s := by
  have e := hA n h
  rw [← e]
  apply den_mono
  rw [e]; exact h

theorem corr (prog : Prog) (b : Body) (S0 S : Term) (s : St) : Corr prog b S0 S s := by
  induction b, S0, S, s using den.induct with
  | case1 S0 S s =>
    intro g htr _
    simp only [tr, Except.ok.injEq] at htr
    subst htr
    refine ⟨fun n h => ?_, fun n k h hk => ?_⟩
    · simp only [den]; exact solve_unif_le n prog _ _ s h
    · simp only [den, need] at h hk ⊢
      obtain ⟨k', rfl⟩ : ∃ k', k = k' + 1 := ⟨k - 1, by omega⟩
      rw [← Nat.add_assoc, solve_unif]
      exact unifRes_mono k' n s _ _ h
  | case2 ts S0 S s =>
    intro g htr _
    simp only [tr, Except.ok.injEq] at htr
    subst htr
    refine ⟨fun n h => ?_, fun n k h hk => ?_⟩
    · simp only [den]; exact solve_unif_le n prog _ _ s h
    · simp only [den, need] at h hk ⊢
      obtain ⟨k', rfl⟩ : ∃ k', k = k' + 1 := ⟨k - 1, by omega⟩
      rw [← Nat.add_assoc, solve_unif]
      exact unifRes_mono k' n s _ _ h
  | case3 a b m S0 S s iha ihb =>
    intro g htr hok
    simp only [tr] at htr
    cases hA : tr a S0 (.var m) with
    | error e => rw [hA] at htr; cases htr
    | ok A =>
      cases hB : tr b (.var m) S with
      | error e => rw [hA, hB] at htr; cases htr
      | ok B =>
        rw [hA, hB] at htr
        simp only [Except.ok.injEq] at htr
        subst htr
        simp only [Body.ok, Bool.and_eq_true] at hok
        obtain ⟨ha1, ha2⟩ := iha A hA hok.1
        refine ⟨fun n h => ?_, fun n k h hk => ?_⟩
        · cases n with
          | zero => simp [solve] at h
          | succ n =>
            rw [solve_conj] at h ⊢
            simp only [den]
            exact conjRes_congr2 (corr_lift ha1 n)
              (fun s' hs => corr_lift (ihb s' B hB hok.2).1 n hs) h
        · simp only [den, need] at h hk ⊢
          obtain ⟨k', rfl⟩ : ∃ k', k = k' + 1 := ⟨k - 1, by omega⟩
          rw [← Nat.add_assoc, solve_conj]
          exact conjRes_congr2 (fun h1 => ha2 n k' h1 (by omega))
            (fun s' hs => (ihb s' B hB hok.2).2 n k' hs (by omega)) h
  | case4 c t m e S0 S s ihc iht ihe =>
    intro g htr hok
    simp only [tr] at htr
    cases hC : tr c S0 (.var m) with
    | error x => rw [hC] at htr; cases htr
    | ok C =>
      cases hT : tr t (.var m) S with
      | error x => rw [hC, hT] at htr; cases htr
      | ok T =>
        cases hE : tr e S0 S with
        | error x => rw [hC, hT, hE] at htr; cases htr
        | ok E =>
          rw [hC, hT, hE] at htr
          simp only [Except.ok.injEq] at htr
          subst htr
          simp only [Body.ok, arrowNT, Bool.not_false, Bool.true_and, Bool.and_eq_true] at hok
          obtain ⟨hc1, hc2⟩ := ihc C hC hok.1.1
          obtain ⟨he1, he2⟩ := ihe E hE hok.2
          refine ⟨fun n h => ?_, fun n k h hk => ?_⟩
          · cases n with
            | zero => simp [solve] at h
            | succ n =>
              rw [solve_ite] at h ⊢
              simp only [den]
              exact iteRes_congr (corr_lift hc1 n)
                (fun s' hs => corr_lift (iht s' T hT hok.1.2).1 n hs) (corr_lift he1 n) h
          · simp only [den] at h ⊢
            simp only [need] at hk
            obtain ⟨k', rfl⟩ : ∃ k', k = k' + 1 := ⟨k - 1, by omega⟩
            rw [← Nat.add_assoc, solve_ite]
            exact iteRes_congr (fun h1 => hc2 n k' h1 (by omega))
              (fun s' hs => (iht s' T hT hok.1.2).2 n k' hs (by omega))
              (fun h1 => he2 n k' h1 (by omega)) h
  | case5 a b S0 S s hne iha ihb =>
    intro g htr hok
    rw [tr.eq_7 _ _ _ _ hne] at htr
    cases hA : tr a S0 S with
    | error e => rw [hA] at htr; cases htr
    | ok A =>
      cases hB : tr b S0 S with
      | error e => rw [hA, hB] at htr; cases htr
      | ok B =>
        rw [hA, hB] at htr
        simp only [Except.ok.injEq] at htr
        subst htr
        simp only [Body.ok, Bool.and_eq_true, Bool.not_eq_true'] at hok
        have hna := tr_not_arrow hA hok.1.1
        obtain ⟨ha1, ha2⟩ := iha A hA hok.1.2
        obtain ⟨hb1, hb2⟩ := ihb B hB hok.2
        refine ⟨fun n h => ?_, fun n k h hk => ?_⟩
        · cases n with
          | zero => simp [solve] at h
          | succ n =>
            rw [solve_disj _ _ _ _ _ hna] at h ⊢
            rw [den.eq_5 _ _ _ _ _ _ _ hne]
            exact disjRes_congr (corr_lift ha1 n) (corr_lift hb1 n) h
        · rw [den.eq_5 _ _ _ _ _ _ _ hne] at h ⊢
          simp only [need] at hk
          obtain ⟨k', rfl⟩ : ∃ k', k = k' + 1 := ⟨k - 1, by omega⟩
          rw [← Nat.add_assoc, solve_disj _ _ _ _ _ hna]
          exact disjRes_congr (fun h1 => ha2 n k' h1 (by omega)) (fun h1 => hb2 n k' h1 (by omega)) h
  | case6 a b S0 S s iha ihb =>
    intro g htr hok
    simp only [tr] at htr
    cases hA : tr a S0 S with
    | error e => rw [hA] at htr; cases htr
    | ok A =>
      cases hB : tr b S0 S with
      | error e => rw [hA, hB] at htr; cases htr
      | ok B =>
        rw [hA, hB] at htr
        simp only [Except.ok.injEq] at htr
        subst htr
        simp only [Body.ok, Bool.and_eq_true, Bool.not_eq_true'] at hok
        have hna := tr_not_arrow hA hok.1.1
        obtain ⟨ha1, ha2⟩ := iha A hA hok.1.2
        obtain ⟨hb1, hb2⟩ := ihb B hB hok.2
        refine ⟨fun n h => ?_, fun n k h hk => ?_⟩
        · cases n with
          | zero => simp [solve] at h
          | succ n =>
            rw [solve_disj _ _ _ _ _ hna] at h ⊢
            simp only [den]
            exact disjRes_congr (corr_lift ha1 n) (corr_lift hb1 n) h
        · simp only [den] at h ⊢
          simp only [need] at hk
          obtain ⟨k', rfl⟩ : ∃ k', k = k' + 1 := ⟨k - 1, by omega⟩
          rw [← Nat.add_assoc, solve_disj _ _ _ _ _ hna]
          exact disjRes_congr (fun h1 => ha2 n k' h1 (by omega)) (fun h1 => hb2 n k' h1 (by omega)) h
  | case7 c t m S0 S s ihc iht => intro g htr _; simp [tr] at htr
  | case8 gt S0 S s =>
    intro g htr _
    simp only [tr, Except.ok.injEq] at htr
    subst htr
    refine ⟨fun n h => ?_, fun n k h hk => ?_⟩
    · cases n with
      | zero => simp [solve] at h
      | succ n =>
        rw [solve_conj] at h ⊢
        simp only [den]
        refine conjRes_congr2 (solve_mono prog 1 n gt s) (fun s' hs => ?_) h
        have := solve_unif_le n prog S0 S s' hs
        rw [← this]
        apply unifRes_mono
        rw [this]; exact hs
    · simp only [den, need] at h hk ⊢
      obtain ⟨k', rfl⟩ : ∃ k', k = k' + 2 := ⟨k - 2, by omega⟩
      rw [← Nat.add_assoc, solve_conj]
      refine conjRes_congr2 (fun h1 => ?_) (fun s' hs => ?_) h
      · rw [Nat.add_assoc]; exact solve_mono prog (k' + 1) n gt s h1
      · show solve (n + k' + 1) prog (unifG S0 S) s' = _
        rw [solve_unif]; exact unifRes_mono k' n s' _ _ hs
  | case9 S0 S s =>
    intro g htr _
    simp only [tr, Except.ok.injEq] at htr
    subst htr
    refine ⟨fun n h => ?_, fun n k h hk => ?_⟩
    · cases n with
      | zero => simp [solve] at h
      | succ n =>
        cases n with
        | zero => rw [solve_conj] at h; simp [solve, conjRes] at h
        | succ n =>
          rw [solve_conj, solve_cut] at h ⊢
          have e : solve (n + 1) prog (unifG S0 S) = fun s' => unifRes n s' S0 S := by
            funext s'; exact solve_unif ..
          rw [e] at h ⊢
          rw [conjRes_cut_unif] at h ⊢
          simp only [den]
          refine cutRes_congr (fun h1 => ?_) h
          rw [Nat.add_assoc]; exact unifRes_mono (1 + 1) n s _ _ h1
    · simp only [den, need] at h hk ⊢
      obtain ⟨k', rfl⟩ : ∃ k', k = k' + 2 := ⟨k - 2, by omega⟩
      rw [← Nat.add_assoc, solve_conj, solve_cut]
      have e : solve (n + k' + 1) prog (unifG S0 S) = fun s' => unifRes (n + k') s' S0 S := by
        funext s'; exact solve_unif ..
      rw [e, conjRes_cut_unif]
      exact cutRes_congr (unifRes_mono k' n s _ _) h
  | case10 c S0 S s =>
    intro g htr _
    simp only [tr, Except.ok.injEq] at htr
    subst htr
    refine ⟨fun n h => ?_, fun n k h hk => ?_⟩
    · cases n with
      | zero => simp [solve] at h
      | succ n =>
        rw [solve_call3] at h ⊢
        simp only [den]
        exact callGoal_mono (solve_RExt prog n 1) 1 n s c _ h
    · simp only [den, need] at h hk ⊢
      obtain ⟨k', rfl⟩ : ∃ k', k = k' + 1 := ⟨k - 1, by omega⟩
      rw [← Nat.add_assoc, solve_call3]
      exact callGoal_mono (solve_RExt prog n k') k' n s c _ h
  | case11 t S0 S s =>
    intro g htr _
    simp only [tr, Except.ok.injEq] at htr
    subst htr
    exact ⟨fun n _ => by simp only [den], fun n k h _ => by
      simp only [den] at h ⊢; exact solve_mono prog k n _ s h⟩
  | case12 v S0 S s =>
    intro g htr _
    simp only [tr, Except.ok.injEq] at htr
    subst htr
    exact ⟨fun n _ => by simp only [den], fun n k h _ => by
      simp only [den] at h ⊢; exact solve_mono prog k n _ s h⟩
  | case13 args S0 S s =>
    intro g htr _
    simp only [tr, Except.ok.injEq] at htr
    subst htr
    exact ⟨fun n _ => by simp only [den], fun n k h _ => by
      simp only [den] at h ⊢; exact solve_mono prog k n _ s h⟩
  | case14 t S0 S s => intro g htr _; simp [tr] at htr
  | case15 gt S0 S s => intro g htr _; simp [tr] at htr

end Scryer.Dcg
