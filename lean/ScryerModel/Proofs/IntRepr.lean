import ScryerModel.Model.IntRepr
import ScryerModel.Proofs.ArithInt
namespace Scryer.IntRepr
open Scryer.Arith

theorem unifyInt_iff (a b : Num) : unifyInt a b = true ↔ a.val = b.val := by
  cases a <;> cases b <;> simp only [unifyInt, val_fix, val_big, beq_iff_eq]
  exact eq_comm

theorem compareInt_eq (a b : Num) : compareInt a b = compare a.val b.val := by
  cases a <;> cases b <;> rfl

theorem candidate_of_eq (h a : Num) (hh : h.wf) (ha : a.wf) (e : h.val = a.val) :
    candidate h a = true := by
  cases a with
  | big v => simp [candidate, route]
  | fix v =>
    cases h with
    | fix k =>
      simp only [val_fix] at e
      simp [candidate, route, headKeys, e]
    | big k =>
      simp only [val_fix, val_big] at e
      have hv : inFix v = true := ha
      subst e
      simp [candidate, route, headKeys, hv]

theorem matchesFrom_eq_spec (heads : List Num) (a : Num) (i : Nat)
    (hh : ∀ h ∈ heads, h.wf) (ha : a.wf) :
    matchesFrom i heads a = specFrom i heads a.val := by
  induction heads generalizing i with
  | nil => rfl
  | cons h t ih =>
    have hw : h.wf := hh h (List.mem_cons_self ..)
    have ht : ∀ x ∈ t, x.wf := fun x hx => hh x (List.mem_cons_of_mem _ hx)
    simp only [matchesFrom, specFrom, ih (i + 1) ht]
    congr 1
    by_cases e : h.val = a.val
    · have c := candidate_of_eq h a hw ha e
      have u := (unifyInt_iff h a).2 e
      simp [c, u, e]
    · have u : unifyInt h a = false := by
        cases hu : unifyInt h a
        · rfl
        · exact absurd ((unifyInt_iff h a).1 hu) e
      simp [u, e]

end Scryer.IntRepr
