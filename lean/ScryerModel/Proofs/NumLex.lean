import ScryerModel.Model.NumLex
import Mathlib.Tactic.Ring
import Mathlib.Tactic.Linarith
/-! helper lemmas for C16 (Scryer.NumLex) -/
namespace Scryer.NumLex

/-! ### Horner -/

theorem hornerFrom_append (radix acc : Nat) (xs ys : List Char) :
    hornerFrom radix acc (xs ++ ys) = hornerFrom radix (hornerFrom radix acc xs) ys := by
  induction xs generalizing acc with
  | nil => rfl
  | cons c cs ih => simp [hornerFrom, ih]

theorem hornerFrom_acc (radix acc : Nat) (xs : List Char) :
    hornerFrom radix acc xs = acc * radix ^ xs.length + hornerFrom radix 0 xs := by
  induction xs generalizing acc with
  | nil => simp [hornerFrom]
  | cons c cs ih =>
    simp only [hornerFrom, List.length_cons]
    rw [ih (acc * radix + digitVal c), ih (0 * radix + digitVal c), Nat.pow_succ]
    ring

theorem horner_snoc (radix : Nat) (ds : List Char) (c : Char) :
    horner radix (ds ++ [c]) = horner radix ds * radix + digitVal c := by
  simp [horner, hornerFrom_append, hornerFrom]

theorem horner_cons (radix : Nat) (c : Char) (ds : List Char) :
    horner radix (c :: ds) = digitVal c * radix ^ ds.length + horner radix ds := by
  simp only [horner, hornerFrom]
  rw [hornerFrom_acc]; simp

theorem horner_append (radix : Nat) (xs ys : List Char) :
    horner radix (xs ++ ys) = horner radix xs * radix ^ ys.length + horner radix ys := by
  simp only [horner, hornerFrom_append]
  rw [hornerFrom_acc]

theorem digitVal_zero : digitVal '0' = 0 := by decide

theorem horner_replicate_zero (radix k : Nat) : horner radix (List.replicate k '0') = 0 := by
  induction k with
  | zero => rfl
  | succ k ih => rw [List.replicate_succ, horner_cons, ih, digitVal_zero]; simp

/-! ### spanP -/

theorem spanP_append {p : Char → Bool} (ds rest : List Char) (hd : ∀ c ∈ ds, p c = true)
    (hr : ∀ c r, rest = c :: r → p c = false) : spanP p (ds ++ rest) = (ds, rest) := by
  induction ds with
  | nil =>
    cases rest with
    | nil => rfl
    | cons c r => simp [spanP, hr c r rfl]
  | cons d ds ih =>
    have := ih (fun c hc => hd c (by simp [hc]))
    simp [spanP, hd d (by simp), this]

theorem spanP_all {p : Char → Bool} (ds : List Char) (hd : ∀ c ∈ ds, p c = true) :
    spanP p ds = (ds, []) := by
  simpa using spanP_append ds [] hd (by intro c r h; cases h)

/-! ### character facts -/

theorem isDigit_iff (c : Char) : isDigit c = true ↔ 48 ≤ c.toNat ∧ c.toNat ≤ 57 := by
  simp [isDigit]

theorem ne_of_isDigit {c d : Char} (hc : isDigit c = true) (hd : isDigit d = false) : c ≠ d := by
  rintro rfl; simp_all

theorem isDigit_not_layout {c : Char} (h : isDigit c = true) : isLayout c = false := by
  rw [isDigit_iff] at h
  simp only [isLayout, Bool.or_eq_false_iff, beq_eq_false_iff_ne]
  omega

/-! ### layout -/

theorem scanForLayout_digit {c : Char} (h : isDigit c = true) (r : List Char) :
    scanForLayout (c :: r) = .ok (false, c :: r) := by
  have h1 := isDigit_not_layout h
  have h2 : c ≠ '%' := ne_of_isDigit h (by decide)
  have h3 : c ≠ '/' := ne_of_isDigit h (by decide)
  simp only [scanForLayout]
  unfold scanL
  simp [h1, h2, h3]

theorem scanL_layout (lay : List Char) (hl : ∀ x ∈ lay, isLayout x = true) (b : Bool)
    {c : Char} (h : isDigit c = true) (r : List Char) :
    scanL .base b (lay ++ c :: r) = .ok (b || !lay.isEmpty, c :: r) := by
  induction lay generalizing b with
  | nil =>
    have h1 := isDigit_not_layout h
    have h2 : c ≠ '%' := ne_of_isDigit h (by decide)
    have h3 : c ≠ '/' := ne_of_isDigit h (by decide)
    rw [List.nil_append]
    unfold scanL
    simp [h1, h2, h3]
  | cons x xs ih =>
    have hx := hl x (by simp)
    rw [List.cons_append]
    unfold scanL
    simp only [hx, if_true]
    rw [ih (fun y hy => hl y (by simp [hy]))]
    simp

theorem skipUnderscore_plain {c : Char} (h : c ≠ '_') (r : List Char) :
    skipUnderscore (c :: r) = .ok (c, c :: r) := by
  simp [skipUnderscore, h]

theorem skipUnderscore_us (lay : List Char) (hl : ∀ x ∈ lay, isLayout x = true)
    {c : Char} (h : isDigit c = true) (r : List Char) :
    skipUnderscore ('_' :: (lay ++ c :: r)) = .ok (c, c :: r) := by
  have e : scanForLayout (lay ++ c :: r) = .ok (!lay.isEmpty, c :: r) := by
    cases lay with
    | nil => simpa using scanForLayout_digit h r
    | cons x xs =>
      have := scanL_layout (x :: xs) hl false h r
      simpa [scanForLayout] using this
  simp [skipUnderscore, e, h]


/-- continuation of a decimal integer literal after its first digit: spelled text `s`
    contributing the digits `ds` (digits, and `_` + layout + digit). -/
inductive Cont : List Char → List Char → Prop
  | nil : Cont [] []
  | dig {d : Char} {s ds : List Char} : isDigit d = true → Cont s ds → Cont (d :: s) (d :: ds)
  | sep {d : Char} {s ds : List Char} (lay : List Char) : isDigit d = true →
      (∀ x ∈ lay, isLayout x = true) → Cont s ds → Cont ('_' :: (lay ++ d :: s)) (d :: ds)

theorem Cont.allDigits {s ds : List Char} (h : Cont s ds) : ∀ c ∈ ds, isDigit c = true := by
  induction h with
  | nil => simp
  | dig hd _ ih => intro c hc; simp at hc; rcases hc with rfl | hc; exact hd; exact ih c hc
  | sep _ hd _ _ ih => intro c hc; simp at hc; rcases hc with rfl | hc; exact hd; exact ih c hc

theorem Cont.ofDigits : ∀ (ds : List Char), (∀ c ∈ ds, isDigit c = true) → Cont ds ds
  | [], _ => .nil
  | d :: ds, h => .dig (h d (by simp)) (Cont.ofDigits ds (fun c hc => h c (by simp [hc])))

/-- the text after the literal does not continue the integer part -/
def StopInt (rest : List Char) : Prop := ∀ c r, rest = c :: r → isDigit c = false ∧ c ≠ '_'

/-- what `number_token` does once the integer digits are read -/
def finishInt (tok rest : List Char) : LexRes :=
  match rest with
  | [] => .ok (.part tok, [])
  | c :: r => afterInt tok c r

theorem intPart_cont {s ds : List Char} (h : Cont s ds) (strict : Bool) :
    ∀ (fuel : Nat) (tok rest : List Char), s.length + 1 ≤ fuel → StopInt rest →
      intPart strict fuel tok (s ++ rest) = finishInt (tok ++ ds) rest := by
  induction h with
  | nil =>
    intro fuel tok rest hf hs
    obtain ⟨f, rfl⟩ : ∃ f, fuel = f + 1 := ⟨fuel - 1, by simp at hf; omega⟩
    cases rest with
    | nil => simp [intPart, skipUnderscore, finishInt]
    | cons c r =>
      obtain ⟨hd, hu⟩ := hs c r rfl
      simp [intPart, skipUnderscore_plain hu, hd, finishInt]
  | @dig d s ds hd _ ih =>
    intro fuel tok rest hf hs
    obtain ⟨f, rfl⟩ : ∃ f, fuel = f + 1 := ⟨fuel - 1, by simp at hf; omega⟩
    have hu : d ≠ '_' := ne_of_isDigit hd (by decide)
    simp only [List.cons_append, intPart, skipUnderscore_plain hu, hd, if_true, List.drop_one, List.tail_cons]
    rw [ih f (tok ++ [d]) rest (by simp at hf; omega) hs]
    simp
  | @sep d s ds lay hd hl _ ih =>
    intro fuel tok rest hf hs
    obtain ⟨f, rfl⟩ : ∃ f, fuel = f + 1 := ⟨fuel - 1, by simp at hf; omega⟩
    have e : ('_' :: (lay ++ d :: s)) ++ rest = '_' :: (lay ++ d :: (s ++ rest)) := by simp
    rw [e]
    simp only [intPart, skipUnderscore_us lay hl hd, hd, if_true, List.drop_one, List.tail_cons]
    rw [ih f (tok ++ [d]) rest (by simp at hf; omega) hs]
    simp

theorem numberToken_cont {d : Char} {s ds : List Char} (_hd : isDigit d = true) (h : Cont s ds)
    (strict : Bool) (rest : List Char) (hs : StopInt rest) :
    numberToken strict (d :: (s ++ rest)) = finishInt (d :: ds) rest := by
  simp only [numberToken]
  rw [intPart_cont h strict _ [d] rest (by simp) hs]
  simp

/-! ### finishing an integer token -/

theorem validIn_ten (c : Char) : validIn 10 c = isDigit c := by simp [validIn]

theorem parseRadix_digits {tok : List Char} (hne : tok ≠ []) (h : ∀ c ∈ tok, isDigit c = true) :
    parseRadix 10 tok = .ok (horner 10 tok) := by
  have h1 : tok.isEmpty = false := by cases tok <;> simp_all
  have h2 : tok.all (validIn 10) = true := by
    simp only [List.all_eq_true, validIn_ten]; exact h
  simp [parseRadix, h1, h2]

theorem mkInt_digits {tok : List Char} (hne : tok ≠ []) (h : ∀ c ∈ tok, isDigit c = true)
    (rest : List Char) : mkInt tok rest = .ok (.int (horner 10 tok), rest) := by
  simp [mkInt, parseRadix_digits hne h]

/-- the character after an integer does not start a fraction, radix or character literal -/
def PlainStop (tok : List Char) (c : Char) : Prop :=
  c ≠ '.' ∧ (tok = ['0'] → c ≠ 'x' ∧ c ≠ 'o' ∧ c ≠ 'b' ∧ c ≠ '\'')

theorem afterInt_plain {tok : List Char} {c : Char} (h : PlainStop tok c) (r : List Char) :
    afterInt tok c r = mkInt tok (c :: r) := by
  obtain ⟨h1, h2⟩ := h
  by_cases ht : tok = ['0']
  · obtain ⟨a, b, c', d⟩ := h2 ht
    simp [afterInt, h1, ht, a, b, c', d]
  · simp [afterInt, h1, ht]

/-! ### showNat -/

theorem digitChar_spec : ∀ d, d < 10 → digitVal (digitChar d) = d ∧ isDigit (digitChar d) = true := by
  decide

theorem showNatAux_digits (fuel n : Nat) (acc : List Char) (h : ∀ c ∈ acc, isDigit c = true) :
    ∀ c ∈ showNatAux fuel n acc, isDigit c = true := by
  induction fuel generalizing n acc with
  | zero => simpa [showNatAux] using h
  | succ f ih =>
    have hd := (digitChar_spec (n % 10) (Nat.mod_lt _ (by decide))).2
    have h' : ∀ c ∈ digitChar (n % 10) :: acc, isDigit c = true := by
      intro c hc; simp at hc; rcases hc with rfl | hc; exact hd; exact h c hc
    simp only [showNatAux]
    split
    · exact h'
    · exact ih _ _ h'

theorem showNatAux_ne_nil (fuel n : Nat) (acc : List Char) (hf : 0 < fuel) :
    showNatAux fuel n acc ≠ [] := by
  induction fuel generalizing n acc with
  | zero => omega
  | succ f ih =>
    simp only [showNatAux]
    split
    · simp
    · cases f with
      | zero => simp [showNatAux]
      | succ f => exact ih _ _ (by omega)

theorem showNatAux_value (fuel n : Nat) (acc : List Char) (hf : n < fuel) :
    horner 10 (showNatAux fuel n acc) = n * 10 ^ acc.length + horner 10 acc := by
  induction fuel generalizing n acc with
  | zero => omega
  | succ f ih =>
    have hv := (digitChar_spec (n % 10) (Nat.mod_lt _ (by decide))).1
    simp only [showNatAux]
    split
    · rename_i h0
      rw [horner_cons, hv]
      have : n % 10 = n := by omega
      rw [this]
    · rename_i h0
      rw [ih (n / 10) _ (by omega), horner_cons, hv]
      simp only [List.length_cons, Nat.pow_succ]
      have := Nat.div_add_mod n 10
      generalize 10 ^ acc.length = p
      generalize horner 10 acc = q
      calc n / 10 * (p * 10) + (n % 10 * p + q) = (10 * (n / 10) + n % 10) * p + q := by ring
        _ = n * p + q := by rw [this]

theorem showNat_digits (n : Nat) : ∀ c ∈ showNat n, isDigit c = true :=
  showNatAux_digits _ _ [] (by simp)

theorem showNat_ne_nil (n : Nat) : showNat n ≠ [] := showNatAux_ne_nil _ _ [] (by omega)

theorem showNat_value (n : Nat) : horner 10 (showNat n) = n := by
  have := showNatAux_value (n + 1) n [] (by omega)
  simpa [showNat, horner, hornerFrom] using this


theorem isDigit_not_graphicToken {c : Char} (h : isDigit c = true) : isGraphicToken c = false := by
  rw [isDigit_iff] at h
  have : ∀ d : Char, d.toNat < 48 ∨ 57 < d.toNat → c ≠ d := by
    rintro d hd rfl; omega
  simp only [isGraphicToken, isGraphic, Bool.or_eq_false_iff, beq_eq_false_iff_ne]
  repeat' apply And.intro
  all_goals exact this _ (by decide)

/-- reading the decimal digits of `n` as a complete text -/
theorem nextNumberToken_showNat (strict : Bool) (n : Nat) :
    nextNumberToken strict (showNat n) = .ok (.num (.int n), []) := by
  have hd := showNat_digits n
  have hne := showNat_ne_nil n
  have hv := showNat_value n
  generalize showNat n = t at *
  cases t with
  | nil => exact absurd rfl hne
  | cons d s =>
    have hdd := hd d (by simp)
    have hc : Cont s s := Cont.ofDigits s (fun c hc => hd c (by simp [hc]))
    have ht := numberToken_cont hdd hc strict [] (by intro c r h; cases h)
    simp only [List.append_nil] at ht
    have hall : (d :: s).all isDigit = true := by
      simp only [List.all_eq_true]; exact hd
    simp [nextNumberToken, scanForLayout_digit hdd, hdd, ht, finishInt, completePartial, hall, hv]

theorem scanForLayout_minus (r : List Char) :
    scanForLayout ('-' :: r) = .ok (false, '-' :: r) := by
  simp only [scanForLayout]
  unfold scanL
  simp [isLayout]

theorem nextNumberToken_minus {d : Char} (hd : isDigit d = true) (strict : Bool) (s : List Char) :
    nextNumberToken strict ('-' :: d :: s) = .ok (.minus, d :: s) := by
  have hg := isDigit_not_graphicToken hd
  have hsp : spanP isGraphicToken ('-' :: d :: s) = (['-'], d :: s) :=
    spanP_append ['-'] (d :: s) (by simp [isGraphicToken, isGraphic]) (by intro c r h; cases h; exact hg)
  simp [nextNumberToken, scanForLayout_minus, isDigit, hsp, isGraphicToken, isGraphic]

theorem numberFromText_showInt (i : Int) : numberFromText (showInt i) = .ok (.int i) := by
  unfold showInt
  split
  · rename_i hneg
    have hd := showNat_digits i.natAbs
    have hne := showNat_ne_nil i.natAbs
    have h2 := nextNumberToken_showNat true i.natAbs
    generalize showNat i.natAbs = t at *
    cases t with
    | nil => exact absurd rfl hne
    | cons d s =>
      have hdd := hd d (by simp)
      simp only [numberFromText, numberFromTextG, nextNumberToken_minus hdd, h2, List.isEmpty_nil,
        if_true, tokValue]
      congr 2; omega
  · rename_i hpos
    simp only [numberFromText, numberFromTextG, nextNumberToken_showNat, List.isEmpty_nil, if_true, tokValue]
    congr 2
    simp; omega


/-! ### integer literal in context -/

theorem numberToken_int {d : Char} {s ds : List Char} (hd : isDigit d = true) (h : Cont s ds)
    (strict : Bool) (c : Char) (r : List Char) (hc : isDigit c = false) (hu : c ≠ '_')
    (hp : PlainStop (d :: ds) c) :
    numberToken strict (d :: (s ++ c :: r)) = .ok (.int (horner 10 (d :: ds)), c :: r) := by
  rw [numberToken_cont hd h strict (c :: r) (by intro c' r' e; cases e; exact ⟨hc, hu⟩)]
  simp only [finishInt]
  rw [afterInt_plain hp, mkInt_digits (by simp)]
  intro x hx; simp at hx; rcases hx with rfl | hx
  · exact hd
  · exact h.allDigits x hx

/-- `.` not followed by a digit: the integer ends before the dot (end token, infix dot, …) -/
theorem numberToken_int_dot {d : Char} {s ds : List Char} (hd : isDigit d = true) (h : Cont s ds)
    (strict : Bool) (r : List Char) (hr : ∀ c r', r = c :: r' → isDigit c = false) :
    numberToken strict (d :: (s ++ '.' :: r)) = .ok (.int (horner 10 (d :: ds)), '.' :: r) := by
  rw [numberToken_cont hd h strict ('.' :: r) (by intro c' r' e; cases e; exact ⟨by decide, by decide⟩)]
  have hall : ∀ x ∈ d :: ds, isDigit x = true := by
    intro x hx; simp at hx; rcases hx with rfl | hx
    · exact hd
    · exact h.allDigits x hx
  cases r with
  | nil => simp [finishInt, afterInt, mkInt_digits (List.cons_ne_nil d ds) hall]
  | cons c r' =>
    have := hr c r' rfl
    simp [finishInt, afterInt, this, mkInt_digits (List.cons_ne_nil d ds) hall]

/-! ### float tokens -/

theorem decOfToken_frac (ip fp : List Char) (hi : ∀ c ∈ ip, isDigit c = true)
    (hf : ∀ c ∈ fp, isDigit c = true) :
    decOfToken (ip ++ '.' :: fp) = (horner 10 (ip ++ fp), - (fp.length : Int)) := by
  have h1 : spanP isDigit (ip ++ '.' :: fp) = (ip, '.' :: fp) :=
    spanP_append ip _ hi (by intro c r e; cases e; decide)
  have h2 : spanP isDigit fp = (fp, []) := spanP_all fp hf
  simp [decOfToken, h1, h2]

theorem decOfToken_exp (ip fp ex : List Char) (ec : Char) (hec : isDigit ec = false)
    (hi : ∀ c ∈ ip, isDigit c = true) (hf : ∀ c ∈ fp, isDigit c = true) :
    decOfToken (ip ++ '.' :: fp ++ ec :: ex) =
      (horner 10 (ip ++ fp), expOfToken ex - (fp.length : Int)) := by
  have h1 : spanP isDigit (ip ++ '.' :: (fp ++ ec :: ex)) = (ip, '.' :: (fp ++ ec :: ex)) :=
    spanP_append ip _ hi (by intro c r e; cases e; decide)
  have h2 : spanP isDigit (fp ++ ec :: ex) = (fp, ec :: ex) :=
    spanP_append fp _ hf (by intro c r e; cases e; exact hec)
  simp [decOfToken, h1, h2]

/-- `I.F` followed by something that is neither a digit nor an exponent marker -/
theorem numberToken_frac {d : Char} {s ds : List Char} (hd : isDigit d = true) (h : Cont s ds)
    (strict : Bool) (f : Char) (fs : List Char) (hf : isDigit f = true)
    (hfs : ∀ c ∈ fs, isDigit c = true) (c : Char) (r : List Char)
    (hc : isDigit c = false) (he : c ≠ 'e' ∧ c ≠ 'E') :
    numberToken strict (d :: (s ++ '.' :: f :: (fs ++ c :: r))) =
      .ok (.dec (horner 10 (d :: ds ++ f :: fs)) (- ((f :: fs).length : Int)), c :: r) := by
  rw [numberToken_cont hd h strict _ (by intro c' r' e; cases e; exact ⟨by decide, by decide⟩)]
  have hall : ∀ x ∈ d :: ds, isDigit x = true := by
    intro x hx; simp at hx; rcases hx with rfl | hx
    · exact hd
    · exact h.allDigits x hx
  have hsp : spanP isDigit (fs ++ c :: r) = (fs, c :: r) :=
    spanP_append fs _ hfs (by intro c' r' e; cases e; exact hc)
  have hdec := decOfToken_frac (d :: ds) (f :: fs) hall
    (by intro x hx; simp at hx; rcases hx with rfl | hx; exact hf; exact hfs x hx)
  have hce : (c == 'e' || c == 'E') = false := by simp [he.1, he.2]
  simp only [finishInt, afterInt, hf, hsp, if_true, beq_self_eq_true, hce, mkDec, hdec]
  simp

theorem exponentPart_digits (tok : List Char) (ec : Char) (sg : List Char)
    (hsg : sg = [] ∨ sg = ['+'] ∨ sg = ['-'])
    (x : Char) (xs : List Char) (hx : isDigit x = true) (hxs : ∀ c ∈ xs, isDigit c = true)
    (c : Char) (r : List Char) (hc : isDigit c = false) :
    exponentPart tok ec (sg ++ x :: (xs ++ c :: r)) = mkDec (tok ++ ec :: (sg ++ x :: xs)) (c :: r) := by
  have hsp2 : spanP isDigit (x :: (xs ++ c :: r)) = (x :: xs, c :: r) := by
    have := spanP_append (x :: xs) (c :: r)
      (by intro y hy; simp at hy; rcases hy with rfl | hy; exact hx; exact hxs y hy)
      (by intro c' r' e; cases e; exact hc)
    simpa using this
  have hxp : x ≠ '+' ∧ x ≠ '-' := ⟨ne_of_isDigit hx (by decide), ne_of_isDigit hx (by decide)⟩
  rcases hsg with rfl | rfl | rfl
  · simp [exponentPart, hxp.1, hxp.2, hx, hsp2]
  · simp [exponentPart, hx, hsp2]
  · simp [exponentPart, hx, hsp2]

/-- the exponent is read when at least one digit follows the marker and the optional sign -/
theorem numberToken_exp {d : Char} {s ds : List Char} (hd : isDigit d = true) (h : Cont s ds)
    (strict : Bool) (f : Char) (fs : List Char) (hf : isDigit f = true)
    (hfs : ∀ c ∈ fs, isDigit c = true) (ec : Char) (hec : ec = 'e' ∨ ec = 'E')
    (sg : List Char) (hsg : sg = [] ∨ sg = ['+'] ∨ sg = ['-'])
    (x : Char) (xs : List Char) (hx : isDigit x = true) (hxs : ∀ c ∈ xs, isDigit c = true)
    (c : Char) (r : List Char) (hc : isDigit c = false) :
    numberToken strict (d :: (s ++ '.' :: f :: (fs ++ ec :: (sg ++ x :: (xs ++ c :: r))))) =
      .ok (.dec (horner 10 (d :: ds ++ f :: fs))
            (expOfToken (sg ++ x :: xs) - ((f :: fs).length : Int)), c :: r) := by
  rw [numberToken_cont hd h strict _ (by intro c' r' e; cases e; exact ⟨by decide, by decide⟩)]
  have hall : ∀ y ∈ d :: ds, isDigit y = true := by
    intro y hy; simp at hy; rcases hy with rfl | hy
    · exact hd
    · exact h.allDigits y hy
  have hecd : isDigit ec = false := by rcases hec with rfl | rfl <;> decide
  have hsp : spanP isDigit (fs ++ ec :: (sg ++ x :: (xs ++ c :: r))) = (fs, ec :: (sg ++ x :: (xs ++ c :: r))) :=
    spanP_append fs _ hfs (by intro c' r' e; cases e; exact hecd)
  have hff : ∀ y ∈ f :: fs, isDigit y = true := by
    intro y hy; simp at hy; rcases hy with rfl | hy; exact hf; exact hfs y hy
  have hdec := decOfToken_exp (d :: ds) (f :: fs) (sg ++ x :: xs) ec hecd hall hff
  have hece : (ec == 'e' || ec == 'E') = true := by rcases hec with rfl | rfl <;> decide
  simp only [finishInt, afterInt, hf, hsp, if_true, beq_self_eq_true, hece]
  rw [exponentPart_digits _ ec sg hsg x xs hx hxs c r hc]
  have e : (d :: ds ++ '.' :: f :: fs ++ ec :: (sg ++ x :: xs)) = (d :: ds ++ '.' :: (f :: fs) ++ ec :: (sg ++ x :: xs)) := by simp
  simp only [mkDec]
  rw [e, hdec]


/-! ### exponent back-out -/

/-- `I.Fe` not followed by (sign) digit: the token is `I.F`, the reader resumes AT the `e`. -/
theorem exponentPart_backout (tok : List Char) (ec : Char) (r : List Char)
    (h : r = [] ∨ (∃ c r', r = c :: r' ∧ isDigit c = false ∧ c ≠ '+' ∧ c ≠ '-') ∨
         (∃ sg r', r = sg :: r' ∧ (sg = '+' ∨ sg = '-') ∧ ∀ c r'', r' = c :: r'' → isDigit c = false)) :
    exponentPart tok ec r = mkDec tok (ec :: r) := by
  rcases h with rfl | ⟨c, r', rfl, hc, h1, h2⟩ | ⟨sg, r', rfl, hsg, hr⟩
  · simp [exponentPart]
  · simp [exponentPart, hc, h1, h2]
  · cases r' with
    | nil => rcases hsg with rfl | rfl <;> simp [exponentPart]
    | cons c r'' =>
      have := hr c r'' rfl
      rcases hsg with rfl | rfl <;> simp [exponentPart, this]

/-! ### radix literals -/

theorem validIn_16 (c : Char) : validIn 16 c = isHex c := by simp [validIn]
theorem validIn_8 (c : Char) : validIn 8 c = isOct c := by simp [validIn]
theorem validIn_2 (c : Char) : validIn 2 c = isBin c := by simp [validIn]

theorem radixConstant_digits (isDig : Char → Bool) (radix : Nat) (start : Char)
    (hv : ∀ c, validIn radix c = isDig c)
    (x : Char) (xs : List Char) (hx : isDig x = true) (hxs : ∀ c ∈ xs, isDig c = true)
    (rest : List Char) (hr : ∀ c r, rest = c :: r → isDig c = false) :
    radixConstant isDig radix start (x :: (xs ++ rest)) = .ok (.int (horner radix (x :: xs)), rest) := by
  have hall : ∀ y ∈ x :: xs, isDig y = true := by
    intro y hy; simp at hy; rcases hy with rfl | hy; exact hx; exact hxs y hy
  have hsp : spanP isDig (x :: (xs ++ rest)) = (x :: xs, rest) := by
    simpa using spanP_append (x :: xs) rest hall hr
  have hp : parseRadix radix (x :: xs) = .ok (horner radix (x :: xs)) := by
    have h2 : (x :: xs).all (validIn radix) = true := by
      simp only [List.all_eq_true, hv]; exact hall
    simp [parseRadix, h2]
  simp [radixConstant, hx, hsp, hp]

theorem afterInt_zero (c : Char) (r : List Char) (h : c ≠ '.') :
    afterInt ['0'] c r =
      if c == 'x' then radixConstant isHex 16 c r
      else if c == 'o' then radixConstant isOct 8 c r
      else if c == 'b' then radixConstant isBin 2 c r
      else if c == '\'' then quoteConstant r
      else mkInt ['0'] (c :: r) := by
  simp [afterInt, h]

theorem numberToken_zero (strict : Bool) (c : Char) (r : List Char)
    (hc : isDigit c = false) (hu : c ≠ '_') :
    numberToken strict ('0' :: c :: r) = afterInt ['0'] c r := by
  have := numberToken_cont (d := '0') (by decide) Cont.nil strict (c :: r)
    (by intro c' r' e; cases e; exact ⟨hc, hu⟩)
  simpa [finishInt] using this

/-- `0x`, `0o`, `0b` followed by at least one digit of the radix -/
theorem numberToken_radix (strict : Bool) (p : Char) (isDig : Char → Bool) (radix : Nat)
    (hp : (p = 'x' ∧ isDig = isHex ∧ radix = 16) ∨ (p = 'o' ∧ isDig = isOct ∧ radix = 8) ∨
          (p = 'b' ∧ isDig = isBin ∧ radix = 2))
    (x : Char) (xs : List Char) (hx : isDig x = true) (hxs : ∀ c ∈ xs, isDig c = true)
    (rest : List Char) (hr : ∀ c r, rest = c :: r → isDig c = false) :
    numberToken strict ('0' :: p :: x :: (xs ++ rest)) = .ok (.int (horner radix (x :: xs)), rest) := by
  rcases hp with ⟨rfl, rfl, rfl⟩ | ⟨rfl, rfl, rfl⟩ | ⟨rfl, rfl, rfl⟩
  · rw [numberToken_zero strict _ _ (by decide) (by decide), afterInt_zero _ _ (by decide)]
    simp only [beq_self_eq_true, if_true]
    exact radixConstant_digits isHex 16 _ validIn_16 x xs hx hxs rest hr
  · rw [numberToken_zero strict _ _ (by decide) (by decide), afterInt_zero _ _ (by decide)]
    simp only [show ('o' == 'x') = false by decide, beq_self_eq_true, if_true, if_false, Bool.false_eq_true]
    exact radixConstant_digits isOct 8 _ validIn_8 x xs hx hxs rest hr
  · rw [numberToken_zero strict _ _ (by decide) (by decide), afterInt_zero _ _ (by decide)]
    simp only [show ('b' == 'x') = false by decide, show ('b' == 'o') = false by decide,
      beq_self_eq_true, if_true, if_false, Bool.false_eq_true]
    exact radixConstant_digits isBin 2 _ validIn_2 x xs hx hxs rest hr

/-- no digit after the radix letter: the literal is `0` and the letter is not consumed -/
theorem numberToken_radix_fallback (strict : Bool) (p : Char) (c : Char) (r : List Char)
    (hp : (p = 'x' ∧ isHex c = false) ∨ (p = 'o' ∧ isOct c = false) ∨ (p = 'b' ∧ isBin c = false)) :
    numberToken strict ('0' :: p :: c :: r) = .ok (.int 0, p :: c :: r) := by
  rcases hp with ⟨rfl, h⟩ | ⟨rfl, h⟩ | ⟨rfl, h⟩
  · rw [numberToken_zero strict _ _ (by decide) (by decide), afterInt_zero _ _ (by decide)]
    simp [radixConstant, h, mkInt, parseRadix, validIn, isDigit, horner, hornerFrom, digitVal]
  · rw [numberToken_zero strict _ _ (by decide) (by decide), afterInt_zero _ _ (by decide)]
    simp [radixConstant, h, mkInt, parseRadix, validIn, isDigit, horner, hornerFrom, digitVal]
  · rw [numberToken_zero strict _ _ (by decide) (by decide), afterInt_zero _ _ (by decide)]
    simp [radixConstant, h, mkInt, parseRadix, validIn, isDigit, horner, hornerFrom, digitVal]

/-! ### character literals -/

theorem numberToken_quote (strict : Bool) (r : List Char) :
    numberToken strict ('0' :: '\'' :: r) = quoteConstant r := by
  rw [numberToken_zero strict _ _ (by decide) (by decide), afterInt_zero _ _ (by decide)]
  simp

theorem isPlain_ne_backslash {c : Char} (h : isPlainQuotedChar c = true) :
    c ≠ '\\' ∧ c ≠ '\'' ∧ c ≠ '"' ∧ c ≠ '`' := by
  refine ⟨?_, ?_, ?_, ?_⟩ <;> (rintro rfl; revert h; decide)

/-- `0'c` for a character that needs no escape -/
theorem numberToken_char_plain (strict : Bool) (c : Char) (rest : List Char)
    (h : isPlainQuotedChar c = true) :
    numberToken strict ('0' :: '\'' :: c :: rest) = .ok (.int c.toNat, rest) := by
  obtain ⟨h1, h2, h3, h4⟩ := isPlain_ne_backslash h
  rw [numberToken_quote]
  simp [quoteConstant, h1, singleQuotedChar, h2, h3, h4, nonQuoteChar, h]

/-- `0'''` (doubled quote) is the code of the quote; `0'"` and 0'` need no doubling -/
theorem numberToken_char_quotes (strict : Bool) (rest : List Char) :
    numberToken strict ('0' :: '\'' :: '\'' :: '\'' :: rest) = .ok (.int 39, rest) ∧
    numberToken strict ('0' :: '\'' :: '"' :: rest) = .ok (.int 34, rest) ∧
    numberToken strict ('0' :: '\'' :: '`' :: rest) = .ok (.int 96, rest) := by
  refine ⟨?_, ?_, ?_⟩ <;> rw [numberToken_quote] <;> simp [quoteConstant, singleQuotedChar]

/-- `0''` followed by anything but a quote: the literal is `0`, both quotes stay -/
theorem numberToken_char_lone_quote (strict : Bool) (c : Char) (rest : List Char) (h : c ≠ '\'') :
    numberToken strict ('0' :: '\'' :: '\'' :: c :: rest) = .ok (.int 0, '\'' :: '\'' :: c :: rest) := by
  rw [numberToken_quote]
  simp [quoteConstant, singleQuotedChar, h, mkInt, parseRadix, validIn, isDigit, horner, hornerFrom, digitVal]

/-- symbolic escapes -/
theorem numberToken_char_control (strict : Bool) (e : Char) (n : Nat) (rest : List Char)
    (h : controlEscape e = some n) :
    numberToken strict ('0' :: '\'' :: '\\' :: e :: rest) = .ok (.int n, rest) := by
  have he : e = 'a' ∨ e = 'b' ∨ e = 'v' ∨ e = 'f' ∨ e = 't' ∨ e = 'n' ∨ e = 'r' := by
    unfold controlEscape at h
    repeat' split at h
    all_goals simp_all
  rw [numberToken_quote]
  rcases he with rfl | rfl | rfl | rfl | rfl | rfl | rfl <;>
    (simp [controlEscape] at h; subst h
     simp [quoteConstant, singleQuotedChar, nonQuoteChar, isPlainQuotedChar, isWhitespace, isControl,
       isMeta, isOct, controlEscape])

/-- `\\`, `\'`, `\"`, `` \` `` -/
theorem numberToken_char_meta (strict : Bool) (e : Char) (rest : List Char) (h : isMeta e = true) :
    numberToken strict ('0' :: '\'' :: '\\' :: e :: rest) = .ok (.int e.toNat, rest) := by
  have hn : e ≠ '\n' := by rintro rfl; revert h; decide
  have hm : ((e = '\\' ∨ e = '\'') ∨ e = '"') ∨ e = '`' := by simpa [isMeta] using h
  rw [numberToken_quote]
  simp [quoteConstant, hn, singleQuotedChar, nonQuoteChar, isPlainQuotedChar, isWhitespace, isControl,
    isMeta, hm]


/-! ### the grid of doubles -/

theorem V_lt_succ (b : Nat) : V b < V (b + 1) := by
  unfold V
  by_cases h1 : b + 1 < two52
  · have : b < two52 := by omega
    simp [h1, this]
  · by_cases h2 : b < two52
    · have hb : b + 1 = two52 := by omega
      rw [hb]
      simp only [h2, if_true, Nat.lt_irrefl, if_false]
      have : two52 % two52 = 0 := by simp
      have h3 : two52 / two52 = 1 := by decide
      rw [this, h3]; simp; omega
    · simp only [h1, h2, if_false]
      have hE : 1 ≤ b / two52 := by unfold two52 at *; omega
      have hcase : ((b + 1) / two52 = b / two52 ∧ (b + 1) % two52 = b % two52 + 1) ∨
          ((b + 1) / two52 = b / two52 + 1 ∧ (b + 1) % two52 = 0 ∧ b % two52 = two52 - 1) := by
        unfold two52 at *; omega
      have hp : 0 < 2 ^ (b / two52 - 1) := Nat.pow_pos (by decide)
      rcases hcase with ⟨e1, e2⟩ | ⟨e1, e2, e3⟩
      · rw [e1, e2]; nlinarith
      · rw [e1, e2, e3]
        have : 2 ^ (b / two52 + 1 - 1) = 2 * 2 ^ (b / two52 - 1) := by
          have : b / two52 + 1 - 1 = (b / two52 - 1) + 1 := by omega
          rw [this, Nat.pow_succ]; ring
        rw [this]
        have h52 : 0 < two52 := by decide
        have hw : two52 + (two52 - 1) < two52 * 2 := by omega
        have := (Nat.mul_lt_mul_right hp).mpr hw
        calc (two52 + (two52 - 1)) * 2 ^ (b / two52 - 1) < two52 * 2 * 2 ^ (b / two52 - 1) := this
          _ = (two52 + 0) * (2 * 2 ^ (b / two52 - 1)) := by ring

theorem V_mono {a b : Nat} (h : a ≤ b) : V a ≤ V b := by
  induction b with
  | zero => simp at h; subst h; exact Nat.le_refl _
  | succ n ih =>
    rcases Nat.eq_or_lt_of_le h with rfl | hlt
    · exact Nat.le_refl _
    · exact Nat.le_trans (ih (by omega)) (Nat.le_of_lt (V_lt_succ n))

theorem V_strictMono {a b : Nat} (h : a < b) : V a < V b :=
  Nat.lt_of_lt_of_le (V_lt_succ a) (V_mono h)

/-! ### the rounding specification -/

theorem rneOK_iff (n d b : Nat) : rneOK n d b = true ↔
    b ≤ infBits ∧
    (b = 0 ∨ (if b % 2 = 0 then (V (b - 1) + V b) * d ≤ 2 * (n * scale)
              else (V (b - 1) + V b) * d < 2 * (n * scale))) ∧
    (b = infBits ∨ (if b % 2 = 0 then 2 * (n * scale) ≤ (V b + V (b + 1)) * d
                    else 2 * (n * scale) < (V b + V (b + 1)) * d)) := by
  unfold rneOK
  by_cases hp : b % 2 = 0 <;> simp [hp, and_assoc]

/-- a larger (or equal) real number never rounds to a smaller pattern -/
theorem rneOK_mono {n d n' d' b b' : Nat} (hd : 0 < d) (hd' : 0 < d')
    (hxy : n * d' ≤ n' * d) (h : rneOK n d b = true) (h' : rneOK n' d' b' = true) : b ≤ b' := by
  rw [rneOK_iff] at h h'
  obtain ⟨_, hL, _⟩ := h
  obtain ⟨hb', _, hU⟩ := h'
  by_contra hlt
  have hlt : b' < b := by omega
  have hb0 : b ≠ 0 := by omega
  have hbi : b' ≠ infBits := by omega
  have hL := hL.resolve_left hb0
  have hU := hU.resolve_left hbi
  have hS1 : V b' ≤ V (b - 1) := V_mono (by omega)
  have hS2 : V (b' + 1) ≤ V b := V_mono (by omega)
  have hxy2 : 2 * (n * scale) * d' ≤ 2 * (n' * scale) * d := by nlinarith
  generalize 2 * (n * scale) = x at *
  generalize 2 * (n' * scale) = y at *
  by_cases hgap : b' + 1 < b
  · have hS3 : V (b' + 1) < V b := V_strictMono hgap
    have hL' : (V (b - 1) + V b) * d ≤ x := by split at hL <;> omega
    have hU' : y ≤ (V b' + V (b' + 1)) * d' := by split at hU <;> omega
    have h1 : y * d ≤ (V b' + V (b' + 1)) * d' * d := Nat.mul_le_mul_right d hU'
    have h3 : (V (b - 1) + V b) * d * d' ≤ x * d' := Nat.mul_le_mul_right d' hL'
    have h2 : (V b' + V (b' + 1)) * d' * d < (V (b - 1) + V b) * d * d' := by
      have : (V b' + V (b' + 1)) < (V (b - 1) + V b) := by omega
      have hdd : 0 < d' * d := Nat.mul_pos hd' hd
      nlinarith
    omega
  · have hb : b = b' + 1 := by omega
    subst hb
    simp only [Nat.add_sub_cancel] at hL hS1
    by_cases hp : b' % 2 = 0
    · have hp' : ¬ ((b' + 1) % 2 = 0) := by omega
      simp only [hp', if_false] at hL
      simp only [hp, if_true] at hU
      have h1 : y * d ≤ (V b' + V (b' + 1)) * d' * d := Nat.mul_le_mul_right d hU
      have h3 : (V b' + V (b' + 1)) * d * d' < x * d' := by nlinarith
      have h2 : (V b' + V (b' + 1)) * d' * d = (V b' + V (b' + 1)) * d * d' := by ring
      omega
    · simp only [hp, if_false] at hU
      have hL' : (V b' + V (b' + 1)) * d ≤ x := by split at hL <;> omega
      have h1 : y * d < (V b' + V (b' + 1)) * d' * d := by nlinarith
      have h3 : (V b' + V (b' + 1)) * d * d' ≤ x * d' := Nat.mul_le_mul_right d' hL'
      have h2 : (V b' + V (b' + 1)) * d' * d = (V b' + V (b' + 1)) * d * d' := by ring
      omega

/-- the specification determines the pattern -/
theorem rneOK_unique {n d b b' : Nat} (hd : 0 < d) (h : rneOK n d b = true)
    (h' : rneOK n d b' = true) : b = b' :=
  Nat.le_antisymm (rneOK_mono hd hd (Nat.le_refl _) h h') (rneOK_mono hd hd (Nat.le_refl _) h' h)

/-- every representable value (incl. the overflow threshold `2^1024`) rounds to itself -/
theorem rneOK_exact (b : Nat) (hb : b ≤ infBits) : rneOK (V b) scale b = true := by
  rw [rneOK_iff]
  refine ⟨hb, ?_, ?_⟩
  · by_cases h0 : b = 0
    · exact Or.inl h0
    · right
      have : V (b - 1) < V b := V_strictMono (by omega)
      have hs : 0 < scale := Nat.pow_pos (by decide)
      split <;> nlinarith
  · right
    have : V b < V (b + 1) := V_lt_succ b
    have hs : 0 < scale := Nat.pow_pos (by decide)
    split <;> nlinarith


theorem V_normal (s m : Nat) (h1 : two52 ≤ m) (h2 : m ≤ 2 * two52) :
    V (s * two52 + m) = m * 2 ^ s := by
  unfold V
  have hnl : ¬ (s * two52 + m < two52) := by omega
  simp only [hnl, if_false]
  rcases Nat.lt_or_ge m (2 * two52) with hlt | hge
  · have e1 : (s * two52 + m) / two52 = s + 1 := by
      have : s * two52 + m = (s + 1) * two52 + (m - two52) := by
        have : (s + 1) * two52 = s * two52 + two52 := by ring
        omega
      rw [this, Nat.add_comm, Nat.add_mul_div_right _ _ (by decide : 0 < two52)]
      have : (m - two52) / two52 = 0 := Nat.div_eq_of_lt (by omega)
      omega
    have e2 : (s * two52 + m) % two52 = m - two52 := by
      have : s * two52 + m = (m - two52) + (s + 1) * two52 := by
        have : (s + 1) * two52 = s * two52 + two52 := by ring
        omega
      rw [this, Nat.add_mul_mod_self_right]
      exact Nat.mod_eq_of_lt (by omega)
    rw [e1, e2]
    have : two52 + (m - two52) = m := by omega
    rw [this]; simp
  · have hm : m = 2 * two52 := by omega
    subst hm
    have e0 : s * two52 + 2 * two52 = (s + 2) * two52 := by ring
    rw [e0, Nat.mul_div_cancel _ (by decide : 0 < two52), Nat.mul_mod_left]
    have : s + 2 - 1 = s + 1 := by omega
    rw [this, Nat.pow_succ]; ring

theorem floorBits_spec (N : Nat) : V (floorBits N) ≤ N ∧ N < V (floorBits N + 1) := by
  unfold floorBits
  by_cases h : N < two52
  · simp only [h, if_true]
    constructor
    · unfold V; simp [h]
    · have := V_lt_succ N
      have e : V N = N := by unfold V; simp [h]
      omega
  · simp only [h, if_false]
    have hN0 : N ≠ 0 := by unfold two52 at h; omega
    have hlo : 2 ^ N.log2 ≤ N := Nat.log2_self_le hN0
    have hhi : N < 2 ^ (N.log2 + 1) := Nat.lt_log2_self
    have hL : 52 ≤ N.log2 := by
      by_contra hc
      have : N.log2 + 1 ≤ 52 := by omega
      have : 2 ^ (N.log2 + 1) ≤ 2 ^ 52 := Nat.pow_le_pow_right (by decide) this
      have : (2:Nat) ^ 52 = two52 := by decide
      omega
    obtain ⟨s, hs⟩ : ∃ s, N.log2 = s + 52 := ⟨N.log2 - 52, by omega⟩
    have es : N.log2 - 52 = s := by omega
    rw [es]
    have hp : 0 < 2 ^ s := Nat.pow_pos (by decide)
    have e52 : (2:Nat) ^ 52 = two52 := by decide
    have hpow : 2 ^ N.log2 = 2 ^ s * two52 := by rw [hs, Nat.pow_add, e52]
    have hpow1 : 2 ^ (N.log2 + 1) = 2 ^ s * (2 * two52) := by
      rw [Nat.pow_succ, hpow]; ring
    have hm1 : two52 ≤ N / 2 ^ s := by
      rw [Nat.le_div_iff_mul_le hp]; rw [Nat.mul_comm]; omega
    have hm2 : N / 2 ^ s < 2 * two52 := by
      rw [Nat.div_lt_iff_lt_mul hp]; rw [Nat.mul_comm]; omega
    constructor
    · rw [V_normal s _ hm1 (by omega)]
      exact Nat.div_mul_le_self N (2 ^ s)
    · have e : s * two52 + N / 2 ^ s + 1 = s * two52 + (N / 2 ^ s + 1) := by ring
      rw [e, V_normal s _ (by omega) (by omega)]
      have := Nat.lt_succ_iff.mpr (Nat.le_refl (N / 2 ^ s))
      have h3 : N < (N / 2 ^ s + 1) * 2 ^ s := by
        have := Nat.div_add_mod N (2 ^ s)
        have hmod := Nat.mod_lt N hp
        nlinarith
      exact h3

/-- the executable rounding function satisfies the specification -/
theorem rne_sound (n d : Nat) (hd : 0 < d) : rneOK n d (rne n d) = true := by
  have hfl := floorBits_spec (n * scale / d)
  have hdiv1 : n * scale / d * d ≤ n * scale := Nat.div_mul_le_self _ _
  have hdiv2 : n * scale < (n * scale / d + 1) * d := by
    have := Nat.div_add_mod (n * scale) d
    have := Nat.mod_lt (n * scale) hd
    nlinarith
  unfold rne
  simp only []
  generalize hb : floorBits (n * scale / d) = b at *
  generalize hX : n * scale = X at *
  obtain ⟨hf1, hf2⟩ := hfl
  have hlow : V b * d ≤ X := Nat.le_trans (Nat.mul_le_mul_right d hf1) hdiv1
  have hup : X < V (b + 1) * d := by
    have : (X / d + 1) * d ≤ V (b + 1) * d := Nat.mul_le_mul_right d (by omega)
    omega
  have hev : infBits % 2 = 0 := by decide
  have lowerOK : ∀ c, c ≤ b → c ≠ 0 → (V (c - 1) + V c) * d < 2 * X := by
    intro c hc hc0
    have h1 : V (c - 1) < V c := V_strictMono (by omega)
    have h2 : V c ≤ V b := V_mono hc
    nlinarith
  have upperOK : ∀ c, b + 1 ≤ c → 2 * X < (V c + V (c + 1)) * d := by
    intro c hc
    have h1 : V c < V (c + 1) := V_lt_succ c
    have h2 : V (b + 1) ≤ V c := V_mono hc
    nlinarith
  by_cases hinf : b ≥ infBits
  · simp only [hinf, if_true]
    rw [rneOK_iff, hX]
    refine ⟨Nat.le_refl _, Or.inr ?_, Or.inl rfl⟩
    simp only [hev, if_true]
    exact Nat.le_of_lt (lowerOK infBits hinf (by decide))
  · simp only [hinf, if_false]
    have hbi : b < infBits := by omega
    by_cases hlt : 2 * X < (V b + V (b + 1)) * d
    · simp only [hlt, if_true]
      rw [rneOK_iff, hX]
      refine ⟨by omega, ?_, Or.inr ?_⟩
      · by_cases h0 : b = 0
        · exact Or.inl h0
        · right
          have := lowerOK b (Nat.le_refl _) h0
          split
          · exact Nat.le_of_lt this
          · exact this
      · split
        · exact Nat.le_of_lt hlt
        · exact hlt
    · simp only [hlt, if_false]
      by_cases heq : 2 * X = (V b + V (b + 1)) * d
      · simp only [heq, if_true]
        by_cases hp : b % 2 = 0
        · have hp' : (b % 2 == 0) = true := by simp [hp]
          simp only [hp', if_true]
          rw [rneOK_iff, hX]
          refine ⟨by omega, ?_, Or.inr ?_⟩
          · by_cases h0 : b = 0
            · exact Or.inl h0
            · right
              have := lowerOK b (Nat.le_refl _) h0
              simp only [hp, if_true]; exact Nat.le_of_lt this
          · simp only [hp, if_true]; exact Nat.le_of_eq heq
        · have hp' : (b % 2 == 0) = false := by simp [hp]
          simp only [hp', Bool.false_eq_true, if_false]
          have hp2 : (b + 1) % 2 = 0 := by omega
          rw [rneOK_iff, hX]
          refine ⟨by omega, Or.inr ?_, ?_⟩
          · simp only [hp2, if_true, Nat.add_sub_cancel]; exact Nat.le_of_eq heq.symm
          · by_cases hi : b + 1 = infBits
            · exact Or.inl hi
            · right
              have := upperOK (b + 1) (Nat.le_refl _)
              simp only [hp2, if_true]; exact Nat.le_of_lt this
      · simp only [heq, if_false]
        have hgt : (V b + V (b + 1)) * d < 2 * X := by omega
        rw [rneOK_iff, hX]
        refine ⟨by omega, Or.inr ?_, ?_⟩
        · simp only [Nat.add_sub_cancel]
          split
          · exact Nat.le_of_lt hgt
          · exact hgt
        · by_cases hi : b + 1 = infBits
          · exact Or.inl hi
          · right
            have := upperOK (b + 1) (Nat.le_refl _)
            split
            · exact Nat.le_of_lt this
            · exact this

/-- inside the guard window the bits computed for a decimal satisfy the specification -/
theorem decToBits_sound (m : Nat) (e : Int) (hm : m ≠ 0)
    (h1 : ¬ ((numDigits (m + 1) m : Nat) : Int) + e > 310)
    (h2 : ¬ ((numDigits (m + 1) m : Nat) : Int) + e < -330) :
    decRoundsTo m e (decToBits m e) = true := by
  unfold decToBits decRoundsTo
  simp only [hm, if_false, h1, h2]
  split
  · exact rne_sound _ 1 (by decide)
  · exact rne_sound _ _ (Nat.pow_pos (by decide))


theorem scanForLayout_layout_digit (lay : List Char) (hl : ∀ x ∈ lay, isLayout x = true)
    {d : Char} (hd : isDigit d = true) (s : List Char) :
    ∃ b, scanForLayout (lay ++ d :: s) = .ok (b, d :: s) := by
  cases lay with
  | nil => exact ⟨false, by simpa using scanForLayout_digit hd s⟩
  | cons x xs =>
    have := scanL_layout (x :: xs) hl false hd s
    exact ⟨_, by simpa [scanForLayout] using this⟩

theorem nextNumberToken_layout (strict : Bool) (lay : List Char) (hl : ∀ x ∈ lay, isLayout x = true)
    {d : Char} (hd : isDigit d = true) (s : List Char) :
    nextNumberToken strict (lay ++ d :: s) = nextNumberToken strict (d :: s) := by
  obtain ⟨b, hb⟩ := scanForLayout_layout_digit lay hl hd s
  simp [nextNumberToken, hb, scanForLayout_digit hd]

theorem numberFromText_layout (lay : List Char) (hl : ∀ x ∈ lay, isLayout x = true)
    {d : Char} (hd : isDigit d = true) (s : List Char) :
    numberFromText (lay ++ d :: s) = numberFromText (d :: s) := by
  simp only [numberFromText, numberFromTextG, nextNumberToken_layout true lay hl hd]

theorem nextNumberToken_digit {d : Char} (hd : isDigit d = true) (strict : Bool) (s : List Char)
    (t : NumTok) (rest : List Char) (h : numberToken strict (d :: s) = .ok (t, rest)) :
    nextNumberToken strict (d :: s) = .ok (.num (completePartial t), rest) := by
  simp [nextNumberToken, scanForLayout_digit hd, hd, h]

theorem numberFromText_trailing {d : Char} (hd : isDigit d = true) (s : List Char) (t : NumTok)
    (c : Char) (r : List Char) (h : numberToken true (d :: s) = .ok (t, c :: r)) :
    numberFromText (d :: s) = .error (.unexpChar c) := by
  simp [numberFromText, numberFromTextG, nextNumberToken_digit hd _ _ _ _ h]

theorem numberFromText_complete {d : Char} (hd : isDigit d = true) (s : List Char) (t : NumTok)
    (h : numberToken true (d :: s) = .ok (t, [])) :
    numberFromText (d :: s) = tokValue false (completePartial t) := by
  simp [numberFromText, numberFromTextG, nextNumberToken_digit hd _ _ _ _ h]

theorem nextNumberToken_minus_layout (strict : Bool) (lay : List Char)
    (hl : ∀ x ∈ lay, isLayout x = true) {d : Char} (hd : isDigit d = true) (s : List Char) :
    nextNumberToken strict ('-' :: (lay ++ d :: s)) = .ok (.minus, lay ++ d :: s) := by
  have hnext : ∀ c r, lay ++ d :: s = c :: r → isGraphicToken c = false := by
    intro c r e
    cases lay with
    | nil => simp at e; rw [← e.1]; exact isDigit_not_graphicToken hd
    | cons x xs =>
      simp at e; rw [← e.1]
      have hx := hl x (by simp)
      revert hx
      simp only [isLayout, isGraphicToken, isGraphic, Bool.or_eq_true, beq_iff_eq, Bool.or_eq_false_iff,
        beq_eq_false_iff_ne]
      intro hx
      have : ∀ g : Char, g.toNat ≠ 32 → g.toNat ≠ 13 → g.toNat ≠ 10 → g.toNat ≠ 9 → g.toNat ≠ 11 →
          g.toNat ≠ 12 → x ≠ g := by
        rintro g a1 a2 a3 a4 a5 a6 rfl; omega
      repeat' apply And.intro
      all_goals exact this _ (by decide) (by decide) (by decide) (by decide) (by decide) (by decide)
  have hsp : spanP isGraphicToken ('-' :: (lay ++ d :: s)) = (['-'], lay ++ d :: s) :=
    spanP_append ['-'] _ (by simp [isGraphicToken, isGraphic]) hnext
  have hne : (lay ++ d :: s).isEmpty = false := by cases lay <;> simp
  simp [nextNumberToken, scanForLayout_minus, isDigit, hsp, isGraphicToken, isGraphic, hne]

/-- `- layout* literal`: the negated value -/
theorem numberFromText_minus (lay : List Char) (hl : ∀ x ∈ lay, isLayout x = true)
    {d : Char} (hd : isDigit d = true) (s : List Char) (t : NumTok)
    (h : numberToken true (d :: s) = .ok (t, [])) :
    numberFromText ('-' :: (lay ++ d :: s)) = tokValue true (completePartial t) := by
  simp [numberFromText, numberFromTextG, nextNumberToken_minus_layout true lay hl hd,
    nextNumberToken_layout true lay hl hd, nextNumberToken_digit hd _ _ _ _ h]

theorem numberFromText_plus {d : Char} (hd : isDigit d = true) (s : List Char) :
    numberFromText ('+' :: d :: s) = .error .other := by
  have hg := isDigit_not_graphicToken hd
  have hsp : spanP isGraphicToken ('+' :: d :: s) = (['+'], d :: s) :=
    spanP_append ['+'] (d :: s) (by simp [isGraphicToken, isGraphic]) (by intro c r h; cases h; exact hg)
  have hl : scanForLayout ('+' :: d :: s) = .ok (false, '+' :: d :: s) := by
    simp only [scanForLayout]; unfold scanL; simp [isLayout]
  simp [numberFromText, numberFromTextG, nextNumberToken, hl, isDigit, hsp, isGraphicToken, isGraphic]

end Scryer.NumLex
