import ScryerModel.Model.NumLex
/-! helper lemmas for C16 (Scryer.NumLex) -/
namespace Scryer.NumLex

theorem hornerFrom_append (radix acc : Nat) (xs ys : List Char) :
    hornerFrom radix acc (xs ++ ys) = hornerFrom radix (hornerFrom radix acc xs) ys := by
  induction xs generalizing acc with
  | nil => rfl
  | cons c cs ih => simp [hornerFrom, ih]

end Scryer.NumLex
