import ScryerModel.Model.Json
/-! Helper lemmas for the JSON model (C41): characters, digits, number tokens, string escapes,
    the mutual round-trip induction, fuel adequacy and canonical parser output. -/
namespace Scryer.Json

/-! ## characters and digits -/

theorem digitChar_spec : ∀ n, n < 10 → isDigit (digitChar n) = true ∧ digitVal (digitChar n) = n := by
  decide

theorem digitChar_ne_zero : ∀ n, n < 10 → 1 ≤ n → digitChar n ≠ '0' := by decide

theorem hexChar_spec : ∀ n, n < 16 → hexVal (hexChar n) = some n := by decide

theorem escapeOf_some {c p : Char} (h : escapeOf c = some p) :
    unescapeOf p = some c ∧ p ≠ 'u' := by
  unfold escapeOf at h
  repeat' split at h
  all_goals cases h
  all_goals (subst_vars; decide)

theorem escapeOf_none {c : Char} (h : escapeOf c = none) : c ≠ '"' ∧ c ≠ '\\' := by
  unfold escapeOf at h
  repeat' split at h
  all_goals cases h
  exact ⟨by assumption, by assumption⟩

theorem isDigit_not_special {c : Char} (h : isDigit c = true) :
    c ≠ '-' ∧ c ≠ '+' ∧ c ≠ '.' ∧ c ≠ 'e' ∧ c ≠ 'E' ∧ isWs c = false := by
  simp only [isDigit, Bool.and_eq_true, decide_eq_true_eq] at h
  refine ⟨?_, ?_, ?_, ?_, ?_, ?_⟩
  case _ => intro h'; subst h'; revert h; decide
  case _ => intro h'; subst h'; revert h; decide
  case _ => intro h'; subst h'; revert h; decide
  case _ => intro h'; subst h'; revert h; decide
  case _ => intro h'; subst h'; revert h; decide
  case _ =>
    simp only [isWs, Bool.or_eq_false_iff, beq_eq_false_iff_ne, ne_eq]
    refine ⟨⟨⟨?_, ?_⟩, ?_⟩, ?_⟩ <;> (intro h'; subst h'; revert h; decide)

/-! ## decimal digits of a natural number -/

/-- left fold used by `digitsVal`, with an explicit start value -/
def dv (a : Nat) (ds : List Char) : Nat := ds.foldl (fun a c => a * 10 + digitVal c) a

theorem digitsVal_eq (ds : List Char) : digitsVal ds = dv 0 ds := rfl

theorem dv_append (a : Nat) (xs ys : List Char) : dv a (xs ++ ys) = dv (dv a xs) ys := by
  simp [dv, List.foldl_append]

theorem dv_snoc (a : Nat) (xs : List Char) (c : Char) : dv a (xs ++ [c]) = dv a xs * 10 + digitVal c := by
  simp [dv, List.foldl_append]

def allDigits (ds : List Char) : Prop := ∀ c ∈ ds, isDigit c = true

theorem natDigitsF_digits : ∀ f n, n < f → allDigits (natDigitsF f n)
  | 0, _, h => by omega
  | f + 1, n, h => by
    unfold natDigitsF
    split
    · intro c hc
      simp only [List.mem_singleton] at hc
      subst hc
      exact (digitChar_spec n (by assumption)).1
    · intro c hc
      simp only [List.mem_append, List.mem_singleton] at hc
      rcases hc with hc | hc
      · exact natDigitsF_digits f (n / 10) (by omega) c hc
      · subst hc
        exact (digitChar_spec (n % 10) (by omega)).1

theorem natDigitsF_val : ∀ f n, n < f → dv 0 (natDigitsF f n) = n
  | 0, _, h => by omega
  | f + 1, n, h => by
    unfold natDigitsF
    split
    · simp [dv, (digitChar_spec n (by assumption)).2]
    · rw [dv_snoc, natDigitsF_val f (n / 10) (by omega), (digitChar_spec (n % 10) (by omega)).2]
      omega

/-- shape: non-empty; one digit for `n < 10`; no leading zero for `n ≥ 1` -/
theorem natDigitsF_shape : ∀ f n, n < f →
    ∃ c cs, natDigitsF f n = c :: cs ∧ (1 ≤ n → c ≠ '0') ∧ (n < 10 → cs = [])
  | 0, _, h => by omega
  | f + 1, n, h => by
    unfold natDigitsF
    split
    · exact ⟨digitChar n, [], rfl, digitChar_ne_zero n (by assumption), fun _ => rfl⟩
    · obtain ⟨c, cs, hc, h1, _⟩ := natDigitsF_shape f (n / 10) (by omega)
      refine ⟨c, cs ++ [digitChar (n % 10)], by simp [hc], fun _ => h1 (by omega), fun h' => by omega⟩

theorem natDigits_digits (n : Nat) : allDigits (natDigits n) := natDigitsF_digits _ _ (by omega)
theorem natDigits_val (n : Nat) : digitsVal (natDigits n) = n := natDigitsF_val _ _ (by omega)

theorem natDigits_intOk (n : Nat) : intOk (natDigits n) = true := by
  obtain ⟨c, cs, hc, h1, h2⟩ := natDigitsF_shape (n + 1) n (by omega)
  unfold natDigits
  rw [hc]
  cases cs with
  | nil => rfl
  | cons d ds =>
    have : 1 ≤ n := by
      rcases Nat.lt_or_ge n 10 with h | h
      · have := h2 h; cases this
      · omega
    simp [intOk, h1 this]

theorem natDigits_cons (n : Nat) : ∃ c cs, natDigits n = c :: cs ∧ isDigit c = true := by
  obtain ⟨c, cs, hc, _, _⟩ := natDigitsF_shape (n + 1) n (by omega)
  refine ⟨c, cs, hc, ?_⟩
  have := natDigits_digits n c
  unfold natDigits at this
  rw [hc] at this
  exact this (by simp)

/-! ## scanning -/

/-- the text does not continue a run of digits -/
def noDigitHead : List Char → Prop
  | [] => True
  | c :: _ => isDigit c = false

/-- what may follow a number token so that the token ends there -/
def numFollow : List Char → Prop
  | [] => True
  | c :: _ => isDigit c = false ∧ c ≠ '.' ∧ c ≠ 'e' ∧ c ≠ 'E'

theorem numFollow.noDigit {r : List Char} (h : numFollow r) : noDigitHead r := by
  cases r with
  | nil => trivial
  | cons c r => exact h.1

theorem spanDigits_append : ∀ (ds rest : List Char), allDigits ds → noDigitHead rest →
    spanDigits (ds ++ rest) = (ds, rest)
  | [], rest, _, hr => by
    cases rest with
    | nil => rfl
    | cons c r =>
      simp only [noDigitHead] at hr
      simp [spanDigits, hr]
  | d :: ds, rest, hd, hr => by
    have h1 : isDigit d = true := hd d (by simp)
    have h2 : allDigits ds := fun c hc => hd c (by simp [hc])
    simp [spanDigits, h1, spanDigits_append ds rest h2 hr]

theorem parseFrac_follow {r : List Char} (h : numFollow r) : parseFrac r = some (none, r) := by
  cases r with
  | nil => rfl
  | cons c r => simp [parseFrac, h.2.1]

theorem parseExp_follow {r : List Char} (h : numFollow r) : parseExp r = some (0, r) := by
  cases r with
  | nil => rfl
  | cons c r => simp [parseExp, h.2.2.1, h.2.2.2]

theorem optMinus_digits {c : Char} {cs : List Char} (h : isDigit c = true) :
    optMinus (c :: cs) = (false, c :: cs) := by
  simp [optMinus, (isDigit_not_special h).1]

theorem optSign_digits {c : Char} {cs : List Char} (h : isDigit c = true) :
    optSign (c :: cs) = (false, c :: cs) := by
  simp [optSign, (isDigit_not_special h).1, (isDigit_not_special h).2.1]

/-! ## number tokens -/

theorem parseNumber_natDigits (n : Nat) (rest : List Char) (h : numFollow rest) :
    parseNumber (natDigits n ++ rest) = some (.int n, rest) := by
  obtain ⟨c, cs, hc, hd⟩ := natDigits_cons n
  have hs : spanDigits (natDigits n ++ rest) = (natDigits n, rest) :=
    spanDigits_append _ _ (natDigits_digits n) h.noDigit
  unfold parseNumber
  have hm : optMinus (natDigits n ++ rest) = (false, natDigits n ++ rest) := by
    rw [hc]; exact optMinus_digits hd
  simp only [hm, hs, natDigits_intOk, parseFrac_follow h, parseExp_follow h, if_true]
  simp [mkNum, natDigits_val]

theorem parseNumber_neg_natDigits (n : Nat) (rest : List Char) (h : numFollow rest) :
    parseNumber ('-' :: (natDigits n ++ rest)) = some (.int (-(n : Int)), rest) := by
  have hs : spanDigits (natDigits n ++ rest) = (natDigits n, rest) :=
    spanDigits_append _ _ (natDigits_digits n) h.noDigit
  unfold parseNumber
  have hm : optMinus ('-' :: (natDigits n ++ rest)) = (true, natDigits n ++ rest) := by
    simp [optMinus]
  simp only [hm, hs, natDigits_intOk, parseFrac_follow h, parseExp_follow h, if_true]
  simp [mkNum, natDigits_val]

/-- number token round trip for every integer -/
theorem parseNumber_genInt (n : Int) (rest : List Char) (h : numFollow rest) :
    parseNumber (genInt n ++ rest) = some (.int n, rest) := by
  unfold genInt
  split
  · have : n = -((n.natAbs : Nat) : Int) := by omega
    rw [List.cons_append, parseNumber_neg_natDigits _ _ h, ← this]
  · have : n = ((n.toNat : Nat) : Int) := by omega
    rw [parseNumber_natDigits _ _ h, ← this]

/-! ## float tokens (exact decimals) -/

theorem normDec_zero (e : Int) : normDec 0 e = (0, 0) := by
  simp [normDec, normDecF]

theorem normDecF_canon {f m : Nat} {e : Int} (hf : 0 < f) (h0 : m ≠ 0) (h : m % 10 ≠ 0) :
    normDecF f m e = (m, e) := by
  cases f with
  | zero => omega
  | succ f => simp [normDecF, h0, h]

/-- the canonical spelling `m.0e<e>` has mantissa `10·m` and exponent `e-1` -/
theorem normDec_mul10 (m : Nat) (e : Int) (h0 : m ≠ 0) (h : m % 10 ≠ 0) :
    normDec (m * 10) (e - 1) = (m, e) := by
  unfold normDec
  have h1 : m * 10 ≠ 0 := by omega
  have h2 : m * 10 % 10 = 0 := by omega
  have h3 : m * 10 / 10 = m := by omega
  have h4 : e - 1 + 1 = e := by omega
  rw [normDecF, if_neg h1, if_pos h2, h3, h4]
  exact normDecF_canon (by omega) h0 h

theorem parseExp_genInt (e : Int) (rest : List Char) (h : noDigitHead rest) :
    parseExp ('e' :: (genInt e ++ rest)) = some (e, rest) := by
  unfold genInt
  split
  · have hs : spanDigits (natDigits e.natAbs ++ rest) = (natDigits e.natAbs, rest) :=
      spanDigits_append _ _ (natDigits_digits _) h
    obtain ⟨c, cs, hc, _⟩ := natDigits_cons e.natAbs
    have hne : natDigits e.natAbs ≠ [] := by rw [hc]; simp
    simp only [parseExp, List.cons_append, optSign, true_or, if_true, hs, natDigits_val]
    simp [hne]
    omega
  · have hs : spanDigits (natDigits e.toNat ++ rest) = (natDigits e.toNat, rest) :=
      spanDigits_append _ _ (natDigits_digits _) h
    obtain ⟨c, cs, hc, hd⟩ := natDigits_cons e.toNat
    have hne : natDigits e.toNat ≠ [] := by rw [hc]; simp
    have ho : optSign (natDigits e.toNat ++ rest) = (false, natDigits e.toNat ++ rest) := by
      rw [hc]; exact optSign_digits hd
    simp only [parseExp, true_or, if_true, ho, hs, natDigits_val]
    simp [hne]
    omega

theorem parseNumber_dec_aux (neg : Bool) (m : Nat) (e : Int) (rest : List Char)
    (h : noDigitHead rest) :
    parseNumber ((if neg then ['-'] else []) ++ (natDigits m ++ ('.' :: '0' :: 'e' :: genInt e)) ++ rest)
      = some (mkNum neg (natDigits m) (some ['0']) e, rest) := by
  have hs : spanDigits (natDigits m ++ ('.' :: '0' :: 'e' :: (genInt e ++ rest)))
      = (natDigits m, '.' :: '0' :: 'e' :: (genInt e ++ rest)) :=
    spanDigits_append _ _ (natDigits_digits m) (by simp only [noDigitHead]; decide)
  have hz : spanDigits ('0' :: 'e' :: (genInt e ++ rest)) = (['0'], 'e' :: (genInt e ++ rest)) := by
    have : spanDigits (['0'] ++ 'e' :: (genInt e ++ rest)) = (['0'], 'e' :: (genInt e ++ rest)) :=
      spanDigits_append ['0'] _ (by intro c hc; simp at hc; subst hc; decide)
        (by simp only [noDigitHead]; decide)
    simpa using this
  obtain ⟨c, cs, hc, hd⟩ := natDigits_cons m
  have hm : optMinus ((if neg then ['-'] else []) ++ (natDigits m ++ ('.' :: '0' :: 'e' :: genInt e)) ++ rest)
      = (neg, natDigits m ++ ('.' :: '0' :: 'e' :: (genInt e ++ rest))) := by
    cases neg with
    | true => simp [optMinus]
    | false =>
      simp only [Bool.false_eq_true, if_false, List.nil_append, List.append_assoc, List.cons_append]
      rw [hc]
      exact optMinus_digits hd
  unfold parseNumber
  simp only [hm, hs, natDigits_intOk, if_true]
  simp only [parseFrac, if_true, hz]
  simp [parseExp_genInt e rest h]

/-- number token round trip for every canonical decimal -/
theorem parseNumber_genNum (n : Num) (hw : n.wf) (rest : List Char) (h : numFollow rest) :
    parseNumber (genNum n ++ rest) = some (n, rest) := by
  cases n with
  | int n => exact parseNumber_genInt n rest h
  | dec neg m e =>
    rw [genNum, parseNumber_dec_aux neg m e rest h.noDigit]
    simp only [Num.wf] at hw
    have hv : digitsVal (natDigits m ++ ['0']) = m * 10 := by
      rw [digitsVal_eq, dv_snoc, ← digitsVal_eq, natDigits_val]; rfl
    simp only [mkNum, hv, List.length_singleton]
    by_cases h0 : m = 0
    · obtain ⟨he, hn⟩ := hw.1 h0
      subst h0 he hn
      simp [normDec_zero]
    · have := normDec_mul10 m e h0 (hw.2 h0)
      simp only [Int.natCast_one] at *
      rw [this]
      simp [h0]

/-! ## strings -/

theorem hex4_low (n : Nat) (h : n < 256) :
    hex4 '0' '0' (hexChar (n / 16)) (hexChar (n % 16)) = some n := by
  have h1 := hexChar_spec (n / 16) (by omega)
  have h2 := hexChar_spec (n % 16) (by omega)
  have h0 : hexVal '0' = some 0 := by decide
  simp only [hex4, h0, h1, h2]
  congr 1
  omega

/-- prepend a character to a successful `parseChars` result -/
def consRes (c : Char) : Option (List Char × List Char) → Option (List Char × List Char)
  | some (cs, rest) => some (c :: cs, rest)
  | none => none

theorem parseChars_quote (r : List Char) : parseChars ('"' :: r) = some ([], r) := by
  rw [parseChars.eq_def]; simp

theorem parseChars_cons_raw {c : Char} {r : List Char} (h1 : c ≠ '"') (h2 : c ≠ '\\')
    (h3 : ¬ c.toNat < 32) :
    parseChars (c :: r) = consRes c (parseChars r) := by
  rw [parseChars.eq_def]
  simp only [h1, h2, h3, if_false]
  cases parseChars r with
  | none => rfl
  | some p => rfl

theorem parseChars_cons_esc {p e : Char} {r : List Char} (h1 : p ≠ 'u') (h2 : unescapeOf p = some e) :
    parseChars ('\\' :: p :: r) = consRes e (parseChars r) := by
  rw [parseChars.eq_def]
  simp only [h1, h2, if_false]
  cases parseChars r with
  | none => simp [consRes]
  | some p => simp [consRes]

theorem parseChars_cons_u {a b c d : Char} {r : List Char} {n : Nat} (h : hex4 a b c d = some n)
    (hl : isLowSurr n = false) (hh : isHighSurr n = false) :
    parseChars ('\\' :: 'u' :: a :: b :: c :: d :: r) = consRes (Char.ofNat n) (parseChars r) := by
  rw [parseChars.eq_def]
  simp only [h, hl, hh]
  cases parseChars r with
  | none => simp [consRes]
  | some p => simp [consRes]

/-- one generated character is read back as that character -/
theorem parseChars_genChar (c : Char) (r : List Char) :
    parseChars (genChar c ++ r) = consRes c (parseChars r) := by
  unfold genChar
  split
  · rename_i p hp
    obtain ⟨h1, h2⟩ := escapeOf_some hp
    exact parseChars_cons_esc h2 h1
  · rename_i hp
    obtain ⟨h1, h2⟩ := escapeOf_none hp
    split
    · rename_i hlt
      have hx := hex4_low c.toNat (by omega)
      have hl : isLowSurr c.toNat = false := by simp [isLowSurr]; omega
      have hh : isHighSurr c.toNat = false := by simp [isHighSurr]; omega
      have := @parseChars_cons_u '0' '0' (hexChar (c.toNat / 16)) (hexChar (c.toNat % 16)) r _ hx hl hh
      simpa using this
    · rename_i hge
      exact parseChars_cons_raw h1 h2 hge

/-- string escape round trip for every list of characters -/
theorem parseChars_genChars : ∀ (s rest : List Char),
    parseChars (genChars s ++ '"' :: rest) = some (s, rest)
  | [], rest => by simp [genChars, parseChars_quote]
  | c :: cs, rest => by
    rw [genChars, List.append_assoc, parseChars_genChar, parseChars_genChars cs rest]
    rfl

/-! ## values: step lemmas for `parseValue` -/

/-- wrap the first component of a successful sub-parse -/
def mapRes {α β : Type} (g : α → β) : Option (α × List Char) → Option (β × List Char)
  | some (a, rest) => some (g a, rest)
  | none => none

theorem skipWs_nonws {c : Char} {t : List Char} (h : isWs c = false) : skipWs (c :: t) = c :: t := by
  simp [skipWs, h]

theorem parseValue_arr_nil (f : Nat) (r : List Char) :
    parseValue (f + 1) ('[' :: ']' :: r) = some (.arr .nil, r) := by
  rw [parseValue.eq_def]
  simp [skipWs, isWs]

theorem parseValue_obj_nil (f : Nat) (r : List Char) :
    parseValue (f + 1) ('{' :: '}' :: r) = some (.obj .nil, r) := by
  rw [parseValue.eq_def]
  simp [skipWs, isWs]

theorem parseValue_arr_cons (f : Nat) (d : Char) (r : List Char) (hd : isWs d = false) (h2 : d ≠ ']') :
    parseValue (f + 1) ('[' :: d :: r) = mapRes J.arr (parseElems f (d :: r)) := by
  rw [parseValue.eq_def]
  simp [skipWs, hd, h2]
  cases parseElems f (d :: r) <;> rfl

theorem parseValue_obj_cons (f : Nat) (d : Char) (r : List Char) (hd : isWs d = false) (h2 : d ≠ '}') :
    parseValue (f + 1) ('{' :: d :: r) = mapRes J.obj (parseMembers f (d :: r)) := by
  rw [parseValue.eq_def]
  simp [skipWs, hd, h2]
  cases parseMembers f (d :: r) <;> rfl

theorem parseValue_str (f : Nat) (r : List Char) :
    parseValue (f + 1) ('"' :: r) = mapRes J.str (parseChars r) := by
  rw [parseValue.eq_def]
  simp
  cases parseChars r <;> rfl

theorem parseValue_null (f : Nat) (r : List Char) :
    parseValue (f + 1) ('n' :: 'u' :: 'l' :: 'l' :: r) = some (.null, r) := by
  rw [parseValue.eq_def]
  simp [stripPrefix]

theorem parseValue_true (f : Nat) (r : List Char) :
    parseValue (f + 1) ('t' :: 'r' :: 'u' :: 'e' :: r) = some (.bool true, r) := by
  rw [parseValue.eq_def]
  simp [stripPrefix]

theorem parseValue_false (f : Nat) (r : List Char) :
    parseValue (f + 1) ('f' :: 'a' :: 'l' :: 's' :: 'e' :: r) = some (.bool false, r) := by
  rw [parseValue.eq_def]
  simp [stripPrefix]

/-- first character of a number token -/
def numStart (c : Char) : Prop := c = '-' ∨ isDigit c = true

theorem numStart_ne {c : Char} (h : numStart c) :
    c ≠ '{' ∧ c ≠ '[' ∧ c ≠ '"' ∧ c ≠ 't' ∧ c ≠ 'f' ∧ c ≠ 'n' ∧ isWs c = false ∧ c ≠ ']' ∧ c ≠ '}' ∧ c ≠ ',' := by
  rcases h with h | h
  · subst h; decide
  · simp only [isDigit, Bool.and_eq_true, decide_eq_true_eq] at h
    refine ⟨?_, ?_, ?_, ?_, ?_, ?_, ?_, ?_, ?_, ?_⟩
    case _ => intro h'; subst h'; revert h; decide
    case _ => intro h'; subst h'; revert h; decide
    case _ => intro h'; subst h'; revert h; decide
    case _ => intro h'; subst h'; revert h; decide
    case _ => intro h'; subst h'; revert h; decide
    case _ => intro h'; subst h'; revert h; decide
    case _ =>
      simp only [isWs, Bool.or_eq_false_iff, beq_eq_false_iff_ne, ne_eq]
      refine ⟨⟨⟨?_, ?_⟩, ?_⟩, ?_⟩ <;> (intro h'; subst h'; revert h; decide)
    case _ => intro h'; subst h'; revert h; decide
    case _ => intro h'; subst h'; revert h; decide
    case _ => intro h'; subst h'; revert h; decide

theorem parseValue_num (f : Nat) (c : Char) (r : List Char) (h : numStart c) :
    parseValue (f + 1) (c :: r) = mapRes J.num (parseNumber (c :: r)) := by
  obtain ⟨h1, h2, h3, h4, h5, h6, _⟩ := numStart_ne h
  rw [parseValue.eq_def]
  simp [h1, h2, h3, h4, h5, h6]
  cases parseNumber (c :: r) <;> rfl

theorem parseElems_last {f : Nat} {s r r1 : List Char} {v : J} (h : parseValue f s = some (v, r))
    (hr : skipWs r = ']' :: r1) : parseElems (f + 1) s = some (.cons v .nil, r1) := by
  rw [parseElems.eq_def]
  simp [h, hr]

theorem parseElems_more {f : Nat} {s r r1 : List Char} {v : J} (h : parseValue f s = some (v, r))
    (hr : skipWs r = ',' :: r1) :
    parseElems (f + 1) s = mapRes (JL.cons v) (parseElems f (skipWs r1)) := by
  rw [parseElems.eq_def]
  simp [h, hr]
  cases parseElems f (skipWs r1) <;> rfl

theorem parseMembers_last {f : Nat} {s r r1 r2 r3 k : List Char} {v : J}
    (hk : parseChars s = some (k, r)) (hc : skipWs r = ':' :: r1)
    (hv : parseValue f (skipWs r1) = some (v, r2)) (hr : skipWs r2 = '}' :: r3) :
    parseMembers (f + 1) ('"' :: s) = some (.cons k v .nil, r3) := by
  rw [parseMembers.eq_def]
  simp [hk, hc, hv, hr]

theorem parseMembers_more {f : Nat} {s r r1 r2 r3 k : List Char} {v : J}
    (hk : parseChars s = some (k, r)) (hc : skipWs r = ':' :: r1)
    (hv : parseValue f (skipWs r1) = some (v, r2)) (hr : skipWs r2 = ',' :: r3) :
    parseMembers (f + 1) ('"' :: s) = mapRes (JM.cons k v) (parseMembers f (skipWs r3)) := by
  rw [parseMembers.eq_def]
  simp [hk, hc, hv, hr]
  cases parseMembers f (skipWs r3) <;> rfl

/-! ## the round trip -/

mutual
  /-- fuel `parseValue` needs for `gen v` -/
  def need : J → Nat
    | .arr xs => needL xs + 1
    | .obj ms => needM ms + 1
    | _ => 1
  def needL : JL → Nat
    | .nil => 0
    | .cons x xs => max (need x) (needL xs) + 1
  def needM : JM → Nat
    | .nil => 0
    | .cons _ v ms => max (need v) (needM ms) + 1
end

/-- a character that can start a value: not white space, not a closing bracket, not a comma -/
def startOk (c : Char) : Prop := isWs c = false ∧ c ≠ ']' ∧ c ≠ '}' ∧ c ≠ ','

theorem genNum_head (n : Num) : ∃ c t, genNum n = c :: t ∧ numStart c := by
  cases n with
  | int n =>
    simp only [genNum, genInt]
    split
    · exact ⟨'-', _, rfl, Or.inl rfl⟩
    · obtain ⟨c, cs, hc, hd⟩ := natDigits_cons n.toNat
      exact ⟨c, cs, hc, Or.inr hd⟩
  | dec neg m e =>
    cases neg with
    | true => exact ⟨'-', _, rfl, Or.inl rfl⟩
    | false =>
      obtain ⟨c, cs, hc, hd⟩ := natDigits_cons m
      refine ⟨c, cs ++ ('.' :: '0' :: 'e' :: genInt e), ?_, Or.inr hd⟩
      simp [genNum, hc]

theorem startOk_of_dec {c : Char} (h : (isWs c = false ∧ c ≠ ']' ∧ c ≠ '}' ∧ c ≠ ',')) : startOk c := h

theorem gen_head (v : J) : ∃ c t, gen v = c :: t ∧ startOk c := by
  cases v with
  | null => exact ⟨'n', ['u', 'l', 'l'], rfl, startOk_of_dec (by decide)⟩
  | bool b => cases b <;> simp only [gen] <;> exact ⟨_, _, rfl, startOk_of_dec (by decide)⟩
  | num n =>
    obtain ⟨c, t, hc, hs⟩ := genNum_head n
    have := numStart_ne hs
    exact ⟨c, t, by simp [gen, hc], this.2.2.2.2.2.2.1, this.2.2.2.2.2.2.2.1, this.2.2.2.2.2.2.2.2.1, this.2.2.2.2.2.2.2.2.2⟩
  | str s => exact ⟨'"', genChars s ++ ['"'], rfl, startOk_of_dec (by decide)⟩
  | arr xs => exact ⟨'[', genL xs, by simp [gen], startOk_of_dec (by decide)⟩
  | obj ms => exact ⟨'{', genM ms, by simp [gen], startOk_of_dec (by decide)⟩

/-- what follows an element inside `genL` / `genM`, or the end of the text -/
def closeFollow : List Char → Prop
  | [] => True
  | c :: _ => c = ',' ∨ c = ']' ∨ c = '}'

theorem closeFollow.num {r : List Char} (h : closeFollow r) : numFollow r := by
  cases r with
  | nil => trivial
  | cons c r => rcases h with h | h | h <;> subst h <;> (simp only [numFollow]; decide)

theorem skipWs_gen (v : J) (r : List Char) : skipWs (gen v ++ r) = gen v ++ r := by
  obtain ⟨c, t, hc, hs⟩ := gen_head v
  rw [hc, List.cons_append]
  exact skipWs_nonws hs.1

theorem need_pos (v : J) : 1 ≤ need v := by
  cases v <;> simp [need]

mutual
  theorem rtV : ∀ (v : J), v.wf → ∀ (f : Nat) (rest : List Char), need v ≤ f → closeFollow rest →
      parseValue f (gen v ++ rest) = some (v, rest)
    | .null, _, f, rest, hf, _ => by
      cases f with
      | zero => simp [need] at hf
      | succ f => exact parseValue_null f rest
    | .bool true, _, f, rest, hf, _ => by
      cases f with
      | zero => simp [need] at hf
      | succ f => exact parseValue_true f rest
    | .bool false, _, f, rest, hf, _ => by
      cases f with
      | zero => simp [need] at hf
      | succ f => exact parseValue_false f rest
    | .num n, hw, f, rest, hf, hr => by
      cases f with
      | zero => simp [need] at hf
      | succ f =>
        obtain ⟨c, t, hc, hs⟩ := genNum_head n
        have h1 : gen (.num n) ++ rest = c :: (t ++ rest) := by simp [gen, hc]
        rw [h1, parseValue_num f c _ hs, ← h1]
        simp only [gen]
        rw [parseNumber_genNum n hw rest hr.num]
        rfl
    | .str s, _, f, rest, hf, _ => by
      cases f with
      | zero => simp [need] at hf
      | succ f =>
        have h1 : gen (.str s) ++ rest = '"' :: (genChars s ++ '"' :: rest) := by
          simp [gen, genString]
        rw [h1, parseValue_str, parseChars_genChars]
        rfl
    | .arr xs, hw, f, rest, hf, _ => by
      cases f with
      | zero => simp [need] at hf
      | succ f =>
        have hf' : needL xs ≤ f := by simp [need] at hf; omega
        have ih := rtL xs hw f rest hf'
        cases xs with
        | nil => exact parseValue_arr_nil f rest
        | cons y ys =>
          obtain ⟨c, t, hc, hs⟩ := gen_head y
          have h1 : gen (.arr (.cons y ys)) ++ rest = '[' :: (genL (.cons y ys) ++ rest) := by
            simp [gen]
          have h2 : genL (.cons y ys) ++ rest = c :: (t ++ (sepL ys ++ genL ys) ++ rest) := by
            simp [genL, hc]
          rw [h1, h2, parseValue_arr_cons f c _ hs.1 hs.2.1, ← h2]
          simp only at ih
          rw [ih]
          rfl
    | .obj ms, hw, f, rest, hf, _ => by
      cases f with
      | zero => simp [need] at hf
      | succ f =>
        have hf' : needM ms ≤ f := by simp [need] at hf; omega
        have ih := rtM ms hw f rest hf'
        cases ms with
        | nil => exact parseValue_obj_nil f rest
        | cons k v ms =>
          have h1 : gen (.obj (.cons k v ms)) ++ rest = '{' :: (genM (.cons k v ms) ++ rest) := by
            simp [gen]
          have h2 : genM (.cons k v ms) ++ rest
              = '"' :: (genChars k ++ '"' :: ':' :: (gen v ++ (sepM ms ++ genM ms)) ++ rest) := by
            simp [genM, genString]
          rw [h1, h2, parseValue_obj_cons f '"' _ (by decide) (by decide), ← h2]
          simp only at ih
          rw [ih]
          rfl
  theorem rtL : ∀ (l : JL), l.wf → ∀ (f : Nat) (rest : List Char), needL l ≤ f →
      (match l with
       | .nil => True
       | .cons _ _ => parseElems f (genL l ++ rest) = some (l, rest))
    | .nil, _, _, _, _ => trivial
    | .cons x xs, hw, f, rest, hf => by
      cases f with
      | zero => simp [needL] at hf
      | succ f =>
        have hfx : need x ≤ f := by simp [needL] at hf; omega
        have hfl : needL xs ≤ f := by simp [needL] at hf; omega
        have ih := rtL xs hw.2 f rest hfl
        have hx := rtV x hw.1 f
        show parseElems (f + 1) (genL (.cons x xs) ++ rest) = some (.cons x xs, rest)
        cases xs with
        | nil =>
          have h1 : genL (.cons x .nil) ++ rest = gen x ++ (']' :: rest) := by simp [genL, sepL]
          rw [h1]
          exact parseElems_last (hx (']' :: rest) hfx (Or.inr (Or.inl rfl))) (skipWs_nonws (by decide))
        | cons y ys =>
          have h1 : genL (.cons x (.cons y ys)) ++ rest = gen x ++ (',' :: (genL (.cons y ys) ++ rest)) := by
            simp [genL, sepL]
          rw [h1, parseElems_more (hx (',' :: (genL (.cons y ys) ++ rest)) hfx (Or.inl rfl))
            (skipWs_nonws (by decide))]
          have h2 : skipWs (genL (.cons y ys) ++ rest) = genL (.cons y ys) ++ rest := by
            have : genL (.cons y ys) ++ rest = gen y ++ ((sepL ys ++ genL ys) ++ rest) := by simp [genL]
            rw [this]; exact skipWs_gen y _
          simp only at ih
          rw [h2, ih]
          rfl
  theorem rtM : ∀ (l : JM), l.wf → ∀ (f : Nat) (rest : List Char), needM l ≤ f →
      (match l with
       | .nil => True
       | .cons _ _ _ => parseMembers f (genM l ++ rest) = some (l, rest))
    | .nil, _, _, _, _ => trivial
    | .cons k v ms, hw, f, rest, hf => by
      cases f with
      | zero => simp [needM] at hf
      | succ f =>
        have hfx : need v ≤ f := by simp [needM] at hf; omega
        have hfl : needM ms ≤ f := by simp [needM] at hf; omega
        have ih := rtM ms hw.2 f rest hfl
        have hx := rtV v hw.1 f
        show parseMembers (f + 1) (genM (.cons k v ms) ++ rest) = some (.cons k v ms, rest)
        cases ms with
        | nil =>
          have h1 : genM (.cons k v .nil) ++ rest
              = '"' :: (genChars k ++ '"' :: (':' :: (gen v ++ ('}' :: rest)))) := by
            simp [genM, sepM, genString]
          rw [h1]
          exact parseMembers_last (parseChars_genChars k _) (skipWs_nonws (by decide))
            (by rw [skipWs_gen]; exact hx ('}' :: rest) hfx (Or.inr (Or.inr rfl)))
            (skipWs_nonws (by decide))
        | cons k' v' ms' =>
          have h1 : genM (.cons k v (.cons k' v' ms')) ++ rest
              = '"' :: (genChars k ++ '"' :: (':' :: (gen v ++ (',' :: (genM (.cons k' v' ms') ++ rest))))) := by
            simp [genM, sepM, genString]
          rw [h1, parseMembers_more (parseChars_genChars k _) (skipWs_nonws (by decide))
            (by rw [skipWs_gen]; exact hx (',' :: (genM (.cons k' v' ms') ++ rest)) hfx (Or.inl rfl))
            (skipWs_nonws (by decide))]
          have h2 : skipWs (genM (.cons k' v' ms') ++ rest) = genM (.cons k' v' ms') ++ rest := by
            have : genM (.cons k' v' ms') ++ rest
                = '"' :: (genChars k' ++ '"' :: ':' :: (gen v' ++ (sepM ms' ++ genM ms')) ++ rest) := by
              simp [genM, genString]
            rw [this]; exact skipWs_nonws (by decide)
          simp only at ih
          rw [h2, ih]
          rfl
end



mutual
  theorem need_le_len : ∀ (v : J), need v ≤ (gen v).length
    | .null => by simp [need, gen]
    | .bool true => by simp [need, gen]
    | .bool false => by simp [need, gen]
    | .num n => by
      obtain ⟨c, t, hc, _⟩ := genNum_head n
      simp [need, gen, hc]
    | .str s => by simp [need, gen, genString]
    | .arr xs => by
      have := needL_le_len xs
      simp [need, gen]; omega
    | .obj ms => by
      have := needM_le_len ms
      simp [need, gen]; omega
  theorem needL_le_len : ∀ (l : JL), needL l ≤ (genL l).length ∧ 1 ≤ (genL l).length
    | .nil => by simp [needL, genL]
    | .cons x xs => by
      have h1 := need_le_len x
      have h2 := needL_le_len xs
      have h3 := need_pos x
      simp [needL, genL]; omega
  theorem needM_le_len : ∀ (l : JM), needM l ≤ (genM l).length ∧ 1 ≤ (genM l).length
    | .nil => by simp [needM, genM]
    | .cons k v ms => by
      have h1 := need_le_len v
      have h2 := needM_le_len ms
      have h3 := need_pos v
      simp [needM, genM, genString]; omega
end

theorem parseWith_gen (v : J) (hw : v.wf) (f : Nat) (hf : need v ≤ f) : parseWith f (gen v) = some v := by
  have h := rtV v hw f [] hf trivial
  rw [List.append_nil] at h
  have hs := skipWs_gen v []
  rw [List.append_nil] at hs
  simp [parseWith, hs, h, skipWs]

theorem parse_gen (v : J) (hw : v.wf) : parse (gen v) = some v :=
  parseWith_gen v hw _ (by have := need_le_len v; omega)



theorem toNat_ofNat_valid (n : Nat) (h : n.isValidChar) : (Char.ofNat n).toNat = n := by
  unfold Char.ofNat
  rw [dif_pos h]
  simp [Char.ofNatAux, Char.toNat]

theorem surrPair_range {hi lo : Nat} (h1 : isHighSurr hi = true) (h2 : isLowSurr lo = true) :
    0x10000 ≤ surrPair hi lo ∧ surrPair hi lo ≤ 0x10FFFF := by
  simp [isHighSurr, isLowSurr] at h1 h2
  unfold surrPair
  omega

theorem surrPair_toNat {hi lo : Nat} (h1 : isHighSurr hi = true) (h2 : isLowSurr lo = true) :
    (Char.ofNat (surrPair hi lo)).toNat = surrPair hi lo := by
  have := surrPair_range h1 h2
  apply toNat_ofNat_valid
  simp [Nat.isValidChar]
  omega

theorem parseChars_pair {a b c d a' b' c' d' : Char} {r : List Char} {hi lo : Nat}
    (h1 : hex4 a b c d = some hi) (hh : isHighSurr hi = true)
    (h2 : hex4 a' b' c' d' = some lo) (hl : isLowSurr lo = true) :
    parseChars ('\\' :: 'u' :: a :: b :: c :: d :: '\\' :: 'u' :: a' :: b' :: c' :: d' :: r)
      = consRes (Char.ofNat (surrPair hi lo)) (parseChars r) := by
  have hnl : isLowSurr hi = false := by
    simp [isHighSurr, isLowSurr] at hh ⊢; omega
  rw [parseChars.eq_def]
  simp only [h1, hnl, hh, h2, hl]
  simp
  cases parseChars r <;> rfl

theorem parseChars_lone_low {a b c d : Char} {r : List Char} {n : Nat}
    (h1 : hex4 a b c d = some n) (hl : isLowSurr n = true) :
    parseChars ('\\' :: 'u' :: a :: b :: c :: d :: r) = none := by
  rw [parseChars.eq_def]
  simp [h1, hl]

theorem parseChars_lone_high {a b c d : Char} {r : List Char} {n : Nat}
    (h1 : hex4 a b c d = some n) (hh : isHighSurr n = true)
    (hr : ∀ a' b' c' d' r' lo, r = '\\' :: 'u' :: a' :: b' :: c' :: d' :: r' →
      hex4 a' b' c' d' = some lo → isLowSurr lo = false) :
    parseChars ('\\' :: 'u' :: a :: b :: c :: d :: r) = none := by
  have hnl : isLowSurr n = false := by
    simp [isHighSurr, isLowSurr] at hh ⊢; omega
  rw [parseChars.eq_def]
  simp only [h1, hnl, hh]
  simp
  split
  · rename_i b1 u1 a' b' c' d' r3
    split
    · rename_i hbu
      obtain ⟨hb, hu⟩ := hbu
      subst hb hu
      split
      · rfl
      · rename_i lo hlo
        have := hr a' b' c' d' r3 lo rfl hlo
        simp [this]
    · rfl
  · rfl


/-! ## how much text a parser consumes -/


theorem skipWs_len : ∀ (s : List Char), (skipWs s).length ≤ s.length
  | [] => by simp [skipWs]
  | c :: r => by
    have := skipWs_len r
    simp only [skipWs]; split <;> simp <;> omega

theorem spanDigits_len : ∀ (s : List Char), (spanDigits s).2.length ≤ s.length
  | [] => by simp [spanDigits]
  | c :: r => by
    have := spanDigits_len r
    simp only [spanDigits]; split <;> simp <;> omega

theorem stripPrefix_len : ∀ (p s r : List Char), stripPrefix p s = some r → r.length ≤ s.length
  | [], s, r, h => by simp [stripPrefix] at h; subst h; omega
  | _ :: _, [], r, h => by simp [stripPrefix] at h
  | p :: ps, c :: s, r, h => by
    simp only [stripPrefix] at h
    split at h
    · have := stripPrefix_len ps s r h; simp; omega
    · cases h

theorem parseChars_len (s : List Char) : ∀ cs r, parseChars s = some (cs, r) → r.length < s.length := by
  fun_induction parseChars s <;> intro cs r h <;> simp_all <;> omega

theorem optMinus_len (s : List Char) : (optMinus s).2.length ≤ s.length := by
  cases s with
  | nil => simp [optMinus]
  | cons c r => simp only [optMinus]; split <;> simp

theorem optSign_len (s : List Char) : (optSign s).2.length ≤ s.length := by
  cases s with
  | nil => simp [optSign]
  | cons c r => simp only [optSign]; split <;> (try split) <;> simp

theorem parseFrac_len {s r : List Char} {fr : Option (List Char)} (h : parseFrac s = some (fr, r)) :
    r.length ≤ s.length := by
  cases s with
  | nil => simp [parseFrac] at h; simp [h.2]
  | cons c t =>
    simp only [parseFrac] at h
    have := spanDigits_len t
    split at h
    · split at h
      · cases h
      · simp at h; rw [← h.2]; simp; omega
    · simp at h; rw [← h.2]; simp

theorem parseExp_len {s r : List Char} {e : Int} (h : parseExp s = some (e, r)) :
    r.length ≤ s.length := by
  cases s with
  | nil => simp [parseExp] at h; simp [h.2]
  | cons c t =>
    simp only [parseExp] at h
    have h1 := optSign_len t
    have h2 := spanDigits_len (optSign t).2
    split at h
    · split at h
      · cases h
      · simp at h; rw [← h.2]; simp; omega
    · simp at h; rw [← h.2]; simp

theorem parseNumber_len {s r : List Char} {n : Num} (h : parseNumber s = some (n, r)) :
    r.length ≤ s.length := by
  simp only [parseNumber] at h
  have h1 := optMinus_len s
  have h2 := spanDigits_len (optMinus s).2
  split at h
  · split at h
    · cases h
    · rename_i frac s3 hfr
      have h3 := parseFrac_len hfr
      split at h
      · cases h
      · rename_i ex s4 hex
        have h4 := parseExp_len hex
        simp at h
        rw [← h.2]; omega
  · cases h

theorem len_of_skipWs {t r1 : List Char} {d : Char} (h : skipWs t = d :: r1) : r1.length < t.length := by
  have := skipWs_len t
  rw [h] at this
  simp at this
  omega

mutual
  theorem parseValue_len : ∀ (f : Nat) (s : List Char) (v : J) (r : List Char),
      parseValue f s = some (v, r) → r.length ≤ s.length
    | 0, s, v, r, h => by simp [parseValue] at h
    | f + 1, [], v, r, h => by simp [parseValue] at h
    | f + 1, c :: t, v, r, h => by
      rw [parseValue.eq_def] at h
      simp only at h
      repeat' split at h
      all_goals first | cases h | skip
      all_goals simp only [List.length_cons]
      all_goals first
        | (have h2 := parseMembers_len f _ _ _ ‹parseMembers f _ = _›
           have h1 := len_of_skipWs ‹skipWs t = _›
           simp only [List.length_cons] at h2; omega)
        | (have h2 := parseElems_len f _ _ _ ‹parseElems f _ = _›
           have h1 := len_of_skipWs ‹skipWs t = _›
           simp only [List.length_cons] at h2; omega)
        | (have h1 := len_of_skipWs ‹skipWs t = _›; omega)
        | (have h1 := parseChars_len _ _ _ ‹parseChars t = _›; omega)
        | (have h1 := stripPrefix_len _ _ _ ‹stripPrefix _ t = _›; omega)
        | (have h1 := parseNumber_len ‹parseNumber _ = _›
           simp only [List.length_cons] at h1; omega)
  theorem parseElems_len : ∀ (f : Nat) (s : List Char) (l : JL) (r : List Char),
      parseElems f s = some (l, r) → r.length ≤ s.length
    | 0, s, v, r, h => by simp [parseElems] at h
    | f + 1, s, l, r, h => by
      rw [parseElems.eq_def] at h
      simp only at h
      repeat' split at h
      all_goals first | cases h | skip
      all_goals first
        | (have h3 := parseElems_len f _ _ _ ‹parseElems f _ = _›
           have h2 := parseValue_len f _ _ _ ‹parseValue f _ = _›
           have h1 := len_of_skipWs ‹skipWs _ = _›
           have h0 := skipWs_len ‹List Char›
           omega)
        | (have h2 := parseValue_len f _ _ _ ‹parseValue f _ = _›
           have h1 := len_of_skipWs ‹skipWs _ = _›
           omega)
  theorem parseMembers_len : ∀ (f : Nat) (s : List Char) (l : JM) (r : List Char),
      parseMembers f s = some (l, r) → r.length ≤ s.length
    | 0, s, v, r, h => by simp [parseMembers] at h
    | f + 1, [], l, r, h => by simp [parseMembers] at h
    | f + 1, q :: s, l, r, h => by
      rw [parseMembers.eq_def] at h
      simp only at h
      repeat' split at h
      all_goals first | cases h | skip
      · rename_i hq _ k r3 hk _ c1 r2 hc hcol _ v r1 hv _ c0 r0 hs hcomma _ ms hm
        have h1 := parseChars_len _ _ _ hk
        have h2 := len_of_skipWs hc
        have h3 := skipWs_len r2
        have h4 := parseValue_len f _ _ _ hv
        have h5 := len_of_skipWs hs
        have h6 := skipWs_len r0
        have h7 := parseMembers_len f _ _ _ hm
        simp only [List.length_cons]; omega
      · rename_i hq _ k r3 hk _ c1 r2 hc hcol _ v r1 hv _ c0 hcomma hclose hs
        have h1 := parseChars_len _ _ _ hk
        have h2 := len_of_skipWs hc
        have h3 := skipWs_len r2
        have h4 := parseValue_len f _ _ _ hv
        have h5 := len_of_skipWs hs
        simp only [List.length_cons]; omega
end

/-! ## fuel adequacy -/

/-- the three parsers do not depend on the fuel once it exceeds twice the length of the text -/
def FuelStable (n : Nat) : Prop :=
  (∀ (s : List Char) (f f' : Nat), s.length = n → 2 * n + 1 ≤ f → 2 * n + 1 ≤ f' →
      parseValue f s = parseValue f' s) ∧
  (∀ (s : List Char) (f f' : Nat), s.length = n → 2 * n + 2 ≤ f → 2 * n + 2 ≤ f' →
      parseElems f s = parseElems f' s) ∧
  (∀ (s : List Char) (f f' : Nat), s.length = n → 2 * n + 2 ≤ f → 2 * n + 2 ≤ f' →
      parseMembers f s = parseMembers f' s)

theorem fuelStable_value (n : Nat) (ih : ∀ m, m < n → FuelStable m) :
    ∀ (s : List Char) (f f' : Nat), s.length = n → 2 * n + 1 ≤ f → 2 * n + 1 ≤ f' →
      parseValue f s = parseValue f' s := by
  intro s f f' hs hf hf'
  obtain ⟨g, rfl⟩ : ∃ g, f = g + 1 := ⟨f - 1, by omega⟩
  obtain ⟨g', rfl⟩ : ∃ g', f' = g' + 1 := ⟨f' - 1, by omega⟩
  cases s with
  | nil => simp [parseValue]
  | cons c t =>
    simp only [List.length_cons] at hs
    rw [parseValue.eq_def, parseValue.eq_def (g' + 1)]
    simp only
    split
    · split
      · rfl
      · rename_i d r1 hsk
        have hl := len_of_skipWs hsk
        have := (ih (d :: r1).length (by simp only [List.length_cons]; omega)).2.2 (d :: r1) g g' rfl
          (by simp only [List.length_cons]; omega) (by simp only [List.length_cons]; omega)
        rw [this]
    · split
      · split
        · rfl
        · rename_i d r1 hsk
          have hl := len_of_skipWs hsk
          have := (ih (d :: r1).length (by simp only [List.length_cons]; omega)).2.1 (d :: r1) g g' rfl
            (by simp only [List.length_cons]; omega) (by simp only [List.length_cons]; omega)
          rw [this]
      · rfl

theorem fuelStable_elems (n : Nat) (ih : ∀ m, m < n → FuelStable m)
    (hv : ∀ (s : List Char) (f f' : Nat), s.length = n → 2 * n + 1 ≤ f → 2 * n + 1 ≤ f' →
      parseValue f s = parseValue f' s) :
    ∀ (s : List Char) (f f' : Nat), s.length = n → 2 * n + 2 ≤ f → 2 * n + 2 ≤ f' →
      parseElems f s = parseElems f' s := by
  intro s f f' hs hf hf'
  obtain ⟨g, rfl⟩ : ∃ g, f = g + 1 := ⟨f - 1, by omega⟩
  obtain ⟨g', rfl⟩ : ∃ g', f' = g' + 1 := ⟨f' - 1, by omega⟩
  rw [parseElems.eq_def, parseElems.eq_def (g' + 1)]
  simp only
  rw [hv s g g' hs (by omega) (by omega)]
  split
  · rfl
  · rename_i v r hpv
    have h1 := parseValue_len _ _ _ _ hpv
    split
    · rfl
    · rename_i d r1 hsk
      have h2 := len_of_skipWs hsk
      have h3 := skipWs_len r1
      split
      · have := (ih (skipWs r1).length (by omega)).2.1 (skipWs r1) g g' rfl (by omega) (by omega)
        rw [this]
      · rfl

theorem fuelStable_members (n : Nat) (ih : ∀ m, m < n → FuelStable m) :
    ∀ (s : List Char) (f f' : Nat), s.length = n → 2 * n + 2 ≤ f → 2 * n + 2 ≤ f' →
      parseMembers f s = parseMembers f' s := by
  intro s f f' hs hf hf'
  obtain ⟨g, rfl⟩ : ∃ g, f = g + 1 := ⟨f - 1, by omega⟩
  obtain ⟨g', rfl⟩ : ∃ g', f' = g' + 1 := ⟨f' - 1, by omega⟩
  cases s with
  | nil => simp [parseMembers]
  | cons q t =>
    simp only [List.length_cons] at hs
    rw [parseMembers.eq_def, parseMembers.eq_def (g' + 1)]
    simp only
    split
    · split
      · rfl
      · rename_i k r hk
        have h1 := parseChars_len _ _ _ hk
        split
        · rfl
        · rename_i col r1 hsk
          have h2 := len_of_skipWs hsk
          have h3 := skipWs_len r1
          split
          · have := (ih (skipWs r1).length (by omega)).1 (skipWs r1) g g' rfl (by omega) (by omega)
            rw [this]
            split
            · rfl
            · rename_i v r2 hpv
              have h4 := parseValue_len _ _ _ _ hpv
              split
              · rfl
              · rename_i d r3 hsk2
                have h5 := len_of_skipWs hsk2
                have h6 := skipWs_len r3
                split
                · have := (ih (skipWs r3).length (by omega)).2.2 (skipWs r3) g g' rfl (by omega) (by omega)
                  rw [this]
                · rfl
          · rfl
    · rfl

theorem fuelStable : ∀ n, FuelStable n := by
  intro n
  induction n using Nat.strongRecOn with
  | ind n ih =>
    have hv := fuelStable_value n ih
    exact ⟨hv, fuelStable_elems n ih hv, fuelStable_members n ih⟩

/-- more fuel than `2·length+2` never changes the answer of `parseWith` -/
theorem parseWith_stable (s : List Char) (f : Nat) (hf : 2 * s.length + 2 ≤ f) :
    parseWith f s = parse s := by
  have h0 := skipWs_len s
  have := (fuelStable (skipWs s).length).1 (skipWs s) f (2 * s.length + 2) rfl (by omega) (by omega)
  simp only [parse, parseWith, this]



/-! ## the parser only returns canonical numbers -/

theorem normDecF_wf : ∀ (f m : Nat) (e : Int), m < f →
    ((normDecF f m e).1 = 0 → (normDecF f m e).2 = 0) ∧
    ((normDecF f m e).1 ≠ 0 → (normDecF f m e).1 % 10 ≠ 0)
  | 0, m, e, h => by omega
  | f + 1, m, e, h => by
    unfold normDecF
    split
    · simp
    · split
      · exact normDecF_wf f (m / 10) (e + 1) (by omega)
      · simp; omega

theorem dec_wf (neg : Bool) (m : Nat) (e : Int) :
    (Num.dec (neg && (normDec m e).1 != 0) (normDec m e).1 (normDec m e).2).wf := by
  have := normDecF_wf (m + 1) m e (by omega)
  unfold normDec
  simp only [Num.wf]
  refine ⟨fun h0 => ⟨this.1 h0, by simp [h0]⟩, this.2⟩

theorem mkNum_wf (neg : Bool) (ids : List Char) (frac : Option (List Char)) (ex : Int) :
    (mkNum neg ids frac ex).wf := by
  unfold mkNum
  split
  · split
    · trivial
    · exact dec_wf _ _ _
  · exact dec_wf _ _ _

theorem parseNumber_wf {s r : List Char} {n : Num} (h : parseNumber s = some (n, r)) : n.wf := by
  simp only [parseNumber] at h
  repeat' split at h
  all_goals first | cases h | skip
  exact mkNum_wf _ _ _ _

mutual
  theorem parseValue_wf : ∀ (f : Nat) (s : List Char) (v : J) (r : List Char),
      parseValue f s = some (v, r) → v.wf
    | 0, s, v, r, h => by simp [parseValue] at h
    | f + 1, [], v, r, h => by simp [parseValue] at h
    | f + 1, c :: t, v, r, h => by
      rw [parseValue.eq_def] at h
      simp only at h
      repeat' split at h
      all_goals first | cases h | skip
      all_goals first
        | exact parseMembers_wf f _ _ _ ‹parseMembers f _ = _›
        | exact parseElems_wf f _ _ _ ‹parseElems f _ = _›
        | exact parseNumber_wf ‹parseNumber _ = _›
        | trivial
  theorem parseElems_wf : ∀ (f : Nat) (s : List Char) (l : JL) (r : List Char),
      parseElems f s = some (l, r) → l.wf
    | 0, s, v, r, h => by simp [parseElems] at h
    | f + 1, s, l, r, h => by
      rw [parseElems.eq_def] at h
      simp only at h
      repeat' split at h
      all_goals first | cases h | skip
      all_goals first
        | exact ⟨parseValue_wf f _ _ _ ‹parseValue f _ = _›, parseElems_wf f _ _ _ ‹parseElems f _ = _›⟩
        | exact ⟨parseValue_wf f _ _ _ ‹parseValue f _ = _›, trivial⟩
  theorem parseMembers_wf : ∀ (f : Nat) (s : List Char) (l : JM) (r : List Char),
      parseMembers f s = some (l, r) → l.wf
    | 0, s, v, r, h => by simp [parseMembers] at h
    | f + 1, [], l, r, h => by simp [parseMembers] at h
    | f + 1, q :: s, l, r, h => by
      rw [parseMembers.eq_def] at h
      simp only at h
      repeat' split at h
      all_goals first | cases h | skip
      all_goals first
        | exact ⟨parseValue_wf f _ _ _ ‹parseValue f _ = _›, parseMembers_wf f _ _ _ ‹parseMembers f _ = _›⟩
        | exact ⟨parseValue_wf f _ _ _ ‹parseValue f _ = _›, trivial⟩
end

theorem parse_wf {s : List Char} {v : J} (h : parse s = some v) : v.wf := by
  simp only [parse, parseWith] at h
  split at h
  · rename_i v' r hp
    split at h
    · cases h; exact parseValue_wf _ _ _ _ hp
    · cases h
  · cases h


end Scryer.Json
