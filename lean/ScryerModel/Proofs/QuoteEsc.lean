import ScryerModel.Proofs.QuoteRead
/-! C55: every quoted text reads back as the atom (escapes). -/
namespace Scryer.Quote
open Scryer.CharClass

variable {u : UC}

def hexFold (a : Nat) (ds : List Char) : Nat := ds.foldl (fun a d => a * 16 + hexVal d) a

theorem hexDigit_ok : ∀ m, m < 16 → hexadecimal_digit_char asciiUC (hexDigit m) = true ∧ hexVal (hexDigit m) = m := by
  decide

theorem hexDigits_spec (n : Nat) :
    (∀ d ∈ hexDigits n, hexadecimal_digit_char u d = true) ∧ hexFold 0 (hexDigits n) = n ∧ hexDigits n ≠ [] := by
  induction n using Nat.strongRecOn with
  | _ n ih =>
    rw [hexDigits]
    by_cases h : n < 16
    · simp only [h, dite_true]
      refine ⟨?_, ?_, by simp⟩
      · intro d hd; simp at hd; subst hd; exact (hexDigit_ok n h).1
      · simp [hexFold, (hexDigit_ok n h).2]
    · simp only [h, dite_false]
      obtain ⟨i1, i2, _⟩ := ih (n / 16) (by omega)
      have hm : n % 16 < 16 := Nat.mod_lt _ (by decide)
      refine ⟨?_, ?_, by simp⟩
      · intro d hd
        simp at hd
        rcases hd with hd | hd
        · exact i1 d hd
        · subst hd; exact (hexDigit_ok _ hm).1
      · have : hexFold 0 (hexDigits (n / 16) ++ [hexDigit (n % 16)]) =
            hexFold 0 (hexDigits (n / 16)) * 16 + hexVal (hexDigit (n % 16)) := by
          simp [hexFold, List.foldl_append]
        rw [this, i2, (hexDigit_ok _ hm).2]; omega

theorem quoted_hex (q : Char) (ds : List Char) (hds : ∀ d ∈ ds, hexadecimal_digit_char u d = true)
    (a : Nat) (acc k : List Char) (ch : Char) (hch : charOfCode (hexFold a ds) = some ch) :
    quotedItems u q (.hex a) acc (ds ++ '\\' :: k) = quotedItems u q .normal (ch :: acc) k := by
  induction ds generalizing a with
  | nil =>
    have : hexadecimal_digit_char u '\\' = false := by
      show hexadecimal_digit_char asciiUC '\\' = false
      decide
    simp only [hexFold, List.foldl_nil] at hch
    simp only [List.nil_append, quotedItems, this, backslash_char, hch]
    simp
  | cons d ds ih =>
    have hd := hds d (by simp)
    simp only [List.cons_append, quotedItems, hd, if_true]
    exact ih (fun x hx => hds x (by simp [hx])) _ (by simpa [hexFold] using hch)

theorem charOfCode_toNat (c : Char) : charOfCode c.toNat = some c := by
  have : c.toNat.isValidChar := c.valid
  simp [charOfCode, this, Char.ofNat_toNat]

theorem quoted_hex_escape (q : Char) (c : Char) (acc k : List Char) :
    quotedItems u q .bs acc ('x' :: (hexDigits c.toNat ++ '\\' :: k)) = quotedItems u q .normal (c :: acc) k := by
  obtain ⟨h1, h2, h3⟩ := hexDigits_spec (u := u) c.toNat
  cases hd : hexDigits c.toNat with
  | nil => exact absurd hd h3
  | cons d ds =>
    rw [hd] at h1 h2
    have hd0 := h1 d (by simp)
    have e : hexFold (hexVal d) ds = c.toNat := by simpa [hexFold] using h2
    simp only [quotedItems, new_line_char, meta_char, octal_digit_char, symbolic_hexadecimal_char, List.cons_append]
    simp only [show (('x' : Char) == Char.ofNat 10) = false by decide, show (('x' : Char) == '\\' || ('x' : Char) == '\'' || ('x' : Char) == '"' || ('x' : Char) == '`') = false by decide,
      show (decide ('0' ≤ ('x' : Char)) && decide (('x' : Char) ≤ '7')) = false by decide, show (('x' : Char) == 'x') = true by decide, hd0, if_true]
    simp only [Bool.false_eq_true, if_false]
    exact quoted_hex q ds (fun x hx => h1 x (by simp [hx])) _ _ _ c (by rw [e, charOfCode_toNat])

/-- a character that `char_to_string` prints raw inside quotes is accepted raw by `get_non_quote_char`
    (or is one of the other two quote characters) -/
theorem raw_accepted {c : Char} (h1 : plainList.contains c = false) (h2 : (u.is_whitespace c || u.is_control c) = false) :
    c ≠ '\'' ∧ backslash_char u c = false ∧
    ((single_quote_char u c || double_quote_char u c || back_quote_char u c) = true ∨
     (graphic_char u c || alpha_numeric_char u c || solo_char u c || space_char u c) = true) := by
  simp only [plainList, List.contains_cons, List.contains_nil, Bool.or_false, Bool.or_eq_false_iff,
    beq_eq_false_iff_ne] at h1
  obtain ⟨n1, n2, n3, n4, n5, n6, n7, n8, n9, n10, n11⟩ := h1
  simp only [Bool.or_eq_false_iff] at h2
  refine ⟨n2, by simp [backslash_char]; exact n11, ?_⟩
  by_cases hb : c = '`'
  · left; simp [back_quote_char, hb]
  right
  by_cases hn : u.is_numeric c = true
  · simp [alpha_numeric_char, hn]
  by_cases hg : graphic_char u c = true
  · simp [hg]
  by_cases hs : solo_char u c = true
  · simp [hs]
  have hgt : graphic_token_char u c = false := by
    simp [graphic_token_char, hg, backslash_char]; exact n11
  have hl : layout_char u c = false := by
    simp only [layout_char, Bool.or_eq_false_iff, beq_eq_false_iff_ne]
    exact ⟨⟨⟨⟨⟨n1, n4⟩, n3⟩, n5⟩, n6⟩,
      n7⟩
  have hm : meta_char u c = false := by
    simp only [meta_char, Bool.or_eq_false_iff, beq_eq_false_iff_ne]
    exact ⟨⟨⟨n11, n2⟩, n10⟩, hb⟩
  simp [alpha_numeric_char, alpha_char, hn, h2.1, h2.2, hgt, hl, hm, hs]

theorem quoted_char (c : Char) (acc k : List Char) :
    quotedItems u '\'' .normal acc (charToString u true c ++ k) = quotedItems u '\'' .normal (c :: acc) k := by
  by_cases e1 : c = '\''
  · subst e1; simp [charToString, quotedItems, backslash_char, new_line_char, meta_char]
  by_cases e2 : c = '\n'
  · subst e2
    simp [charToString, quotedItems, backslash_char, new_line_char, meta_char, octal_digit_char, symbolic_hexadecimal_char]
  by_cases e3 : c = '\r'
  · subst e3
    simp [charToString, quotedItems, backslash_char, new_line_char, meta_char, octal_digit_char, symbolic_hexadecimal_char]
  by_cases e4 : c = '\t'
  · subst e4
    simp [charToString, quotedItems, backslash_char, new_line_char, meta_char, octal_digit_char, symbolic_hexadecimal_char]
  by_cases e5 : c = Char.ofNat 11
  · subst e5
    simp [charToString, quotedItems, backslash_char, new_line_char, meta_char, octal_digit_char, symbolic_hexadecimal_char]
  by_cases e6 : c = Char.ofNat 12
  · subst e6
    simp [charToString, quotedItems, backslash_char, new_line_char, meta_char, octal_digit_char, symbolic_hexadecimal_char]
  by_cases e7 : c = Char.ofNat 8
  · subst e7
    simp [charToString, quotedItems, backslash_char, new_line_char, meta_char, octal_digit_char, symbolic_hexadecimal_char]
  by_cases e8 : c = Char.ofNat 7
  · subst e8
    simp [charToString, quotedItems, backslash_char, new_line_char, meta_char, octal_digit_char, symbolic_hexadecimal_char]
  by_cases e9 : c = '\\'
  · subst e9
    simp [charToString, quotedItems, backslash_char, new_line_char, meta_char]
  have hcs : charToString u true c =
      if plainList.contains c then [c]
      else if u.is_whitespace c || u.is_control c then '\\' :: 'x' :: (hexDigits c.toNat ++ ['\\']) else [c] := by
    simp [charToString, e1, e2, e3, e4, e5, e6, e7, e8, e9]
  rw [hcs]
  by_cases hp : plainList.contains c = true
  · simp only [hp, if_true]
    have : c = ' ' ∨ c = '"' := by
      simp [plainList] at hp
      rcases hp with h|h|h|h|h|h|h|h|h|h|h <;> simp_all
    rcases this with rfl | rfl
    · simp [quotedItems, backslash_char, single_quote_char, double_quote_char, back_quote_char, graphic_char,
        solo_char, space_char]
    · simp [quotedItems, backslash_char, single_quote_char, double_quote_char, back_quote_char]
  · simp only [hp, if_false, Bool.false_eq_true]
    by_cases hw : (u.is_whitespace c || u.is_control c) = true
    · simp only [hw, if_true]
      have hbs : quotedItems u '\'' .normal acc (('\\' :: 'x' :: (hexDigits c.toNat ++ ['\\'])) ++ k) =
          quotedItems u '\'' .bs acc ('x' :: (hexDigits c.toNat ++ '\\' :: k)) := by
        simp [quotedItems, backslash_char]
      rw [hbs, quoted_hex_escape]
    · simp only [hw, if_false, Bool.false_eq_true]
      obtain ⟨r1, r2, r3⟩ := raw_accepted (u := u) (c := c) (by simpa using hp) (by simpa using hw)
      have r1' : (c == '\'') = false := by simpa using r1
      rcases r3 with r3 | r3
      · simp only [List.cons_append, List.nil_append, quotedItems, r1', r2, r3, if_true, Bool.false_eq_true, if_false]
      · simp only [List.cons_append, List.nil_append, quotedItems, r1', r2, r3, if_true, Bool.false_eq_true, if_false]
        split <;> rfl

theorem quoted_text (s acc k : List Char) :
    quotedItems u '\'' .normal acc (s.flatMap (charToString u true) ++ k) =
      quotedItems u '\'' .normal (s.reverse ++ acc) k := by
  induction s generalizing acc with
  | nil => simp
  | cons c s ih =>
    simp only [List.flatMap_cons, List.append_assoc, quoted_char, ih]
    simp

theorem nextTok_quoted (hu : UCWF u) (s k : List Char) (hk : stops (fun c => c == '\'') k) :
    nextTok u ('\'' :: (s.flatMap (charToString u true) ++ '\'' :: k)) = .tok (.name s) k := by
  have hsm : small_letter_char u '\'' = false := by rw [small_ascii hu (by decide)]; decide
  rw [nextTok, scan_concrete _ _ _ (by decide) (by decide) (by decide)]
  simp only []
  rw [nextTokAt_name (cap_false hu _ (by decide) (by decide)) (by decide) (by decide)]
  simp only [nameToken, hsm, graphic_token_char, graphic_char, backslash_char, cut_char, semicolon_char,
    single_quote_char, quoted_text]
  cases k with
  | nil => simp [quotedItems]
  | cons c k =>
    have : (c == '\'') = false := by simpa [stops] using hk
    simp [quotedItems, this]

theorem readAtom_quoted (hu : UCWF u) (s : List Char) :
    readAtom u ('\'' :: (s.flatMap (charToString u true) ++ ['\''])) = some s := by
  have := nextTok_quoted hu s [] trivial
  simp [readAtom, tokens_one (by simp) this, atomOfTokens]

theorem charToString_length (u : UC) (q : Bool) (c : Char) : 1 ≤ (charToString u q c).length := by
  unfold charToString
  repeat' split
  all_goals simp

theorem flatMap_charToString_length (u : UC) (q : Bool) (s : List Char) :
    s.length ≤ (s.flatMap (charToString u q)).length := by
  induction s with
  | nil => simp
  | cons c s ih =>
    have := charToString_length u q c
    simp only [List.flatMap_cons, List.length_append, List.length_cons]; omega

end Scryer.Quote
