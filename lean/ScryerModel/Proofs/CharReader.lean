import ScryerModel.Proofs.Utf8
import ScryerModel.Model.CharReader
/-! Lemmas for C18: the `CharReader` mechanism model refines the stream specification
(`pending s` = the unread bytes is the abstraction function). -/
namespace Scryer.CharReader
open Scryer.Utf8

/-- well-formed reader state: the cursor is inside the buffer and the underlying reader never
    returns an empty chunk before the end of input (`Ok(0)` means end of input). -/
def WF (s : St) : Prop := s.pos ≤ s.buf.length ∧ ∀ c ∈ s.chunks, c ≠ []

/-! ### the specification side -/

theorem firstItem_ok {l : List Nat} {cp n : Nat} (h : decodeFirst l = .ok cp n) :
    firstItem l = (.char cp, n) := by unfold firstItem; rw [h]

theorem firstItem_invalid {l : List Nat} {n : Nat} (h : decodeFirst l = .invalid n) :
    firstItem l = (.bad (l.take n), n) := by unfold firstItem; rw [h]

theorem firstItem_incomplete {l : List Nat} (h : decodeFirst l = .incomplete) :
    firstItem l = (.bad l, l.length) := by unfold firstItem; rw [h]

/-- every item spans at least one byte and not more than there is. -/
theorem firstItem_span {l : List Nat} (hl : l ≠ []) :
    1 ≤ (firstItem l).2 ∧ (firstItem l).2 ≤ l.length := by
  have hlen : 0 < l.length := List.length_pos_iff.2 hl
  cases hd : decodeFirst l with
  | ok cp n =>
    rw [firstItem_ok hd]; have := decodeFirst_ok hd; exact ⟨this.2.2.1, this.2.1⟩
  | invalid n =>
    rw [firstItem_invalid hd]; have := decodeFirst_invalid hd; exact ⟨this.1, this.2.1⟩
  | incomplete =>
    rw [firstItem_incomplete hd]; exact ⟨hlen, Nat.le_refl _⟩

/-- a reported character has `len_utf8` bytes. -/
theorem firstItem_char_len {l : List Nat} {cp : Nat} (h : (firstItem l).1 = .char cp) :
    (firstItem l).2 = lenUtf8 cp := by
  cases hd : decodeFirst l with
  | ok cp' n =>
    rw [firstItem_ok hd] at h ⊢
    cases h
    exact (decodeFirst_ok hd).1
  | invalid n => rw [firstItem_invalid hd] at h; cases h
  | incomplete => rw [firstItem_incomplete hd] at h; cases h

/-- a reported bad-bytes error carries exactly the bytes it spans. -/
theorem firstItem_bad_len {l : List Nat} {bs : List Nat} (h : (firstItem l).1 = .bad bs) :
    (firstItem l).2 = bs.length := by
  cases hd : decodeFirst l with
  | ok cp' n => rw [firstItem_ok hd] at h; cases h
  | invalid n =>
    rw [firstItem_invalid hd] at h ⊢
    cases h
    have := (decodeFirst_invalid hd).2.1
    show n = (l.take n).length
    rw [List.length_take]; omega
  | incomplete =>
    rw [firstItem_incomplete hd] at h ⊢
    cases h; rfl

theorem specPeek_nil : specPeek [] = .eof := rfl
theorem specRead_nil : specRead [] = ([], .eof) := rfl

theorem specPeek_of_ne {l : List Nat} (hl : l ≠ []) : specPeek l = itemToOut (firstItem l).1 := by
  cases l with
  | nil => exact absurd rfl hl
  | cons a t =>
    simp only [specPeek, List.isEmpty_cons, Bool.false_eq_true, ↓reduceIte]
    generalize firstItem (a :: t) = p
    obtain ⟨it, n⟩ := p
    cases it <;> rfl

theorem specRead_of_ne {l : List Nat} (hl : l ≠ []) :
    specRead l = (l.drop (firstItem l).2, itemToOut (firstItem l).1) := by
  cases l with
  | nil => exact absurd rfl hl
  | cons a t =>
    simp only [specRead, List.isEmpty_cons, Bool.false_eq_true, ↓reduceIte]
    generalize firstItem (a :: t) = p
    obtain ⟨it, n⟩ := p
    cases it <;> rfl

theorem itemToOut_ne_panic (it : Item) : itemToOut it ≠ .panic := by
  cases it <;> intro h <;> cases h

theorem itemToOut_ne_eof (it : Item) : itemToOut it ≠ .eof := by
  cases it <;> intro h <;> cases h

theorem specPeek_ne_panic (l : List Nat) : specPeek l ≠ .panic := by
  cases l with
  | nil => intro h; cases h
  | cons a t => rw [specPeek_of_ne (by simp)]; exact itemToOut_ne_panic _

theorem decodeAllF_nil (k : Nat) : decodeAllF k [] = [] := by cases k <;> rfl

theorem decodeAllF_cons (k : Nat) {l : List Nat} (h : l ≠ []) :
    decodeAllF (k + 1) l = (firstItem l).1 :: decodeAllF k (l.drop (firstItem l).2) := by
  cases l with
  | nil => exact absurd rfl h
  | cons a t => rfl

/-! ### the mechanism side -/

theorem refreshBuffer_spec {s : St} (h : WF s) :
    WF (refreshBuffer s) ∧ pending (refreshBuffer s) = pending s ∧
      ((refreshBuffer s).pos < (refreshBuffer s).buf.length ∨ (refreshBuffer s).chunks = []) := by
  obtain ⟨buf, pos, chunks⟩ := s
  obtain ⟨hp, hc⟩ := h
  dsimp only at hp hc
  unfold refreshBuffer
  dsimp only
  split
  · rename_i hge
    generalize (if buf.length > 4 then buf.take 4 else buf) = buf'
    cases chunks with
    | nil =>
      simp only [readChunk]
      refine ⟨⟨Nat.le_refl _, hc⟩, ?_, Or.inr trivial⟩
      simp only [pending, List.drop_length, List.drop_eq_nil_of_le hge]
    | cons c cs =>
      simp only [readChunk]
      have hcne : c ≠ [] := hc c List.mem_cons_self
      have hclen : 0 < c.length := List.length_pos_iff.2 hcne
      refine ⟨⟨by simp only [List.length_append]; omega,
          fun d hd => hc d (List.mem_cons_of_mem _ hd)⟩, ?_,
        Or.inl (by simp only [List.length_append]; omega)⟩
      simp only [pending, List.drop_left, List.flatten_cons, List.drop_eq_nil_of_le hge,
        List.nil_append]
  · rename_i hlt
    exact ⟨⟨hp, hc⟩, rfl, Or.inl (by show pos < buf.length; omega)⟩

theorem compact_chunks (s : St) : (compact s).chunks = s.chunks := by
  unfold compact; split <;> rfl

/-- compaction keeps the unread part of the buffer. -/
theorem compact_spec {s : St} (hp : s.pos < s.buf.length) :
    (compact s).buf.drop (compact s).pos = s.buf.drop s.pos ∧
      (compact s).pos < (compact s).buf.length := by
  unfold compact
  split
  · rename_i h4
    dsimp only
    have hl : (s.buf.take 4).length = 4 := by rw [List.length_take]; omega
    refine ⟨List.drop_left' hl, ?_⟩
    rw [List.length_append, hl, List.length_drop]; omega
  · exact ⟨rfl, hp⟩

theorem badBytes_invalid {rem : List Nat} {n : Nat} (h : decodeFirst rem = .invalid n) :
    badBytes rem = .bad (rem.take n) := by unfold badBytes; rw [h]

theorem badBytes_incomplete {rem : List Nat} (h : decodeFirst rem = .incomplete) :
    badBytes rem = .bad rem := by unfold badBytes; rw [h]

theorem peekLoop_eof (fuel : Nat) {s : St} (h : ¬ s.pos < s.buf.length) :
    peekLoop (fuel + 1) s = (s, .eof) := by
  simp only [peekLoop, if_neg h]

theorem peekLoop_ok (fuel : Nat) {s : St} {cp n : Nat} (h : s.pos < s.buf.length)
    (hd : decodeFirst ((s.buf.drop s.pos).take 4) = .ok cp n) :
    peekLoop (fuel + 1) s = (s, .char cp) := by
  simp only [peekLoop, if_pos h, hd]

theorem peekLoop_invalid (fuel : Nat) {s : St} {n : Nat} (h : s.pos < s.buf.length)
    (hd : decodeFirst ((s.buf.drop s.pos).take 4) = .invalid n) :
    peekLoop (fuel + 1) s = (s, badBytes (s.buf.drop s.pos)) := by
  simp only [peekLoop, if_pos h, hd]

theorem peekLoop_incomplete_end (fuel : Nat) {s : St} (h : s.pos < s.buf.length)
    (hd : decodeFirst ((s.buf.drop s.pos).take 4) = .incomplete) (hc : s.chunks = []) :
    peekLoop (fuel + 1) s = (compact s, badBytes ((compact s).buf.drop (compact s).pos)) := by
  have hc' : (compact s).chunks = [] := by rw [compact_chunks, hc]
  simp only [peekLoop, if_pos h, hd, readChunk, hc']

theorem peekLoop_incomplete_more (fuel : Nat) {s : St} {c : List Nat} {cs : List (List Nat)}
    (h : s.pos < s.buf.length)
    (hd : decodeFirst ((s.buf.drop s.pos).take 4) = .incomplete) (hc : s.chunks = c :: cs)
    (hne : c ≠ []) :
    peekLoop (fuel + 1) s =
      peekLoop fuel { compact s with buf := (compact s).buf ++ c, chunks := cs } := by
  have hc' : (compact s).chunks = c :: cs := by rw [compact_chunks, hc]
  cases c with
  | nil => exact absurd rfl hne
  | cons a t =>
    simp only [peekLoop, if_pos h, hd, readChunk, hc', List.length_cons]

/-- the loop of `peek_char`: given enough fuel (one iteration per remaining chunk, plus one) it
    never panics, leaves the unread input unchanged, answers what the specification answers,
    and leaves the whole reported item inside the buffer. -/
theorem peekLoop_spec : ∀ (fuel : Nat) (s : St), WF s → s.chunks.length + 1 ≤ fuel →
    (s.pos < s.buf.length ∨ s.chunks = []) →
    WF (peekLoop fuel s).1 ∧ pending (peekLoop fuel s).1 = pending s ∧
      (peekLoop fuel s).2 = specPeek (pending s) ∧
      (pending s ≠ [] →
        (firstItem (pending s)).2 ≤ (peekLoop fuel s).1.buf.length - (peekLoop fuel s).1.pos)
  | 0, s, _, hf, _ => by omega
  | fuel + 1, s, hwf, hf, hdis => by
    by_cases hp : s.pos < s.buf.length
    · -- some buffered bytes are unread
      have hrem_len : (s.buf.drop s.pos).length = s.buf.length - s.pos := List.length_drop
      have hrem_ne : s.buf.drop s.pos ≠ [] := by
        intro h0; rw [h0] at hrem_len; simp only [List.length_nil] at hrem_len; omega
      have hpend_ne : pending s ≠ [] := by
        unfold pending; intro h0; exact hrem_ne (List.append_eq_nil_iff.1 h0).1
      cases hd : decodeFirst ((s.buf.drop s.pos).take 4) with
      | ok cp n =>
        rw [peekLoop_ok fuel hp hd]
        have h1 : decodeFirst (s.buf.drop s.pos) = .ok cp n := by
          rw [← decodeFirst_take4]; exact hd
        have h2 : decodeFirst (pending s) = .ok cp n := by
          unfold pending
          rw [decodeFirst_append _ (by rw [h1]; intro h; cases h), h1]
        have h3 := firstItem_ok h2
        have hn := (decodeFirst_ok h1).2.1
        refine ⟨hwf, rfl, ?_, fun _ => ?_⟩
        · rw [specPeek_of_ne hpend_ne, h3]; rfl
        · rw [h3]; show n ≤ s.buf.length - s.pos; omega
      | invalid n =>
        rw [peekLoop_invalid fuel hp hd]
        have h1 : decodeFirst (s.buf.drop s.pos) = .invalid n := by
          rw [← decodeFirst_take4]; exact hd
        have h2 : decodeFirst (pending s) = .invalid n := by
          unfold pending
          rw [decodeFirst_append _ (by rw [h1]; intro h; cases h), h1]
        have hn := (decodeFirst_invalid h1).2.1
        have h3 := firstItem_invalid h2
        have h4 : (pending s).take n = (s.buf.drop s.pos).take n := by
          unfold pending; exact List.take_append_of_le_length hn
        refine ⟨hwf, rfl, ?_, fun _ => ?_⟩
        · rw [specPeek_of_ne hpend_ne, h3, badBytes_invalid h1, h4]; rfl
        · rw [h3]; show n ≤ s.buf.length - s.pos; omega
      | incomplete =>
        have h1 : decodeFirst (s.buf.drop s.pos) = .incomplete := by
          rw [← decodeFirst_take4]; exact hd
        obtain ⟨hcb, hcp⟩ := compact_spec hp
        have hcc := compact_chunks s
        cases hch : s.chunks with
        | nil =>
          -- end of input inside a character: all remaining bytes are the bad sequence
          rw [peekLoop_incomplete_end fuel hp hd hch, hcb, badBytes_incomplete h1]
          have hpe : pending s = s.buf.drop s.pos := by
            unfold pending; rw [hch, List.flatten_nil, List.append_nil]
          have hpc : pending (compact s) = pending s := by
            unfold pending; rw [hcb, hcc]
          refine ⟨⟨Nat.le_of_lt hcp, by rw [hcc]; exact hwf.2⟩, hpc, ?_, fun _ => ?_⟩
          · rw [specPeek_of_ne hpend_ne, hpe, firstItem_incomplete h1]; rfl
          · rw [hpe, firstItem_incomplete h1]
            show (s.buf.drop s.pos).length ≤ _
            rw [← hcb, List.length_drop]; exact Nat.le_refl _
        | cons c cs =>
          -- read one more chunk and try again
          have hcne : c ≠ [] := hwf.2 c (by rw [hch]; exact List.mem_cons_self)
          rw [peekLoop_incomplete_more fuel hp hd hch hcne]
          have hwf' : WF { compact s with buf := (compact s).buf ++ c, chunks := cs } :=
            ⟨by show (compact s).pos ≤ ((compact s).buf ++ c).length
                rw [List.length_append]; omega,
             fun d hd => hwf.2 d (by rw [hch]; exact List.mem_cons_of_mem _ hd)⟩
          have hpend' : pending { compact s with buf := (compact s).buf ++ c, chunks := cs }
              = pending s := by
            show ((compact s).buf ++ c).drop (compact s).pos ++ cs.flatten
              = s.buf.drop s.pos ++ s.chunks.flatten
            rw [List.drop_append_of_le_length (Nat.le_of_lt hcp), hcb, hch, List.flatten_cons,
              List.append_assoc]
          have hfuel : cs.length + 1 ≤ fuel := by
            rw [hch, List.length_cons] at hf; omega
          have ih := peekLoop_spec fuel _ hwf' hfuel
            (Or.inl (by show (compact s).pos < ((compact s).buf ++ c).length
                        rw [List.length_append]; omega))
          rw [hpend'] at ih
          exact ih
    · -- buffer exhausted, so no chunk is left either: end of input
      have hch : s.chunks = [] := by
        rcases hdis with h | h
        · exact absurd h hp
        · exact h
      rw [peekLoop_eof fuel hp]
      have hpe : pending s = [] := by
        unfold pending; rw [hch, List.drop_eq_nil_of_le (by omega)]; rfl
      refine ⟨hwf, rfl, ?_, fun h => absurd hpe h⟩
      rw [hpe]; rfl

theorem peekChar_spec {s : St} (h : WF s) :
    WF (peekChar s).1 ∧ pending (peekChar s).1 = pending s ∧
      (peekChar s).2 = specPeek (pending s) ∧
      (pending s ≠ [] →
        (firstItem (pending s)).2 ≤ (peekChar s).1.buf.length - (peekChar s).1.pos) := by
  obtain ⟨hw, hp, hd⟩ := refreshBuffer_spec h
  have := peekLoop_spec _ _ hw (Nat.le_refl _) hd
  rw [hp] at this
  exact this

/-! ### read -/

theorem consume_spec {s : St} {n : Nat} (h : WF s) (hn : n ≤ s.buf.length - s.pos) :
    WF (consume s n) ∧ pending (consume s n) = (pending s).drop n := by
  refine ⟨⟨by show s.pos + n ≤ s.buf.length; have := h.1; omega, h.2⟩, ?_⟩
  show s.buf.drop (s.pos + n) ++ s.chunks.flatten = (s.buf.drop s.pos ++ s.chunks.flatten).drop n
  rw [List.drop_append_of_le_length (by rw [List.length_drop]; exact hn), List.drop_drop]

theorem readItem_char {s s1 : St} {cp : Nat} (h : peekChar s = (s1, .char cp)) :
    readItem s = (consume s1 (lenUtf8 cp), .char cp) := by
  simp only [readItem, readChar, h]

theorem readItem_bad {s s1 : St} {bs : List Nat} (h : peekChar s = (s1, .bad bs)) :
    readItem s = (consume s1 bs.length, .bad bs) := by
  simp only [readItem, readChar, h]

theorem readItem_eof {s s1 : St} (h : peekChar s = (s1, .eof)) : readItem s = (s1, .eof) := by
  simp only [readItem, readChar, h]

theorem readItem_spec {s : St} (h : WF s) :
    WF (readItem s).1 ∧ (pending (readItem s).1, (readItem s).2) = specRead (pending s) := by
  obtain ⟨hw, hp, ho, hsp⟩ := peekChar_spec h
  rcases hr : peekChar s with ⟨s1, o⟩
  rw [hr] at hw hp ho hsp
  dsimp only at hw hp ho hsp
  by_cases hne : pending s = []
  · rw [hne, specPeek_nil] at ho
    subst ho
    rw [readItem_eof hr, hne, specRead_nil]
    exact ⟨hw, by rw [hp, hne]⟩
  · rw [specPeek_of_ne hne] at ho
    rw [specRead_of_ne hne]
    have hsp := hsp hne
    cases hit : (firstItem (pending s)).1 with
    | char cp =>
      rw [hit] at ho; subst ho
      have hl := firstItem_char_len hit
      rw [hl] at hsp ⊢
      obtain ⟨hw2, hp2⟩ := consume_spec hw hsp
      rw [readItem_char hr]
      exact ⟨hw2, by rw [hp2, hp]; rfl⟩
    | bad bs =>
      rw [hit] at ho; subst ho
      have hl := firstItem_bad_len hit
      rw [hl] at hsp ⊢
      obtain ⟨hw2, hp2⟩ := consume_spec hw hsp
      rw [readItem_bad hr]
      exact ⟨hw2, by rw [hp2, hp]; rfl⟩

/-! ### put back -/

theorem putBack_spec {s : St} (h : WF s) (cp : Nat) :
    WF (putBack s cp) ∧ pending (putBack s cp) = specPutBack (pending s) cp := by
  obtain ⟨buf, pos, chunks⟩ := s
  obtain ⟨hp, hc⟩ := h
  dsimp only at hp hc
  have hlen := encode_length cp
  unfold putBack specPutBack pending writeAt
  dsimp only
  split
  · rename_i hle
    dsimp only
    have ht : (buf.take (pos - lenUtf8 cp)).length = pos - lenUtf8 cp := by
      rw [List.length_take]; omega
    refine ⟨⟨?_, hc⟩, ?_⟩
    · show pos - lenUtf8 cp ≤ _
      rw [List.length_append, List.length_append, ht, List.length_drop]; omega
    · rw [List.append_assoc, List.drop_left' ht, hlen, List.append_assoc]
      have : pos - lenUtf8 cp + lenUtf8 cp = pos := by omega
      rw [this]
  · rename_i hgt
    dsimp only
    refine ⟨⟨Nat.zero_le _, hc⟩, ?_⟩
    rw [List.take_zero, List.nil_append, List.drop_zero, hlen, Nat.zero_add, List.drop_append,
      List.drop_eq_nil_of_le (by rw [List.length_replicate]; omega), List.nil_append,
      List.length_replicate, List.append_assoc]
    have : lenUtf8 cp - (lenUtf8 cp - pos) = pos := by omega
    rw [this]

theorem putBack_read {s : St} (h : WF s) {cp : Nat} (hs : isScalar cp = true) :
    (readItem (putBack s cp)).2 = .char cp ∧ pending (readItem (putBack s cp)).1 = pending s ∧
      WF (readItem (putBack s cp)).1 := by
  obtain ⟨hw, hp⟩ := putBack_spec h cp
  obtain ⟨hw2, hr⟩ := readItem_spec hw
  have hne : encode cp ++ pending s ≠ [] := by
    intro h0
    have := congrArg List.length h0
    rw [List.length_append, encode_length] at this
    have := (lenUtf8_le cp).1
    simp only [List.length_nil] at *
    omega
  rw [hp, specPutBack, specRead_of_ne hne, firstItem_ok (decodeFirst_encode hs _)] at hr
  dsimp only at hr
  rw [List.drop_left' (encode_length cp)] at hr
  have := Prod.mk.inj hr
  exact ⟨this.2, this.1, hw2⟩

/-! ### reading everything -/

theorem readAllF_eof (fuel : Nat) {s : St} (h : (readItem s).2 = .eof) :
    readAllF (fuel + 1) s = [] := by
  rcases hri : readItem s with ⟨s1, o⟩
  rw [hri] at h; dsimp only at h; subst h
  simp only [readAllF, hri]

theorem readAllF_item (fuel : Nat) {s : St} {it : Item} (h : (readItem s).2 = itemToOut it) :
    readAllF (fuel + 1) s = itemToOut it :: readAllF fuel (readItem s).1 := by
  rcases hri : readItem s with ⟨s1, o⟩
  rw [hri] at h; dsimp only at h; subst h
  cases it <;> simp only [readAllF, hri, itemToOut]

theorem readAllF_spec : ∀ (fuel k : Nat) (s : St), WF s → (pending s).length < fuel →
    (pending s).length ≤ k → readAllF fuel s = (decodeAllF k (pending s)).map itemToOut
  | 0, _, _, _, h, _ => by omega
  | fuel + 1, k, s, hwf, hf, hk => by
    obtain ⟨hw', hr⟩ := readItem_spec hwf
    by_cases hne : pending s = []
    · rw [hne, specRead_nil] at hr
      rw [hne, decodeAllF_nil, readAllF_eof fuel (Prod.mk.inj hr).2]; rfl
    · rw [specRead_of_ne hne] at hr
      obtain ⟨hr1, hr2⟩ := Prod.mk.inj hr
      have hspan := firstItem_span hne
      have hpos : 0 < (pending s).length := List.length_pos_iff.2 hne
      cases k with
      | zero => omega
      | succ k =>
        rw [decodeAllF_cons k hne, List.map_cons, readAllF_item fuel hr2, ← hr1]
        congr 1
        have hl : (pending (readItem s).1).length = (pending s).length - (firstItem (pending s)).2 := by
          rw [hr1, List.length_drop]
        exact readAllF_spec fuel k _ hw' (by omega) (by omega)

theorem init_WF {chunks : List (List Nat)} (h : ∀ c ∈ chunks, c ≠ []) : WF (init chunks) :=
  ⟨Nat.le_refl _, h⟩

theorem pending_init (chunks : List (List Nat)) : pending (init chunks) = chunks.flatten := rfl

theorem readAll_spec {chunks : List (List Nat)} (h : ∀ c ∈ chunks, c ≠ []) :
    readAll chunks = (decodeAll chunks.flatten).map itemToOut := by
  unfold readAll decodeAll
  exact readAllF_spec _ _ _ (init_WF h) (by rw [pending_init]; omega) (by rw [pending_init]; omega)

/-! ### read, then put back -/

theorem firstItem_char_dec {l : List Nat} {cp : Nat} (h : (firstItem l).1 = .char cp) :
    decodeFirst l = .ok cp (lenUtf8 cp) := by
  cases hd : decodeFirst l with
  | ok cp' n =>
    rw [firstItem_ok hd] at h
    cases h
    rw [← (decodeFirst_ok hd).1]
  | invalid n => rw [firstItem_invalid hd] at h; cases h
  | incomplete => rw [firstItem_incomplete hd] at h; cases h

theorem read_putBack {s : St} {cp : Nat} (h : WF s) (hr : (readItem s).2 = .char cp) :
    WF (putBack (readItem s).1 cp) ∧ pending (putBack (readItem s).1 cp) = pending s := by
  obtain ⟨hw, hsp⟩ := readItem_spec h
  refine ⟨(putBack_spec hw cp).1, ?_⟩
  by_cases hne : pending s = []
  · rw [hne, specRead_nil] at hsp
    have h2 := (Prod.mk.inj hsp).2
    rw [h2] at hr; cases hr
  · rw [specRead_of_ne hne] at hsp
    obtain ⟨h1, h2⟩ := Prod.mk.inj hsp
    rw [hr] at h2
    have hit : (firstItem (pending s)).1 = .char cp := by
      cases hfi : (firstItem (pending s)).1 with
      | char c => rw [hfi] at h2; cases h2; rfl
      | bad bs => rw [hfi] at h2; cases h2
    rw [(putBack_spec hw cp).2, h1, specPutBack, firstItem_char_len hit,
      ← decodeFirst_ok_take (firstItem_char_dec hit)]
    exact List.take_append_drop _ _

/-! ### the specification partitions its input -/

/-- the bytes an item of the decoding stands for. -/
def itemBytes : Item → List Nat
  | .char cp => encode cp
  | .bad bs => bs

theorem firstItem_bytes (l : List Nat) : itemBytes (firstItem l).1 = l.take (firstItem l).2 := by
  cases hd : decodeFirst l with
  | ok cp n => rw [firstItem_ok hd]; exact (decodeFirst_ok_take hd).symm
  | invalid n => rw [firstItem_invalid hd]; rfl
  | incomplete => rw [firstItem_incomplete hd]; exact List.take_length.symm

theorem decodeAllF_bytes : ∀ (k : Nat) (l : List Nat), l.length ≤ k →
    (decodeAllF k l).flatMap itemBytes = l
  | 0, l, h => by
    have : l = [] := List.eq_nil_of_length_eq_zero (by omega)
    subst this; rfl
  | k + 1, l, h => by
    by_cases hne : l = []
    · subst hne; rfl
    · have hspan := firstItem_span hne
      rw [decodeAllF_cons k hne, List.flatMap_cons, firstItem_bytes,
        decodeAllF_bytes k _ (by rw [List.length_drop]; omega)]
      exact List.take_append_drop _ _

/-! ### sensitivity: the loop as it was before the two `fix:` commits

`peek_char` originally guarded the compaction with `self.buf.len() > 4` (not `self.pos > 4`),
so `self.buf.drain(4..self.pos)` was reached with `pos < 4` (a slice-index panic), and at end
of input it called `bad_bytes_error(&self.buf)` on the whole buffer with
`error_len().expect(..)`. These definitions differ from `compact`/`badBytes`/`peekLoop` only
there; `Props/C18` shows by evaluation that the theorems fail for them. -/

/-- original compaction: `none` = the `drain(4..pos)` panic. -/
def compactOld (s : St) : Option St :=
  if s.buf.length > 4 then
    if s.pos < 4 then none
    else some { s with buf := s.buf.take 4 ++ s.buf.drop s.pos, pos := 4 }
  else some s

/-- original `bad_bytes_error`: `error_len().expect("we should have at least 4 bytes")`. -/
def badBytesOld (rem : List Nat) : Out :=
  match decodeFirst rem with
  | .ok _ _ => .panic
  | .invalid n => .bad (rem.take n)
  | .incomplete => .panic

def peekLoopOld : Nat → St → St × Out
  | 0, s => (s, .panic)
  | fuel+1, s =>
    if s.pos < s.buf.length then
      let rem := s.buf.drop s.pos
      let pre := rem.take 4
      match decodeFirst pre with
      | .ok cp _ => (s, .char cp)
      | .invalid _ => (s, badBytesOld rem)
      | .incomplete =>
        match compactOld s with
        | none => (s, .panic)
        | some s =>
          match readChunk s with
          | (s, 0) => (s, badBytesOld s.buf)          -- the whole buffer, not `buf[pos..]`
          | (s, _) => peekLoopOld fuel s
    else (s, .eof)

def readItemOld (s : St) : St × Out :=
  let s := refreshBuffer s
  match peekLoopOld (s.chunks.length + 1) s with
  | (s, .char cp) => (consume s (lenUtf8 cp), .char cp)
  | (s, .bad bs) => (consume s bs.length, .bad bs)
  | r => r

def readAllOldF : Nat → St → List Out
  | 0, _ => []
  | fuel+1, s =>
    match readItemOld s with
    | (_, .eof) => []
    | (_, .panic) => [.panic]
    | (s, o) => o :: readAllOldF fuel s

def readAllOld (chunks : List (List Nat)) : List Out :=
  readAllOldF (chunks.flatten.length + 1) (init chunks)

end Scryer.CharReader
