import ScryerModel.Proofs.FsTree
/-! Laws of the file-system model: stability of path resolution under growth of the tree, what the
query predicates say after a mutation, `create_dir_all`, and the invariant over whole scripts. -/
namespace Scryer.FsTree

/-- `fs'` agrees with `fs` wherever `fs` has something -/
def Extends (fs fs' : Fs) : Prop := ∀ q, get fs q ≠ none → get fs' q = get fs q

theorem Extends.refl (fs : Fs) : Extends fs fs := fun _ _ => rfl

theorem Extends.trans {a b c : Fs} (h1 : Extends a b) (h2 : Extends b c) : Extends a c := by
  intro q hq
  have := h1 q hq
  rw [h2 q (by rw [this]; exact hq), this]

theorem extends_set_new {fs : Fs} {k : Path} (hk : k ≠ []) (hn : get fs k = none) (e : Entry) :
    Extends fs (set fs k e) := by
  intro q hq
  rw [get_set _ _ _ _ hk]
  have : q ≠ k := by intro h; rw [h] at hq; exact hq hn
  simp [this]

theorem walk_allEmpty (fs : Fs) (cur : Path) :
    ∀ rest : List Name, rest.all (· == "") = true → walk fs cur rest = .found cur .dir := by
  intro rest
  induction rest with
  | nil => intro _; simp [walk]
  | cons c r ih =>
    intro h
    simp at h
    rw [walk]
    simp [h.1]
    exact ih (by simpa using h.2)

theorem walk_found_stable {fs fs' : Fs} (hx : Extends fs fs') {comps : List Name} :
    ∀ {cur p e}, walk fs cur comps = .found p e → walk fs' cur comps = .found p e := by
  induction comps with
  | nil => intro cur p e hw; simpa [walk] using hw
  | cons c rest ih =>
    intro cur p e hw
    rw [walk] at hw ⊢
    split at hw
    · rename_i hc; simp only [hc, if_true]; exact ih hw
    · rename_i hc
      simp only [hc, if_false]
      split at hw
      · rename_i hdd
        simp only [hdd, if_true]
        split at hw
        · cases hw
        · rename_i hcur; simp only [hcur, if_false]; exact ih hw
      · rename_i hdd
        simp only [hdd, if_false]
        split at hw
        · cases hw
        · rename_i hlen
          simp only [hlen, if_false]
          split at hw
          · split at hw <;> cases hw
          · rename_i hd
            rw [hx _ (by rw [hd]; simp), hd]
            exact ih hw
          · rename_i b hf
            rw [hx _ (by rw [hf]; simp), hf]
            exact hw

theorem walk_missing_then_found {fs fs' : Fs} (hx : Extends fs fs') {comps : List Name} :
    ∀ {cur par n sl}, walk fs cur comps = .missing par n sl → get fs' (par ++ [n]) = some .dir →
      walk fs' cur comps = .found (par ++ [n]) .dir := by
  induction comps with
  | nil => intro cur par n sl hw; simp [walk] at hw
  | cons c rest ih =>
    intro cur par n sl hw hg
    rw [walk] at hw ⊢
    split at hw
    · rename_i hc; simp only [hc, if_true]; exact ih hw hg
    · rename_i hc
      simp only [hc, if_false]
      split at hw
      · rename_i hdd
        simp only [hdd, if_true]
        split at hw
        · cases hw
        · rename_i hcur; simp only [hcur, if_false]; exact ih hw hg
      · rename_i hdd
        simp only [hdd, if_false]
        split at hw
        · cases hw
        · rename_i hlen
          simp only [hlen, if_false]
          split at hw
          · split at hw
            · rename_i hall
              simp at hw
              obtain ⟨rfl, rfl, _⟩ := hw
              rw [hg]
              exact walk_allEmpty fs' _ rest hall
            · cases hw
          · rename_i hd
            rw [hx _ (by rw [hd]; simp), hd]
            exact ih hw hg
          · split at hw <;> cases hw

/-- the last proper component of a path that resolves to a missing name is that name -/
theorem walk_missing_last {fs : Fs} {comps : List Name} :
    ∀ {cur par n sl}, walk fs cur comps = .missing par n sl →
      (comps.filter (· ≠ "")).getLast? = some n ∧ n ≠ "." ∧ n ≠ ".." := by
  induction comps with
  | nil => intro cur par n sl hw; simp [walk] at hw
  | cons c rest ih =>
    intro cur par n sl hw
    rw [walk] at hw
    have keep : ∀ {cur'}, walk fs cur' rest = .missing par n sl →
        ((c :: rest).filter (· ≠ "")).getLast? = some n ∧ n ≠ "." ∧ n ≠ ".." := by
      intro cur' hw'
      obtain ⟨h1, h2⟩ := ih hw'
      refine ⟨?_, h2⟩
      by_cases hc : c = ""
      · simp [List.filter, hc]; simpa using h1
      · have hne : rest.filter (· ≠ "") ≠ [] := by intro he; rw [he] at h1; simp at h1
        have : (c :: rest).filter (· ≠ "") = c :: rest.filter (· ≠ "") := by simp [List.filter, hc]
        rw [this, List.getLast?_cons_of_ne_nil hne]; exact h1
    split at hw
    · exact keep hw
    · rename_i hc
      split at hw
      · split at hw
        · cases hw
        · exact keep hw
      · rename_i hdd
        split at hw
        · cases hw
        · split at hw
          · split at hw
            · rename_i hall
              simp at hw
              obtain ⟨_, rfl, _⟩ := hw
              have hce : c ≠ "" := fun h => hc (Or.inl h)
              have hcd : c ≠ "." := fun h => hc (Or.inr h)
              refine ⟨?_, hcd, hdd⟩
              have : (c :: rest).filter (· ≠ "") = [c] := by
                simp [List.filter, hce]
                intro a ha
                simpa using (List.all_eq_true.1 hall) a ha
              rw [this]; rfl
            · cases hw
          · exact keep hw
          · split at hw <;> cases hw

theorem resolve_found_stable {fs fs' : Fs} (hx : Extends fs fs') {cwd : Path} {s : String}
    {p : Path} {e : Entry} (hr : resolve fs cwd s = .found p e) : resolve fs' cwd s = .found p e := by
  unfold resolve at hr ⊢
  split at hr
  · cases hr
  · rename_i hs
    simp only [hs, if_false]
    split at hr
    · rename_i ha; simp only [ha, if_true]; exact walk_found_stable hx hr
    · rename_i ha
      simp only [ha]
      split at hr
      · rename_i hc
        rw [hx _ (by rw [hc]; simp), hc]
        simp only [if_true]
        exact walk_found_stable hx hr
      · cases hr

theorem resolve_missing_then_found {fs fs' : Fs} (hx : Extends fs fs') {cwd : Path} {s : String}
    {par : Path} {n : Name} {sl : Bool} (hr : resolve fs cwd s = .missing par n sl)
    (hg : get fs' (par ++ [n]) = some .dir) : resolve fs' cwd s = .found (par ++ [n]) .dir := by
  unfold resolve at hr ⊢
  split at hr
  · cases hr
  · rename_i hs
    simp only [hs, if_false]
    split at hr
    · rename_i ha; simp only [ha, if_true]; exact walk_missing_then_found hx hr hg
    · rename_i ha
      simp only [ha]
      split at hr
      · rename_i hc
        rw [hx _ (by rw [hc]; simp), hc]
        simp only [if_true]
        exact walk_missing_then_found hx hr hg
      · cases hr

theorem resolve_missing_last {fs : Fs} {cwd : Path} {s : String} {par : Path} {n : Name} {sl : Bool}
    (hr : resolve fs cwd s = .missing par n sl) : lastRaw s = some n ∧ n ≠ "." ∧ n ≠ ".." := by
  unfold resolve at hr
  unfold lastRaw
  split at hr
  · cases hr
  · split at hr
    · exact walk_missing_last hr
    · split at hr
      · exact walk_missing_last hr
      · cases hr

/-! ## what the queries say after a mutation -/

/-- after a successful `mkdir` the path names a directory -/
theorem mkdir_then_isDir {fs fs' : Fs} (h : WF fs) {cwd : Path} {s : String}
    (hm : mkdir fs cwd s = .ok fs') : isDir fs' cwd s = true := by
  unfold mkdir at hm
  split at hm
  · rename_i par n sl hr
    obtain ⟨h1, _⟩ := resolve_missing h hr
    cases hm
    have hk : par ++ [n] ≠ [] := by simp
    have := resolve_missing_then_found (extends_set_new hk h1 .dir) hr
      (by rw [get_set _ _ _ _ hk]; simp)
    simp [isDir, stat, this]
  · cases hm
  · cases hm

/-- `mkdir p` then `rmdir p` gives the old tree back -/
theorem mkdir_rmdir_restores {fs fs1 : Fs} (h : WF fs) {cwd : Path} {s : String}
    (hm : mkdir fs cwd s = .ok fs1) :
    ∃ fs2, rmdir fs1 cwd s = .ok fs2 ∧ ∀ q, get fs2 q = get fs q := by
  unfold mkdir at hm
  split at hm
  · rename_i par n sl hr
    obtain ⟨h1, _⟩ := resolve_missing h hr
    obtain ⟨hl, hnd, hndd⟩ := resolve_missing_last hr
    cases hm
    have hk : par ++ [n] ≠ [] := by simp
    have hres := resolve_missing_then_found (extends_set_new hk h1 .dir) hr
      (by rw [get_set _ _ _ _ hk]; simp)
    have hch : children (set fs (par ++ [n]) .dir) (par ++ [n]) = [] := by
      apply (children_nil_iff _ _).2
      intro q hq hd
      rw [get_set _ _ _ _ hk]
      have : q ≠ par ++ [n] := by
        intro he; rw [he] at hd; exact dropLast_ne_self hk hd
      simp only [this, if_false]
      exact no_children_of_not_dir h (by rw [h1]; simp) q hq hd
    refine ⟨erase (set fs (par ++ [n]) .dir) (par ++ [n]), ?_, ?_⟩
    · unfold rmdir
      have e1 : lastRaw s ≠ some "." := by rw [hl]; intro he; exact hnd (Option.some.inj he)
      have e2 : lastRaw s ≠ some ".." := by rw [hl]; intro he; exact hndd (Option.some.inj he)
      simp only [e1, e2, if_false, hres, hch]
      simp
    · intro q
      rw [get_erase _ _ _ hk, get_set _ _ _ _ hk]
      by_cases hq : q = par ++ [n]
      · simp [hq, h1]
      · simp [hq]
  · cases hm
  · cases hm

/-- nothing is found where the lexical normal form of the path has nothing -/
theorem stat_none_of_get_none {fs : Fs} (h : WF fs) {cwd : Path} {s : String} {k : Path}
    {fs0 : Fs} {e0 : Entry} (hr0 : resolve fs0 cwd s = .found k e0) (hg : get fs k = none) :
    stat fs cwd s = none := by
  unfold stat
  split
  · rename_i p e hr
    have hp := resolve_found_lexNorm hr
    have hk := resolve_found_lexNorm hr0
    rw [← hk] at hp
    have := resolve_found h hr
    rw [hp, hg] at this; cases this
  · rfl

/-- after a successful `unlink` the path names nothing -/
theorem unlink_then_gone {fs fs' : Fs} (h : WF fs) {cwd : Path} {s : String}
    (hm : unlink fs cwd s = .ok fs') : isFile fs' cwd s = false ∧ isDir fs' cwd s = false := by
  have hwf := unlink_wf h hm
  unfold unlink at hm
  split at hm
  · rename_i p b hr
    cases hm
    have hp := file_ne_root (resolve_found h hr)
    have := stat_none_of_get_none hwf hr (by rw [get_erase _ _ _ hp]; simp)
    simp [isFile, isDir, this]
  · cases hm
  · cases hm
  · cases hm

/-- after a successful `rmdir` the path names nothing -/
theorem rmdir_then_gone {fs fs' : Fs} (h : WF fs) {cwd : Path} {s : String}
    (hm : rmdir fs cwd s = .ok fs') : isFile fs' cwd s = false ∧ isDir fs' cwd s = false := by
  have hwf := rmdir_wf h hm
  unfold rmdir at hm
  split at hm
  · cases hm
  · split at hm
    · cases hm
    · split at hm
      · rename_i p hr
        split at hm
        · cases hm
        · split at hm
          · cases hm
          · rename_i hp
            cases hm
            have := stat_none_of_get_none hwf hr (by rw [get_erase _ _ _ hp]; simp)
            simp [isFile, isDir, this]
      · cases hm
      · cases hm
      · cases hm

/-! ## create_dir_all -/

/-- only directories were added, nothing else changed -/
def DirExt (fs fs' : Fs) : Prop :=
  ∀ q, get fs' q = get fs q ∨ (get fs q = none ∧ get fs' q = some .dir)

theorem DirExt.refl (fs : Fs) : DirExt fs fs := fun _ => Or.inl rfl

theorem DirExt.trans {a b c : Fs} (h1 : DirExt a b) (h2 : DirExt b c) : DirExt a c := by
  intro q
  rcases h1 q with e1 | ⟨n1, d1⟩
  · rcases h2 q with e2 | ⟨n2, d2⟩
    · left; rw [e2, e1]
    · right; exact ⟨by rw [← e1]; exact n2, d2⟩
  · rcases h2 q with e2 | ⟨n2, _⟩
    · right; exact ⟨n1, by rw [e2, d1]⟩
    · rw [d1] at n2; cases n2

theorem mkdir_dirExt {fs fs' : Fs} (h : WF fs) {cwd : Path} {s : String}
    (hm : mkdir fs cwd s = .ok fs') : DirExt fs fs' := by
  obtain ⟨k, hk, hn, _, rfl⟩ := mkdir_spec h hm
  intro q
  rw [get_set _ _ _ _ hk]
  by_cases hq : q = k
  · right; subst hq; simp [hn]
  · left; simp [hq]

theorem cdaAt_inv {cwd : Path} {mk : Fs → Fs × Option Errno}
    (hmk : ∀ f, WF f → WF (mk f).1 ∧ DirExt f (mk f).1) (isRoot : Bool) {fs : Fs} (h : WF fs)
    (s : String) : WF (cdaAt cwd mk isRoot fs s).1 ∧ DirExt fs (cdaAt cwd mk isRoot fs s).1 := by
  unfold cdaAt
  split
  · rename_i fs' hm; exact ⟨mkdir_wf h hm, mkdir_dirExt h hm⟩
  · split
    · exact ⟨h, DirExt.refl fs⟩
    · have hp := hmk fs h
      split
      · rename_i fs1 e he; rw [he] at hp; exact hp
      · rename_i fs1 he
        rw [he] at hp
        split
        · rename_i fs2 hm2
          exact ⟨mkdir_wf hp.1 hm2, DirExt.trans hp.2 (mkdir_dirExt hp.1 hm2)⟩
        · split <;> exact hp
  · split <;> exact ⟨h, DirExt.refl fs⟩

theorem cda_inv (cwd : Path) : ∀ (cs : List Comp) (fs : Fs), WF fs →
    WF (cda cwd cs fs).1 ∧ DirExt fs (cda cwd cs fs).1 := by
  intro cs
  induction cs with
  | nil => intro fs h; exact ⟨h, DirExt.refl fs⟩
  | cons c par ih => intro fs h; exact cdaAt_inv (fun f hf => ih f hf) _ h _

theorem createDirAll_inv {fs : Fs} (h : WF fs) (cwd : Path) (s : String) :
    WF (createDirAll fs cwd s).1 ∧ DirExt fs (createDirAll fs cwd s).1 := by
  unfold createDirAll
  split
  · exact ⟨h, DirExt.refl fs⟩
  · exact cdaAt_inv (fun f hf => cda_inv cwd _ f hf) _ h _

theorem cdaAt_isDir {cwd : Path} {mk : Fs → Fs × Option Errno}
    (hmk : ∀ f, WF f → WF (mk f).1) (isRoot : Bool) {fs fs' : Fs} (h : WF fs) {s : String}
    (hc : cdaAt cwd mk isRoot fs s = (fs', none)) : isDir fs' cwd s = true := by
  unfold cdaAt at hc
  split at hc
  · rename_i f hm
    cases hc
    exact mkdir_then_isDir h hm
  · split at hc
    · cases hc
    · have hp := hmk fs h
      split at hc
      · cases hc
      · rename_i fs1 he
        rw [he] at hp
        split at hc
        · rename_i fs2 hm2
          cases hc
          exact mkdir_then_isDir hp hm2
        · split at hc
          · rename_i hd; cases hc; exact hd
          · cases hc
  · split at hc
    · rename_i hd; cases hc; exact hd
    · cases hc

theorem cdaAt_of_isDir {cwd : Path} {mk : Fs → Fs × Option Errno} (isRoot : Bool) {fs : Fs}
    {s : String} (hd : isDir fs cwd s = true) : cdaAt cwd mk isRoot fs s = (fs, none) := by
  have hm : mkdir fs cwd s = .error .exist := by
    unfold isDir stat at hd
    unfold mkdir
    split <;> simp_all
  unfold cdaAt
  rw [hm]
  simp [hd]

/-- `make_directory_path` is idempotent: a second call succeeds and changes nothing -/
theorem createDirAll_idem {fs fs' : Fs} (h : WF fs) {cwd : Path} {s : String}
    (hc : createDirAll fs cwd s = (fs', none)) : createDirAll fs' cwd s = (fs', none) := by
  unfold createDirAll at hc ⊢
  split at hc
  · cases hc; rfl
  · rename_i c par he
    exact cdaAt_of_isDir _ (cdaAt_isDir (fun f hf => (cda_inv cwd par f hf).1) _ h hc)

/-- after `make_directory_path` the path names a directory (unless it has no component at all) -/
theorem createDirAll_isDir {fs fs' : Fs} (h : WF fs) {cwd : Path} {s : String}
    (hc : createDirAll fs cwd s = (fs', none)) (hne : rcomps s ≠ []) : isDir fs' cwd s = true := by
  unfold createDirAll at hc
  split at hc
  · rename_i he; simp at he; exact absurd he hne
  · exact cdaAt_isDir (fun f hf => (cda_inv cwd _ f hf).1) _ h hc

/-! ## the invariant over whole scripts -/

theorem ofExcept_wf {fs : Fs} (h : WF fs) {r : Except Errno Fs} (hr : ∀ f, r = .ok f → WF f) :
    WF (ofExcept fs r).1 := by
  unfold ofExcept
  split
  · rename_i f; exact hr f rfl
  · exact h
  · exact h

theorem step_wf (cfg : Cfg) (hcfg : cfg.truncSelf = false) {fs : Fs} (h : WF fs) (op : Op) :
    WF (step cfg fs op).1 := by
  cases op with
  | fileExists a =>
    simp only [step]
    split
    · exact h
    · split <;> exact h
  | dirExists a =>
    simp only [step]
    split
    · exact h
    · split <;> exact h
  | fileSize a sz =>
    simp only [step]
    split
    · exact h
    · split
      · exact h
      · split
        · split <;> exact h
        · exact h
  | dirFiles a l =>
    simp only [step]
    split
    · exact h
    · split
      · exact h
      · split
        · exact h
        · split
          · exact h
          · split <;> exact h
  | mkdir a =>
    simp only [step]
    split
    · exact h
    · exact ofExcept_wf h (fun f hf => mkdir_wf h hf)
  | mkdirPath a =>
    simp only [step]
    split
    · exact h
    · split
      · exact h
      · rename_i s _ _
        have := (createDirAll_inv h cfg.cwd s).1
        split <;> (rename_i he; rw [he] at this; exact this)
  | deleteFile a =>
    simp only [step]
    split
    · exact h
    · split
      · exact h
      · split
        · exact ofExcept_wf h (fun f hf => unlink_wf h hf)
        · exact h
  | deleteDir a =>
    simp only [step]
    split
    · exact h
    · split
      · exact h
      · split
        · exact ofExcept_wf h (fun f hf => rmdir_wf h hf)
        · exact h
  | rename a b =>
    simp only [step]
    split
    · exact h
    · split
      · exact h
      · split
        · split
          · exact h
          · exact ofExcept_wf h (fun f hf => rename_wf h hf)
        · exact h
  | copy a b =>
    simp only [step]
    split
    · exact h
    · split
      · exact h
      · split
        · split
          · exact h
          · rw [hcfg]; exact ofExcept_wf h (fun f hf => copy_wf h hf)
        · exact h
  | canonical a c =>
    simp only [step]
    split
    · exact h
    · split
      · exact h
      · split
        · exact h
        · split
          · exact h
          · split <;> exact h
  | segments p s => exact h
  | envWrite p bytes =>
    simp only [step]
    split
    · rename_i hc
      exact wf_set_file h hc.1 _ hc.2.1 hc.2.2
    · exact h

/-- every tree reached by a script from a well-formed tree is well-formed -/
theorem exec_wf (cfg : Cfg) (hcfg : cfg.truncSelf = false) :
    ∀ (ops : List Op) (fs : Fs), WF fs → WF (exec cfg fs ops) := by
  intro ops
  induction ops with
  | nil => intro fs h; exact h
  | cons op r ih => intro fs h; exact ih _ (step_wf cfg hcfg h op)

end Scryer.FsTree
