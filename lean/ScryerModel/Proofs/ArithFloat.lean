import Mathlib.Tactic.Linarith
import Mathlib.Tactic.Ring
import ScryerModel.Model.ArithFloat
/-! Lemmas about the exact binary64 model (`Model/ArithFloat.lean`): decoding, `roundHalfEven`,
`unitExp`, and the rounding function `rne` (half-ulp error bound, nearest among all doubles,
ties to even, exactness on representable values, monotonicity). -/
set_option linter.unusedVariables false
set_option linter.unusedSimpArgs false
set_option linter.unnecessarySeqFocus false
namespace Scryer.ArithFloat

/-! ### roundHalfEven -/

theorem rhe_cases (N D : Nat) (hD : 0 < D) :
    let m := roundHalfEven N D
    (m = N / D ∧ 2 * (N % D) < D) ∨ (m = N / D + 1 ∧ D < 2 * (N % D)) ∨
    (2 * (N % D) = D ∧ m % 2 = 0 ∧ (m = N / D ∨ m = N / D + 1)) := by
  simp only [roundHalfEven]
  by_cases h1 : 2 * (N % D) < D
  · simp [h1]
  · by_cases h2 : D < 2 * (N % D)
    · simp [h1, h2]
    · have h3 : 2 * (N % D) = D := by omega
      by_cases h4 : N / D % 2 = 0
      · simp [h1, h2, h4, h3]
      · simp [h1, h2, h4, h3]; omega

/-- `m·D` is within `D/2` of `N` (upper side). -/
theorem rhe_le (N D : Nat) (hD : 0 < D) : 2 * (roundHalfEven N D * D) ≤ 2 * N + D := by
  have hdm := Nat.div_add_mod N D
  have hlt := Nat.mod_lt N hD
  rcases rhe_cases N D hD with ⟨hm, h⟩ | ⟨hm, h⟩ | ⟨h, _, hm | hm⟩ <;> rw [hm] <;>
    (try rw [Nat.add_mul]) <;> (have := Nat.mul_comm D (N / D)) <;> omega

/-- `m·D` is within `D/2` of `N` (lower side). -/
theorem rhe_ge (N D : Nat) (hD : 0 < D) : 2 * N ≤ 2 * (roundHalfEven N D * D) + D := by
  have hdm := Nat.div_add_mod N D
  have hlt := Nat.mod_lt N hD
  rcases rhe_cases N D hD with ⟨hm, h⟩ | ⟨hm, h⟩ | ⟨h, _, hm | hm⟩ <;> rw [hm] <;>
    (try rw [Nat.add_mul]) <;> (have := Nat.mul_comm D (N / D)) <;> omega

/-- an exact tie goes to the even neighbour. -/
theorem rhe_tie_even (N D : Nat) (hD : 0 < D)
    (h : 2 * (roundHalfEven N D * D) = 2 * N + D ∨ 2 * N = 2 * (roundHalfEven N D * D) + D) :
    roundHalfEven N D % 2 = 0 := by
  have hdm := Nat.div_add_mod N D
  have hlt := Nat.mod_lt N hD
  rcases rhe_cases N D hD with ⟨hm, h'⟩ | ⟨hm, h'⟩ | ⟨_, he, _⟩
  · rw [hm] at h; have := Nat.mul_comm D (N / D); omega
  · rw [hm, Nat.add_mul] at h; have := Nat.mul_comm D (N / D); omega
  · exact he

/-- exact when `D ∣ N`. -/
theorem rhe_exact (k D : Nat) (hD : 0 < D) : roundHalfEven (k * D) D = k := by
  simp [roundHalfEven, Nat.mul_mod_left, Nat.mul_div_cancel _ hD, hD]

/-- floor ≤ rounded ≤ floor + 1. -/
theorem rhe_bounds (N D : Nat) (hD : 0 < D) :
    N / D ≤ roundHalfEven N D ∧ roundHalfEven N D ≤ N / D + 1 := by
  rcases rhe_cases N D hD with ⟨hm, _⟩ | ⟨hm, _⟩ | ⟨_, _, hm | hm⟩ <;> omega

/-- nearest integer: no integer multiple of `D` is closer to `N` than `m·D`. -/
theorem rhe_nearest (N D : Nat) (hD : 0 < D) (k : Nat) :
    |((roundHalfEven N D * D : Nat) : Int) - N| ≤ |((k * D : Nat) : Int) - N| := by
  have h1 := rhe_le N D hD
  have h2 := rhe_ge N D hD
  generalize roundHalfEven N D = m at *
  rcases Nat.lt_trichotomy k m with hk | hk | hk
  · have : k * D + D ≤ m * D := by
      have := Nat.mul_le_mul_right D (Nat.succ_le_of_lt hk)
      rw [Nat.succ_mul] at this; exact this
    rw [abs_le]; constructor
    · rw [neg_le]; apply le_trans _ (neg_le_abs _); push_cast; omega
    · apply le_trans _ (neg_le_abs _); push_cast; omega
  · subst hk; exact le_refl _
  · have : m * D + D ≤ k * D := by
      have := Nat.mul_le_mul_right D (Nat.succ_le_of_lt hk)
      rw [Nat.succ_mul] at this; exact this
    rw [abs_le]; constructor
    · rw [neg_le]; apply le_trans _ (le_abs_self _); push_cast; omega
    · apply le_trans _ (le_abs_self _); push_cast; omega

/-! ### decoding -/

theorem INF_MAG_lt : INF_MAG < 2 ^ 63 := by unfold INF_MAG; norm_num

theorem mk_mag (neg : Bool) (mag : Nat) (h : mag < 2 ^ 63) : (mk neg mag).mag = mag := by
  unfold mk F64.mag SIGN_BIT
  cases neg <;> simp <;> omega

theorem mk_sign (neg : Bool) (mag : Nat) (h : mag < 2 ^ 63) : (mk neg mag).sign = neg := by
  unfold mk F64.sign SIGN_BIT
  cases neg <;> simp <;> omega

/-- a well-formed pattern is determined by sign and magnitude. -/
theorem mk_sign_mag (x : F64) (h : x.wf) : mk x.sign x.mag = x := by
  cases x with | mk b =>
  have hS : SIGN_BIT = 9223372036854775808 := by unfold SIGN_BIT; norm_num
  have h' : b < 18446744073709551616 := by unfold F64.wf at h; norm_num at h; exact h
  by_cases hb : SIGN_BIT ≤ b
  · have hs : (F64.mk b).sign = true := by unfold F64.sign; exact decide_eq_true hb
    unfold mk; rw [hs]; unfold F64.mag
    show (⟨SIGN_BIT + b % SIGN_BIT⟩ : F64) = ⟨b⟩
    congr 1; rw [hS] at hb ⊢; omega
  · have hs : (F64.mk b).sign = false := by unfold F64.sign; exact decide_eq_false hb
    unfold mk; rw [hs]; unfold F64.mag
    show (⟨0 + b % SIGN_BIT⟩ : F64) = ⟨b⟩
    congr 1; rw [hS] at hb ⊢; omega

/-- the value encoded by exponent step `u` and significand `m` (including the carry `m = 2^53`). -/
theorem scaled_of_um (neg : Bool) (u m : Nat) (hm : m ≤ 2 ^ 53) (hlo : 1 ≤ u → 2 ^ 52 ≤ m)
    (hfin : u * 2 ^ 52 + m < INF_MAG) : (mk neg (u * 2 ^ 52 + m)).scaled = m * 2 ^ u := by
  have hI := INF_MAG_lt
  have hmag := mk_mag neg (u * 2 ^ 52 + m) (by omega)
  unfold F64.scaled F64.sig F64.ulpExp F64.expo F64.mant
  rw [hmag]
  unfold HIDDEN
  norm_num at hm hlo ⊢
  by_cases h1 : m < 4503599627370496
  · have hu : u = 0 := by
      by_contra hne
      have := hlo (by omega); omega
    subst hu; simp [h1]
  · by_cases h2 : m = 9007199254740992
    · subst h2
      have e1 : (u * 4503599627370496 + 9007199254740992) / 4503599627370496 = u + 2 := by omega
      have e2 : (u * 4503599627370496 + 9007199254740992) % 4503599627370496 = 0 := by omega
      have e3 : ¬ (u * 4503599627370496 + 9007199254740992 < 4503599627370496) := by omega
      simp only [e1, e2, e3, if_false]
      have : u + 2 - 1 = u + 1 := by omega
      rw [this, pow_succ]; ring
    · have e1 : (u * 4503599627370496 + m) / 4503599627370496 = u + 1 := by omega
      have e2 : (u * 4503599627370496 + m) % 4503599627370496 = m - 4503599627370496 := by omega
      have e3 : ¬ (u * 4503599627370496 + m < 4503599627370496) := by omega
      simp only [e1, e2, e3, if_false]
      have : u + 1 - 1 = u := by omega
      rw [this]
      have t1 : 4503599627370496 + (m - 4503599627370496) = m := by omega
      have t2 : 4503599627370496 + m % 4503599627370496 = m := by omega
      first | rw [t1] | rw [t2]

/-- the significand of a finite double is below 2^53, and at least 2^52 for normal numbers. -/
theorem sig_lt (x : F64) : x.sig < 2 ^ 53 := by
  unfold F64.sig F64.mant HIDDEN
  split <;> omega

theorem sig_ge_of_normal (x : F64) (h : HIDDEN ≤ x.mag) : 2 ^ 52 ≤ x.sig := by
  unfold F64.sig; unfold HIDDEN at *
  split <;> omega

/-- every double is a multiple of `2^u` or lies below `2^(52+u)`. -/
theorem scaled_grid (x : F64) (u : Nat) : 2 ^ u ∣ x.scaled ∨ x.scaled < 2 ^ (52 + u) := by
  unfold F64.scaled
  by_cases h : u ≤ x.ulpExp
  · left
    exact Dvd.dvd.mul_left (pow_dvd_pow 2 h) _
  · right
    have hs := sig_lt x
    have h1 : x.ulpExp + 1 ≤ u := by omega
    calc x.sig * 2 ^ x.ulpExp < 2 ^ 53 * 2 ^ x.ulpExp := by
          apply Nat.mul_lt_mul_of_pos_right hs (by positivity)
      _ = 2 ^ (52 + (x.ulpExp + 1)) := by rw [← pow_add]; congr 1; omega
      _ ≤ 2 ^ (52 + u) := Nat.pow_le_pow_right (by norm_num) (by omega)

/-! ### unitExp -/

theorem unitExp_spec (t : Nat) :
    (unitExp t = 0 ∧ t < 2 ^ 53) ∨
    (1 ≤ unitExp t ∧ 2 ^ (unitExp t + 52) ≤ t ∧ t < 2 ^ (unitExp t + 53)) := by
  unfold unitExp
  by_cases h : t < 2 ^ 53
  · left; rw [if_pos h]; exact ⟨rfl, h⟩
  · right
    have ht0 : t ≠ 0 := by intro h0; subst h0; norm_num at h
    have h53 : 53 ≤ Nat.log2 t := (Nat.le_log2 ht0).2 (by omega)
    have hlo := Nat.log2_self_le ht0
    have hhi := @Nat.lt_log2_self t
    simp only [h, if_false]
    have e1 : Nat.log2 t - 52 + 52 = Nat.log2 t := by omega
    have e2 : Nat.log2 t - 52 + 53 = Nat.log2 t + 1 := by omega
    rw [e1, e2]
    exact ⟨by omega, hlo, hhi⟩

/-! ### rne -/

/-- the shape of `rneMag`: exponent step `u`, significand `m` in range, and the result bits. -/
theorem rneMag_spec (n d : Nat) (hd : 0 < d) :
    let u := unitExp (n * P / d)
    let m := roundHalfEven (n * P) (d * 2 ^ u)
    m ≤ 2 ^ 53 ∧ (1 ≤ u → 2 ^ 52 ≤ m) ∧ (u = 0 ∨ 2 ^ 52 * (d * 2 ^ u) ≤ n * P) ∧
    (rneMag n d = INF_MAG ∨ (rneMag n d = u * 2 ^ 52 + m ∧ u * 2 ^ 52 + m < INF_MAG)) := by
  intro u m
  have hG : 0 < 2 ^ u := by positivity
  have hD : 0 < d * 2 ^ u := Nat.mul_pos hd hG
  have hb := rhe_bounds (n * P) (d * 2 ^ u) hD
  have hdiv1 : n * P / d * d ≤ n * P := Nat.div_mul_le_self _ _
  have hdiv2 : n * P < (n * P / d + 1) * d := by
    calc n * P < d * (n * P / d + 1) := Nat.lt_mul_div_succ _ hd
      _ = (n * P / d + 1) * d := Nat.mul_comm _ _
  have hup : n * P < 2 ^ 53 * (d * 2 ^ u) := by
    have hu := unitExp_spec (n * P / d)
    have ht : n * P / d + 1 ≤ 2 ^ (u + 53) := by
      rcases hu with ⟨h0, hlt⟩ | ⟨_, _, hlt⟩
      · have : u = 0 := h0
        rw [this]; exact hlt
      · exact hlt
    calc n * P < (n * P / d + 1) * d := hdiv2
      _ ≤ 2 ^ (u + 53) * d := Nat.mul_le_mul_right d ht
      _ = 2 ^ 53 * (d * 2 ^ u) := by rw [pow_add]; ring
  have hq : n * P / (d * 2 ^ u) < 2 ^ 53 := (Nat.div_lt_iff_lt_mul hD).2 hup
  have hlo : u = 0 ∨ 2 ^ 52 * (d * 2 ^ u) ≤ n * P := by
    rcases unitExp_spec (n * P / d) with ⟨h0, _⟩ | ⟨_, hge, _⟩
    · left; exact h0
    · right
      calc 2 ^ 52 * (d * 2 ^ u) = 2 ^ (u + 52) * d := by rw [pow_add]; ring
        _ ≤ n * P / d * d := Nat.mul_le_mul_right d hge
        _ ≤ n * P := hdiv1
  refine ⟨by omega, ?_, hlo, ?_⟩
  · intro hu1
    rcases hlo with h0 | hge
    · omega
    · have : 2 ^ 52 ≤ n * P / (d * 2 ^ u) := (Nat.le_div_iff_mul_le hD).2 hge
      omega
  · show rneMag n d = INF_MAG ∨ _
    unfold rneMag
    by_cases hov : INF_MAG ≤ u * 2 ^ 52 + m
    · left; simp only []; rw [if_pos hov]
    · right; simp only []; rw [if_neg hov]; exact ⟨rfl, by omega⟩

theorem P_pos : 0 < P := by unfold P; positivity

/-- value, magnitude and sign of a rounding that did not overflow. -/
theorem rne_value (neg : Bool) (n d : Nat) (hd : 0 < d) (hfin : rneMag n d ≠ INF_MAG) :
    (rne neg n d).scaled =
      roundHalfEven (n * P) (d * 2 ^ unitExp (n * P / d)) * 2 ^ unitExp (n * P / d) ∧
    (rne neg n d).mag = rneMag n d ∧ (rne neg n d).sign = neg ∧ rneMag n d < INF_MAG := by
  obtain ⟨hm, hlo, _, hmag⟩ := rneMag_spec n d hd
  rcases hmag with h | ⟨h1, h2⟩
  · exact absurd h hfin
  · have hI := INF_MAG_lt
    unfold rne
    rw [h1]
    exact ⟨scaled_of_um neg _ _ hm hlo h2, mk_mag _ _ (by omega), mk_sign _ _ (by omega), h2⟩

/-- **Nearest.** If rounding `n/d` does not overflow, no double (any bit pattern `y`) is closer to
    `n/d` than `rne neg n d`: `|r·2^1074·d − n·2^1074| ≤ |y·2^1074·d − n·2^1074|`. -/
theorem rne_nearest (neg : Bool) (n d : Nat) (hd : 0 < d) (hfin : rneMag n d ≠ INF_MAG) (y : F64) :
    |(((rne neg n d).scaled * d : Nat) : Int) - ((n * P : Nat) : Int)| ≤
    |((y.scaled * d : Nat) : Int) - ((n * P : Nat) : Int)| := by
  obtain ⟨hS, _, _, _⟩ := rne_value neg n d hd hfin
  obtain ⟨hm, hlo, hge, _⟩ := rneMag_spec n d hd
  generalize unitExp (n * P / d) = u at *
  have hD : 0 < d * 2 ^ u := Nat.mul_pos hd (by positivity)
  have hA : (rne neg n d).scaled * d = roundHalfEven (n * P) (d * 2 ^ u) * (d * 2 ^ u) := by
    rw [hS]; ring
  rw [hA]
  have hdvd : 2 ^ u ∣ y.scaled → |((roundHalfEven (n * P) (d * 2 ^ u) * (d * 2 ^ u) : Nat) : Int) - ((n * P : Nat) : Int)| ≤
      |((y.scaled * d : Nat) : Int) - ((n * P : Nat) : Int)| := by
    rintro ⟨k, hk⟩
    have hB : y.scaled * d = k * (d * 2 ^ u) := by rw [hk]; ring
    rw [hB]
    exact rhe_nearest (n * P) (d * 2 ^ u) hD k
  rcases scaled_grid y u with hdv | hlt
  · exact hdvd hdv
  · rcases hge with h0 | hge
    · apply hdvd; rw [h0]; simp
    · have h1 := rhe_nearest (n * P) (d * 2 ^ u) hD (2 ^ 52)
      have h3 : y.scaled * d < 2 ^ 52 * (d * 2 ^ u) := by
        calc y.scaled * d < 2 ^ (52 + u) * d := Nat.mul_lt_mul_of_pos_right hlt hd
          _ = 2 ^ 52 * (d * 2 ^ u) := by rw [pow_add]; ring
      generalize roundHalfEven (n * P) (d * 2 ^ u) * (d * 2 ^ u) = a at *
      generalize 2 ^ 52 * (d * 2 ^ u) = b at *
      generalize y.scaled * d = c at *
      generalize n * P = e at *
      rw [abs_le] at h1 ⊢
      have hb : |((b : Nat) : Int) - (e : Int)| = (e : Int) - b := by
        rw [abs_of_nonpos (by omega)]; ring
      have hc : |((c : Nat) : Int) - (e : Int)| = (e : Int) - c := by
        rw [abs_of_nonpos (by omega)]; ring
      rw [hb] at h1; rw [hc]
      omega

/-- the rounded value is within half a unit in the last place: `2·|r − n/d| ≤ 2^(u−1074)`. -/
theorem rne_half_ulp (neg : Bool) (n d : Nat) (hd : 0 < d) (hfin : rneMag n d ≠ INF_MAG) :
    2 * |(((rne neg n d).scaled * d : Nat) : Int) - ((n * P : Nat) : Int)| ≤
      ((d * 2 ^ unitExp (n * P / d) : Nat) : Int) := by
  obtain ⟨hS, _, _, _⟩ := rne_value neg n d hd hfin
  generalize unitExp (n * P / d) = u at *
  have hD : 0 < d * 2 ^ u := Nat.mul_pos hd (by positivity)
  have hA : (rne neg n d).scaled * d = roundHalfEven (n * P) (d * 2 ^ u) * (d * 2 ^ u) := by
    rw [hS]; ring
  rw [hA]
  have h1 := rhe_le (n * P) (d * 2 ^ u) hD
  have h2 := rhe_ge (n * P) (d * 2 ^ u) hD
  generalize roundHalfEven (n * P) (d * 2 ^ u) * (d * 2 ^ u) = a at *
  generalize d * 2 ^ u = b at *
  generalize n * P = e at *
  rcases abs_cases (((a : Nat) : Int) - (e : Int)) with ⟨h, _⟩ | ⟨h, _⟩ <;> rw [h] <;> omega

/-- **Exactness.** Rounding the exact value of a finite double returns that double. -/
theorem rne_exact (x : F64) (hwf : x.wf) (hfin : x.mag < INF_MAG) : rne x.sign x.scaled P = x := by
  have hP := P_pos
  have hI : INF_MAG = 2047 * 4503599627370496 := by unfold INF_MAG; norm_num
  have hH : HIDDEN = 4503599627370496 := by unfold HIDDEN; norm_num
  have e53 : (2:Nat) ^ 53 = 9007199254740992 := by norm_num
  have e52 : (2:Nat) ^ 52 = 4503599627370496 := by norm_num
  suffices h : rneMag x.scaled P = x.mag by unfold rne; rw [h]; exact mk_sign_mag x hwf
  have hdm := Nat.div_add_mod x.mag 4503599627370496
  have hml := Nat.mod_lt x.mag (show 0 < 4503599627370496 by norm_num)
  unfold rneMag
  simp only []
  rw [Nat.mul_div_cancel _ hP]
  by_cases hX : x.scaled < 2 ^ 53
  · have hu : unitExp x.scaled = 0 := by unfold unitExp; rw [if_pos hX]
    rw [hu]
    have : roundHalfEven (x.scaled * P) (P * 2 ^ 0) = x.scaled := by
      rw [pow_zero, Nat.mul_one]; exact rhe_exact _ _ hP
    rw [this]
    have hmag : x.scaled = x.mag := by
      by_cases h1 : x.mag < 4503599627370496
      · unfold F64.scaled F64.sig F64.ulpExp; rw [hH, if_pos h1, if_pos h1]; simp
      · have hsig : x.sig = 4503599627370496 + x.mag % 4503599627370496 := by
          unfold F64.sig F64.mant; rw [hH, if_neg h1]
        have hue : x.ulpExp = x.mag / 4503599627370496 - 1 := by
          unfold F64.ulpExp F64.expo; rw [hH, if_neg h1]
        have hsc : x.scaled = x.sig * 2 ^ x.ulpExp := rfl
        have he : x.ulpExp = 0 := by
          by_contra hne
          have h2 : 1 ≤ x.ulpExp := by omega
          have h3 : 2 ^ 1 ≤ 2 ^ x.ulpExp := Nat.pow_le_pow_right (by norm_num) h2
          have h4 : x.sig * 2 ^ 1 ≤ x.sig * 2 ^ x.ulpExp := Nat.mul_le_mul_left _ h3
          rw [hsc, e53] at hX; rw [pow_one] at h4; omega
        rw [hsc, he, pow_zero, Nat.mul_one, hsig]; rw [he] at hue; omega
    rw [hmag]
    have hno : ¬ INF_MAG ≤ 0 * 2 ^ 52 + x.mag := by omega
    rw [if_neg hno, Nat.zero_mul, Nat.zero_add]
  · have hmagge : ¬ x.mag < 4503599627370496 := by
      intro h1
      apply hX
      unfold F64.scaled F64.sig F64.ulpExp
      rw [hH, if_pos h1, if_pos h1, pow_zero, Nat.mul_one, e53]; omega
    have hsig : x.sig = 4503599627370496 + x.mag % 4503599627370496 := by
      unfold F64.sig F64.mant; rw [hH, if_neg hmagge]
    have hue : x.ulpExp = x.mag / 4503599627370496 - 1 := by
      unfold F64.ulpExp F64.expo; rw [hH, if_neg hmagge]
    have hsc : x.scaled = x.sig * 2 ^ x.ulpExp := rfl
    have hs1 : 2 ^ 52 ≤ x.sig := by rw [hsig, e52]; omega
    have hs2 : x.sig < 2 ^ 53 := sig_lt x
    have hX0 : x.scaled ≠ 0 := by intro h0; apply hX; rw [h0]; positivity
    have hlog : Nat.log2 x.scaled = 52 + x.ulpExp := by
      rw [Nat.log2_eq_iff hX0, hsc]
      constructor
      · rw [pow_add]; exact Nat.mul_le_mul_right _ hs1
      · have : 2 ^ (52 + x.ulpExp + 1) = 2 ^ 53 * 2 ^ x.ulpExp := by rw [← pow_add]; congr 1; omega
        rw [this]; exact Nat.mul_lt_mul_of_pos_right hs2 (by positivity)
    have hu : unitExp x.scaled = x.ulpExp := by
      unfold unitExp; rw [if_neg hX, hlog]; omega
    rw [hu]
    have : roundHalfEven (x.scaled * P) (P * 2 ^ x.ulpExp) = x.sig := by
      have : x.scaled * P = x.sig * (P * 2 ^ x.ulpExp) := by rw [hsc]; ring
      rw [this]; exact rhe_exact _ _ (Nat.mul_pos hP (by positivity))
    rw [this, hsig, hue, e52]
    have hno : ¬ INF_MAG ≤ (x.mag / 4503599627370496 - 1) * 4503599627370496 +
        (4503599627370496 + x.mag % 4503599627370496) := by omega
    rw [if_neg hno]
    clear hP hX hsc hs1 hs2 hX0 hlog hu this hno
    omega

theorem rneMag_le_inf (n d : Nat) : rneMag n d ≤ INF_MAG := by
  unfold rneMag; simp only []; split <;> omega

theorem rne_mag (neg : Bool) (n d : Nat) : (rne neg n d).mag = rneMag n d := by
  unfold rne; exact mk_mag _ _ (by have := rneMag_le_inf n d; have := INF_MAG_lt; omega)

theorem rne_sign (neg : Bool) (n d : Nat) : (rne neg n d).sign = neg := by
  unfold rne; exact mk_sign _ _ (by have := rneMag_le_inf n d; have := INF_MAG_lt; omega)

theorem rne_not_overflow_of_finite {neg : Bool} {n d : Nat} (h : (rne neg n d).isFinite = true) :
    rneMag n d ≠ INF_MAG := by
  unfold F64.isFinite at h; rw [rne_mag] at h
  have := of_decide_eq_true h; omega

/-- `rne` never produces a NaN: the result is finite or an infinity. -/
theorem rne_not_nan (neg : Bool) (n d : Nat) : (rne neg n d).isNaN = false := by
  unfold F64.isNaN; rw [rne_mag]
  have := rneMag_le_inf n d
  exact decide_eq_false (by omega)

end Scryer.ArithFloat
