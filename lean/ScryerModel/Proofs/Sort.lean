import ScryerModel.Model.Sort
/-
C14 — proofs about the sorting specification (Model/Sort.lean), for an arbitrary total preorder
given as a three-way comparison.
-/
namespace Scryer.Sort

variable {α : Type}

/-- a three-way comparison that is a total preorder: reflexive, antisymmetric in the sense of
    `compare` (swapping the arguments swaps the answer) and transitive on `≤` (= "not `>`").
    The standard order of terms is one (C13: `termCompare_refl/_swap/_tri`). -/
structure IsPreorder (cmp : α → α → Ordering) : Prop where
  refl : ∀ a, cmp a a = .eq
  swap : ∀ a b, cmp b a = (cmp a b).swap
  le_trans : ∀ a b c, cmp a b ≠ .gt → cmp b c ≠ .gt → cmp a c ≠ .gt

/-- a total order: additionally `=` only for identical elements (the standard order on normal
    terms, C13 `termCompare_eq_iff`). -/
structure IsLinear (cmp : α → α → Ordering) : Prop extends IsPreorder cmp where
  eq_imp : ∀ a b, cmp a b = .eq → a = b

namespace IsPreorder
variable {cmp : α → α → Ordering} (h : IsPreorder cmp)
include h

theorem gt_iff (a b : α) : cmp a b = .gt ↔ cmp b a = .lt := by
  rw [h.swap a b]; cases cmp a b <;> simp [Ordering.swap]

theorem lt_iff (a b : α) : cmp a b = .lt ↔ cmp b a = .gt := by
  rw [h.swap a b]; cases cmp a b <;> simp [Ordering.swap]

theorem eq_symm {a b : α} (e : cmp a b = .eq) : cmp b a = .eq := by
  rw [h.swap a b, e]; rfl

theorem eq_comm (a b : α) : cmp a b = .eq ↔ cmp b a = .eq := ⟨h.eq_symm, h.eq_symm⟩

theorem lt_of_lt_of_le {a b c : α} (h1 : cmp a b = .lt) (h2 : cmp b c ≠ .gt) : cmp a c = .lt := by
  have h3 : cmp a c ≠ .gt := h.le_trans a b c (by rw [h1]; decide) h2
  cases hac : cmp a c
  · rfl
  · exfalso
    have : cmp b a ≠ .gt := h.le_trans b c a h2 (by rw [h.eq_symm hac]; decide)
    exact this ((h.lt_iff a b).1 h1)
  · exact absurd hac h3

theorem lt_of_le_of_lt {a b c : α} (h1 : cmp a b ≠ .gt) (h2 : cmp b c = .lt) : cmp a c = .lt := by
  have h3 : cmp a c ≠ .gt := h.le_trans a b c h1 (by rw [h2]; decide)
  cases hac : cmp a c
  · rfl
  · exfalso
    have : cmp c b ≠ .gt := h.le_trans c a b (by rw [h.eq_symm hac]; decide) h1
    exact this ((h.lt_iff b c).1 h2)
  · exact absurd hac h3

theorem lt_trans {a b c : α} (h1 : cmp a b = .lt) (h2 : cmp b c = .lt) : cmp a c = .lt :=
  h.lt_of_lt_of_le h1 (by rw [h2]; decide)

theorem eq_trans {a b c : α} (h1 : cmp a b = .eq) (h2 : cmp b c = .eq) : cmp a c = .eq := by
  have h3 : cmp a c ≠ .gt := h.le_trans a b c (by rw [h1]; decide) (by rw [h2]; decide)
  have h4 : cmp c a ≠ .gt :=
    h.le_trans c b a (by rw [h.eq_symm h2]; decide) (by rw [h.eq_symm h1]; decide)
  cases hac : cmp a c
  · exact absurd ((h.lt_iff a c).1 hac) h4
  · rfl
  · exact absurd hac h3

/-- elements that compare equal compare alike with every third element. -/
theorem congr_left {a b : α} (e : cmp a b = .eq) (c : α) : cmp a c = cmp b c := by
  cases hbc : cmp b c
  · exact h.lt_of_le_of_lt (by rw [e]; decide) hbc
  · exact h.eq_trans e hbc
  · rw [h.gt_iff] at hbc ⊢
    exact h.lt_of_lt_of_le hbc (by rw [h.eq_symm e]; decide)

theorem congr_right {a b : α} (e : cmp a b = .eq) (c : α) : cmp c a = cmp c b := by
  rw [h.swap a c, h.swap b c, h.congr_left e c]

end IsPreorder

/-! ### sortedness, classes -/

/-- non-decreasing. -/
def Sorted (cmp : α → α → Ordering) (l : List α) : Prop := l.Pairwise fun a b => cmp a b ≠ .gt

/-- strictly ascending (hence free of `==` duplicates). -/
def StrictSorted (cmp : α → α → Ordering) (l : List α) : Prop := l.Pairwise fun a b => cmp a b = .lt

/-- the elements of `l` that compare equal to `k`, in their order in `l`. -/
def cls (cmp : α → α → Ordering) (k : α) (l : List α) : List α := l.filter fun y => cmp k y == .eq

@[simp] theorem cls_nil (cmp : α → α → Ordering) (k : α) : cls cmp k [] = [] := rfl

theorem cls_cons (cmp : α → α → Ordering) (k x : α) (l : List α) :
    cls cmp k (x :: l) = if cmp k x = .eq then x :: cls cmp k l else cls cmp k l := by
  simp [cls, List.filter_cons]

theorem cls_append (cmp : α → α → Ordering) (k : α) (a b : List α) :
    cls cmp k (a ++ b) = cls cmp k a ++ cls cmp k b := by
  simp [cls]

theorem StrictSorted.sorted {cmp : α → α → Ordering} {l : List α} (s : StrictSorted cmp l) :
    Sorted cmp l :=
  List.Pairwise.imp (fun {a b} (e : cmp a b = .lt) => by rw [e]; decide) s

section
variable {cmp : α → α → Ordering}

/-! ### insertion sort: sorted, a permutation, stable -/

theorem insertBy_perm (x : α) (l : List α) : (insertBy cmp x l).Perm (x :: l) := by
  induction l with
  | nil => exact List.Perm.refl _
  | cons y ys ih =>
    simp only [insertBy]
    split
    · exact (List.Perm.cons y ih).trans (List.Perm.swap x y ys)
    · exact List.Perm.refl _

theorem isort_perm (l : List α) : (isort cmp l).Perm l := by
  induction l with
  | nil => exact List.Perm.refl _
  | cons x xs ih => exact (insertBy_perm x _).trans (List.Perm.cons x ih)

theorem mem_insertBy {x z : α} {l : List α} : z ∈ insertBy cmp x l ↔ z = x ∨ z ∈ l := by
  rw [(insertBy_perm (cmp := cmp) x l).mem_iff]; simp

theorem insertBy_sorted (h : IsPreorder cmp) (x : α) {l : List α} (s : Sorted cmp l) :
    Sorted cmp (insertBy cmp x l) := by
  induction l with
  | nil => simp [insertBy, Sorted]
  | cons y ys ih =>
    have sy := List.pairwise_cons.1 s
    simp only [insertBy]
    split
    · rename_i hg
      have hg : cmp x y = .gt := by simpa using hg
      refine List.pairwise_cons.2 ⟨?_, ih sy.2⟩
      intro z hz
      rcases mem_insertBy.1 hz with rfl | hz
      · rw [h.swap z y, hg]; decide
      · exact sy.1 z hz
    · rename_i hg
      have hg : cmp x y ≠ .gt := by simpa using hg
      refine List.pairwise_cons.2 ⟨?_, s⟩
      intro z hz
      rcases List.mem_cons.1 hz with rfl | hz
      · exact hg
      · exact h.le_trans x y z hg (sy.1 z hz)

theorem isort_sorted (h : IsPreorder cmp) (l : List α) : Sorted cmp (isort cmp l) := by
  induction l with
  | nil => exact List.Pairwise.nil
  | cons x xs ih => exact insertBy_sorted h x ih

theorem cls_insertBy (h : IsPreorder cmp) (k x : α) (l : List α) :
    cls cmp k (insertBy cmp x l) = cls cmp k (x :: l) := by
  induction l with
  | nil => rfl
  | cons y ys ih =>
    simp only [insertBy]
    split
    · rename_i hg
      have hg : cmp x y = .gt := by simpa using hg
      rw [cls_cons, ih, cls_cons, cls_cons, cls_cons]
      by_cases hx : cmp k x = .eq <;> by_cases hy : cmp k y = .eq <;> simp [hx, hy]
      have : cmp x y = .eq := h.eq_trans (h.eq_symm hx) hy
      rw [this] at hg; cases hg
    · rfl

/-- stability: every class of `==` elements keeps its input order. -/
theorem cls_isort (h : IsPreorder cmp) (k : α) (l : List α) : cls cmp k (isort cmp l) = cls cmp k l := by
  induction l with
  | nil => rfl
  | cons x xs ih =>
    simp only [isort]
    rw [cls_insertBy h, cls_cons, cls_cons, ih]

/-! ### uniqueness of the stable sort -/

theorem sorted_head_le {a : α} {l : List α} (s : Sorted cmp (a :: l)) (h : IsPreorder cmp) :
    ∀ z ∈ a :: l, cmp a z ≠ .gt := by
  intro z hz
  rcases List.mem_cons.1 hz with rfl | hz
  · rw [h.refl]; decide
  · exact (List.pairwise_cons.1 s).1 z hz

theorem mem_of_cls_head {k y : α} {r l : List α} (e : cls cmp k l = y :: r) :
    y ∈ l ∧ cmp k y = .eq := by
  have : y ∈ cls cmp k l := by rw [e]; exact List.mem_cons_self
  have := List.mem_filter.1 this
  exact ⟨this.1, by simpa using this.2⟩

/-- two non-decreasing lists in which every `==` class is the same sequence are the same list. -/
theorem sorted_unique (h : IsPreorder cmp) :
    ∀ (a b : List α), Sorted cmp a → Sorted cmp b → (∀ k, cls cmp k a = cls cmp k b) → a = b := by
  intro a
  induction a with
  | nil =>
    intro b _ _ hc
    cases b with
    | nil => rfl
    | cons y ys =>
      have := hc y
      rw [cls_cons, h.refl] at this
      simp at this
  | cons x xs ih =>
    intro b sa sb hc
    cases b with
    | nil =>
      have := hc x
      rw [cls_cons, h.refl] at this
      simp at this
    | cons y ys =>
      -- x is in b and y is in a, so x ≈ y
      have hx := hc x
      rw [cls_cons, h.refl, if_pos rfl] at hx
      have hxb := mem_of_cls_head hx.symm
      have hy := hc y
      rw [cls_cons cmp y y, h.refl, if_pos rfl] at hy
      have hya := mem_of_cls_head hy
      have hyx : cmp y x ≠ .gt := sorted_head_le sb h x hxb.1
      have hxy : cmp x y ≠ .gt := sorted_head_le sa h y hya.1
      have hxy' : cmp x y = .eq := by
        cases e : cmp x y
        · exact absurd ((h.lt_iff x y).1 e) hyx
        · rfl
        · exact absurd e hxy
      -- the class of x starts with x in a and with y in b
      rw [cls_cons cmp x y, if_pos hxy'] at hx
      have hxy'' : x = y := by injection hx
      subst hxy''
      congr 1
      apply ih _ (List.pairwise_cons.1 sa).2 (List.pairwise_cons.1 sb).2
      intro k
      have := hc k
      rw [cls_cons, cls_cons] at this
      split at this
      · injection this
      · exact this

/-- characterisation of the stable sort: THE non-decreasing list in which every class of
    `==` elements is the same sequence as in the input. -/
theorem isort_iff (h : IsPreorder cmp) (xs ys : List α) :
    ys = isort cmp xs ↔ Sorted cmp ys ∧ ∀ k, cls cmp k ys = cls cmp k xs := by
  constructor
  · rintro rfl
    exact ⟨isort_sorted h xs, fun k => cls_isort h k xs⟩
  · rintro ⟨s, hc⟩
    exact sorted_unique h _ _ s (isort_sorted h xs) (fun k => by rw [hc, cls_isort h])

theorem isort_of_sorted (h : IsPreorder cmp) {l : List α} (s : Sorted cmp l) : isort cmp l = l :=
  ((isort_iff h l l).2 ⟨s, fun _ => rfl⟩).symm

theorem isort_idem (h : IsPreorder cmp) (l : List α) : isort cmp (isort cmp l) = isort cmp l :=
  isort_of_sorted h (isort_sorted h l)

/-! ### merge sort computes the same list -/

theorem merge_nil_right (l : List α) : merge cmp l [] = l := by
  cases l <;> simp [merge]

theorem merge_perm (a b : List α) : (merge cmp a b).Perm (a ++ b) := by
  fun_induction merge cmp a b with
  | case1 ys => simp
  | case2 xs hne => simp
  | case3 x xs y ys hg ih =>
    refine (List.Perm.cons y ih).trans ?_
    exact (List.perm_middle (a := y) (l₁ := x :: xs) (l₂ := ys)).symm
  | case4 x xs y ys hg ih => exact List.Perm.cons x ih

theorem merge_sorted (h : IsPreorder cmp) (a b : List α) (sa : Sorted cmp a) (sb : Sorted cmp b) :
    Sorted cmp (merge cmp a b) := by
  fun_induction merge cmp a b with
  | case1 ys => exact sb
  | case2 xs hne => exact sa
  | case3 x xs y ys hg ih =>
    have hg : cmp x y = .gt := by simpa using hg
    have sb' := List.pairwise_cons.1 sb
    refine List.pairwise_cons.2 ⟨?_, ih sa sb'.2⟩
    intro z hz
    rcases List.mem_append.1 ((merge_perm _ _).mem_iff.1 hz) with hz | hz
    · have hyx : cmp y x = .lt := (h.gt_iff x y).1 hg
      have : cmp y z = .lt := h.lt_of_lt_of_le hyx (sorted_head_le sa h z hz)
      rw [this]; decide
    · exact sb'.1 z hz
  | case4 x xs y ys hg ih =>
    have hg : cmp x y ≠ .gt := by simpa using hg
    have sa' := List.pairwise_cons.1 sa
    refine List.pairwise_cons.2 ⟨?_, ih sa'.2 sb⟩
    intro z hz
    rcases List.mem_append.1 ((merge_perm _ _).mem_iff.1 hz) with hz | hz
    · exact sa'.1 z hz
    · exact h.le_trans x y z hg (sorted_head_le sb h z hz)

/-- merging is stable: in every class the elements of the left run come first. -/
theorem cls_merge (h : IsPreorder cmp) (k : α) (a b : List α) (sa : Sorted cmp a) :
    cls cmp k (merge cmp a b) = cls cmp k a ++ cls cmp k b := by
  fun_induction merge cmp a b with
  | case1 ys => simp
  | case2 xs hne => simp
  | case3 x xs y ys hg ih =>
    have hg : cmp x y = .gt := by simpa using hg
    rw [cls_cons, ih sa, cls_cons cmp k y ys]
    by_cases hy : cmp k y = .eq
    · -- nothing in x :: xs is in the class of y: everything there is > y
      have : cls cmp k (x :: xs) = [] := by
        apply List.filter_eq_nil_iff.2
        intro z hz
        have hyx : cmp y x = .lt := (h.gt_iff x y).1 hg
        have hyz : cmp y z = .lt := h.lt_of_lt_of_le hyx (sorted_head_le sa h z hz)
        have : cmp k z = .lt := by rw [h.congr_left hy z]; exact hyz
        simp [this]
      simp [hy, this]
    · simp [hy]
  | case4 x xs y ys hg ih =>
    rw [cls_cons, ih (List.pairwise_cons.1 sa).2, cls_cons cmp k x xs]
    by_cases hx : cmp k x = .eq <;> simp [hx]

/-- the invariant of the bottom-up passes: all runs sorted. -/
def RunsSorted (cmp : α → α → Ordering) (ls : List (List α)) : Prop := ∀ l ∈ ls, Sorted cmp l

theorem mergePairs_runs (h : IsPreorder cmp) (ls : List (List α)) (hs : RunsSorted cmp ls) :
    RunsSorted cmp (mergePairs cmp ls) := by
  fun_induction mergePairs cmp ls with
  | case1 a b r ih =>
    intro l hl
    rcases List.mem_cons.1 hl with rfl | hl
    · exact merge_sorted h a b (hs a (by simp)) (hs b (by simp))
    · exact ih (fun l hl => hs l (by simp [hl])) l hl
  | case2 l hne => exact hs

theorem cls_mergePairs (h : IsPreorder cmp) (k : α) (ls : List (List α)) (hs : RunsSorted cmp ls) :
    cls cmp k (mergePairs cmp ls).flatten = cls cmp k ls.flatten := by
  fun_induction mergePairs cmp ls with
  | case1 a b r ih =>
    simp only [List.flatten_cons, cls_append]
    rw [ih (fun l hl => hs l (by simp [hl])), cls_merge h k a b (hs a (by simp))]
    simp
  | case2 l hne => rfl

theorem mergePairs_length (ls : List (List α)) :
    (mergePairs cmp ls).length = (ls.length + 1) / 2 := by
  fun_induction mergePairs cmp ls with
  | case1 a b r ih => simp [ih]; omega
  | case2 l hne =>
    match l, hne with
    | [], _ => simp
    | [a], _ => simp
    | a :: b :: r, hne => exact absurd rfl (hne a b r)

theorem mergeAll_spec (h : IsPreorder cmp) :
    ∀ (n : Nat) (ls : List (List α)), ls.length ≤ n + 1 → RunsSorted cmp ls →
      Sorted cmp (mergeAll cmp n ls) ∧
        ∀ k, cls cmp k (mergeAll cmp n ls) = cls cmp k ls.flatten := by
  intro n
  induction n with
  | zero =>
    intro ls hl hs
    match ls, hl with
    | [], _ => exact ⟨List.Pairwise.nil, fun _ => rfl⟩
    | [a], _ => exact ⟨hs a (by simp), fun _ => by simp [mergeAll]⟩
    | _ :: _ :: _, hl => simp at hl
  | succ n ih =>
    intro ls hl hs
    match ls, hl, hs with
    | [], _, _ => exact ⟨List.Pairwise.nil, fun _ => rfl⟩
    | [a], _, hs => exact ⟨hs a (by simp), fun _ => by simp [mergeAll]⟩
    | a :: b :: r, hl, hs =>
      simp only [mergeAll]
      have hlen : (mergePairs cmp (a :: b :: r)).length ≤ n + 1 := by
        rw [mergePairs_length]; simp at hl ⊢; omega
      have := ih _ hlen (mergePairs_runs h _ hs)
      exact ⟨this.1, fun k => by rw [this.2, cls_mergePairs h k _ hs]⟩

theorem flatten_singletons (l : List α) : (l.map fun x => [x]).flatten = l := by
  induction l with
  | nil => rfl
  | cons x xs ih => simp [ih]

/-- the bottom-up merge sort is the stable sort. -/
theorem msort_eq_isort (h : IsPreorder cmp) (l : List α) : msort cmp l = isort cmp l := by
  rw [isort_iff h]
  have hs : RunsSorted cmp (l.map fun x => [x]) := by
    intro r hr
    obtain ⟨x, _, rfl⟩ := List.mem_map.1 hr
    exact List.pairwise_singleton _ _
  have := mergeAll_spec h l.length (l.map fun x => [x]) (by simp) hs
  exact ⟨this.1, fun k => by rw [msort, this.2, flatten_singletons]⟩

theorem msort_perm (h : IsPreorder cmp) (l : List α) : (msort cmp l).Perm l := by
  rw [msort_eq_isort h]; exact isort_perm l

/-! ### removing adjacent duplicates; sort/2 -/

theorem mem_dedupFrom (p : α) (l : List α) : ∀ y ∈ dedupFrom cmp p l, y ∈ l := by
  induction l generalizing p with
  | nil => simp [dedupFrom]
  | cons z r ih =>
    intro y hy
    simp only [dedupFrom] at hy
    split at hy
    · exact List.mem_cons_of_mem _ (ih p y hy)
    · rcases List.mem_cons.1 hy with rfl | hy
      · exact List.mem_cons_self
      · exact List.mem_cons_of_mem _ (ih z y hy)

theorem dedupFrom_covers (h : IsPreorder cmp) (p : α) (l : List α) :
    ∀ x ∈ l, cmp p x = .eq ∨ ∃ y ∈ dedupFrom cmp p l, cmp y x = .eq := by
  induction l generalizing p with
  | nil => simp
  | cons z r ih =>
    intro x hx
    simp only [dedupFrom]
    split
    · rename_i e
      have e : cmp p z = .eq := by simpa using e
      rcases List.mem_cons.1 hx with rfl | hx
      · exact Or.inl e
      · exact ih p x hx
    · right
      rcases List.mem_cons.1 hx with rfl | hx
      · exact ⟨x, List.mem_cons_self, h.refl x⟩
      · rcases ih z x hx with e | ⟨y, hy, e⟩
        · exact ⟨z, List.mem_cons_self, e⟩
        · exact ⟨y, List.mem_cons_of_mem _ hy, e⟩

theorem dedupFrom_strict (h : IsPreorder cmp) (p : α) (l : List α) (s : Sorted cmp (p :: l)) :
    (∀ y ∈ dedupFrom cmp p l, cmp p y = .lt) ∧ StrictSorted cmp (dedupFrom cmp p l) := by
  induction l generalizing p with
  | nil => exact ⟨by simp [dedupFrom], List.Pairwise.nil⟩
  | cons z r ih =>
    have s1 := List.pairwise_cons.1 s
    have s2 := List.pairwise_cons.1 s1.2
    simp only [dedupFrom]
    split
    · apply ih p
      exact List.pairwise_cons.2 ⟨fun y hy => s1.1 y (List.mem_cons_of_mem _ hy), s2.2⟩
    · rename_i e
      have e : cmp p z ≠ .eq := by simpa using e
      have hpz : cmp p z = .lt := by
        have := s1.1 z List.mem_cons_self
        cases hc : cmp p z
        · rfl
        · exact absurd hc e
        · exact absurd hc this
      have := ih z s1.2
      refine ⟨?_, List.pairwise_cons.2 ⟨this.1, this.2⟩⟩
      intro y hy
      rcases List.mem_cons.1 hy with rfl | hy
      · exact hpz
      · exact h.lt_trans hpz (this.1 y hy)

theorem dedupAdj_strict (h : IsPreorder cmp) (l : List α) (s : Sorted cmp l) :
    StrictSorted cmp (dedupAdj cmp l) := by
  cases l with
  | nil => exact List.Pairwise.nil
  | cons x r =>
    have := dedupFrom_strict h x r s
    exact List.pairwise_cons.2 ⟨this.1, this.2⟩

theorem mem_dedupAdj (l : List α) : ∀ y ∈ dedupAdj cmp l, y ∈ l := by
  cases l with
  | nil => simp [dedupAdj]
  | cons x r =>
    intro y hy
    rcases List.mem_cons.1 hy with rfl | hy
    · exact List.mem_cons_self
    · exact List.mem_cons_of_mem _ (mem_dedupFrom x r y hy)

theorem dedupAdj_covers (h : IsPreorder cmp) (l : List α) :
    ∀ x ∈ l, ∃ y ∈ dedupAdj cmp l, cmp y x = .eq := by
  cases l with
  | nil => simp
  | cons z r =>
    intro x hx
    rcases List.mem_cons.1 hx with rfl | hx
    · exact ⟨x, List.mem_cons_self, h.refl x⟩
    · rcases dedupFrom_covers h z r x hx with e | ⟨y, hy, e⟩
      · exact ⟨z, List.mem_cons_self, e⟩
      · exact ⟨y, List.mem_cons_of_mem _ hy, e⟩

theorem dedupFrom_of_strict (p : α) (l : List α) (hp : ∀ y ∈ l, cmp p y = .lt)
    (s : StrictSorted cmp l) : dedupFrom cmp p l = l := by
  induction l generalizing p with
  | nil => rfl
  | cons z r ih =>
    have s1 := List.pairwise_cons.1 s
    simp only [dedupFrom]
    rw [hp z List.mem_cons_self]
    simp only [show (Ordering.lt == Ordering.eq) = false from rfl, Bool.false_eq_true, if_false]
    rw [ih z s1.1 s1.2]

theorem dedupAdj_of_strict (l : List α) (s : StrictSorted cmp l) : dedupAdj cmp l = l := by
  cases l with
  | nil => rfl
  | cons x r =>
    have s1 := List.pairwise_cons.1 s
    simp only [dedupAdj]
    rw [dedupFrom_of_strict x r s1.1 s1.2]

/-- sort/2: strictly ascending; nothing invented; every input element represented. -/
theorem sortDedup_spec (h : IsPreorder cmp) (xs : List α) :
    StrictSorted cmp (sortDedup cmp xs) ∧ (∀ y ∈ sortDedup cmp xs, y ∈ xs) ∧
      ∀ x ∈ xs, ∃ y ∈ sortDedup cmp xs, cmp y x = .eq := by
  unfold sortDedup
  rw [msort_eq_isort h]
  refine ⟨dedupAdj_strict h _ (isort_sorted h xs), ?_, ?_⟩
  · intro y hy
    exact (isort_perm xs).mem_iff.1 (mem_dedupAdj _ y hy)
  · intro x hx
    exact dedupAdj_covers h _ x ((isort_perm xs).mem_iff.2 hx)

theorem strict_head_le (h : IsPreorder cmp) {a : α} {l : List α} (s : StrictSorted cmp (a :: l)) :
    ∀ z ∈ a :: l, cmp a z ≠ .gt := sorted_head_le s.sorted h

/-- position by position related (same length). -/
inductive Pointwise (r : α → α → Prop) : List α → List α → Prop where
  | nil : Pointwise r [] []
  | cons {a b : α} {l₁ l₂ : List α} : r a b → Pointwise r l₁ l₂ → Pointwise r (a :: l₁) (b :: l₂)

theorem Pointwise.length_eq {r : α → α → Prop} {a b : List α} (p : Pointwise r a b) :
    a.length = b.length := by
  induction p with
  | nil => rfl
  | cons _ _ ih => simp [ih]

/-- two strictly ascending lists that represent the same `==` classes agree position by
    position up to `==`. -/
theorem strict_unique (h : IsPreorder cmp) :
    ∀ (a b : List α), StrictSorted cmp a → StrictSorted cmp b →
      (∀ x ∈ a, ∃ y ∈ b, cmp x y = .eq) → (∀ y ∈ b, ∃ x ∈ a, cmp x y = .eq) →
      Pointwise (fun x y => cmp x y = .eq) a b := by
  intro a
  induction a with
  | nil =>
    intro b _ _ _ hb
    cases b with
    | nil => exact Pointwise.nil
    | cons y ys => obtain ⟨x, hx, _⟩ := hb y List.mem_cons_self; cases hx
  | cons x xs ih =>
    intro b sa sb ha hb
    cases b with
    | nil => obtain ⟨y, hy, _⟩ := ha x List.mem_cons_self; cases hy
    | cons y ys =>
      obtain ⟨y', hy', e1⟩ := ha x List.mem_cons_self
      obtain ⟨x', hx', e2⟩ := hb y List.mem_cons_self
      have hyx : cmp y x ≠ .gt := by
        rw [h.congr_right e1 y]; exact strict_head_le h sb y' hy'
      have hxy : cmp x y ≠ .gt := by
        rw [← h.congr_right e2 x]; exact strict_head_le h sa x' hx'
      have hxy' : cmp x y = .eq := by
        cases e : cmp x y
        · exact absurd ((h.lt_iff x y).1 e) hyx
        · rfl
        · exact absurd e hxy
      have sa' := List.pairwise_cons.1 sa
      have sb' := List.pairwise_cons.1 sb
      refine Pointwise.cons hxy' (ih ys sa'.2 sb'.2 ?_ ?_)
      · intro x2 hx2
        obtain ⟨y2, hy2, e⟩ := ha x2 (List.mem_cons_of_mem _ hx2)
        rcases List.mem_cons.1 hy2 with rfl | hy2
        · exfalso
          have : cmp x x2 = .eq := h.eq_trans hxy' (h.eq_symm e)
          rw [sa'.1 x2 hx2] at this; cases this
        · exact ⟨y2, hy2, e⟩
      · intro y2 hy2
        obtain ⟨x2, hx2, e⟩ := hb y2 (List.mem_cons_of_mem _ hy2)
        rcases List.mem_cons.1 hx2 with rfl | hx2
        · exfalso
          have : cmp y y2 = .eq := h.eq_trans (h.eq_symm hxy') e
          rw [sb'.1 y2 hy2] at this; cases this
        · exact ⟨x2, hx2, e⟩

theorem forall2_eq_of_linear (h : IsLinear cmp) {a b : List α}
    (f : Pointwise (fun x y => cmp x y = .eq) a b) : a = b := by
  induction f with
  | nil => rfl
  | cons e _ ih => rw [h.eq_imp _ _ e, ih]

/-- for a total order: two strictly ascending lists with the same elements are equal. -/
theorem strict_unique_linear (h : IsLinear cmp) (a b : List α) (sa : StrictSorted cmp a)
    (sb : StrictSorted cmp b) (hm : ∀ x, x ∈ a ↔ x ∈ b) : a = b := by
  apply forall2_eq_of_linear h
  apply strict_unique h.toIsPreorder a b sa sb
  · intro x hx; exact ⟨x, (hm x).1 hx, h.refl x⟩
  · intro y hy; exact ⟨y, (hm y).2 hy, h.refl y⟩

theorem mem_sortDedup (h : IsLinear cmp) (xs : List α) (x : α) : x ∈ sortDedup cmp xs ↔ x ∈ xs := by
  have sp := sortDedup_spec h.toIsPreorder xs
  constructor
  · exact sp.2.1 x
  · intro hx
    obtain ⟨y, hy, e⟩ := sp.2.2 x hx
    rw [← h.eq_imp _ _ e]; exact hy

/-- sort/2 for a total order: THE strictly ascending list with the same set of elements. -/
theorem sortDedup_iff (h : IsLinear cmp) (xs ys : List α) :
    ys = sortDedup cmp xs ↔ StrictSorted cmp ys ∧ ∀ x, x ∈ ys ↔ x ∈ xs := by
  constructor
  · rintro rfl
    exact ⟨(sortDedup_spec h.toIsPreorder xs).1, mem_sortDedup h xs⟩
  · rintro ⟨s, hm⟩
    exact strict_unique_linear h _ _ s (sortDedup_spec h.toIsPreorder xs).1
      (fun x => by rw [hm, mem_sortDedup h])

theorem sortDedup_of_strict (h : IsPreorder cmp) (l : List α) (s : StrictSorted cmp l) :
    sortDedup cmp l = l := by
  unfold sortDedup
  rw [msort_eq_isort h, isort_of_sorted h s.sorted, dedupAdj_of_strict l s]

theorem sortDedup_idem (h : IsPreorder cmp) (l : List α) :
    sortDedup cmp (sortDedup cmp l) = sortDedup cmp l :=
  sortDedup_of_strict h _ (sortDedup_spec h l).1

/-- naturality: sorting the images under a comparison-preserving map. -/
theorem insertBy_map {β : Type} (cmpβ : β → β → Ordering) (f : β → α)
    (hf : ∀ a b, cmpβ a b = cmp (f a) (f b)) (x : β) (l : List β) :
    (insertBy cmpβ x l).map f = insertBy cmp (f x) (l.map f) := by
  induction l with
  | nil => rfl
  | cons y ys ih => simp only [insertBy, List.map_cons, hf]; split <;> simp [ih]

theorem isort_map {β : Type} (cmpβ : β → β → Ordering) (f : β → α)
    (hf : ∀ a b, cmpβ a b = cmp (f a) (f b)) (l : List β) :
    (isort cmpβ l).map f = isort cmp (l.map f) := by
  induction l with
  | nil => rfl
  | cons x xs ih => simp only [isort, List.map_cons, insertBy_map cmpβ f hf, ih]

theorem dedupFrom_map {β : Type} (cmpβ : β → β → Ordering) (f : β → α)
    (hf : ∀ a b, cmpβ a b = cmp (f a) (f b)) (p : β) (l : List β) :
    (dedupFrom cmpβ p l).map f = dedupFrom cmp (f p) (l.map f) := by
  induction l generalizing p with
  | nil => rfl
  | cons y ys ih => simp only [dedupFrom, List.map_cons, hf]; split <;> simp [ih]

theorem dedupAdj_map {β : Type} (cmpβ : β → β → Ordering) (f : β → α)
    (hf : ∀ a b, cmpβ a b = cmp (f a) (f b)) (l : List β) :
    (dedupAdj cmpβ l).map f = dedupAdj cmp (l.map f) := by
  cases l with
  | nil => rfl
  | cons x r => simp [dedupAdj, dedupFrom_map cmpβ f hf]

end
end Scryer.Sort
