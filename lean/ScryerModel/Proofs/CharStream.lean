import ScryerModel.Model.CharStream
/-! Lemmas for C50 (`Model/CharStream.lean`). Lean core only. -/
namespace Scryer.CharStream
open List

/-- `abs s` is the list of characters the source `s` will still deliver. -/
structure Lawful {σ : Type} (S : Source σ) (abs : σ → List Char) : Prop where
  nil : ∀ s, abs s = [] → S.next s = none
  cons : ∀ s c r, abs s = c :: r → ∃ s', S.next s = some (c, s') ∧ abs s' = r

theorem scanSrc_eq_scan {σ : Type} {S : Source σ} {abs : σ → List Char} (h : Lawful S abs) :
    ∀ (fuel : Nat) (m : Mode) (n : Nat) (s : σ), (abs s).length < fuel →
      scanSrc S fuel m n s = scan m n (abs s) := by
  intro fuel
  induction fuel with
  | zero => intro m n s hl; exact absurd hl (Nat.not_lt_zero _)
  | succ fuel ih =>
    intro m n s hl
    unfold scanSrc
    cases ha : abs s with
    | nil => rw [h.nil s ha]; rfl
    | cons c r =>
      obtain ⟨s', hs, hr⟩ := h.cons s c r ha
      rw [hs]
      simp only [scan]
      cases hstep : step m c with
      | stop => rfl
      | next m' =>
        simp only []
        rw [ih m' (n + 1) s' (by rw [hr]; rw [ha] at hl; simpa using hl), hr]

theorem lawful_list : Lawful listSource (fun s => s) where
  nil := by intro s h; subst h; rfl
  cons := by intro s c r h; subst h; exact ⟨r, rfl, rfl⟩

theorem lawful_pos (contents : List Char) : Lawful (posSource contents) (fun p => contents.drop p) where
  nil := by
    intro p h
    have : contents.length ≤ p := drop_eq_nil_iff.mp h
    simp [posSource, getElem?_eq_none this]
  cons := by
    intro p c r h
    have hp : p < contents.length := by
      apply Nat.lt_of_not_le
      intro hle
      rw [drop_eq_nil_iff.mpr hle] at h
      cases h
    rw [drop_eq_getElem_cons hp] at h
    injection h with h1 h2
    exact ⟨p + 1, by simp [posSource, getElem?_eq_getElem hp, h1], h2⟩

theorem lawful_pb (contents : List Char) :
    Lawful (pbSource contents) (fun s => s.1 ++ contents.drop s.2) where
  nil := by
    rintro ⟨pb, p⟩ h
    have h1 : pb = [] := (append_eq_nil_iff.mp h).1
    have h2 : contents.drop p = [] := (append_eq_nil_iff.mp h).2
    subst h1
    have := (lawful_pos contents).nil p h2
    simpa [pbSource, posSource] using this
  cons := by
    rintro ⟨pb, p⟩ c r h
    cases pb with
    | cons d pb =>
      simp only [cons_append] at h
      injection h with h1 h2
      exact ⟨(pb, p), by simp [pbSource, h1], h2⟩
    | nil =>
      simp only [nil_append] at h
      obtain ⟨p', hp, hr⟩ := (lawful_pos contents).cons p c r h
      simp only [posSource, Option.map_eq_some_iff] at hp
      obtain ⟨ch, hch, hpair⟩ := hp
      injection hpair with hc hp'
      refine ⟨([], p + 1), by simp [pbSource, hch, hc], ?_⟩
      simp only [nil_append]
      rw [← hr, ← hp']

/-! ## bounds -/

theorem scan_done_bounds : ∀ (cs : List Char) (m : Mode) (n k : Nat), scan m n cs = .done k →
    n ≤ k ∧ k ≤ n + cs.length
  | [], m, n, k, h => by
    unfold scan at h
    cases m <;> simp [atEof] at h
    · rename_i p s
      cases s <;> cases n <;> simp at h
    · rename_i s
      cases s <;> simp at h
    · subst h; simp
  | c :: cs, m, n, k, h => by
    unfold scan at h
    cases hs : step m c with
    | stop =>
      rw [hs] at h
      injection h with h
      subst h
      simp
    | next m' =>
      rw [hs] at h
      have := scan_done_bounds cs m' (n + 1) k h
      simp only [length_cons]
      omega

/-! ## output -/

theorem writeFrags_eq (frags : List (List Char)) : ∀ (s : OutStream), writeFrags frags s = s ++ toChars frags := by
  induction frags with
  | nil => intro s; simp [writeFrags, toChars]
  | cons f frags ih =>
    intro s
    have := ih (put s f)
    simp only [writeFrags, foldl_cons, toChars, flatten_cons] at this ⊢
    rw [this, put, append_assoc]

end Scryer.CharStream
