import ScryerModel.Model.Fd
import ScryerModel.Model.ArithInt
import Mathlib.Data.List.Perm.Subperm
import Mathlib.Data.List.Basic
/-!
Helper lemmas for C27 (reference semantics of clp(Z), `Model/Fd.lean`).
-/
namespace Scryer.Fd
open List

/-! ### value lists of domains -/

theorem mem_rangeList {l h x : Int} : x ∈ rangeList l h ↔ l ≤ x ∧ x ≤ h := by
  unfold rangeList
  simp only [List.mem_map, List.mem_range]
  constructor
  · rintro ⟨k, hk, rfl⟩; omega
  · rintro ⟨h1, h2⟩; exact ⟨(x - l).toNat, by omega, by omega⟩

theorem rangeList_sorted (l h : Int) : (rangeList l h).Pairwise (· < ·) := by
  unfold rangeList
  rw [List.pairwise_map]
  exact (List.pairwise_lt_range).imp (by intro a b hab; omega)

theorem mem_merge {z : Int} (xs ys : List Int) : z ∈ merge xs ys ↔ z ∈ xs ∨ z ∈ ys := by
  fun_induction merge xs ys with
  | case1 ys => simp
  | case2 x xs => simp
  | case3 x xs y ys h ih => simp only [List.mem_cons, ih]; tauto
  | case4 x xs y ys h1 h2 ih => simp only [List.mem_cons, ih]; tauto
  | case5 x xs y ys h1 h2 ih =>
      have : x = y := by omega
      subst this
      simp only [List.mem_cons, ih]; tauto

theorem merge_sorted (xs ys : List Int) (hx : xs.Pairwise (· < ·)) (hy : ys.Pairwise (· < ·)) :
    (merge xs ys).Pairwise (· < ·) := by
  fun_induction merge xs ys with
  | case1 ys => exact hy
  | case2 x xs => exact hx
  | case3 x xs y ys h ih =>
      rw [List.pairwise_cons] at hx ⊢
      refine ⟨?_, ih hx.2 hy⟩
      intro z hz
      rw [mem_merge] at hz
      rcases hz with hz | hz
      · exact hx.1 z hz
      · rw [List.pairwise_cons] at hy
        rcases List.mem_cons.1 hz with rfl | hz
        · exact h
        · exact Int.lt_trans h (hy.1 z hz)
  | case4 x xs y ys h1 h2 ih =>
      rw [List.pairwise_cons] at hy ⊢
      refine ⟨?_, ih hx hy.2⟩
      intro z hz
      rw [mem_merge] at hz
      rcases hz with hz | hz
      · rw [List.pairwise_cons] at hx
        rcases List.mem_cons.1 hz with rfl | hz
        · exact h2
        · exact Int.lt_trans h2 (hx.1 z hz)
      · exact hy.1 z hz
  | case5 x xs y ys h1 h2 ih =>
      have : x = y := by omega
      subst this
      rw [List.pairwise_cons] at hx hy ⊢
      refine ⟨?_, ih hx.2 hy.2⟩
      intro z hz
      rw [mem_merge] at hz
      rcases hz with hz | hz
      · exact hx.1 z hz
      · exact hy.1 z hz

theorem mem_inter {z : Int} (xs ys : List Int) : z ∈ inter xs ys ↔ z ∈ xs ∧ z ∈ ys := by
  simp [inter]

theorem Dom.mem_toList (d : Dom) (x : Int) : x ∈ d.toList ↔ d.mem x = true := by
  induction d with
  | single n => simp [Dom.toList, Dom.mem]
  | range l h => simp [Dom.toList, Dom.mem, mem_rangeList]
  | union a b iha ihb => simp [Dom.toList, Dom.mem, mem_merge, iha, ihb]

theorem Dom.toList_sorted (d : Dom) : d.toList.Pairwise (· < ·) := by
  induction d with
  | single n => simp [Dom.toList]
  | range l h => exact rangeList_sorted l h
  | union a b iha ihb => exact merge_sorted _ _ iha ihb

/-! ### the lexicographic product -/

theorem mem_product : ∀ (ds : List (List Int)) (a : List Int),
    a ∈ product ds ↔ List.Forall₂ (fun v d => v ∈ d) a ds
  | [], a => by simp [product]
  | d :: ds, a => by
      simp only [product, List.mem_flatMap, List.mem_map]
      constructor
      · rintro ⟨v, hv, t, ht, rfl⟩
        exact .cons hv ((mem_product ds t).1 ht)
      · intro h
        cases h with
        | cons hv ht => exact ⟨_, hv, _, (mem_product ds _).2 ht, rfl⟩

theorem lexLt_cons {x y : Int} {xs ys : List Int} :
    lexLt (x :: xs) (y :: ys) ↔ x < y ∨ (x = y ∧ lexLt xs ys) := by
  simp [lexLt]

theorem lexLt_irrefl : ∀ a : List Int, ¬ lexLt a a
  | [] => by simp [lexLt]
  | x :: xs => by
      rw [lexLt_cons]
      rintro (h | ⟨_, h⟩)
      · omega
      · exact lexLt_irrefl xs h

theorem lexLt_trans : ∀ {a b c : List Int}, lexLt a b → lexLt b c → lexLt a c
  | [], [], _, h, _ => by simp [lexLt] at h
  | [], _ :: _, [], _, h => by simp [lexLt] at h
  | [], _ :: _, _ :: _, _, _ => by simp [lexLt]
  | _ :: _, [], _, h, _ => by simp [lexLt] at h
  | _ :: _, _ :: _, [], _, h => by simp [lexLt] at h
  | x :: xs, y :: ys, z :: zs, h1, h2 => by
      rw [lexLt_cons] at h1 h2 ⊢
      rcases h1 with h1 | ⟨rfl, h1⟩
      · rcases h2 with h2 | ⟨rfl, _⟩
        · left; omega
        · left; exact h1
      · rcases h2 with h2 | ⟨rfl, h2⟩
        · left; exact h2
        · right; exact ⟨rfl, lexLt_trans h1 h2⟩

theorem product_sorted : ∀ ds : List (List Int), (∀ d ∈ ds, d.Pairwise (· < ·)) →
    (product ds).Pairwise lexLt
  | [], _ => by simp [product]
  | d :: ds, h => by
      simp only [product]
      rw [List.pairwise_flatMap]
      constructor
      · intro v _
        rw [List.pairwise_map]
        exact (product_sorted ds (fun d' hd' => h d' (List.mem_cons_of_mem _ hd'))).imp
          (fun hab => lexLt_cons.2 (Or.inr ⟨rfl, hab⟩))
      · refine (h d List.mem_cons_self).imp ?_
        intro a b hab x hx y hy
        simp only [List.mem_map] at hx hy
        obtain ⟨t, _, rfl⟩ := hx
        obtain ⟨u, _, rfl⟩ := hy
        exact lexLt_cons.2 (Or.inl hab)

/-- reversed lists are strictly descending. -/
theorem reverse_sorted_gt {d : List Int} (h : d.Pairwise (· < ·)) : d.reverse.Pairwise (· > ·) := by
  rw [List.pairwise_reverse]; exact h

/-! ### solutions -/

theorem mem_box (s : System) (a : List Int) :
    a ∈ s.box ↔ List.Forall₂ (fun v d => Dom.mem v d = true) a s.doms := by
  unfold System.box
  rw [mem_product, List.forall₂_map_right_iff]
  constructor <;> intro h <;> exact h.imp (fun {v d} hv => by
    first | exact (Dom.mem_toList d v).1 hv | exact (Dom.mem_toList d v).2 hv)

theorem mem_solutions (s : System) (a : List Int) :
    a ∈ solutions s ↔ List.Forall₂ (fun v d => Dom.mem v d = true) a s.doms ∧ s.holds a = true := by
  unfold solutions
  rw [List.mem_filter, mem_box]

theorem box_sorted (s : System) : s.box.Pairwise lexLt := by
  unfold System.box
  apply product_sorted
  intro d hd
  obtain ⟨d', _, rfl⟩ := List.mem_map.1 hd
  exact Dom.toList_sorted d'

theorem solutions_sorted (s : System) : (solutions s).Pairwise lexLt :=
  (box_sorted s).filter _

theorem solutions_nodup (s : System) : (solutions s).Nodup :=
  (solutions_sorted s).imp (fun {a b} h hab => by subst hab; exact lexLt_irrefl a h)

theorem box_nodup (s : System) : s.box.Nodup :=
  (box_sorted s).imp (fun {a b} h hab => by subst hab; exact lexLt_irrefl a h)

/-! ### the generic labeling tree -/

theorem product_set_perm : ∀ (st : Store) (i : Nat) (L R : List Int), i < st.length →
    (L ++ R).Perm (st.getD i []) →
    (product (st.set i L) ++ product (st.set i R)).Perm (product st)
  | [], _, _, _, hi, _ => by simp at hi
  | d :: ds, 0, L, R, _, h => by
      simp only [List.set_cons_zero, product]
      rw [← List.flatMap_append]
      exact List.Perm.flatMap_right _ (by simpa using h)
  | d :: ds, i+1, L, R, hi, h => by
      simp only [List.set_cons_succ, product]
      refine (List.flatMap_append_perm d _ _).trans ?_
      apply List.Perm.flatMap_left
      intro v _
      rw [← List.map_append]
      exact (product_set_perm ds i L R (by simpa using hi) (by simpa using h)).map _

theorem product_done : ∀ st : Store, st.done = true → product st = (Store.assignment st).toList
  | [], _ => by simp [product, Store.assignment]
  | d :: ds, h => by
      have hd : d.length ≤ 1 ∧ Store.done ds = true := by
        simpa [Store.done] using h
      have ih := product_done ds hd.2
      match d, hd.1 with
      | [], _ => simp [product, Store.assignment, single?]
      | [v], _ =>
          simp only [product, Store.assignment, single?, List.flatMap_cons, List.flatMap_nil,
            List.append_nil, ih]
          cases Store.assignment ds <;> simp

theorem size_set : ∀ (st : Store) (i : Nat) (L : List Int), i < st.length →
    Store.size (st.set i L) + (st.getD i []).length = Store.size st + L.length
  | [], _, _, hi => by simp at hi
  | d :: ds, 0, L, _ => by simp [Store.size]; omega
  | d :: ds, i+1, L, hi => by
      have := size_set ds i L (by simpa using hi)
      simp [Store.size] at this ⊢; omega

theorem not_done_of_open {st : Store} {i : Nat} (h : 2 ≤ (st.getD i []).length) : st.done = false := by
  cases hd : st.done with
  | false => rfl
  | true =>
    exfalso
    simp only [Store.done, List.all_eq_true, decide_eq_true_eq] at hd
    have hi : i < st.length := by
      by_contra hc
      simp [List.getD_eq_getElem?_getD, List.getElem?_eq_none (Nat.le_of_not_lt hc)] at h
    have := hd (st[i]) (List.getElem_mem hi)
    simp [List.getD_eq_getElem?_getD, List.getElem?_eq_getElem hi] at h
    omega

theorem tree_perm (br : Store → Branch) (hv : ValidBranch br) : ∀ (f : Nat) (st : Store),
    st.size ≤ f → ((tree br f st).filterMap Store.assignment).Perm (product st) := by
  intro f
  induction f with
  | zero =>
      intro st hs
      cases hd : st.done with
      | true =>
          rw [show tree br 0 st = [st] from rfl, product_done st hd]
          cases h : Store.assignment st <;> simp [h]
      | false =>
          exfalso
          obtain ⟨hi, hl, hr, hp⟩ := hv st hd
          have h1 := size_set st (br st).i [] hi
          have h2 := hp.length_eq
          have : 0 < (br st).left.length := List.length_pos_iff.2 hl
          simp at h1 h2; omega
  | succ f ih =>
      intro st hs
      cases hd : st.done with
      | true =>
          rw [show tree br (f+1) st = [st] by simp [tree, hd], product_done st hd]
          cases h : Store.assignment st <;> simp [h]
      | false =>
          obtain ⟨hi, hl, hr, hp⟩ := hv st hd
          have hl' : 0 < (br st).left.length := List.length_pos_iff.2 hl
          have hr' : 0 < (br st).right.length := List.length_pos_iff.2 hr
          have h2 := hp.length_eq
          have h1 := size_set st (br st).i (br st).left hi
          have h3 := size_set st (br st).i (br st).right hi
          simp only [List.length_append] at h2
          simp only [tree, hd, Bool.false_eq_true, ↓reduceIte, List.filterMap_append]
          refine ((ih _ (by omega)).append (ih _ (by omega))).trans ?_
          exact product_set_perm st _ _ _ hi hp

theorem labelWith_perm (br : Store → Branch) (hv : ValidBranch br) (s : System) :
    (labelWith br s).Perm (solutions s) := by
  unfold labelWith solutions System.box
  exact (tree_perm br hv _ _ (Nat.le_refl _)).filter _

theorem bisectParts_perm (d : List Int) : ((bisectParts d).1 ++ (bisectParts d).2).Perm d := by
  unfold bisectParts
  exact List.filter_append_perm _ _

theorem firstOpen_spec : ∀ (st : Store) (k : Nat), (∃ d ∈ st, 2 ≤ d.length) →
    k ≤ firstOpen st k ∧ 2 ≤ (st.getD (firstOpen st k - k) []).length
  | [], _, h => by simp at h
  | d :: ds, k, h => by
      unfold firstOpen
      split
      · rename_i hd; simpa using hd
      · rename_i hd
        have h' : ∃ d' ∈ ds, 2 ≤ d'.length := by
          obtain ⟨d', hm, hl⟩ := h
          rcases List.mem_cons.1 hm with rfl | hm
          · exact absurd hl hd
          · exact ⟨d', hm, hl⟩
        obtain ⟨h1, h2⟩ := firstOpen_spec ds (k+1) h'
        refine ⟨by omega, ?_⟩
        have : firstOpen ds (k+1) - k = (firstOpen ds (k+1) - (k+1)) + 1 := by omega
        rw [this]; simpa using h2

theorem exists_open_of_not_done {st : Store} (h : st.done = false) : ∃ d ∈ st, 2 ≤ d.length := by
  by_contra hc
  have : st.done = true := by
    simp only [Store.done, List.all_eq_true, decide_eq_true_eq]
    intro d hd
    by_contra hl
    exact hc ⟨d, hd, by omega⟩
  rw [this] at h; cases h

theorem isOpen_fixSel (sel : Store → Nat) {st : Store} (h : st.done = false) :
    isOpen st (fixSel sel st) = true := by
  unfold fixSel
  split
  · assumption
  · have := (firstOpen_spec st 0 (exists_open_of_not_done h)).2
    simpa [isOpen] using this

theorem lt_length_of_isOpen {st : Store} {i : Nat} (h : isOpen st i = true) : i < st.length := by
  by_contra hc
  simp [isOpen, List.getD_eq_getElem?_getD, List.getElem?_eq_none (Nat.le_of_not_lt hc)] at h

theorem ordered_perm (o : Ord) (d : List Int) : (ordered o d).Perm d := by
  cases o
  · exact List.Perm.refl _
  · exact List.reverse_perm d

theorem stepBranch_valid (sel : Store → Nat) (o : Ord) : ValidBranch (stepBranch sel o) := by
  intro st hd
  have ho := isOpen_fixSel sel hd
  have hi := lt_length_of_isOpen ho
  have hlen : 2 ≤ (st.getD (fixSel sel st) []).length := by simpa [isOpen] using ho
  have hperm := ordered_perm o (st.getD (fixSel sel st) [])
  have hql : 2 ≤ (ordered o (st.getD (fixSel sel st) [])).length := by rw [hperm.length_eq]; exact hlen
  unfold stepBranch
  match hq : ordered o (st.getD (fixSel sel st) []), hql with
  | v :: w :: rest, _ =>
      simp only [hq]
      refine ⟨hi, by simp, by simp, ?_⟩
      rw [hq] at hperm
      simpa using hperm

theorem bisectBranch_valid (sel : Store → Nat) (o : Ord) : ValidBranch (bisectBranch sel o) := by
  intro st hd
  have ho := isOpen_fixSel sel hd
  have hi := lt_length_of_isOpen ho
  unfold bisectBranch
  by_cases hc : ((bisectParts (st.getD (fixSel sel st) [])).1.isEmpty
      || (bisectParts (st.getD (fixSel sel st) [])).2.isEmpty) = true
  · simp only [hc, if_true]
    exact stepBranch_valid sel o st hd
  · simp only [hc, if_false, Bool.false_eq_true]
    simp only [Bool.or_eq_true, List.isEmpty_iff, not_or] at hc
    cases o
    · exact ⟨hi, hc.1, hc.2, bisectParts_perm _⟩
    · exact ⟨hi, hc.2, hc.1, List.perm_append_comm.trans (bisectParts_perm _)⟩


/-! ### exact order of the leftmost / ascending strategies -/

def SortedStore (st : Store) : Prop := ∀ d ∈ st, d.Pairwise (· < ·)

/-- ascending leftmost branching: the first open variable, all left values below all right values. -/
def AscBranch (br : Store → Branch) : Prop :=
  ∀ st : Store, SortedStore st → st.done = false →
    (br st).i = firstOpen st 0 ∧ (∀ x ∈ (br st).left, ∀ y ∈ (br st).right, x < y) ∧
    (br st).left.Pairwise (· < ·) ∧ (br st).right.Pairwise (· < ·)

theorem firstOpen_prefix : ∀ (st : Store) (k j : Nat), j + k < firstOpen st k →
    (st.getD j []).length ≤ 1
  | [], _, _, _ => by simp
  | d :: ds, k, j, h => by
      unfold firstOpen at h
      split at h
      · omega
      · rename_i hd
        cases j with
        | zero => simp; omega
        | succ j =>
            have := firstOpen_prefix ds (k+1) j (by omega)
            simpa using this

theorem lex_of_split : ∀ (st : Store) (i : Nat) (L R a b : List Int),
    (∀ j < i, (st.getD j []).length ≤ 1) → (∀ x ∈ L, ∀ y ∈ R, x < y) → i < st.length →
    a ∈ product (st.set i L) → b ∈ product (st.set i R) → lexLt a b
  | [], _, _, _, _, _, _, _, hi, _, _ => by simp at hi
  | d :: ds, 0, L, R, a, b, _, hlr, _, ha, hb => by
      simp only [List.set_cons_zero, product, List.mem_flatMap, List.mem_map] at ha hb
      obtain ⟨x, hx, t, _, rfl⟩ := ha
      obtain ⟨y, hy, u, _, rfl⟩ := hb
      exact lexLt_cons.2 (Or.inl (hlr x hx y hy))
  | d :: ds, i+1, L, R, a, b, hpre, hlr, hi, ha, hb => by
      simp only [List.set_cons_succ, product, List.mem_flatMap, List.mem_map] at ha hb
      obtain ⟨x, hx, t, ht, rfl⟩ := ha
      obtain ⟨y, hy, u, hu, rfl⟩ := hb
      have hd : d.length ≤ 1 := by simpa using hpre 0 (by omega)
      have hxy : x = y := by
        match d, hd, hx, hy with
        | [z], _, hx, hy => simp at hx hy; rw [hx, hy]
      refine lexLt_cons.2 (Or.inr ⟨hxy, ?_⟩)
      refine lex_of_split ds i L R t u ?_ hlr (by simpa using hi) ht hu
      intro j hj
      simpa using hpre (j+1) (by omega)

theorem sortedStore_set {st : Store} {i : Nat} {L : List Int} (h : SortedStore st)
    (hL : L.Pairwise (· < ·)) : SortedStore (st.set i L) := by
  intro d hd
  rcases List.mem_or_eq_of_mem_set hd with hd | rfl
  · exact h d hd
  · exact hL

theorem tree_sorted (br : Store → Branch) (hv : ValidBranch br) (ha : AscBranch br) :
    ∀ (f : Nat) (st : Store), st.size ≤ f → SortedStore st →
      ((tree br f st).filterMap Store.assignment).Pairwise lexLt := by
  intro f
  induction f with
  | zero =>
      intro st _ _
      rw [show tree br 0 st = [st] from rfl]
      cases h : Store.assignment st <;> simp [h]
  | succ f ih =>
      intro st hs hst
      cases hd : st.done with
      | true =>
          rw [show tree br (f+1) st = [st] by simp [tree, hd]]
          cases h : Store.assignment st <;> simp [h]
      | false =>
          obtain ⟨hi, hl, hr, hp⟩ := hv st hd
          obtain ⟨hfo, hlr, hsl, hsr⟩ := ha st hst hd
          have hl' : 0 < (br st).left.length := List.length_pos_iff.2 hl
          have hr' : 0 < (br st).right.length := List.length_pos_iff.2 hr
          have h2 := hp.length_eq
          have h1 := size_set st (br st).i (br st).left hi
          have h3 := size_set st (br st).i (br st).right hi
          simp only [List.length_append] at h2
          have szl : Store.size (st.set (br st).i (br st).left) ≤ f := by omega
          have szr : Store.size (st.set (br st).i (br st).right) ≤ f := by omega
          simp only [tree, hd, Bool.false_eq_true, ↓reduceIte, List.filterMap_append]
          rw [List.pairwise_append]
          refine ⟨ih _ szl (sortedStore_set hst hsl), ih _ szr (sortedStore_set hst hsr), ?_⟩
          intro a haa b hbb
          have ha' := (tree_perm br hv f _ szl).subset haa
          have hb' := (tree_perm br hv f _ szr).subset hbb
          refine lex_of_split st (br st).i _ _ a b ?_ hlr hi ha' hb'
          intro j hj
          rw [hfo] at hj
          exact firstOpen_prefix st 0 j (by omega)

theorem lexLt_antisymm {a b : List Int} (h1 : lexLt a b) (h2 : lexLt b a) : a = b :=
  absurd (lexLt_trans h1 h2) (lexLt_irrefl a)

theorem labelWith_eq_solutions (br : Store → Branch) (hv : ValidBranch br) (ha : AscBranch br)
    (s : System) : labelWith br s = solutions s := by
  have hp := labelWith_perm br hv s
  have hs : (labelWith br s).Pairwise lexLt := by
    unfold labelWith
    refine (tree_sorted br hv ha _ _ (Nat.le_refl _) ?_).filter _
    intro d hd
    obtain ⟨d', _, rfl⟩ := List.mem_map.1 hd
    exact Dom.toList_sorted d'
  exact List.Perm.eq_of_pairwise (le := lexLt) (fun a b _ _ h1 h2 => lexLt_antisymm h1 h2)
    hs (solutions_sorted s) hp

theorem fixSel_leftmost (st : Store) : fixSel (selIndex .leftmost) st = firstOpen st 0 := by
  have h : selIndex .leftmost st = firstOpen st 0 := rfl
  unfold fixSel
  rw [h]
  exact ite_self _

theorem getD_mem_sorted {st : Store} (h : SortedStore st) (i : Nat) :
    (st.getD i []).Pairwise (· < ·) := by
  by_cases hi : i < st.length
  · rw [List.getD_eq_getElem?_getD, List.getElem?_eq_getElem hi]
    exact h _ (List.getElem_mem hi)
  · rw [List.getD_eq_getElem?_getD, List.getElem?_eq_none (Nat.le_of_not_lt hi)]
    simp

theorem stepBranch_asc : AscBranch (stepBranch (selIndex .leftmost) .up) := by
  intro st hst hd
  have hsorted := getD_mem_sorted hst (fixSel (selIndex .leftmost) st)
  have ho := isOpen_fixSel (selIndex .leftmost) hd
  have hlen : 2 ≤ (st.getD (fixSel (selIndex .leftmost) st) []).length := by simpa [isOpen] using ho
  unfold stepBranch
  simp only [ordered]
  match hq : st.getD (fixSel (selIndex .leftmost) st) [], hlen with
  | v :: w :: rest, _ =>
      rw [hq] at hsorted
      rw [List.pairwise_cons] at hsorted
      refine ⟨fixSel_leftmost st, ?_, by simp, hsorted.2⟩
      intro x hx y hy
      simp only [List.mem_singleton] at hx
      subst hx
      exact hsorted.1 y hy

theorem bisectBranch_asc : AscBranch (bisectBranch (selIndex .leftmost) .up) := by
  intro st hst hd
  unfold bisectBranch
  by_cases hc : ((bisectParts (st.getD (fixSel (selIndex .leftmost) st) [])).1.isEmpty
      || (bisectParts (st.getD (fixSel (selIndex .leftmost) st) [])).2.isEmpty) = true
  · simp only [hc, if_true]
    exact stepBranch_asc st hst hd
  · simp only [hc, if_false, Bool.false_eq_true]
    have hsorted := getD_mem_sorted hst (fixSel (selIndex .leftmost) st)
    refine ⟨fixSel_leftmost st, ?_, ?_, ?_⟩
    · intro x hx y hy
      simp only [bisectParts, List.mem_filter, decide_eq_true_eq, Bool.not_eq_eq_eq_not,
        Bool.not_true, decide_eq_false_iff_not] at hx hy
      omega
    · exact hsorted.filter _
    · exact hsorted.filter _

/-! ### monotonicity -/

theorem solutions_append (d : List Dom) (cs extra : List Constraint) :
    solutions ⟨d, cs ++ extra⟩ = (solutions ⟨d, cs⟩).filter (fun a => extra.all (sat a)) := by
  unfold solutions System.box System.holds
  simp only [List.filter_filter, List.all_append]
  apply List.filter_congr
  intro a _
  exact Bool.and_comm _ _

/-! ### canonical value lists -/

theorem sorted_ext {l₁ l₂ : List Int} (h₁ : l₁.Pairwise (· < ·)) (h₂ : l₂.Pairwise (· < ·))
    (h : ∀ x, x ∈ l₁ ↔ x ∈ l₂) : l₁ = l₂ := by
  have n₁ : l₁.Nodup := h₁.imp (fun hab => Int.ne_of_lt hab)
  have n₂ : l₂.Nodup := h₂.imp (fun hab => Int.ne_of_lt hab)
  have hp : l₁.Perm l₂ := (List.perm_ext_iff_of_nodup n₁ n₂).2 h
  exact List.Perm.eq_of_pairwise (le := (· < ·)) (fun a b _ _ hab hba => by omega) h₁ h₂ hp

theorem inter_sorted {xs : List Int} (ys : List Int) (h : xs.Pairwise (· < ·)) :
    (inter xs ys).Pairwise (· < ·) := h.filter _

/-! ### reification -/

theorem conn_table (p q : Bool) :
    (Conn.apply .and p q = true ↔ (p = true ∧ q = true)) ∧
    (Conn.apply .or p q = true ↔ (p = true ∨ q = true)) ∧
    (Conn.apply .imp p q = true ↔ (p = true → q = true)) ∧
    (Conn.apply .rimp p q = true ↔ (q = true → p = true)) ∧
    (Conn.apply .iff p q = true ↔ (p = true ↔ q = true)) ∧
    (Conn.apply .xor p q = true ↔ ¬ (p = true ↔ q = true)) := by
  cases p <;> cases q <;> simp [Conn.apply]

theorem reify_iff (env : List Int) (i : Nat) (f : Form) :
    sat env (.form (.bin .iff (.bvar i) f)) = true ↔
      f.boolOk env = true ∧
      ((env[i]? = some 1 ∧ f.truth env = true) ∨ (env[i]? = some 0 ∧ f.truth env = false)) := by
  simp only [sat, Form.boolOk, Form.truth, Conn.apply]
  rcases h : env[i]? with _ | v
  · simp
  · by_cases h0 : v = 0
    · subst h0; cases f.truth env <;> cases f.boolOk env <;> simp
    · by_cases h1 : v = 1
      · subst h1; cases f.truth env <;> cases f.boolOk env <;> simp
      · simp [h0, h1]

/-- the rewrite rules of `reify_/2` preserve the meaning. -/
theorem rewrite_imp (env : List Int) (f g : Form) :
    sat env (.form (.bin .imp f g)) = sat env (.form (.bin .or (.not f) g)) := by
  simp [sat, Form.boolOk, Form.truth, Conn.apply]

theorem rewrite_rimp (env : List Int) (f g : Form) :
    sat env (.form (.bin .rimp f g)) = sat env (.form (.bin .imp g f)) := by
  simp only [sat, Form.boolOk, Form.truth, Conn.apply, Bool.and_comm]

theorem rewrite_iff (env : List Int) (f g : Form) :
    sat env (.form (.bin .iff f g)) = sat env (.form (.bin .and (.bin .imp f g) (.bin .imp g f))) := by
  simp only [sat, Form.boolOk, Form.truth, Conn.apply]
  cases f.truth env <;> cases g.truth env <;> cases f.boolOk env <;> cases g.boolOk env <;> rfl

theorem rewrite_xor (env : List Int) (f g : Form) :
    sat env (.form (.bin .xor f g)) =
      sat env (.form (.bin .and (.bin .or f g) (.not (.bin .and f g)))) := by
  simp only [sat, Form.boolOk, Form.truth, Conn.apply]
  cases f.truth env <;> cases g.truth env <;> cases f.boolOk env <;> cases g.boolOk env <;> rfl

theorem rewrite_gt (env : List Int) (l r : Expr) :
    relSat env .gt l r = relSat env .ge l (.bin .add r (.lit 1)) := by
  simp only [relSat, eval, evalBin]
  cases eval env l <;> cases eval env r <;> simp [Rel.holds]
  omega

theorem rewrite_le (env : List Int) (l r : Expr) :
    relSat env .le l r = relSat env .ge r l := by
  simp only [relSat]
  cases eval env l <;> cases eval env r <;> simp [Rel.holds]

theorem rewrite_lt (env : List Int) (l r : Expr) :
    relSat env .lt l r = relSat env .ge r (.bin .add l (.lit 1)) := by
  simp only [relSat, eval, evalBin]
  cases eval env l <;> cases eval env r <;> simp [Rel.holds]
  omega

/-! ### ground expressions and Model.ArithInt -/

def unToArith : UnOp → Arith.UnOp
  | .neg => .neg | .abs => .abs | .sign => .sign

def binToArith : BinOp → Option Arith.BinOp
  | .add => some .add | .sub => some .sub | .mul => some .mul | .tdiv => some .idiv
  | .fdiv => some .div | .mod => some .mod | .rem => some .rem | .exdiv => none
  | .pow => some .pow | .min => some .min | .max => some .max

/-- translation of a ground, `/`-free clp(Z) expression into an is/2 expression of C01. -/
def toArith : Expr → Option Arith.Expr
  | .var _ => none
  | .lit v => some (.lit v)
  | .un op e => (toArith e).map (Arith.Expr.un (unToArith op))
  | .bin op l r =>
      match binToArith op, toArith l, toArith r with
      | some o, some a, some b => some (.bin o a b)
      | _, _, _ => none

theorem evalUn_eq_spec (op : UnOp) (a : Int) :
    Arith.specUn (unToArith op) a = .ok (evalUn op a) := by
  cases op <;> rfl

theorem evalBin_eq_spec {op : BinOp} {o : Arith.BinOp} (h : binToArith op = some o) (a b : Int) :
    evalBin op a b = (Arith.specBin o a b).toOption := by
  cases op <;> simp only [binToArith, Option.some.injEq, reduceCtorEq] at h <;> subst h <;>
    simp only [evalBin, Arith.specBin, Except.toOption]
  all_goals try (split <;> rfl)
  -- pow
  by_cases h0 : a = 0 ∧ b < 0
  · obtain ⟨rfl, hb⟩ := h0
    simp [hb]
  · by_cases h1 : b < 0 ∧ a ≠ 1 ∧ a ≠ -1
    · rw [if_pos h1, if_neg h0, if_pos h1]
    · rw [if_neg h1, if_neg h0, if_neg h1]
      rfl

theorem eval_eq_evalSpec : ∀ (e : Expr) (a : Arith.Expr), toArith e = some a →
    ∀ env, eval env e = (Arith.evalSpec a).toOption
  | .var _, _, h, _ => by simp [toArith] at h
  | .lit v, a, h, _ => by
      simp only [toArith, Option.some.injEq] at h; subst h; rfl
  | .un op e, a, h, env => by
      simp only [toArith, Option.map_eq_some_iff] at h
      obtain ⟨a', ha', rfl⟩ := h
      have ih := eval_eq_evalSpec e a' ha' env
      simp only [eval, Arith.evalSpec, ih]
      cases Arith.evalSpec a' with
      | error x => rfl
      | ok v => simp [Except.toOption, evalUn_eq_spec]
  | .bin op l r, a, h, env => by
      simp only [toArith] at h
      split at h
      · rename_i o a1 a2 ho h1 h2
        simp only [Option.some.injEq] at h; subst h
        have ih1 := eval_eq_evalSpec l a1 h1 env
        have ih2 := eval_eq_evalSpec r a2 h2 env
        simp only [eval, Arith.evalSpec, ih1, ih2]
        cases Arith.evalSpec a1 with
        | error x => rfl
        | ok v =>
          cases Arith.evalSpec a2 with
          | error x => rfl
          | ok w => simp only [Except.toOption]; exact evalBin_eq_spec ho v w
      · cases h


/-! ### descending enumeration -/

theorem product_reverse : ∀ ds : List (List Int),
    product (ds.map List.reverse) = (product ds).reverse
  | [] => by simp [product]
  | d :: ds => by
      simp only [List.map_cons, product, product_reverse ds, List.reverse_flatMap]
      congr 1
      funext v
      simp [Function.comp, List.map_reverse]

theorem solutionsDown_eq (s : System) : solutionsDown s = (solutions s).reverse := by
  unfold solutionsDown solutions System.box
  rw [← List.filter_reverse, ← product_reverse, List.map_map]
  rfl

end Scryer.Fd
