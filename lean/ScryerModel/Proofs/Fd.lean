import ScryerModel.Model.Fd
import ScryerModel.Model.ArithInt
import Mathlib.Data.List.Perm.Subperm
import Mathlib.Data.List.Basic
/-!
Helper lemmas for C27 (reference semantics of clp(Z), `Model/Fd.lean`).
-/
namespace Scryer.Fd
open List

/-! ### value lists of domains -/

theorem mem_rangeList {l h x : Int} : x ∈ rangeList l h ↔ l ≤ x ∧ x ≤ h := by
  unfold rangeList
  simp only [List.mem_map, List.mem_range]
  constructor
  · rintro ⟨k, hk, rfl⟩; omega
  · rintro ⟨h1, h2⟩; exact ⟨(x - l).toNat, by omega, by omega⟩

theorem rangeList_sorted (l h : Int) : (rangeList l h).Pairwise (· < ·) := by
  unfold rangeList
  rw [List.pairwise_map]
  exact (List.pairwise_lt_range).imp (by intro a b hab; omega)

theorem mem_merge {z : Int} (xs ys : List Int) : z ∈ merge xs ys ↔ z ∈ xs ∨ z ∈ ys := by
  fun_induction merge xs ys with
  | case1 ys => simp
  | case2 x xs => simp
  | case3 x xs y ys h ih => simp only [List.mem_cons, ih]; tauto
  | case4 x xs y ys h1 h2 ih => simp only [List.mem_cons, ih]; tauto
  | case5 x xs y ys h1 h2 ih =>
      have : x = y := by omega
      subst this
      simp only [List.mem_cons, ih]; tauto

theorem merge_sorted (xs ys : List Int) (hx : xs.Pairwise (· < ·)) (hy : ys.Pairwise (· < ·)) :
    (merge xs ys).Pairwise (· < ·) := by
  fun_induction merge xs ys with
  | case1 ys => exact hy
  | case2 x xs => exact hx
  | case3 x xs y ys h ih =>
      rw [List.pairwise_cons] at hx ⊢
      refine ⟨?_, ih hx.2 hy⟩
      intro z hz
      rw [mem_merge] at hz
      rcases hz with hz | hz
      · exact hx.1 z hz
      · rw [List.pairwise_cons] at hy
        rcases List.mem_cons.1 hz with rfl | hz
        · exact h
        · exact Int.lt_trans h (hy.1 z hz)
  | case4 x xs y ys h1 h2 ih =>
      rw [List.pairwise_cons] at hy ⊢
      refine ⟨?_, ih hx hy.2⟩
      intro z hz
      rw [mem_merge] at hz
      rcases hz with hz | hz
      · rw [List.pairwise_cons] at hx
        rcases List.mem_cons.1 hz with rfl | hz
        · exact h2
        · exact Int.lt_trans h2 (hx.1 z hz)
      · exact hy.1 z hz
  | case5 x xs y ys h1 h2 ih =>
      have : x = y := by omega
      subst this
      rw [List.pairwise_cons] at hx hy ⊢
      refine ⟨?_, ih hx.2 hy.2⟩
      intro z hz
      rw [mem_merge] at hz
      rcases hz with hz | hz
      · exact hx.1 z hz
      · exact hy.1 z hz

theorem mem_inter {z : Int} (xs ys : List Int) : z ∈ inter xs ys ↔ z ∈ xs ∧ z ∈ ys := by
  simp [inter]

theorem Dom.mem_toList (d : Dom) (x : Int) : x ∈ d.toList ↔ d.mem x = true := by
  induction d with
  | single n => simp [Dom.toList, Dom.mem]
  | range l h => simp [Dom.toList, Dom.mem, mem_rangeList]
  | union a b iha ihb => simp [Dom.toList, Dom.mem, mem_merge, iha, ihb]

theorem Dom.toList_sorted (d : Dom) : d.toList.Pairwise (· < ·) := by
  induction d with
  | single n => simp [Dom.toList]
  | range l h => exact rangeList_sorted l h
  | union a b iha ihb => exact merge_sorted _ _ iha ihb

/-! ### the lexicographic product -/

theorem mem_product : ∀ (ds : List (List Int)) (a : List Int),
    a ∈ product ds ↔ List.Forall₂ (fun v d => v ∈ d) a ds
  | [], a => by simp [product]
  | d :: ds, a => by
      simp only [product, List.mem_flatMap, List.mem_map]
      constructor
      · rintro ⟨v, hv, t, ht, rfl⟩
        exact .cons hv ((mem_product ds t).1 ht)
      · intro h
        cases h with
        | cons hv ht => exact ⟨_, hv, _, (mem_product ds _).2 ht, rfl⟩

theorem lexLt_cons {x y : Int} {xs ys : List Int} :
    lexLt (x :: xs) (y :: ys) ↔ x < y ∨ (x = y ∧ lexLt xs ys) := by
  simp [lexLt]

theorem lexLt_irrefl : ∀ a : List Int, ¬ lexLt a a
  | [] => by simp [lexLt]
  | x :: xs => by
      rw [lexLt_cons]
      rintro (h | ⟨_, h⟩)
      · omega
      · exact lexLt_irrefl xs h

theorem lexLt_trans : ∀ {a b c : List Int}, lexLt a b → lexLt b c → lexLt a c
  | [], [], _, h, _ => by simp [lexLt] at h
  | [], _ :: _, [], _, h => by simp [lexLt] at h
  | [], _ :: _, _ :: _, _, _ => by simp [lexLt]
  | _ :: _, [], _, h, _ => by simp [lexLt] at h
  | _ :: _, _ :: _, [], _, h => by simp [lexLt] at h
  | x :: xs, y :: ys, z :: zs, h1, h2 => by
      rw [lexLt_cons] at h1 h2 ⊢
      rcases h1 with h1 | ⟨rfl, h1⟩
      · rcases h2 with h2 | ⟨rfl, _⟩
        · left; omega
        · left; exact h1
      · rcases h2 with h2 | ⟨rfl, h2⟩
        · left; exact h2
        · right; exact ⟨rfl, lexLt_trans h1 h2⟩

theorem product_sorted : ∀ ds : List (List Int), (∀ d ∈ ds, d.Pairwise (· < ·)) →
    (product ds).Pairwise lexLt
  | [], _ => by simp [product]
  | d :: ds, h => by
      simp only [product]
      rw [List.pairwise_flatMap]
      constructor
      · intro v _
        rw [List.pairwise_map]
        exact (product_sorted ds (fun d' hd' => h d' (List.mem_cons_of_mem _ hd'))).imp
          (fun hab => lexLt_cons.2 (Or.inr ⟨rfl, hab⟩))
      · refine (h d List.mem_cons_self).imp ?_
        intro a b hab x hx y hy
        simp only [List.mem_map] at hx hy
        obtain ⟨t, _, rfl⟩ := hx
        obtain ⟨u, _, rfl⟩ := hy
        exact lexLt_cons.2 (Or.inl hab)

/-- reversed lists are strictly descending. -/
theorem reverse_sorted_gt {d : List Int} (h : d.Pairwise (· < ·)) : d.reverse.Pairwise (· > ·) := by
  rw [List.pairwise_reverse]; exact h

/-! ### solutions -/

theorem mem_box (s : System) (a : List Int) :
    a ∈ s.box ↔ List.Forall₂ (fun v d => Dom.mem v d = true) a s.doms := by
  unfold System.box
  rw [mem_product, List.forall₂_map_right_iff]
  constructor <;> intro h <;> exact h.imp (fun {v d} hv => by
    first | exact (Dom.mem_toList d v).1 hv | exact (Dom.mem_toList d v).2 hv)

theorem mem_solutions (s : System) (a : List Int) :
    a ∈ solutions s ↔ List.Forall₂ (fun v d => Dom.mem v d = true) a s.doms ∧ s.holds a = true := by
  unfold solutions
  rw [List.mem_filter, mem_box]

theorem box_sorted (s : System) : s.box.Pairwise lexLt := by
  unfold System.box
  apply product_sorted
  intro d hd
  obtain ⟨d', _, rfl⟩ := List.mem_map.1 hd
  exact Dom.toList_sorted d'

theorem solutions_sorted (s : System) : (solutions s).Pairwise lexLt :=
  (box_sorted s).filter _

theorem solutions_nodup (s : System) : (solutions s).Nodup :=
  (solutions_sorted s).imp (fun {a b} h hab => by subst hab; exact lexLt_irrefl a h)

theorem box_nodup (s : System) : s.box.Nodup :=
  (box_sorted s).imp (fun {a b} h hab => by subst hab; exact lexLt_irrefl a h)

end Scryer.Fd
