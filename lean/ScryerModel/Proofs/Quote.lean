import ScryerModel.Model.Quote
/-! Helper lemmas for C55 (and C15): character classes, the quoting decision, the token reader. -/
namespace Scryer.Quote
open Scryer.CharClass

theorem ascii_all (P : Char → Prop) (h : ∀ n, n < 128 → P (Char.ofNat n)) :
    ∀ c : Char, c.toNat < 128 → P c := by
  intro c hc
  have := h c.toNat hc
  simpa using this

/-- the graphic token characters (ISO 6.4.2: graphic char | backslash char) -/
def gtList : List Char :=
  ['#', '$', '&', '*', '+', '-', '.', '/', ':', '<', '=', '>', '?', '@', '^', '~', '\\']

theorem gt_mem (u : UC) (c : Char) : graphic_token_char u c = true ↔ c ∈ gtList := by
  simp [graphic_token_char, graphic_char, backslash_char, gtList, or_assoc]

theorem gt_ascii {u : UC} {c : Char} (h : graphic_token_char u c = true) : c.toNat < 128 := by
  have : ∀ x ∈ gtList, x.toNat < 128 := by decide
  exact this c ((gt_mem u c).1 h)

variable {u : UC}

theorem wf_alpha (hu : UCWF u) {c : Char} (hc : c.toNat < 128) :
    alpha_char u c = alpha_char asciiUC c := by
  simp only [alpha_char, hu.numeric c hc, hu.whitespace c hc, hu.control c hc]
  rfl

theorem wf_alnum (hu : UCWF u) {c : Char} (hc : c.toNat < 128) :
    alpha_numeric_char u c = alpha_numeric_char asciiUC c := by
  simp only [alpha_numeric_char, wf_alpha hu hc, hu.numeric c hc]

theorem wf_small (hu : UCWF u) {c : Char} (hc : c.toNat < 128) :
    small_letter_char u c = small_letter_char asciiUC c := by
  simp only [small_letter_char, hu.alphabetic c hc, hu.uppercase c hc]

theorem wf_capital (hu : UCWF u) {c : Char} (hc : c.toNat < 128) :
    capital_letter_char u c = capital_letter_char asciiUC c := by
  simp only [capital_letter_char, hu.uppercase c hc]

/-- ASCII table facts, each checked on all 128 characters by the kernel. -/
theorem ascii_alpha_iso : ∀ c : Char, c.toNat < 128 →
    alpha_char asciiUC c = (c.isAlpha || c == '_') :=
  ascii_all _ (by decide)

theorem ascii_small_iso : ∀ c : Char, c.toNat < 128 → small_letter_char asciiUC c = c.isLower :=
  ascii_all _ (by decide)

theorem ascii_capital_iso : ∀ c : Char, c.toNat < 128 → capital_letter_char asciiUC c = c.isUpper :=
  ascii_all _ (by decide)

theorem ascii_alnum_iso : ∀ c : Char, c.toNat < 128 →
    alpha_numeric_char asciiUC c = (c.isAlpha || c == '_' || c.isDigit) :=
  ascii_all _ (by decide)

theorem gt_facts : ∀ x ∈ gtList, small_letter_char asciiUC x = false ∧ alpha_numeric_char asciiUC x = false
    ∧ capital_letter_char asciiUC x = false ∧ x.isDigit = false ∧ solo_char asciiUC x = false
    ∧ layout_char asciiUC x = false ∧ x ≠ '\'' ∧ x ≠ '"' ∧ x ≠ '_' ∧ x ≠ Char.ofNat 0 := by decide

theorem gt_not_small (hu : UCWF u) {c : Char} (h : graphic_token_char u c = true) :
    small_letter_char u c = false := by
  rw [wf_small hu (gt_ascii h)]; exact (gt_facts c ((gt_mem u c).1 h)).1

theorem gt_not_alnum (hu : UCWF u) {c : Char} (h : graphic_token_char u c = true) :
    alpha_numeric_char u c = false := by
  rw [wf_alnum hu (gt_ascii h)]; exact (gt_facts c ((gt_mem u c).1 h)).2.1

theorem gt_not_capital (hu : UCWF u) {c : Char} (h : graphic_token_char u c = true) :
    capital_letter_char u c = false := by
  rw [wf_capital hu (gt_ascii h)]; exact (gt_facts c ((gt_mem u c).1 h)).2.2.1

/-! ### the quoting decision -/

theorem all_eq_true_iff {p : Char → Bool} {l : List Char} : l.all p = true ↔ ∀ d ∈ l, p d = true := by
  simp

theorem nonQuotedGraphic_iff (c : Char) (r : List Char) :
    nonQuotedGraphicToken u c r = true ↔
      (∀ d ∈ r, graphic_token_char u d = true) ∧ ¬ (c = '/' ∧ ∃ r', r = '*' :: r') ∧ ¬ (c = '.' ∧ r = []) := by
  unfold nonQuotedGraphicToken
  by_cases h1 : c = '/'
  · subst h1
    cases r with
    | nil => simp
    | cons d r' =>
      by_cases h2 : d = '*'
      · subst h2; simp
      · by_cases h3 : graphic_token_char u d = true <;> simp [h2, h3]
  · by_cases h2 : c = '.'
    · subst h2
      cases r with
      | nil => simp
      | cons d r' => by_cases h3 : graphic_token_char u d = true <;> simp [h3]
    · simp [h1, h2]

theorem nonQuoted_small {c : Char} (r : List Char) (h : small_letter_char u c = true) :
    nonQuotedToken u (c :: r) = r.all (alpha_numeric_char u) := by
  simp [nonQuotedToken, h]

theorem nonQuoted_graphic (hu : UCWF u) {c : Char} (r : List Char) (h : graphic_token_char u c = true) :
    nonQuotedToken u (c :: r) = nonQuotedGraphicToken u c r := by
  simp [nonQuotedToken, h, gt_not_small hu h]

/-- not a small letter, not a graphic token character: only the solo atoms are left unquoted -/
theorem nonQuoted_other {c : Char} (r : List Char) (h1 : small_letter_char u c = false)
    (h2 : graphic_token_char u c = false) :
    nonQuotedToken u (c :: r) = true ↔
      (c = ';' ∧ r = []) ∨ (c = '!' ∧ r = []) ∨ (c = '[' ∧ r = [']']) ∨ (c = '{' ∧ r = ['}']) := by
  simp only [nonQuotedToken, h1, h2, semicolon_char, cut_char, solo_char]
  by_cases a1 : c = ';'
  · subst a1; simp
  by_cases a2 : c = '!'
  · subst a2; simp
  by_cases a3 : c = '['
  · subst a3; simp
  by_cases a4 : c = '{'
  · subst a4; simp
  simp [a1, a2, a3, a4]
  grind

/-! ### the token reader on unquoted atom texts -/

/-- `k` is empty or starts with a character outside `p` -/
def stops (p : Char → Bool) : List Char → Prop
  | [] => True
  | c :: _ => p c = false

theorem spanP_append {p : Char → Bool} {r k : List Char} (h : ∀ d ∈ r, p d = true) (hk : stops p k) :
    spanP p (r ++ k) = (r, k) := by
  induction r with
  | nil =>
    cases k with
    | nil => simp [spanP]
    | cons c k => simp [spanP, stops] at *; simp [hk]
  | cons d r ih =>
    have hd : p d = true := h d (by simp)
    have := ih (fun x hx => h x (by simp [hx]))
    simp [spanP, hd, this]

theorem spanP_all {p : Char → Bool} {r : List Char} (h : ∀ d ∈ r, p d = true) : spanP p r = (r, []) := by
  simpa using spanP_append (k := []) h trivial

theorem scanLayout_id {c : Char} {r : List Char} (ins : Bool) (h1 : layout_char u c = false) (h2 : c ≠ '%')
    (h3 : c = '/' → ∀ r', r ≠ '*' :: r') : scanLayout u .top ins (c :: r) = some (ins, c :: r) := by
  unfold scanLayout
  simp only [h1, end_line_comment_char, comment_1_char, comment_2_char]
  by_cases hc : c = '/'
  · subst hc
    cases r with
    | nil => simp
    | cons d r' =>
      have : d ≠ '*' := fun hd => h3 rfl r' (by rw [hd])
      simp [this]
  · simp [h2, hc]

def specials : List Char := ['_', ',', ')', '(', '.', ']', '[', '|', '{', '}', '"', Char.ofNat 0]

theorem nextTokAt_name {c : Char} {r : List Char} {lay : Bool} (h1 : capital_letter_char u c = false)
    (h2 : c ∉ specials) (h3 : c.isDigit = false) : nextTokAt u lay (c :: r) = nameToken u c r := by
  simp [specials] at h2
  simp [nextTokAt, h1, variable_indicator_char, decimal_digit_char, h3, h2]

theorem cap_ascii (hu : UCWF u) {c : Char} (hc : c.toNat < 128) : capital_letter_char u c = c.isUpper := by
  rw [wf_capital hu hc, ascii_capital_iso c hc]

theorem small_ascii (hu : UCWF u) {c : Char} (hc : c.toNat < 128) : small_letter_char u c = c.isLower := by
  rw [wf_small hu hc, ascii_small_iso c hc]

theorem alnum_ascii (hu : UCWF u) {c : Char} (hc : c.toNat < 128) :
    alpha_numeric_char u c = (c.isAlpha || c == '_' || c.isDigit) := by
  rw [wf_alnum hu hc, ascii_alnum_iso c hc]

theorem nextTokAt_dot (hu : UCWF u) {d : Char} {r : List Char} {lay : Bool} (h1 : layout_char u d = false)
    (h2 : d ≠ '%') : nextTokAt u lay ('.' :: d :: r) = nameToken u '.' (d :: r) := by
  have hc : capital_letter_char u '.' = false := by rw [cap_ascii hu (by decide)]; decide
  simp [nextTokAt, hc, variable_indicator_char, h1, h2]

theorem nextTok_nil : nextTok u [] = .eof := by simp [nextTok, scanLayout, nextTokAt]

theorem tokens_one {s : List Char} {t : Tok} (hs : s ≠ []) (h : nextTok u s = .tok t []) :
    tokens u s = some [t] := by
  cases s with
  | nil => exact absurd rfl hs
  | cons c r =>
    simp [tokens, tokensFuel, h, nextTok_nil]

theorem tokens_two {s r : List Char} {t t' : Tok} (hr : r ≠ []) (hlen : r.length < s.length)
    (h : nextTok u s = .tok t r) (h' : nextTok u r = .tok t' []) : tokens u s = some [t, t'] := by
  cases s with
  | nil => simp at hlen
  | cons c s' =>
    cases s' with
    | nil => cases r <;> simp at hlen hr
    | cons c' s'' => simp [tokens, tokensFuel, h, h', nextTok_nil]

/-- a small letter is not any ASCII character that is not a lower-case letter -/
theorem small_ne (hu : UCWF u) {c x : Char} (h : small_letter_char u c = true) (hx : x.toNat < 128)
    (hl : x.isLower = false) : c ≠ x := by
  intro e; subst e; rw [small_ascii hu hx] at h; simp [hl] at h

theorem small_not_capital {c : Char} (h : small_letter_char u c = true) : capital_letter_char u c = false := by
  simp [small_letter_char] at h; simp [capital_letter_char, h.2]

theorem digit_ascii {c : Char} (hd : c.isDigit = true) : c.toNat < 128 := by
  simp only [Char.isDigit, Bool.and_eq_true, decide_eq_true_eq] at hd
  have h2 : c.val.toNat ≤ 57 := UInt32.le_iff_toNat_le.mp hd.2
  show c.val.toNat < 128
  omega

theorem small_not_digit (hu : UCWF u) {c : Char} (h : small_letter_char u c = true) : c.isDigit = false := by
  cases hd : c.isDigit with
  | false => rfl
  | true =>
    have hc : c.toNat < 128 := digit_ascii hd
    have : ∀ c : Char, c.toNat < 128 → c.isDigit = true → c.isLower = false := ascii_all _ (by decide)
    rw [small_ascii hu hc, this c hc hd] at h; exact absurd h (by simp)

theorem small_facts (hu : UCWF u) {c : Char} (h : small_letter_char u c = true) :
    c ∉ specials ∧ layout_char u c = false ∧ c ≠ '%' ∧ c ≠ '/' ∧ graphic_token_char u c = false := by
  have ne : ∀ x : Char, x.toNat < 128 → x.isLower = false → c ≠ x := fun x hx hl => small_ne hu h hx hl
  refine ⟨?_, ?_, ne _ (by decide) (by decide), ne _ (by decide) (by decide), ?_⟩
  · simp only [specials, List.mem_cons, List.not_mem_nil, or_false, not_or]
    exact ⟨ne _ (by decide) (by decide), ne _ (by decide) (by decide), ne _ (by decide) (by decide),
      ne _ (by decide) (by decide), ne _ (by decide) (by decide), ne _ (by decide) (by decide),
      ne _ (by decide) (by decide), ne _ (by decide) (by decide), ne _ (by decide) (by decide),
      ne _ (by decide) (by decide), ne _ (by decide) (by decide), ne _ (by decide) (by decide)⟩
  · simp only [layout_char, Bool.or_eq_false_iff, beq_eq_false_iff_ne]
    exact ⟨⟨⟨⟨⟨ne _ (by decide) (by decide), ne _ (by decide) (by decide)⟩, ne _ (by decide) (by decide)⟩,
      ne _ (by decide) (by decide)⟩, ne _ (by decide) (by decide)⟩, ne _ (by decide) (by decide)⟩
  · cases hg : graphic_token_char u c with
    | false => rfl
    | true => rw [gt_not_small hu hg] at h; exact absurd h (by simp)

theorem gt_facts2 : ∀ x ∈ gtList, x ≠ '%' ∧ (x ≠ '.' → x ∉ specials) := by decide

theorem ascii_alpha_sane : ∀ c : Char, c.toNat < 128 → asciiUC.is_alphabetic c = true →
    asciiUC.is_whitespace c = false ∧ asciiUC.is_control c = false :=
  ascii_all _ (by decide)

theorem alpha_ascii_of_lt {c : Char} (h : c.isAlpha = true) : c.toNat < 128 := by
  simp only [Char.isAlpha, Char.isUpper, Char.isLower, Bool.or_eq_true, Bool.and_eq_true, decide_eq_true_eq] at h
  rcases h with h | h
  · have h2 : c.val.toNat ≤ 90 := UInt32.le_iff_toNat_le.mp h.2
    show c.val.toNat < 128; omega
  · have h2 : c.val.toNat ≤ 122 := UInt32.le_iff_toNat_le.mp h.2
    show c.val.toNat < 128; omega

theorem asciiUC_wf : UCWF asciiUC :=
  ⟨fun _ _ => rfl, fun _ _ => rfl, fun _ _ => rfl, fun _ _ => rfl, fun _ _ => rfl,
   fun c h => ascii_alpha_sane c (alpha_ascii_of_lt h) h⟩

theorem mkUC_wf (tbl : List (Nat × Nat)) : UCWF (mkUC tbl) := by
  refine ⟨fun c h => by simp [mkUC, h], fun c h => by simp [mkUC, h], fun c h => by simp [mkUC, h],
    fun c h => by simp [mkUC, h], fun c h => by simp [mkUC, h], ?_⟩
  intro c h
  by_cases hc : c.toNat < 128
  · simp only [mkUC, hc, if_true] at h ⊢
    exact ascii_alpha_sane c hc h
  · simp only [mkUC, hc, if_false] at h ⊢
    simp only [Bool.and_eq_true, Bool.not_eq_true'] at h
    exact ⟨h.1.2, h.2⟩

end Scryer.Quote
