import ScryerModel.Model.Order
import Mathlib.Tactic.Linarith
import Mathlib.Tactic.Ring
import Mathlib.Data.Nat.GCD.Basic
import Mathlib.Algebra.Order.Field.Basic
import Mathlib.Data.Rat.Cast.Order
import Mathlib.Logic.Equiv.List
import Mathlib.Tactic.IntervalCases
/-!
Helper lemmas for C13 (`Model/Order.lean`): the standard order is a total preorder on all
terms, and a total order on normal ones.
-/
namespace Scryer.Order
open Scryer

/-! ### the laws on a triple, and lexicographic composition -/

/-- the facts a comparison must satisfy on a triple `a b c`, in terms of the three results
    `ab = cmp a b`, `bc = cmp b c`, `ac = cmp a c`. -/
structure Tri (ab bc ac : Ordering) : Prop where
  lt_lt : ab = .lt → bc = .lt → ac = .lt
  gt_gt : ab = .gt → bc = .gt → ac = .gt
  eq_l : ab = .eq → ac = bc
  eq_r : bc = .eq → ab = ac

theorem Tri.then' {ab bc ac ab' bc' ac' : Ordering} (h : Tri ab bc ac)
    (h' : ab = .eq → bc = .eq → Tri ab' bc' ac') :
    Tri (ab.then ab') (bc.then bc') (ac.then ac') := by
  obtain ⟨h1, h2, h3, h4⟩ := h
  cases ab <;> cases bc <;> cases ac <;> simp at h1 h2 h3 h4 <;>
    first
    | (obtain ⟨g1, g2, g3, g4⟩ := h' rfl rfl
       constructor <;> simpa using ‹_›)
    | (constructor <;> simp)

theorem Tri.then {ab bc ac ab' bc' ac' : Ordering} (h : Tri ab bc ac) (h' : Tri ab' bc' ac') :
    Tri (ab.then ab') (bc.then bc') (ac.then ac') := h.then' (fun _ _ => h')

theorem tri_nat (x y z : Nat) : Tri (compare x y) (compare y z) (compare x z) := by
  constructor
  · simp only [Nat.compare_eq_lt]; omega
  · simp only [Nat.compare_eq_gt]; omega
  · intro h; rw [Nat.compare_eq_eq] at h; subst h; rfl
  · intro h; rw [Nat.compare_eq_eq] at h; subst h; rfl

theorem tri_int (x y z : Int) : Tri (compare x y) (compare y z) (compare x z) := by
  constructor
  · simp only [Int.compare_eq_lt]; omega
  · simp only [Int.compare_eq_gt]; omega
  · intro h; rw [Int.compare_eq_eq] at h; subst h; rfl
  · intro h; rw [Int.compare_eq_eq] at h; subst h; rfl

theorem Tri.const (o : Ordering) : Tri o o o := by
  constructor <;> simp

section cmpList
variable {α : Type} {cmp : α → α → Ordering}

@[simp] theorem cmpList_nil_nil : cmpList cmp [] [] = .eq := rfl
@[simp] theorem cmpList_nil_cons (b : α) (bs) : cmpList cmp [] (b :: bs) = .lt := rfl
@[simp] theorem cmpList_cons_nil (a : α) (as) : cmpList cmp (a :: as) [] = .gt := rfl
@[simp] theorem cmpList_cons_cons (a b : α) (as bs) :
    cmpList cmp (a :: as) (b :: bs) = (cmp a b).then (cmpList cmp as bs) := rfl

theorem cmpList_refl (as : List α) (h : ∀ a ∈ as, cmp a a = .eq) : cmpList cmp as as = .eq := by
  induction as with
  | nil => rfl
  | cons a as ih =>
    simp [h a (by simp), ih (fun x hx => h x (by simp [hx]))]

theorem cmpList_swap (as bs : List α) (h : ∀ a ∈ as, ∀ b ∈ bs, cmp b a = (cmp a b).swap) :
    cmpList cmp bs as = (cmpList cmp as bs).swap := by
  induction as generalizing bs with
  | nil => cases bs <;> rfl
  | cons a as ih =>
    cases bs with
    | nil => rfl
    | cons b bs =>
      simp only [cmpList_cons_cons, Ordering.swap_then]
      rw [h a (by simp) b (by simp), ih bs (fun x hx y hy => h x (by simp [hx]) y (by simp [hy]))]

theorem cmpList_tri (as bs cs : List α)
    (h : ∀ a ∈ as, ∀ b ∈ bs, ∀ c ∈ cs, Tri (cmp a b) (cmp b c) (cmp a c)) :
    Tri (cmpList cmp as bs) (cmpList cmp bs cs) (cmpList cmp as cs) := by
  induction as generalizing bs cs with
  | nil =>
    cases bs <;> cases cs <;> constructor <;> simp
  | cons a as ih =>
    cases bs with
    | nil => cases cs <;> constructor <;> simp
    | cons b bs =>
      cases cs with
      | nil => constructor <;> simp
      | cons c cs =>
        simp only [cmpList_cons_cons]
        exact (h a (by simp) b (by simp) c (by simp)).then
          (ih bs cs (fun x hx y hy z hz => h x (by simp [hx]) y (by simp [hy]) z (by simp [hz])))

theorem cmpList_eq_iff (as bs : List α) (h : ∀ a ∈ as, ∀ b ∈ bs, (cmp a b = .eq ↔ a = b)) :
    cmpList cmp as bs = .eq ↔ as = bs := by
  induction as generalizing bs with
  | nil => cases bs <;> simp
  | cons a as ih =>
    cases bs with
    | nil => simp
    | cons b bs =>
      simp only [cmpList_cons_cons, Ordering.then_eq_eq, List.cons.injEq]
      rw [h a (by simp) b (by simp), ih bs (fun x hx y hy => h x (by simp [hx]) y (by simp [hy]))]

theorem cmpList_append (p as bs : List α) (h : ∀ a ∈ p, cmp a a = .eq) :
    cmpList cmp (p ++ as) (p ++ bs) = cmpList cmp as bs := by
  induction p with
  | nil => rfl
  | cons x p ih =>
    simp [h x (by simp), ih (fun y hy => h y (by simp [hy]))]

end cmpList
/-! ### integers and rationals -/

theorem compare_sub_zero (u v : Int) : compare u v = compare (u - v) 0 := by
  rcases lt_trichotomy u v with h | h | h
  · rw [Int.compare_eq_lt.mpr h, Int.compare_eq_lt.mpr (by omega)]
  · rw [Int.compare_eq_eq.mpr h, Int.compare_eq_eq.mpr (by omega)]
  · rw [Int.compare_eq_gt.mpr h, Int.compare_eq_gt.mpr (by omega)]

theorem neg_of_mul_neg_pos {X p : Int} (hp : 0 < p) (h : X * p < 0) : X < 0 := by
  by_contra hx
  have := mul_nonneg (not_lt.mp hx) (le_of_lt hp)
  linarith

theorem pos_of_mul_pos_pos {X p : Int} (hp : 0 < p) (h : 0 < X * p) : 0 < X := by
  by_contra hx
  have := mul_nonpos_of_nonpos_of_nonneg (not_lt.mp hx) (le_of_lt hp)
  linarith

theorem sign_transfer (X Y p q : Int) (hp : 0 < p) (hq : 0 < q) (h : X * p = Y * q) :
    compare X 0 = compare Y 0 := by
  rcases lt_trichotomy Y 0 with hy | hy | hy
  · have : X * p < 0 := by rw [h]; exact mul_neg_of_neg_of_pos hy hq
    have hx : X < 0 := neg_of_mul_neg_pos hp this
    rw [Int.compare_eq_lt.mpr hx, Int.compare_eq_lt.mpr hy]
  · subst hy
    have : X * p = 0 := by rw [h]; simp
    have hx : X = 0 := by
      rcases mul_eq_zero.mp this with h0 | h0
      · exact h0
      · omega
    rw [hx]
  · have : 0 < X * p := by rw [h]; exact mul_pos hy hq
    have hx : 0 < X := pos_of_mul_pos_pos hp this
    rw [Int.compare_eq_gt.mpr hx, Int.compare_eq_gt.mpr hy]

theorem ratCmp_refl (a : Int × Nat) : ratCmp a a = .eq := by
  unfold ratCmp; exact Int.compare_eq_eq.mpr rfl

theorem ratCmp_swap (a b : Int × Nat) : ratCmp b a = (ratCmp a b).swap := by
  unfold ratCmp; rw [Int.compare_swap]

theorem ratCmp_tri (a b c : Int × Nat) (ha : 0 < a.2) (hb : 0 < b.2) (hc : 0 < c.2) :
    Tri (ratCmp a b) (ratCmp b c) (ratCmp a c) := by
  obtain ⟨a1, a2⟩ := a; obtain ⟨b1, b2⟩ := b; obtain ⟨c1, c2⟩ := c
  simp only at ha hb hc
  have ha' : (0 : Int) < a2 := by exact_mod_cast ha
  have hb' : (0 : Int) < b2 := by exact_mod_cast hb
  have hc' : (0 : Int) < c2 := by exact_mod_cast hc
  have key : (a1 * c2 - c1 * a2) * b2 = (a1 * b2 - b1 * a2) * c2 + (b1 * c2 - c1 * b2) * a2 := by
    ring
  unfold ratCmp; simp only
  constructor
  · simp only [Int.compare_eq_lt]
    intro h1 h2
    have e1 : (a1 * b2 - b1 * a2) * c2 < 0 := mul_neg_of_neg_of_pos (by omega) hc'
    have e2 : (b1 * c2 - c1 * b2) * a2 < 0 := mul_neg_of_neg_of_pos (by omega) ha'
    have : (a1 * c2 - c1 * a2) * b2 < 0 := by rw [key]; omega
    have := neg_of_mul_neg_pos hb' this
    omega
  · simp only [Int.compare_eq_gt]
    intro h1 h2
    have e1 : 0 < (a1 * b2 - b1 * a2) * c2 := mul_pos (by omega) hc'
    have e2 : 0 < (b1 * c2 - c1 * b2) * a2 := mul_pos (by omega) ha'
    have : 0 < (a1 * c2 - c1 * a2) * b2 := by rw [key]; omega
    have := pos_of_mul_pos_pos hb' this
    omega
  · intro h
    rw [Int.compare_eq_eq] at h
    rw [compare_sub_zero (a1 * c2), compare_sub_zero (b1 * c2)]
    apply sign_transfer _ _ b2 a2 hb' ha'
    rw [key, h]; ring
  · intro h
    rw [Int.compare_eq_eq] at h
    rw [compare_sub_zero (a1 * b2), compare_sub_zero (a1 * c2)]
    apply sign_transfer _ _ c2 b2 hc' hb'
    rw [key, h]; ring

/-! ### floats -/

/-- order on `Option Int` with `none` (NaN) on top. -/
def optCmp : Option Int → Option Int → Ordering
  | some a, some b => compare a b
  | none, none => .eq
  | none, some _ => .gt
  | some _, none => .lt

theorem two_pow_pos' : (0 : Int) < ((2 ^ 1075 : Nat) : Int) := by
  exact_mod_cast Nat.pos_of_ne_zero (by positivity)

theorem ratCmp_same_den (a b : Int) (D : Nat) (hD : 0 < D) :
    ratCmp (a, D) (b, D) = compare a b := by
  unfold ratCmp; simp only
  have hD' : (0 : Int) < D := by exact_mod_cast hD
  rcases lt_trichotomy a b with h | h | h
  · rw [Int.compare_eq_lt.mpr h, Int.compare_eq_lt.mpr (mul_lt_mul_of_pos_right h hD')]
  · subst h; rw [Int.compare_eq_eq.mpr rfl, Int.compare_eq_eq.mpr rfl]
  · rw [Int.compare_eq_gt.mpr h, Int.compare_eq_gt.mpr (mul_lt_mul_of_pos_right h hD')]

theorem fltCmp_eq_optCmp (x y : Nat) : fltCmp x y = optCmp (fltScaled x) (fltScaled y) := by
  unfold fltCmp fltToRat
  cases hx : fltScaled x <;> cases hy : fltScaled y <;> simp only [Option.map, optCmp]
  exact ratCmp_same_den _ _ _ (Nat.two_pow_pos 1075)

theorem fltToRat_den_pos (x : Nat) (a : Int × Nat) (h : fltToRat x = some a) : 0 < a.2 := by
  unfold fltToRat at h
  cases hs : fltScaled x with
  | none => rw [hs] at h; exact absurd h (by intro h'; cases h')
  | some n =>
    rw [hs] at h
    simp only [Option.map, Option.some.injEq] at h
    rw [← h]; exact Nat.pos_of_ne_zero (by positivity)

theorem optCmp_refl (a : Option Int) : optCmp a a = .eq := by
  cases a <;> simp [optCmp]

theorem optCmp_swap (a b : Option Int) : optCmp b a = (optCmp a b).swap := by
  cases a <;> cases b <;> simp [optCmp, Int.compare_swap]

theorem optCmp_tri (a b c : Option Int) : Tri (optCmp a b) (optCmp b c) (optCmp a c) := by
  cases a <;> cases b <;> cases c <;> simp only [optCmp] <;>
    first
    | exact tri_int _ _ _
    | (constructor <;> simp)

theorem fltCmp_refl (x : Nat) : fltCmp x x = .eq := by rw [fltCmp_eq_optCmp, optCmp_refl]
theorem fltCmp_swap (x y : Nat) : fltCmp y x = (fltCmp x y).swap := by
  rw [fltCmp_eq_optCmp, fltCmp_eq_optCmp, optCmp_swap]
theorem fltCmp_tri (x y z : Nat) : Tri (fltCmp x y) (fltCmp y z) (fltCmp x z) := by
  simp only [fltCmp_eq_optCmp]; exact optCmp_tri _ _ _

/-- canonical double: 64 bits, not `-0.0`, not a NaN. -/
def FltCanon (b : Nat) : Prop :=
  b < 2 ^ 64 ∧ b ≠ 2 ^ 63 ∧ ¬ (fltExp b = 2047 ∧ fltMant b ≠ 0)

theorem mag_lt (s1 s2 e1 e2 : Nat) (h1 : s1 < 2 ^ 53) (h2 : 2 ^ 52 ≤ s2) (he : e1 < e2) :
    s1 * 2 ^ e1 < s2 * 2 ^ e2 := by
  calc s1 * 2 ^ e1 < 2 ^ 53 * 2 ^ e1 := Nat.mul_lt_mul_of_pos_right h1 (by positivity)
    _ = 2 ^ 52 * 2 ^ (e1 + 1) := by ring
    _ ≤ 2 ^ 52 * 2 ^ e2 := Nat.mul_le_mul_left _ (Nat.pow_le_pow_right (by norm_num) he)
    _ ≤ s2 * 2 ^ e2 := Nat.mul_le_mul_right _ h2

/-- magnitude (scaled by 2^1075) as a function of exponent field and mantissa. -/
def fltMag (e m : Nat) : Nat := (if e = 0 then m else m + 2 ^ 52) * 2 ^ (if e = 0 then 1 else e)

theorem fltMag_lt_of_exp_lt (e1 m1 e2 m2 : Nat) (h1 : m1 < 2 ^ 52) (h2 : m2 < 2 ^ 52)
    (he : e1 < e2) : fltMag e1 m1 < fltMag e2 m2 := by
  unfold fltMag
  have he2 : e2 ≠ 0 := by omega
  simp only [he2, if_false]
  by_cases h0 : e1 = 0
  · simp only [h0, if_true]
    by_cases h21 : e2 = 1
    · subst h21
      have : (0:Nat) < 2 ^ 1 := by norm_num
      exact Nat.mul_lt_mul_of_pos_right (by omega) this
    · exact mag_lt _ _ _ _ (by omega) (by omega) (by omega)
  · simp only [h0, if_false]
    exact mag_lt _ _ _ _ (by omega) (by omega) he

theorem fltMag_inj (e1 m1 e2 m2 : Nat) (h1 : m1 < 2 ^ 52) (h2 : m2 < 2 ^ 52)
    (h : fltMag e1 m1 = fltMag e2 m2) : e1 = e2 ∧ m1 = m2 := by
  rcases lt_trichotomy e1 e2 with he | he | he
  · have := fltMag_lt_of_exp_lt e1 m1 e2 m2 h1 h2 he; omega
  · subst he
    refine ⟨rfl, ?_⟩
    unfold fltMag at h
    have hp : 0 < 2 ^ (if e1 = 0 then 1 else e1) := by positivity
    have := Nat.eq_of_mul_eq_mul_right hp h
    split at this <;> omega
  · have := fltMag_lt_of_exp_lt e2 m2 e1 m1 h2 h1 he; omega

theorem fltScaled_eq (b : Nat) (h : ¬ (fltExp b = 2047 ∧ fltMant b ≠ 0)) :
    fltScaled b = some (if fltSign b then -((fltMag (fltExp b) (fltMant b) : Nat) : Int)
                        else ((fltMag (fltExp b) (fltMant b) : Nat) : Int)) := by
  unfold fltScaled fltMag
  simp only [h, if_false]

theorem fltMag_eq_zero (e m : Nat) (h : fltMag e m = 0) : e = 0 ∧ m = 0 := by
  unfold fltMag at h
  have hp : 0 < 2 ^ (if e = 0 then 1 else e) := by positivity
  rcases Nat.mul_eq_zero.mp h with h0 | h0
  · split at h0 <;> omega
  · omega

theorem flt_decomp (x : Nat) (hx : x < 2 ^ 64) :
    x = (x / 2 ^ 63 % 2) * 2 ^ 63 + fltExp x * 2 ^ 52 + fltMant x := by
  unfold fltExp fltMant; omega

theorem fltScaled_inj (x y : Nat) (hx : FltCanon x) (hy : FltCanon y)
    (h : fltScaled x = fltScaled y) : x = y := by
  obtain ⟨hx1, hx2, hx3⟩ := hx
  obtain ⟨hy1, hy2, hy3⟩ := hy
  rw [fltScaled_eq x hx3, fltScaled_eq y hy3, Option.some.injEq] at h
  have mx : fltMant x < 2 ^ 52 := by unfold fltMant; omega
  have my : fltMant y < 2 ^ 52 := by unfold fltMant; omega
  have dx := flt_decomp x hx1
  have dy := flt_decomp y hy1
  have sx : fltSign x = true ↔ x / 2 ^ 63 % 2 = 1 := by unfold fltSign; simp
  have sy : fltSign y = true ↔ y / 2 ^ 63 % 2 = 1 := by unfold fltSign; simp
  -- magnitudes are equal
  have hmag : fltMag (fltExp x) (fltMant x) = fltMag (fltExp y) (fltMant y) := by
    split at h <;> split at h <;> omega
  obtain ⟨he, hm⟩ := fltMag_inj _ _ _ _ mx my hmag
  by_cases hz : fltMag (fltExp x) (fltMant x) = 0
  · -- both are zeros; -0.0 is excluded
    obtain ⟨e0, m0⟩ := fltMag_eq_zero _ _ hz
    obtain ⟨e0', m0'⟩ := fltMag_eq_zero _ _ (hmag ▸ hz)
    omega
  · have hs : fltSign x = fltSign y := by
      cases hsx : fltSign x <;> cases hsy : fltSign y <;>
        simp only [hsx, hsy, Bool.false_eq_true, if_true, if_false] at h <;>
        first | rfl | (exfalso; omega)
    have hbit : (x / 2 ^ 63 % 2 = 1 ↔ y / 2 ^ 63 % 2 = 1) := by
      rw [← sx, ← sy, hs]
    omega

theorem fltCmp_eq_iff (x y : Nat) (hx : FltCanon x) (hy : FltCanon y) :
    fltCmp x y = .eq ↔ x = y := by
  constructor
  · intro h
    rw [fltCmp_eq_optCmp, fltScaled_eq x hx.2.2, fltScaled_eq y hy.2.2] at h
    simp only [optCmp, Int.compare_eq_eq] at h
    apply fltScaled_inj x y hx hy
    rw [fltScaled_eq x hx.2.2, fltScaled_eq y hy.2.2, h]
  · rintro rfl; exact fltCmp_refl x

/-! ### atoms: UTF-8 byte order = code point order -/

/-- `u` is smaller than `v` and this is decided at some position present in both. -/
def declt : List Nat → List Nat → Prop
  | a :: u, b :: v => a < b ∨ (a = b ∧ declt u v)
  | _, _ => False

theorem declt_append (u v r1 r2 : List Nat) (h : declt u v) :
    cmpList compare (u ++ r1) (v ++ r2) = .lt := by
  induction u generalizing v with
  | nil => simp [declt] at h
  | cons a u ih =>
    cases v with
    | nil => simp [declt] at h
    | cons b v =>
      simp only [declt] at h
      simp only [List.cons_append, cmpList_cons_cons]
      rcases h with h | ⟨h, h'⟩
      · rw [Nat.compare_eq_lt.mpr h]; rfl
      · subst h; rw [Nat.compare_eq_eq.mpr rfl, ih v h']; rfl

theorem utf8_declt (c d : Nat) (h : c < d) (hd : d < 0x110000) : declt (utf8 c) (utf8 d) := by
  unfold utf8
  split_ifs <;> simp only [declt] <;> omega

theorem utf8_ne_nil (c : Nat) : utf8 c ≠ [] := by
  unfold utf8; split_ifs <;> simp

theorem cmp_utf8_append (c d : Nat) (hc : c < 0x110000) (hd : d < 0x110000) (r1 r2 : List Nat) :
    cmpList compare (utf8 c ++ r1) (utf8 d ++ r2) = (compare c d).then (cmpList compare r1 r2) := by
  rcases lt_trichotomy c d with h | h | h
  · rw [Nat.compare_eq_lt.mpr h, declt_append _ _ _ _ (utf8_declt c d h hd)]; rfl
  · subst h
    rw [Nat.compare_eq_eq.mpr rfl, cmpList_append _ _ _ (fun a _ => Nat.compare_eq_eq.mpr rfl)]; rfl
  · rw [Nat.compare_eq_gt.mpr h,
      cmpList_swap (utf8 d ++ r2) (utf8 c ++ r1) (fun a _ b _ => (Nat.compare_swap a b).symm),
      declt_append _ _ _ _ (utf8_declt d c h hc)]; rfl

/-- byte-wise lexicographic order of UTF-8 texts = lexicographic order of the code points. -/
theorem utf8s_cmp (xs ys : List Nat) (hx : ∀ x ∈ xs, x < 0x110000) (hy : ∀ y ∈ ys, y < 0x110000) :
    cmpList compare (utf8s xs) (utf8s ys) = cmpList compare xs ys := by
  induction xs generalizing ys with
  | nil =>
    cases ys with
    | nil => rfl
    | cons y ys =>
      simp only [utf8s, List.flatMap_nil, List.flatMap_cons, cmpList_nil_cons]
      cases hu : utf8 y with
      | nil => exact absurd hu (utf8_ne_nil y)
      | cons b bs => rfl
  | cons x xs ih =>
    cases ys with
    | nil =>
      simp only [utf8s, List.flatMap_nil, List.flatMap_cons, cmpList_cons_nil]
      cases hu : utf8 x with
      | nil => exact absurd hu (utf8_ne_nil x)
      | cons b bs => rfl
    | cons y ys =>
      have := ih ys (fun a ha => hx a (by simp [ha])) (fun a ha => hy a (by simp [ha]))
      simp only [utf8s, List.flatMap_cons, cmpList_cons_cons] at this ⊢
      rw [cmp_utf8_append x y (hx x (by simp)) (hy y (by simp)), this]

theorem codes_lt (s : String) : ∀ x ∈ codes s, x < 0x110000 := by
  intro x hx
  simp only [codes, List.mem_map] at hx
  obtain ⟨c, _, rfl⟩ := hx
  have := c.valid; unfold Char.toNat; rcases this with h | h <;> omega

theorem atomCmpBytes_eq (s t : String) : atomCmpBytes s t = atomCmp s t :=
  utf8s_cmp _ _ (codes_lt s) (codes_lt t)


/-! ### atoms -/
theorem atomCmp_refl (s : String) : atomCmp s s = .eq :=
  cmpList_refl _ (fun _ _ => Nat.compare_eq_eq.mpr rfl)
theorem atomCmp_swap (s t : String) : atomCmp t s = (atomCmp s t).swap :=
  cmpList_swap _ _ (fun a _ b _ => (Nat.compare_swap a b).symm)
theorem atomCmp_tri (s t u : String) : Tri (atomCmp s t) (atomCmp t u) (atomCmp s u) :=
  cmpList_tri _ _ _ (fun a _ b _ c _ => tri_nat a b c)
theorem map_toNat_inj : ∀ (l l' : List Char), l.map Char.toNat = l'.map Char.toNat → l = l'
  | [], [] => fun _ => rfl
  | [], _ :: _ => fun h => by simp at h
  | _ :: _, [] => fun h => by simp at h
  | a :: l, b :: l' => fun h => by
    simp only [List.map_cons, List.cons.injEq] at h
    rw [Char.toNat_inj.mp h.1, map_toNat_inj l l' h.2]

theorem atomCmp_eq_iff (s t : String) : atomCmp s t = .eq ↔ s = t := by
  unfold atomCmp
  rw [cmpList_eq_iff _ _ (fun a _ b _ => Nat.compare_eq_eq)]
  constructor
  · intro h
    apply String.ext
    exact map_toNat_inj _ _ h
  · rintro rfl; rfl

/-! ### terms -/

theorem term_ind {P : Term → Prop}
    (hvar : ∀ x, P (.var x)) (hint : ∀ v, P (.int v)) (hrat : ∀ n d, P (.rat n d))
    (hflt : ∀ b, P (.flt b)) (hatom : ∀ s, P (.atom s))
    (hstr : ∀ f as, (∀ a ∈ as, P a) → P (.str f as)) : ∀ t, P t := by
  intro t
  exact Term.rec (motive_1 := P) (motive_2 := fun as => ∀ a ∈ as, P a)
    hvar hint hrat hflt hatom (fun f as ih => hstr f as ih) (by simp)
    (fun a as ha has => by
      intro x hx
      rcases List.mem_cons.mp hx with h | h
      · exact h ▸ ha
      · exact has x h) t

theorem argsCompare_eq_cmpList (age : String → Nat) (as bs : List Term) :
    argsCompare age as bs = cmpList (termCompare age) as bs := by
  induction as generalizing bs with
  | nil => cases bs <;> simp [argsCompare]
  | cons a as ih => cases bs <;> simp [argsCompare, ih]

/-- comparison of two terms of the same category. -/
def sameCat (age : String → Nat) : Term → Term → Ordering
  | .str f as, .str g bs =>
      (compare as.length bs.length).then ((atomCmp f g).then (cmpList (termCompare age) as bs))
  | a, b => leafCompare age a b

theorem termCompare_eq (age : String → Nat) (a b : Term) :
    termCompare age a b = (compare (cat a) (cat b)).then (sameCat age a b) := by
  cases a <;> cases b <;> simp [termCompare, sameCat, cat, argsCompare_eq_cmpList]


mutual
/-- every rational inside the term has a positive denominator. -/
def DenPos : Term → Prop
  | .rat _ d => 0 < d
  | .str _ as => DenPosL as
  | _ => True
def DenPosL : List Term → Prop
  | [] => True
  | a :: as => DenPos a ∧ DenPosL as
end

theorem denPosL_iff (as : List Term) : DenPosL as ↔ ∀ a ∈ as, DenPos a := by
  induction as with
  | nil => simp [DenPosL]
  | cons a as ih => simp [DenPosL, ih]

theorem leafCompare_swap (age : String → Nat) (a b : Term) :
    leafCompare age b a = (leafCompare age a b).swap := by
  cases a <;> cases b <;> simp only [leafCompare] <;>
    first
    | exact (Nat.compare_swap _ _).symm
    | exact (fltCmp_swap _ _)
    | exact (atomCmp_swap _ _)
    | exact (ratCmp_swap _ _)

theorem termCompare_refl (age : String → Nat) : ∀ t, termCompare age t t = .eq := by
  apply term_ind
  · intro x; simp [termCompare_eq, sameCat, leafCompare]
  · intro v; simp [termCompare_eq, sameCat, leafCompare, ratCmp_refl]
  · intro n d; simp [termCompare_eq, sameCat, leafCompare, ratCmp_refl]
  · intro b; simp [termCompare_eq, sameCat, leafCompare, fltCmp_refl]
  · intro s; simp [termCompare_eq, sameCat, leafCompare, atomCmp_refl]
  · intro f as ih
    simp [termCompare_eq, sameCat, atomCmp_refl, cmpList_refl as ih]

theorem termCompare_swap (age : String → Nat) :
    ∀ a b, termCompare age b a = (termCompare age a b).swap := by
  apply term_ind
  case hstr =>
    intro f as ih b
    cases b with
    | str g bs =>
      simp only [termCompare_eq, sameCat, Ordering.swap_then, Nat.compare_swap]
      rw [atomCmp_swap f g, cmpList_swap as bs (fun a ha b _ => ih a ha b)]
    | _ => simp only [termCompare_eq, sameCat, Ordering.swap_then, Nat.compare_swap,
              leafCompare_swap age (.str f as)]
  all_goals
    intros
    rename_i b
    cases b <;> simp only [termCompare_eq, sameCat, Ordering.swap_then, Nat.compare_swap] <;>
      rw [leafCompare_swap]


theorem numVal_pos (a : Term) (h : DenPos a) : 0 < (numVal a).2 := by
  cases a <;> simp_all [numVal, DenPos]

theorem leaf_tri (age : String → Nat) (a b c : Term) (hab : cat a = cat b) (hbc : cat b = cat c)
    (ha : DenPos a) (hb : DenPos b) (hc : DenPos c) :
    Tri (leafCompare age a b) (leafCompare age b c) (leafCompare age a c) := by
  have pa := numVal_pos a ha
  have pb := numVal_pos b hb
  have pc := numVal_pos c hc
  cases a <;> cases b <;> simp only [cat] at hab <;> try omega
  all_goals
    cases c <;> simp only [cat] at hbc <;> try omega
  all_goals
    simp only [leafCompare]
    first
    | exact tri_nat _ _ _
    | exact fltCmp_tri _ _ _
    | exact atomCmp_tri _ _ _
    | exact ratCmp_tri _ _ _ pa pb pc

theorem sameCat_leaf (age : String → Nat) (a b : Term) (h : cat a ≠ 4) :
    sameCat age a b = leafCompare age a b := by
  cases a <;> cases b <;> simp [sameCat, cat] at h ⊢

theorem tri_of_leaf (age : String → Nat) (a b c : Term) (h4 : cat a ≠ 4)
    (ha : DenPos a) (hb : DenPos b) (hc : DenPos c) :
    Tri (termCompare age a b) (termCompare age b c) (termCompare age a c) := by
  simp only [termCompare_eq]
  refine (tri_nat _ _ _).then' (fun hab hbc => ?_)
  rw [Nat.compare_eq_eq] at hab hbc
  rw [sameCat_leaf age a b h4, sameCat_leaf age b c (hab ▸ h4), sameCat_leaf age a c h4]
  exact leaf_tri age a b c hab hbc ha hb hc

theorem termCompare_tri (age : String → Nat) :
    ∀ a b c, DenPos a → DenPos b → DenPos c →
      Tri (termCompare age a b) (termCompare age b c) (termCompare age a c) := by
  apply term_ind
  case hstr =>
    intro f as ih b c ha hb hc
    simp only [termCompare_eq]
    refine (tri_nat _ _ _).then' (fun hab hbc => ?_)
    rw [Nat.compare_eq_eq] at hab hbc
    cases b with
    | str g bs =>
      cases c with
      | str h cs =>
        simp only [sameCat]
        refine (tri_nat _ _ _).then ((atomCmp_tri _ _ _).then ?_)
        simp only [DenPos, denPosL_iff] at ha hb hc
        exact cmpList_tri as bs cs (fun x hx y hy z hz => ih x hx y z (ha x hx) (hb y hy) (hc z hz))
      | _ => simp [cat] at hbc
    | _ => simp [cat] at hab
  all_goals
    intros
    exact tri_of_leaf age _ _ _ (by simp [cat]) ‹_› ‹_› ‹_›


/-! ### `compare = eq` is structural identity on normal terms -/

theorem rat_eq_of_cross (n1 n2 : Int) (d1 d2 : Nat)
    (h1 : Nat.gcd n1.natAbs d1 = 1) (h2 : Nat.gcd n2.natAbs d2 = 1) (p1 : 0 < d1)
    (h : n1 * (d2 : Int) = n2 * (d1 : Int)) : n1 = n2 ∧ d1 = d2 := by
  have hn : n1.natAbs * d2 = n2.natAbs * d1 := by
    have := congrArg Int.natAbs h
    simpa [Int.natAbs_mul] using this
  have a1 : d1 ∣ d2 := by
    have : d1 ∣ n1.natAbs * d2 := ⟨n2.natAbs, by rw [hn]; ring⟩
    exact (Nat.Coprime.dvd_of_dvd_mul_left (Nat.Coprime.symm h1) this)
  have a2 : d2 ∣ d1 := by
    have : d2 ∣ n2.natAbs * d1 := ⟨n1.natAbs, by rw [← hn]; ring⟩
    exact (Nat.Coprime.dvd_of_dvd_mul_left (Nat.Coprime.symm h2) this)
  have hd : d1 = d2 := Nat.dvd_antisymm a1 a2
  subst hd
  refine ⟨?_, rfl⟩
  have hp : ((d1 : Nat) : Int) ≠ 0 := by exact_mod_cast (Nat.pos_iff_ne_zero.mp p1)
  exact Int.eq_of_mul_eq_mul_right hp h

mutual
/-- normal form: rationals in lowest terms with denominator ≥ 2 (a rational with
    denominator 1 is an integer for scryer), floats canonical (`FltCanon`). -/
def Normal : Term → Prop
  | .rat n d => 2 ≤ d ∧ Nat.gcd n.natAbs d = 1
  | .flt b => FltCanon b
  | .str _ as => NormalL as
  | _ => True
def NormalL : List Term → Prop
  | [] => True
  | a :: as => Normal a ∧ NormalL as
end

theorem normalL_iff (as : List Term) : NormalL as ↔ ∀ a ∈ as, Normal a := by
  induction as with
  | nil => simp [NormalL]
  | cons a as ih => simp [NormalL, ih]

theorem termCompare_eq_iff (age : String → Nat) (hage : Function.Injective age) :
    ∀ a b, Normal a → Normal b → (termCompare age a b = .eq ↔ a = b) := by
  apply term_ind
  · intro x b _ _
    cases b <;> simp [termCompare_eq, sameCat, leafCompare, cat, Ordering.then_eq_eq]
    exact hage.eq_iff
  · intro v b _ hb
    cases b <;> simp [termCompare_eq, sameCat, leafCompare, cat, Ordering.then_eq_eq, ratCmp, numVal]
    rename_i n d
    simp only [Normal] at hb
    intro h
    have := rat_eq_of_cross v n 1 d (by simp) hb.2 (by norm_num) (by simpa using h)
    omega
  · intro n d b ha hb
    simp only [Normal] at ha
    cases b <;> simp [termCompare_eq, sameCat, leafCompare, cat, Ordering.then_eq_eq, ratCmp, numVal]
    · rename_i v
      intro h
      have := rat_eq_of_cross n v d 1 ha.2 (by simp) (by omega) (by simpa using h)
      omega
    · rename_i n' d'
      simp only [Normal] at hb
      constructor
      · intro h
        exact rat_eq_of_cross n n' d d' ha.2 hb.2 (by omega) h
      · rintro ⟨rfl, rfl⟩; rfl
  · intro x b ha hb
    cases b <;> simp [termCompare_eq, sameCat, leafCompare, cat, Ordering.then_eq_eq]
    simp only [Normal] at ha hb
    exact fltCmp_eq_iff _ _ ha hb
  · intro s b _ _
    cases b <;> simp [termCompare_eq, sameCat, leafCompare, cat, Ordering.then_eq_eq]
    exact atomCmp_eq_iff _ _
  · intro f as ih b ha hb
    cases b <;> simp [termCompare_eq, sameCat, leafCompare, cat, Ordering.then_eq_eq]
    rename_i g bs
    simp only [Normal, normalL_iff] at ha hb
    rw [atomCmp_eq_iff, cmpList_eq_iff as bs (fun x hx y hy => ih x hx y (ha x hx) (hb y hy))]
    constructor
    · rintro ⟨_, h2, h3⟩; exact ⟨h2, h3⟩
    · rintro ⟨h2, h3⟩; exact ⟨by rw [h3], h2, h3⟩

/-! ### rationals: `ratCmp` is the order of the quotients in ℚ -/

theorem ratCmp_lt_iff (a b : Int × Nat) (ha : 0 < a.2) (hb : 0 < b.2) :
    ratCmp a b = .lt ↔ (a.1 : ℚ) / (a.2 : ℚ) < (b.1 : ℚ) / (b.2 : ℚ) := by
  have ha' : (0 : ℚ) < (a.2 : ℚ) := by exact_mod_cast ha
  have hb' : (0 : ℚ) < (b.2 : ℚ) := by exact_mod_cast hb
  unfold ratCmp
  rw [Int.compare_eq_lt, div_lt_div_iff₀ ha' hb']
  constructor
  · intro h; exact_mod_cast h
  · intro h; exact_mod_cast h

theorem ratCmp_eq_iff (a b : Int × Nat) (ha : 0 < a.2) (hb : 0 < b.2) :
    ratCmp a b = .eq ↔ (a.1 : ℚ) / (a.2 : ℚ) = (b.1 : ℚ) / (b.2 : ℚ) := by
  have ha' : (a.2 : ℚ) ≠ 0 := by exact_mod_cast (Nat.pos_iff_ne_zero.mp ha)
  have hb' : (b.2 : ℚ) ≠ 0 := by exact_mod_cast (Nat.pos_iff_ne_zero.mp hb)
  unfold ratCmp
  rw [Int.compare_eq_eq, div_eq_div_iff ha' hb']
  constructor
  · intro h; exact_mod_cast h
  · intro h; exact_mod_cast h

theorem ratCmp_gt_iff (a b : Int × Nat) (ha : 0 < a.2) (hb : 0 < b.2) :
    ratCmp a b = .gt ↔ (b.1 : ℚ) / (b.2 : ℚ) < (a.1 : ℚ) / (a.2 : ℚ) := by
  rw [← ratCmp_lt_iff b a hb ha, ratCmp_swap b a]
  cases ratCmp b a <;> simp

/-! ### an injective age function exists (non-vacuity of the `Injective age` hypothesis) -/

theorem exists_injective_age : ∃ age : String → Nat, Function.Injective age := by
  refine ⟨fun s => Encodable.encode (s.toList.map Char.toNat), ?_⟩
  intro s t h
  have := Encodable.encode_injective h
  exact String.ext (map_toNat_inj _ _ this)

/-! ### lists and strings -/

theorem termCompare_of_cat_lt (age : String → Nat) (a b : Term) (h : cat a < cat b) :
    termCompare age a b = .lt := by
  rw [termCompare_eq, Nat.compare_eq_lt.mpr h]; rfl

theorem termCompare_of_cat_gt (age : String → Nat) (a b : Term) (h : cat b < cat a) :
    termCompare age a b = .gt := by
  rw [termCompare_eq, Nat.compare_eq_gt.mpr h]; rfl

theorem termCompare_str (age : String → Nat) (f g : String) (as bs : List Term) :
    termCompare age (.str f as) (.str g bs) =
      (compare as.length bs.length).then ((atomCmp f g).then (cmpList (termCompare age) as bs)) := by
  simp [termCompare_eq, sameCat, cat]

theorem termCompare_cons (age : String → Nat) (x xs y ys : Term) :
    termCompare age (Term.cons x xs) (Term.cons y ys) =
      (termCompare age x y).then (termCompare age xs ys) := by
  simp [Term.cons, termCompare_str, atomCmp_refl]

theorem atomCmp_singleton (c d : Char) :
    atomCmp (String.singleton c) (String.singleton d) = compare c.toNat d.toNat := by
  simp [atomCmp, codes]

theorem termCompare_atom (age : String → Nat) (s t : String) :
    termCompare age (.atom s) (.atom t) = atomCmp s t := by
  simp [termCompare_eq, sameCat, cat, leafCompare]

theorem ofChars_cons (c : Char) (cs : List Char) (tl : Term) :
    Term.ofChars (c :: cs) tl = Term.cons (.atom (String.singleton c)) (Term.ofChars cs tl) := rfl

/-- two strings compare as their code point sequences. -/
theorem termCompare_ofChars (age : String → Nat) (cs ds : List Char) :
    termCompare age (Term.ofChars cs) (Term.ofChars ds)
      = cmpList compare (cs.map Char.toNat) (ds.map Char.toNat) := by
  induction cs generalizing ds with
  | nil =>
    cases ds with
    | nil => exact termCompare_refl age _
    | cons d ds => exact termCompare_of_cat_lt age _ _ (by simp [Term.cons, Term.ofChars, Term.ofList, Term.nil, cat])
  | cons c cs ih =>
    cases ds with
    | nil => exact termCompare_of_cat_gt age _ _ (by simp [Term.cons, Term.ofChars, Term.ofList, Term.nil, cat])
    | cons d ds =>
      rw [ofChars_cons, ofChars_cons, termCompare_cons, termCompare_atom, atomCmp_singleton, ih]
      rfl

/-- a common prefix of two partial strings is skipped (what `compare_pstr_slices` does
    with `Continue`). -/
theorem termCompare_ofChars_append (age : String → Nat) (p cs ds : List Char) (t1 t2 : Term) :
    termCompare age (Term.ofChars (p ++ cs) t1) (Term.ofChars (p ++ ds) t2)
      = termCompare age (Term.ofChars cs t1) (Term.ofChars ds t2) := by
  induction p with
  | nil => rfl
  | cons x p ih =>
    simp only [List.cons_append, ofChars_cons, termCompare_cons, termCompare_refl, ih]
    rfl

/-- the first differing character decides, by code point. -/
theorem termCompare_ofChars_ne (age : String → Nat) (c d : Char) (h : c ≠ d) (cs ds : List Char)
    (t1 t2 : Term) :
    termCompare age (Term.ofChars (c :: cs) t1) (Term.ofChars (d :: ds) t2)
      = compare c.toNat d.toNat := by
  rw [ofChars_cons, ofChars_cons, termCompare_cons, termCompare_atom, atomCmp_singleton]
  have : compare c.toNat d.toNat ≠ .eq := by
    rw [Ne, Nat.compare_eq_eq, Char.toNat_inj]; exact h
  cases hc : compare c.toNat d.toNat <;> simp_all

/-! ### partial-string tail cell arithmetic (finding C13-2) -/

theorem sentinelLen_eq (e : Nat) : sentinelLen e = 8 - e % 8 := by
  unfold sentinelLen
  have hr := Nat.mod_lt e (by decide : 8 > 0)
  split <;> omega

theorem tailIdxFromZero_eq (e : Nat) : tailIdxFromZero e = if e % 8 = 7 then 2 else 1 := by
  unfold tailIdxFromZero cellIndex
  rw [sentinelLen_eq]
  have hr := Nat.mod_lt e (by decide : 8 > 0)
  generalize e % 8 = r at *
  interval_cases r <;> rfl

theorem tailCellWritten_eq (e : Nat) :
    tailCellWritten e = e / 8 + (if e % 8 = 7 then 2 else 1) := by
  unfold tailCellWritten cellIndex
  rw [sentinelLen_eq]
  have hr := Nat.mod_lt e (by decide : 8 > 0)
  have hd := Nat.div_add_mod e 8
  generalize e % 8 = r at *
  generalize e / 8 = q at *
  subst hd
  interval_cases r <;> simp <;> omega

theorem otherTailCell_eq (l pos : Nat) : otherTailCell l pos = tailCellWritten (l + pos) := by
  unfold otherTailCell
  rw [tailCellWritten_eq, tailIdxFromZero_eq]
  unfold cellIndex
  omega

theorem leftTailCell_fixed (l1 pos : Nat) :
    leftTailCell true l1 pos = tailCellWritten (l1 + pos) := by
  unfold leftTailCell
  rw [tailCellWritten_eq, tailIdxFromZero_eq]
  unfold cellIndex
  simp only [if_true]
  omega

theorem leftTailCell_pinned (l1 pos : Nat) :
    (l1 % 8 + pos % 8 < 8 → leftTailCell false l1 pos = tailCellWritten (l1 + pos)) ∧
    (8 ≤ l1 % 8 + pos % 8 → leftTailCell false l1 pos + 1 = tailCellWritten (l1 + pos)) := by
  unfold leftTailCell
  rw [tailCellWritten_eq, tailIdxFromZero_eq]
  unfold cellIndex
  simp only [Bool.false_eq_true, if_false]
  constructor <;> intro h <;> omega

end Scryer.Order
