import ScryerModel.Model.Order
import Mathlib.Tactic.Linarith
import Mathlib.Tactic.Ring
/-!
Helper lemmas for C13 (`Model/Order.lean`): the standard order is a total preorder on all
terms, and a total order on normal ones.
-/
namespace Scryer.Order
open Scryer

/-! ### the laws on a triple, and lexicographic composition -/

/-- the facts a comparison must satisfy on a triple `a b c`, in terms of the three results
    `ab = cmp a b`, `bc = cmp b c`, `ac = cmp a c`. -/
structure Tri (ab bc ac : Ordering) : Prop where
  lt_lt : ab = .lt → bc = .lt → ac = .lt
  gt_gt : ab = .gt → bc = .gt → ac = .gt
  eq_l : ab = .eq → ac = bc
  eq_r : bc = .eq → ab = ac

theorem Tri.then' {ab bc ac ab' bc' ac' : Ordering} (h : Tri ab bc ac)
    (h' : ab = .eq → bc = .eq → Tri ab' bc' ac') :
    Tri (ab.then ab') (bc.then bc') (ac.then ac') := by
  obtain ⟨h1, h2, h3, h4⟩ := h
  cases ab <;> cases bc <;> cases ac <;> simp at h1 h2 h3 h4 <;>
    first
    | (obtain ⟨g1, g2, g3, g4⟩ := h' rfl rfl
       constructor <;> simpa using ‹_›)
    | (constructor <;> simp)

theorem Tri.then {ab bc ac ab' bc' ac' : Ordering} (h : Tri ab bc ac) (h' : Tri ab' bc' ac') :
    Tri (ab.then ab') (bc.then bc') (ac.then ac') := h.then' (fun _ _ => h')

theorem tri_nat (x y z : Nat) : Tri (compare x y) (compare y z) (compare x z) := by
  constructor
  · simp only [Nat.compare_eq_lt]; omega
  · simp only [Nat.compare_eq_gt]; omega
  · intro h; rw [Nat.compare_eq_eq] at h; subst h; rfl
  · intro h; rw [Nat.compare_eq_eq] at h; subst h; rfl

theorem tri_int (x y z : Int) : Tri (compare x y) (compare y z) (compare x z) := by
  constructor
  · simp only [Int.compare_eq_lt]; omega
  · simp only [Int.compare_eq_gt]; omega
  · intro h; rw [Int.compare_eq_eq] at h; subst h; rfl
  · intro h; rw [Int.compare_eq_eq] at h; subst h; rfl

theorem Tri.const (o : Ordering) : Tri o o o := by
  constructor <;> simp

section cmpList
variable {α : Type} {cmp : α → α → Ordering}

@[simp] theorem cmpList_nil_nil : cmpList cmp [] [] = .eq := rfl
@[simp] theorem cmpList_nil_cons (b : α) (bs) : cmpList cmp [] (b :: bs) = .lt := rfl
@[simp] theorem cmpList_cons_nil (a : α) (as) : cmpList cmp (a :: as) [] = .gt := rfl
@[simp] theorem cmpList_cons_cons (a b : α) (as bs) :
    cmpList cmp (a :: as) (b :: bs) = (cmp a b).then (cmpList cmp as bs) := rfl

theorem cmpList_refl (as : List α) (h : ∀ a ∈ as, cmp a a = .eq) : cmpList cmp as as = .eq := by
  induction as with
  | nil => rfl
  | cons a as ih =>
    simp [h a (by simp), ih (fun x hx => h x (by simp [hx]))]

theorem cmpList_swap (as bs : List α) (h : ∀ a ∈ as, ∀ b ∈ bs, cmp b a = (cmp a b).swap) :
    cmpList cmp bs as = (cmpList cmp as bs).swap := by
  induction as generalizing bs with
  | nil => cases bs <;> rfl
  | cons a as ih =>
    cases bs with
    | nil => rfl
    | cons b bs =>
      simp only [cmpList_cons_cons, Ordering.swap_then]
      rw [h a (by simp) b (by simp), ih bs (fun x hx y hy => h x (by simp [hx]) y (by simp [hy]))]

theorem cmpList_tri (as bs cs : List α)
    (h : ∀ a ∈ as, ∀ b ∈ bs, ∀ c ∈ cs, Tri (cmp a b) (cmp b c) (cmp a c)) :
    Tri (cmpList cmp as bs) (cmpList cmp bs cs) (cmpList cmp as cs) := by
  induction as generalizing bs cs with
  | nil =>
    cases bs <;> cases cs <;> constructor <;> simp
  | cons a as ih =>
    cases bs with
    | nil => cases cs <;> constructor <;> simp
    | cons b bs =>
      cases cs with
      | nil => constructor <;> simp
      | cons c cs =>
        simp only [cmpList_cons_cons]
        exact (h a (by simp) b (by simp) c (by simp)).then
          (ih bs cs (fun x hx y hy z hz => h x (by simp [hx]) y (by simp [hy]) z (by simp [hz])))

theorem cmpList_eq_iff (as bs : List α) (h : ∀ a ∈ as, ∀ b ∈ bs, (cmp a b = .eq ↔ a = b)) :
    cmpList cmp as bs = .eq ↔ as = bs := by
  induction as generalizing bs with
  | nil => cases bs <;> simp
  | cons a as ih =>
    cases bs with
    | nil => simp
    | cons b bs =>
      simp only [cmpList_cons_cons, Ordering.then_eq_eq, List.cons.injEq]
      rw [h a (by simp) b (by simp), ih bs (fun x hx y hy => h x (by simp [hx]) y (by simp [hy]))]

theorem cmpList_append (p as bs : List α) (h : ∀ a ∈ p, cmp a a = .eq) :
    cmpList cmp (p ++ as) (p ++ bs) = cmpList cmp as bs := by
  induction p with
  | nil => rfl
  | cons x p ih =>
    simp [h x (by simp), ih (fun y hy => h y (by simp [hy]))]

end cmpList
/-! ### integers and rationals -/

theorem compare_sub_zero (u v : Int) : compare u v = compare (u - v) 0 := by
  rcases lt_trichotomy u v with h | h | h
  · rw [Int.compare_eq_lt.mpr h, Int.compare_eq_lt.mpr (by omega)]
  · rw [Int.compare_eq_eq.mpr h, Int.compare_eq_eq.mpr (by omega)]
  · rw [Int.compare_eq_gt.mpr h, Int.compare_eq_gt.mpr (by omega)]

theorem neg_of_mul_neg_pos {X p : Int} (hp : 0 < p) (h : X * p < 0) : X < 0 := by
  by_contra hx
  have := mul_nonneg (not_lt.mp hx) (le_of_lt hp)
  linarith

theorem pos_of_mul_pos_pos {X p : Int} (hp : 0 < p) (h : 0 < X * p) : 0 < X := by
  by_contra hx
  have := mul_nonpos_of_nonpos_of_nonneg (not_lt.mp hx) (le_of_lt hp)
  linarith

theorem sign_transfer (X Y p q : Int) (hp : 0 < p) (hq : 0 < q) (h : X * p = Y * q) :
    compare X 0 = compare Y 0 := by
  rcases lt_trichotomy Y 0 with hy | hy | hy
  · have : X * p < 0 := by rw [h]; exact mul_neg_of_neg_of_pos hy hq
    have hx : X < 0 := neg_of_mul_neg_pos hp this
    rw [Int.compare_eq_lt.mpr hx, Int.compare_eq_lt.mpr hy]
  · subst hy
    have : X * p = 0 := by rw [h]; simp
    have hx : X = 0 := by
      rcases mul_eq_zero.mp this with h0 | h0
      · exact h0
      · omega
    rw [hx]
  · have : 0 < X * p := by rw [h]; exact mul_pos hy hq
    have hx : 0 < X := pos_of_mul_pos_pos hp this
    rw [Int.compare_eq_gt.mpr hx, Int.compare_eq_gt.mpr hy]

theorem ratCmp_refl (a : Int × Nat) : ratCmp a a = .eq := by
  unfold ratCmp; exact Int.compare_eq_eq.mpr rfl

theorem ratCmp_swap (a b : Int × Nat) : ratCmp b a = (ratCmp a b).swap := by
  unfold ratCmp; rw [Int.compare_swap]

theorem ratCmp_tri (a b c : Int × Nat) (ha : 0 < a.2) (hb : 0 < b.2) (hc : 0 < c.2) :
    Tri (ratCmp a b) (ratCmp b c) (ratCmp a c) := by
  obtain ⟨a1, a2⟩ := a; obtain ⟨b1, b2⟩ := b; obtain ⟨c1, c2⟩ := c
  simp only at ha hb hc
  have ha' : (0 : Int) < a2 := by exact_mod_cast ha
  have hb' : (0 : Int) < b2 := by exact_mod_cast hb
  have hc' : (0 : Int) < c2 := by exact_mod_cast hc
  have key : (a1 * c2 - c1 * a2) * b2 = (a1 * b2 - b1 * a2) * c2 + (b1 * c2 - c1 * b2) * a2 := by
    ring
  unfold ratCmp; simp only
  constructor
  · simp only [Int.compare_eq_lt]
    intro h1 h2
    have e1 : (a1 * b2 - b1 * a2) * c2 < 0 := mul_neg_of_neg_of_pos (by omega) hc'
    have e2 : (b1 * c2 - c1 * b2) * a2 < 0 := mul_neg_of_neg_of_pos (by omega) ha'
    have : (a1 * c2 - c1 * a2) * b2 < 0 := by rw [key]; omega
    have := neg_of_mul_neg_pos hb' this
    omega
  · simp only [Int.compare_eq_gt]
    intro h1 h2
    have e1 : 0 < (a1 * b2 - b1 * a2) * c2 := mul_pos (by omega) hc'
    have e2 : 0 < (b1 * c2 - c1 * b2) * a2 := mul_pos (by omega) ha'
    have : 0 < (a1 * c2 - c1 * a2) * b2 := by rw [key]; omega
    have := pos_of_mul_pos_pos hb' this
    omega
  · intro h
    rw [Int.compare_eq_eq] at h
    rw [compare_sub_zero (a1 * c2), compare_sub_zero (b1 * c2)]
    apply sign_transfer _ _ b2 a2 hb' ha'
    rw [key, h]; ring
  · intro h
    rw [Int.compare_eq_eq] at h
    rw [compare_sub_zero (a1 * b2), compare_sub_zero (a1 * c2)]
    apply sign_transfer _ _ c2 b2 hc' hb'
    rw [key, h]; ring

/-! ### floats -/

/-- order on `Option Int` with `none` (NaN) on top. -/
def optCmp : Option Int → Option Int → Ordering
  | some a, some b => compare a b
  | none, none => .eq
  | none, some _ => .gt
  | some _, none => .lt

theorem two_pow_pos' : (0 : Int) < ((2 ^ 1075 : Nat) : Int) := by
  exact_mod_cast Nat.pos_of_ne_zero (by positivity)

theorem ratCmp_same_den (a b : Int) (D : Nat) (hD : 0 < D) :
    ratCmp (a, D) (b, D) = compare a b := by
  unfold ratCmp; simp only
  have hD' : (0 : Int) < D := by exact_mod_cast hD
  rcases lt_trichotomy a b with h | h | h
  · rw [Int.compare_eq_lt.mpr h, Int.compare_eq_lt.mpr (mul_lt_mul_of_pos_right h hD')]
  · subst h; rw [Int.compare_eq_eq.mpr rfl, Int.compare_eq_eq.mpr rfl]
  · rw [Int.compare_eq_gt.mpr h, Int.compare_eq_gt.mpr (mul_lt_mul_of_pos_right h hD')]

theorem fltCmp_eq_optCmp (x y : Nat) : fltCmp x y = optCmp (fltScaled x) (fltScaled y) := by
  unfold fltCmp fltToRat
  cases hx : fltScaled x <;> cases hy : fltScaled y <;> simp only [Option.map, optCmp]
  exact ratCmp_same_den _ _ _ (Nat.pos_of_ne_zero (by positivity))

theorem optCmp_refl (a : Option Int) : optCmp a a = .eq := by
  cases a <;> simp [optCmp]

theorem optCmp_swap (a b : Option Int) : optCmp b a = (optCmp a b).swap := by
  cases a <;> cases b <;> simp [optCmp, Int.compare_swap]

theorem optCmp_tri (a b c : Option Int) : Tri (optCmp a b) (optCmp b c) (optCmp a c) := by
  cases a <;> cases b <;> cases c <;> simp only [optCmp] <;>
    first
    | exact tri_int _ _ _
    | (constructor <;> simp)

theorem fltCmp_refl (x : Nat) : fltCmp x x = .eq := by rw [fltCmp_eq_optCmp, optCmp_refl]
theorem fltCmp_swap (x y : Nat) : fltCmp y x = (fltCmp x y).swap := by
  rw [fltCmp_eq_optCmp, fltCmp_eq_optCmp, optCmp_swap]
theorem fltCmp_tri (x y z : Nat) : Tri (fltCmp x y) (fltCmp y z) (fltCmp x z) := by
  simp only [fltCmp_eq_optCmp]; exact optCmp_tri _ _ _

/-! ### atoms: UTF-8 byte order = code point order -/

/-- `u` is smaller than `v` and this is decided at some position present in both. -/
def declt : List Nat → List Nat → Prop
  | a :: u, b :: v => a < b ∨ (a = b ∧ declt u v)
  | _, _ => False

theorem declt_append (u v r1 r2 : List Nat) (h : declt u v) :
    cmpList compare (u ++ r1) (v ++ r2) = .lt := by
  induction u generalizing v with
  | nil => simp [declt] at h
  | cons a u ih =>
    cases v with
    | nil => simp [declt] at h
    | cons b v =>
      simp only [declt] at h
      simp only [List.cons_append, cmpList_cons_cons]
      rcases h with h | ⟨h, h'⟩
      · rw [Nat.compare_eq_lt.mpr h]; rfl
      · subst h; rw [Nat.compare_eq_eq.mpr rfl, ih v h']; rfl

theorem utf8_declt (c d : Nat) (h : c < d) (hd : d < 0x110000) : declt (utf8 c) (utf8 d) := by
  unfold utf8
  split_ifs <;> simp only [declt] <;> omega

theorem utf8_ne_nil (c : Nat) : utf8 c ≠ [] := by
  unfold utf8; split_ifs <;> simp

theorem cmp_utf8_append (c d : Nat) (hc : c < 0x110000) (hd : d < 0x110000) (r1 r2 : List Nat) :
    cmpList compare (utf8 c ++ r1) (utf8 d ++ r2) = (compare c d).then (cmpList compare r1 r2) := by
  rcases lt_trichotomy c d with h | h | h
  · rw [Nat.compare_eq_lt.mpr h, declt_append _ _ _ _ (utf8_declt c d h hd)]; rfl
  · subst h
    rw [Nat.compare_eq_eq.mpr rfl, cmpList_append _ _ _ (fun a _ => Nat.compare_eq_eq.mpr rfl)]; rfl
  · rw [Nat.compare_eq_gt.mpr h,
      cmpList_swap (utf8 d ++ r2) (utf8 c ++ r1) (fun a _ b _ => (Nat.compare_swap a b).symm),
      declt_append _ _ _ _ (utf8_declt d c h hc)]; rfl

/-- byte-wise lexicographic order of UTF-8 texts = lexicographic order of the code points. -/
theorem utf8s_cmp (xs ys : List Nat) (hx : ∀ x ∈ xs, x < 0x110000) (hy : ∀ y ∈ ys, y < 0x110000) :
    cmpList compare (utf8s xs) (utf8s ys) = cmpList compare xs ys := by
  induction xs generalizing ys with
  | nil =>
    cases ys with
    | nil => rfl
    | cons y ys =>
      simp only [utf8s, List.flatMap_nil, List.flatMap_cons, cmpList_nil_cons]
      cases hu : utf8 y with
      | nil => exact absurd hu (utf8_ne_nil y)
      | cons b bs => rfl
  | cons x xs ih =>
    cases ys with
    | nil =>
      simp only [utf8s, List.flatMap_nil, List.flatMap_cons, cmpList_cons_nil]
      cases hu : utf8 x with
      | nil => exact absurd hu (utf8_ne_nil x)
      | cons b bs => rfl
    | cons y ys =>
      have := ih ys (fun a ha => hx a (by simp [ha])) (fun a ha => hy a (by simp [ha]))
      simp only [utf8s, List.flatMap_cons, cmpList_cons_cons] at this ⊢
      rw [cmp_utf8_append x y (hx x (by simp)) (hy y (by simp)), this]

theorem codes_lt (s : String) : ∀ x ∈ codes s, x < 0x110000 := by
  intro x hx
  simp only [codes, List.mem_map] at hx
  obtain ⟨c, _, rfl⟩ := hx
  have := c.valid; unfold Char.toNat; rcases this with h | h <;> omega

theorem atomCmpBytes_eq (s t : String) : atomCmpBytes s t = atomCmp s t :=
  utf8s_cmp _ _ (codes_lt s) (codes_lt t)


end Scryer.Order
