import ScryerModel.Model.Traverse
/-
  C34 — helper lemmas: the explicit-stack walkers of `Model/Traverse.lean` refine the recursive
  definitions, take exactly `size` iterations and never hold more than `size` work-list entries.
-/
namespace Scryer.Traverse

/-! ### sizes -/

theorem sizeL_append (a b : List Tree) : sizeL (a ++ b) = sizeL a + sizeL b := by
  induction a with
  | nil => simp [sizeL]
  | cons t ts ih => simp [sizeL, ih]; omega

theorem preorderL_append (a b : List Tree) : preorderL (a ++ b) = preorderL a ++ preorderL b := by
  induction a with
  | nil => simp [preorderL]
  | cons t ts ih => simp [preorderL, ih]

theorem Tree.size_pos (t : Tree) : 0 < t.size := by
  cases t <;> simp [Tree.size] <;> omega

theorem Tree.size_eq (t : Tree) : t.size = 1 + sizeL t.args := by
  cases t <;> simp [Tree.size, Tree.args, sizeL]

theorem preorder_eq (t : Tree) : preorder t = t.head :: preorderL t.args := by
  cases t <;> simp [preorder, Tree.args, Tree.head, preorderL]

theorem length_le_sizeL (l : List Tree) : l.length ≤ sizeL l := by
  induction l with
  | nil => simp [sizeL]
  | cons t ts ih => have := t.size_pos; simp [sizeL]; omega

theorem sizeL_cons (t : Tree) (ts : List Tree) :
    sizeL (t :: ts) = 1 + sizeL (t.args ++ ts) := by
  simp [sizeL, sizeL_append, t.size_eq]; omega

theorem preorderL_cons (t : Tree) (ts : List Tree) :
    preorderL (t :: ts) = t.head :: preorderL (t.args ++ ts) := by
  simp [preorderL, preorderL_append, preorder_eq]

mutual
  theorem preorder_length (t : Tree) : (preorder t).length = t.size := by
    match t with
    | .var _ => simp [preorder, Tree.size]
    | .atom _ => simp [preorder, Tree.size]
    | .node f as => simp [preorder, Tree.size, preorderL_length as]; omega
  theorem preorderL_length (ts : List Tree) : (preorderL ts).length = sizeL ts := by
    match ts with
    | [] => simp [preorderL, sizeL]
    | t :: r => simp [preorderL, sizeL, preorder_length t, preorderL_length r]
end

mutual
  theorem depth_le_size (t : Tree) : t.depth ≤ t.size := by
    match t with
    | .var _ => simp [Tree.depth, Tree.size]
    | .atom _ => simp [Tree.depth, Tree.size]
    | .node f as => have := depthL_le_sizeL as; simp [Tree.depth, Tree.size]; omega
  theorem depthL_le_sizeL (ts : List Tree) : depthL ts ≤ sizeL ts := by
    match ts with
    | [] => simp [depthL, sizeL]
    | t :: r =>
      have := depth_le_size t; have := depthL_le_sizeL r
      simp [depthL, sizeL]; omega
end

/-! ### the pre-order machine -/

theorem run_nil (fuel : Nat) (s : PState) (h : s.stack = []) : run fuel s = s := by
  cases fuel with
  | zero => rfl
  | succ n => simp [run, h]

theorem run_cons (n : Nat) (s : PState) (t : Tree) (r : List Tree) (h : s.stack = t :: r) :
    run (n + 1) s = run n (step s) := by
  simp [run, h]

theorem step_cons (s : PState) (t : Tree) (r : List Tree) (h : s.stack = t :: r) :
    step s = { stack := t.args ++ r, len := s.len - 1 + t.args.length, out := t.head :: s.out,
               steps := s.steps + 1, maxStack := max s.maxStack (s.len - 1 + t.args.length) } := by
  simp [step, h]

/-- Full specification of the loop from any state whose `len` field is right. -/
theorem run_spec : ∀ (fuel : Nat) (s : PState), s.len = s.stack.length → sizeL s.stack ≤ fuel →
    (run fuel s).stack = [] ∧
    (run fuel s).len = 0 ∧
    (run fuel s).out = (preorderL s.stack).reverse ++ s.out ∧
    (run fuel s).steps = s.steps + sizeL s.stack ∧
    (run fuel s).maxStack ≤ max s.maxStack (sizeL s.stack) ∧
    s.maxStack ≤ (run fuel s).maxStack := by
  intro fuel
  induction fuel with
  | zero =>
    intro s hl hs
    have h0 : s.stack = [] := by
      have := length_le_sizeL s.stack
      exact List.length_eq_zero_iff.mp (by omega)
    simp [run, h0, preorderL, sizeL, hl]
  | succ n ih =>
    intro s hl hs
    match hst : s.stack with
    | [] => simp [run, hst, preorderL, sizeL, hl]
    | t :: r =>
      rw [run_cons n s t r hst, step_cons s t r hst]
      rw [hst, sizeL_cons] at hs
      have hlen : s.len - 1 + t.args.length = (t.args ++ r).length := by
        simp [hl, hst]; omega
      have hle := length_le_sizeL (t.args ++ r)
      obtain ⟨h1, h2, h3, h4, h5, h6⟩ := ih
        { stack := t.args ++ r, len := s.len - 1 + t.args.length, out := t.head :: s.out,
          steps := s.steps + 1, maxStack := max s.maxStack (s.len - 1 + t.args.length) }
        hlen (by simp; omega)
      refine ⟨h1, h2, ?_, ?_, ?_, ?_⟩
      · rw [h3, preorderL_cons]; simp
      · rw [h4, sizeL_cons]; simp; omega
      · rw [sizeL_cons]; simp at h5 ⊢; omega
      · simp at h6; omega

/-- With less fuel than nodes the loop has not finished (so it takes exactly `size` iterations). -/
theorem run_short : ∀ (fuel : Nat) (s : PState), fuel < sizeL s.stack → (run fuel s).stack ≠ [] := by
  intro fuel
  induction fuel with
  | zero =>
    intro s h
    simp [run]
    intro h0; simp [h0, sizeL] at h
  | succ n ih =>
    intro s h
    match hst : s.stack with
    | [] => simp [hst, sizeL] at h
    | t :: r =>
      rw [run_cons n s t r hst]
      apply ih
      rw [hst, sizeL_cons] at h
      simp [step_cons s t r hst]; omega

theorem run_steps_le : ∀ (fuel : Nat) (s : PState), (run fuel s).steps ≤ s.steps + fuel := by
  intro fuel
  induction fuel with
  | zero => intro s; simp [run]
  | succ n ih =>
    intro s
    match hst : s.stack with
    | [] => simp [run, hst]
    | t :: r =>
      rw [run_cons n s t r hst]
      have := ih (step s)
      simp [step_cons s t r hst] at this ⊢; omega

@[simp] theorem init_stack (t : Tree) : (PState.init t).stack = [t] := rfl
@[simp] theorem init_len (t : Tree) : (PState.init t).len = 1 := rfl
@[simp] theorem init_out (t : Tree) : (PState.init t).out = [] := rfl
@[simp] theorem init_steps (t : Tree) : (PState.init t).steps = 0 := rfl
@[simp] theorem init_maxStack (t : Tree) : (PState.init t).maxStack = 1 := rfl
@[simp] theorem sizeL_single (t : Tree) : sizeL [t] = t.size := by simp [sizeL]
@[simp] theorem preorderL_single (t : Tree) : preorderL [t] = preorder t := by simp [preorderL]

/-- the loop never grows the amount of work left -/
theorem run_sizeL_le : ∀ (n : Nat) (s : PState), sizeL (run n s).stack ≤ sizeL s.stack := by
  intro n
  induction n with
  | zero => intro s; simp [run]
  | succ n ih =>
    intro s
    match hst : s.stack with
    | [] => simp [run, hst]
    | a :: r =>
      rw [run_cons n s a r hst]
      have h := ih (step s)
      have h2 : (step s).stack = a.args ++ r := by rw [step_cons s a r hst]
      rw [h2] at h
      rw [sizeL_cons]; omega

/-- once finished, one more unit of fuel changes nothing -/
theorem run_succ_of_done : ∀ (n : Nat) (s : PState), (run n s).stack = [] → run (n + 1) s = run n s := by
  intro n
  induction n with
  | zero => intro s hs0; simp [run] at hs0; simp [run, hs0]
  | succ n ihn =>
    intro s hs0
    match hst : s.stack with
    | [] => simp [run, hst]
    | a :: r =>
      rw [run_cons (n + 1) s a r hst, run_cons n s a r hst]
      rw [run_cons n s a r hst] at hs0
      exact ihn _ hs0

/-! ### fold version -/

theorem foldIter_spec {α : Type} (f : α → Head → α) :
    ∀ (fuel : Nat) (st : List Tree) (acc : α), sizeL st ≤ fuel →
      foldIter f fuel st acc = (preorderL st).foldl f acc := by
  intro fuel
  induction fuel with
  | zero =>
    intro st acc h
    have h0 : st = [] := by
      have := length_le_sizeL st
      exact List.length_eq_zero_iff.mp (by omega)
    simp [foldIter, h0, preorderL]
  | succ n ih =>
    intro st acc h
    match st with
    | [] => simp [foldIter, preorderL]
    | t :: r =>
      rw [sizeL_cons] at h
      simp only [foldIter]
      rw [ih _ _ (by omega), preorderL_cons]; simp

/-! ### pair iterator -/

theorem cmpRecL_zip (as bs : List Tree) : cmpRecL as bs = cmpPairs (as.zip bs) := by
  induction as generalizing bs with
  | nil => simp [cmpRecL, cmpPairs]
  | cons a as ih =>
    cases bs with
    | nil => simp [cmpRecL, cmpPairs]
    | cons b bs => simp [cmpRecL, cmpPairs, ih]

theorem cmpPairs_append (u w : List (Tree × Tree)) :
    cmpPairs (u ++ w) = (cmpPairs u).then (cmpPairs w) := by
  induction u with
  | nil => simp [cmpPairs, Ordering.then]
  | cons p u ih =>
    obtain ⟨a, b⟩ := p
    simp [cmpPairs, ih]
    cases cmpRec a b <;> simp [Ordering.then]

/-- one unfolding of the recursive comparison in terms of heads and argument pairs -/
theorem cmpRec_unfold (a b : Tree) :
    cmpRec a b = (headCmp a.head b.head).then (cmpPairs (a.args.zip b.args)) := by
  cases a <;> cases b <;>
    simp [cmpRec, Tree.head, Tree.args, cmpPairs, cmpRecL_zip, headCmp, Ordering.then] <;>
    split <;> simp_all

/-- measure: nodes of the left components -/
def pairsSize : List (Tree × Tree) → Nat
  | [] => 0
  | (a, _) :: w => a.size + pairsSize w

theorem pairsSize_append (u w : List (Tree × Tree)) :
    pairsSize (u ++ w) = pairsSize u + pairsSize w := by
  induction u with
  | nil => simp [pairsSize]
  | cons p u ih => obtain ⟨a, b⟩ := p; simp [pairsSize, ih]; omega

theorem pairsSize_zip_le (as bs : List Tree) : pairsSize (as.zip bs) ≤ sizeL as := by
  induction as generalizing bs with
  | nil => simp [pairsSize, sizeL]
  | cons a as ih =>
    cases bs with
    | nil => simp [pairsSize]
    | cons b bs => have := ih bs; simp [pairsSize, sizeL]; omega

theorem cmpIter_spec : ∀ (fuel : Nat) (w : List (Tree × Tree)), pairsSize w ≤ fuel →
    cmpIter fuel w = some (cmpPairs w) := by
  intro fuel
  induction fuel with
  | zero =>
    intro w h
    match w with
    | [] => simp [cmpIter, cmpPairs]
    | (a, b) :: w => have := a.size_pos; simp [pairsSize] at h; omega
  | succ n ih =>
    intro w h
    match w with
    | [] => simp [cmpIter, cmpPairs]
    | (a, b) :: w =>
      simp only [cmpIter, cmpPairs]
      rw [cmpRec_unfold]
      have hsz : pairsSize (a.args.zip b.args ++ w) ≤ n := by
        have := pairsSize_zip_le a.args b.args
        have := a.size_eq
        simp [pairsSize, pairsSize_append] at h ⊢; omega
      cases hh : headCmp a.head b.head with
      | eq => simp [ih _ hsz, cmpPairs_append, Ordering.then]
      | lt => simp [Ordering.then]
      | gt => simp [Ordering.then]

mutual
  theorem cmpRec_refl (t : Tree) : cmpRec t t = .eq := by
    match t with
    | .var i => simp [cmpRec, Tree.head, headCmp]
    | .atom i => simp [cmpRec, Tree.head, headCmp]
    | .node f as => simp [cmpRec, headCmp, Ordering.then, cmpRecL_refl as]
  theorem cmpRecL_refl (ts : List Tree) : cmpRecL ts ts = .eq := by
    match ts with
    | [] => simp [cmpRecL]
    | t :: r => simp [cmpRecL, cmpRec_refl t, cmpRecL_refl r, Ordering.then]
end

/-! ### shapes -/

theorem wrapN_size (w : Tree → Tree) (k : Nat) (hw : ∀ t, (w t).size = t.size + k) :
    ∀ n t, (wrapN n w t).size = t.size + n * k := by
  intro n
  induction n with
  | zero => intro t; simp [wrapN]
  | succ n ih => intro t; simp [wrapN, ih, hw, Nat.succ_mul]; omega

theorem wrapN_depth (w : Tree → Tree) (hw : ∀ t, (w t).depth = t.depth + 1) :
    ∀ n t, (wrapN n w t).depth = t.depth + n := by
  intro n
  induction n with
  | zero => intro t; simp [wrapN]
  | succ n ih => intro t; simp [wrapN, ih, hw]; omega

end Scryer.Traverse
