import ScryerModel.Model.AllSolRun
import ScryerModel.Proofs.Solve
/-
Fuel monotonicity of `Scryer.AllSol.solveX` (the interpreter of Model/AllSolRun.lean): a run that
is not out of fuel is unchanged by more fuel. Reuses the lemmas of Proofs/Solve.lean, whose
`step_mono` is parametric in the recursive call.
-/
namespace Scryer.AllSol
open Scryer Scryer.Solve

theorem canBeList_mono (k n : Nat) (s : St) (l : Term) (c c' : Unit → Res)
    (hc : (c ()).oof = false → c' () = c ())
    (h : (canBeList n s l c).oof = false) : canBeList (n + k) s l c' = canBeList n s l c := by
  unfold canBeList at h ⊢
  cases hp : isPartialList n s.σ l with
  | none => rw [hp] at h; simp at h
  | some b =>
    rw [hp] at h; rw [isPartialList_mono k n s.σ l b hp]
    cases b with
    | false => exact raise_mono k n _ _ h
    | true => exact hc h

theorem findallX_mono {rec rec' : Term → St → Res} (hx : RExt rec rec') (k n : Nat) (s : St)
    (t g l tl : Term) (h : (findallX rec n s t g l tl).oof = false) :
    findallX rec' (n + k) s t g l tl = findallX rec n s t g l tl := by
  unfold findallX at h ⊢
  refine canBeList_mono k n s l _ _ ?_ h
  intro h
  refine canBeList_mono k n s tl _ _ ?_ h
  intro h
  cases hG : (callGoal rec n s g []).oof with
  | true => simp [hG] at h
  | false =>
    rw [callGoal_mono hx k n s g [] hG]
    simp only [hG, Bool.false_eq_true, if_false] at h ⊢
    cases he : (callGoal rec n s g []).exc with
    | some e => rfl
    | none =>
      simp only [he] at h ⊢
      cases hi : instances n t s.ctr (callGoal rec n s g []).sols with
      | none => rw [hi] at h; simp at h
      | some ts =>
        rw [hi] at h; rw [instances_mono k n t _ _ ts hi]
        simp only at h ⊢
        cases hu : unify n s.σ l (Term.ofList ts tl) with
        | none => rw [hu] at h; simp at h
        | some o => rw [unify_mono k n s.σ l _ o hu]

theorem groupAnswers_mono (k n : Nat) (σ : Subst) (c' : Nat) (ws l : Term) :
    ∀ (gs : List (Term × List Term)) (r : List St),
      groupAnswers n σ c' ws l gs = some r → groupAnswers (n + k) σ c' ws l gs = some r := by
  intro gs
  induction gs with
  | nil => intro r h; simpa [groupAnswers] using h
  | cons g gs ih =>
    intro r h
    obtain ⟨w, ts⟩ := g
    simp only [groupAnswers] at h ⊢
    cases hu : unify n σ w ws with
    | none => simp [hu] at h
    | some o =>
      rw [hu] at h; rw [unify_mono k n σ w ws o hu]
      cases o with
      | none => exact ih r h
      | some σ1 =>
        simp only at h ⊢
        cases hu2 : unify n σ1 l (Term.ofList ts) with
        | none => simp [hu2] at h
        | some o2 =>
          rw [hu2] at h; rw [unify_mono k n σ1 l _ o2 hu2]
          cases o2 with
          | none => exact ih r h
          | some σ2 =>
            simp only at h ⊢
            cases hr : groupAnswers n σ c' ws l gs with
            | none => simp [hr] at h
            | some r' => rw [hr] at h; rw [ih r' hr]; exact h

theorem analyse_mono (cfg : Cfg) (k n : Nat) (σ : Subst) (t' g' : Term)
    (r : Option (Term × List String × Subst)) (h : analyse cfg n σ t' g' = some r) :
    analyse cfg (n + k) σ t' g' = some r := by
  unfold analyse at h ⊢
  cases ha : analysePure cfg t' g' with
  | fail => rw [ha] at h; exact h
  | run goal ws al =>
    rw [ha] at h
    simp only at h ⊢
    cases hu : unify n σ (varList (al.map (·.1))) (varList (al.map (·.2))) with
    | none => simp [hu] at h
    | some o => rw [hu] at h; rw [unify_mono k n σ _ _ o hu]; exact h

theorem finishX_mono (k n : Nat) (σa : Subst) (c' : Nat) (wsT l : Term) (ok : Bool)
    (groups : List (Term × List Term)) (h : (finishX n σa c' wsT l ok groups).oof = false) :
    finishX (n + k) σa c' wsT l ok groups = finishX n σa c' wsT l ok groups := by
  unfold finishX at h ⊢
  cases ok with
  | false => rfl
  | true =>
    simp only [if_true] at h ⊢
    cases hga : groupAnswers n σa (c' + 1) wsT l groups with
    | none => rw [hga] at h; simp at h
    | some sols => rw [groupAnswers_mono k n _ _ _ _ _ sols hga]

theorem bagofX_mono (cfg : Cfg) (isSet : Bool) {rec rec' : Term → St → Res} (hx : RExt rec rec')
    (k n : Nat) (s : St) (t g l : Term) (h : (bagofX cfg isSet rec n s t g l).oof = false) :
    bagofX cfg isSet rec' (n + k) s t g l = bagofX cfg isSet rec n s t g l := by
  unfold bagofX at h ⊢
  refine canBeList_mono k n s l _ _ ?_ h
  intro h
  cases ht : resolve n s.σ t with
  | none => simp [ht] at h
  | some t' =>
    cases hg : resolve n s.σ g with
    | none => simp [ht, hg] at h
    | some g' =>
      rw [resolve_mono k n s.σ t t' ht, resolve_mono k n s.σ g g' hg]
      simp only [ht, hg] at h ⊢
      cases ha : analyse cfg n s.σ t' g' with
      | none => simp [ha] at h
      | some o =>
        rw [analyse_mono cfg k n s.σ t' g' o ha]
        rw [ha] at h
        cases o with
        | none => rfl
        | some x =>
          obtain ⟨goal, ws, σa⟩ := x
          simp only at h ⊢
          cases hG : (callGoal rec n ⟨σa, s.ctr⟩ goal []).oof with
          | true => simp [hG] at h
          | false =>
            rw [callGoal_mono hx k n ⟨σa, s.ctr⟩ goal [] hG]
            simp only [hG, Bool.false_eq_true, if_false] at h ⊢
            cases he : (callGoal rec n ⟨σa, s.ctr⟩ goal []).exc with
            | some e => rfl
            | none =>
              simp only [he] at h ⊢
              cases hi : instances n (pairTerm (varList ws) t') s.ctr
                  (callGoal rec n ⟨σa, s.ctr⟩ goal []).sols with
              | none => rw [hi] at h; simp at h
              | some ps =>
                rw [hi] at h; rw [instances_mono k n _ _ _ ps hi]
                exact finishX_mono k n σa _ _ l _ _ h

theorem stepX_mono (cfg : Cfg) {rec rec' : Term → St → Res} (hx : RExt rec rec') (k n : Nat)
    (prog : Prog) (g : Term) (s : St) (h : (stepX cfg prog rec n g s).oof = false) :
    stepX cfg prog rec' (n + k) g s = stepX cfg prog rec n g s := by
  unfold stepX at h ⊢
  cases hc : classifyX g with
  | findall t g1 l tl => rw [hc] at h; exact findallX_mono hx k n s t g1 l tl h
  | bagof isSet t g1 l => rw [hc] at h; exact bagofX_mono cfg isSet hx k n s t g1 l h
  | «forall» c a => rw [hc] at h; exact hx _ s h
  | other =>
    rw [hc] at h
    simp only at h ⊢
    split
    · rename_i m g1
      simp only at h
      exact hx g1 s h
    · rename_i hne
      split at h
      · rename_i m g1
        exact absurd rfl (hne m g1)
      · exact step_mono hx k n prog g s h

/-- fuel monotonicity of the extended interpreter. -/
theorem solveX_mono (cfg : Cfg) (prog : Prog) (k : Nat) : ∀ (n : Nat) (g : Term) (s : St),
    (solveX cfg n prog g s).oof = false → solveX cfg (n + k) prog g s = solveX cfg n prog g s := by
  intro n
  induction n with
  | zero => intro g s h; simp [solveX] at h
  | succ n ih =>
    intro g s h
    rw [Nat.succ_add]
    simp only [solveX] at h ⊢
    exact stepX_mono cfg (fun g s hs => ih g s hs) k n prog g s h

end Scryer.AllSol
